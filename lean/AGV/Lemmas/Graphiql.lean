/-
  Helper lemmas for C34 (GraphiQL page: JavaScript string escaping, HTML escaping).
-/
import AGV.Model.Graphiql
import AGV.Spec.JsString
import AGV.Gen.AskamaEscape

namespace AGV.Lemmas.Graphiql
open AGV.Model.Graphiql AGV.Spec.JsString

-- ------------------------------------------------------------------ hex digits

theorem hexVal_hexDigit : ∀ d, d < 16 → hexVal (hexDigit d) = some d := by decide

/-- a hex digit character is none of the characters with a meaning in the contexts -/
theorem hexDigit_plain : ∀ d, d < 16 →
    hexDigit d ≠ '{' ∧ hexDigit d ≠ '\\' ∧ hexDigit d ≠ '\'' ∧ hexDigit d ≠ '\n' ∧ hexDigit d ≠ '\r' ∧
    hexDigit d ≠ '<' ∧ (hexDigit d).toNat ≠ 0 ∧ (hexDigit d).toNat ≠ 0x2028 ∧ (hexDigit d).toNat ≠ 0x2029 := by
  decide

theorem hex4_value (n : Nat) (h : n < 65536) :
    n / 4096 % 16 * 4096 + n / 256 % 16 * 256 + n / 16 % 16 * 16 + n % 16 = n := by omega

-- ------------------------------------------------------------------ evaluation steps

/-- a `\uXXXX` group evaluates to its code unit -/
theorem eval_uEsc (f : Nat) (c : Char) (rest : List Char) (h : c.toNat < 65536) :
    jsEvalF (f + 1) (uEsc c ++ rest) = (jsEvalF f rest).map (c.toNat :: ·) := by
  have h1 := hexDigit_plain (c.toNat / 4096 % 16) (by omega)
  simp only [uEsc, hex4, List.cons_append, List.nil_append, jsEvalF]
  simp only [show ('\\' : Char) ≠ '\'' by decide, show ¬(('\\' : Char) = '\n' ∨ ('\\' : Char) = '\r') by decide,
    if_false, ne_eq, not_true_eq_false, if_true, h1.1,
    hexVal_hexDigit _ (show c.toNat / 4096 % 16 < 16 by omega), hexVal_hexDigit _ (show c.toNat / 256 % 16 < 16 by omega),
    hexVal_hexDigit _ (show c.toNat / 16 % 16 < 16 by omega), hexVal_hexDigit _ (show c.toNat % 16 < 16 by omega),
    hex4_value _ h]

/-- an ordinary character evaluates to itself -/
theorem eval_plain (f : Nat) (c : Char) (rest : List Char)
    (h1 : c ≠ '\'') (h2 : c ≠ '\n') (h3 : c ≠ '\r') (h4 : c ≠ '\\') :
    jsEvalF (f + 1) (c :: rest) = (jsEvalF f rest).map (units c ++ ·) := by
  simp [jsEvalF, h1, h2, h3, h4]

/-- more fuel than needed does not matter is not required: we only use exact lower bounds -/
theorem uEsc_length (c : Char) : (uEsc c).length = 6 := rfl

-- ------------------------------------------------------------------ the repaired renderer

/-- a character the repaired renderer copies -/
def Plain (c : Char) : Prop := jsSpecials.contains c = false ∧ c ≠ '\\' ∧ isControlLike c = false

theorem scriptChar_none (table : Table) (c : Char) :
    (scriptChar table Defects.none c = uEsc c ∧ c.toNat < 65536) ∨ (scriptChar table Defects.none c = [c] ∧ Plain c) := by
  unfold scriptChar restChar Defects.none
  simp only [Bool.false_eq_true, if_false]
  by_cases h1 : jsSpecials.contains c = true
  · left
    refine ⟨by rw [if_pos h1], ?_⟩
    simp [jsSpecials] at h1
    rcases h1 with rfl | rfl | rfl | rfl | rfl <;> decide
  · have h1' : jsSpecials.contains c = false := by simpa using h1
    simp only [h1', Bool.false_eq_true, if_false]
    by_cases h2 : c = '\\'
    · left; subst h2; exact ⟨by simp, by decide⟩
    · simp only [h2, if_false]
      by_cases h3 : isControlLike c = true
      · left
        refine ⟨by simp [h3], ?_⟩
        simp [isControlLike] at h3
        omega
      · have h3' : isControlLike c = false := by simpa using h3
        right
        exact ⟨by simp [h3'], h1', h2, h3'⟩

theorem plain_facts (c : Char) (h : Plain c) :
    c ≠ '\'' ∧ c ≠ '\n' ∧ c ≠ '\r' ∧ c ≠ '\\' ∧ c ≠ '<' ∧ c.toNat ≠ 0 ∧ c.toNat ≠ 0x2028 ∧ c.toNat ≠ 0x2029 := by
  obtain ⟨h1, h2, h3⟩ := h
  simp [jsSpecials] at h1
  simp [isControlLike] at h3
  refine ⟨h1.2.2.1, ?_, ?_, h2, h1.2.2.2.1, ?_, ?_, ?_⟩
  · intro e; subst e; simp at h3
  · intro e; subst e; simp at h3
  · omega
  · omega
  · omega

/-- with enough fuel the repaired rendering of `x` evaluates to the UTF-16 form of `x` -/
theorem eval_render (table : Table) (x : List Char) :
    ∀ fuel, (renderScript table Defects.none x).length + 1 ≤ fuel →
      jsEvalF fuel (renderScript table Defects.none x) = some (utf16 x) := by
  induction x with
  | nil =>
    intro fuel h
    cases fuel with
    | zero => simp [renderScript] at h
    | succ f => simp [renderScript, jsEvalF, utf16]
  | cons c x ih =>
    intro fuel h
    have hr : renderScript table Defects.none (c :: x) = scriptChar table Defects.none c ++ renderScript table Defects.none x := by
      simp [renderScript]
    rw [hr] at h ⊢
    cases fuel with
    | zero => simp at h
    | succ f =>
      rcases scriptChar_none table c with ⟨he, hlt⟩ | ⟨he, hp⟩
      · rw [he] at h ⊢
        rw [eval_uEsc f c _ hlt, ih f (by simp [uEsc_length] at h; omega)]
        simp [utf16, units, unitsN, hlt]
      · rw [he] at h ⊢
        obtain ⟨p1, p2, p3, p4, _⟩ := plain_facts c hp
        simp only [List.cons_append, List.nil_append]
        rw [eval_plain f c _ p1 p2 p3 p4, ih f (by simp at h; omega)]
        simp [utf16]

theorem htmlPre_id (s : List Char) (h : ∀ c ∈ s, c ≠ '\r' ∧ c.toNat ≠ 0) : htmlPreAux false s = s := by
  induction s with
  | nil => rfl
  | cons c r ih =>
    have hc := h c (by simp)
    simp only [htmlPreAux, hc.1, if_false, Bool.false_eq_true, and_false, hc.2]
    rw [ih (fun d hd => h d (by simp [hd]))]

/-- every character of the repaired rendering is harmless in a quoted string inside a script -/
theorem mem_render (table : Table) (x : List Char) (ch : Char) (h : ch ∈ renderScript table Defects.none x) :
    ch ≠ '\'' ∧ ch ≠ '\n' ∧ ch ≠ '\r' ∧ ch ≠ '<' ∧ ch.toNat ≠ 0 ∧ ch.toNat ≠ 0x2028 ∧ ch.toNat ≠ 0x2029 := by
  have hx : ∀ d, d < 16 → (hexDigit d ≠ '\'' ∧ hexDigit d ≠ '\n' ∧ hexDigit d ≠ '\r' ∧ hexDigit d ≠ '<' ∧
      (hexDigit d).toNat ≠ 0 ∧ (hexDigit d).toNat ≠ 0x2028 ∧ (hexDigit d).toNat ≠ 0x2029) := by decide
  simp only [renderScript, List.mem_flatten, List.mem_map] at h
  obtain ⟨l, ⟨c, _, rfl⟩, hch⟩ := h
  rcases scriptChar_none table c with ⟨he, hlt⟩ | ⟨he, hp⟩
  · rw [he] at hch
    simp only [uEsc, hex4, List.mem_cons, List.not_mem_nil, or_false] at hch
    rcases hch with rfl | rfl | rfl | rfl | rfl | rfl
    · decide
    · decide
    all_goals exact hx _ (Nat.mod_lt _ (by decide))
  · rw [he] at hch
    have hcc : ch = c := by simpa using hch
    rw [hcc]
    obtain ⟨p1, p2, p3, _, p5, p6, p7, p8⟩ := plain_facts c hp
    exact ⟨p1, p2, p3, p5, p6, p7, p8⟩

theorem literalClosed_plain (c : Char) (r : List Char) (h : c ≠ '\\' ∧ c ≠ '\'' ∧ c ≠ '\n' ∧ c ≠ '\r') :
    literalClosed (c :: r) = literalClosed r := by
  rw [literalClosed.eq_def]; simp [h.1, h.2.1, h.2.2.1, h.2.2.2]

theorem literalClosed_esc (e : Char) (r : List Char) : literalClosed ('\\' :: e :: r) = literalClosed r := by
  rw [literalClosed.eq_def]; simp

theorem literalClosed_render (table : Table) (x : List Char) :
    literalClosed (renderScript table Defects.none x) = true := by
  have hx : ∀ d, d < 16 → (hexDigit d ≠ '\\' ∧ hexDigit d ≠ '\'' ∧ hexDigit d ≠ '\n' ∧ hexDigit d ≠ '\r') := by decide
  induction x with
  | nil => simp [renderScript, literalClosed]
  | cons c x ih =>
    have hr : renderScript table Defects.none (c :: x) = scriptChar table Defects.none c ++ renderScript table Defects.none x := by
      simp [renderScript]
    rw [hr]
    rcases scriptChar_none table c with ⟨he, hlt⟩ | ⟨he, hp⟩
    · rw [he]
      have a1 := hx (c.toNat / 4096 % 16) (Nat.mod_lt _ (by decide))
      have a2 := hx (c.toNat / 256 % 16) (Nat.mod_lt _ (by decide))
      have a3 := hx (c.toNat / 16 % 16) (Nat.mod_lt _ (by decide))
      have a4 := hx (c.toNat % 16) (Nat.mod_lt _ (by decide))
      simp only [uEsc, hex4, List.cons_append, List.nil_append]
      rw [literalClosed_esc, literalClosed_plain _ _ a1, literalClosed_plain _ _ a2, literalClosed_plain _ _ a3, literalClosed_plain _ _ a4, ih]
    · rw [he]
      obtain ⟨p1, p2, p3, p4, _⟩ := plain_facts c hp
      simp only [List.cons_append, List.nil_append]
      rw [literalClosed_plain _ _ ⟨p4, p1, p2, p3⟩, ih]

theorem matchCI_lt (c : Char) (h : matchCI '<' c = true) : c = '<' := by
  simp [matchCI] at h
  rcases h with h | h
  · exact h
  · have : ('<' : Char).toNat = 60 := by decide
    omega

theorem containsCI_lt (ps s : List Char) (h : containsCI ('<' :: ps) s = true) : '<' ∈ s := by
  induction s with
  | nil => simp [containsCI, prefixCI] at h
  | cons c cs ih =>
    simp only [containsCI, Bool.or_eq_true] at h
    rcases h with h | h
    · simp only [prefixCI, Bool.and_eq_true] at h
      have := matchCI_lt c h.1
      simp [this]
    · simp [ih h]

theorem scriptSafe_of_no_lt (s : List Char) (h : '<' ∉ s) : scriptSafe s = true := by
  unfold scriptSafe
  have h1 : containsCI ['<', '/', 's', 'c', 'r', 'i', 'p', 't'] s = false := by
    cases e : containsCI ['<', '/', 's', 'c', 'r', 'i', 'p', 't'] s
    · rfl
    · exact absurd (containsCI_lt _ _ e) h
  have h2 : containsCI ['<', '!', '-', '-'] s = false := by
    cases e : containsCI ['<', '!', '-', '-'] s
    · rfl
    · exact absurd (containsCI_lt _ _ e) h
  simp [h1, h2]

-- ------------------------------------------------------------------ title

abbrev tbl : Table := AGV.Gen.AskamaEscape.table

theorem lookup_cases (c : Char) :
    (c = '"' ∧ htmlEscChar tbl c = ['&', '#', '3', '4', ';']) ∨ (c = '&' ∧ htmlEscChar tbl c = ['&', '#', '3', '8', ';']) ∨
    (c = '\'' ∧ htmlEscChar tbl c = ['&', '#', '3', '9', ';']) ∨ (c = '<' ∧ htmlEscChar tbl c = ['&', '#', '6', '0', ';']) ∨
    (c = '>' ∧ htmlEscChar tbl c = ['&', '#', '6', '2', ';']) ∨ (c ≠ '&' ∧ c ≠ '<' ∧ htmlEscChar tbl c = [c]) := by
  by_cases h1 : c = '"'
  · left; subst h1; exact ⟨rfl, by decide⟩
  by_cases h2 : c = '&'
  · right; left; subst h2; exact ⟨rfl, by decide⟩
  by_cases h3 : c = '\''
  · right; right; left; subst h3; exact ⟨rfl, by decide⟩
  by_cases h4 : c = '<'
  · right; right; right; left; subst h4; exact ⟨rfl, by decide⟩
  by_cases h5 : c = '>'
  · right; right; right; right; left; subst h5; exact ⟨rfl, by decide⟩
  right; right; right; right; right
  refine ⟨h2, h4, ?_⟩
  have e1 : (c == '"') = false := by simp [h1]
  have e2 : (c == '&') = false := by simp [h2]
  have e3 : (c == '\'') = false := by simp [h3]
  have e4 : (c == '<') = false := by simp [h4]
  have e5 : (c == '>') = false := by simp [h5]
  simp [htmlEscChar, tbl, AGV.Gen.AskamaEscape.table, List.lookup, e1, e2, e3, e4, e5]

theorem decode_ref (f : Nat) (d1 d2 : Char) (rest : List Char) (h1 : isDecDigit d1 = true) (h2 : isDecDigit d2 = true)
    (hx : d1 ≠ 'x' ∧ d1 ≠ 'X') :
    htmlDecodeF (f + 1) ('&' :: '#' :: d1 :: d2 :: ';' :: rest) =
      numericChar ((d1.toNat - 48) * 10 + (d2.toNat - 48)) :: htmlDecodeF f rest := by
  simp [htmlDecodeF, decDigits, h1, h2, hx.1, hx.2, dropSemi, show isDecDigit ';' = false by decide]

theorem decode_escape (x : List Char) :
    ∀ fuel, (htmlEscape tbl x).length + 1 ≤ fuel → htmlDecodeF fuel (htmlEscape tbl x) = x := by
  induction x with
  | nil =>
    intro fuel h
    cases fuel with
    | zero => simp at h
    | succ f => simp [htmlEscape, htmlDecodeF]
  | cons c x ih =>
    intro fuel h
    have hr : htmlEscape tbl (c :: x) = htmlEscChar tbl c ++ htmlEscape tbl x := by simp [htmlEscape]
    rw [hr] at h ⊢
    cases fuel with
    | zero => simp at h
    | succ f =>
      rcases lookup_cases c with ⟨rfl, he⟩ | ⟨rfl, he⟩ | ⟨rfl, he⟩ | ⟨rfl, he⟩ | ⟨rfl, he⟩ | ⟨n1, _, he⟩
      all_goals rw [he] at h ⊢
      · simp only [List.cons_append, List.nil_append]
        rw [decode_ref f _ _ _ (by decide) (by decide) (by decide), ih f (by simp at h; omega)]
        congr 1
      · simp only [List.cons_append, List.nil_append]
        rw [decode_ref f _ _ _ (by decide) (by decide) (by decide), ih f (by simp at h; omega)]
        congr 1
      · simp only [List.cons_append, List.nil_append]
        rw [decode_ref f _ _ _ (by decide) (by decide) (by decide), ih f (by simp at h; omega)]
        congr 1
      · simp only [List.cons_append, List.nil_append]
        rw [decode_ref f _ _ _ (by decide) (by decide) (by decide), ih f (by simp at h; omega)]
        congr 1
      · simp only [List.cons_append, List.nil_append]
        rw [decode_ref f _ _ _ (by decide) (by decide) (by decide), ih f (by simp at h; omega)]
        congr 1
      · simp only [List.cons_append, List.nil_append]
        simp only [htmlDecodeF, ne_eq, n1, not_false_eq_true, if_true]
        rw [ih f (by simp at h; omega)]

theorem no_lt_in_escape (x : List Char) : '<' ∉ htmlEscape tbl x := by
  intro h
  simp only [htmlEscape, List.mem_flatten, List.mem_map] at h
  obtain ⟨l, ⟨c, _, rfl⟩, hch⟩ := h
  rcases lookup_cases c with ⟨rfl, he⟩ | ⟨rfl, he⟩ | ⟨rfl, he⟩ | ⟨rfl, he⟩ | ⟨rfl, he⟩ | ⟨_, n2, he⟩
  all_goals rw [he] at hch
  all_goals simp at hch
  exact n2 hch.symm

end AGV.Lemmas.Graphiql
