import AGV.Model.ExecDynamic
import AGV.Lemmas.ExecStatic

namespace AGV.Lemmas.ExecDynamic
open AGV.Core AGV.Model.ExecDynamic AGV.Spec.Exec
open AGV.Model.ExecStatic (joinAll nnWrap)
open AGV.Lemmas.ExecStatic (joinAll_mem mapIdx_mem)

/-- what the executor assumes of the recursive call on object values: a propagating error has
    been recorded, and a selection set never evaluates to `null` by itself -/
def RecOK (rec : String → Nat → List Sel → List PathSeg → Res) : Prop :=
  ∀ rt id ss p, ((rec rt id ss p).val = none → (rec rt id ss p).errs ≠ []) ∧
    (rec rt id ss p).val ≠ some .null

theorem normNull_ne_leafNull (D : Defects) (hD : D.nullValueNotNull = false) (rv : RVal) :
    normNull D rv ≠ .leaf .null := by
  intro e
  unfold normNull at e
  split at e <;> simp_all

theorem normNull_idem (D : Defects) (rv : RVal) : normNull D (normNull D rv) = normNull D rv := by
  cases rv with
  | leaf v =>
    cases v
    case null => by_cases h : D.nullValueNotNull = true <;> simp [normNull, h]
    all_goals simp [normNull]
  | _ => simp [normNull]

theorem serializeLeaf_ne_null (S : Schema) (n : String) (v v' : GValue) :
    serializeLeaf S n v = some v' → v' ≠ .null := by
  intro h hn
  subst hn
  unfold serializeLeaf at h
  split at h
  all_goals (try (simp at h; done))
  all_goals (try (split at h <;> simp at h))
  all_goals (try (split at h <;> simp at h))

theorem scalarCheck_null (D : Defects) (S : Schema) (t : TypeDef) (v : GValue) :
    scalarCheck D S t v = some .null → v = .null := by
  unfold scalarCheck
  intro h
  split at h
  · split at h
    · cases v <;> simp_all [jsonOf]
    · split at h
      · rename_i hv; cases v <;> simp_all [isNullV]
      · exact absurd rfl (serializeLeaf_ne_null S t.name v .null h)
  · split at h
    · rename_i hc
      cases v <;> simp_all [jsonOf, customValidate]
    · simp at h

theorem enumCheck_ne_null (t : TypeDef) (v : GValue) : enumCheck t v ≠ some .null := by
  unfold enumCheck
  split <;> (try split) <;> simp

theorem cap_errs (D : Defects) (r : Res) : (cap D r).errs = r.errs := by
  unfold cap; split <;> (try split) <;> rfl

theorem cap_none (D : Defects) (r : Res) : (cap D r).val = none → r.val = none := by
  unfold cap; split
  · intro _; assumption
  · rename_i v hv; intro h; rw [hv] at h; exact absurd h (by simp)

theorem cap_null (D : Defects) (r : Res) : (cap D r).val = some .null → r.val = some .null ∨ r.val = none := by
  unfold cap; split
  · intro _; right; assumption
  · intro h; left; exact h

/-- `resolve_value`: an error is never lost; a `null` value can only be a `Value::Null` -/
theorem resolveNamed_props (c : Model.ExecDynamic.Ctx) (rec : String → Nat → List Sel → List PathSeg → Res) (hrec : RecOK rec)
    (n : String) (rv : RVal) (ss : List Sel) (path : List PathSeg) (pos : Pos) :
    ((resolveNamed c rec n rv ss path pos).val = none → (resolveNamed c rec n rv ss path pos).errs ≠ []) ∧
    ((resolveNamed c rec n rv ss path pos).val = some .null → rv = .leaf .null) := by
  unfold resolveNamed
  split
  · simp [errAt]
  · rename_i t _
    cases hk : t.kind <;> simp only
    · -- scalar
      split
      · rename_i v
        split
        · rename_i v' hv'
          simp
          intro e; subst e
          rw [scalarCheck_null _ _ _ _ hv']
        · simp [errAt]
      · simp [errAt]
    · -- object
      split
      · rename_i ty id
        exact ⟨(hrec n id ss path).1, fun h => absurd h (hrec n id ss path).2⟩
      · exact ⟨(hrec n NOID ss path).1, fun h => absurd h (hrec n NOID ss path).2⟩
    · -- interface
      split
      · split
        · rename_i ty id _
          exact ⟨(hrec ty id ss path).1, fun h => absurd h (hrec ty id ss path).2⟩
        · simp [errAt]
      · simp [errAt]
    · -- union
      split
      · split
        · rename_i ty id _
          exact ⟨(hrec ty id ss path).1, fun h => absurd h (hrec ty id ss path).2⟩
        · simp [errAt]
      · simp [errAt]
    · -- enum
      split
      · rename_i v
        split
        · rename_i v' hv'
          simp
          intro e; subst e
          exact absurd hv' (enumCheck_ne_null t v)
        · simp [errAt]
      · simp [errAt]
    · simp [errAt]

theorem flatten_ne_nil_of_mem {α} (ls : List (List α)) (l : List α) (h : l ∈ ls) (hl : l ≠ []) : ls.flatten ≠ [] := by
  intro e
  rw [List.flatten_eq_nil_iff] at e
  exact hl (e l h)

theorem resolve_nonNull (c : Model.ExecDynamic.Ctx) (rec : String → Nat → List Sel → List PathSeg → Res)
    (t : TypeRef) (rv : RVal) (ss : List Sel) (path : List PathSeg) (pos : Pos) (h : normNull c.D rv ≠ .null) :
    resolve c rec (.nonNull t) rv ss path pos = nnWrap (resolve c rec t (normNull c.D rv) ss path pos) := by
  conv => lhs; unfold resolve
  split
  · rename_i heq; exact absurd heq h
  · rfl

theorem resolve_named (c : Model.ExecDynamic.Ctx) (rec : String → Nat → List Sel → List PathSeg → Res)
    (n : String) (rv : RVal) (ss : List Sel) (path : List PathSeg) (pos : Pos) (h : normNull c.D rv ≠ .null) :
    resolve c rec (.named n) rv ss path pos = cap c.D (resolveNamed c rec n (normNull c.D rv) ss path pos) := by
  unfold resolve
  split
  · rename_i heq; exact absurd heq h
  · rfl

/-- Completion never loses an error, and (with `Value::Null` read as null) a `null` that comes
    without an error can only be a null the resolver itself returned. -/
theorem resolve_props (c : Model.ExecDynamic.Ctx) (hD : c.D.nullValueNotNull = false)
    (rec : String → Nat → List Sel → List PathSeg → Res) (hrec : RecOK rec) :
    ∀ (t : TypeRef) (rv : RVal) (ss : List Sel) (path : List PathSeg) (pos : Pos),
      ((resolve c rec t rv ss path pos).val = none → (resolve c rec t rv ss path pos).errs ≠ []) ∧
      ((resolve c rec t rv ss path pos).val = some .null → (resolve c rec t rv ss path pos).errs = [] →
        normNull c.D rv = .null) := by
  intro t
  induction t with
  | named n =>
    intro rv ss path pos
    by_cases hn : normNull c.D rv = .null
    · simp [resolve, hn]
    · rw [resolve_named c rec n rv ss path pos hn]
      have hp := resolveNamed_props c rec hrec n (normNull c.D rv) ss path pos
      refine ⟨fun h => ?_, fun h he => ?_⟩
      · rw [cap_errs]; exact hp.1 (cap_none _ _ h)
      · rw [cap_errs] at he
        rcases cap_null _ _ h with h' | h'
        · exact absurd (hp.2 h') (normNull_ne_leafNull c.D hD rv)
        · exact absurd he (hp.1 h')
  | list t ih =>
    intro rv ss path pos
    unfold resolve
    split
    · rename_i heq; simp [heq]
    · rename_i xs _
      simp only
      split
      · simp
      · rename_i hall
        have hall' : ∃ r ∈ joinAll (mapIdx (fun i x (_ : Unit) =>
              resolve c rec t (itemRV x) ss (path ++ [PathSeg.idx i]) pos) xs 0),
            r.val.isSome = false := by
          simpa [List.all_eq_true] using hall
        obtain ⟨r, hr, hnone⟩ := hall'
        have hne : (List.map (fun x => x.errs) (joinAll (mapIdx (fun i x (_ : Unit) =>
              resolve c rec t (itemRV x) ss (path ++ [PathSeg.idx i]) pos) xs 0))).flatten ≠ [] := by
          apply flatten_ne_nil_of_mem _ r.errs (List.mem_map_of_mem hr)
          obtain ⟨f, hf, rfl⟩ := joinAll_mem _ r hr
          obtain ⟨j, x, rfl⟩ := mapIdx_mem _ xs 0 f hf
          apply (ih (itemRV x) ss (path ++ [PathSeg.idx j]) pos).1
          cases h : (resolve c rec t (itemRV x) ss (path ++ [PathSeg.idx j]) pos).val <;> simp_all
        refine ⟨fun _ => ?_, fun _ he => ?_⟩
        · rw [cap_errs]; exact hne
        · rw [cap_errs] at he; exact absurd he hne
    · refine ⟨fun _ => ?_, fun _ he => ?_⟩
      · rw [cap_errs]; simp [errAt]
      · rw [cap_errs] at he; simp [errAt] at he
  | nonNull t ih =>
    intro rv ss path pos
    by_cases hn : normNull c.D rv = .null
    · simp [resolve, hn, errAt]
    · rw [resolve_nonNull c rec t rv ss path pos hn]
      have h1 := (ih (normNull c.D rv) ss path pos).1
      have h2 := (ih (normNull c.D rv) ss path pos).2
      rw [normNull_idem] at h2
      unfold nnWrap
      cases hv : (resolve c rec t (normNull c.D rv) ss path pos).val with
      | none => simp [hv] at h1 ⊢; exact h1
      | some v =>
        by_cases hnull : v = .null
        · subst hnull
          by_cases hemp : (resolve c rec t (normNull c.D rv) ss path pos).errs = []
          · exact absurd (h2 hv hemp) hn
          · simp [hemp]
        · cases v <;> simp_all

theorem completeField_none (c : Model.ExecDynamic.Ctx) (hD : c.D.nullValueNotNull = false)
    (rec : String → Nat → List Sel → List PathSeg → Res) (hrec : RecOK rec)
    (fd : FieldDef) (rv : RVal) (occ : FieldOcc) (fpath : List PathSeg) :
    (completeField c rec fd rv occ fpath).val = none → (completeField c rec fd rv occ fpath).errs ≠ [] := by
  cases rv with
  | fail m =>
    simp only [completeField]
    split
    · simp [errAt]
    · intro _; rw [cap_errs]; simp [errAt]
  | _ => exact (resolve_props c hD rec hrec fd.ty _ occ.sels fpath occ.pos).1

theorem runField_none (c : Model.ExecDynamic.Ctx) (hD : c.D.nullValueNotNull = false)
    (rec : String → Nat → List Sel → List PathSeg → Res) (hrec : RecOK rec)
    (rt : String) (id : Nat) (path : List PathSeg) (occ : FieldOcc) :
    (runField c rec rt id path occ).val = none → (runField c rec rt id path occ).errs ≠ [] := by
  unfold runField
  split
  · simp
  · split
    · simp
    · rename_i fd _
      simp only
      intro hnone
      apply completeField_none c hD rec hrec
      cases h : (completeField c rec fd (fieldRVal c id fd occ) occ (path ++ [PathSeg.key occ.key])).val <;> simp_all

theorem recOK_resolveContainer (c : Model.ExecDynamic.Ctx) (hD : c.D.nullValueNotNull = false) :
    ∀ fuel, RecOK (resolveContainer c fuel) := by
  intro fuel
  induction fuel with
  | zero => intro rt id ss p; simp [resolveContainer]
  | succ fuel ih =>
    intro rt id ss p
    simp only [resolveContainer]
    split
    · simp [createValueObject]
    · rename_i hall
      simp
      have hall' : ∃ r ∈ joinAll ((Model.ExecDynamic.collect c rt (fuel + 1) ss).map
            (fun occ => fun (_ : Unit) => runField c (resolveContainer c fuel) rt id p occ)),
          r.val.isSome = false := by
        simpa [List.all_eq_true] using hall
      obtain ⟨r, hr, hnone⟩ := hall'
      refine ⟨r, hr, ?_⟩
      obtain ⟨f, hf, rfl⟩ := joinAll_mem _ r hr
      simp only [List.mem_map] at hf
      obtain ⟨occ, _, rfl⟩ := hf
      apply runField_none c hD _ ih
      cases h : (runField c (resolveContainer c fuel) rt id p occ).val <;> simp_all

end AGV.Lemmas.ExecDynamic
