/-
  C20: the fold of `merge` over well-formed hints (max_age ≥ -1) is exactly the specification's
  combination (`Spec.Cache.combine`).
-/
import AGV.Lemmas.Cache

namespace AGV.Lemmas.Cache
open AGV.Core AGV.Core.Cache AGV.Model.CacheControl AGV.Spec.Cache

theorem foldl_merge_acc (hs : List CC) (acc : CC) :
    hs.foldl merge acc = merge acc (hs.foldl merge CC.default) := by
  induction hs generalizing acc with
  | nil => simp [merge_default_right]
  | cons h hs ih =>
    simp only [List.foldl_cons]
    rw [ih (merge acc h), ih (merge CC.default h), merge_default_left, merge_assoc]

def stepAge (m : Int) (h : CC) : Int := if m = 0 then h.maxAge else min m h.maxAge
def leastPos (l : List CC) : Int := (l.filter (0 < ·.maxAge)).foldl stepAge 0

theorem leastPos_spec (l : List CC) :
    (∀ m : Int, 0 < m → (l.filter (0 < ·.maxAge)).foldl stepAge m = if leastPos l = 0 then m else min m (leastPos l))
    ∧ 0 ≤ leastPos l := by
  induction l with
  | nil => simp [leastPos]
  | cons x l ih =>
    obtain ⟨ih1, ih2⟩ := ih
    by_cases hx : 0 < x.maxAge
    · have hG : leastPos (x :: l) = if leastPos l = 0 then x.maxAge else min x.maxAge (leastPos l) := by
        simp only [leastPos, List.filter_cons, hx, decide_true, if_true, List.foldl_cons]
        have : stepAge 0 x = x.maxAge := by simp [stepAge]
        rw [this]; exact ih1 _ hx
      refine ⟨?_, ?_⟩
      · intro m hm
        simp only [List.filter_cons, hx, decide_true, if_true, List.foldl_cons]
        have hs : stepAge m x = min m x.maxAge := by simp [stepAge]; omega
        rw [hs, ih1 _ (by omega), hG]
        repeat' split
        all_goals omega
      · rw [hG]; split <;> omega
    · have hG : leastPos (x :: l) = leastPos l := by
        simp [leastPos, hx]
      refine ⟨?_, by rw [hG]; exact ih2⟩
      intro m hm
      simp only [List.filter_cons, hx, decide_false, Bool.false_eq_true, if_false]
      rw [hG]; exact ih1 m hm

theorem combine_maxAge (l : List CC) :
    (combine l).maxAge = if l.any (·.maxAge = -1) then -1 else leastPos l := rfl

theorem combine_cons (h : CC) (hs : List CC) (hv : -1 ≤ h.maxAge) :
    combine (h :: hs) = merge h (combine hs) := by
  have ⟨g1, g2⟩ := leastPos_spec hs
  have hP : (combine (h :: hs)).isPublic = (merge h (combine hs)).isPublic := by
    simp [combine, merge, Gen.CacheMerge.mergePublic]
  have hA : (combine (h :: hs)).maxAge = (merge h (combine hs)).maxAge := by
    rw [combine_maxAge]
    simp only [merge, combine_maxAge hs, List.any_cons]
    by_cases h1 : h.maxAge = -1
    · simp [h1, Gen.CacheMerge.mergeAge]
    · by_cases h2 : hs.any (·.maxAge = -1) = true
      · simp only [h2, Bool.or_true, if_true, Gen.CacheMerge.mergeAge]
        repeat' split
        all_goals omega
      · have h2' : hs.any (·.maxAge = -1) = false := by simpa using h2
        simp only [h2', h1, decide_false, Bool.or_false, Bool.false_eq_true, if_false]
        by_cases hx : 0 < h.maxAge
        · have : leastPos (h :: hs) = if leastPos hs = 0 then h.maxAge else min h.maxAge (leastPos hs) := by
            simp only [leastPos, List.filter_cons, hx, decide_true, if_true, List.foldl_cons]
            have : stepAge 0 h = h.maxAge := by simp [stepAge]
            rw [this]; exact g1 _ hx
          rw [this]; simp only [Gen.CacheMerge.mergeAge]
          repeat' split
          all_goals omega
        · have : leastPos (h :: hs) = leastPos hs := by simp [leastPos, hx]
          rw [this]; simp only [Gen.CacheMerge.mergeAge]
          repeat' split
          all_goals omega
  cases hc : combine (h :: hs); cases hm : merge h (combine hs)
  simp_all

/-- the fold of `merge` from the default over well-formed hints is exactly their combination -/
theorem foldl_merge_eq_combine (hs : List CC) (hv : ∀ h ∈ hs, -1 ≤ h.maxAge) :
    hs.foldl merge CC.default = combine hs := by
  induction hs with
  | nil => simp [combine, CC.default, Gen.CacheMerge.defaultPublic, Gen.CacheMerge.defaultMaxAge]
  | cons h hs ih =>
    simp only [List.foldl_cons]
    rw [foldl_merge_acc, merge_default_left, ih (fun x hx => hv x (List.mem_cons_of_mem _ hx)),
      combine_cons h hs (hv h (List.mem_cons_self ..))]

theorem hintOf_valid (H : Hints) (hv : ∀ p ∈ H, -1 ≤ p.2.maxAge) (k : Key) : -1 ≤ (hintOf H k).maxAge := by
  unfold hintOf
  cases hf : H.find? (·.1 = k) with
  | none => simp [noHint]
  | some p => exact hv p (List.mem_of_find?_eq_some hf)

/-- the policy computed over the keys `ks` is exactly the combination of their hints -/
theorem foldHints_eq_combine (H : Hints) (ks : List Key) (hv : ∀ p ∈ H, -1 ≤ p.2.maxAge) :
    foldHints H ks = combine (ks.map (hintOf H)) := by
  unfold foldHints
  rw [← foldl_merge_eq_combine, List.foldl_map]
  intro h hh
  obtain ⟨k, _, rfl⟩ := List.mem_map.mp hh
  exact hintOf_valid H hv k

end AGV.Lemmas.Cache
