/-
  Property C13, specification side: a value read with the finiteness check (`finiteFloats := true`,
  the documented parameter) is read without it too, and contains no infinite float.
-/
import AGV.Lemmas.PegC13Val7
namespace AGV.Lemmas.PegX
open AGV.Spec.Lex AGV.Spec.Parse AGV.Core.PAst AGV.Lemmas.SpecVal

theorem spec_fin (P : Params) (hP : P.finiteFloats = true) (c : Bool) : ∀ (L : Nat) (ts : List Tok), ts.length ≤ L →
    (∀ f v r, pValue P c f ts = some (v, r) → pValue P' c f ts = some (v, r) ∧ finV v = true) ∧
    (∀ f g vs r, pValue.items P c f g ts = some (vs, r) →
      pValue.items P' c f g ts = some (vs, r) ∧ finVs vs = true) ∧
    (∀ f g fs r, pValue.fields P c f g ts = some (fs, r) →
      pValue.fields P' c f g ts = some (fs, r) ∧ finFs fs = true) := by
  intro L
  induction L using Nat.strongRecOn with
  | _ L ih =>
    intro ts hL
    have hv : ∀ f v r, pValue P c f ts = some (v, r) → pValue P' c f ts = some (v, r) ∧ finV v = true := by
      intro f v r h
      cases f with
      | zero => rw [pValue.eq_def] at h; cases h
      | succ f =>
        cases ts with
        | nil => rw [pValue_nil] at h; cases h
        | cons t r0 =>
          simp only [List.length_cons] at hL
          cases t with
          | punct y =>
            by_cases h1 : y = '$'
            · subst h1
              rw [pValue_dollar] at h ⊢
              split at h
              · cases h
              · rename_i hc
                simp only [hc, if_false]
                cases hp : pName r0 with
                | none => simp [hp] at h
                | some x => simp [hp] at h ⊢; obtain ⟨rfl, rfl⟩ := h; exact ⟨⟨rfl, rfl⟩, rfl⟩
            by_cases h2 : y = '['
            · subst h2
              rw [pValue_lbrack] at h ⊢
              cases hi : pValue.items P c f (r0.length + 1) r0 with
              | none => simp [hi] at h
              | some x =>
                obtain ⟨i1, i2⟩ := (ih r0.length (by omega) r0 (Nat.le_refl _)).2.1 _ _ _ _ hi
                simp [hi] at h; obtain ⟨rfl, rfl⟩ := h
                rw [i1]; exact ⟨rfl, by simpa [finV] using i2⟩
            by_cases h3 : y = '{'
            · subst h3
              rw [pValue_lbrace] at h ⊢
              cases hi : pValue.fields P c f (r0.length + 1) r0 with
              | none => simp [hi] at h
              | some x =>
                obtain ⟨i1, i2⟩ := (ih r0.length (by omega) r0 (Nat.le_refl _)).2.2 _ _ _ _ hi
                simp [hi] at h; obtain ⟨rfl, rfl⟩ := h
                rw [i1]; exact ⟨rfl, by simpa [finV] using i2⟩
            · rw [pValue_punct_other P c _ y r0 h1 h2 h3] at h; cases h
          | spread => rw [pValue_spread] at h; cases h
          | name n =>
            rw [pValue_name] at h ⊢
            refine ⟨h, ?_⟩
            repeat' (split at h)
            all_goals (cases h; rfl)
          | int n d => rw [pValue_int] at h ⊢; cases h; exact ⟨rfl, rfl⟩
          | float n i fr e x =>
            rw [pValue_float] at h ⊢
            split at h
            · cases h
            · rename_i hb
              cases h
              simp only [hP, Bool.true_and] at hb
              refine ⟨by simp [P'], ?_⟩
              simpa [finV] using hb
          | str v => rw [pValue_str] at h ⊢; cases h; exact ⟨rfl, rfl⟩
    refine ⟨hv, ?_, ?_⟩
    · intro f g vs r h
      cases g with
      | zero => rw [pValue.items.eq_def] at h; cases h
      | succ g =>
        by_cases hc : ∃ r0, ts = .punct ']' :: r0
        · obtain ⟨r0, rfl⟩ := hc
          rw [items_close] at h ⊢; cases h; exact ⟨rfl, rfl⟩
        · rw [items_elem P c f g ts (fun r0 e => hc ⟨r0, e⟩)] at h
          rw [items_elem P' c f g ts (fun r0 e => hc ⟨r0, e⟩)]
          cases hp : pValue P c f ts with
          | none => simp [hp] at h
          | some x =>
            obtain ⟨v, r1⟩ := x
            obtain ⟨j1, j2⟩ := hv _ _ _ hp
            have hl1 := pValue_len P c hp
            simp only [hp, Option.bind_some] at h
            rw [j1]
            simp only [Option.bind_some]
            cases hi : pValue.items P c f g r1 with
            | none => simp [hi] at h
            | some y =>
              obtain ⟨i1, i2⟩ := (ih r1.length (by omega) r1 (Nat.le_refl _)).2.1 _ _ _ _ hi
              simp [hi] at h; obtain ⟨rfl, rfl⟩ := h
              rw [i1]; exact ⟨rfl, by simp [finVs, j2, i2]⟩
    · intro f g fs r h
      cases g with
      | zero => rw [pValue.fields.eq_def] at h; cases h
      | succ g =>
        by_cases hc : ∃ r0, ts = .punct '}' :: r0
        · obtain ⟨r0, rfl⟩ := hc
          rw [fields_close] at h ⊢; cases h; exact ⟨rfl, rfl⟩
        · by_cases hn : ∃ n r0, ts = .name n :: .punct ':' :: r0
          · obtain ⟨n, r0, rfl⟩ := hn
            simp only [List.length_cons] at hL
            rw [fields_elem] at h ⊢
            cases hp : pValue P c f r0 with
            | none => simp [hp] at h
            | some x =>
              obtain ⟨v, r1⟩ := x
              obtain ⟨j1, j2⟩ := (ih r0.length (by omega) r0 (Nat.le_refl _)).1 _ _ _ hp
              have hl1 := pValue_len P c hp
              simp only [hp, Option.bind_some] at h
              rw [j1]
              simp only [Option.bind_some]
              cases hi : pValue.fields P c f g r1 with
              | none => simp [hi] at h
              | some y =>
                obtain ⟨i1, i2⟩ := (ih r1.length (by omega) r1 (Nat.le_refl _)).2.2 _ _ _ _ hi
                simp [hi] at h; obtain ⟨rfl, rfl⟩ := h
                rw [i1]; exact ⟨rfl, by simp [finFs, j2, i2]⟩
          · rw [fields_other P c f (g + 1) ts (fun r0 e => hc ⟨r0, e⟩) (fun n r0 e => hn ⟨n, r0, e⟩)] at h
            cases h

/-- read with the finiteness check ⇒ read without it, with no infinite float -/
theorem pValue_fin {P : Params} (hP : P.finiteFloats = true) {c : Bool} {f : Nat} {ts r : List Tok} {v : PValue}
    (h : pValue P c f ts = some (v, r)) : pValue P' c f ts = some (v, r) ∧ finV v = true :=
  (spec_fin P hP c ts.length ts (Nat.le_refl _)).1 f v r h
end AGV.Lemmas.PegX
