/-
  C17 — type definitions at token level: `pDef` on the tokens of one exported definition
  (directive applications, specifiedBy URL and @oneOf included), `pDefs` on a list of them (at
  the end of a document, or followed by more).
-/
import AGV.Lemmas.SdlSkeleton
namespace AGV.Lemmas.SdlSkeleton
open AGV.Core AGV.Core.PAst AGV.Core.Sdl AGV.Model.Sdl AGV.Spec.Literal AGV.Spec.Lex AGV.Spec.Parse AGV.Spec.SdlParse AGV.Lemmas.SdlLex AGV.Lemmas.SdlValue

-- ------------------------------------------------------------------ type definitions

/-- the attributes of a type: no deprecation (the exporter never writes one for a type, `describe`
    would require it), well-formed directive applications; any description -/
structure TypeAttrs (a : Attrs) : Prop where
  dep : a.dep = .no
  dirs : ∀ d ∈ a.dirs, dirWf d = true

/-- a well-formed type definition: names are Names; descriptions, deprecations, directive
    applications and default values anywhere (values printable: `svWf`); any specifiedBy URL,
    @oneOf; the lists the grammar requires to be non-empty are non-empty; no field is an
    introspection field -/
def SkelType : TypeDef → Prop
  | .scalar n a _ => isName n = true ∧ TypeAttrs a
  | .object n a _ impls fs | .interface n a _ impls fs =>
    isName n = true ∧ TypeAttrs a ∧ (∀ i ∈ impls, isName i = true) ∧ fs ≠ [] ∧
      ∀ f ∈ fs, SkelField f ∧ startsWith2Underscores f.name = false
  | .union n a ms => isName n = true ∧ TypeAttrs a ∧ ms ≠ [] ∧ ∀ m ∈ ms, isName m = true
  | .enum n a vs => isName n = true ∧ TypeAttrs a ∧ vs ≠ [] ∧ ∀ v ∈ vs, SkelEnumVal v
  | .input n a _ fs => isName n = true ∧ TypeAttrs a ∧ fs ≠ [] ∧ ∀ f ∈ fs, SkelIv f

def tdAttrs : TypeDef → Attrs
  | .scalar _ a _ | .object _ a .. | .interface _ a .. | .union _ a _ | .enum _ a _ | .input _ a .. => a

/-- `@specifiedBy(url: "…")` -/
def specApps (o : Opts) (url : Option Text) : List DirApp :=
  if o.specifiedBy then (match url with | some u => [⟨kwT "specifiedBy", [(kwT "url", .str u)]⟩] | none => []) else []

/-- the directive applications of a type definition, in the order written (an object type has
    its custom directives before the federation attributes) -/
def typeApps (o : Opts) : TypeDef → List DirApp
  | .scalar _ a url => specApps o url ++ (fedApps o a ++ a.dirs)
  | .object _ a _ _ _ => a.dirs ++ fedApps o a
  | .input _ a oneof _ => (if oneof then [⟨kwT "oneOf", []⟩] else []) ++ (fedApps o a ++ a.dirs)
  | t => fedApps o (tdAttrs t) ++ (tdAttrs t).dirs

/-- a federation export writes an `extends` object / interface as an extension -/
def isExt (o : Opts) : TypeDef → Bool
  | .object _ _ ext _ _ | .interface _ _ ext _ _ => o.federation && ext
  | _ => false

/-- the definition after its description -/
def defCore (o : Opts) (t : TypeDef) : List Tok :=
  match t with
  | .scalar n _ _ => .name (kw "scalar") :: .name n :: dirsToks (typeApps o t)
  | .object n _ _ impls fs =>
    .name (kw "type") :: .name n :: implToks impls ++ dirsToks (typeApps o t) ++
      .punct '{' :: fieldsToks o (sorted o.sortedFields (·.name) fs) ++ [.punct '}']
  | .interface n _ _ impls fs =>
    .name (kw "interface") :: .name n :: implToks impls ++ dirsToks (typeApps o t) ++
      .punct '{' :: fieldsToks o (sorted o.sortedFields (·.name) fs) ++ [.punct '}']
  | .union n _ ms => .name (kw "union") :: .name n :: dirsToks (typeApps o t) ++ .punct '=' :: sepToks '|' ms
  | .enum n _ vs =>
    .name (kw "enum") :: .name n :: dirsToks (typeApps o t) ++ .punct '{' :: enumToks o (sorted o.sortedEnum (·.1) vs) ++ [.punct '}']
  | .input n _ _ fs =>
    .name (kw "input") :: .name n :: dirsToks (typeApps o t) ++ .punct '{' :: ivsToks o (sorted o.sortedFields (·.name) fs) ++ [.punct '}']

/-- scalars the exporter never defines: the built-in ones -/
def isSystemScalar (_o : Opts) : TypeDef → Bool
  | .scalar n _ _ => systemScalars.contains n
  | _ => false

def defToks (o : Opts) (t : TypeDef) : List Tok :=
  if isSystemScalar o t then []
  else if isExt o t then .name (kw "extend") :: defCore o t
  else descToks (tdAttrs t).desc ++ defCore o t

/-- the fields the exported text denotes -/
def xFields (o : Opts) (fs : List FieldDef) : List SField := (sorted o.sortedFields (·.name) fs).map (xField o)

/-- the definition the exported text of a type denotes: `dType` with the directive applications of
    fields and object types in the exporter's order (`none`: nothing is written) -/
def xType (o : Opts) (t : TypeDef) : Option SDef :=
  match t with
  | .scalar n a _ =>
    if isSystemScalar o t then none else some (.type false n a.desc ((typeApps o t).map dDir) .scalar)
  | .object n a ext is fs =>
    some (.type (o.federation && ext) n (if o.federation && ext then none else a.desc) ((typeApps o t).map dDir) (.object is (xFields o fs)))
  | .interface n a ext is fs =>
    some (.type (o.federation && ext) n (if o.federation && ext then none else a.desc) ((typeApps o t).map dDir) (.interface is (xFields o fs)))
  | .union n a ms => some (.type false n a.desc ((typeApps o t).map dDir) (.union ms))
  | .enum n a vs =>
    some (.type false n a.desc ((typeApps o t).map dDir)
      (.enum ((sorted o.sortedEnum (·.1) vs).map (fun v => ⟨v.1, v.2.desc, dDirs o v.2⟩))))
  | .input n a _ fs =>
    some (.type false n a.desc ((typeApps o t).map dDir) (.input ((sorted o.sortedFields (·.name) fs).map (dIv o))))

/-- what follows a definition: the end of the document, or the description / keyword of the next -/
inductive DefEnd : List Tok → Prop
  | nil : DefEnd []
  | name (n r) : DefEnd (.name n :: r)
  | str (v r) : DefEnd (.str v :: r)

theorem DefEnd.tokEnd {ts} (h : DefEnd ts) : TokEnd ts := by cases h <;> constructor

theorem systemScalars_builtin (n : Text) : systemScalars.contains n = builtinScalars.contains n := by
  simp only [systemScalars, builtinScalars, List.contains_eq_mem, List.mem_cons, List.map_cons, List.map_nil,
    List.mem_nil_iff, or_false, s]

theorem kw_facts :
    kw "type" ≠ kw "extend" ∧ kw "type" ≠ kw "schema" ∧ kw "type" ≠ kw "directive" ∧
    kw "type" ≠ kw "scalar" ∧
    kw "interface" ≠ kw "extend" ∧ kw "interface" ≠ kw "schema" ∧
    kw "interface" ≠ kw "directive" ∧ kw "interface" ≠ kw "scalar" ∧
    kw "interface" ≠ kw "type" ∧
    kw "union" ≠ kw "extend" ∧ kw "union" ≠ kw "schema" ∧ kw "union" ≠ kw "directive" ∧
    kw "union" ≠ kw "scalar" ∧ kw "union" ≠ kw "type" ∧ kw "union" ≠ kw "interface" ∧
    kw "enum" ≠ kw "extend" ∧ kw "enum" ≠ kw "schema" ∧ kw "enum" ≠ kw "directive" ∧
    kw "enum" ≠ kw "scalar" ∧ kw "enum" ≠ kw "type" ∧ kw "enum" ≠ kw "interface" ∧
    kw "enum" ≠ kw "union" ∧
    kw "input" ≠ kw "extend" ∧ kw "input" ≠ kw "schema" ∧ kw "input" ≠ kw "directive" ∧
    kw "input" ≠ kw "scalar" ∧ kw "input" ≠ kw "type" ∧ kw "input" ≠ kw "interface" ∧
    kw "input" ≠ kw "union" ∧ kw "input" ≠ kw "enum" := by decide


theorem DefEnd.dirEnd {ts} (h : DefEnd ts) : DirEnd ts := h.tokEnd.dirEnd

theorem dirEnd_punct (c : Char) (r : List Tok) (h1 : c ≠ '@') (h2 : c ≠ '(') : DirEnd (.punct c :: r) := by
  intro r'; constructor <;> (intro e; cases e <;> contradiction)

theorem dirsToks_punct_noName (ds : List DirApp) (c : Char) (r : List Tok) : ∀ n r', dirsToks ds ++ .punct c :: r ≠ .name n :: r' := by
  cases ds with
  | nil => intro n r' e; cases e
  | cons d ds => intro n r' e; simp [dirsToks, dirToks] at e

theorem dirsToks_punct_noAmp (ds : List DirApp) (c : Char) (hc : c ≠ '&') (r : List Tok) :
    ∀ r', dirsToks ds ++ .punct c :: r ≠ .punct '&' :: r' := by
  cases ds with
  | nil => intro r' e; cases e; exact hc rfl
  | cons d ds => intro r' e; simp [dirsToks, dirToks] at e

/-- an ordinary definition: optional description, then the definition itself -/
theorem pDef_plain (dsc : Option Text) (k : Text) (r : List Tok) (h1 : k ≠ kw "extend") (h2 : k ≠ kw "schema")
    (h3 : k ≠ kw "directive") : pDef (descToks dsc ++ .name k :: r) = pTypeDef false dsc (.name k :: r) := by
  simp only [pDef, pDesc_descToks, h1, h2, h3, if_false]

/-- a type extension: `extend`, then the definition (no description) -/
theorem pDef_extend (k : Text) (r : List Tok) (h2 : k ≠ kw "schema") :
    pDef (.name (kw "extend") :: .name k :: r) = pTypeDef true none (.name k :: r) := by
  simp [pDef, pDesc, h2]

theorem pTypeDef_scalar (ext : Bool) (dsc : Option Text) (n : Text) (ds : List DirApp) (hds : ∀ d ∈ ds, dirWf d = true) (rest : List Tok)
    (hr : DefEnd rest) :
    pTypeDef ext dsc (.name (kw "scalar") :: .name n :: (dirsToks ds ++ rest)) =
      some (.type ext n dsc (ds.map dDir) .scalar, rest) := by
  have hd := constDirs_toks ds hds rest hr.dirEnd
  simp only [pTypeDef, if_true, hd, Option.map_some]

theorem pTypeDef_object (o : Opts) (ext : Bool) (dsc : Option Text) (isObj : Bool) (n : Text) (impls : List Text)
    (ds : List DirApp) (hds : ∀ d ∈ ds, dirWf d = true)
    (fs : List FieldDef) (hfs : fs ≠ []) (hsk : ∀ f ∈ fs, SkelField f) (rest : List Tok) :
    pTypeDef ext dsc (.name (kw (if isObj then "type" else "interface")) :: .name n :: implToks impls ++ dirsToks ds ++
        .punct '{' :: fieldsToks o (sorted o.sortedFields (·.name) fs) ++ [.punct '}'] ++ rest) =
      some (.type ext n dsc (ds.map dDir) (if isObj then .object impls (xFields o fs) else .interface impls (xFields o fs)), rest) := by
  have himpl := pImplements_toks impls (dirsToks ds ++ .punct '{' :: (fieldsToks o (sorted o.sortedFields (·.name) fs) ++ .punct '}' :: rest))
    (dirsToks_punct_noName _ _ _) (dirsToks_punct_noAmp _ _ (by decide) _)
  have hd := constDirs_toks ds hds (.punct '{' :: (fieldsToks o (sorted o.sortedFields (·.name) fs) ++ .punct '}' :: rest))
    (dirEnd_punct _ _ (by decide) (by decide))
  have hfl := pFields_toks o (sorted o.sortedFields (·.name) fs) (sorted_ne_nil _ _ _ hfs)
    (fun f hf => hsk f ((sorted_mem _ _ _ _).mp hf)) rest
    ((fieldsToks o (sorted o.sortedFields (·.name) fs) ++ .punct '}' :: rest).length + 1) (by
      have := fieldsToks_length o (sorted o.sortedFields (·.name) fs)
      simp; omega)
  obtain ⟨e1, e2, e3, e4, e5, e6, e7, e8, e9, _⟩ := kw_facts
  cases isObj
  · simp only [Bool.false_eq_true, if_false, List.cons_append, List.append_assoc, List.nil_append,
      e8, e9, pTypeDef, Bool.or_true, Bool.true_or, decide_true, decide_false, Bool.false_or, himpl, hd,
      pFieldsDef, hfl, Option.map_some, xFields]
    simp
  · simp only [if_true, List.cons_append, List.append_assoc, List.nil_append,
      e4, pTypeDef, Bool.or_true, Bool.true_or, decide_true, decide_false, Bool.false_or, himpl, hd,
      pFieldsDef, hfl, Option.map_some, xFields]
    simp

theorem pTypeDef_union (ext : Bool) (dsc : Option Text) (n : Text) (ds : List DirApp) (hds : ∀ d ∈ ds, dirWf d = true)
    (ms : List Text) (hne : ms ≠ []) (rest : List Tok) (hr : DefEnd rest) :
    pTypeDef ext dsc (.name (kw "union") :: .name n :: dirsToks ds ++ .punct '=' :: sepToks '|' ms ++ rest) =
      some (.type ext n dsc (ds.map dDir) (.union ms), rest) := by
  have hd := constDirs_toks ds hds (.punct '=' :: (sepToks '|' ms ++ rest)) (dirEnd_punct _ _ (by decide) (by decide))
  have hn := pNamesAfter_toks '|' ms hne rest (by intro r e; cases hr <;> cases e)
  obtain ⟨_, _, _, _, _, _, _, _, _, e1, e2, e3, e4, e5, e6, _⟩ := kw_facts
  simp only [List.cons_append, List.append_assoc, e4, e5, e6, pTypeDef, if_false, if_true, hd, hn,
    Option.map_some, Bool.or_self, Bool.false_eq_true, decide_false]

theorem pTypeDef_enum (o : Opts) (ext : Bool) (dsc : Option Text) (n : Text) (ds : List DirApp) (hds : ∀ d ∈ ds, dirWf d = true)
    (vs : List (Text × Attrs)) (hne : vs ≠ [])
    (hvs : ∀ v ∈ vs, SkelEnumVal v) (rest : List Tok) :
    pTypeDef ext dsc (.name (kw "enum") :: .name n :: dirsToks ds ++ .punct '{' :: enumToks o (sorted o.sortedEnum (·.1) vs) ++ [.punct '}'] ++ rest) =
      some (.type ext n dsc (ds.map dDir)
        (.enum ((sorted o.sortedEnum (·.1) vs).map (fun v => ⟨v.1, v.2.desc, dDirs o v.2⟩))), rest) := by
  have hd := constDirs_toks ds hds (.punct '{' :: (enumToks o (sorted o.sortedEnum (·.1) vs) ++ .punct '}' :: rest))
    (dirEnd_punct _ _ (by decide) (by decide))
  have hv := pEnumValues_toks o (sorted o.sortedEnum (·.1) vs) (sorted_ne_nil _ _ _ hne)
    (fun v hv => hvs v ((sorted_mem _ _ _ _).mp hv)) rest
    ((enumToks o (sorted o.sortedEnum (·.1) vs) ++ .punct '}' :: rest).length + 1)
    (by have := enumToks_length o (sorted o.sortedEnum (·.1) vs); simp; omega)
  obtain ⟨_, _, _, _, _, _, _, _, _, _, _, _, _, _, _, e1, e2, e3, e4, e5, e6, e7, _⟩ := kw_facts
  simp only [List.cons_append, List.append_assoc, List.nil_append, e4, e5, e6, e7, pTypeDef,
    if_false, if_true, hd, hv, Option.map_some, Bool.or_self, Bool.false_eq_true, decide_false]

theorem pTypeDef_input (o : Opts) (ext : Bool) (dsc : Option Text) (n : Text) (ds : List DirApp) (hds : ∀ d ∈ ds, dirWf d = true)
    (fs : List InputVal) (hne : fs ≠ [])
    (hfs : ∀ f ∈ fs, SkelIv f) (rest : List Tok) :
    pTypeDef ext dsc (.name (kw "input") :: .name n :: dirsToks ds ++ .punct '{' :: ivsToks o (sorted o.sortedFields (·.name) fs) ++ [.punct '}'] ++ rest) =
      some (.type ext n dsc (ds.map dDir) (.input ((sorted o.sortedFields (·.name) fs).map (dIv o))), rest) := by
  have hd := constDirs_toks ds hds (.punct '{' :: (ivsToks o (sorted o.sortedFields (·.name) fs) ++ .punct '}' :: rest))
    (dirEnd_punct _ _ (by decide) (by decide))
  have hv := pInputValues_toks o '}' (Or.inr rfl) (sorted o.sortedFields (·.name) fs) (sorted_ne_nil _ _ _ hne)
    (fun v hv => hfs v ((sorted_mem _ _ _ _).mp hv)) rest
    ((ivsToks o (sorted o.sortedFields (·.name) fs) ++ .punct '}' :: rest).length + 1)
    (by have := ivsToks_length o (sorted o.sortedFields (·.name) fs); simp; omega)
  obtain ⟨_, _, _, _, _, _, _, _, _, _, _, _, _, _, _, _, _, _, _, _, _, _, e1, e2, e3, e4, e5, e6, e7, e8⟩ := kw_facts
  simp only [List.cons_append, List.append_assoc, List.nil_append, e4, e5, e6, e7, e8, pTypeDef,
    if_false, if_true, hd, hv, Option.map_some, Bool.or_self, Bool.false_eq_true, decide_false]

theorem typeApps_wf (o : Opts) (t : TypeDef) (ha : TypeAttrs (tdAttrs t)) : ∀ d ∈ typeApps o t, dirWf d = true := by
  have hspec : ∀ url, ∀ d ∈ specApps o url, dirWf d = true := by
    intro url d hd
    unfold specApps at hd
    split at hd
    · cases url with
      | none => cases hd
      | some u =>
        simp only [List.mem_singleton] at hd
        subst hd
        simp only [dirWf, sfWf, svWf, Bool.and_true]; decide
    · cases hd
  have hfd : ∀ a : Attrs, TypeAttrs a → ∀ d ∈ fedApps o a ++ a.dirs, dirWf d = true := by
    intro a ha d hd
    rcases List.mem_append.mp hd with hd | hd
    · exact fedApps_wf o a d hd
    · exact ha.dirs d hd
  cases t with
  | scalar n a url =>
    intro d hd
    rcases List.mem_append.mp hd with hd | hd
    · exact hspec url d hd
    · exact hfd a ha d hd
  | input n a oneof fs =>
    intro d hd
    rcases List.mem_append.mp hd with hd | hd
    · cases oneof
      · cases hd
      · simp only [if_true, List.mem_singleton] at hd; subst hd; decide
    · exact hfd a ha d hd
  | object n a e i f =>
    intro d hd
    rcases List.mem_append.mp hd with hd | hd
    · exact ha.dirs d hd
    · exact fedApps_wf o a d hd
  | interface n a e i f => exact hfd a ha
  | union n a m => exact hfd a ha
  | «enum» n a v => exact hfd a ha

theorem defToks_end (o : Opts) (t : TypeDef) (r : List Tok) (hr : DefEnd r) : DefEnd (defToks o t ++ r) := by
  unfold defToks
  split
  · simpa using hr
  · split
    · exact DefEnd.name _ _
    · cases hd : (tdAttrs t).desc with
      | some d => exact DefEnd.str _ _
      | none => cases t <;> exact DefEnd.name _ _

theorem defsToks_end (o : Opts) (L : List TypeDef) (r : List Tok) (hr : DefEnd r) : DefEnd (L.flatMap (defToks o) ++ r) := by
  induction L with
  | nil => simpa using hr
  | cons t L ih => simp only [List.flatMap_cons, List.append_assoc]; exact defToks_end o t _ ih

/-- one type definition, at token level -/
theorem pDef_toks (o : Opts) (t : TypeDef) (hs : SkelType t) (rest : List Tok)
    (hr : DefEnd rest) :
    (xType o t = none ∧ defToks o t = []) ∨
    (∃ d, xType o t = some d ∧ pDef (defToks o t ++ rest) = some (d, rest)) := by
  obtain ⟨k1, k2, k3, k4, k5, k6, k7, k8, k9, k10, k11, k12, k13, k14, k15, k16, k17, k18, k19, k20, k21, k22, k23, k24, k25, _⟩ := kw_facts
  cases t with
  | scalar n a url =>
    by_cases hn : isSystemScalar o (.scalar n a url) = true
    · left
      exact ⟨by simp only [xType, hn, if_true], by simp only [defToks, hn, if_true]⟩
    · right
      have hn' : isSystemScalar o (.scalar n a url) = false := by simpa using hn
      obtain ⟨_, ha⟩ := hs
      refine ⟨.type false n a.desc ((typeApps o (.scalar n a url)).map dDir) .scalar, by simp only [xType, hn', Bool.false_eq_true, if_false], ?_⟩
      have e1 : kw "scalar" ≠ kw "extend" := by decide
      have e2 : kw "scalar" ≠ kw "schema" := by decide
      have e3 : kw "scalar" ≠ kw "directive" := by decide
      simp only [defToks, hn', isExt, Bool.false_eq_true, if_false, tdAttrs, defCore, List.cons_append, List.append_assoc]
      rw [pDef_plain _ _ _ e1 e2 e3]
      exact pTypeDef_scalar false a.desc n _ (typeApps_wf o (.scalar n a url) ha) rest hr
  | object n a ext impls fs =>
    right
    obtain ⟨_, ha, _, hne, hfs⟩ := hs
    refine ⟨_, rfl, ?_⟩
    have := fun e d => pTypeDef_object o e d true n impls _ (typeApps_wf o (.object n a ext impls fs) ha) fs hne (fun f hf => (hfs f hf).1) rest
    simp only [if_true] at this
    by_cases he : (o.federation && ext) = true
    · simp only [defToks, isSystemScalar, isExt, he, Bool.false_eq_true, if_false, if_true, defCore, List.cons_append, List.append_assoc]
      rw [pDef_extend _ _ k2]
      simpa [List.append_assoc] using this true none
    · have he' : (o.federation && ext) = false := by simpa using he
      simp only [defToks, isSystemScalar, isExt, he', Bool.false_eq_true, if_false, tdAttrs, defCore, List.cons_append, List.append_assoc]
      rw [pDef_plain _ _ _ k1 k2 k3]
      simpa [List.append_assoc] using this false a.desc
  | interface n a ext impls fs =>
    right
    obtain ⟨_, ha, _, hne, hfs⟩ := hs
    refine ⟨_, rfl, ?_⟩
    have := fun e d => pTypeDef_object o e d false n impls _ (typeApps_wf o (.interface n a ext impls fs) ha) fs hne (fun f hf => (hfs f hf).1) rest
    simp only [Bool.false_eq_true, if_false] at this
    by_cases he : (o.federation && ext) = true
    · simp only [defToks, isSystemScalar, isExt, he, Bool.false_eq_true, if_false, if_true, defCore, List.cons_append, List.append_assoc]
      rw [pDef_extend _ _ k6]
      simpa [List.append_assoc] using this true none
    · have he' : (o.federation && ext) = false := by simpa using he
      simp only [defToks, isSystemScalar, isExt, he', Bool.false_eq_true, if_false, tdAttrs, defCore, List.cons_append, List.append_assoc]
      rw [pDef_plain _ _ _ k5 k6 k7]
      simpa [List.append_assoc] using this false a.desc
  | union n a ms =>
    right
    obtain ⟨_, ha, hne, _⟩ := hs
    refine ⟨_, rfl, ?_⟩
    simp only [defToks, isSystemScalar, isExt, Bool.false_eq_true, if_false, tdAttrs, defCore, List.cons_append, List.append_assoc]
    rw [pDef_plain _ _ _ k10 k11 k12]
    simpa [List.append_assoc] using pTypeDef_union false a.desc n _ (typeApps_wf o (.union n a ms) ha) ms hne rest hr
  | «enum» n a vs =>
    right
    obtain ⟨_, ha, hne, hvs⟩ := hs
    refine ⟨_, rfl, ?_⟩
    simp only [defToks, isSystemScalar, isExt, Bool.false_eq_true, if_false, tdAttrs, defCore, List.cons_append, List.append_assoc]
    rw [pDef_plain _ _ _ k16 k17 k18]
    simpa [List.append_assoc] using pTypeDef_enum o false a.desc n _ (typeApps_wf o (.enum n a vs) ha) vs hne hvs rest
  | input n a oneof fs =>
    right
    obtain ⟨_, ha, hne, hfs⟩ := hs
    refine ⟨_, rfl, ?_⟩
    simp only [defToks, isSystemScalar, isExt, Bool.false_eq_true, if_false, tdAttrs, defCore, List.cons_append, List.append_assoc]
    rw [pDef_plain _ _ _ k23 k24 k25]
    simpa [List.append_assoc] using pTypeDef_input o false a.desc n _ (typeApps_wf o (.input n a oneof fs) ha) fs hne hfs rest

theorem pDefs_nil (g : Nat) : pDefs g [] = none := by
  cases g with
  | zero => rfl
  | succ g => rfl

/-- a list of skeleton type definitions at the end of a document (fuel: the definitions count) -/
theorem pDefs_toks (o : Opts) (L : List TypeDef) (hL : ∀ t ∈ L, SkelType t) :
    ∀ g, (L.filterMap (xType o)).length ≤ g →
      (L.filterMap (xType o) = [] ∧ L.flatMap (defToks o) = []) ∨
      (L.filterMap (xType o) ≠ [] ∧ pDefs g (L.flatMap (defToks o)) = some (L.filterMap (xType o))) := by
  induction L with
  | nil => intro g _; left; exact ⟨rfl, rfl⟩
  | cons t L ih =>
    intro g hg
    have ihL := ih (fun t ht => hL t (List.mem_cons_of_mem _ ht))
    have hend : DefEnd (L.flatMap (defToks o)) := by simpa using defsToks_end o L [] DefEnd.nil
    rcases pDef_toks o t (hL t List.mem_cons_self) (L.flatMap (defToks o)) hend with ⟨h1, h2⟩ | ⟨d, h1, h2⟩
    · have := ihL g (by simpa [List.filterMap_cons, h1] using hg)
      simpa [List.filterMap_cons, h1, List.flatMap_cons, h2] using this
    · right
      have hg' : (L.filterMap (xType o)).length + 1 ≤ g := by simpa [List.filterMap_cons, h1] using hg
      cases g with
      | zero => omega
      | succ g =>
        refine ⟨by simp [List.filterMap_cons, h1], ?_⟩
        simp only [List.filterMap_cons, h1, List.flatMap_cons]
        rw [pDefs, h2]
        rcases ihL g (by omega) with ⟨e1, e2⟩ | ⟨e1, e2⟩
        · simp [e1, e2]
        · cases hr : L.flatMap (defToks o) with
          | nil => rw [hr, pDefs_nil] at e2; cases e2
          | cons x xs => rw [hr] at e2; simp [e2]

/-- … followed by further definitions -/
theorem pDefs_toks_then (o : Opts) (L : List TypeDef) (hL : ∀ t ∈ L, SkelType t)
    (R : List Tok) (hR : DefEnd R) (hne : R ≠ []) :
    ∀ g, pDefs (g + (L.filterMap (xType o)).length) (L.flatMap (defToks o) ++ R) =
      (pDefs g R).map (L.filterMap (xType o) ++ ·) := by
  induction L with
  | nil => intro g; simp
  | cons t L ih =>
    intro g
    have ihL := ih (fun t ht => hL t (List.mem_cons_of_mem _ ht)) g
    have hend : DefEnd (L.flatMap (defToks o) ++ R) := defsToks_end o L R hR
    rcases pDef_toks o t (hL t List.mem_cons_self) (L.flatMap (defToks o) ++ R) hend with ⟨h1, h2⟩ | ⟨d, h1, h2⟩
    · simpa [List.filterMap_cons, h1, List.flatMap_cons, h2] using ihL
    · simp only [List.filterMap_cons, h1, List.flatMap_cons, List.length_cons, List.append_assoc]
      rw [← Nat.add_assoc, pDefs, h2]
      cases hr : L.flatMap (defToks o) ++ R with
      | nil =>
        have : R = [] := (List.append_eq_nil_iff.mp hr).2
        exact absurd this hne
      | cons x xs =>
        rw [hr] at ihL
        simp only [ihL, Option.map_map]
        cases pDefs g R <;> simp

theorem defs_le_toks (o : Opts) (L : List TypeDef) (hL : ∀ t ∈ L, SkelType t) :
    (L.filterMap (xType o)).length ≤ (L.flatMap (defToks o)).length := by
  induction L with
  | nil => simp
  | cons t L ih =>
    have ih' := ih (fun t ht => hL t (List.mem_cons_of_mem _ ht))
    rcases pDef_toks o t (hL t List.mem_cons_self) [] DefEnd.nil with ⟨h1, h2⟩ | ⟨d, h1, h2⟩
    · simpa [List.filterMap_cons, h1, List.flatMap_cons, h2] using ih'
    · have hne : defToks o t ≠ [] := by
        intro e
        rw [e] at h2
        simp [pDef, pDesc] at h2
      have : 1 ≤ (defToks o t).length := by
        cases hd : defToks o t with
        | nil => exact absurd hd hne
        | cons x xs => simp
      simp [List.filterMap_cons, h1, List.flatMap_cons] at ih' ⊢
      omega

end AGV.Lemmas.SdlSkeleton
