/-
  C17 — a stable sort does not see the order of two blocks that share no key: `List.mergeSort`
  as repeated stable insertion (`mergeSort_cons_ins`), insertions of differently keyed elements
  commute (`ins_comm`), hence `mergeSort_append_comm`.  Used for `normDirs` (directive
  applications compared up to the order of differently named directives).
-/
import AGV.Core.PAst
namespace AGV.Lemmas.SdlSort

variable {α : Type} (le : α → α → Bool)

/-- stable insertion into a sorted list: after everything strictly smaller, before the rest -/
def ins (a : α) : List α → List α
  | [] => [a]
  | b :: s => if le a b then a :: b :: s else b :: ins a s

theorem ins_split (a : α) : ∀ (l₁ l₂ : List α), (∀ b ∈ l₁, le a b = false) → (∀ b ∈ l₂, le a b = true) →
    ins le a (l₁ ++ l₂) = l₁ ++ a :: l₂
  | [], [], _, _ => rfl
  | [], b :: l₂, _, h2 => by simp [ins, h2 b List.mem_cons_self]
  | b :: l₁, l₂, h1, h2 => by
    have := ins_split a l₁ l₂ (fun x hx => h1 x (List.mem_cons_of_mem _ hx)) h2
    simp [ins, h1 b List.mem_cons_self, this]

theorem mergeSort_cons_ins (trans : ∀ (a b c : α), le a b → le b c → le a c) (total : ∀ (a b : α), le a b || le b a)
    (a : α) (l : List α) : List.mergeSort (a :: l) le = ins le a (List.mergeSort l le) := by
  obtain ⟨l₁, l₂, h1, h2, h3⟩ := List.mergeSort_cons trans total a l
  have hs := List.pairwise_mergeSort trans total (a :: l)
  rw [h1] at hs
  have h4 : ∀ b ∈ l₂, le a b = true := by
    intro b hb
    have := (List.pairwise_append.mp hs).2.1
    exact (List.pairwise_cons.mp this).1 b hb
  rw [h1, h2]
  exact (ins_split le a l₁ l₂ (fun b hb => by simpa using h3 b hb) h4).symm

theorem ins_comm (trans : ∀ (a b c : α), le a b → le b c → le a c) (total : ∀ (a b : α), le a b || le b a)
    (x y : α) (hxy : ¬ (le x y = true ∧ le y x = true)) : ∀ s : List α, ins le x (ins le y s) = ins le y (ins le x s)
  | [] => by
    have := total x y
    by_cases h1 : le x y = true
    · have h2 : le y x = false := by simpa using fun h => hxy ⟨h1, h⟩
      simp [ins, h1, h2]
    · have h1' : le x y = false := by simpa using h1
      have h2 : le y x = true := by simpa [h1'] using this
      simp [ins, h1', h2]
  | b :: s => by
    have ih := ins_comm trans total x y hxy s
    have tot := total x y
    by_cases hyb : le y b = true
    · by_cases hxy1 : le x y = true
      · have hyx : le y x = false := by simpa using fun h => hxy ⟨hxy1, h⟩
        have hxb : le x b = true := trans x y b hxy1 hyb
        simp [ins, hyb, hxy1, hxb, hyx]
      · have hxy1' : le x y = false := by simpa using hxy1
        have hyx : le y x = true := by simpa [hxy1'] using tot
        by_cases hxb : le x b = true
        · simp [ins, hyb, hxy1', hxb, hyx]
        · have hxb' : le x b = false := by simpa using hxb
          simp [ins, hyb, hxy1', hxb', hyx]
    · have hyb' : le y b = false := by simpa using hyb
      by_cases hxb : le x b = true
      · have hyx : le y x = false := by
          cases h : le y x with
          | false => rfl
          | true => exact absurd (trans y x b h hxb) hyb
        simp [ins, hyb', hxb, hyx]
      · have hxb' : le x b = false := by simpa using hxb
        simp [ins, hyb', hxb', ih]

/-- a stable sort does not see the order of two blocks with no common key -/
theorem mergeSort_append_comm (trans : ∀ (a b c : α), le a b → le b c → le a c) (total : ∀ (a b : α), le a b || le b a)
    (X Y : List α) (hd : ∀ x ∈ X, ∀ y ∈ Y, ¬ (le x y = true ∧ le y x = true)) :
    List.mergeSort (X ++ Y) le = List.mergeSort (Y ++ X) le := by
  -- inserting an element of X into the sorted Y ++ X'
  have hB : ∀ (a : α) (X' : List α), (∀ y ∈ Y, ¬ (le a y = true ∧ le y a = true)) → ∀ (Y' : List α), (∀ y ∈ Y', y ∈ Y) →
      List.mergeSort (Y' ++ a :: X') le = ins le a (List.mergeSort (Y' ++ X') le) := by
    intro a X' ha Y'
    induction Y' with
    | nil => intro _; exact mergeSort_cons_ins le trans total a X'
    | cons y Y' ih =>
      intro hY
      have ih' := ih (fun z hz => hY z (List.mem_cons_of_mem _ hz))
      have hy := ha y (hY y List.mem_cons_self)
      simp only [List.cons_append]
      rw [mergeSort_cons_ins le trans total, ih', mergeSort_cons_ins le trans total]
      exact ins_comm le trans total y a (fun h => hy ⟨h.2, h.1⟩) _
  induction X with
  | nil => simp
  | cons a X ih =>
    have ih' := ih (fun x hx => hd x (List.mem_cons_of_mem _ hx))
    simp only [List.cons_append]
    rw [mergeSort_cons_ins le trans total, ih', hB a X (hd a List.mem_cons_self) Y (fun _ h => h)]

theorem mergeSort_prefix (trans : ∀ (a b c : α), le a b → le b c → le a c) (total : ∀ (a b : α), le a b || le b a)
    (D A B : List α) (h : List.mergeSort A le = List.mergeSort B le) :
    List.mergeSort (D ++ A) le = List.mergeSort (D ++ B) le := by
  induction D with
  | nil => simpa using h
  | cons d D ih => simp only [List.cons_append]; rw [mergeSort_cons_ins le trans total, ih, mergeSort_cons_ins le trans total]

end AGV.Lemmas.SdlSort
