/-
  Lemmas for the request level of property C06, variables INSIDE literals (part 1): the
  specification's input coercion is idempotent up to the Rust value.  A value coerced at a declared
  type coerces again — as a literal — at that type and denotes the same Rust value
  (`coerce_reco`): leaves coerce to themselves, wrapped single values stay wrapped
  (`coerce_wrap`), an input object that received defaults (`finishFields`) coerces again with the
  defaults coerced now and the keys in declared order (`reco_obj`), provided the schema defaults
  of input fields are coerced values (`defaultsCoerced`).
-/
import AGV.Lemmas.CoerceReqProof

namespace AGV.Lemmas.Coerce
open AGV.Core
open AGV.Spec.Coerce
open AGV.Model.Coerce

/-- the schema defaults of input fields are coerced values: the specification's input coercion
    accepts them at the field's type and the result denotes the same Rust value -/
def defaultsCoerced (T : Table) : Prop :=
  ∀ n o fs f d, T.find? n = some (.input o fs) → f ∈ fs → f.default = some d →
    ∃ c, coerce T false f.ty.gql d = some c ∧ view T f.ty c = view T f.ty d

/-- `c` coerces again (as a literal) at the declared type, to the same Rust value -/
def Reco (T : Table) (rty : RTy) (c : GValue) : Prop :=
  ∃ c', coerce T false rty.gql c = some c' ∧ view T rty c' = view T rty c

theorem atomic_ne_null (g : GValue) (h : atomic g = true) : g ≠ .null := by
  intro e; subst e; simp [atomic] at h

theorem gql_nullable_nullable (t : RTy) : t.gql.nullable.nullable = t.gql.nullable :=
  nullable_idem _ (gql_nullable_not_nonNull t)

/-- a single value against the named base type -/
def coerceAtom (T : Table) (j : Bool) (n : String) (g : GValue) : Option GValue := coerce T j (.named n) g

theorem coerce_atom (T : Table) (j : Bool) (ty : TypeRef) (g : GValue) (h : atomic g = true) :
    coerce T j ty g = (coerceAtom T j ty.base g).map (wrap ty) := by
  cases g with
  | null => simp [atomic] at h
  | list xs => simp [atomic] at h
  | obj fs =>
    simp only [coerceAtom, coerce, TypeRef.base]
    cases T.find? ty.base with
    | none => rfl
    | some d =>
      cases d with
      | scalar => rfl
      | enum vs => rfl
      | input o fields =>
        simp only
        cases coerceEntries T j fields fs with
        | none => rfl
        | some es => simp [Option.map_map, wrap, Function.comp_def]
  | int i => simp [coerceAtom, coerce, TypeRef.base, wrap]
  | float i => simp [coerceAtom, coerce, TypeRef.base, wrap]
  | str i => simp [coerceAtom, coerce, TypeRef.base, wrap]
  | bool i => simp [coerceAtom, coerce, TypeRef.base, wrap]
  | enum i => simp [coerceAtom, coerce, TypeRef.base, wrap]

/-- coercing a wrapped single value is coercing the single value -/
theorem coerce_wrap (T : Table) (j : Bool) (g : GValue) (h : atomic g = true) :
    ∀ rty : RTy, coerce T j rty.gql (wrap rty.gql g) = coerce T j rty.gql g
  | .named n => by simp [RTy.gql, wrap]
  | .opt t => by
    have hne := wrap_ne_null t.gql g (atomic_ne_null g h)
    simp only [RTy.gql, wrap_nullable]
    rw [coerce_congr T j t.gql.nullable t.gql _ hne (gql_nullable_nullable t),
      coerce_congr T j t.gql.nullable t.gql _ (atomic_ne_null g h) (gql_nullable_nullable t)]
    exact coerce_wrap T j g h t
  | .mu t => by
    have hne := wrap_ne_null t.gql g (atomic_ne_null g h)
    simp only [RTy.gql, wrap_nullable]
    rw [coerce_congr T j t.gql.nullable t.gql _ hne (gql_nullable_nullable t),
      coerce_congr T j t.gql.nullable t.gql _ (atomic_ne_null g h) (gql_nullable_nullable t)]
    exact coerce_wrap T j g h t
  | .vec t => by
    have ih := coerce_wrap T j g h t
    simp only [RTy.gql, wrap, coerce, TypeRef.nullable, coerceList, ih]
    rw [coerce_atom T j t.gql g h, coerce_atom T j (.nonNull (.list t.gql)) g h]
    simp only [TypeRef.base]
    cases coerceAtom T j t.gql.base g <;> simp [wrap]


-- ------------------------------------------------------------------ leaves coerce to themselves

theorem coerceScalar_idem (n : String) (v g : GValue) (h : coerceScalar n v = some g) :
    coerceScalar n g = some g := by
  unfold coerceScalar at h
  split at h
  · split at h
    · cases h; rename_i hd; simp [coerceScalar, hd]
    · cases h
  all_goals first | (cases h; simp [coerceScalar]; done) | cases h

theorem coerceLeaf_idem (T : Table) (j : Bool) (n : String) (v g : GValue)
    (h : coerceLeaf T j n v = some g) : coerceLeaf T false n g = some g := by
  unfold coerceLeaf at h ⊢
  split at h
  · exact coerceScalar_idem n v g h
  · unfold coerceEnum at h
    split at h
    · split at h
      · cases h; rename_i hc; simpa [coerceEnum] using hc
      · cases h
    · split at h
      · cases h; rename_i hc; simp only [Bool.and_eq_true] at hc; simpa [coerceEnum] using hc.2
      · cases h
    · cases h
  · cases h

theorem isLeaf_atomic (g : GValue) (h : isLeaf g = true) : atomic g = true := by
  cases g <;> simp_all [isLeaf, atomic]

theorem reco_leaf (T : Table) (j : Bool) (rty : RTy) (w g : GValue)
    (h : coerceLeaf T j rty.gql.base w = some g) : Reco T rty (wrap rty.gql g) := by
  have hl := coerceLeaf_isLeaf T j _ w g h
  have ha := isLeaf_atomic g hl
  refine ⟨wrap rty.gql g, ?_, rfl⟩
  rw [coerce_wrap T false g ha rty]
  have := coerceLeaf_idem T j _ w g h
  cases g <;> simp_all [isLeaf, coerce]

-- ------------------------------------------------------------------ field completion, again

theorem finishFields_skip (gs : List InField) (k : String) (x : GValue) (l : List (String × GValue))
    (hk : k ∉ gs.map (·.name)) : finishFields gs ((k, x) :: l) = finishFields gs l := by
  induction gs with
  | nil => rfl
  | cons g gs ih =>
    simp only [List.map_cons, List.mem_cons, not_or] at hk
    simp only [finishFields, ih hk.2, lookup_cons, if_neg hk.1]

/-- completing a completed object changes nothing -/
theorem finishFields_idem (gs : List InField) (es r : List (String × GValue))
    (hn : nodupB (gs.map (·.name)) = true) (h : finishFields gs es = some r) : finishFields gs r = some r := by
  induction gs generalizing r with
  | nil => simp [finishFields] at h ⊢; exact h
  | cons g gs ih =>
    simp only [List.map_cons, nodupB_cons] at hn
    simp only [finishFields] at h
    cases hr : finishFields gs es with
    | none => simp [hr] at h
    | some rest =>
      simp only [hr] at h
      have ih' := ih rest hn.2 hr
      have hkeys := finishFields_keys gs es rest hr
      have hnot : lookup rest g.name = none := by
        apply lookup_none_of_not_mem
        intro hm
        obtain ⟨kr, hkr, heq⟩ := List.mem_map.mp hm
        exact hn.1 (heq ▸ hkeys kr hkr)
      have hcons : ∀ x, finishFields (g :: gs) ((g.name, x) :: rest) = some ((g.name, x) :: rest) := by
        intro x
        simp only [finishFields, finishFields_skip gs g.name x rest hn.1, ih', lookup_cons, if_true]
      split at h
      · cases h; exact hcons _
      · split at h
        · cases h; exact hcons _
        · split at h
          · cases h
          · cases h
            rename_i hd hnn
            simp only [finishFields, ih', hnot, hd, hnn]
            simp

/-- where the entries of a completed object come from -/
theorem finishFields_mem (gs : List InField) (es r : List (String × GValue))
    (h : finishFields gs es = some r) :
    ∀ kx ∈ r, ∃ g ∈ gs, kx.1 = g.name ∧ (lookup es g.name = some kx.2 ∨ g.default = some kx.2) := by
  induction gs generalizing r with
  | nil => simp [finishFields] at h; subst h; simp
  | cons g gs ih =>
    simp only [finishFields] at h
    cases hr : finishFields gs es with
    | none => simp [hr] at h
    | some rest =>
      simp only [hr] at h
      have ih' := ih rest hr
      have tail : ∀ kx ∈ rest, ∃ g' ∈ g :: gs, kx.1 = g'.name ∧ (lookup es g'.name = some kx.2 ∨ g'.default = some kx.2) := by
        intro kx hkx
        obtain ⟨g', hg', h1, h2⟩ := ih' kx hkx
        exact ⟨g', by simp [hg'], h1, h2⟩
      split at h
      · rename_i v hl
        cases h
        intro kx hkx
        rcases List.mem_cons.mp hkx with rfl | hkx
        · exact ⟨g, by simp, rfl, Or.inl hl⟩
        · exact tail kx hkx
      · split at h
        · rename_i d hd
          cases h
          intro kx hkx
          rcases List.mem_cons.mp hkx with rfl | hkx
          · exact ⟨g, by simp, rfl, Or.inr hd⟩
          · exact tail kx hkx
        · split at h
          · cases h
          · cases h; exact tail

/-- the Rust struct built from completed entries depends on the views of the entries only -/
theorem finishFields_view (T : Table) (fields : List InField) (hn : nodupB (fields.map (·.name)) = true)
    (esx esy : List (String × GValue)) (h : viewEntries T fields esx = viewEntries T fields esy) :
    (finishFields fields esx).map (fun r => viewFields fields (viewEntries T fields r)) =
    (finishFields fields esy).map (fun r => viewFields fields (viewEntries T fields r)) := by
  have e := fun es => finishStruct_eq T (fun f d => some (view T f.ty d)) fields es (fun _ _ _ _ => rfl)
    fields (find_self fields hn) hn
  rw [← e esx, ← e esy, h]

/-- entries that coerce again, entry by entry -/
theorem reco_entries (T : Table) (fields : List InField) : ∀ (r : List (String × GValue)),
    (∀ kx ∈ r, ∃ f, fields.find? (·.name = kx.1) = some f ∧ Reco T f.ty kx.2) →
    ∃ es', coerceEntries T false fields r = some es' ∧ viewEntries T fields es' = viewEntries T fields r
  | [], _ => ⟨[], by simp [coerceEntries]⟩
  | (k, x) :: rest, h => by
    obtain ⟨f, hf, x', hx', hv⟩ := h (k, x) (by simp)
    obtain ⟨es', he, hve⟩ := reco_entries T fields rest (fun kx hkx => h kx (by simp [hkx]))
    exact ⟨(k, x') :: es', by simp [coerceEntries, hf, hx', he], by simp [viewEntries, hf, hv, hve]⟩

theorem coerceEntries_declared (T : Table) (j : Bool) (fields : List InField) :
    ∀ (fs es : List (String × GValue)), coerceEntries T j fields fs = some es →
    ∀ kx ∈ es, ∃ f, fields.find? (·.name = kx.1) = some f
  | [], es, h => by simp [coerceEntries] at h; subst h; simp
  | (k, v) :: rest, es, h => by
    simp only [coerceEntries] at h
    cases hf : fields.find? (·.name = k) with
    | none => simp [hf] at h
    | some f =>
      simp only [hf] at h
      cases h1 : coerce T j f.ty.gql v with
      | none => simp [h1] at h
      | some a =>
        cases h2 : coerceEntries T j fields rest with
        | none => simp [h1, h2] at h
        | some b =>
          simp [h1, h2] at h
          subst h
          intro kx hkx
          rcases List.mem_cons.mp hkx with rfl | hkx
          · exact ⟨f, hf⟩
          · exact coerceEntries_declared T j fields rest b h2 kx hkx

/-- a coerced input object coerces again to the same Rust value -/
theorem reco_obj (T : Table) (hwf : wfTable T = true) (hdc : defaultsCoerced T) (rty : RTy) (o : Bool)
    (fields : List InField) (hfind : T.find? rty.base = some (.input o fields))
    (es r : List (String × GValue))
    (hdecl : ∀ kx ∈ es, ∃ f, fields.find? (·.name = kx.1) = some f)
    (hes : ∀ kx ∈ es, ∀ f, fields.find? (·.name = kx.1) = some f → Reco T f.ty kx.2)
    (hr : (if o then finishOneOf es else finishFields fields es) = some r) :
    Reco T rty (wrap rty.gql (.obj r)) := by
  have hwd := wfTable_find hwf hfind
  simp only [wfDef, Bool.and_eq_true] at hwd
  have hn := hwd.1
  unfold Reco
  rw [coerce_wrap T false (.obj r) rfl rty]
  simp only [coerce, gql_base, hfind]
  have hview : ∀ r, view T rty (wrap rty.gql (.obj r)) = wrapVec rty (view T rty (.obj r)) :=
    fun r => view_wrap T (.obj r) rfl rty
  cases o with
  | true =>
    simp only [if_true] at hr ⊢
    obtain ⟨k, a, rfl, hane⟩ := finishOneOf_some es r hr
    rw [finishOneOf_one k a hane] at hr
    cases hr
    obtain ⟨f, hf⟩ := hdecl (k, a) (by simp)
    obtain ⟨a', ha', hv⟩ := hes (k, a) (by simp) f hf
    have hane' := coerce_ne_null T false _ a a' hane ha'
    refine ⟨wrap rty.gql (.obj [(k, a')]), by simp [coerceEntries, hf, ha', finishOneOf_one k a' hane'], ?_⟩
    simp [hview, view, hfind, viewEntries, hf, hv]
  | false =>
    simp only [Bool.false_eq_true, if_false] at hr ⊢
    have hall : ∀ kx ∈ r, ∃ f, fields.find? (·.name = kx.1) = some f ∧ Reco T f.ty kx.2 := by
      intro kx hkx
      obtain ⟨g, hg, hk, hsrc⟩ := finishFields_mem fields es r hr kx hkx
      have hgf := find_self fields hn g hg
      refine ⟨g, by rw [hk]; exact hgf, ?_⟩
      rcases hsrc with hl | hd
      · have := hes (g.name, kx.2) (lookup_mem _ _ _ hl) g hgf
        exact this
      · exact hdc _ _ _ g kx.2 hfind hg hd
    obtain ⟨es', he, hve⟩ := reco_entries T fields r hall
    have := finishFields_view T fields hn es' r hve
    rw [finishFields_idem fields es r hn hr] at this
    simp only [Option.map_some, Option.map_eq_some_iff] at this
    obtain ⟨r', hr', hv⟩ := this
    refine ⟨wrap rty.gql (.obj r'), by simp [he, hr'], ?_⟩
    simp [hview, view, hfind, hv]

-- ------------------------------------------------------------------ coercion is idempotent up to the Rust value

theorem reco_list (T : Table) (rty : RTy) (xs cs : List GValue)
    (h : ∀ u : RTy, rty.gql.nullable = .list u.gql → rty.item = u →
      ∃ cs', coerceList T false u.gql cs = some cs' ∧ viewList T u cs' = viewList T u cs)
    (j : Bool) (hc : coerce T j rty.gql (.list xs) = some (.list cs)) : Reco T rty (.list cs) := by
  obtain ⟨h1, h2, h3, h4⟩ := gql_nullable_core rty
  simp only [coerce] at hc
  cases hcore : rty.core with
  | vec u =>
    obtain ⟨hn, hi⟩ := h1 u hcore
    obtain ⟨cs', hcs', hv⟩ := h u hn hi
    exact ⟨.list cs', by simp [coerce, hn, hcs'], by simp [view, hi, hv]⟩
  | named n => rw [h2 n hcore] at hc; cases hc
  | opt u => exact absurd hcore (h3 u)
  | mu u => exact absurd hcore (h4 u)

mutual
/-- **Coercion commutes with itself**: a value coerced at a declared type coerces again — as a
    literal — at that type, and the result denotes the same Rust value (defaults an input object
    received are coerced now, keys stay in declared order) -/
theorem coerce_reco (T : Table) (hwf : wfTable T = true) (hdc : defaultsCoerced T) (j : Bool) :
    ∀ (v : GValue) (rty : RTy) (c : GValue), coerce T j rty.gql v = some c → Reco T rty c
  | .null, rty, c, h => by
    have := coerce_null_inv T j _ c h; subst this
    simp only [coerce] at h
    exact ⟨.null, by simpa [coerce] using h, rfl⟩
  | .int i, rty, c, h => by
    simp only [coerce, Option.map_eq_some_iff] at h
    obtain ⟨g, hg, rfl⟩ := h; exact reco_leaf T j rty _ g hg
  | .float i, rty, c, h => by
    simp only [coerce, Option.map_eq_some_iff] at h
    obtain ⟨g, hg, rfl⟩ := h; exact reco_leaf T j rty _ g hg
  | .str i, rty, c, h => by
    simp only [coerce, Option.map_eq_some_iff] at h
    obtain ⟨g, hg, rfl⟩ := h; exact reco_leaf T j rty _ g hg
  | .bool i, rty, c, h => by
    simp only [coerce, Option.map_eq_some_iff] at h
    obtain ⟨g, hg, rfl⟩ := h; exact reco_leaf T j rty _ g hg
  | .enum i, rty, c, h => by
    simp only [coerce, Option.map_eq_some_iff] at h
    obtain ⟨g, hg, rfl⟩ := h; exact reco_leaf T j rty _ g hg
  | .list xs, rty, c, h => by
    have h' := h
    simp only [coerce] at h'
    split at h'
    · rename_i t ht
      simp only [Option.map_eq_some_iff] at h'
      obtain ⟨cs, hcs, rfl⟩ := h'
      refine reco_list T rty xs cs ?_ j h
      intro u hu _
      rw [ht] at hu; cases hu
      exact coerceList_reco T hwf hdc j xs u cs hcs
    · cases h'
  | .obj fs, rty, c, h => by
    simp only [coerce, gql_base] at h
    cases hfind : T.find? rty.base with
    | none => simp [hfind] at h
    | some d =>
      cases d with
      | scalar => simp [hfind] at h
      | enum vs => simp [hfind] at h
      | input o fields =>
        simp only [hfind] at h
        cases hc : coerceEntries T j fields fs with
        | none => simp [hc] at h
        | some es =>
          simp only [hc, Option.map_eq_some_iff] at h
          obtain ⟨r, hr, rfl⟩ := h
          exact reco_obj T hwf hdc rty o fields hfind es r (coerceEntries_declared T j fields fs es hc)
            (coerceEntries_reco T hwf hdc j fs fields es hc) hr
theorem coerceList_reco (T : Table) (hwf : wfTable T = true) (hdc : defaultsCoerced T) (j : Bool) :
    ∀ (xs : List GValue) (t : RTy) (cs : List GValue), coerceList T j t.gql xs = some cs →
      ∃ cs', coerceList T false t.gql cs = some cs' ∧ viewList T t cs' = viewList T t cs
  | [], t, cs, h => by simp [coerceList] at h; subst h; exact ⟨[], by simp [coerceList]⟩
  | x :: xs, t, cs, h => by
    simp only [coerceList] at h
    cases h1 : coerce T j t.gql x with
    | none => simp [h1] at h
    | some a =>
      cases h2 : coerceList T j t.gql xs with
      | none => simp [h1, h2] at h
      | some b =>
        simp [h1, h2] at h
        subst h
        obtain ⟨a', ha', hva⟩ := coerce_reco T hwf hdc j x t a h1
        obtain ⟨b', hb', hvb⟩ := coerceList_reco T hwf hdc j xs t b h2
        exact ⟨a' :: b', by simp [coerceList, ha', hb'], by simp [viewList, hva, hvb]⟩
theorem coerceEntries_reco (T : Table) (hwf : wfTable T = true) (hdc : defaultsCoerced T) (j : Bool) :
    ∀ (fs : List (String × GValue)) (fields : List InField) (es : List (String × GValue)),
      coerceEntries T j fields fs = some es →
      ∀ kx ∈ es, ∀ f, fields.find? (·.name = kx.1) = some f → Reco T f.ty kx.2
  | [], fields, es, h => by simp [coerceEntries] at h; subst h; simp
  | (k, v) :: rest, fields, es, h => by
    simp only [coerceEntries] at h
    cases hf : fields.find? (·.name = k) with
    | none => simp [hf] at h
    | some f =>
      simp only [hf] at h
      cases h1 : coerce T j f.ty.gql v with
      | none => simp [h1] at h
      | some a =>
        cases h2 : coerceEntries T j fields rest with
        | none => simp [h1, h2] at h
        | some b =>
          simp [h1, h2] at h
          subst h
          intro kx hkx f' hf'
          rcases List.mem_cons.mp hkx with rfl | hkx
          · simp only [hf] at hf'; cases hf'
            exact coerce_reco T hwf hdc j v f.ty a h1
          · exact coerceEntries_reco T hwf hdc j rest fields b h2 kx hkx f' hf'
end

end AGV.Lemmas.Coerce
