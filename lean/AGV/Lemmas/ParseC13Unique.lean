/-
  Lemmas for property C13: the uniqueness loop of `parse_query` (`collectLoop`) decides exactly
  the document-level rules of the specification (`validDefs`) and builds `mkDoc`.
-/
import AGV.Lemmas.ParseC13
namespace AGV.Lemmas.ParseC13
open AGV.Model.BuildAst AGV.Core.PAst AGV.Spec.Parse

def toOpt {α : Type} : Except PErr α → Option α
  | .ok d => some d
  | .error _ => none

theorem nodup_iff (l : List Name) : nodup l = true ↔ l.Nodup := by
  induction l with
  | nil => simp [nodup]
  | cons a r ih => simp [nodup, ih]

theorem any_fst_iff {β : Type} (m : List (Name × β)) (n : Name) :
    m.any (fun p => p.1 == n) = true ↔ n ∈ m.map (·.1) := by
  induction m with
  | nil => simp
  | cons a r ih =>
    simp only [List.any_cons, Bool.or_eq_true, ih, List.map_cons, List.mem_cons, beq_iff_eq]
    constructor <;> (rintro (h | h); exact .inl h.symm; exact .inr h)

def fragNames (defs : List PDef) : List Name := (fragDefs defs).map (·.1)

section
variable (n : Name) (o : POp) (f : PFrag) (r : List PDef)
@[simp] theorem anonOps_nil : anonOps [] = [] := rfl
@[simp] theorem opNames_nil : opNames [] = [] := rfl
@[simp] theorem namedOps_nil : namedOps [] = [] := rfl
@[simp] theorem fragDefs_nil : fragDefs [] = [] := rfl
@[simp] theorem fragNames_nil : fragNames [] = [] := rfl
@[simp] theorem anonOps_anon : anonOps (.op none o :: r) = o :: anonOps r := rfl
@[simp] theorem anonOps_named : anonOps (.op (some n) o :: r) = anonOps r := rfl
@[simp] theorem anonOps_frag : anonOps (.frag n f :: r) = anonOps r := rfl
@[simp] theorem opNames_anon : opNames (.op none o :: r) = opNames r := rfl
@[simp] theorem opNames_named : opNames (.op (some n) o :: r) = n :: opNames r := rfl
@[simp] theorem opNames_frag : opNames (.frag n f :: r) = opNames r := rfl
@[simp] theorem namedOps_anon : namedOps (.op none o :: r) = namedOps r := rfl
@[simp] theorem namedOps_named : namedOps (.op (some n) o :: r) = (n, o) :: namedOps r := rfl
@[simp] theorem namedOps_frag : namedOps (.frag n f :: r) = namedOps r := rfl
@[simp] theorem fragDefs_anon : fragDefs (.op none o :: r) = fragDefs r := rfl
@[simp] theorem fragDefs_named : fragDefs (.op (some n) o :: r) = fragDefs r := rfl
@[simp] theorem fragDefs_frag : fragDefs (.frag n f :: r) = (n, f) :: fragDefs r := rfl
@[simp] theorem fragNames_anon : fragNames (.op none o :: r) = fragNames r := rfl
@[simp] theorem fragNames_named : fragNames (.op (some n) o :: r) = fragNames r := rfl
@[simp] theorem fragNames_frag : fragNames (.frag n f :: r) = n :: fragNames r := rfl
end

theorem loop_single (rest : List PDef) : ∀ (o : POp) (frags : List (Name × PFrag)),
    (frags.map (·.1)).Nodup →
    toOpt (collectLoop rest (some (.single o)) frags) =
      if (anonOps rest).isEmpty ∧ (opNames rest).isEmpty ∧ (frags.map (·.1) ++ fragNames rest).Nodup
      then some ⟨.single o, frags ++ fragDefs rest⟩ else none := by
  induction rest with
  | nil => intro o frags h; simp [collectLoop, toOpt, h]
  | cons d rest ih =>
    intro o frags h
    cases d with
    | op name o' =>
      cases name with
      | none => simp [collectLoop, toOpt]
      | some n => simp [collectLoop, toOpt]
    | frag n f =>
      rw [collectLoop]
      by_cases hn : n ∈ frags.map (·.1)
      · have : frags.any (fun p => p.1 == n) = true := (any_fst_iff _ _).2 hn
        simp only [this, if_true, toOpt]
        rw [if_neg]
        intro ⟨_, _, h3⟩
        simp [List.nodup_append] at h3
        simp at hn
        obtain ⟨x, hx⟩ := hn
        exact h3.2.2 _ _ hx |>.1 rfl
      · have : frags.any (fun p => p.1 == n) = false := by
          rw [Bool.eq_false_iff, ne_eq, any_fst_iff]; exact hn
        simp only [this, Bool.false_eq_true, if_false]
        rw [ih o (frags ++ [(n, f)])]
        · simp [List.append_assoc]
        · simp [List.nodup_append, h]
          intro a x hx hax; subst hax; exact hn (by simp; exact ⟨x, hx⟩)

theorem loop_multi (rest : List PDef) : ∀ (m : List (Name × POp)) (frags : List (Name × PFrag)),
    (frags.map (·.1)).Nodup → (m.map (·.1)).Nodup →
    toOpt (collectLoop rest (some (.multi m)) frags) =
      if (anonOps rest).isEmpty ∧ (m.map (·.1) ++ opNames rest).Nodup ∧ (frags.map (·.1) ++ fragNames rest).Nodup
      then some ⟨.multi (m ++ namedOps rest), frags ++ fragDefs rest⟩ else none := by
  induction rest with
  | nil => intro m frags h hm; simp [collectLoop, toOpt, h, hm]
  | cons d rest ih =>
    intro m frags h hm
    cases d with
    | op name o' =>
      cases name with
      | none => simp [collectLoop, toOpt]
      | some n =>
        rw [collectLoop]
        simp only [Option.getD_some]
        by_cases hn : n ∈ m.map (·.1)
        · have : m.any (fun p => p.1 == n) = true := (any_fst_iff _ _).2 hn
          simp only [this, if_true, toOpt]
          rw [if_neg]
          intro ⟨_, h3, _⟩
          simp [List.nodup_append] at h3
          simp at hn
          obtain ⟨x, hx⟩ := hn
          exact h3.2.2 _ _ hx |>.1 rfl
        · have : m.any (fun p => p.1 == n) = false := by
            rw [Bool.eq_false_iff, ne_eq, any_fst_iff]; exact hn
          simp only [this, Bool.false_eq_true, if_false]
          rw [ih (m ++ [(n, o')]) frags h]
          · simp [List.append_assoc]
          · simp [List.nodup_append, hm]
            intro a x hx hax; subst hax; exact hn (by simp; exact ⟨x, hx⟩)
    | frag n f =>
      rw [collectLoop]
      by_cases hn : n ∈ frags.map (·.1)
      · have : frags.any (fun p => p.1 == n) = true := (any_fst_iff _ _).2 hn
        simp only [this, if_true, toOpt]
        rw [if_neg]
        intro ⟨_, _, h3⟩
        simp [List.nodup_append] at h3
        simp at hn
        obtain ⟨x, hx⟩ := hn
        exact h3.2.2 _ _ hx |>.1 rfl
      · have : frags.any (fun p => p.1 == n) = false := by
          rw [Bool.eq_false_iff, ne_eq, any_fst_iff]; exact hn
        simp only [this, Bool.false_eq_true, if_false]
        rw [ih m (frags ++ [(n, f)]) _ hm]
        · simp [List.append_assoc]
        · simp [List.nodup_append, h]
          intro a x hx hax; subst hax; exact hn (by simp; exact ⟨x, hx⟩)

def docOf (rest : List PDef) (frags : List (Name × PFrag)) : Option PDoc :=
  match anonOps rest with
  | o :: _ => some ⟨.single o, frags ++ fragDefs rest⟩
  | [] => some ⟨.multi (namedOps rest), frags ++ fragDefs rest⟩

theorem loop_none (rest : List PDef) : ∀ (frags : List (Name × PFrag)),
    (frags.map (·.1)).Nodup →
    toOpt (collectLoop rest none frags) =
      if (opNames rest).Nodup ∧ (frags.map (·.1) ++ fragNames rest).Nodup ∧
         ((anonOps rest).isEmpty ∨ ((anonOps rest).length = 1 ∧ (opNames rest).isEmpty)) ∧
         (¬ (anonOps rest).isEmpty ∨ ¬ (opNames rest).isEmpty)
      then docOf rest frags else none := by
  induction rest with
  | nil => intro frags h; simp [collectLoop, toOpt]
  | cons d rest ih =>
    intro frags h
    cases d with
    | op name o' =>
      cases name with
      | none =>
        rw [collectLoop, loop_single rest o' frags h]
        simp [docOf]
        split <;> split <;> first | rfl | (exfalso; simp_all)
      | some n =>
        rw [collectLoop]
        simp only [Option.getD_none, List.any_nil, Bool.false_eq_true, if_false, List.nil_append]
        rw [loop_multi rest [(n, o')] frags h (by simp)]
        simp [docOf]
        split
        · rename_i hc; rw [if_pos ⟨hc.2.1, hc.2.2, hc.1⟩]; simp [hc.1]
        · rename_i hc; rw [if_neg]; intro hc'; exact hc ⟨hc'.2.2, hc'.1, hc'.2.1⟩
    | frag n f =>
      rw [collectLoop]
      by_cases hn : n ∈ frags.map (·.1)
      · have : frags.any (fun p => p.1 == n) = true := (any_fst_iff _ _).2 hn
        simp only [this, if_true, toOpt]
        rw [if_neg]
        intro ⟨_, h3, _⟩
        simp [List.nodup_append] at h3
        simp at hn
        obtain ⟨x, hx⟩ := hn
        exact h3.2.2 _ _ hx |>.1 rfl
      · have : frags.any (fun p => p.1 == n) = false := by
          rw [Bool.eq_false_iff, ne_eq, any_fst_iff]; exact hn
        simp only [this, Bool.false_eq_true, if_false]
        rw [ih (frags ++ [(n, f)])]
        · simp [docOf, List.append_assoc]
        · simp [List.nodup_append, h]
          intro a x hx hax; subst hax; exact hn (by simp; exact ⟨x, hx⟩)


theorem validDefs_iff (defs : List PDef) :
    validDefs {} defs = true ↔
      ((opNames defs).Nodup ∧ (fragNames defs).Nodup ∧
         ((anonOps defs).isEmpty ∨ ((anonOps defs).length = 1 ∧ (opNames defs).isEmpty)) ∧
         (¬ (anonOps defs).isEmpty ∨ ¬ (opNames defs).isEmpty)) := by
  have e : (fragDefs defs).map (·.1) = fragNames defs := rfl
  simp only [validDefs, e, Bool.and_eq_true, Bool.or_eq_true, nodup_iff, decide_eq_true_eq,
    Bool.not_true, Bool.false_or, Bool.not_eq_true', and_assoc]
  simp

theorem collectDefs_spec (defs : List PDef) :
    toOpt (collectDefs defs) = if validDefs {} defs then mkDoc defs else none := by
  rw [collectDefs, loop_none defs [] (by simp)]
  simp only [List.map_nil, List.nil_append]
  by_cases h : validDefs {} defs = true
  · rw [if_pos h, if_pos ((validDefs_iff defs).1 h)]
    simp only [docOf, mkDoc, List.nil_append]
    cases anonOps defs <;> rfl
  · rw [if_neg h, if_neg (mt (validDefs_iff defs).2 h)]
end AGV.Lemmas.ParseC13
