/-
  Lemmas about the extension model: what a chain of recording pass-through hooks does to a
  trace, and naturality of the executor in the resolve hook.
-/
import AGV.Model.Ext

namespace AGV.Lemmas.Ext
open AGV.Core AGV.Model.Ext
open AGV.Spec.Exec (FieldOcc mapIdx)

-- ------------------------------------------------------------------ traces

def mapT {α : Type} (φ : List Ev → List Ev) (r : T α) : T α := (r.1, φ r.2)

@[simp] theorem mapT_fst {α : Type} (φ : List Ev → List Ev) (r : T α) : (mapT φ r).1 = r.1 := rfl
@[simp] theorem mapT_snd {α : Type} (φ : List Ev → List Ev) (r : T α) : (mapT φ r).2 = φ r.2 := rfl

/-- a trace transformer that is a monoid homomorphism -/
structure Hom (φ : List Ev → List Ev) : Prop where
  nil : φ [] = []
  app : ∀ a b, φ (a ++ b) = φ a ++ φ b

theorem expand_nil (ls : List Nat) : expand ls [] = [] := rfl

theorem expand_append (ls : List Nat) (a b : List Ev) : expand ls (a ++ b) = expand ls a ++ expand ls b := by
  simp [expand, List.flatMap_append]

theorem expand_cons (ls : List Nat) (e : Ev) (t : List Ev) : expand ls (e :: t) = expandEv ls e ++ expand ls t := by
  simp [expand, List.flatMap_cons]

theorem expand_hom (ls : List Nat) : Hom (expand ls) := ⟨expand_nil ls, expand_append ls⟩

/-- with no extension nothing is added -/
theorem expand_empty (t : List Ev) : expand [] t = t := by
  induction t with
  | nil => rfl
  | cons e t ih =>
    rw [expand_cons, ih]
    cases e with
    | mark b s => cases b <;> simp [expandEv]
    | hook b i s => simp [expandEv]

theorem Hom.flatten {φ : List Ev → List Ev} (h : Hom φ) {α : Type} (rs : List (T α)) :
    (rs.map (fun r => φ r.2)).flatten = φ ((rs.map (·.2)).flatten) := by
  induction rs with
  | nil => simp [h.nil]
  | cons r rs ih => simp [h.app, ih]

-- ------------------------------------------------------------------ the chain runners

/-- `c30_nesting`, core: a chain of recording hooks wraps the base trace in the enters in
    registration order and the exits in reverse order; the value is the base value -/
theorem runChain_rec {α : Type} (s : Site) (ls : List Nat) (base : Unit → T α) :
    runChain (ls.map (fun i => recWrap i s)) base =
      ((base ()).1, ls.map (fun i => Ev.hook true i s) ++ (base ()).2 ++ ls.reverse.map (fun i => Ev.hook false i s)) := by
  induction ls with
  | nil => simp [runChain]
  | cons i ls ih =>
    simp only [List.map_cons, runChain, recWrap, ih]
    simp [List.append_assoc]

theorem runPrepare_rec {Req E : Type} (s : Site) (ls : List Nat) (req : Req) :
    runPrepare (ls.map (fun i => (fun (r : Req) (next : Req → T (Except E Req)) =>
      let x := next r
      (x.1, Ev.hook true i s :: x.2 ++ [Ev.hook false i s])))) req =
      (.ok req, ls.map (fun i => Ev.hook true i s) ++ ls.reverse.map (fun i => Ev.hook false i s)) := by
  induction ls with
  | nil => simp [runPrepare]
  | cons i ls ih =>
    simp only [List.map_cons, runPrepare, ih]
    simp [List.append_assoc]

theorem expand_site (ls : List Nat) (s : Site) (t : List Ev) :
    expand ls (Ev.mark true s :: t ++ [Ev.mark false s]) =
      Ev.mark true s :: (ls.map (fun i => Ev.hook true i s) ++ expand ls t ++
        ls.reverse.map (fun i => Ev.hook false i s)) ++ [Ev.mark false s] := by
  show expand ls ((Ev.mark true s :: t) ++ [Ev.mark false s]) = _
  rw [expand_append, expand_cons, expand_cons, expand_nil]
  simp [expandEv, List.append_assoc]

/-- a hook site under a stack of recording hooks = the same site with no hook, expanded -/
theorem atSite_rel {α : Type} (ls : List Nat) (s : Site) (b1 b2 : Unit → T α)
    (h : b1 () = mapT (expand ls) (b2 ())) :
    atSite s (ls.map (fun i => recWrap i s)) b1 = mapT (expand ls) (atSite s [] b2) := by
  simp only [atSite, runChain_rec, runChain, h, mapT]
  rw [expand_site]

-- ------------------------------------------------------------------ naturality of the executor

def HookRel (φ : List Ev → List Ev) (h1 h2 : Site → Wrap FRes) : Prop :=
  ∀ s b1 b2, b1 () = mapT φ (b2 ()) → h1 s b1 = mapT φ (h2 s b2)

/-- two executor contexts that differ in the resolve hook only -/
structure CtxRel (φ : List Ev → List Ev) (x1 x2 : XCtx) : Prop where
  c : x1.c = x2.c
  ity : ∀ t, itemTy x1 t = itemTy x2 t
  look : ∀ hd, looksUp x1 hd = looksUp x2 hd
  hook : HookRel φ x1.hookAt x2.hookAt

theorem joinAllT_mapIdx {β : Type} (φ : List Ev → List Ev) (F1 F2 : Nat → β → T FRes)
    (h : ∀ i v, F1 i v = mapT φ (F2 i v)) (xs : List β) (i0 : Nat) :
    joinAllT (mapIdx (fun i v => fun (_ : Unit) => F1 i v) xs i0) =
      (joinAllT (mapIdx (fun i v => fun (_ : Unit) => F2 i v) xs i0)).map (mapT φ) := by
  have hF : F1 = fun i v => mapT φ (F2 i v) := by funext i v; exact h i v
  subst hF
  induction xs generalizing i0 with
  | nil => simp [mapIdx, joinAllT]
  | cons v xs ih =>
    simp only [mapIdx, joinAllT, mapT_fst]
    cases hv : (F2 i0 v).1.val with
    | none => simp
    | some _ => simp [ih]

theorem joinAllT_map {β : Type} (φ : List Ev → List Ev) (G1 G2 : β → T FRes)
    (h : ∀ o, G1 o = mapT φ (G2 o)) (l : List β) :
    joinAllT (l.map (fun o => fun (_ : Unit) => G1 o)) =
      (joinAllT (l.map (fun o => fun (_ : Unit) => G2 o))).map (mapT φ) := by
  have hG : G1 = fun o => mapT φ (G2 o) := by funext o; exact h o
  subst hG
  induction l with
  | nil => simp [joinAllT]
  | cons o l ih =>
    simp only [List.map_cons, joinAllT, mapT_fst]
    cases hv : (G2 o).1.val with
    | none => simp
    | some _ => simp [ih]

theorem gather_rel {φ : List Ev → List Ev} (hφ : Hom φ) (rs : List (T FRes)) (ok : List GValue → GValue)
    (bad : Option GValue) :
    gather (rs.map (mapT φ)) ok bad = mapT φ (gather rs ok bad) := by
  have hfl := hφ.flatten rs
  simp only [gather, List.map_map, List.all_map, List.filterMap_map, Function.comp_def, mapT_fst, mapT_snd, hfl]
  split <;> rfl

theorem nnWrapX_rel (φ : List Ev → List Ev) (r : T FRes) : nnWrapX (mapT φ r) = mapT φ (nnWrapX r) := by
  rcases r with ⟨⟨val, errs, log, nq⟩, t⟩
  cases val with
  | none => rfl
  | some v =>
    cases v <;> simp only [nnWrapX, mapT]
    by_cases h : errs.isEmpty = true <;> simp [h]

theorem itemWrapX_rel (φ : List Ev → List Ev) (D : AGV.Model.ExecStatic.Defects) (p : List PathSeg) (r : T FRes) :
    itemWrapX D p (mapT φ r) = mapT φ (itemWrapX D p r) := by
  by_cases h : r.1.val.isNone = true <;> simp [itemWrapX, mapT, h]

theorem leaf_rel {φ : List Ev → List Ev} (hφ : Hom φ) (r : FRes) : ((r, []) : T FRes) = mapT φ (r, []) := by
  simp [mapT, hφ.nil]

theorem resolveValueX_rel {φ : List Ev → List Ev} (hφ : Hom φ) {x1 x2 : XCtx} (hx : CtxRel φ x1 x2)
    (rec1 rec2 : String → String → Nat → List Sel → List PathSeg → T FRes)
    (hrec : ∀ a b c d e, rec1 a b c d e = mapT φ (rec2 a b c d e))
    (t : TypeRef) : ∀ (rv : RVal) (ss : List Sel) (path : List PathSeg) (pos : Pos),
      resolveValueX x1 rec1 t rv ss path pos = mapT φ (resolveValueX x2 rec2 t rv ss path pos) := by
  induction t with
  | nonNull t ih =>
    intro rv ss path pos
    cases rv <;> simp only [resolveValueX] <;> first
      | exact leaf_rel hφ _
      | (rw [ih, nnWrapX_rel])
  | list t ih =>
    intro rv ss path pos
    cases rv <;> simp only [resolveValueX] <;> first
      | exact leaf_rel hφ _
      | skip
    rename_i xs
    rw [← gather_rel hφ]
    congr 1
    rw [hx.c, hx.ity]
    apply joinAllT_mapIdx
    intro i v
    apply hx.hook
    rw [ih, itemWrapX_rel]
  | named n =>
    intro rv ss path pos
    cases rv <;> simp only [resolveValueX, hx.c] <;> first
      | exact leaf_rel hφ _
      | skip
    · -- leaf
      split <;> exact leaf_rel hφ _
    · -- obj
      split
      · rw [hrec]
        simp only [mapT_fst]
        split <;> rfl
      · exact leaf_rel hφ _

theorem completeFieldX_rel {φ : List Ev → List Ev} (hφ : Hom φ) {x1 x2 : XCtx} (hx : CtxRel φ x1 x2)
    (rec1 rec2 : String → String → Nat → List Sel → List PathSeg → T FRes)
    (hrec : ∀ a b c d e, rec1 a b c d e = mapT φ (rec2 a b c d e))
    (fd : FieldDef) (rv : RVal) (occ : FieldOcc) (fpath : List PathSeg) :
    completeFieldX x1 rec1 fd rv occ fpath = mapT φ (completeFieldX x2 rec2 fd rv occ fpath) := by
  cases rv <;> simp only [completeFieldX, hx.c] <;> first
    | exact resolveValueX_rel hφ hx rec1 rec2 hrec _ _ _ _ _
    | skip
  split <;> exact leaf_rel hφ _

theorem runFieldX_rel {φ : List Ev → List Ev} (hφ : Hom φ) {x1 x2 : XCtx} (hx : CtxRel φ x1 x2)
    (rec1 rec2 : String → String → Nat → List Sel → List PathSeg → T FRes)
    (hrec : ∀ a b c d e, rec1 a b c d e = mapT φ (rec2 a b c d e))
    (rt : String) (id : Nat) (path : List PathSeg) (occ : FieldOcc) (hd : Bool) :
    runFieldX x1 rec1 rt id path occ hd = mapT φ (runFieldX x2 rec2 rt id path occ hd) := by
  simp only [runFieldX, hx.c, hx.look]
  split
  · exact leaf_rel hφ _
  · split
    · split <;> exact leaf_rel hφ _
    · rename_i fd _
      have h := hx.hook { hook := .resolve, path := path ++ [PathSeg.key occ.key], parent := occ.st, ret := fd.ty.render }
        (fun _ =>
          let r := completeFieldX x1 rec1 fd (AGV.Model.ExecStatic.fieldRVal x2.c id fd occ) occ (path ++ [PathSeg.key occ.key])
          ({ r.1 with log := ⟨id, occ.name, occ.key⟩ :: r.1.log }, r.2))
        (fun _ =>
          let r := completeFieldX x2 rec2 fd (AGV.Model.ExecStatic.fieldRVal x2.c id fd occ) occ (path ++ [PathSeg.key occ.key])
          ({ r.1 with log := ⟨id, occ.name, occ.key⟩ :: r.1.log }, r.2))
        (by simp only [completeFieldX_rel hφ hx rec1 rec2 hrec]; rfl)
      simp only at h
      rw [h]
      rfl

theorem resolveContainerX_rel {φ : List Ev → List Ev} (hφ : Hom φ) {x1 x2 : XCtx} (hx : CtxRel φ x1 x2)
    (fuel : Nat) : ∀ (st rt : String) (id : Nat) (sels : List Sel) (path : List PathSeg),
      resolveContainerX x1 fuel st rt id sels path = mapT φ (resolveContainerX x2 fuel st rt id sels path) := by
  induction fuel with
  | zero => intro st rt id sels path; simp only [resolveContainerX]; exact leaf_rel hφ _
  | succ fuel ih =>
    intro st rt id sels path
    simp only [resolveContainerX, hx.c]
    rw [← gather_rel hφ]
    congr 1
    apply joinAllT_map
    intro o
    exact runFieldX_rel hφ hx _ _ ih _ _ _ _ _

theorem runOp_rel {φ : List Ev → List Ev} (hφ : Hom φ) (D : AGV.Model.ExecStatic.Defects) (X : XDefects)
    (k1 k2 : Bool) (h1 h2 : Site → Wrap FRes) (hh : HookRel φ h1 h2)
    (hl : X.plainPathSkipsLookup = false ∨ k1 = k2)
    (S : Schema) (d : Doc) (op : OpDef) (raw : List (String × GValue)) (w : World) (fuel : Nat) :
    runOp D X k1 h1 S d op raw w fuel = mapT φ (runOp D X k2 h2 S d op raw w fuel) := by
  simp only [runOp]
  apply resolveContainerX_rel hφ
  refine ⟨rfl, fun t => rfl, fun hd => ?_, hh⟩
  rcases hl with hl | hl
  · simp [looksUp, hl]
  · simp [looksUp, hl]

end AGV.Lemmas.Ext
