/-
  Property C13: the scalar alternatives of the `value` production (variable, boolean, null,
  enum_value; number and string are in `PegC13TokSpec`) run by the interpreter in the context of
  a normal rule, with exact pairs.
-/
import AGV.Lemmas.PegC13Rep
namespace AGV.Lemmas.PegX
open AGV.Model.Peg AGV.Model.BuildAst AGV.Spec.Lex AGV.Lemmas.PegC13

/-- the context of the normal (non-atomic) rules: skipping, pairs emitted -/
def c0 : Ctx := {}

def wrapN (n : String) (p : Nat) : Res → Res
  | .ok p1 s1 ps => .ok p1 s1 [Pair.mk n p p1 ps]
  | x => x

@[simp] theorem wrapN_fail (n p) : wrapN n p .fail = .fail := rfl
@[simp] theorem wrapN_ok (n p p1 s1 ps) : wrapN n p (.ok p1 s1 ps) = .ok p1 s1 [Pair.mk n p p1 ps] := rfl

/-- calling a normal rule from a normal rule -/
theorem ev_ruleN {n : String} {r : Rule} {p : Nat} {s : List Char} {N K : Nat} {res : Res}
    (h1 : n ≠ "SOI") (h2 : n ≠ "EOI") (hp : charClass n = none) (hr : findRule G0 n = some r)
    (hb : bodyCtx c0 r = c0) (hty : r.ty ≠ .silent) (he : EvR G0 c0 r.expr p s N res) (hN : N < K) :
    EvR G0 c0 (.ident n) p s K (wrapN n p res) := by
  rw [← hb] at he
  refine (EvR.rule h1 h2 hp hr he hN).cast ?_
  cases res with
  | ok p1 s1 ps => simp only [wrapRule, hty, if_false, wrapN]; rfl
  | _ => rfl

theorem ev_skip0 (p : Nat) (s : List Char) :
    EvR G0 { c0 with atom := .atomic } skipExpr p s (2 * s.length + 17) (.ok (skipPos p s) (skipI s) []) :=
  ev_skipR tokRules0 _ rfl p s

/-- `a ~ b` in a normal rule -/
theorem ev_seq0 {a b : Expr} {p : Nat} {s : List Char} {N M K p1 : Nat} {s1 : List Char} {ps1 : List Pair} {r : Res}
    (ha : EvR G0 c0 a p s N (.ok p1 s1 ps1)) (hb : EvR G0 c0 b (skipPos p1 s1) (skipI s1) M r)
    (hN : N < K) (hM : M < K) (hL : 2 * s1.length + 17 < K) :
    EvR G0 c0 (.seq a b) p s K (prepend ps1 r) :=
  EvR.seq_skip rfl ha (ev_skip0 p1 s1) hb hN hL hM

theorem toks_tokStart_cons {t rest : List Char} {tok : Tok} (ht : TokStart t) (c : Char) (r : List Char)
    (e : t = c :: r) (hl : lexToken t = some (tok, rest)) : toks t = tok :: toks rest := by
  subst e; exact toks_cons ht hl

-- ------------------------------------------------------------------ variable

def variableRule : Rule := ⟨"variable", .normal, .seq (.str ['$']) (.ident "name")⟩
theorem variable0 : findRule G0 "variable" = some variableRule := by rfl

theorem ev_variable_fail (q : Nat) (t : List Char) (h : punctTok '$' t = none) :
    EvR G0 c0 (.ident "variable") q t 4 .fail := by
  have h1 : EvR G0 c0 (.str ['$']) q t 1 .fail := by
    intro f hf; rw [punct_spec G0 c0 '$' (by decide) q t f hf, h]; rfl
  exact (ev_ruleN (by decide) (by decide) (by rfl) variable0 rfl (by decide)
    (EvR.seq_fail h1 (Nat.lt_succ_self 1)) (by omega)).cast rfl

theorem ev_variable_noname (q : Nat) (t r1 : List Char) (h : punctTok '$' t = some r1)
    (hn : nameTok (skipI r1) = none) :
    EvR G0 c0 (.ident "variable") q t (2 * t.length + 20) .fail := by
  have h1 : EvR G0 c0 (.str ['$']) q t 1 (.ok (q + 1) r1 []) := by
    intro f hf; rw [punct_spec G0 c0 '$' (by decide) q t f hf, h]; rfl
  have hlen : r1.length < t.length := by have := h1.consumes.len; omega
  have hl1 := skipI_len r1
  have h2 : EvR G0 c0 (.ident "name") (skipPos (q + 1) r1) (skipI r1) ((skipI r1).length + 8) .fail := by
    refine (ev_nameR tokRules0 c0 _ _).cast ?_
    rw [nameRes_tok, hn]
  exact (ev_ruleN (by decide) (by decide) (by rfl) variable0 rfl (by decide)
    (ev_seq0 h1 h2 (K := 2 * t.length + 19) (by omega) (by omega) (by omega)) (by omega)).cast rfl

theorem ev_variable_ok (q : Nat) (t r1 n r2 : List Char) (h : punctTok '$' t = some r1)
    (hn : nameTok (skipI r1) = some (n, r2)) :
    EvR G0 c0 (.ident "variable") q t (2 * t.length + 20)
      (.ok (skipPos (q + 1) r1 + n.length) r2
        [Pair.mk "variable" q (skipPos (q + 1) r1 + n.length)
          [Pair.mk "name" (skipPos (q + 1) r1) (skipPos (q + 1) r1 + n.length) []]]) := by
  have h1 : EvR G0 c0 (.str ['$']) q t 1 (.ok (q + 1) r1 []) := by
    intro f hf; rw [punct_spec G0 c0 '$' (by decide) q t f hf, h]; rfl
  have hlen : r1.length < t.length := by have := h1.consumes.len; omega
  have hl1 := skipI_len r1
  have h2 : EvR G0 c0 (.ident "name") (skipPos (q + 1) r1) (skipI r1) ((skipI r1).length + 8)
      (.ok (skipPos (q + 1) r1 + n.length) r2 [Pair.mk "name" (skipPos (q + 1) r1) (skipPos (q + 1) r1 + n.length) []]) := by
    refine (ev_nameR tokRules0 c0 _ _).cast ?_
    rw [nameRes_tok, hn]; rfl
  exact (ev_ruleN (by decide) (by decide) (by rfl) variable0 rfl (by decide)
    (ev_seq0 h1 h2 (K := 2 * t.length + 19) (by omega) (by omega) (by omega)) (by omega)).cast rfl

-- ------------------------------------------------------------------ boolean, null

def kwLit (x : List Char) : Expr := .seq (.pos (.ident (kwRuleName x))) (.str x)

def kwTrue : List Char := "true".toList
def kwFalse : List Char := "false".toList
def kwNull : List Char := "null".toList

theorem kwTrue_mem : kwTrue ∈ kwList := by decide
theorem kwFalse_mem : kwFalse ∈ kwList := by decide
theorem kwNull_mem : kwNull ∈ kwList := by decide

def booleanRule : Rule := ⟨"boolean", .normal, .choice (kwLit kwTrue) (kwLit kwFalse)⟩
def nullRule : Rule := ⟨"null", .normal, kwLit kwNull⟩
set_option maxRecDepth 8000 in
theorem boolean0 : findRule G0 "boolean" = some booleanRule := by rfl
set_option maxRecDepth 8000 in
theorem null0 : findRule G0 "null" = some nullRule := by rfl

/-- `true` / `false` as the next token: length and rest -/
def boolTok (t : List Char) : Option (Nat × List Char) :=
  match kwTok kwTrue t with
  | some r => some (4, r)
  | none =>
    match kwTok kwFalse t with
    | some r => some (5, r)
    | none => none

def lenRes (q : Nat) : Option (Nat × List Char) → Res
  | some (k, r) => .ok (q + k) r []
  | none => .fail

/-- the body of `boolean`, given how its keyword literals evaluate -/
theorem ev_booleanBody (c : Ctx) (q : Nat) (t : List Char) (N : Nat)
    (hk : ∀ x ∈ kwList, EvR G0 c (kwLit x) q t N (resOf (q + x.length) (kwTok x t))) :
    EvR G0 c booleanRule.expr q t (N + 1) (lenRes q (boolTok t)) := by
  have h1 := hk kwTrue kwTrue_mem
  have h2 := hk kwFalse kwFalse_mem
  unfold boolTok
  cases e1 : kwTok kwTrue t with
  | some r => rw [e1] at h1; exact (EvR.choice_l h1 (Nat.lt_succ_self N)).cast rfl
  | none =>
    rw [e1] at h1
    cases e2 : kwTok kwFalse t with
    | some r => rw [e2] at h2; exact (EvR.choice_r h1 h2 (Nat.lt_succ_self N) (Nat.lt_succ_self N)).cast rfl
    | none => rw [e2] at h2; exact (EvR.choice_r h1 h2 (Nat.lt_succ_self N) (Nat.lt_succ_self N)).cast rfl

theorem kwLit_skip (x : List Char) (hx : x ∈ kwList) (q : Nat) (t : List Char) (ht : TokStart t) :
    EvR G0 c0 (kwLit x) q t (2 * t.length + 19) (resOf (q + x.length) (kwTok x t)) :=
  fun f hf => keyword_spec x hx c0 rfl q t ht f hf

theorem kwLit_tight (x : List Char) (hx : x ∈ kwList) (c : Ctx) (hc : c.atom ≠ .non) (q : Nat) (t : List Char) :
    EvR G0 c (kwLit x) q t 10 (resOf (q + x.length) (kwTok x t)) :=
  fun f hf => keyword_spec_tight x hx c hc q t f hf

/-- `boolean` in a normal rule at the start of a token -/
theorem ev_boolean (q : Nat) (t : List Char) (ht : TokStart t) :
    EvR G0 c0 (.ident "boolean") q t (2 * t.length + 21) (wrapN "boolean" q (lenRes q (boolTok t))) :=
  ev_ruleN (by decide) (by decide) (by rfl) boolean0 rfl (by decide)
    (ev_booleanBody c0 q t _ (fun x hx => kwLit_skip x hx q t ht)) (by omega)

def nullTokR (q : Nat) (t : List Char) : Res := resOf (q + 4) (kwTok kwNull t)

theorem ev_null (q : Nat) (t : List Char) (ht : TokStart t) :
    EvR G0 c0 (.ident "null") q t (2 * t.length + 20) (wrapN "null" q (nullTokR q t)) :=
  ev_ruleN (by decide) (by decide) (by rfl) null0 rfl (by decide) (kwLit_skip kwNull kwNull_mem q t ht) (by omega)

-- ------------------------------------------------------------------ enum_value

def enumRule : Rule :=
  ⟨"enum_value", .compound, .seq (.neg (.choice (.ident "boolean") (.ident "null"))) (.ident "name")⟩
theorem enum0 : findRule G0 "enum_value" = some enumRule := by rfl

/-- the next token is one of `true`, `false`, `null` -/
def isKwValue (t : List Char) : Bool := (boolTok t).isSome || (kwTok kwNull t).isSome

/-- in a lookahead nothing is wrapped -/
theorem ev_rule_look {n : String} {r : Rule} {c : Ctx} (hl : c.look = true) {p : Nat} {s : List Char} {N K : Nat}
    {res : Res} (h1 : n ≠ "SOI") (h2 : n ≠ "EOI") (hp : charClass n = none) (hr : findRule G0 n = some r)
    (he : EvR G0 (bodyCtx c r) r.expr p s N res) (hN : N < K) : EvR G0 c (.ident n) p s K res := by
  refine (EvR.rule h1 h2 hp hr he hN).cast ?_
  have : emits c = false := by simp [emits, hl]
  cases res with
  | ok p1 s1 ps => simp only [wrapRule, this]; split <;> simp
  | _ => rfl

def enumRes (q : Nat) (t : List Char) : Res :=
  if isKwValue t then .fail
  else
    match nameTok t with
    | some (n, r2) => .ok (q + n.length) r2 [Pair.mk "enum_value" q (q + n.length) [Pair.mk "name" q (q + n.length) []]]
    | none => .fail

theorem ev_enum (q : Nat) (t : List Char) :
    EvR G0 c0 (.ident "enum_value") q t (t.length + 16) (enumRes q t) := by
  have hcc : bodyCtx c0 enumRule = { c0 with atom := .compound } := rfl
  have hcl : ({ atom := .compound, look := true } : Ctx).atom ≠ .non := by simp
  -- the guard
  have hbool : EvR G0 { atom := .compound, look := true } (.ident "boolean") q t 12 (lenRes q (boolTok t)) :=
    ev_rule_look rfl (by decide) (by decide) (by rfl) boolean0
      (ev_booleanBody _ q t 10 (fun x hx => kwLit_tight x hx _ hcl q t)) (by omega)
  have hnull : EvR G0 { atom := .compound, look := true } (.ident "null") q t 11 (nullTokR q t) :=
    ev_rule_look rfl (by decide) (by decide) (by rfl) null0 (kwLit_tight kwNull kwNull_mem _ hcl q t) (by omega)
  have hname := ev_nameR tokRules0 { c0 with atom := .compound } q t
  rw [nameRes_tok] at hname
  have hem : emits { c0 with atom := .compound } = true := by decide
  have hcn : ({ c0 with atom := .compound } : Ctx).atom ≠ .non := by simp
  suffices hb : EvR G0 { c0 with atom := .compound } enumRule.expr q t (t.length + 15)
      (if isKwValue t then .fail
       else match nameTok t with
        | some (n, r2) => .ok (q + n.length) r2 [Pair.mk "name" q (q + n.length) []]
        | none => .fail) by
    rw [← hcc] at hb
    refine (EvR.rule (by decide) (by decide) (by rfl) enum0 hb (by omega)).cast ?_
    unfold enumRes
    split
    · rfl
    · cases nameTok t with
      | none => rfl
      | some x => obtain ⟨n, r2⟩ := x; rfl
  unfold isKwValue
  cases hb : boolTok t with
  | some x =>
    obtain ⟨k, r⟩ := x
    rw [hb] at hbool
    have hg : EvR G0 { c0 with atom := .compound } (.neg (.choice (.ident "boolean") (.ident "null"))) q t 14 .fail :=
      EvR.neg_ok (EvR.choice_l hbool (Nat.lt_succ_self 12)) (Nat.lt_succ_self 13)
    exact (EvR.seq_fail hg (by omega)).cast (by simp)
  | none =>
    rw [hb] at hbool
    cases hn : kwTok kwNull t with
    | some r =>
      have hnull' : EvR G0 { atom := .compound, look := true } (.ident "null") q t 11 (.ok (q + 4) r []) :=
        hnull.cast (by simp [nullTokR, hn, resOf])
      have hg : EvR G0 { c0 with atom := .compound } (.neg (.choice (.ident "boolean") (.ident "null"))) q t 14 .fail :=
        EvR.neg_ok (EvR.choice_r hbool hnull' (Nat.lt_succ_self 12) (by omega)) (Nat.lt_succ_self 13)
      exact (EvR.seq_fail hg (by omega)).cast (by simp)
    | none =>
      have hnull' : EvR G0 { atom := .compound, look := true } (.ident "null") q t 11 .fail :=
        hnull.cast (by simp [nullTokR, hn, resOf])
      have hg : EvR G0 { c0 with atom := .compound } (.neg (.choice (.ident "boolean") (.ident "null"))) q t 14
          (.ok q t []) :=
        EvR.neg_fail (EvR.choice_r hbool hnull' (Nat.lt_succ_self 12) (by omega)) (Nat.lt_succ_self 13)
      refine (EvR.seq_tight hcn hg hname (by omega) (by omega)).cast ?_
      simp only [Option.isSome_none, Bool.or_self, Bool.false_eq_true, if_false]
      cases nameTok t with
      | none => rfl
      | some x => obtain ⟨n, r2⟩ := x; simp [hem]
