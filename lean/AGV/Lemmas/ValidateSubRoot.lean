/-
  C09 — the walker's `__typename` report at the subscription root (visitor.rs, `visit_selection`:
  `MetaType::Object { is_subscription, .. } => *is_subscription`).

  The walker recognises a subscription root ONLY by the `is_subscription` flag the registry carries for
  the current type (`VSchema.subFlag`, dumped from the real registry); the reference validator goes by
  the operation type.  For registries whose flags mark exactly the type `subscription_type` names
  (`flagWF`) the two coincide (`isSubscriptionRoot_of_flagWF`), and the PINNED walker
  (`typenameNotVisited` on) rejects every document that selects `__typename` at a subscription root —
  directly, aliased, beside other fields, through inline fragments without type condition or on the
  root type, and in a fragment defined on the root type (`typename_at_root_rejected`); the reference
  validator calls the same operations invalid (5.2.3.1, `typename_at_root_invalid`).
-/
import AGV.Model.Validate
import AGV.Spec.Validate
import AGV.Lemmas.ValidateGraph
import AGV.Lemmas.ValidateValues

namespace AGV.Lemmas.ValidateSubRoot
open AGV.Core AGV.Model.Validate

theorem isSubscriptionRoot_of_flagWF (S : VSchema) (h : flagWF S = true) (t : Option String) :
    isSubscriptionRoot S t = isSubscriptionRootByName S t := by
  unfold flagWF at h
  simp only [Bool.and_eq_true, List.all_eq_true, beq_iff_eq] at h
  obtain ⟨h1, h2⟩ := h
  unfold isSubscriptionRoot isSubscriptionRootByName
  cases t with
  | none => rfl
  | some a =>
    cases hs : S.base.subscription with
    | none =>
      simp only [hs] at h1
      cases hc : S.subFlag.contains a with
      | false => simpa using hc
      | true => exact absurd (h1 a (by simpa using hc)) (by simp)
    | some b =>
      simp only [hs] at h1 h2
      by_cases hab : a = b
      · subst hab; simpa using h2
      · cases hc : S.subFlag.contains a with
        | false =>
          have hc' : a ∉ S.subFlag := by simpa using hc
          simp [hc', hab]
        | true =>
          have := h1 a (by simpa using hc)
          simp at this; exact absurd this.symm hab

mutual
/-- `__typename` is selected at the level of the enclosing root selection set: as a field (whatever
    its alias), or inside inline fragments without type condition / conditioned on the root type -/
def typenameAt (root : String) : Sel → Bool
  | .field _ n _ _ _ _ => n == "__typename"
  | .spread _ _ _ => false
  | .inline c _ ss _ => (c == none || c == some root) && typenameAtL root ss
def typenameAtL (root : String) : List Sel → Bool
  | [] => false
  | s :: ss => typenameAt root s || typenameAtL root ss
end

/-- the walk contains the walker's own report -/
def Reports (evs : List Evt) : Prop := ∃ e ∈ evs, e.ev = .report .typenameSubscription

theorem Reports.append_left {a b : List Evt} (h : Reports a) : Reports (a ++ b) := by
  obtain ⟨e, he, h⟩ := h; exact ⟨e, List.mem_append_left _ he, h⟩
theorem Reports.append_right {a b : List Evt} (h : Reports b) : Reports (a ++ b) := by
  obtain ⟨e, he, h⟩ := h; exact ⟨e, List.mem_append_right _ he, h⟩

section walk
variable (S : VSchema) (D : Defects) (hD : D.typenameNotVisited = true) (r : String)
  (hex : S.exists? r = true) (hfl : S.subFlag.contains r = true)
include hD hex hfl

mutual
theorem walkSel_reports (st : Stack) (hst : Stack.cur st = some r) : (s : Sel) → typenameAt r s = true →
    Reports (walkSel S D st s)
  | .field al n args ds ss p, h => by
    have hn : n = "__typename" := by simpa [typenameAt] using h
    subst hn
    refine ⟨mk st (.report .typenameSubscription), ?_, rfl⟩
    have hfl' : r ∈ S.subFlag := by simpa using hfl
    simp [walkSel, hD, isSubscriptionRoot, hst, hfl']
  | .spread n ds p, h => by simp [typenameAt] at h
  | .inline c ds ss p, h => by
    simp only [typenameAt, Bool.and_eq_true, Bool.or_eq_true, beq_iff_eq] at h
    obtain ⟨hc, hss⟩ := h
    have hst' : Stack.cur (match c with
        | some t => (if S.exists? t then some t else none) :: st
        | none => st) = some r := by
      rcases hc with hc | hc
      · subst hc; exact hst
      · subst hc; simp [Stack.cur, hex]
    have ih := walkSels_reports _ hst' ss hss
    cases ss with
    | nil => simp [typenameAtL] at hss
    | cons s ss' =>
      obtain ⟨e, he, hev⟩ := ih
      refine ⟨e, ?_, hev⟩
      simp only [walkSel, List.mem_append, List.mem_cons]
      grind
theorem walkSels_reports (st : Stack) (hst : Stack.cur st = some r) : (ss : List Sel) → typenameAtL r ss = true →
    Reports (walkSels S D st ss)
  | [], h => by simp [typenameAtL] at h
  | s :: ss, h => by
    simp only [typenameAtL, Bool.or_eq_true] at h
    rw [walkSels]
    rcases h with h | h
    · exact (walkSel_reports st hst s h).append_left
    · exact (walkSels_reports st hst ss h).append_right
end

theorem walkSet_reports (st : Stack) (hst : Stack.cur st = some r) (ss : List Sel) (h : typenameAtL r ss = true) :
    Reports (walkSet S D st ss) := by
  have := walkSels_reports S D hD r hex hfl st hst ss h
  cases ss with
  | nil => simp [typenameAtL] at h
  | cons s ss' =>
    obtain ⟨e, he, hev⟩ := this
    exact ⟨e, by simp only [walkSet, List.mem_append]; exact Or.inl (Or.inr he), hev⟩

end walk

/-- a subscription operation, or a fragment on the subscription root type, with `__typename` at its root -/
def TypenameAtRoot (d : Doc) (r : String) : Prop :=
  (∃ o ∈ d.ops, o.ty = .subscription ∧ typenameAtL r o.sels = true)
  ∨ (∃ f ∈ d.frags, f.cond = r ∧ typenameAtL r f.sels = true)

instance (d : Doc) (r : String) : Decidable (TypenameAtRoot d r) := by unfold TypenameAtRoot; infer_instance

theorem events_reports (S : VSchema) (D : Defects) (hD : D.typenameNotVisited = true) (r : String)
    (hr : S.base.subscription = some r) (hex : S.exists? r = true) (hfl : S.subFlag.contains r = true)
    (d : Doc) (h : TypenameAtRoot d r) : Reports (events S D d) := by
  rcases h with ⟨o, ho, hty, hs⟩ | ⟨f, hf, hc, hs⟩
  · have : Reports (walkOp S D o) := by
      unfold walkOp
      simp only [rootOf, hty, hr, hex, ↓reduceIte]
      have := walkSet_reports S D hD r hex hfl [some r] rfl o.sels hs
      exact Reports.append_left (Reports.append_right (Reports.append_right this))
    obtain ⟨e, he, hev⟩ := this
    refine ⟨e, ?_, hev⟩
    simp only [events, List.mem_append, List.mem_flatMap]
    exact Or.inl (Or.inr ⟨o, ho, he⟩)
  · have : Reports (walkFrag S D f) := by
      unfold walkFrag
      simp only [hc, hex, ↓reduceIte]
      have := walkSet_reports S D hD r hex hfl [some r] rfl f.sels hs
      exact Reports.append_left (Reports.append_right this)
    obtain ⟨e, he, hev⟩ := this
    refine ⟨e, ?_, hev⟩
    simp only [events, List.mem_append, List.mem_flatMap]
    exact Or.inl (Or.inl (Or.inr ⟨f, hf, he⟩))

/-- THE PINNED WALKER AT THE SUBSCRIPTION ROOT.  In a registry whose `is_subscription` flag is set on
    the type `subscription_type` names, the pipeline with `visit_selection` as pinned (`__typename`
    not visited, the walker's own report instead) rejects every request whose document has
    `__typename` at a subscription root — whatever the other toggles, variables and operation name. -/
theorem typename_at_root_rejected (S : VSchema) (D : Defects) (hD : D.typenameNotVisited = true) (r : String)
    (hr : S.base.subscription = some r) (hex : S.exists? r = true) (hfl : S.subFlag.contains r = true)
    (d : Doc) (vars : List (String × GValue)) (opName : Option String) (h : TypenameAtRoot d r) :
    (checkRules S D d vars opName).isRejected = true := by
  obtain ⟨e, he, hev⟩ := events_reports S D hD r hr hex hfl d h
  have hmem : Kind.typenameSubscription ∈ strictErrors S D d vars opName := by
    unfold strictErrors
    simp only [List.mem_append, List.mem_flatMap]
    refine Or.inl (Or.inl (Or.inl (Or.inl (Or.inl (Or.inl (Or.inl (Or.inl (Or.inl (Or.inl (Or.inl ⟨e, he, ?_⟩))))))))))
    simp [stateless, hev]
  unfold checkRules
  cases hp : preErrors d with
  | cons k ks => simp [Outcome.isRejected]
  | nil =>
    simp only
    cases hk : strictErrors S D d vars opName ++ repairedErrors S D d vars opName with
    | nil =>
      have : Kind.typenameSubscription ∈ strictErrors S D d vars opName ++ repairedErrors S D d vars opName :=
        List.mem_append_left _ hmem
      simp [hk] at this
    | cons k ks => simp [Outcome.isRejected]

-- ------------------------------------------------------------------ the reference validator on the same documents

open AGV.Spec.Validate in
mutual
theorem rootFields_typename (d : Doc) (r : String) : (fuel : Nat) → (s : Sel) → typenameAt r s = true →
    Spec.Validate.selSize s ≤ fuel → ∃ p ∈ rootFields d (fuel + 1) [s], p.2 = "__typename"
  | fuel, .field al n args ds ss p, h, _ => by
    have hn : n = "__typename" := by simpa [typenameAt] using h
    exact ⟨(al.getD n, n), by simp [rootFields], hn⟩
  | _, .spread n ds p, h, _ => by simp [typenameAt] at h
  | 0, .inline c ds ss p, _, hle => by simp [Spec.Validate.selSize] at hle
  | fuel + 1, .inline c ds ss p, h, hle => by
    simp only [typenameAt, Bool.and_eq_true] at h
    have hle' : Spec.Validate.selsSize ss ≤ fuel := by simp [Spec.Validate.selSize] at hle; omega
    obtain ⟨q, hq, hq2⟩ := rootFieldsL_typename d r fuel ss h.2 hle'
    exact ⟨q, by simpa [rootFields] using hq, hq2⟩
theorem rootFieldsL_typename (d : Doc) (r : String) : (fuel : Nat) → (ss : List Sel) → typenameAtL r ss = true →
    Spec.Validate.selsSize ss ≤ fuel → ∃ p ∈ rootFields d (fuel + 1) ss, p.2 = "__typename"
  | _, [], h, _ => by simp [typenameAtL] at h
  | fuel, s :: ss, h, hle => by
    simp only [typenameAtL, Bool.or_eq_true] at h
    simp only [Spec.Validate.selsSize] at hle
    rcases h with h | h
    · obtain ⟨q, hq, hq2⟩ := rootFields_typename d r fuel s h (by omega)
      refine ⟨q, ?_, hq2⟩
      simp only [rootFields, List.flatMap_cons, List.flatMap_nil, List.append_nil, List.mem_append] at hq ⊢
      exact Or.inl hq
    · obtain ⟨q, hq, hq2⟩ := rootFieldsL_typename d r fuel ss h (by omega)
      refine ⟨q, ?_, hq2⟩
      simp only [rootFields, List.flatMap_cons, List.mem_append] at hq ⊢
      exact Or.inr hq
end

/-- the reference validator calls a subscription operation with `__typename` at its root invalid
    (5.2.3.1: the root field must not be an introspection field) — it looks at the operation type only -/
theorem typename_at_root_invalid (P : Spec.Validate.Params) (S : VSchema) (d : Doc) (vars : List (String × GValue))
    (opName : Option String) (r : String)
    (h : ∃ o ∈ d.ops, o.ty = .subscription ∧ typenameAtL r o.sels = true) :
    ¬ Spec.Validate.Valid P S d vars opName := by
  obtain ⟨o, ho, hty, hs⟩ := h
  have hle : Spec.Validate.selsSize o.sels + 1 ≤ Spec.Validate.closureFuel d := by
    have h1 := AGV.Lemmas.ValidateGraph.docFuel_eq d
    have h2 := AGV.Lemmas.ValidateGraph.le_sum_of_mem (fun o : OpDef => Spec.Validate.selsSize o.sels + 1) d.ops o ho
    simp only [Spec.Validate.closureFuel]
    omega
  obtain ⟨k, hk⟩ : ∃ k, Spec.Validate.closureFuel d = k + 1 := ⟨Spec.Validate.closureFuel d - 1, by omega⟩
  obtain ⟨q, hq, hq2⟩ := rootFieldsL_typename d r k o.sels hs (by omega)
  have hv : Spec.Validate.violates_SingleRootField d (Spec.Validate.closureFuel d) = true := by
    unfold Spec.Validate.violates_SingleRootField
    rw [List.any_eq_true]
    refine ⟨o, ho, ?_⟩
    simp only [hty, beq_self_eq_true, Bool.true_and, Bool.or_eq_true, List.any_eq_true]
    refine Or.inr ⟨q, by rw [hk]; exact hq, ?_⟩
    rw [hq2]; decide +kernel
  intro hvalid
  have := AGV.Lemmas.ValidateRules.v_singleRoot P S d vars opName hv
  unfold Spec.Validate.Valid at hvalid
  simp [hvalid] at this

end AGV.Lemmas.ValidateSubRoot
