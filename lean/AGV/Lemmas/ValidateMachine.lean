/-
  C09 — rules with state across callbacks as state machines over the toggle-free walk.  A rule whose
  output on the prefix of every selection / fragment / operation does not depend on the state it is
  entered with, and which is silent on the suffixes, is a structural fold over the document
  (`Machine.run_events`).
-/
import AGV.Lemmas.ValidateRanges
namespace AGV.Lemmas.ValidateMachine
open AGV.Core AGV.Model.Validate AGV.Lemmas.ValidateWalk

/-- a rule with state across callbacks -/
structure Machine (σ : Type) where
  step : σ → Evt → σ × List Model.Validate.Kind

namespace Machine
variable {σ : Type} (M : Machine σ)

def run : σ → List Evt → List Model.Validate.Kind
  | _, [] => []
  | s, e :: es => (M.step s e).2 ++ run (M.step s e).1 es

def final : σ → List Evt → σ
  | s, [] => s
  | s, e :: es => final (M.step s e).1 es

theorem run_append (s : σ) (a b : List Evt) : M.run s (a ++ b) = M.run s a ++ M.run (M.final s a) b := by
  induction a generalizing s with
  | nil => simp [run, final]
  | cons e a ih => simp [run, final, ih]

theorem final_append (s : σ) (a b : List Evt) : M.final s (a ++ b) = M.final (M.final s a) b := by
  induction a generalizing s with
  | nil => simp [final]
  | cons e a ih => simp [final, ih]

@[simp] theorem run_nil (s : σ) : M.run s [] = [] := rfl
@[simp] theorem run_cons (s : σ) (e es) : M.run s (e :: es) = (M.step s e).2 ++ M.run (M.step s e).1 es := rfl

/-- pieces whose output does not depend on the state they are entered with can be concatenated -/
theorem run_flatMap {α} (g : α → List Evt) (out : α → List Model.Validate.Kind)
    (h : ∀ s x, M.run s (g x) = out x) (s : σ) (l : List α) : M.run s (l.flatMap g) = l.flatMap out := by
  induction l generalizing s with
  | nil => simp
  | cons x l ih => simp [List.flatMap_cons, run_append, h, ih]

/-- a machine is silent on a list of events it does not react to -/
theorem silent (P : Evt → Bool) (hP : ∀ s e, P e = true → (M.step s e).2 = []) (L : List Evt) (hL : L.all P = true) (s : σ) :
    M.run s L = [] := by
  induction L generalizing s with
  | nil => rfl
  | cons e L ih =>
    simp only [List.all_cons, Bool.and_eq_true] at hL
    simp [Machine.run_cons, hP s e hL.1, ih hL.2]

end Machine

theorem flatMap_const_nil {α β} (l : List α) : l.flatMap (fun _ => ([] : List β)) = [] := by
  induction l <;> simp_all

-- ------------------------------------------------------------------ the walk as prefix / children / suffix

def enterSetEv (st : Stack) (ss : List Sel) : List Evt := match ss with | [] => [] | _ => [mk st (.enterSet ss)]
def exitSetEv (st : Stack) (ss : List Sel) : List Evt := match ss with | [] => [] | _ => [mk st .exitSet]

theorem walkSet_eq (S : VSchema) (st : Stack) (ss : List Sel) :
    walkSet S {} st ss = enterSetEv st ss ++ walkSels S {} st ss ++ exitSetEv st ss := by
  cases ss <;> simp [walkSet, enterSetEv, exitSetEv, walkSels]

/-- the callbacks of a selection before its sub-selections -/
def preEvents (S : VSchema) (st : Stack) : Sel → List Evt
  | .field al n args ds ss _ =>
    mk st .enterSel :: mk (fieldTy S st n :: st) (.enterField al n args ds ss) ::
      (walkArgs S {} (fieldTy S st n :: st) (fieldDefs S st n) args ++ walkDirs S {} (fieldTy S st n :: st) ds
        ++ enterSetEv (fieldTy S st n :: st) ss)
  | .spread n ds _ =>
    mk st .enterSel :: mk st (.enterSpread n ds) :: (walkDirs S {} st ds ++ [mk st .exitSpread, mk st .exitSel])
  | .inline c ds ss _ =>
    mk st .enterSel :: mk (inlineSt S st c) (.enterInline c ds ss) ::
      (walkDirs S {} (inlineSt S st c) ds ++ enterSetEv (inlineSt S st c) ss)

/-- the callbacks of a selection after its sub-selections -/
def postEvents (S : VSchema) (st : Stack) : Sel → List Evt
  | .field _ n _ _ ss _ => exitSetEv (fieldTy S st n :: st) ss ++ [mk (fieldTy S st n :: st) .exitField, mk st .exitSel]
  | .spread _ _ _ => []
  | .inline c _ ss _ => exitSetEv (inlineSt S st c) ss ++ [mk (inlineSt S st c) .exitInline, mk st .exitSel]

/-- the stack under which the sub-selections of a selection are walked -/
def childSt (S : VSchema) (st : Stack) : Sel → Stack
  | .field _ n _ _ _ _ => fieldTy S st n :: st
  | .spread _ _ _ => st
  | .inline c _ _ _ => inlineSt S st c

def childrenOf : Sel → List Sel
  | .field _ _ _ _ ss _ => ss
  | .spread _ _ _ => []
  | .inline _ _ ss _ => ss

theorem walkSel_eq (S : VSchema) (st : Stack) (s : Sel) :
    walkSel S {} st s = preEvents S st s ++ walkSels S {} (childSt S st s) (childrenOf s) ++ postEvents S st s := by
  cases s with
  | field al n args ds ss p => rw [walkSel_field, walkSet_eq]; simp [preEvents, postEvents, childSt, childrenOf]
  | spread n ds p => rw [walkSel_spread]; simp [preEvents, postEvents, childSt, childrenOf, walkSels]
  | inline c ds ss p => rw [walkSel_inline, walkSet_eq]; simp [preEvents, postEvents, childSt, childrenOf]

namespace Machine
variable {σ : Type} (M : Machine σ)

mutual
/-- A stateful rule whose output on the prefix of every selection is independent of the state it
    is entered with, and which is silent on suffixes, is a fold over the visited selections. -/
theorem run_walkSel (S : VSchema) (out : Stack → Sel → List Model.Validate.Kind)
    (hpre : ∀ s st sel, M.run s (preEvents S st sel) = out st sel)
    (hpost : ∀ s st sel, M.run s (postEvents S st sel) = []) (s : σ) (st : Stack) :
    (sel : Sel) → M.run s (walkSel S {} st sel) = (visitsSel S st sel).flatMap (fun v => out v.1 v.2)
  | .field al n args ds ss p => by
    rw [walkSel_eq, run_append, run_append, hpre, hpost]
    simp only [childSt, childrenOf, visitsSel, List.flatMap_cons, List.append_nil]
    rw [run_walkSels S out hpre hpost _ _ ss]
  | .spread n ds p => by
    rw [walkSel_eq, run_append, run_append, hpre, hpost]
    simp [childSt, childrenOf, visitsSel, walkSels]
  | .inline c ds ss p => by
    rw [walkSel_eq, run_append, run_append, hpre, hpost]
    simp only [childSt, childrenOf, visitsSel, List.flatMap_cons, List.append_nil]
    rw [run_walkSels S out hpre hpost _ _ ss]
theorem run_walkSels (S : VSchema) (out : Stack → Sel → List Model.Validate.Kind)
    (hpre : ∀ s st sel, M.run s (preEvents S st sel) = out st sel)
    (hpost : ∀ s st sel, M.run s (postEvents S st sel) = []) (s : σ) (st : Stack) :
    (ss : List Sel) → M.run s (walkSels S {} st ss) = (visitsSels S st ss).flatMap (fun v => out v.1 v.2)
  | [] => by simp [walkSels, visitsSels]
  | x :: xs => by
    simp only [walkSels, visitsSels, run_append, List.flatMap_append]
    rw [run_walkSel S out hpre hpost _ _ x, run_walkSels S out hpre hpost _ _ xs]
end

end Machine


-- ------------------------------------------------------------------ the document

def fragPre (S : VSchema) (f : FragDef) : List Evt :=
  mk (fragSt S f) (.enterFrag f) :: (walkDirs S {} (fragSt S f) f.dirs ++ enterSetEv (fragSt S f) f.sels)
def fragPost (S : VSchema) (f : FragDef) : List Evt := exitSetEv (fragSt S f) f.sels ++ [mk (fragSt S f) (.exitFrag f)]

theorem walkFrag_eq (S : VSchema) (f : FragDef) :
    walkFrag S {} f = fragPre S f ++ walkSels S {} (fragSt S f) f.sels ++ fragPost S f := by
  simp [walkFrag, walkSet_eq, fragPre, fragPost, fragSt]

def varEvents (st : Stack) (vs : List VarDef) : List Evt := vs.flatMap (fun v => [mk st (.enterVar v), mk st (.exitVar v)])

def opPre (S : VSchema) (o : OpDef) : List Evt :=
  mk [] (.enterOp o) ::
    (match rootOf S o.ty with
     | some r => varEvents (opSt S r) o.vars ++ walkDirs S {} (opSt S r) o.dirs ++ enterSetEv (opSt S r) o.sels
     | none => [mk [] (.report .notConfigured)])
def opPost (S : VSchema) (o : OpDef) : List Evt :=
  (match rootOf S o.ty with
   | some r => exitSetEv (opSt S r) o.sels
   | none => []) ++ [mk [] (.exitOp o)]
def opWalk (S : VSchema) (o : OpDef) : List Evt :=
  match rootOf S o.ty with
  | some r => walkSels S {} (opSt S r) o.sels
  | none => []

theorem walkOp_eq (S : VSchema) (o : OpDef) : walkOp S {} o = opPre S o ++ opWalk S o ++ opPost S o := by
  unfold walkOp opPre opPost opWalk
  cases rootOf S o.ty <;> simp [walkSet_eq, opSt, varEvents]

namespace Machine
variable {σ : Type} (M : Machine σ)

theorem run_opWalk (S : VSchema) (out : Stack → Sel → List Model.Validate.Kind)
    (hpre : ∀ s st sel, M.run s (preEvents S st sel) = out st sel)
    (hpost : ∀ s st sel, M.run s (postEvents S st sel) = []) (s : σ) (o : OpDef) :
    M.run s (opWalk S o) = (opVisits S o).flatMap (fun v => out v.1 v.2) := by
  unfold opWalk opVisits
  cases rootOf S o.ty with
  | none => simp
  | some r => simp only []; exact run_walkSels M S out hpre hpost _ _ _

/-- the whole document: a stateful rule that is state-independent on prefixes and silent on
    suffixes reports the concatenation of what it reports per fragment, operation and selection -/
theorem run_events (S : VSchema) (d : Doc) (out : Stack → Sel → List Model.Validate.Kind)
    (fout : FragDef → List Model.Validate.Kind) (oout : OpDef → List Model.Validate.Kind)
    (hpre : ∀ s st sel, M.run s (preEvents S st sel) = out st sel)
    (hpost : ∀ s st sel, M.run s (postEvents S st sel) = [])
    (hfpre : ∀ s f, M.run s (fragPre S f) = fout f) (hfpost : ∀ s f, M.run s (fragPost S f) = [])
    (hopre : ∀ s o, M.run s (opPre S o) = oout o) (hopost : ∀ s o, M.run s (opPost S o) = [])
    (hdoc : ∀ s, (M.step s (Model.Validate.mk [] .enterDoc)).2 = [] ∧ (M.step s (Model.Validate.mk [] .exitDoc)).2 = []) (s : σ) :
    M.run s (events S {} d) =
      d.frags.flatMap (fun f => fout f ++ (visitsSels S (fragSt S f) f.sels).flatMap (fun v => out v.1 v.2))
      ++ d.ops.flatMap (fun o => oout o ++ (opVisits S o).flatMap (fun v => out v.1 v.2)) := by
  have hf : ∀ s f, M.run s (walkFrag S {} f) = fout f ++ (visitsSels S (fragSt S f) f.sels).flatMap (fun v => out v.1 v.2) := by
    intro s f
    rw [walkFrag_eq, run_append, run_append, hfpre, hfpost, run_walkSels M S out hpre hpost]; simp
  have ho : ∀ s o, M.run s (walkOp S {} o) = oout o ++ (opVisits S o).flatMap (fun v => out v.1 v.2) := by
    intro s o
    rw [walkOp_eq, run_append, run_append, hopre, hopost, run_opWalk M S out hpre hpost]; simp
  simp only [events, run_append, run_cons, run_nil, (hdoc _).1, (hdoc _).2, List.nil_append, List.append_nil,
    run_flatMap M _ _ hf, run_flatMap M _ _ ho]

end Machine

-- ------------------------------------------------------------------ helpers

def argUsages (S : VSchema) (defs : Option (List ArgDef)) (a : String × DValue) : List (String × TypeRef × Bool) :=
  inputUsages S valueFuel ((defs.bind (fun ds => ds.find? (·.name = a.1))).map (·.ty))
    (((defs.bind (fun ds => ds.find? (·.name = a.1))).map (·.default.isSome)).getD false) a.2

theorem walkArgs_nil (S : VSchema) (st defs) : walkArgs S {} st defs [] = [] := rfl
theorem walkArgs_cons (S : VSchema) (st defs a as) :
    walkArgs S {} st defs (a :: as) =
      mk st (.enterArg a.1 a.2) :: mk st (.inputVars (argUsages S defs a)) :: mk st (.exitArg a.1) :: walkArgs S {} st defs as := by
  simp [walkArgs, argUsages]
theorem walkDirs_nil (S : VSchema) (st) : walkDirs S {} st [] = [] := rfl
theorem walkDirs_cons (S : VSchema) (st dr ds) :
    walkDirs S {} st (dr :: ds) =
      mk st (.enterDir dr) :: (walkArgs S {} st ((S.dir? dr.name).map (·.args)) dr.args ++ mk st (.exitDir dr) :: walkDirs S {} st ds) := by
  simp [walkDirs]

/-- membership in the folded form of `Machine.run_events` -/
theorem mem_folded {S : VSchema} {d : Doc} (out : Stack → Sel → List Model.Validate.Kind)
    (fout : FragDef → List Model.Validate.Kind) (oout : OpDef → List Model.Validate.Kind) (k : Model.Validate.Kind) :
    k ∈ d.frags.flatMap (fun f => fout f ++ (visitsSels S (fragSt S f) f.sels).flatMap (fun v => out v.1 v.2))
        ++ d.ops.flatMap (fun o => oout o ++ (opVisits S o).flatMap (fun v => out v.1 v.2)) ↔
      (∃ f ∈ d.frags, k ∈ fout f) ∨ (∃ o ∈ d.ops, k ∈ oout o) ∨ ∃ v ∈ docVisits S d, k ∈ out v.1 v.2 := by
  simp only [List.mem_append, List.mem_flatMap, docVisits]
  constructor
  · rintro (⟨f, hf, h | ⟨v, hv, h⟩⟩ | ⟨o, ho, h | ⟨v, hv, h⟩⟩)
    · exact Or.inl ⟨f, hf, h⟩
    · exact Or.inr (Or.inr ⟨v, Or.inl ⟨f, hf, hv⟩, h⟩)
    · exact Or.inr (Or.inl ⟨o, ho, h⟩)
    · exact Or.inr (Or.inr ⟨v, Or.inr ⟨o, ho, hv⟩, h⟩)
  · rintro (⟨f, hf, h⟩ | ⟨o, ho, h⟩ | ⟨v, ⟨f, hf, hv⟩ | ⟨o, ho, hv⟩, h⟩)
    · exact Or.inl ⟨f, hf, Or.inl h⟩
    · exact Or.inr ⟨o, ho, Or.inl h⟩
    · exact Or.inl ⟨f, hf, Or.inr ⟨v, hv, h⟩⟩
    · exact Or.inr ⟨o, ho, Or.inr ⟨v, hv, h⟩⟩

end AGV.Lemmas.ValidateMachine
