/-
  Lemmas for property C13: the `number` rule of the pest grammar (run by the interpreter of
  `Model/Peg.lean`) against the specification's `lexNumber` — the PEG-free description
  `numberSpec` of `Lemmas/PegC13.lean` equals the rest `lexNumber` leaves, for the repaired
  follow restriction; the pinned rule is the same with the weaker restriction.
-/
import AGV.Lemmas.PegC13
import AGV.Spec.Parse
import AGV.Lemmas.ParseC13
namespace AGV.Lemmas.PegC13
open AGV.Spec.Lex AGV.Spec.Literal AGV.Model.Peg

def fracT (r1 : List Char) : List Char × List Char × Bool :=
  match r1 with
  | '.' :: r => if (digitsOf r).1.isEmpty then ([], r1, false) else ((digitsOf r).1, (digitsOf r).2, true)
  | _ => ([], r1, false)

def expT (r2 : List Char) : Bool × List Char × List Char × Bool :=
  match r2 with
  | c :: r =>
    if c = 'e' || c = 'E' then
      (match r with
       | '+' :: r' => if (digitsOf r').1.isEmpty then (false, [], r2, false) else (false, (digitsOf r').1, (digitsOf r').2, true)
       | '-' :: r' => if (digitsOf r').1.isEmpty then (false, [], r2, false) else (true, (digitsOf r').1, (digitsOf r').2, true)
       | r' => if (digitsOf r').1.isEmpty then (false, [], r2, false) else (false, (digitsOf r').1, (digitsOf r').2, true))
    else (false, [], r2, false)
  | [] => (false, [], r2, false)

def lexNumber' (cs : List Char) : Option (Tok × List Char) :=
  let negative := cs.head? = some '-'
  let body := if negative then cs.tail else cs
  let ip := (digitsOf body).1
  let r1 := (digitsOf body).2
  if ip.isEmpty || (ip.head? = some '0' && ip.length > 1) then none
  else
    let ft := fracT r1
    let et := expT ft.2.1
    if !numFollowOk et.2.2.1 then none
    else if ft.2.2 || et.2.2.2 then some (.float negative ip ft.1 et.1 et.2.1, et.2.2.1)
    else some (.int negative ip, et.2.2.1)

theorem lexNumber_eq (cs : List Char) : lexNumber cs = lexNumber' cs := by rfl

theorem digitsOf_snd (t : List Char) : (digitsOf t).2 = t.dropWhile isAsciiDigit := by
  induction t with
  | nil => rfl
  | cons c r ih =>
    simp only [digitsOf, List.dropWhile_cons]
    have e : isDig c = isAsciiDigit c := rfl
    rw [e]; split <;> simp [ih]

theorem digitsOf_fst_empty (t : List Char) :
    (digitsOf t).1.isEmpty = (classStep isAsciiDigit t).isNone := by
  cases t with
  | nil => rfl
  | cons c r =>
    simp only [digitsOf, classStep]
    have e : isDig c = isAsciiDigit c := rfl
    rw [e]; split <;> simp

theorem digits1_eq (t : List Char) :
    digits1 t = if (digitsOf t).1.isEmpty then none else some (digitsOf t).2 := by
  rw [digitsOf_fst_empty, digitsOf_snd, digits1]
  cases h : classStep isAsciiDigit t with
  | none => rfl
  | some r =>
    simp only [Option.map_some, Option.isNone_some, Bool.false_eq_true, if_false]
    cases t with
    | nil => simp [classStep] at h
    | cons c t' =>
      simp only [classStep] at h
      split at h
      · rename_i hc; simp at h; subst h; simp [hc]
      · cases h

theorem fracT_eq (r1 : List Char) : (fracT r1).2.1 = (fracSpec r1).getD r1 := by
  unfold fracT fracSpec
  split
  · rename_i r
    simp only [matchStr, if_true, digits1_eq]
    split <;> simp_all
  · rename_i hne
    cases r1 with
    | nil => rfl
    | cons c r =>
      have : c ≠ '.' := fun h => hne r (by rw [h])
      simp [matchStr, Ne.symm this]

theorem expMark_cons (c : Char) (r : List Char) :
    expMark (c :: r) = if c = 'e' ∨ c = 'E' then some r else none := by
  unfold expMark
  by_cases h1 : c = 'E'
  · subst h1; simp [matchStr]
  · by_cases h2 : c = 'e'
    · subst h2; simp [matchStr]
    · simp [matchStr, Ne.symm h1, Ne.symm h2, h1, h2]

theorem expTail (r2 r' : List Char) :
    (if (digitsOf r').1.isEmpty then r2 else (digitsOf r').2) = (digits1 r').getD r2 := by
  rw [digits1_eq]; split <;> rfl

theorem expT_eq (r2 : List Char) : (expT r2).2.2.1 = (expSpec r2).getD r2 := by
  cases r2 with
  | nil => rfl
  | cons c r =>
    unfold expSpec
    rw [expMark_cons]
    by_cases h : c = 'e' ∨ c = 'E'
    · have hb : (decide (c = 'e') || decide (c = 'E')) = true := by simpa using h
      simp only [expT, hb, if_true, h]
      rw [← expTail]
      split
      · simp only [signOpt, matchStr, if_true]; split <;> rfl
      · simp only [signOpt, matchStr, if_true, optStr, Char.reduceEq, if_false, Option.getD_some]
        split <;> rfl
      · rename_i h1 h2
        have : signOpt r = r := by
          cases r with
          | nil => rfl
          | cons d r' =>
            have d1 : d ≠ '+' := fun e => h1 r' (by rw [e])
            have d2 : d ≠ '-' := fun e => h2 r' (by rw [e])
            simp [signOpt, optStr, matchStr, Ne.symm d1, Ne.symm d2]
        rw [this]; split <;> rfl
    · have hb : (decide (c = 'e') || decide (c = 'E')) = false := by simpa using h
      simp [expT, hb, h]

theorem follow_eq (r : List Char) : (followPatchedSpec r).isNone = numFollowOk r := by
  cases r with
  | nil => rfl
  | cons c t =>
    have e1 : isDig c = isAsciiDigit c := rfl
    have e2 : nameStart c = (isAsciiAlpha c || decide (c = '_')) := rfl
    simp only [followPatchedSpec, nsSpec, classStep, numFollowOk, e1, e2, matchStr]
    by_cases ha : isAsciiAlpha c = true
    · simp [ha]
    · by_cases hu : c = '_'
      · subst hu; simp [ha]
      · by_cases hd : isAsciiDigit c = true
        · simp [ha, Ne.symm hu, hu, hd]
        · by_cases hp : c = '.'
          · subst hp; simp [ha, hd]
          · simp [ha, Ne.symm hu, hu, hd, hp, Ne.symm hp]

theorem tokenSpec_eq (s : List Char) :
    tokenSpec s = (intSpec s).map (fun r1 => (floatTail r1).getD r1) := by
  unfold tokenSpec floatSpec
  cases h0 : intSpec s with
  | none => rfl
  | some r1 => cases h1 : floatTail r1 <;> simp [h1]

theorem floatTail_getD (r1 : List Char) :
    (floatTail r1).getD r1 = (expT (fracT r1).2.1).2.2.1 := by
  rw [expT_eq, fracT_eq, floatTail]
  cases h1 : fracSpec r1 with
  | none => simp
  | some r2 => simp only []; cases h2 : expSpec r2 <;> simp [h2]

theorem optStr_minus (cs : List Char) :
    optStr ['-'] cs = if cs.head? = some '-' then cs.tail else cs := by
  cases cs with
  | nil => rfl
  | cons c r =>
    by_cases h : c = '-'
    · subst h; simp [optStr, matchStr]
    · simp [optStr, matchStr, h, Ne.symm h]

theorem digitsOf_fst_nil (r : List Char) (h : (digitsOf r).1 = []) : (digitsOf r).2 = r := by
  cases r with
  | nil => rfl
  | cons c t => simp only [digitsOf] at h ⊢; split at h <;> simp_all

def intSpecB (b : List Char) : Option (List Char) :=
  match matchStr ['0'] b with
  | some r => some r
  | none => (classStep isAsciiNonzeroDigit b).map (List.dropWhile isAsciiDigit)

theorem intSpec_eq (cs : List Char) : intSpec cs = intSpecB (optStr ['-'] cs) := rfl

def badIp (ip : List Char) : Bool := ip.isEmpty || (ip.head? = some '0' && ip.length > 1)

theorem nz_of_digit (c : Char) (hd : isAsciiDigit c = true) (h0 : c ≠ '0') : isAsciiNonzeroDigit c = true := by
  have : c.toNat ≠ 48 := by
    intro h; apply h0
    have := Char.ofNat_toNat c
    rw [h] at this; exact this.symm
  simp only [isAsciiDigit, isAsciiNonzeroDigit, Bool.and_eq_true, decide_eq_true_eq] at hd ⊢
  omega

theorem digit_of_nz (c : Char) (h : isAsciiNonzeroDigit c = true) : isAsciiDigit c = true := by
  simp only [isAsciiDigit, isAsciiNonzeroDigit, Bool.and_eq_true, decide_eq_true_eq] at h ⊢
  omega

theorem int_lemma (b : List Char) :
    (badIp (digitsOf b).1 = true →
      intSpecB b = none ∨ ∃ d r, intSpecB b = some (d :: r) ∧ isAsciiDigit d = true) ∧
    (badIp (digitsOf b).1 = false → intSpecB b = some (digitsOf b).2) := by
  cases b with
  | nil => simp [digitsOf, badIp, intSpecB, matchStr, classStep]
  | cons c t =>
    have e : isDig c = isAsciiDigit c := rfl
    by_cases hd : isAsciiDigit c = true
    · by_cases h0 : c = '0'
      · subst h0
        have hi : intSpecB ('0' :: t) = some t := by simp [intSpecB, matchStr]
        have hdig : digitsOf ('0' :: t) = ('0' :: (digitsOf t).1, (digitsOf t).2) := by
          simp [digitsOf, e, hd]
        rw [hdig, hi]
        cases hf : (digitsOf t).1 with
        | nil =>
          simp [badIp]
          exact (digitsOf_fst_nil t hf).symm
        | cons x xs =>
          simp [badIp]
          cases t with
          | nil => simp [digitsOf] at hf
          | cons d r =>
            have e' : isDig d = isAsciiDigit d := rfl
            simp only [digitsOf, e'] at hf
            by_cases hdd : isAsciiDigit d = true
            · exact ⟨d, ⟨r, rfl⟩, hdd⟩
            · simp [hdd] at hf
      · have hnz := nz_of_digit c hd h0
        have hi : intSpecB (c :: t) = some (t.dropWhile isAsciiDigit) := by
          simp [intSpecB, matchStr, Ne.symm h0, classStep, hnz]
        have hdig : digitsOf (c :: t) = (c :: (digitsOf t).1, (digitsOf t).2) := by
          simp [digitsOf, e, hd]
        rw [hdig, hi, digitsOf_snd]
        simp [badIp, h0]
    · have h0 : c ≠ '0' := by intro h; subst h; exact hd (by decide)
      have hnz : isAsciiNonzeroDigit c = false := by
        cases h : isAsciiNonzeroDigit c with
        | false => rfl
        | true => exact absurd (digit_of_nz c h) hd
      have hdig : digitsOf (c :: t) = ([], c :: t) := by simp [digitsOf, e, hd]
      rw [hdig]
      simp [badIp, intSpecB, matchStr, Ne.symm h0, classStep, hnz]

theorem tail_digit (d : Char) (r : List Char) (hd : isAsciiDigit d = true) :
    (floatTail (d :: r)).getD (d :: r) = d :: r ∧ followPatchedSpec (d :: r) ≠ none := by
  have h1 : d ≠ '.' := by intro h; subst h; exact absurd hd (by decide)
  have h2 : d ≠ 'e' := by intro h; subst h; exact absurd hd (by decide)
  have h3 : d ≠ 'E' := by intro h; subst h; exact absurd hd (by decide)
  constructor
  · have hf : fracSpec (d :: r) = none := by simp [fracSpec, matchStr, Ne.symm h1]
    have he : expSpec (d :: r) = none := by
      unfold expSpec; rw [expMark_cons]; simp [h2, h3]
    simp [floatTail, hf, he]
  · intro h
    have := follow_eq (d :: r)
    rw [h] at this
    have e1 : isDig d = isAsciiDigit d := rfl
    simp [numFollowOk, e1, hd] at this

theorem numberSpec_eq_lex (cs : List Char) :
    numberSpec followPatchedSpec cs = (lexNumber cs).map (·.2) := by
  rw [lexNumber_eq]
  unfold lexNumber' numberSpec
  rw [tokenSpec_eq, intSpec_eq, optStr_minus]
  dsimp only
  generalize (if cs.head? = some '-' then cs.tail else cs) = b
  have hb : ((digitsOf b).1.isEmpty || (decide ((digitsOf b).1.head? = some '0') && decide ((digitsOf b).1.length > 1)))
      = badIp (digitsOf b).1 := rfl
  rw [hb]
  obtain ⟨l1, l2⟩ := int_lemma b
  cases hbad : badIp (digitsOf b).1 with
  | false =>
    rw [l2 hbad]
    simp only [Option.map_some, Bool.false_eq_true, if_false, floatTail_getD]
    generalize (expT (fracT (digitsOf b).2).2.1).2.2.1 = R
    have hf := follow_eq R
    cases hn : numFollowOk R with
    | true =>
      rw [hn] at hf
      have : followPatchedSpec R = none := by simpa using hf
      simp only [this, negOut, Bool.not_true, Bool.false_eq_true, if_false]
      split <;> rfl
    | false =>
      rw [hn] at hf
      cases hfs : followPatchedSpec R with
      | none => simp [hfs] at hf
      | some x => simp [negOut]
  | true =>
    simp only [if_true, Option.map_none]
    rcases l1 hbad with h | ⟨d, r, h, hd⟩
    · rw [h]; rfl
    · rw [h]
      obtain ⟨t1, t2⟩ := tail_digit d r hd
      simp only [Option.map_some, t1]
      cases hfs : followPatchedSpec (d :: r) with
      | none => exact absurd hfs t2
      | some x => rfl

/-- the rest does not begin with a Digit or `.` -/
def noDigitDot : List Char → Bool
  | c :: _ => !(isAsciiDigit c || c = '.')
  | [] => true

theorem patched_eq_pinned_filter (s : List Char) :
    numberSpec followPatchedSpec s = (numberSpec nsSpec s).filter noDigitDot := by
  unfold numberSpec
  cases tokenSpec s with
  | none => rfl
  | some r =>
    simp only [followPatchedSpec]
    cases hns : nsSpec r with
    | some x => rfl
    | none =>
      simp only [negOut]
      cases r with
      | nil => rfl
      | cons c t =>
        simp only [classStep, matchStr, noDigitDot, Option.filter]
        by_cases hd : isAsciiDigit c = true
        · simp [hd]
        · by_cases hp : c = '.'
          · subst hp; simp [hd]
          · simp [hd, hp, Ne.symm hp]

open AGV.Model.BuildAst in
theorem numRules_none : NumRules (grammarFor Defects.none) :=
  ⟨by rfl, by rfl, by rfl, by rfl, by rfl⟩

theorem numRules_pinned : NumRules AGV.Gen.Grammar.grammar :=
  ⟨by rfl, by rfl, by rfl, by rfl, by rfl⟩

def resRest : Res → Option (List Char)
  | .ok _ rest _ => some rest
  | _ => none

theorem resRest_of_out {r : Res} {X} (h : out r = some X) : resRest r = X := by
  cases r <;> simp [out] at h <;> simp [resRest, h]

open AGV.Model.BuildAst in
theorem number_patched (s : List Char) (f : Nat) (hf : s.length + 20 ≤ f) (c : Ctx) (p : Nat) :
    resRest (eval (grammarFor Defects.none) f c (.ident "number") p s) = (lexNumber s).map (·.2) := by
  rw [← numberSpec_eq_lex]
  exact resRest_of_out (ev_number numRules_none followPatched followPatchedSpec (by rfl)
    (fun c r => ev_followPatched numRules_none c r) c s f hf p)

theorem number_pinned (s : List Char) (f : Nat) (hf : s.length + 20 ≤ f) (c : Ctx) (p : Nat) :
    resRest (eval AGV.Gen.Grammar.grammar f c (.ident "number") p s) = numberSpec nsSpec s :=
  resRest_of_out (ev_number numRules_pinned (.ident "name_start") nsSpec (by rfl)
    (fun c r => (ev_nameStart numRules_pinned c r).mono (by omega)) c s f hf p)
end AGV.Lemmas.PegC13
