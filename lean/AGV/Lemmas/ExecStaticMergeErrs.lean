/-
  The MERGE LEMMA for C03 (errors), part 3:
    * `PathSub`: error lists compared by response path (the executor reports a failing field once per
      OCCURRENCE of its response key, each with that occurrence's location; the specification once);
    * CompleteValue: `complete_none_errs`, `complete_quiet_null`, `complete_errs_mono`;
    * `execSet_errs_char` / `execSet_errs_mono`: the specification executes everything, so its errors for
      a part of a selection set are (by path) among its errors for the whole;
    * `container_errs_paths` / `run_errs_paths_mergeable`: every error of the executor model has the
      response path of an error of the specification, repeated response keys included;
    * `deepEnough_of_fuelBound`: on documents with acyclic fragment spreads (`FragsAcyclic`) the drivers'
      fuel bound is never exhausted (potential: selections below + fragments of smaller rank).
-/
import AGV.Lemmas.ExecStaticMergeExec

namespace AGV.Lemmas.ExecStaticMerge
open AGV.Core AGV.Model.ExecStatic AGV.Lemmas.ExecStatic AGV.Lemmas.ExecStaticData
open AGV.Spec.Exec (FieldOcc complete execSet group mapIdx serializeLeaf doesApply excluded argValue selCount fuelBound)

-- ------------------------------------------------------------------ error lists compared by response path

/-- every error of `E1` has the response path of an error of `E2` (locations may differ: the executor
    reports a failing field once per occurrence, each with the location of that occurrence) -/
def PathSub (E1 E2 : List GErr) : Prop := ∀ e ∈ E1, ∃ e' ∈ E2, e'.path = e.path

theorem PathSub.refl (E : List GErr) : PathSub E E := fun e he => ⟨e, he, rfl⟩

theorem PathSub.trans {E1 E2 E3 : List GErr} (h1 : PathSub E1 E2) (h2 : PathSub E2 E3) : PathSub E1 E3 := by
  intro e he
  obtain ⟨e', he', p'⟩ := h1 e he
  obtain ⟨e'', he'', p''⟩ := h2 e' he'
  exact ⟨e'', he'', p''.trans p'⟩

theorem PathSub.nil (E : List GErr) : PathSub [] E := fun e he => by simp at he

theorem PathSub.of_nil {E : List GErr} (h : PathSub E []) : E = [] := by
  cases E with
  | nil => rfl
  | cons e es => obtain ⟨e', he', _⟩ := h e (by simp); simp at he'

theorem PathSub.single (p : List PathSeg) (a b : Pos) : PathSub [⟨p, a⟩] [⟨p, b⟩] := by
  intro e he
  simp only [List.mem_singleton] at he
  subst he
  exact ⟨⟨p, b⟩, by simp, rfl⟩

theorem PathSub.of_mem {E1 E2 : List GErr} (h : ∀ e ∈ E1, e ∈ E2) : PathSub E1 E2 := fun e he => ⟨e, h e he, rfl⟩

theorem PathSub.append {A B C D : List GErr} (h1 : PathSub A C) (h2 : PathSub B D) : PathSub (A ++ B) (C ++ D) := by
  intro e he
  simp only [List.mem_append] at he
  rcases he with he | he
  · obtain ⟨e', he', p⟩ := h1 e he; exact ⟨e', by simp [he'], p⟩
  · obtain ⟨e', he', p⟩ := h2 e he; exact ⟨e', by simp [he'], p⟩

theorem PathSub.flatten_of {L : List (List GErr)} {E : List GErr} (h : ∀ l ∈ L, PathSub l E) : PathSub L.flatten E := by
  intro e he
  simp only [List.mem_flatten] at he
  obtain ⟨l, hl, hel⟩ := he
  exact h l hl e hel

theorem PathSub.to_flatten {l : List GErr} {L : List (List GErr)} {l' : List GErr} (hm : l' ∈ L) (h : PathSub l l') :
    PathSub l L.flatten := by
  intro e he
  obtain ⟨e', he', p⟩ := h e he
  exact ⟨e', by simp only [List.mem_flatten]; exact ⟨l', hm, he'⟩, p⟩

theorem mapIdx_pathSub {α} (f g : Nat → α → List GErr) (xs : List α) (H : ∀ i, ∀ x ∈ xs, PathSub (f i x) (g i x)) :
    ∀ i, PathSub (mapIdx f xs i).flatten (mapIdx g xs i).flatten := by
  induction xs with
  | nil => intro i; exact PathSub.nil _
  | cons x xs ih =>
    intro i
    simp only [mapIdx, List.flatten_cons]
    exact PathSub.append (H i x (by simp)) (ih (fun j y hy => H j y (by simp [hy])) (i + 1))

-- ------------------------------------------------------------------ CompleteValue: errors

theorem complete_nullable_some (S : Schema) (rec : String → Nat → List Sel → List PathSeg → Res) (t : TypeRef)
    (ht : t.isNonNull = false) (rv : RVal) (ss : List Sel) (path : List PathSeg) (pos : Pos) :
    (complete S rec t rv ss path pos).val.isSome = true := by
  cases t with
  | nonNull t => simp [TypeRef.isNonNull] at ht
  | named n =>
    cases rv <;> simp [complete]
    · split
      · rfl
      · split <;> rfl
    · split
      · split <;> rfl
      · rfl
  | list t =>
    cases rv <;> simp [complete]
    split <;> rfl

/-- the three cases of completion against `t!` (for a resolver result other than `null`) -/
theorem complete_nonNull_errs3 (S : Schema) (rec : String → Nat → List Sel → List PathSeg → Res)
    (t : TypeRef) (rv : RVal) (ss : List Sel) (path : List PathSeg) (pos : Pos) (h : rv ≠ .null) :
    ((complete S rec t rv ss path pos).val = some .null → (complete S rec t rv ss path pos).errs = [] →
      (complete S rec (.nonNull t) rv ss path pos).errs = [⟨path, pos⟩]) ∧
    ((complete S rec t rv ss path pos).val = some .null → (complete S rec t rv ss path pos).errs ≠ [] →
      (complete S rec (.nonNull t) rv ss path pos).errs = (complete S rec t rv ss path pos).errs) ∧
    ((complete S rec t rv ss path pos).val ≠ some .null →
      (complete S rec (.nonNull t) rv ss path pos).errs = (complete S rec t rv ss path pos).errs) := by
  obtain ⟨a, b⟩ := complete_nonNull_errs S rec t rv ss path pos h
  refine ⟨?_, a, b⟩
  intro hv he
  cases rv <;> simp_all [complete]

theorem complete_none_errs (S : Schema) (rec : String → Nat → List Sel → List PathSeg → Res) :
    ∀ (t : TypeRef) (rv : RVal) (ss : List Sel) (path : List PathSeg) (pos : Pos),
      (complete S rec t rv ss path pos).val = none → (complete S rec t rv ss path pos).errs ≠ [] := by
  intro t
  induction t with
  | named n =>
    intro rv ss path pos h
    have := complete_nullable_some S rec (.named n) rfl rv ss path pos
    rw [h] at this; simp at this
  | list t _ =>
    intro rv ss path pos h
    have := complete_nullable_some S rec (.list t) rfl rv ss path pos
    rw [h] at this; simp at this
  | nonNull t ih =>
    intro rv ss path pos h
    by_cases hrv : rv = .null
    · subst hrv; simp [complete]
    · obtain ⟨e1, e2, e3⟩ := complete_nonNull_errs3 S rec t rv ss path pos hrv
      obtain ⟨v1, v2⟩ := complete_nonNull_val S rec t rv ss path pos hrv
      by_cases hnull : (complete S rec t rv ss path pos).val = some .null
      · by_cases hemp : (complete S rec t rv ss path pos).errs = []
        · rw [e1 hnull hemp]; simp
        · rw [e2 hnull hemp]; exact hemp
      · rw [e3 hnull]
        rw [v2 hnull] at h
        exact ih rv ss path pos h

theorem complete_nonNull_not_null (S : Schema) (rec : String → Nat → List Sel → List PathSeg → Res)
    (t : TypeRef) (rv : RVal) (ss : List Sel) (path : List PathSeg) (pos : Pos) :
    (complete S rec (.nonNull t) rv ss path pos).val ≠ some .null := by
  by_cases hrv : rv = .null
  · subst hrv; simp [complete]
  · intro hc
    obtain ⟨d1, d2⟩ := complete_nonNull_val S rec t rv ss path pos hrv
    by_cases hnull : (complete S rec t rv ss path pos).val = some .null
    · rw [d1 hnull] at hc; simp at hc
    · rw [d2 hnull] at hc; exact hnull hc

theorem complete_list_errs (S : Schema) (rec : String → Nat → List Sel → List PathSeg → Res) (t : TypeRef)
    (xs : List RVal) (ss : List Sel) (path : List PathSeg) (pos : Pos) :
    (complete S rec (.list t) (.list xs) ss path pos).errs =
      (mapIdx (fun i x => (complete S rec t x ss (path ++ [.idx i]) pos).errs) xs 0).flatten := by
  rw [← mapIdx_map (fun r : Res => r.errs)]
  simp only [complete]
  split <;> rfl

/-- a `null` without an error (`null` returned by the resolver, or the recursion giving up silently) does
    not depend on the selection set -/
theorem complete_quiet_null (S : Schema) (rec : String → Nat → List Sel → List PathSeg → Res) (ss ss' : List Sel)
    (hnn : ∀ ty id p, (rec ty id ss p).val ≠ some .null)
    (hq : ∀ ty id p, (rec ty id ss p).val = none → (rec ty id ss p).errs = [] →
      (rec ty id ss' p).val = none ∧ (rec ty id ss' p).errs = []) :
    ∀ (t : TypeRef) (rv : RVal) (path : List PathSeg) (pos pos' : Pos),
      (complete S rec t rv ss path pos).val = some .null → (complete S rec t rv ss path pos).errs = [] →
      (complete S rec t rv ss' path pos').val = some .null ∧ (complete S rec t rv ss' path pos').errs = [] := by
  intro t
  cases t with
  | nonNull t =>
    intro rv path pos pos' h
    exact absurd h (complete_nonNull_not_null S rec t rv ss path pos)
  | list t =>
    intro rv path pos pos' hv he
    cases rv with
    | null => simp [complete]
    | fail e => simp [complete] at he
    | obj ty id => simp [complete] at he
    | arg a => simp [complete] at he
    | leaf v => simp [complete] at he
    | list xs =>
      exfalso
      rw [complete_list_val] at hv
      rw [complete_list_errs] at he
      unfold lstVal at hv
      split at hv
      · simp at hv
      · rename_i hall
        have hmem : none ∈ mapIdx (fun i x => (complete S rec t x ss (path ++ [.idx i]) pos).val) xs 0 := by
          simpa using hall
        obtain ⟨j, x, hx, hj, hm⟩ := mapIdx_mem2 (fun i x => (complete S rec t x ss (path ++ [.idx i]) pos).val)
          (fun i x => (complete S rec t x ss (path ++ [.idx i]) pos).errs) xs 0 none hmem
        have := complete_none_errs S rec t x ss _ pos hj.symm
        rw [List.flatten_eq_nil_iff] at he
        exact this (he _ hm)
  | named n =>
    intro rv path pos pos' hv he
    cases rv with
    | null => simp [complete]
    | fail e => simp [complete] at he
    | list xs => simp [complete] at he
    | arg a => simp [complete] at he
    | leaf v =>
      by_cases hc : S.isComposite n = true
      · simp [complete, hc] at he
      · cases hs : serializeLeaf S n v with
        | none => simp [complete, hc, hs] at he
        | some v' =>
          simp only [complete, hc, hs, Bool.false_eq_true, if_false] at hv ⊢
          exact ⟨hv, trivial⟩
    | obj ty id =>
      simp only [complete] at hv he ⊢
      by_cases hp : (S.possibleTypes n).contains ty = true
      · simp only [hp, if_true] at hv he ⊢
        cases hr : (rec ty id ss path).val with
        | some v =>
          rw [hr] at hv he
          simp only [Option.some.injEq] at hv
          subst hv
          exact absurd hr (hnn ty id path)
        | none =>
          rw [hr] at he
          simp only at he
          obtain ⟨q1, q2⟩ := hq ty id path hr he
          rw [q1]
          exact ⟨rfl, q2⟩
      · rw [if_neg hp] at he; simp at he

/-- errors of CompleteValue grow (by response path) with the selection set when those of the executor
    for object values do -/
theorem complete_errs_mono (S : Schema) (rec : String → Nat → List Sel → List PathSeg → Res) (ss ss' : List Sel)
    (n : String)
    (hnn : ∀ ty id p, (rec ty id ss p).val ≠ some .null)
    (hq : ∀ ty id p, (rec ty id ss p).val = none → (rec ty id ss p).errs = [] →
      (rec ty id ss' p).val = none ∧ (rec ty id ss' p).errs = [])
    (hmono : ∀ ty ∈ S.possibleTypes n, ∀ id p, PathSub (rec ty id ss p).errs (rec ty id ss' p).errs) :
    ∀ (t : TypeRef), t.base = n → ∀ (rv : RVal) (path : List PathSeg) (pos pos' : Pos),
      PathSub (complete S rec t rv ss path pos).errs (complete S rec t rv ss' path pos').errs := by
  intro t
  induction t with
  | named m =>
    intro hm rv path pos pos'
    simp only [TypeRef.base] at hm
    subst hm
    cases rv with
    | null => simp [complete, PathSub.nil]
    | fail e => simpa [complete] using PathSub.single path pos pos'
    | list xs => simpa [complete] using PathSub.single path pos pos'
    | arg a => simpa [complete] using PathSub.single path pos pos'
    | leaf v =>
      simp only [complete]
      split
      · exact PathSub.single path pos pos'
      · split
        · exact PathSub.nil _
        · exact PathSub.single path pos pos'
    | obj ty id =>
      simp only [complete]
      by_cases hp : (S.possibleTypes m).contains ty = true
      · simp only [hp, if_true]
        have hty : ty ∈ S.possibleTypes m := by simpa using hp
        have := hmono ty hty id path
        cases (rec ty id ss path).val <;> cases (rec ty id ss' path).val <;> exact this
      · simp only [hp, Bool.false_eq_true, if_false]
        exact PathSub.single path pos pos'
  | list t ih =>
    intro hb rv path pos pos'
    simp only [TypeRef.base] at hb
    cases rv with
    | null => simp [complete, PathSub.nil]
    | fail e => simpa [complete] using PathSub.single path pos pos'
    | obj ty id => simpa [complete] using PathSub.single path pos pos'
    | arg a => simpa [complete] using PathSub.single path pos pos'
    | leaf v => simpa [complete] using PathSub.single path pos pos'
    | list xs =>
      rw [complete_list_errs, complete_list_errs]
      apply mapIdx_pathSub
      intro i x _
      exact ih hb x _ pos pos'
  | nonNull t ih =>
    intro hb rv path pos pos'
    simp only [TypeRef.base] at hb
    by_cases hrv : rv = .null
    · subst hrv
      simpa [complete] using PathSub.single path pos pos'
    · obtain ⟨a1, a2, a3⟩ := complete_nonNull_errs3 S rec t rv ss path pos hrv
      obtain ⟨b1, b2, b3⟩ := complete_nonNull_errs3 S rec t rv ss' path pos' hrv
      have hin := ih hb rv path pos pos'
      -- the errors on the right: those of the inner completion, or the single "null in non-null" error
      have hright : PathSub (complete S rec t rv ss path pos).errs (complete S rec (.nonNull t) rv ss' path pos').errs := by
        by_cases hnull' : (complete S rec t rv ss' path pos').val = some .null
        · by_cases hemp' : (complete S rec t rv ss' path pos').errs = []
          · rw [hemp'] at hin
            rw [PathSub.of_nil hin]
            exact PathSub.nil _
          · rw [b2 hnull' hemp']; exact hin
        · rw [b3 hnull']; exact hin
      by_cases hnull : (complete S rec t rv ss path pos).val = some .null
      · by_cases hemp : (complete S rec t rv ss path pos).errs = []
        · obtain ⟨q1, q2⟩ := complete_quiet_null S rec ss ss' hnn hq t rv path pos pos' hnull hemp
          rw [a1 hnull hemp, b1 q1 q2]
          exact PathSub.single path pos pos'
        · rw [a2 hnull hemp]; exact hright
      · rw [a3 hnull]; exact hright

-- ------------------------------------------------------------------ ExecuteSelectionSet: errors, group by group

/-- the errors the specification records for the occurrences `g` of the response key `k` -/
def gErrs (c : Model.ExecStatic.Ctx) (fuel : Nat) (rt : String) (id : Nat) (path : List PathSeg) (k : String)
    (g : List FieldOcc) : List GErr :=
  match g with
  | [] => []
  | o :: rest =>
    if o.name = "__typename" then []
    else
      match c.S.field? rt o.name with
      | none => []
      | some fd =>
        (complete c.S (execSet (sc c) fuel) fd.ty (fieldRVal c id fd o) ((o :: rest).map (·.sels)).flatten
          (path ++ [.key k]) o.pos).errs

theorem gErrs_single (c : Model.ExecStatic.Ctx) (fuel : Nat) (rt : String) (id : Nat) (path : List PathSeg) (o : FieldOcc) :
    gErrs c fuel rt id path o.key [o] = fieldErrs c fuel rt id path o := by
  by_cases ht : o.name = "__typename"
  · simp [gErrs, fieldErrs, ht]
  · cases hfd : c.S.field? rt o.name <;> simp [gErrs, fieldErrs, ht, hfd]

theorem gErrs_erase (c : Model.ExecStatic.Ctx) (fuel : Nat) (rt : String) (id : Nat) (path : List PathSeg) (k : String)
    (g : List FieldOcc) : gErrs c fuel rt id path k (g.map eraseSt) = gErrs c fuel rt id path k g := by
  cases g with
  | nil => rfl
  | cons o rest =>
    have h1 : (eraseSt o).name = o.name := rfl
    have h2 : (eraseSt o).pos = o.pos := rfl
    have h3 : ((eraseSt o :: rest.map eraseSt).map (·.sels)) = ((o :: rest).map (·.sels)) := by
      simp [eraseSt, List.map_map, Function.comp_def]
    simp only [gErrs, List.map_cons, h1, h2]
    split
    · rfl
    · cases hfd : c.S.field? rt o.name with
      | none => rfl
      | some fd =>
        simp only []
        rw [fieldRVal_congr c id fd o (eraseSt o) rfl rfl]
        simp only [List.map_cons] at h3
        rw [h3]

theorem execStep_group_errs (c : Model.ExecStatic.Ctx) (fuel : Nat) (rt : String) (id : Nat) (path : List PathSeg)
    (acc : Acc) (g : String × List FieldOcc) :
    (execStep (sc c) fuel rt id path acc g).2.1 = acc.2.1 ++ gErrs c fuel rt id path g.1 g.2 := by
  obtain ⟨k, l⟩ := g
  cases l with
  | nil => simp [execStep, gErrs]
  | cons o rest =>
    by_cases ht : o.name = "__typename"
    · simp [execStep, gErrs, ht]
    · cases hfd : c.S.field? rt o.name with
      | none => simp [execStep, gErrs, ht, hfd]
      | some fd =>
        have hrv : specRVal (sc c) id fd o = fieldRVal c id fd o := rfl
        cases hv : (complete c.S (execSet (sc c) fuel) fd.ty (fieldRVal c id fd o) ((o :: rest).map (·.sels)).flatten
            (path ++ [.key k]) o.pos).val with
        | none =>
          simp only [List.map_cons, List.flatten_cons] at hv
          simp [execStep, gErrs, ht, hfd, hrv, hv]
        | some v =>
          simp only [List.map_cons, List.flatten_cons] at hv
          simp [execStep, gErrs, ht, hfd, hrv, hv]

theorem execStep_fold_group_errs (c : Model.ExecStatic.Ctx) (fuel : Nat) (rt : String) (id : Nat) (path : List PathSeg)
    (gs : List (String × List FieldOcc)) :
    ∀ acc : Acc,
      (gs.foldl (execStep (sc c) fuel rt id path) acc).2.1 =
        acc.2.1 ++ (gs.map (fun g => gErrs c fuel rt id path g.1 g.2)).flatten := by
  induction gs with
  | nil => intro acc; simp
  | cons g gs ih =>
    intro acc
    simp only [List.foldl_cons, List.map_cons, List.flatten_cons]
    rw [ih, execStep_group_errs, List.append_assoc]

theorem ite_errs (b : Bool) (a1 a2 : Res) : (if b = true then a1 else a2).errs = if b = true then a1.errs else a2.errs := by
  cases b <;> rfl

/-- a selection set that gives up has recorded an error (unless the recursion depth is exhausted) -/
theorem execSet_none_errs (c : AGV.Spec.Exec.Ctx) (f : Nat) (rt : String) (id : Nat) (s : List Sel) (p : List PathSeg)
    (h : (execSet c (f + 1) rt id s p).val = none) : (execSet c (f + 1) rt id s p).errs ≠ [] := by
  rw [execSet_succ] at h ⊢
  simp only [ite_val, ite_errs] at h ⊢
  have inv : ∀ (gs : List (String × List FieldOcc)) (acc : Acc), (acc.2.2.2 = true → acc.2.1 ≠ []) →
      ((gs.foldl (execStep c f rt id p) acc).2.2.2 = true → (gs.foldl (execStep c f rt id p) acc).2.1 ≠ []) := by
    intro gs
    induction gs with
    | nil => intro acc h; exact h
    | cons g gs ih =>
      intro acc hacc
      simp only [List.foldl_cons]
      apply ih
      unfold execStep
      split
      · exact hacc
      · split
        · exact hacc
        · split
          · exact hacc
          · rename_i fd _
            simp only []
            split
            · intro hf
              have := hacc hf
              simp [this]
            · rename_i hnone
              intro _
              have := complete_none_errs _ _ _ _ _ _ _ hnone
              simp [this]
  have key := inv (group (AGV.Spec.Exec.collect c rt (f + 1) s []).1) ([], [], [], false) (by simp)
  split at h
  · rename_i hflag
    have := key hflag
    split <;> exact this
  · simp at h

/-- the errors of ExecuteSelectionSet, key by key in order of first occurrence -/
theorem execSet_errs_char (c : Model.ExecStatic.Ctx) (H : DataHyps c) (fuel : Nat) (st rt : String) (id : Nat)
    (sels : List Sel) (path : List PathSeg) (hrt : IsObj c.S rt) (hst : doesApply c.S rt st = true)
    (hin : selsInert c.vars sels = true) (hnd : (spreads c.d (fuel + 1) sels).Nodup) :
    (execSet (sc c) (fuel + 1) rt id sels path).errs =
      ((dedup ((Model.ExecStatic.collect c rt (fuel + 1) st sels).map (·.key))).map
        (fun k => gErrs c fuel rt id path k ((Model.ExecStatic.collect c rt (fuel + 1) st sels).filter (fun o => decide (o.key = k))))).flatten := by
  have hcol := (collect_agree c H.noDefect H.schema rt hrt H.frags (fuel + 1) st sels [] hst hin hnd
    (by intro n _; simp)).1
  generalize Model.ExecStatic.collect c rt (fuel + 1) st sels = O at *
  rw [execSet_succ, hcol, group_char]
  have hkeys : (O.map eraseSt).map (·.key) = O.map (·.key) := by
    rw [List.map_map]; rfl
  have hfilt : ∀ k, (O.map eraseSt).filter (fun o => decide (o.key = k)) = (O.filter (fun o => decide (o.key = k))).map eraseSt := by
    intro k
    rw [List.filter_map]
    rfl
  rw [hkeys]
  simp only [ite_errs]
  rw [execStep_fold_group_errs]
  simp only [List.nil_append, List.map_map, Function.comp_def, hfilt, gErrs_erase, ite_self]

theorem execSet_quiet (c : AGV.Spec.Exec.Ctx) (f : Nat) (ty : String) (id : Nat) (ss ss' : List Sel) (p : List PathSeg)
    (h1 : (execSet c f ty id ss p).val = none) (h2 : (execSet c f ty id ss p).errs = []) :
    (execSet c f ty id ss' p).val = none ∧ (execSet c f ty id ss' p).errs = [] := by
  cases f with
  | zero => simp [execSet]
  | succ f => exact absurd h2 (execSet_none_errs c f ty id ss p h1)

/-- the induction hypothesis on fuel of `execSet_errs_mono` -/
def ExecErrMono (c : Model.ExecStatic.Ctx) (f : Nat) : Prop :=
  ∀ (st rt : String) (id : Nat) (a b : List Sel) (path : List PathSeg),
    IsObj c.S rt → doesApply c.S rt st = true → selsInert c.vars a = true → selsInert c.vars b = true →
    MKP c f st rt (a ++ b) →
    PathSub (execSet (sc c) f rt id a path).errs (execSet (sc c) f rt id (a ++ b) path).errs ∧
    PathSub (execSet (sc c) f rt id b path).errs (execSet (sc c) f rt id (a ++ b) path).errs

/-- errors of a sub-group `G` of the occurrences `o0 :: rest` of one key are (by path) errors of the whole group -/
theorem gErrs_mono (c : Model.ExecStatic.Ctx) (H : DataHyps c) (f : Nat) (IH : ExecErrMono c f) (rt : String) (id : Nat)
    (path : List PathSeg) (k : String) (o0 : FieldOcc) (rest : List FieldOcc)
    (hsame : ∀ o' ∈ rest, o'.name = o0.name ∧ o'.args = o0.args)
    (hfield : o0.name = "__typename" ∨ ∃ fd, c.S.field? rt o0.name = some fd ∧
        ∀ ty ∈ c.S.possibleTypes fd.ty.base, MKP c f fd.ty.base ty ((o0 :: rest).map (·.sels)).flatten)
    (hin : ∀ o ∈ o0 :: rest, selsInert c.vars o.sels = true)
    (pre G post : List FieldOcc) (hsplit : o0 :: rest = pre ++ G ++ post) :
    PathSub (gErrs c f rt id path k G) (gErrs c f rt id path k (o0 :: rest)) := by
  cases G with
  | nil => exact PathSub.nil _
  | cons oG restG =>
    have hmemG : ∀ o ∈ oG :: restG, o ∈ o0 :: rest := by
      intro o ho; rw [hsplit]; simp only [List.mem_append]; exact Or.inl (Or.inr ho)
    have hoG : oG.name = o0.name ∧ oG.args = o0.args := by
      have := hmemG oG (by simp)
      simp only [List.mem_cons] at this
      rcases this with rfl | hm
      · exact ⟨rfl, rfl⟩
      · exact hsame oG hm
    by_cases ht : o0.name = "__typename"
    · have : oG.name = "__typename" := hoG.1.trans ht
      simp only [gErrs, this, if_true]
      exact PathSub.nil _
    · rcases hfield with h | ⟨fd, hfd, hrec⟩
      · exact absurd h ht
      · have ht' : ¬ oG.name = "__typename" := by rw [hoG.1]; exact ht
        have hfd' : c.S.field? rt oG.name = some fd := by rw [hoG.1]; exact hfd
        have hrv : fieldRVal c id fd oG = fieldRVal c id fd o0 := fieldRVal_congr c id fd o0 oG hoG.1 hoG.2
        have hflat : ((o0 :: rest).map (·.sels)).flatten =
            ((pre.map (·.sels)).flatten ++ ((oG :: restG).map (·.sels)).flatten) ++ (post.map (·.sels)).flatten := by
          rw [hsplit, List.map_append, List.map_append, List.flatten_append, List.flatten_append]
        have hinL : ∀ (L : List FieldOcc), (∀ o ∈ L, o ∈ o0 :: rest) → selsInert c.vars (L.map (·.sels)).flatten = true := by
          intro L hL
          apply selsInert_flatten
          intro l hl
          simp only [List.mem_map] at hl
          obtain ⟨o, ho, rfl⟩ := hl
          exact hin o (hL o ho)
        have hinPre := hinL pre (by intro o ho; rw [hsplit]; simp only [List.mem_append]; exact Or.inl (Or.inl ho))
        have hinG := hinL (oG :: restG) hmemG
        have hinPost := hinL post (by intro o ho; rw [hsplit]; simp only [List.mem_append]; exact Or.inr ho)
        have key := complete_errs_mono c.S (execSet (sc c) f) ((oG :: restG).map (·.sels)).flatten
          ((o0 :: rest).map (·.sels)).flatten fd.ty.base
          (fun ty id' p hc => by
            obtain ⟨⟨o, ho⟩, _⟩ := execSet_val_shape _ _ _ _ _ _ _ hc
            simp at ho)
          (fun ty id' p h1 h2 => execSet_quiet _ _ _ _ _ _ _ h1 h2)
          (fun ty hty id' p => by
            obtain ⟨hobj, happ⟩ := H.schema.possible _ _ hty
            have hmk := hrec ty hty
            rw [hflat] at hmk ⊢
            have hmk1 := (mkp_split c f _ _ _ _ hmk).1
            have s1 := (IH fd.ty.base ty id' _ _ p hobj happ hinPre hinG hmk1).2
            have hinPG : selsInert c.vars ((pre.map (·.sels)).flatten ++ ((oG :: restG).map (·.sels)).flatten) = true := by
              rw [selsInert_append, hinPre, hinG]; rfl
            have s2 := (IH fd.ty.base ty id' _ _ p hobj happ hinPG hinPost hmk).1
            exact s1.trans s2)
          fd.ty rfl (fieldRVal c id fd o0) (path ++ [.key k]) oG.pos o0.pos
        have hl : gErrs c f rt id path k (oG :: restG) =
            (complete c.S (execSet (sc c) f) fd.ty (fieldRVal c id fd o0)
              ((oG :: restG).map (·.sels)).flatten (path ++ [.key k]) oG.pos).errs := by
          simp only [gErrs, ht', hfd', if_false, hrv]
        have hr : gErrs c f rt id path k (o0 :: rest) =
            (complete c.S (execSet (sc c) f) fd.ty (fieldRVal c id fd o0)
              ((o0 :: rest).map (·.sels)).flatten (path ++ [.key k]) o0.pos).errs := by
          simp only [gErrs, ht, hfd, if_false]
        rw [hl, hr]
        exact key

theorem mkp_group_weak (c : Model.ExecStatic.Ctx) (f : Nat) (st rt : String) (s : List Sel) (h : MKP c (f + 1) st rt s)
    (k : String) (hk : k ∈ (Model.ExecStatic.collect c rt (f + 1) st s).map (·.key)) :
    ∃ o0 rest, (Model.ExecStatic.collect c rt (f + 1) st s).filter (fun o => decide (o.key = k)) = o0 :: rest ∧
      (∀ o' ∈ rest, o'.name = o0.name ∧ o'.args = o0.args) ∧
      (o0.name = "__typename" ∨ ∃ fd, c.S.field? rt o0.name = some fd ∧
        ∀ ty ∈ c.S.possibleTypes fd.ty.base, MKP c f fd.ty.base ty ((o0 :: rest).map (·.sels)).flatten) := by
  obtain ⟨o0, rest, h1, h2, h3⟩ := mkp_group_of_mem c f st rt s h k hk
  refine ⟨o0, rest, h1, h2, ?_⟩
  rcases h3 with h | ⟨fd, hfd, _, hrec⟩
  · exact Or.inl h
  · exact Or.inr ⟨fd, hfd, hrec⟩

/-- the specification executes everything: its errors for a part of a selection set are (by path) among
    its errors for the whole -/
theorem execSet_errs_mono (c : Model.ExecStatic.Ctx) (H : DataHyps c) : ∀ f, ExecErrMono c f := by
  intro f
  induction f with
  | zero =>
    intro st rt id a b path _ _ _ _ _
    simp [execSet, PathSub.nil]
  | succ f ih =>
    intro st rt id a b path hrt hst hina hinb hmk
    obtain ⟨mka, mkb⟩ := mkp_split c (f + 1) st rt a b hmk
    have hinab : selsInert c.vars (a ++ b) = true := by rw [selsInert_append, hina, hinb]; rfl
    rw [execSet_errs_char c H f st rt id (a ++ b) path hrt hst hinab hmk.1,
      execSet_errs_char c H f st rt id a path hrt hst hina mka.1,
      execSet_errs_char c H f st rt id b path hrt hst hinb mkb.1]
    have hgrp := mkp_group_weak c f st rt (a ++ b) hmk
    have hinO := collect_inert c rt H.frags (f + 1) st (a ++ b) hinab
    rw [collect_append] at hgrp hinO ⊢
    generalize Model.ExecStatic.collect c rt (f + 1) st a = Oa at *
    generalize Model.ExecStatic.collect c rt (f + 1) st b = Ob at *
    -- one key of a part
    have part : ∀ (G : List FieldOcc → List FieldOcc) (k : String), k ∈ (Oa ++ Ob).map (·.key) →
        (∃ pre post, (Oa ++ Ob).filter (fun o => decide (o.key = k)) = pre ++ G (Oa ++ Ob) ++ post) →
        PathSub (gErrs c f rt id path k (G (Oa ++ Ob)))
          ((dedup ((Oa ++ Ob).map (·.key))).map
            (fun k => gErrs c f rt id path k ((Oa ++ Ob).filter (fun o => decide (o.key = k))))).flatten := by
      intro G k hk ⟨pre, post, hsp⟩
      obtain ⟨o0, rest, hfl, hsame, hfield⟩ := hgrp k hk
      apply PathSub.to_flatten (l' := gErrs c f rt id path k ((Oa ++ Ob).filter (fun o => decide (o.key = k))))
      · exact List.mem_map.2 ⟨k, (mem_dedup _ _).2 hk, rfl⟩
      · rw [hfl]
        apply gErrs_mono c H f ih rt id path k o0 rest hsame hfield ?_ pre (G (Oa ++ Ob)) post (by rw [← hfl]; exact hsp)
        intro o ho
        exact hinO o (List.mem_filter.1 (by rw [hfl]; exact ho : o ∈ (Oa ++ Ob).filter (fun o => decide (o.key = k)))).1
    constructor
    · apply PathSub.flatten_of
      intro l hl
      obtain ⟨k, hk, rfl⟩ := List.mem_map.1 hl
      rw [mem_dedup] at hk
      exact part (fun _ => Oa.filter (fun o => decide (o.key = k))) k
        (by simp only [List.map_append, List.mem_append]; exact Or.inl hk)
        ⟨[], Ob.filter (fun o => decide (o.key = k)), by simp [List.filter_append]⟩
    · apply PathSub.flatten_of
      intro l hl
      obtain ⟨k, hk, rfl⟩ := List.mem_map.1 hl
      rw [mem_dedup] at hk
      exact part (fun _ => Ob.filter (fun o => decide (o.key = k))) k
        (by simp only [List.map_append, List.mem_append]; exact Or.inr hk)
        ⟨Oa.filter (fun o => decide (o.key = k)), [], by simp [List.filter_append]⟩

-- ------------------------------------------------------------------ model errors ⊆ specification errors, by path

theorem resolveValue_errs_paths (c : Model.ExecStatic.Ctx) (hD : c.D = Defects.none)
    (hb : ∀ b ∈ builtinScalars, c.S.isComposite b = false)
    (recM : String → String → Nat → List Sel → List PathSeg → Res)
    (recS : String → Nat → List Sel → List PathSeg → Res) (ss : List Sel) :
    ∀ (t : TypeRef),
      (∀ ty id p, (c.S.possibleTypes t.base).contains ty = true →
        PathSub (recM t.base ty id ss p).errs (recS ty id ss p).errs) →
      ∀ (rv : RVal) (path : List PathSeg) (pos : Pos), (t.base = "Float" → noIntLeaf rv = true) →
      PathSub (resolveValue c recM t rv ss path pos).errs (complete c.S recS t rv ss path pos).errs := by
  have hD' : c.D.nanNullInNonNull = false := by rw [hD]; rfl
  intro t
  induction t with
  | named n =>
    intro hr rv path pos hf
    cases rv with
    | null => simp [resolveValue, complete, PathSub.nil]
    | obj ty id =>
      simp only [resolveValue, complete]
      by_cases hp : (c.S.possibleTypes n).contains ty = true
      · have e := hr ty id path hp
        simp only [TypeRef.base] at e
        rw [if_pos hp, if_pos hp]
        cases (recM n ty id ss path).val <;> cases (recS ty id ss path).val <;> exact e
      · rw [if_neg hp, if_neg hp]; exact PathSub.refl _
    | leaf v =>
      simp only [resolveValue, complete]
      have hf' : n = "Float" → ∀ i, v ≠ .int i := by
        intro hn i hv
        subst hv
        have := hf hn
        simp [noIntLeaf] at this
      have key := fun v' => toValue_spec c.D hD' c.S n v v' hb hf'
      cases hc : c.S.isComposite n with
      | true =>
        simp only [if_true]
        cases htv : toValue c.D c.S n v with
        | none => exact PathSub.refl _
        | some o =>
          cases o with
          | none => exact PathSub.refl _
          | some v' => have := (key v').1 htv; simp [hc] at this
      | false =>
        simp only [Bool.false_eq_true, if_false]
        cases hs : serializeLeaf c.S n v with
        | some v' => rw [(key v').2 ⟨hc, hs⟩]; exact PathSub.refl _
        | none =>
          cases htv : toValue c.D c.S n v with
          | none => exact PathSub.refl _
          | some o =>
            cases o with
            | none => exact PathSub.refl _
            | some v' => have := (key v').1 htv; simp [hs] at this
    | list xs => simpa [resolveValue, complete] using PathSub.refl _
    | fail m => simpa [resolveValue, complete] using PathSub.refl _
    | arg a => simpa [resolveValue, complete] using PathSub.refl _
  | list t ih =>
    intro hr rv path pos hf
    cases rv with
    | null => simp [resolveValue, complete, PathSub.nil]
    | list xs =>
      have hsub : PathSub ((joinAll (mapIdx (fun i x => fun (_ : Unit) =>
            itemWrap c.D (path ++ [PathSeg.idx i]) (resolveValue c recM t x ss (path ++ [PathSeg.idx i]) pos)) xs 0)).map
            (·.errs)).flatten
          ((mapIdx (fun i x => complete c.S recS t x ss (path ++ [PathSeg.idx i]) pos) xs 0).map (·.errs)).flatten := by
        intro x hx
        simp only [List.mem_flatten, List.mem_map] at hx
        obtain ⟨l, ⟨r, hr', rfl⟩, hxl⟩ := hx
        obtain ⟨f, hf', rfl⟩ := joinAll_mem _ r hr'
        obtain ⟨j, y, hy, rfl, hm⟩ := mapIdx_mem2 _
          (fun i x => complete c.S recS t x ss (path ++ [PathSeg.idx i]) pos) xs 0 f hf'
        rw [itemWrap_none c.D hD] at hxl
        obtain ⟨e', he', hp⟩ := ih hr y _ pos (by
          intro hfl
          exact noIntLeafs_mem xs (by simpa [noIntLeaf] using hf hfl) y hy) x hxl
        refine ⟨e', ?_, hp⟩
        simp only [List.mem_flatten, List.mem_map]
        exact ⟨_, ⟨_, hm, rfl⟩, he'⟩
      simp only [resolveValue, complete]
      split <;> split <;> exact hsub
    | obj ty id => simpa [resolveValue, complete] using PathSub.refl _
    | leaf v => simpa [resolveValue, complete] using PathSub.refl _
    | fail m => simpa [resolveValue, complete] using PathSub.refl _
    | arg a => simpa [resolveValue, complete] using PathSub.refl _
  | nonNull t ih =>
    intro hr rv path pos hf
    by_cases hrv : rv = .null
    · subst hrv; simpa [resolveValue, complete] using PathSub.refl _
    · rw [resolveValue_nonNull c recM t rv ss path pos hrv, nnWrap_errs]
      have hsub := ih hr rv path pos hf
      obtain ⟨e1, e2, e3⟩ := complete_nonNull_errs3 c.S recS t rv ss path pos hrv
      by_cases hnull : (complete c.S recS t rv ss path pos).val = some .null
      · by_cases hemp : (complete c.S recS t rv ss path pos).errs = []
        · rw [hemp] at hsub
          rw [PathSub.of_nil hsub]
          exact PathSub.nil _
        · rw [e2 hnull hemp]; exact hsub
      · rw [e3 hnull]; exact hsub

theorem completeField_errs_paths (c : Model.ExecStatic.Ctx) (hD : c.D = Defects.none)
    (hb : ∀ b ∈ builtinScalars, c.S.isComposite b = false)
    (recM : String → String → Nat → List Sel → List PathSeg → Res)
    (recS : String → Nat → List Sel → List PathSeg → Res) (fd : FieldDef) (rv : RVal) (occ : FieldOcc)
    (fpath : List PathSeg)
    (hr : ∀ ty id p, (c.S.possibleTypes fd.ty.base).contains ty = true →
      PathSub (recM fd.ty.base ty id occ.sels p).errs (recS ty id occ.sels p).errs)
    (hf : fd.ty.base = "Float" → noIntLeaf rv = true) :
    PathSub (completeField c recM fd rv occ fpath).errs (complete c.S recS fd.ty rv occ.sels fpath occ.pos).errs := by
  have hres := resolveValue_errs_paths c hD hb recM recS occ.sels fd.ty hr rv fpath occ.pos hf
  cases rv with
  | fail m =>
    rw [complete_fail_errs]
    have h1 : c.D.ifaceErrNoPath = false := by rw [hD]; rfl
    simp only [completeField, h1, Bool.false_and]
    split <;> exact PathSub.refl _
  | null => simpa [completeField] using hres
  | leaf v => simpa [completeField] using hres
  | obj ty id => simpa [completeField] using hres
  | list xs => simpa [completeField] using hres
  | arg a => simpa [completeField] using hres

theorem runField_errs_paths (c : Model.ExecStatic.Ctx) (hD : c.D = Defects.none)
    (hb : ∀ b ∈ builtinScalars, c.S.isComposite b = false) (fuel : Nat) (rt : String) (id : Nat)
    (path : List PathSeg) (occ : FieldOcc)
    (hr : ∀ fd, occ.name ≠ "__typename" → c.S.field? rt occ.name = some fd →
      ∀ ty id p, (c.S.possibleTypes fd.ty.base).contains ty = true →
      PathSub (resolveContainer c fuel fd.ty.base ty id occ.sels p).errs (execSet (sc c) fuel ty id occ.sels p).errs)
    (hleaf : ∀ fd, c.S.field? rt occ.name = some fd → fd.ty.base = "Float" → noIntLeaf (fieldRVal c id fd occ) = true) :
    PathSub (runField c (resolveContainer c fuel) rt id path occ).errs (fieldErrs c fuel rt id path occ) := by
  by_cases ht : occ.name = "__typename"
  · simp [runField, ht, PathSub.nil]
  · cases hfd : c.S.field? rt occ.name with
    | none => simp [runField, ht, hfd, PathSub.nil]
    | some fd =>
      have e := completeField_errs_paths c hD hb (resolveContainer c fuel)
        (execSet (sc c) fuel) fd (fieldRVal c id fd occ) occ (path ++ [PathSeg.key occ.key]) (hr fd ht hfd) (hleaf fd hfd)
      simpa [runField, fieldErrs, ht, hfd] using e

/-- ERRORS with repeated response keys: every error of the executor model (one field future per
    occurrence) has the response path of an error of the specification's execution, as long as the
    recursion depth is not exhausted -/
theorem container_errs_paths (c : Model.ExecStatic.Ctx) (H : DataHyps c) :
    ∀ (fuel : Nat) (st rt : String) (id : Nat) (sels : List Sel) (path : List PathSeg),
      IsObj c.S rt → doesApply c.S rt st = true → selsInert c.vars sels = true →
      MKP c fuel st rt sels → deepEnough c fuel st rt sels = true →
      PathSub (resolveContainer c fuel st rt id sels path).errs (execSet (sc c) fuel rt id sels path).errs := by
  intro fuel
  induction fuel with
  | zero => intro st rt id sels path _ _ _ _ hde; simp [deepEnough] at hde
  | succ fuel ih =>
    intro st rt id sels path hrt hst hin hmk hdeep
    have hde := deepEnough_succ c fuel st rt sels hdeep
    have hinO := collect_inert c rt H.frags (fuel + 1) st sels hin
    have hgrpO := mkp_group_of_mem c fuel st rt sels hmk
    have hgrpW := mkp_group_weak c fuel st rt sels hmk
    rw [execSet_errs_char c H fuel st rt id sels path hrt hst hin hmk.1]
    simp only [resolveContainer]
    generalize hO : Model.ExecStatic.collect c rt (fuel + 1) st sels = O at *
    have hRF : ∀ occ ∈ O, PathSub (runField c (resolveContainer c fuel) rt id path occ).errs (fieldErrs c fuel rt id path occ) := by
      intro occ hoccm
      apply runField_errs_paths c H.noDefect H.builtins fuel rt id path occ ?_ (fun fd hfd => H.floats rt id fd occ hfd)
      intro fd hnt hfd ty id' p hty
      have hty' : ty ∈ c.S.possibleTypes fd.ty.base := by simpa using hty
      obtain ⟨hobj, happ⟩ := H.schema.possible _ _ hty'
      obtain ⟨o0, rest, hfl, hsame, hfield⟩ := hgrpO occ.key (List.mem_map_of_mem hoccm)
      have hmem : occ ∈ o0 :: rest := by rw [← hfl]; exact List.mem_filter.2 ⟨hoccm, by simp⟩
      have hname : occ.name = o0.name := by
        simp only [List.mem_cons] at hmem
        rcases hmem with rfl | hm
        · rfl
        · exact (hsame occ hm).1
      rcases hfield with h | ⟨fd', hfd', _, hrec⟩
      · exact absurd (hname.trans h) hnt
      · rw [hname, hfd'] at hfd
        cases hfd
        have hmk' := mkp_flatten_mem c fuel _ _ _ (hrec ty hty') occ.sels (List.mem_map_of_mem hmem)
        exact ih fd.ty.base ty id' occ.sels p hobj happ (hinO occ hoccm) hmk'
          (hde occ hoccm fd (by rw [hname]; exact hfd') ty hty')
    have hmodel : PathSub ((joinAll (O.map (fun occ => fun (_ : Unit) => runField c (resolveContainer c fuel) rt id path occ))).map (·.errs)).flatten
        ((dedup (O.map (·.key))).map (fun k => gErrs c fuel rt id path k (O.filter (fun o => decide (o.key = k))))).flatten := by
      apply PathSub.flatten_of
      intro l hl
      simp only [List.mem_map] at hl
      obtain ⟨r, hr', rfl⟩ := hl
      obtain ⟨f, hf', rfl⟩ := joinAll_mem _ r hr'
      simp only [List.mem_map] at hf'
      obtain ⟨occ, hoccm, rfl⟩ := hf'
      have hk : occ.key ∈ O.map (·.key) := List.mem_map_of_mem hoccm
      obtain ⟨o0, rest, hfl, hsame, hfield⟩ := hgrpW occ.key hk
      have hmem : occ ∈ o0 :: rest := by rw [← hfl]; exact List.mem_filter.2 ⟨hoccm, by simp⟩
      obtain ⟨pre, post, hsp⟩ := List.append_of_mem hmem
      have h1 := hRF occ hoccm
      have h2 : PathSub (fieldErrs c fuel rt id path occ) (gErrs c fuel rt id path occ.key (o0 :: rest)) := by
        rw [← gErrs_single]
        apply gErrs_mono c H fuel (execSet_errs_mono c H fuel) rt id path occ.key o0 rest hsame hfield ?_ pre [occ] post
          (by rw [hsp]; simp)
        intro o ho
        exact hinO o (List.mem_filter.1 (by rw [hfl]; exact ho : o ∈ O.filter (fun o => decide (o.key = occ.key)))).1
      apply PathSub.to_flatten (l' := gErrs c fuel rt id path occ.key (O.filter (fun o => decide (o.key = occ.key))))
      · exact List.mem_map.2 ⟨occ.key, (mem_dedup _ _).2 hk, rfl⟩
      · rw [hfl]; exact h1.trans h2
    split <;> exact hmodel

/-- ERRORS, request level, repeated response keys included -/
theorem run_errs_paths_mergeable (S : Schema) (d : Doc) (opName : Option String) (raw : List (String × GValue)) (w : World)
    (fuel : Nat)
    (H : ∀ op, AGV.Spec.Exec.selectOp d opName = some op →
      IsObj S (rootOf S op) ∧ DataHyps (runCtx S d op raw w) ∧
      selsInert (AGV.Spec.Exec.coerceVars op.vars raw) op.sels = true ∧
      mergeableKeys (runCtx S d op raw w) fuel (rootOf S op) (rootOf S op) op.sels = true ∧
      deepEnough (runCtx S d op raw w) fuel (rootOf S op) (rootOf S op) op.sels = true) :
    PathSub (Model.ExecStatic.run Defects.none S d opName raw w fuel).errs (AGV.Spec.Exec.run S d opName raw w fuel).errs := by
  unfold Model.ExecStatic.run AGV.Spec.Exec.run
  cases hop : AGV.Spec.Exec.selectOp d opName with
  | none => exact PathSub.refl _
  | some op =>
    obtain ⟨hroot, hdata, hin, hmk, hdeep⟩ := H op hop
    have hsv : skipVars Defects.none op.vars raw = AGV.Spec.Exec.coerceVars op.vars raw := rfl
    have hfr := hdata.frags
    have hd : ({ ops := d.ops, frags := d.frags.map (fun f =>
        { f with sels := prune (AGV.Spec.Exec.coerceVars op.vars raw) fuel f.sels }) } : Doc) = d := by
      have : d.frags.map (fun f => ({ f with sels := prune (AGV.Spec.Exec.coerceVars op.vars raw) fuel f.sels } : FragDef)) = d.frags := by
        conv => rhs; rw [← List.map_id d.frags]
        apply List.map_congr_left
        intro f hf
        have := prune_inert (AGV.Spec.Exec.coerceVars op.vars raw) fuel f.sels (hfr f hf)
        simp [this]
      rw [this]
    simp only [hsv, hd, prune_inert _ fuel op.sels hin]
    exact container_errs_paths (runCtx S d op raw w) hdata fuel (rootOf S op) (rootOf S op) 0 op.sels [] hroot
      (doesApply_self S _ hroot) hin (mkp_of_mergeableKeys _ _ _ _ _ hmk) hdeep

-- ------------------------------------------------------------------ acyclic fragment spreads (for the open statements)

mutual
/-- every fragment name spread anywhere below a selection (through fields and inline fragments) -/
def selSpreadNames : Sel → List String
  | .field _ _ _ _ ss _ => selsSpreadNames ss
  | .spread n _ _ => [n]
  | .inline _ _ ss _ => selsSpreadNames ss
def selsSpreadNames : List Sel → List String
  | [] => []
  | s :: r => selSpreadNames s ++ selsSpreadNames r
end

/-- NoFragmentCycles (validation rule 5.5.2.2): the defined fragments can be ranked so that a fragment
    only spreads fragments of smaller rank -/
def FragsAcyclic (d : Doc) : Prop :=
  ∃ rank : String → Nat, ∀ f ∈ d.frags, ∀ n ∈ selsSpreadNames f.sels, n ∈ d.frags.map (·.name) → rank n < rank f.name

-- ------------------------------------------------------------------ the drivers' fuel bound suffices on acyclic documents

/-- weight of the fragments of rank below `r` -/
def fragWeight (rank : String → Nat) (frags : List FragDef) (r : Nat) : Nat :=
  ((frags.filter (fun g => decide (rank g.name < r))).map (fun g => 1 + selCount g.sels)).sum

theorem fragWeight_mono (rank : String → Nat) (frags : List FragDef) (r r' : Nat) (h : r ≤ r') :
    fragWeight rank frags r ≤ fragWeight rank frags r' := by
  unfold fragWeight
  induction frags with
  | nil => simp
  | cons g gs ih =>
    simp only [List.filter_cons]
    by_cases h1 : rank g.name < r
    · have h2 : rank g.name < r' := by omega
      simp only [h1, h2, decide_true, if_true, List.map_cons, List.sum_cons]
      omega
    · by_cases h2 : rank g.name < r'
      · simp only [h1, h2, decide_true, decide_false, if_true, Bool.false_eq_true, if_false, List.map_cons, List.sum_cons]
        omega
      · simp only [h1, h2, decide_false, Bool.false_eq_true, if_false]
        exact ih

theorem fragWeight_step (rank : String → Nat) (frags : List FragDef) (f : FragDef) (hf : f ∈ frags) :
    fragWeight rank frags (rank f.name) + (1 + selCount f.sels) ≤ fragWeight rank frags (rank f.name + 1) := by
  unfold fragWeight
  induction frags with
  | nil => simp at hf
  | cons g gs ih =>
    simp only [List.filter_cons]
    simp only [List.mem_cons] at hf
    by_cases h1 : rank g.name < rank f.name
    · have h2 : rank g.name < rank f.name + 1 := by omega
      simp only [h1, h2, decide_true, if_true, List.map_cons, List.sum_cons]
      rcases hf with rfl | hf
      · omega
      · have := ih hf; omega
    · by_cases h2 : rank g.name < rank f.name + 1
      · simp only [h1, h2, decide_true, decide_false, if_true, Bool.false_eq_true, if_false, List.map_cons, List.sum_cons]
        rcases hf with rfl | hf
        · have := fragWeight_mono rank gs (rank f.name) (rank f.name + 1) (by omega)
          unfold fragWeight at this
          omega
        · have := ih hf; omega
      · simp only [h1, h2, decide_false, Bool.false_eq_true, if_false]
        rcases hf with rfl | hf
        · omega
        · exact ih hf

theorem fragWeight_le_all (rank : String → Nat) (frags : List FragDef) (r : Nat) :
    fragWeight rank frags r ≤ (frags.map (fun g => 1 + selCount g.sels)).sum := by
  unfold fragWeight
  induction frags with
  | nil => simp
  | cons g gs ih =>
    simp only [List.filter_cons]
    split <;> simp only [List.map_cons, List.sum_cons] <;> omega

/-- every defined fragment spread below `sels` has rank < `r` -/
def Bnd (d : Doc) (rank : String → Nat) (r : Nat) (sels : List Sel) : Prop :=
  ∀ n ∈ selsSpreadNames sels, n ∈ d.frags.map (·.name) → rank n < r

theorem bnd_cons (d : Doc) (rank : String → Nat) (r : Nat) (s : Sel) (rest : List Sel) (h : Bnd d rank r (s :: rest)) :
    Bnd d rank r [s] ∧ Bnd d rank r rest := by
  constructor
  · intro n hn; exact h n (by simp only [selsSpreadNames, List.append_nil, List.mem_append] at hn ⊢; exact Or.inl hn)
  · intro n hn; exact h n (by simp only [selsSpreadNames, List.mem_append]; exact Or.inr hn)

theorem selCount_cons_ge (s : Sel) (rest : List Sel) : selCount rest ≤ selCount (s :: rest) ∧ selCount [s] ≤ selCount (s :: rest) := by
  cases s <;> simp [selCount] <;> omega

/-- an occurrence collected from `sels`: its sub-selections are strictly lighter (selections + fragments
    still enterable), because a fragment only spreads fragments of smaller rank -/
theorem collect_lighter (c : Model.ExecStatic.Ctx) (rt : String) (rank : String → Nat)
    (hac : ∀ f ∈ c.d.frags, ∀ n ∈ selsSpreadNames f.sels, n ∈ c.d.frags.map (·.name) → rank n < rank f.name) :
    ∀ (k : Nat) (st : String) (sels : List Sel) (r : Nat), Bnd c.d rank r sels →
      ∀ occ ∈ Model.ExecStatic.collect c rt k st sels,
        ∃ r', Bnd c.d rank r' occ.sels ∧
          selCount occ.sels + fragWeight rank c.d.frags r' < selCount sels + fragWeight rank c.d.frags r := by
  intro k
  induction k with
  | zero => intro st sels r _ occ h; simp [Model.ExecStatic.collect] at h
  | succ k ih =>
    intro st sels
    induction sels with
    | nil => intro r _ occ h; simp [Model.ExecStatic.collect] at h
    | cons s rest ihr =>
      intro r hb occ hocc
      obtain ⟨hb1, hb2⟩ := bnd_cons _ _ _ _ _ hb
      obtain ⟨hc1, hc2⟩ := selCount_cons_ge s rest
      rw [collect_cons, List.mem_append] at hocc
      rcases hocc with hocc | hocc
      · cases s with
        | field al n args ds ss pos =>
          simp [Model.ExecStatic.collect] at hocc
          subst hocc
          refine ⟨r, ?_, ?_⟩
          · intro m hm; exact hb1 m (by simpa [selsSpreadNames, selSpreadNames] using hm)
          · simp only [selCount] at hc2 ⊢; omega
        | spread n ds pos =>
          cases hf : c.d.frag? n with
          | none => simp [Model.ExecStatic.collect, hf] at hocc
          | some f =>
            have hfm := frag_mem c.d n f hf
            have hfn : f.name = n := by
              unfold Doc.frag? at hf
              simpa using List.find?_some hf
            have hrn : rank n < r := hb1 n (by simp [selsSpreadNames, selSpreadNames])
              (by rw [← hfn]; exact List.mem_map_of_mem hfm)
            have hbf : Bnd c.d rank (rank n) f.sels := by
              intro m hm hex
              rw [← hfn]
              exact hac f hfm m hm hex
            have hin : occ ∈ Model.ExecStatic.collect c rt k rt f.sels ∨ occ ∈ Model.ExecStatic.collect c rt k st f.sels := by
              simp only [Model.ExecStatic.collect, hf, List.map_cons, List.map_nil, List.flatten_cons, List.flatten_nil,
                List.append_nil] at hocc
              split at hocc
              · exact Or.inl hocc
              · split at hocc
                · exact Or.inr hocc
                · simp at hocc
            have hstep := fragWeight_step rank c.d.frags f hfm
            rw [hfn] at hstep
            have hmono := fragWeight_mono rank c.d.frags (rank n + 1) r (by omega)
            have hsel : 1 ≤ selCount (Sel.spread n ds pos :: rest) := by simp [selCount]
            rcases hin with hin | hin
            · obtain ⟨r', b', l'⟩ := ih _ f.sels (rank n) hbf occ hin
              exact ⟨r', b', by omega⟩
            · obtain ⟨r', b', l'⟩ := ih _ f.sels (rank n) hbf occ hin
              exact ⟨r', b', by omega⟩
        | inline cond ds ss pos =>
          have hbs : Bnd c.d rank r ss := by
            intro m hm; exact hb1 m (by simpa [selsSpreadNames, selSpreadNames] using hm)
          have hcs : selCount ss < selCount (Sel.inline cond ds ss pos :: rest) := by simp only [selCount]; omega
          have hin : occ ∈ Model.ExecStatic.collect c rt k rt ss ∨ occ ∈ Model.ExecStatic.collect c rt k st ss := by
            cases cond with
            | none =>
              simp only [Model.ExecStatic.collect, List.map_cons, List.map_nil, List.flatten_cons, List.flatten_nil,
                List.append_nil] at hocc
              exact Or.inr hocc
            | some t =>
              simp only [Model.ExecStatic.collect, List.map_cons, List.map_nil, List.flatten_cons, List.flatten_nil,
                List.append_nil] at hocc
              split at hocc
              · exact Or.inl hocc
              · split at hocc
                · exact Or.inr hocc
                · simp at hocc
          rcases hin with hin | hin
          · obtain ⟨r', b', l'⟩ := ih _ ss r hbs occ hin
            exact ⟨r', b', by omega⟩
          · obtain ⟨r', b', l'⟩ := ih _ ss r hbs occ hin
            exact ⟨r', b', by omega⟩
      · obtain ⟨r', b', l'⟩ := ihr r hb2 occ hocc
        exact ⟨r', b', by omega⟩

theorem deepEnough_of_weight (c : Model.ExecStatic.Ctx) (rank : String → Nat)
    (hac : ∀ f ∈ c.d.frags, ∀ n ∈ selsSpreadNames f.sels, n ∈ c.d.frags.map (·.name) → rank n < rank f.name) :
    ∀ (F : Nat) (st rt : String) (sels : List Sel) (r : Nat), Bnd c.d rank r sels →
      selCount sels + fragWeight rank c.d.frags r < F → deepEnough c F st rt sels = true := by
  intro F
  induction F with
  | zero => intro st rt sels r _ h; omega
  | succ F ih =>
    intro st rt sels r hb hw
    simp only [deepEnough, List.all_eq_true]
    intro occ hocc
    obtain ⟨r', b', l'⟩ := collect_lighter c rt rank hac (F + 1) st sels r hb occ hocc
    cases hfd : c.S.field? rt occ.name with
    | none => rfl
    | some fd =>
      simp only [List.all_eq_true]
      intro ty _
      exact ih _ _ _ r' b' (by omega)

theorem sum_map_ge_of_mem {α} (f : α → Nat) (l : List α) (a : α) (h : a ∈ l) : f a ≤ (l.map f).sum := by
  induction l with
  | nil => simp at h
  | cons x xs ih =>
    simp only [List.mem_cons] at h
    simp only [List.map_cons, List.sum_cons]
    rcases h with rfl | h
    · omega
    · have := ih h; omega

/-- on a document with acyclic fragment spreads the drivers' fuel bound is never exhausted -/
theorem deepEnough_of_fuelBound (c : Model.ExecStatic.Ctx) (hac : FragsAcyclic c.d) (op : OpDef) (hop : op ∈ c.d.ops)
    (F : Nat) (hF : fuelBound c.d ≤ F) (st rt : String) : deepEnough c F st rt op.sels = true := by
  obtain ⟨rank, hrank⟩ := hac
  let R := (c.d.frags.map (fun g => rank g.name)).sum + 1
  have hb : Bnd c.d rank R op.sels := by
    intro n _ hex
    simp only [List.mem_map] at hex
    obtain ⟨g, hg, rfl⟩ := hex
    have := sum_map_ge_of_mem (fun g => rank g.name) c.d.frags g hg
    show rank g.name < (c.d.frags.map (fun g => rank g.name)).sum + 1
    omega
  apply deepEnough_of_weight c rank hrank F st rt op.sels R hb
  have h1 := fragWeight_le_all rank c.d.frags R
  have h2 := sum_map_ge_of_mem (fun o : OpDef => selCount o.sels) c.d.ops op hop
  unfold fuelBound at hF
  omega

theorem selectOp_mem (d : Doc) (opName : Option String) (op : OpDef) (h : AGV.Spec.Exec.selectOp d opName = some op) :
    op ∈ d.ops := by
  unfold AGV.Spec.Exec.selectOp at h
  cases opName with
  | some n => exact List.mem_of_find?_eq_some h
  | none =>
    simp only at h
    split at h
    · rename_i o heq
      simp only [Option.some.injEq] at h
      subst h
      rw [heq]
      exact List.mem_singleton.2 rfl
    · simp at h

end AGV.Lemmas.ExecStaticMerge
