/-
  Property C13, token level: `e+ "c"` unfolded one element at a time, and the `type_` reader against
  the specification's `pType`.
-/
import AGV.Lemmas.PegC13Q2
namespace AGV.Lemmas.PegX
open AGV.Model.Peg AGV.Model.BuildAst AGV.Spec.Lex AGV.Spec.Parse AGV.Core.PAst AGV.Lemmas.PegC13 AGV.Lemmas.SpecVal

/-- `e+` followed by the closing Punctuator `y` -/
def tRepClose {α : Type} (q : Sim α) (y : Char) : Sim (List α) := tMap (fun x => x.1) (tSeq (tRep1 q) (tPunct y))

theorem tPunct_cons (y : Char) (r : List Tok) : tPunct y (.punct y :: r) = some ((), r) := by
  simp [tPunct, closeTok]

theorem tPunct_eq (y : Char) (ts : List Tok) : tPunct y ts = (closeTok y ts).map (fun r => ((), r)) := rfl

/-- one element, then either the closing Punctuator or the rest of the repetition -/
theorem tRepClose_unfold {α : Type} {q : Sim α} (hS : Strict q) (y : Char) (hc : ∀ r, q (.punct y :: r) = none)
    (ts : List Tok) :
    tRepClose q y ts = obind (q ts) (fun a r =>
      match closeTok y r with
      | some r' => some ([a], r')
      | none => omap (fun xs => a :: xs) (tRepClose q y r)) := by
  unfold tRepClose tMap tSeq tRep1
  cases hq : q ts with
  | none => rfl
  | some x =>
    obtain ⟨a, r⟩ := x
    simp only [obind]
    cases hcl : closeTok y r with
    | some r' =>
      have e := closeTok_some hcl
      subst e
      have hm : manyF q (Tok.punct y :: r').length (.punct y :: r') = ([], .punct y :: r') := by
        simp only [List.length_cons, manyF, hc]
      simp only [hm, tPunct_cons, Option.map_some]
    | none =>
      simp only []
      cases hq2 : q r with
      | none =>
        have hm : manyF q r.length r = ([], r) := by
          cases r with
          | nil => rfl
          | cons t r' => simp only [List.length_cons, manyF, hq2]
        simp only [hm, tPunct_eq, hcl, Option.map_none, omap]
      | some x2 =>
        obtain ⟨b, r2⟩ := x2
        have hl := hS _ _ _ hq2
        have hm : manyF q r.length r = (b :: (manyF q r2.length r2).1, (manyF q r2.length r2).2) := by
          cases r with
          | nil => simp at hl
          | cons t r' =>
            simp only [List.length_cons] at hl
            simp only [List.length_cons, manyF, hq2]
            rw [manyF_fuel hS r'.length r2.length r2 (by omega) (Nat.le_refl _)]
        simp only [hm, omap]
        cases tPunct y (manyF q r2.length r2).2 <;> rfl

-- ------------------------------------------------------------------ types

/-- the optional `!` after a type -/
def bangQ (mk : Bool → PType) (r : List Tok) : Outc PType :=
  match closeTok '!' r with
  | some r' => some (mk false, r')
  | none => some (mk true, r)

theorem qTypeBody_name (inner : Sim PType) (n : List Char) (r : List Tok) :
    qTypeBody inner (.name n :: r) = bangQ (.named n) r := by
  unfold qTypeBody tMap tSeq tOr tOpt bangQ
  simp only [pName, Option.map_some, tPunct_eq]
  cases closeTok '!' r <;> rfl

theorem qTypeBody_lbrack (inner : Sim PType) (r : List Tok) :
    qTypeBody inner (.punct '[' :: r) = obind (inner r) (fun t r1 =>
      match closeTok ']' r1 with
      | some r2 => bangQ (.listOf t) r2
      | none => none) := by
  unfold qTypeBody tMap tSeq tOr tOpt bangQ obind
  simp only [pName, Option.map_none, tPunct_cons]
  cases hi : inner r with
  | none => rfl
  | some x =>
    obtain ⟨t, r1⟩ := x
    simp only [tPunct_eq]
    cases closeTok ']' r1 with
    | none => rfl
    | some r2 =>
      simp only [Option.map_some]
      cases closeTok '!' r2 <;> rfl

theorem qTypeBody_other (inner : Sim PType) (ts : List Tok) (h1 : ∀ n r, ts ≠ .name n :: r)
    (h2 : ∀ r, ts ≠ .punct '[' :: r) : qTypeBody inner ts = none := by
  unfold qTypeBody tMap tSeq tOr
  have e1 : pName ts = none := by
    unfold pName; split
    · rename_i n r; exact absurd rfl (h1 n r)
    · rfl
  have e2 : tPunct '[' ts = none := by rw [tPunct_eq, closeTok_none h2]; rfl
  simp only [e1, e2, Option.map_none]

theorem bang_eq (mk : Bool → PType) (r : List Tok) :
    (match r with
     | .punct '!' :: r' => some (mk false, r')
     | _ => some (mk true, r)) = bangQ mk r := by
  by_cases h : ∃ r', r = .punct '!' :: r'
  · obtain ⟨r', rfl⟩ := h
    simp [bangQ, closeTok]
  · have hc : closeTok '!' r = none := closeTok_none (fun r' e => h ⟨r', e⟩)
    unfold bangQ
    rw [hc]
    split
    · rename_i r'; exact absurd ⟨r', rfl⟩ h
    · rfl

theorem pType_name (f : Nat) (n : List Char) (r : List Tok) : pType (f + 1) (.name n :: r) = bangQ (.named n) r := by
  rw [pType]
  exact bang_eq _ r

theorem pType_lbrack (f : Nat) (r : List Tok) :
    pType (f + 1) (.punct '[' :: r) = obind (pType f r) (fun t r1 =>
      match closeTok ']' r1 with
      | some r2 => bangQ (.listOf t) r2
      | none => none) := by
  rw [pType]
  simp only []
  cases hp : pType f r with
  | none => rfl
  | some x =>
    obtain ⟨t, r1⟩ := x
    simp only [obind]
    cases hcl : closeTok ']' r1 with
    | some r2 =>
      have e := closeTok_some hcl
      subst e
      simp only []
      exact bang_eq _ r2
    | none =>
      simp only []
      split
      · rename_i t' r' e
        cases e
        simp [closeTok] at hcl
      · rfl

theorem pType_other (f : Nat) (ts : List Tok) (h1 : ∀ n r, ts ≠ .name n :: r) (h2 : ∀ r, ts ≠ .punct '[' :: r) :
    pType f ts = none := by
  cases f with
  | zero => rw [pType]
  | succ f =>
    rw [pType]
    · intro n r e; exact h1 n r e
    · intro r e; exact h2 r e

/-- the `type_` reader is the specification's `pType` -/
theorem type_agree : ∀ (n : Nat) (ts : List Tok), ts.length ≤ n → ∀ L f, ts.length < L → ts.length < f →
    qType L ts = pType f ts := by
  intro n
  induction n using Nat.strongRecOn with
  | _ n ih =>
    intro ts hn L f hL hf
    obtain ⟨L, rfl⟩ : ∃ k, L = k + 1 := ⟨L - 1, by omega⟩
    obtain ⟨f, rfl⟩ : ∃ k, f = k + 1 := ⟨f - 1, by omega⟩
    show qTypeBody (qType L) ts = _
    by_cases h1 : ∃ nm r, ts = .name nm :: r
    · obtain ⟨nm, r, rfl⟩ := h1
      rw [qTypeBody_name, pType_name]
    · by_cases h2 : ∃ r, ts = .punct '[' :: r
      · obtain ⟨r, rfl⟩ := h2
        simp only [List.length_cons] at hn hL hf
        rw [qTypeBody_lbrack, pType_lbrack, ih r.length (by omega) r (Nat.le_refl _) L f (by omega) (by omega)]
      · rw [qTypeBody_other _ ts (fun n r e => h1 ⟨n, r, e⟩) (fun r e => h2 ⟨r, e⟩),
          pType_other _ ts (fun n r e => h1 ⟨n, r, e⟩) (fun r e => h2 ⟨r, e⟩)]
end AGV.Lemmas.PegX
