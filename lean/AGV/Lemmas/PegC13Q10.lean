/-
  Property C13, token level: definitions and the document — `qDefinition` is the specification's
  `pDefinition`, `qDocument` its `pDefinitions`.
-/
import AGV.Lemmas.PegC13Q9
namespace AGV.Lemmas.PegX
open AGV.Model.Peg AGV.Model.BuildAst AGV.Spec.Lex AGV.Spec.Parse AGV.Core.PAst AGV.Lemmas.PegC13 AGV.Lemmas.SpecVal

def qOpTail (L : Nat) (ty : OpType) (nm : Option Name) (r1 : List Tok) : Outc PDef :=
  obind (qOptVars L r1) (fun vs r3 =>
    obind (qOptDirs false r3) (fun ds r4 =>
      omap (fun ss => PDef.op nm ⟨ty, vs, ds, ss⟩) (qSelSet L r4)))

def qFragTail (L : Nat) (n t : Name) (r1 : List Tok) : Outc PDef :=
  obind (qOptDirs false r1) (fun ds r2 => omap (fun ss => PDef.frag n ⟨t, ds, ss⟩) (qSelSet L r2))

theorem qOptVars_some (L : Nat) (ts : List Tok) : ∃ vs r, qOptVars L ts = some (vs, r) ∧ r.length ≤ ts.length := by
  unfold qOptVars
  rw [tMap_eq]
  cases h : qVarDefs L ts with
  | none => rw [tOpt_of_none h]; exact ⟨_, _, rfl, Nat.le_refl _⟩
  | some x =>
    obtain ⟨vs, r⟩ := x
    rw [tOpt_of_some h]
    exact ⟨_, _, rfl, Nat.le_of_lt (strict_qVarDefs L _ _ _ h)⟩

theorem qOptVars_skip (L : Nat) (ts : List Tok) (h : ∀ r, ts ≠ .punct '(' :: r) : qOptVars L ts = some ([], ts) := by
  unfold qOptVars
  have e1 : qVarDefs L ts = none := by
    unfold qVarDefs
    rw [tMap_eq, tSeq_of_none (by rw [tPunct_eq, closeTok_none h]; rfl)]; rfl
  rw [tMap_eq, tOpt_of_none e1]; rfl

theorem pOptVars_skip (ts : List Tok) (h : ∀ r, ts ≠ .punct '(' :: r) : pOptVars ts = some ([], ts) := by
  unfold pOptVars
  split
  · rename_i r; exact absurd rfl (h r)
  · rfl

theorem pSelectionSet_none (ts : List Tok) (h : ∀ r, ts ≠ .punct '{' :: r) : pSelectionSet P' ts = none := by
  unfold pSelectionSet
  split
  · rename_i r; exact absurd rfl (h r)
  · rfl

theorem opTail_agree (L : Nat) (ty : OpType) (nm : Option Name) (r1 : List Tok) (hL : r1.length < L) :
    qOpTail L ty nm r1 = pOpTail ty nm r1 := by
  unfold qOpTail pOpTail
  refine Agree.bind_eq' (optVars_agree L r1 hL) ?_ ?_ ?_
  · intro vs r3 e1 _
    have l1 : r3.length ≤ r1.length := by
      obtain ⟨vs', r3', e', hl⟩ := qOptVars_some L r1
      rw [e1] at e'; cases e'; exact hl
    refine Agree.bind_eq' (optDirs_agree false r3) ?_ ?_ ?_
    · intro ds r4 e2 _
      have l2 : r4.length ≤ r3.length := by
        obtain ⟨ds', r4', e', hl⟩ := qOptDirs_some false r3
        rw [e2] at e'; cases e'; exact hl
      rw [selSet_agree L r4 (by omega)]
    · intro ds r4 _ hs
      rw [qSelSet_needs L r4 (headIn_ne hs '{' (by simp))]; rfl
    · intro ds r4 _ hs
      rw [pSelectionSet_none r4 (headIn_ne hs '{' (by simp))]; rfl
  · intro vs r3 _ hs
    rw [qOptDirs_skip false r3 (headIn_ne hs '@' (by simp))]
    simp only [obind]
    rw [qSelSet_needs L r3 (headIn_ne hs '{' (by simp))]; rfl
  · intro vs r3 _ hs
    rw [pDirs_skip false r3 (headIn_ne hs '@' (by simp))]
    simp only [obind]
    rw [pSelectionSet_none r3 (headIn_ne hs '{' (by simp))]; rfl

theorem fragTail_agree (L : Nat) (n t : Name) (r1 : List Tok) (hL : r1.length < L) :
    qFragTail L n t r1 = pFragTail n t r1 := by
  unfold qFragTail pFragTail
  refine Agree.bind_eq' (optDirs_agree false r1) ?_ ?_ ?_
  · intro ds r2 e2 _
    have l2 : r2.length ≤ r1.length := by
      obtain ⟨ds', r2', e', hl⟩ := qOptDirs_some false r1
      rw [e2] at e'; cases e'; exact hl
    rw [selSet_agree L r2 (by omega)]
  · intro ds r2 _ hs
    rw [qSelSet_needs L r2 (headIn_ne hs '{' (by simp))]; rfl
  · intro ds r2 _ hs
    rw [pSelectionSet_none r2 (headIn_ne hs '{' (by simp))]; rfl

-- ------------------------------------------------------------------ the PEG side by shape

theorem qOpType_at (k : Name) (r : List Tok) : qOpType (.name k :: r) = (AGV.Spec.Parse.opTypeOf k).map (fun ty => (ty, r)) := rfl

theorem qOpType_none (ts : List Tok) (h : ∀ k r, ts ≠ .name k :: r) : qOpType ts = none := by
  unfold qOpType
  split
  · rename_i k r; exact absurd rfl (h k r)
  · rfl

theorem opTail_eq (L : Nat) (ty : OpType) (nm : Option Name) (r1 : List Tok) :
    omap (fun x => mkOp (ty, nm, x)) (tSeq (tOpt (qVarDefs L)) (tSeq (tOpt (qDirectives false)) (qSelSet L)) r1) =
      qOpTail L ty nm r1 := by
  unfold qOpTail qOptVars qOptDirs tMap tSeq omap obind
  cases tOpt (qVarDefs L) r1 with
  | none => rfl
  | some x =>
    obtain ⟨ovs, r3⟩ := x
    simp only [Option.map_some]
    cases tOpt (qDirectives false) r3 with
    | none => rfl
    | some y =>
      obtain ⟨ods, r4⟩ := y
      simp only [Option.map_some]
      cases qSelSet L r4 with
      | none => rfl
      | some z => rfl

theorem qNamedOp_named (L : Nat) (k n : Name) (ty : OpType) (r' : List Tok) (h2 : AGV.Spec.Parse.opTypeOf k = some ty) :
    qNamedOp L (.name k :: .name n :: r') = qOpTail L ty (some n) r' := by
  rw [← opTail_eq]
  unfold qNamedOp
  have e1 : qOpType (.name k :: .name n :: r') = some (ty, .name n :: r') := by rw [qOpType_at, h2]; rfl
  rw [tMap_eq, tSeq_of_some e1, tSeq_of_some (tOpt_of_some (pName_cons n r')), omap_omap, omap_omap]

theorem qNamedOp_anon (L : Nat) (k : Name) (ty : OpType) (r : List Tok) (h2 : AGV.Spec.Parse.opTypeOf k = some ty)
    (hr : ∀ n r', r ≠ .name n :: r') : qNamedOp L (.name k :: r) = qOpTail L ty none r := by
  rw [← opTail_eq]
  unfold qNamedOp
  have e1 : qOpType (.name k :: r) = some (ty, r) := by rw [qOpType_at, h2]; rfl
  rw [tMap_eq, tSeq_of_some e1, tSeq_of_some (tOpt_of_none (pName_none r hr)), omap_omap, omap_omap]

theorem qNamedOp_none (L : Nat) (ts : List Tok) (h : qOpType ts = none) : qNamedOp L ts = none := by
  unfold qNamedOp
  rw [tMap_eq, tSeq_of_none h]; rfl

theorem qAnonOp_eq (L : Nat) (ts : List Tok) :
    qAnonOp L ts = omap (fun ss => PDef.op none ⟨.query, [], [], ss⟩) (qSelSet L ts) := rfl

theorem fragTail_eq (L : Nat) (n t : Name) (r1 : List Tok) :
    omap (fun x => mkFrag ((), (), n, t, x)) (tSeq (tOpt (qDirectives false)) (qSelSet L) r1) = qFragTail L n t r1 := by
  unfold qFragTail qOptDirs tMap tSeq omap obind
  cases tOpt (qDirectives false) r1 with
  | none => rfl
  | some y =>
    obtain ⟨ods, r2⟩ := y
    simp only [Option.map_some]
    cases qSelSet L r2 with
    | none => rfl
    | some z => rfl

theorem kwFragment_eq : kwFragment = kw "fragment" := rfl

theorem tKw_cons (x : List Char) (r : List Tok) : tKw x (.name x :: r) = some ((), r) := by simp [tKw]

/-- what `qFragDef` does after the keyword -/
theorem qFragDef_at (L : Nat) (r : List Tok) :
    qFragDef L (.name kwFragment :: r) = (match tKw onKw r with
      | some _ => none
      | none => (match pName r with
        | some (n, r1) => (match qTypeCond r1 with
          | some (t, r2) => qFragTail L n t r2
          | none => none)
        | none => none)) := by
  unfold qFragDef
  rw [tMap_eq, tSeq_of_some (tKw_cons kwFragment r)]
  cases h1 : tKw onKw r with
  | some y =>
    simp only []
    rw [tSeq_of_none (tNot_of_some h1)]; rfl
  | none =>
    simp only []
    rw [tSeq_of_some (tNot_of_none h1)]
    cases h2 : pName r with
    | none =>
      simp only []
      rw [tSeq_of_none h2]; rfl
    | some z =>
      obtain ⟨n, r1⟩ := z
      simp only []
      rw [tSeq_of_some h2]
      cases h3 : qTypeCond r1 with
      | none =>
        simp only []
        rw [tSeq_of_none h3]; rfl
      | some w =>
        obtain ⟨t, r2⟩ := w
        simp only []
        rw [tSeq_of_some h3, omap_omap, omap_omap, omap_omap, omap_omap, ← fragTail_eq]

theorem qFragDef_none (L : Nat) (ts : List Tok) (h : ∀ r, ts ≠ .name kwFragment :: r) : qFragDef L ts = none := by
  unfold qFragDef
  rw [tMap_eq, tSeq_of_none (tKw_none kwFragment ts h)]; rfl
end AGV.Lemmas.PegX
