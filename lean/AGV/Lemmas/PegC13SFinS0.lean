/-
  Property C13, specification side: the finiteness parameter, selection sets.
-/
import AGV.Lemmas.PegC13SFinV
import AGV.Lemmas.PegC13Sel2
namespace AGV.Lemmas.PegX
open AGV.Spec.Lex AGV.Spec.Parse AGV.Core.PAst AGV.Lemmas.SpecVal

def selMore (P : Params) (f : Nat) (s : PSel) (r : List Tok) : Option (List PSel × List Tok) :=
  match r with
  | .punct '}' :: r' => some ([s], r')
  | _ => (pSelections P f r).map (fun x => (s :: x.1, x.2))

def selOptSet (P : Params) (f : Nat) (r : List Tok) : Option (List PSel × List Tok) :=
  match r with
  | .punct '{' :: r' => pSelections P f r'
  | _ => some ([], r)

def selInline (P : Params) (f : Nat) (tc : Option Name) (r : List Tok) : Option (List PSel × List Tok) :=
  match pDirs P false r with
  | some (ds, .punct '{' :: r3) =>
    (match pSelections P f r3 with
     | some (ss, r4) => selMore P f (.inline tc ds ss) r4
     | none => none)
  | _ => none

def selSpread (P : Params) (f : Nat) (n : Name) (r1 : List Tok) : Option (List PSel × List Tok) :=
  match pDirs P false r1 with
  | some (ds, r2) => selMore P f (.spread n ds) r2
  | none => none

def selField (P : Params) (f : Nat) (al : Option Name) (n : Name) (r : List Tok) : Option (List PSel × List Tok) :=
  match pOptArgs P false r with
  | some (as, r1) =>
    (match pDirs P false r1 with
     | some (ds, r2) =>
       (match selOptSet P f r2 with
        | some (ss, r3) => selMore P f (.field al n as ds ss) r3
        | none => none)
     | none => none)
  | none => none

theorem pSelections_step (P : Params) (f : Nat) (ts : List Tok) :
    pSelections P (f + 1) ts =
      match ts with
      | .spread :: r =>
        (match r with
         | .name n :: r1 =>
           if n = kw "on" then
             (match r1 with
              | .name t :: r2 => selInline P f (some t) r2
              | _ => none)
           else selSpread P f n r1
         | _ => selInline P f none r)
      | .name a :: .punct ':' :: .name n :: r => selField P f (some a) n r
      | .name n :: r => selField P f none n r
      | _ => none := by
  rw [pSelections.eq_def]
  simp only []
  unfold selInline selSpread selField selOptSet selMore
  rfl
end AGV.Lemmas.PegX
