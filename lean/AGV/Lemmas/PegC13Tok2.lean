/-
  Property C13: the grammar's literals (punctuators, `...`, keyword literals guarded by `&kw_x`) and
  the `number` rule against the specification's `lexToken`, with exact positions and pairs.
-/
import AGV.Lemmas.PegC13Lex
namespace AGV.Lemmas.PegX
open AGV.Model.Peg AGV.Model.BuildAst AGV.Spec.Lex AGV.Spec.Literal AGV.Lemmas.PegC13

-- ------------------------------------------------------------------ punctuators

theorem lexToken_punct (c : Char) (r : List Char) (h : isPunct c = true) : lexToken (c :: r) = some (.punct c, r) := by
  unfold lexToken
  simp only [h, if_true]

/-- a match without pairs that ends at position `q` -/
def resOf (q : Nat) : Option (List Char) → Res
  | some r => .ok q r []
  | none => .fail

def punctHead (x : Char) (s : List Char) : Option (List Char) :=
  match s with
  | ch :: r => if ch = x then some r else none
  | [] => none

/-- the next token is the Punctuator `x`: what follows it -/
def punctTok (x : Char) (s : List Char) : Option (List Char) :=
  match lexToken s with
  | some (.punct y, rest) => if y = x then some rest else none
  | _ => none

/-- a one-character literal -/
theorem ev_punct (g : Grammar) (c : Ctx) (x : Char) (p : Nat) (s : List Char) :
    EvR g c (.str [x]) p s 1 (resOf (p + 1) (punctHead x s)) := by
  refine (EvR.str1_cls g c x p s).cast ?_
  cases s with
  | nil => rfl
  | cons ch r => simp only [clsRes, punctHead, decide_eq_true_eq]; split <;> rfl

def isNumTok : Tok → Bool
  | .int _ _ => true
  | .float _ _ _ _ _ => true
  | _ => false

theorem lexNumber_kind {s rest : List Char} {t : Tok} (h : lexNumber s = some (t, rest)) : isNumTok t = true := by
  rw [lexNumber_eq] at h
  simp only [lexNumber'] at h
  repeat' (split at h)
  all_goals try (simp only [Option.some.injEq, Prod.mk.injEq, reduceCtorEq] at h)
  all_goals (rcases h with ⟨h, -⟩; subst h; rfl)

theorem lexToken_punct_inv {s rest : List Char} {y : Char} (h : lexToken s = some (.punct y, rest)) :
    s = y :: rest ∧ isPunct y = true := by
  unfold lexToken at h
  repeat' (split at h)
  all_goals try (simp only [Option.some.injEq, Prod.mk.injEq, reduceCtorEq, Tok.punct.injEq, false_and] at h)
  · obtain ⟨rfl, rfl⟩ := h; exact ⟨rfl, by assumption⟩
  · have := lexNumber_kind h; simp [isNumTok] at this

/-- … that is a Punctuator matches exactly when the next token is it -/
theorem punct_lex (x : Char) (hx : isPunct x = true) (s : List Char) : punctHead x s = punctTok x s := by
  cases s with
  | nil => rfl
  | cons ch r =>
    by_cases h : ch = x
    · subst h; simp [punctHead, punctTok, lexToken_punct _ _ hx]
    · simp only [punctHead, punctTok, h, if_false]
      cases hl : lexToken (ch :: r) with
      | none => rfl
      | some y =>
        obtain ⟨tok, rest⟩ := y
        cases tok with
        | punct y =>
          obtain ⟨e, -⟩ := lexToken_punct_inv hl
          cases e
          simp [h]
        | _ => rfl

-- ------------------------------------------------------------------ character facts

theorem nameStart_cls (c : Char) (h : nameStart c = true) :
    isPunct c = false ∧ c ≠ '.' ∧ isIgnoredChar c = false ∧ c ≠ '#' ∧ c ≠ '"' ∧ c ≠ '-' ∧ isDig c = false ∧
      nameChar c = true := by
  simp [← Char.toNat_inj, nameStart, isAlpha, isPunct, isIgnoredChar, isLineTerm, isDig, nameChar,
    AGV.Digits.isDigit] at *
  omega

theorem numStart_cls (c : Char) (h : c = '-' ∨ isDig c = true) :
    isPunct c = false ∧ c ≠ '.' ∧ isIgnoredChar c = false ∧ c ≠ '#' ∧ c ≠ '"' ∧ nameStart c = false := by
  simp [← Char.toNat_inj, nameStart, isAlpha, isPunct, isIgnoredChar, isLineTerm, isDig] at *
  omega

theorem punct_cls (c : Char) (h : isPunct c = true) :
    c ≠ '.' ∧ isIgnoredChar c = false ∧ c ≠ '#' ∧ c ≠ '"' ∧ c ≠ '-' ∧ isDig c = false ∧ nameStart c = false := by
  simp [← Char.toNat_inj, nameStart, isAlpha, isPunct, isIgnoredChar, isLineTerm, isDig] at *
  omega

-- ------------------------------------------------------------------ `name` against `lexToken`

/-- what the `name` rule reads, PEG-free -/
def nameTok (s : List Char) : Option (List Char × List Char) :=
  match s with
  | ch :: r => if pestNameStart ch then some (ch :: r.takeWhile pestNameCont, r.dropWhile pestNameCont) else none
  | [] => none

theorem lexToken_name (c : Char) (r : List Char) (h : nameStart c = true) :
    lexToken (c :: r) = some (.name (c :: (nameOf r).1), (nameOf r).2) := by
  obtain ⟨h1, h2, -⟩ := nameStart_cls c h
  unfold lexToken
  simp only [h1, h2, h, if_true, if_false, Bool.false_eq_true]

theorem lexToken_name_inv {s rest n : List Char} (h : lexToken s = some (.name n, rest)) :
    ∃ c r, s = c :: r ∧ nameStart c = true ∧ n = c :: (nameOf r).1 ∧ rest = (nameOf r).2 := by
  unfold lexToken at h
  repeat' (split at h)
  all_goals try (simp only [Option.some.injEq, Prod.mk.injEq, reduceCtorEq, Tok.name.injEq, false_and] at h)
  · obtain ⟨rfl, rfl⟩ := h; exact ⟨_, _, rfl, by assumption, rfl, rfl⟩
  · have := lexNumber_kind h; simp [isNumTok] at this

/-- the `name` rule reads exactly the specification's Name token -/
theorem nameTok_lex (s : List Char) :
    nameTok s = (match lexToken s with
      | some (.name n, rest) => some (n, rest)
      | _ => none) := by
  cases s with
  | nil => rfl
  | cons ch r =>
    simp only [nameTok, pestNameStart_eq]
    by_cases h : nameStart ch = true
    · simp [h, lexToken_name ch r h, (nameOf_eq r).1, (nameOf_eq r).2]
    · have hf : nameStart ch = false := by simpa using h
      simp only [hf, Bool.false_eq_true, if_false]
      cases hl : lexToken (ch :: r) with
      | none => rfl
      | some x =>
        obtain ⟨tok, rest⟩ := x
        cases tok with
        | name n =>
          obtain ⟨c, r', e, hc, -, -⟩ := lexToken_name_inv hl
          cases e; rw [hf] at hc; cases hc
        | _ => rfl

theorem nameRes_tok (c : Ctx) (p : Nat) (s : List Char) :
    nameRes c p s = (match nameTok s with
      | some (n, rest) => .ok (p + n.length) rest (if emits c then [Pair.mk "name" p (p + n.length) []] else [])
      | none => .fail) := by
  cases s with
  | nil => rfl
  | cons ch r =>
    simp only [nameRes, nameTok]
    split
    · simp only [List.length_cons]
      have : p + 1 + (List.takeWhile pestNameCont r).length = p + ((List.takeWhile pestNameCont r).length + 1) := by omega
      rw [this]
    · rfl

-- ------------------------------------------------------------------ keyword literals

/-- the literal `x` followed by no NameContinue character -/
def kwMatch (x s : List Char) : Option (List Char) :=
  bindE (matchStr x s) (fun r => negOut r (classStep pestNameCont r))

theorem ev_nameContE (g c) (s : List Char) :
    Ev g c nameContinue s 3 (classStep pestNameCont s) := by
  have h := Ev.choice_or (ev_alpha g c s) (Ev.choice_or (ev_digit g c s) (Ev.str g c ['_'] s)
    (Nat.lt_succ_self 1) (Nat.lt_succ_self 1)) (K := 3) (by omega) (by omega)
  refine h.cast ?_
  cases s with
  | nil => rfl
  | cons ch r =>
    simp only [classStep, pestNameCont, orE, matchStr]
    by_cases h1 : isAsciiAlpha ch = true
    · simp [h1]
    · by_cases h2 : isAsciiDigit ch = true
      · simp [h1, h2]
      · by_cases h3 : ch = '_'
        · subst h3; simp [h1, h2]
        · have h3' : ¬ '_' = ch := fun e => h3 e.symm
          simp [h1, h2, h3, h3']

theorem ev_kwRule {g : Grammar} (x : List Char) (hr : findRule g (kwRuleName x) = some (kwRule x))
    (hn1 : kwRuleName x ≠ "SOI") (hn2 : kwRuleName x ≠ "EOI") (hcl : charClass (kwRuleName x) = none)
    (c : Ctx) (s : List Char) : Ev g c (.ident (kwRuleName x)) s 7 (kwMatch x s) := by
  refine Ev.rule hn1 hn2 hcl hr ?_ (Nat.lt_succ_self 6)
  have hc : (bodyCtx c (kwRule x)).atom = .atomic := rfl
  exact Ev.seq_bind hc (Ev.str _ _ _ _) (fun r _ => Ev.neg (ev_nameContE g _ r) (Nat.lt_succ_self 3))
    (by omega) (by omega)

def kwRes (x : List Char) (p : Nat) (s : List Char) : Res :=
  match kwMatch x s with
  | some r => .ok (p + x.length) r []
  | none => .fail

theorem kwMatch_str {x s r : List Char} (h : kwMatch x s = some r) : matchStr x s = some r := by
  unfold kwMatch at h
  cases hm : matchStr x s with
  | none => simp [hm, bindE] at h
  | some t =>
    simp only [hm, bindE] at h
    cases hc : classStep pestNameCont t with
    | none => simp [hc, negOut] at h; rw [h]
    | some y => simp [hc, negOut] at h

/-- `&kw_x ~ "x"` where sequences skip (non-atomic context), at the start of a token -/
theorem ev_kwLit_skip {g : Grammar} (G : TokRules g) (x : List Char)
    (hr : findRule g (kwRuleName x) = some (kwRule x))
    (hn1 : kwRuleName x ≠ "SOI") (hn2 : kwRuleName x ≠ "EOI") (hcl : charClass (kwRuleName x) = none)
    (c : Ctx) (hc : c.atom = .non) (p : Nat) (s : List Char) (hs : TokStart s) :
    EvR g c (.seq (.pos (.ident (kwRuleName x))) (.str x)) p s (2 * s.length + 19) (kwRes x p s) := by
  have hk := ev_kwRule x hr hn1 hn2 hcl { c with look := true } s
  unfold kwRes
  cases hm : kwMatch x s with
  | none =>
    rw [hm] at hk
    exact EvR.seq_fail (EvR.pos_fail (EvR.ofEv_fail hk p) (Nat.lt_succ_self 7)) (by omega)
  | some r =>
    rw [hm] at hk
    obtain ⟨p1, ps, hk1, -⟩ := EvR.ofEv_ok hk p
    have h1 : EvR g c (.pos (.ident (kwRuleName x))) p s 8 (.ok p s []) := EvR.pos_ok hk1 (Nat.lt_succ_self 7)
    have hsk := ev_skipR G { c with atom := .atomic } rfl p s
    rw [show skipI s = s from hs] at hsk
    simp only [Nat.sub_self, Nat.add_zero] at hsk
    have h3 : EvR g c (.str x) p s 1 (.ok (p + x.length) r []) := EvR.str_ok (kwMatch_str hm)
    exact (EvR.seq_skip hc h1 hsk h3 (by omega) (by omega) (by omega)).cast rfl

/-- … and where they do not (atomic or compound-atomic context) -/
theorem ev_kwLit_tight {g : Grammar} (x : List Char)
    (hr : findRule g (kwRuleName x) = some (kwRule x))
    (hn1 : kwRuleName x ≠ "SOI") (hn2 : kwRuleName x ≠ "EOI") (hcl : charClass (kwRuleName x) = none)
    (c : Ctx) (hc : c.atom ≠ .non) (p : Nat) (s : List Char) :
    EvR g c (.seq (.pos (.ident (kwRuleName x))) (.str x)) p s 10 (kwRes x p s) := by
  have hk := ev_kwRule x hr hn1 hn2 hcl { c with look := true } s
  unfold kwRes
  cases hm : kwMatch x s with
  | none =>
    rw [hm] at hk
    exact EvR.seq_fail (EvR.pos_fail (EvR.ofEv_fail hk p) (Nat.lt_succ_self 7)) (by omega)
  | some r =>
    rw [hm] at hk
    obtain ⟨p1, ps, hk1, -⟩ := EvR.ofEv_ok hk p
    have h1 : EvR g c (.pos (.ident (kwRuleName x))) p s 8 (.ok p s []) := EvR.pos_ok hk1 (Nat.lt_succ_self 7)
    have h3 : EvR g c (.str x) p s 1 (.ok (p + x.length) r []) := EvR.str_ok (kwMatch_str hm)
    exact (EvR.seq_tight hc h1 h3 (by omega) (by omega)).cast rfl

theorem matchStr_self_append (l r : List Char) : matchStr l (l ++ r) = some r := by
  induction l with
  | nil => rfl
  | cons a l ih => simp [matchStr, ih]

theorem matchStr_iff (l s r : List Char) : matchStr l s = some r ↔ s = l ++ r :=
  ⟨matchStr_append l s r, fun h => h ▸ matchStr_self_append l r⟩

theorem takeWhile_all_append (pr : Char → Bool) (xs r : List Char) (hall : ∀ c ∈ xs, pr c = true) :
    (xs ++ r).takeWhile pr = xs ++ r.takeWhile pr ∧ (xs ++ r).dropWhile pr = r.dropWhile pr := by
  induction xs with
  | nil => exact ⟨rfl, rfl⟩
  | cons a t ih =>
    have ha := hall a (by simp)
    have := ih (fun c hc => hall c (by simp [hc]))
    simp [List.takeWhile_cons, List.dropWhile_cons, ha, this.1, this.2]

theorem classStep_none_iff (pr : Char → Bool) (r : List Char) :
    classStep pr r = none ↔ r.takeWhile pr = [] := by
  cases r with
  | nil => simp [classStep]
  | cons d t => simp only [classStep, List.takeWhile_cons]; split <;> simp_all

/-- a keyword literal with its guard matches exactly when the next token is that Name -/
theorem kwMatch_nameTok (x0 : Char) (xs : List Char) (h0 : pestNameStart x0 = true)
    (hall : ∀ c ∈ xs, pestNameCont c = true) (s : List Char) :
    kwMatch (x0 :: xs) s = (match nameTok s with
      | some (n, rest) => if n = x0 :: xs then some rest else none
      | none => none) := by
  cases s with
  | nil => rfl
  | cons ch r =>
    simp only [kwMatch, matchStr, nameTok]
    by_cases he : x0 = ch
    · subst he
      simp only [if_true, h0, List.cons.injEq, true_and]
      cases hm : matchStr xs r with
      | none =>
        simp only [bindE]
        split
        · rename_i ht
          have : r = xs ++ r.dropWhile pestNameCont := by
            conv => lhs; rw [← List.takeWhile_append_dropWhile (p := pestNameCont) (l := r)]
            rw [ht]
          rw [(matchStr_iff _ _ _).2 this] at hm; cases hm
        · rfl
      | some r' =>
        have hr := (matchStr_iff _ _ _).1 hm
        subst hr
        obtain ⟨t1, t2⟩ := takeWhile_all_append pestNameCont xs r' hall
        simp only [bindE, t1, t2]
        cases hc : classStep pestNameCont r' with
        | none =>
          have := (classStep_none_iff _ _).1 hc
          have hd : r'.dropWhile pestNameCont = r' := by
            conv => rhs; rw [← List.takeWhile_append_dropWhile (p := pestNameCont) (l := r'), this]
            rfl
          simp [negOut, this, hd]
        | some y =>
          have : r'.takeWhile pestNameCont ≠ [] := fun e => by
            rw [(classStep_none_iff _ _).2 e] at hc; cases hc
          simp [negOut, this]
    · have : ¬ (ch = x0) := fun e => he e.symm
      simp only [he, if_false, bindE]
      by_cases hp : pestNameStart ch = true
      · simp [hp, this]
      · simp [hp]

/-- the next token is the Name `x`: what follows it -/
def kwTok (x : List Char) (s : List Char) : Option (List Char) :=
  match lexToken s with
  | some (.name n, rest) => if n = x then some rest else none
  | _ => none

theorem kwMatch_lex (x0 : Char) (xs : List Char) (h0 : pestNameStart x0 = true)
    (hall : ∀ c ∈ xs, pestNameCont c = true) (s : List Char) :
    kwMatch (x0 :: xs) s = kwTok (x0 :: xs) s := by
  rw [kwMatch_nameTok x0 xs h0 hall, nameTok_lex, kwTok]
  cases lexToken s with
  | none => rfl
  | some x => obtain ⟨tok, rest⟩ := x; cases tok <;> rfl

-- ------------------------------------------------------------------ `number`, exactly

theorem emits_atomic (c : Ctx) (h : c.atom = .atomic) : emits c = false := by
  simp [emits, h]; intro _; decide

theorem EvR.ident_body {g c n r p s N res} (h1 : n ≠ "SOI") (h2 : n ≠ "EOI") (hp : charClass n = none)
    (hr : findRule g n = some r) (hres : res ≠ .oof) (hq : emits c = false)
    (h : EvR g c (.ident n) p s (N + 1) res) : EvR g (bodyCtx c r) r.expr p s N res := by
  intro f hf
  have := h (f + 1) (by omega)
  simp only [eval, h1, h2, if_false, hp, hr] at this
  cases he : eval g f (bodyCtx c r) r.expr p s with
  | oof => rw [he] at this; exact absurd this.symm hres
  | fail => rw [he] at this; exact this
  | ok p1 s1 ps =>
    rw [he] at this
    simp only [hq, Bool.false_eq_true, if_false] at this
    split at this <;> exact this

def numberRuleP : Rule :=
  ⟨"number", .atomic, .seq (.choice (.ident "float") (.ident "int")) (.neg followPatched)⟩

def numNames : List String := ["number", "float", "int", "fractional", "exponent", "name_start"]

theorem numQuiet {g : Grammar} (G : NumRules g) (hnum : findRule g "number" = some numberRuleP) :
    quietB g numNames = true := by
  simp only [quietB, numNames, List.all_cons, List.all_nil, G.int, G.float, G.frac, G.exp, G.nameStart, hnum]
  decide

def numberRes (c : Ctx) (p : Nat) (s : List Char) : Res :=
  match lexNumber s with
  | some (_, rest) =>
    .ok (p + (s.length - rest.length)) rest
      (if emits c then [Pair.mk "number" p (p + (s.length - rest.length)) []] else [])
  | none => .fail

/-- the repaired `number` rule reads exactly the specification's IntValue/FloatValue token; one
    pair without inner pairs -/
theorem ev_numberR {g : Grammar} (G : NumRules g) (hnum : findRule g "number" = some numberRuleP)
    (c : Ctx) (p : Nat) (s : List Char) :
    EvR g c (.ident "number") p s (s.length + 21) (numberRes c p s) := by
  have hev := ev_number G followPatched followPatchedSpec hnum (fun c r => ev_followPatched G c r)
    { c with atom := .atomic } s
  rw [numberSpec_eq_lex] at hev
  have hbc : bodyCtx { c with atom := .atomic } numberRuleP = bodyCtx c numberRuleP := rfl
  unfold numberRes
  cases hl : lexNumber s with
  | none =>
    rw [hl] at hev
    have h1 : EvR g { c with atom := .atomic } (.ident "number") p s (s.length + 19 + 1) .fail :=
      EvR.ofEv_fail hev p
    have hb := EvR.ident_body (by decide) (by decide) (by rfl) hnum (by simp) (emits_atomic _ rfl) h1
    rw [hbc] at hb
    exact (EvR.rule (by decide) (by decide) (by rfl) hnum hb (by omega)).cast rfl
  | some x =>
    obtain ⟨t, rest⟩ := x
    rw [hl] at hev
    have h1 : EvR g { c with atom := .atomic } (.ident "number") p s (s.length + 19 + 1)
        (.ok (p + (s.length - rest.length)) rest []) :=
      EvR.ofEv_quiet numNames (numQuiet G hnum) rfl (by decide) hev p
    have hb := EvR.ident_body (by decide) (by decide) (by rfl) hnum (by simp) (emits_atomic _ rfl) h1
    rw [hbc] at hb
    refine (EvR.rule (by decide) (by decide) (by rfl) hnum hb (by omega)).cast ?_
    simp only [wrapRule, numberRuleP]
    have hs : (RuleTy.atomic = RuleTy.silent) = False := by decide
    simp only [hs, if_false]
    cases emits c <;> rfl
