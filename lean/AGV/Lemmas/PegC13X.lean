/-
  Exact evaluation of the pest interpreter `Model/Peg.lean` (property C13), positions and pairs
  included: `EvR g c e p s N r` — at every fuel ≥ `N`, `e` at position `p` on input `s` in context
  `c` evaluates to `r` — with composition lemmas for every construct (implicit skipping in
  non-atomic contexts included) and the generic fact that a match consumes a prefix of the input
  and advances the position by its length (`eval_consumes`).
-/
import AGV.Lemmas.PegMono
import AGV.Lemmas.PegC13
namespace AGV.Lemmas.PegX
open AGV.Model.Peg AGV.Lemmas.PegMono

-- ------------------------------------------------------------------ a match consumes a prefix

/-- from `(p, s)` to `(p', s')`: a prefix of `s` was consumed and `p` advanced by its length -/
def Consumes (p : Nat) (s : List Char) (p' : Nat) (s' : List Char) : Prop :=
  ∃ pre, s = pre ++ s' ∧ p' = p + pre.length

theorem Consumes.refl (p s) : Consumes p s p s := ⟨[], rfl, rfl⟩

theorem Consumes.trans {p s p1 s1 p2 s2} (h1 : Consumes p s p1 s1) (h2 : Consumes p1 s1 p2 s2) :
    Consumes p s p2 s2 := by
  obtain ⟨a, rfl, rfl⟩ := h1
  obtain ⟨b, rfl, rfl⟩ := h2
  exact ⟨a ++ b, by simp, by simp; omega⟩

theorem Consumes.len {p s p' s'} (h : Consumes p s p' s') : s'.length ≤ s.length ∧ p' + s'.length = p + s.length := by
  obtain ⟨a, rfl, rfl⟩ := h
  simp; omega

theorem matchStr_append (l s r : List Char) (h : matchStr l s = some r) : s = l ++ r := by
  induction l generalizing s with
  | nil => simp [matchStr] at h; simp [h]
  | cons a l ih =>
    cases s with
    | nil => simp [matchStr] at h
    | cons b s =>
      simp only [matchStr] at h
      split at h
      · rename_i hab; subst hab; simp [ih s h]
      · cases h

theorem matchInsens_append (l s r : List Char) (h : matchInsens l s = some r) :
    ∃ pre, s = pre ++ r ∧ pre.length = l.length := by
  induction l generalizing s with
  | nil => simp [matchInsens] at h; exact ⟨[], by simp [h], rfl⟩
  | cons a l ih =>
    cases s with
    | nil => simp [matchInsens] at h
    | cons b s =>
      simp only [matchInsens] at h
      split at h
      · obtain ⟨pre, h1, h2⟩ := ih s h
        exact ⟨b :: pre, by simp [h1], by simp [h2]⟩
      · cases h

theorem eval_consumes_step (g : Grammar) (f : Nat)
    (ih : ∀ c e p s p' s' ps, eval g f c e p s = .ok p' s' ps → Consumes p s p' s') :
    ∀ c e p s p' s' ps, eval g (f + 1) c e p s = .ok p' s' ps → Consumes p s p' s' := by
  intro c e p s p' s' ps h
  have one : ∀ (ch : Char) (r : List Char), Consumes p (ch :: r) (p + 1) r := fun ch r => ⟨[ch], rfl, rfl⟩
  have skipC : ∀ p1 s1 p2 s2 ps2,
      (if c.atom = .non then eval g f { c with atom := .atomic } skipExpr p1 s1 else .ok p1 s1 []) = .ok p2 s2 ps2 →
      Consumes p1 s1 p2 s2 := by
    intro p1 s1 p2 s2 ps2 hs
    split at hs
    · exact ih _ _ _ _ _ _ _ hs
    · cases hs; exact .refl _ _
  cases e with
  | str l =>
    simp only [eval] at h; split at h <;> cases h
    rename_i r hr; exact ⟨l, matchStr_append _ _ _ hr, rfl⟩
  | insens l =>
    simp only [eval] at h; split at h <;> cases h
    rename_i r hr
    obtain ⟨pre, h1, h2⟩ := matchInsens_append _ _ _ hr
    exact ⟨pre, h1, by rw [h2]⟩
  | range lo hi =>
    simp only [eval] at h
    cases s with
    | nil => cases h
    | cons ch r => simp only [] at h; split at h <;> cases h; exact one _ _
  | neg a => simp only [eval] at h; split at h <;> cases h; exact .refl _ _
  | pos a =>
    simp only [eval] at h; split at h
    · cases h; exact .refl _ _
    · rename_i hx; exact (hx _ _ _ h).elim
  | choice a b =>
    simp only [eval] at h; split at h
    · exact ih _ _ _ _ _ _ _ h
    · exact ih _ _ _ _ _ _ _ h
  | opt a =>
    simp only [eval] at h; split at h
    · cases h; exact .refl _ _
    · exact ih _ _ _ _ _ _ _ h
  | repN n a =>
    simp only [eval] at h; split at h
    · cases h; exact .refl _ _
    · exact ih _ _ _ _ _ _ _ h
    · exact ih _ _ _ _ _ _ _ h
  | seq a b =>
    simp only [eval] at h
    split at h
    · rename_i h1
      split at h
      · rename_i h2
        split at h
        · rename_i h3; cases h
          exact ((ih _ _ _ _ _ _ _ h1).trans (skipC _ _ _ _ _ h2)).trans (ih _ _ _ _ _ _ _ h3)
        · rename_i hx; exact (hx _ _ _ h).elim
      · rename_i hx; exact (hx _ _ _ h).elim
    · rename_i hx; exact (hx _ _ _ h).elim
  | rep a =>
    simp only [eval] at h
    split at h
    · rename_i h1
      split at h
      · rename_i h2; cases h; exact (ih _ _ _ _ _ _ _ h1).trans (ih _ _ _ _ _ _ _ h2)
      · rename_i hx; exact (hx _ _ _ h).elim
    · cases h; exact .refl _ _
    · cases h
  | rep1 a =>
    simp only [eval] at h
    split at h
    · rename_i h1
      split at h
      · rename_i h2; cases h; exact (ih _ _ _ _ _ _ _ h1).trans (ih _ _ _ _ _ _ _ h2)
      · rename_i hx; exact (hx _ _ _ h).elim
    · rename_i hx; exact (hx _ _ _ h).elim
  | repTail a =>
    simp only [eval] at h
    split at h
    · rename_i h1
      split at h
      · rename_i h2
        split at h
        · rename_i h3; cases h
          exact ((skipC _ _ _ _ _ h1).trans (ih _ _ _ _ _ _ _ h2)).trans (ih _ _ _ _ _ _ _ h3)
        · rename_i hx; exact (hx _ _ _ h).elim
      · cases h; exact .refl _ _
      · cases h
    · rename_i hx; exact (hx _ _ _ h).elim
  | ident n =>
    simp only [eval] at h
    split at h
    · split at h <;> cases h; exact .refl _ _
    · split at h
      · cases s with
        | cons ch r => cases h
        | nil => simp only [] at h; cases h; exact .refl _ _
      · split at h
        · cases s with
          | nil => cases h
          | cons ch r => simp only [] at h; split at h <;> cases h; exact one _ _
        · split at h
          · cases h
          · split at h
            · rename_i hb
              have c0 := ih _ _ _ _ _ _ _ hb
              split at h
              · cases h; exact c0
              · split at h <;> cases h <;> exact c0
            · rename_i hx; exact (hx _ _ _ h).elim

/-- a successful match consumes a prefix of the input and advances the position by its length -/
theorem eval_consumes (g : Grammar) : ∀ f c e p s p' s' ps,
    eval g f c e p s = .ok p' s' ps → Consumes p s p' s' := by
  intro f
  induction f with
  | zero => intro c e p s p' s' ps h; simp [eval] at h
  | succ f ih => exact eval_consumes_step g f ih

-- ------------------------------------------------------------------ exact evaluation

/-- at every fuel ≥ `N`, `e` at `(p, s)` in context `c` evaluates to `r` -/
def EvR (g : Grammar) (c : Ctx) (e : Expr) (p : Nat) (s : List Char) (N : Nat) (r : Res) : Prop :=
  ∀ f, N ≤ f → eval g f c e p s = r

theorem EvR.mono {g c e p s N M r} (h : EvR g c e p s N r) (hNM : N ≤ M) : EvR g c e p s M r :=
  fun f hf => h f (Nat.le_trans hNM hf)

theorem EvR.cast {g c e p s N r r'} (h : EvR g c e p s N r) (e' : r = r') : EvR g c e p s N r' := e' ▸ h

/-- one evaluation that is not cut off fixes the result at every larger fuel -/
theorem EvR.of_eval {g c e p s N r} (h : eval g N c e p s = r) (hr : r ≠ .oof) : EvR g c e p s N r :=
  fun f hf => by rw [eval_mono g hf c e p s (by rw [h]; exact hr), h]

theorem EvR.consumes {g c e p s N p' s' ps} (h : EvR g c e p s N (.ok p' s' ps)) : Consumes p s p' s' :=
  eval_consumes g N c e p s p' s' ps (h N (Nat.le_refl N))

/-- the two results an `EvR` statement can have at two fuels agree -/
theorem EvR.unique {g c e p s N M r r'} (h : EvR g c e p s N r) (h' : EvR g c e p s M r') : r = r' := by
  rw [← h (max N M) (Nat.le_max_left _ _), ← h' (max N M) (Nat.le_max_right _ _)]

/-- pairs emitted earlier in a sequence come first -/
def prepend (ps1 : List Pair) : Res → Res
  | .ok p s ps => .ok p s (ps1 ++ ps)
  | x => x

@[simp] theorem prepend_ok (ps1 p s ps) : prepend ps1 (.ok p s ps) = .ok p s (ps1 ++ ps) := rfl
@[simp] theorem prepend_fail (ps1) : prepend ps1 .fail = .fail := rfl

def strRes (l : List Char) (p : Nat) (s : List Char) : Res :=
  match matchStr l s with | some r => .ok (p + l.length) r [] | none => .fail

def clsRes (pred : Char → Bool) (p : Nat) (s : List Char) : Res :=
  match s with | ch :: r => if pred ch then .ok (p + 1) r [] else .fail | [] => .fail

private theorem succ_of_lt {N K f : Nat} (hN : N < K) (hf : K ≤ f) : ∃ k, f = k + 1 ∧ N ≤ k :=
  ⟨f - 1, by omega, by omega⟩

theorem EvR.str (g c l p s) :
    EvR g c (.str l) p s 1 (strRes l p s) := by
  intro f hf
  obtain ⟨f, rfl⟩ : ∃ k, f = k + 1 := ⟨f - 1, by omega⟩
  simp only [eval, strRes]
  cases matchStr l s <;> rfl

theorem EvR.str_ok {g c l p s r} (h : matchStr l s = some r) : EvR g c (.str l) p s 1 (.ok (p + l.length) r []) :=
  (EvR.str g c l p s).cast (by simp only [strRes, h])

theorem EvR.str_fail {g c l p s} (h : matchStr l s = none) : EvR g c (.str l) p s 1 .fail :=
  (EvR.str g c l p s).cast (by simp only [strRes, h])

theorem EvR.cls {g c n pred p s} (h1 : n ≠ "SOI") (h2 : n ≠ "EOI") (hp : charClass n = some pred) :
    EvR g c (.ident n) p s 1
      (clsRes pred p s) := by
  intro f hf
  obtain ⟨f, rfl⟩ : ∃ k, f = k + 1 := ⟨f - 1, by omega⟩
  simp only [eval, h1, h2, if_false, hp, clsRes]
  cases s <;> rfl

/-- sequence where no implicit skipping happens (atomic or compound-atomic context) -/
theorem EvR.seq_tight {g c a b p s N M K p1 s1 ps1 r} (hc : c.atom ≠ .non)
    (ha : EvR g c a p s N (.ok p1 s1 ps1)) (hb : EvR g c b p1 s1 M r) (hN : N < K) (hM : M < K) :
    EvR g c (.seq a b) p s K (prepend ps1 r) := by
  intro f hf
  obtain ⟨f, rfl, hNf⟩ := succ_of_lt hN hf
  simp only [eval, ha f hNf, hc, if_false, hb f (by omega)]
  cases r <;> rfl

/-- sequence in a non-atomic context: `a ~ skip ~ b` -/
theorem EvR.seq_skip {g c a b p s N M L K p1 s1 ps1 p2 s2 psk r} (hc : c.atom = .non)
    (ha : EvR g c a p s N (.ok p1 s1 ps1))
    (hs : EvR g { c with atom := .atomic } skipExpr p1 s1 L (.ok p2 s2 psk))
    (hb : EvR g c b p2 s2 M r) (hN : N < K) (hL : L < K) (hM : M < K) :
    EvR g c (.seq a b) p s K (prepend ps1 r) := by
  intro f hf
  obtain ⟨f, rfl, hNf⟩ := succ_of_lt hN hf
  simp only [eval, ha f hNf, hc, if_true, hs f (by omega), hb f (by omega)]
  cases r <;> rfl

theorem EvR.seq_fail {g c a b p s N K} (ha : EvR g c a p s N .fail) (hN : N < K) :
    EvR g c (.seq a b) p s K .fail := by
  intro f hf
  obtain ⟨f, rfl, hNf⟩ := succ_of_lt hN hf
  simp only [eval, ha f hNf]

theorem EvR.choice_l {g c a b p s N K p1 s1 ps1} (ha : EvR g c a p s N (.ok p1 s1 ps1)) (hN : N < K) :
    EvR g c (.choice a b) p s K (.ok p1 s1 ps1) := by
  intro f hf
  obtain ⟨f, rfl, hNf⟩ := succ_of_lt hN hf
  simp only [eval, ha f hNf]

theorem EvR.choice_r {g c a b p s N M K r} (ha : EvR g c a p s N .fail) (hb : EvR g c b p s M r)
    (hN : N < K) (hM : M < K) : EvR g c (.choice a b) p s K r := by
  intro f hf
  obtain ⟨f, rfl, hNf⟩ := succ_of_lt hN hf
  simp only [eval, ha f hNf, hb f (by omega)]

theorem EvR.opt_ok {g c a p s N K p1 s1 ps1} (ha : EvR g c a p s N (.ok p1 s1 ps1)) (hN : N < K) :
    EvR g c (.opt a) p s K (.ok p1 s1 ps1) := by
  intro f hf
  obtain ⟨f, rfl, hNf⟩ := succ_of_lt hN hf
  simp only [eval, ha f hNf]

theorem EvR.opt_fail {g c a p s N K} (ha : EvR g c a p s N .fail) (hN : N < K) :
    EvR g c (.opt a) p s K (.ok p s []) := by
  intro f hf
  obtain ⟨f, rfl, hNf⟩ := succ_of_lt hN hf
  simp only [eval, ha f hNf]

theorem EvR.neg_ok {g c a p s N K p1 s1 ps1} (ha : EvR g { c with look := true } a p s N (.ok p1 s1 ps1))
    (hN : N < K) : EvR g c (.neg a) p s K .fail := by
  intro f hf
  obtain ⟨f, rfl, hNf⟩ := succ_of_lt hN hf
  simp only [eval, ha f hNf]

theorem EvR.neg_fail {g c a p s N K} (ha : EvR g { c with look := true } a p s N .fail) (hN : N < K) :
    EvR g c (.neg a) p s K (.ok p s []) := by
  intro f hf
  obtain ⟨f, rfl, hNf⟩ := succ_of_lt hN hf
  simp only [eval, ha f hNf]

theorem EvR.pos_ok {g c a p s N K p1 s1 ps1} (ha : EvR g { c with look := true } a p s N (.ok p1 s1 ps1))
    (hN : N < K) : EvR g c (.pos a) p s K (.ok p s []) := by
  intro f hf
  obtain ⟨f, rfl, hNf⟩ := succ_of_lt hN hf
  simp only [eval, ha f hNf]

theorem EvR.pos_fail {g c a p s N K} (ha : EvR g { c with look := true } a p s N .fail) (hN : N < K) :
    EvR g c (.pos a) p s K .fail := by
  intro f hf
  obtain ⟨f, rfl, hNf⟩ := succ_of_lt hN hf
  simp only [eval, ha f hNf]

/-- what a rule call returns, given what its body returned -/
def wrapRule (c : Ctx) (n : String) (ty : RuleTy) (p : Nat) : Res → Res
  | .ok p1 s1 ps =>
    if ty = .silent then .ok p1 s1 ps
    else if emits c then .ok p1 s1 [Pair.mk n p p1 ps]
    else .ok p1 s1 ps
  | x => x

theorem EvR.rule {g c n r p s N K res} (h1 : n ≠ "SOI") (h2 : n ≠ "EOI") (hp : charClass n = none)
    (hr : findRule g n = some r) (hb : EvR g (bodyCtx c r) r.expr p s N res) (hN : N < K) :
    EvR g c (.ident n) p s K (wrapRule c n r.ty p res) := by
  intro f hf
  obtain ⟨f, rfl, hNf⟩ := succ_of_lt hN hf
  simp only [eval, h1, h2, if_false, hp, hr, hb f hNf]
  cases res <;> rfl

theorem EvR.soi {g c p s} : EvR g c (.ident "SOI") p s 1 (if p = 0 then .ok p s [] else .fail) := by
  intro f hf
  obtain ⟨f, rfl⟩ : ∃ k, f = k + 1 := ⟨f - 1, by omega⟩
  simp only [eval, if_true]

def eoiRes (c : Ctx) (p : Nat) (s : List Char) : Res :=
  match s with | [] => .ok p s (if emits c then [Pair.mk "EOI" p p []] else []) | _ :: _ => .fail

theorem EvR.eoi {g c p s} : EvR g c (.ident "EOI") p s 1 (eoiRes c p s) := by
  intro f hf
  obtain ⟨f, rfl⟩ : ∃ k, f = k + 1 := ⟨f - 1, by omega⟩
  have : ("EOI" = "SOI") = False := by decide
  simp only [eval, this, if_false, if_true, eoiRes]
  cases s <;> rfl

-- repetition, one unfolding at a time (the induction is done where the element is known)

theorem EvR.rep_fail {g c a p s N K} (ha : EvR g c a p s N .fail) (hN : N < K) :
    EvR g c (.rep a) p s K (.ok p s []) := by
  intro f hf
  obtain ⟨f, rfl, hNf⟩ := succ_of_lt hN hf
  simp only [eval, ha f hNf]

theorem EvR.rep_ok {g c a p s N M K p1 s1 ps1 r} (ha : EvR g c a p s N (.ok p1 s1 ps1))
    (ht : EvR g c (.repTail a) p1 s1 M r) (hN : N < K) (hM : M < K) :
    EvR g c (.rep a) p s K (prepend ps1 r) := by
  intro f hf
  obtain ⟨f, rfl, hNf⟩ := succ_of_lt hN hf
  simp only [eval, ha f hNf, ht f (by omega)]
  cases r <;> rfl

theorem EvR.rep1_fail {g c a p s N K} (ha : EvR g c a p s N .fail) (hN : N < K) :
    EvR g c (.rep1 a) p s K .fail := by
  intro f hf
  obtain ⟨f, rfl, hNf⟩ := succ_of_lt hN hf
  simp only [eval, ha f hNf]

theorem EvR.rep1_ok {g c a p s N M K p1 s1 ps1 r} (ha : EvR g c a p s N (.ok p1 s1 ps1))
    (ht : EvR g c (.repTail a) p1 s1 M r) (hN : N < K) (hM : M < K) :
    EvR g c (.rep1 a) p s K (prepend ps1 r) := by
  intro f hf
  obtain ⟨f, rfl, hNf⟩ := succ_of_lt hN hf
  simp only [eval, ha f hNf, ht f (by omega)]
  cases r <;> rfl

/-- `repTail` where no skipping happens -/
theorem EvR.tail_tight_fail {g c a p s N K} (hc : c.atom ≠ .non) (ha : EvR g c a p s N .fail) (hN : N < K) :
    EvR g c (.repTail a) p s K (.ok p s []) := by
  intro f hf
  obtain ⟨f, rfl, hNf⟩ := succ_of_lt hN hf
  simp only [eval, hc, if_false, ha f hNf]

theorem EvR.tail_tight_ok {g c a p s N M K p1 s1 ps1 r} (hc : c.atom ≠ .non)
    (ha : EvR g c a p s N (.ok p1 s1 ps1)) (ht : EvR g c (.repTail a) p1 s1 M r) (hN : N < K) (hM : M < K) :
    EvR g c (.repTail a) p s K (prepend ps1 r) := by
  intro f hf
  obtain ⟨f, rfl, hNf⟩ := succ_of_lt hN hf
  simp only [eval, hc, if_false, ha f hNf, ht f (by omega)]
  cases r <;> rfl

/-- `repTail` in a non-atomic context: skip, then the element; nothing is consumed if it fails -/
theorem EvR.tail_skip_fail {g c a p s L N K p1 s1 psk} (hc : c.atom = .non)
    (hs : EvR g { c with atom := .atomic } skipExpr p s L (.ok p1 s1 psk))
    (ha : EvR g c a p1 s1 N .fail) (hL : L < K) (hN : N < K) :
    EvR g c (.repTail a) p s K (.ok p s []) := by
  intro f hf
  obtain ⟨f, rfl, hNf⟩ := succ_of_lt hN hf
  simp only [eval, hc, if_true, hs f (by omega), ha f hNf]

theorem EvR.tail_skip_ok {g c a p s L N M K p1 s1 psk p2 s2 ps2 r} (hc : c.atom = .non)
    (hs : EvR g { c with atom := .atomic } skipExpr p s L (.ok p1 s1 psk))
    (ha : EvR g c a p1 s1 N (.ok p2 s2 ps2)) (ht : EvR g c (.repTail a) p2 s2 M r)
    (hL : L < K) (hN : N < K) (hM : M < K) :
    EvR g c (.repTail a) p s K (prepend ps2 r) := by
  intro f hf
  obtain ⟨f, rfl, hNf⟩ := succ_of_lt hN hf
  simp only [eval, hc, if_true, hs f (by omega), ha f hNf, ht f (by omega)]
  cases r <;> rfl

/-- the position-forgetting `Ev` of `Lemmas/PegC13.lean` is a consequence -/
theorem EvR.toEv {g c e s N X} (h : ∀ p, ∃ r, EvR g c e p s N r ∧ AGV.Lemmas.PegC13.out r = some X) :
    AGV.Lemmas.PegC13.Ev g c e s N X := by
  intro f hf p
  obtain ⟨r, hr, ho⟩ := h p
  rw [hr f hf]; exact ho

/-- … and conversely an `Ev` fact fixes the shape of the exact result -/
theorem EvR.ofEv_ok {g c e s N s1} (h : AGV.Lemmas.PegC13.Ev g c e s N (some s1)) (p : Nat) :
    ∃ p1 ps, EvR g c e p s N (.ok p1 s1 ps) ∧ Consumes p s p1 s1 := by
  obtain ⟨p1, ps, h1⟩ := AGV.Lemmas.PegC13.out_ok (h N (Nat.le_refl N) p)
  have hr : EvR g c e p s N (.ok p1 s1 ps) := EvR.of_eval h1 (by simp)
  exact ⟨p1, ps, hr, hr.consumes⟩

theorem EvR.ofEv_fail {g c e s N} (h : AGV.Lemmas.PegC13.Ev g c e s N none) (p : Nat) :
    EvR g c e p s N .fail :=
  fun f hf => AGV.Lemmas.PegC13.out_fail (h f hf p)
end AGV.Lemmas.PegX
