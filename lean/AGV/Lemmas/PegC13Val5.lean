/-
  Property C13: object literals — one field (`name ":" value`), the chain of fields against the
  specification's `fields` loop, the tree builder's collection into an `IndexMap`.
-/
import AGV.Lemmas.PegC13Val4
namespace AGV.Lemmas.PegX
open AGV.Model.Peg AGV.Model.BuildAst AGV.Spec.Lex AGV.Spec.Parse AGV.Core.PAst AGV.Lemmas.PegC13 AGV.Lemmas.SpecVal

/-- `ObjectField[Const] :: Name : Value[Const]` on tokens -/
def pField (c : Bool) (ts : List Tok) : Option ((Name × PValue) × List Tok) :=
  match ts with
  | .name n :: .punct ':' :: r => (pV P' c r).map (fun x => ((n, x.1), x.2))
  | _ => none

theorem pField_nc (c : Bool) (n : List Char) (r : List Tok) :
    pField c (.name n :: .punct ':' :: r) = (pV P' c r).map (fun x => ((n, x.1), x.2)) := by simp [pField]

theorem pField_none1 (c : Bool) (ts : List Tok) (h : ∀ n r, ts ≠ .name n :: r) : pField c ts = none := by
  unfold pField; split
  · rename_i n r; exact absurd rfl (h n _)
  · rfl

theorem pField_none2 (c : Bool) (n : List Char) (ts : List Tok) (h : ∀ r, ts ≠ .punct ':' :: r) :
    pField c (.name n :: ts) = none := by
  unfold pField; split
  · rename_i n' r e; cases e; exact absurd rfl (h r)
  · rfl

theorem fieldsV_pField (c : Bool) (ts : List Tok) (h : ∀ r, ts ≠ .punct '}' :: r) :
    fieldsV P' c ts = (pField c ts).bind (fun x => (fieldsV P' c x.2).map (fun y => (x.1 :: y.1, y.2))) := by
  by_cases hn : ∃ n r, ts = .name n :: .punct ':' :: r
  · obtain ⟨n, r, rfl⟩ := hn
    rw [fieldsV_elem, pField_nc]
    cases pV P' c r <;> rfl
  · rw [fieldsV_other P' c ts h (fun n r e => hn ⟨n, r, e⟩)]
    have : pField c ts = none := by
      unfold pField; split
      · rename_i n r; exact absurd ⟨n, r, rfl⟩ hn
      · rfl
    rw [this]; rfl

theorem pField_rbrace (c : Bool) (r : List Tok) : pField c (.punct '}' :: r) = none := by simp [pField]

/-- what `parse_value` does with one field pair -/
def fieldBuild (env : Env) (bf : Nat) (fp : Pair) : Except PErr (Name × PValue) :=
  match fp.inner with
  | n :: v :: _ => (buildValue env bf v).map (fun x => (env.asStr n, x))
  | _ => .error bug

def BuildsF (s₀ : List Char) (pr : Pair) (n : Name) (v : PValue) : Prop :=
  ∀ bf, s₀.length - pr.start < bf → fieldBuild (envOf s₀) bf pr = (expV v).map (fun x => (n, x))

def GoodF (F : ValFam) (s₀ : List Char) (q : Nat) (t : List Char) (r : Res) : Prop :=
  match pField F.const (toks t) with
  | some ((n, v), ts') =>
    ∃ s' pr, r = .ok (q + (t.length - s'.length)) s' [pr] ∧ toks s' = ts' ∧ s'.length < t.length ∧
      (∃ mid, t = mid ++ s') ∧ pr.start = q ∧ BuildsF s₀ pr n v
  | none => r = .fail

def GoodFC (F : ValFam) (q : Nat) (t : List Char) (r : Res) : Prop := ∀ s₀, At s₀ q t → GoodF F s₀ q t r

theorem closeTok_some {y : Char} {ts r : List Tok} (h : closeTok y ts = some r) : ts = .punct y :: r := by
  unfold closeTok at h
  split at h
  · split at h
    · rename_i e; cases h; rw [e]
    · cases h
  · cases h

theorem toks_punct_of {y : Char} (hy : isPunct y = true) {u r2 : List Char} (hu : TokStart u)
    (h : punctTok y u = some r2) : toks u = .punct y :: toks r2 := by
  have := closeTok_toks y hy u hu
  rw [h] at this
  exact closeTok_some this

theorem toks_not_punct {y : Char} (hy : isPunct y = true) {u : List Char} (hu : TokStart u)
    (h : punctTok y u = none) : ∀ r, toks u ≠ .punct y :: r := by
  intro r e
  have := closeTok_toks y hy u hu
  rw [h, e, closeTok_self] at this
  cases this

theorem toks_name_of {u n r1 : List Char} (hu : TokStart u) (h : nameTok u = some (n, r1)) :
    toks u = .name n :: toks r1 := by
  rcases toks_head u hu with ⟨rfl, _⟩ | ⟨-, hl, _⟩ | ⟨tok, rest, hl, ht, -⟩
  · simp [nameTok] at h
  · rw [nameTok_lex, hl] at h; cases h
  · rw [nameTok_lex, hl] at h
    cases tok <;> simp at h
    obtain ⟨rfl, rfl⟩ := h
    exact ht

theorem toks_not_name {u : List Char} (hu : TokStart u) (h : nameTok u = none) : ∀ n r, toks u ≠ .name n :: r := by
  intro n r e
  rcases toks_head u hu with ⟨rfl, ht⟩ | ⟨-, hl, ht⟩ | ⟨tok, rest, hl, ht, -⟩
  · rw [ht] at e; cases e
  · rw [ht] at e; cases e
  · rw [ht] at e; cases e
    rw [nameTok_lex, hl] at h; cases h

theorem GoodF.fail {F s₀ q t r} (h : GoodF F s₀ q t r) (hp : pField F.const (toks t) = none) : r = .fail := by
  unfold GoodF at h; rw [hp] at h; exact h

theorem GoodF.ok {F s₀ q t r n v ts'} (h : GoodF F s₀ q t r) (hp : pField F.const (toks t) = some ((n, v), ts')) :
    ∃ s' pr, r = .ok (q + (t.length - s'.length)) s' [pr] ∧ toks s' = ts' ∧ s'.length < t.length ∧
      (∃ mid, t = mid ++ s') ∧ pr.start = q ∧ BuildsF s₀ pr n v := by
  unfold GoodF at h; rw [hp] at h; exact h

theorem GoodF.mk_fail {F s₀ q t} (hp : pField F.const (toks t) = none) : GoodF F s₀ q t .fail := by
  unfold GoodF; rw [hp]

/-- one field of an object literal, given the value rule on every shorter text -/
theorem field_elem_gen (F : ValFam) (fn : String) (rr : Rule) (hFr : RuleOk fn rr)
    (hre : rr.expr = .seq (.ident "name") (.seq (.str [':']) (.ident F.vName)))
    (q : Nat) (t : List Char) (ht : TokStart t)
    (IH : ∀ t' q', t'.length < t.length → TokStart t' →
      ∃ r, EvR G0 c0 (.ident F.vName) q' t' (24 * t'.length + 60) r ∧ GoodC F q' t' r) :
    ∃ r, EvR G0 c0 (.ident fn) q t (24 * t.length + 21) r ∧ GoodFC F q t r := by
  have hname := ev_nameR tokRules0 c0 q t
  rw [nameRes_tok] at hname
  cases hn : nameTok t with
  | none =>
    rw [hn] at hname
    have hb : EvR G0 c0 rr.expr q t (t.length + 9) .fail := by rw [hre]; exact EvR.seq_fail hname (Nat.lt_succ_self _)
    refine ⟨.fail, (ev_ruleOk hFr hb (Nat.lt_succ_self _)).mono (by omega), fun s₀ _ => GoodF.mk_fail ?_⟩
    exact pField_none1 _ _ (toks_not_name ht hn)
  | some x =>
    obtain ⟨n, r1⟩ := x
    rw [hn] at hname
    have hname' : EvR G0 c0 (.ident "name") q t (t.length + 8)
        (.ok (q + n.length) r1 [Pair.mk "name" q (q + n.length) []]) := hname
    obtain ⟨htxt, hnpos⟩ := nameTok_append hn
    have hl1 : r1.length < t.length := by have := congrArg List.length htxt; simp at this; omega
    have htoks := toks_name_of ht hn
    have hsl1 := skipI_len r1
    have hcolon : EvR G0 c0 (.str [':']) (skipPos (q + n.length) r1) (skipI r1) 1
        (resOf (skipPos (q + n.length) r1 + 1) (punctTok ':' (skipI r1))) := by
      intro f hf; rw [punct_spec G0 c0 ':' (by decide) _ _ f hf]
    cases hc : punctTok ':' (skipI r1) with
    | none =>
      rw [hc] at hcolon
      have hin : EvR G0 c0 (.seq (.str [':']) (.ident F.vName)) (skipPos (q + n.length) r1) (skipI r1) 2 .fail :=
        EvR.seq_fail hcolon (Nat.lt_succ_self _)
      have hb := ev_seq0 hname' hin (K := 24 * t.length + 20) (by omega) (by omega) (by omega)
      rw [← hre] at hb
      refine ⟨.fail, (ev_ruleOk hFr (r := rr) hb (Nat.lt_succ_self _)).cast rfl, fun s₀ _ => GoodF.mk_fail ?_⟩
      rw [htoks, ← toks_skipI r1]
      exact pField_none2 _ _ _ (toks_not_punct (by decide) (tokStart_skipI r1) hc)
    | some r2 =>
      rw [hc] at hcolon
      have hcolon' : EvR G0 c0 (.str [':']) (skipPos (q + n.length) r1) (skipI r1) 1
          (.ok (skipPos (q + n.length) r1 + 1) r2 []) := hcolon
      have hl2 : r2.length < (skipI r1).length := by have := hcolon'.consumes.len; omega
      have hsl2 := skipI_len r2
      obtain ⟨rv, hv1, hv2⟩ := IH (skipI r2) (skipPos (skipPos (q + n.length) r1 + 1) r2) (by omega) (tokStart_skipI r2)
      have hin := ev_seq0 hcolon' hv1 (K := 24 * r1.length + 40) (by omega) (by omega) (by omega)
      have hb := ev_seq0 hname' hin (K := 24 * t.length + 20) (by omega) (by omega) (by omega)
      rw [← hre] at hb
      have hev := ev_ruleOk hFr (r := rr) hb (Nat.lt_succ_self _)
      have htoks2 : toks t = .name n :: .punct ':' :: toks (skipI r2) := by
        rw [htoks, ← toks_skipI r1, toks_punct_of (by decide) (tokStart_skipI r1) hc, toks_skipI r2]
      refine ⟨_, hev, fun s₀ hat => ?_⟩
      -- positions in the document
      have hat1 : At s₀ (q + n.length) r1 := hat.consumes hname'.consumes
      have hat2 : At s₀ (skipPos (q + n.length) r1 + 1) r2 := hat1.skip.consumes hcolon'.consumes
      have hat3 := hat2.skip
      have hg := hv2 s₀ hat3
      unfold GoodF
      rw [htoks2, pField_nc]
      cases hp : pV P' F.const (toks (skipI r2)) with
      | none =>
        have := hg.fail hp
        subst this
        simp only [Option.map_none]
        rfl
      | some y =>
        obtain ⟨v, ts'⟩ := y
        obtain ⟨s', pr, e, hts', hlt', ⟨mid, hmid⟩, hst, hbv⟩ := hg.ok hp
        subst e
        simp only [Option.map_some]
        have hcons := (show EvR G0 c0 (.ident fn) q t _ _ from hev).consumes
        simp only [prepend_ok, wrapN_ok, List.nil_append] at hcons hev
        obtain ⟨mid2, hmid2, hpos⟩ := hcons
        have hlen := congrArg List.length hmid2
        simp only [List.length_append] at hlen
        refine ⟨s', Pair.mk fn q
          (skipPos (skipPos (q + n.length) r1 + 1) r2 + ((skipI r2).length - s'.length))
          ([Pair.mk "name" q (q + n.length) []] ++ [pr]), ?_, hts', by omega, ⟨mid2, hmid2⟩, rfl, ?_⟩
        · simp only [prepend_ok, wrapN_ok, List.nil_append]
          have : q + (t.length - s'.length) =
              skipPos (skipPos (q + n.length) r1 + 1) r2 + ((skipI r2).length - s'.length) := by omega
          rw [this]
        · intro bf hbf
          have hb1 := hbv bf (by
            rw [hst]
            have := skipPos_ge (skipPos (q + n.length) r1 + 1) r2
            have := skipPos_ge (q + n.length) r1
            simp only [Pair.start] at hbf; omega)
          have ha := asStr_at hat n.length "name" []
          rw [htxt] at ha
          simp only [List.take_left'] at ha
          simp only [envOf] at hb1
          simp only [fieldBuild, Pair.inner, List.cons_append, List.nil_append, Except.map, envOf] at ha ⊢
          rw [ha, hb1]

theorem field_elem (F : ValFam) (hF : IsFam F) (q : Nat) (t : List Char) (ht : TokStart t)
    (IH : ∀ t' q', t'.length < t.length → TokStart t' →
      ∃ r, EvR G0 c0 (.ident F.vName) q' t' (24 * t'.length + 60) r ∧ GoodC F q' t' r) :
    ∃ r, EvR G0 c0 (.ident F.fName) q t (24 * t.length + 21) r ∧ GoodFC F q t r :=
  field_elem_gen F F.fName (fRule F) (fam_rules F hF).2.2.2 rfl q t ht IH
end AGV.Lemmas.PegX
