/-
  Property C13, specification side: the finiteness parameter.  Reading with the finiteness check
  (`finiteFloats := true`) is reading without it (`P'`) and then rejecting results that contain an
  infinite float.
-/
import AGV.Lemmas.PegC13Defs2
import AGV.Lemmas.PegC13SpecFin
namespace AGV.Lemmas.PegX
open AGV.Spec.Lex AGV.Spec.Parse AGV.Core.PAst AGV.Lemmas.SpecVal

/-- keep a result only when it passes `fin` -/
def flt {α : Type} (fin : α → Bool) (x : Option (α × List Tok)) : Option (α × List Tok) :=
  x.bind (fun p => if fin p.1 then some p else none)

@[simp] theorem flt_none {α : Type} (fin : α → Bool) : flt fin none = none := rfl
theorem flt_some {α : Type} (fin : α → Bool) (a : α) (r : List Tok) :
    flt fin (some (a, r)) = if fin a then some (a, r) else none := rfl

theorem flt_iff {α : Type} {fin : α → Bool} {x y : Option (α × List Tok)} (h : x = flt fin y) (a : α) (r : List Tok) :
    x = some (a, r) ↔ y = some (a, r) ∧ fin a = true := by
  subst h
  cases y with
  | none => simp
  | some p =>
    obtain ⟨b, r'⟩ := p
    simp only [flt_some]
    cases hb : fin b
    · simp; rintro rfl; simp [hb]
    · simp; rintro rfl; simp [hb]

section
variable (P : Params) (hP : P.finiteFloats = true) (c : Bool)
include hP

theorem spec_flt : ∀ (L : Nat) (ts : List Tok), ts.length ≤ L →
    (∀ f, pValue P c f ts = flt finV (pValue P' c f ts)) ∧
    (∀ f g, pValue.items P c f g ts = flt finVs (pValue.items P' c f g ts)) ∧
    (∀ f g, pValue.fields P c f g ts = flt finFs (pValue.fields P' c f g ts)) := by
  intro L
  induction L using Nat.strongRecOn with
  | _ L ih =>
    intro ts hL
    have hv : ∀ f, pValue P c f ts = flt finV (pValue P' c f ts) := by
      intro f
      cases f with
      | zero => rw [pValue.eq_def, pValue.eq_def]; rfl
      | succ f =>
        cases ts with
        | nil => rw [pValue_nil, pValue_nil]; rfl
        | cons t r0 =>
          simp only [List.length_cons] at hL
          cases t with
          | punct y =>
            by_cases h1 : y = '$'
            · subst h1
              rw [pValue_dollar, pValue_dollar]
              cases c <;> cases pName r0 <;> simp [flt, finV]
            by_cases h2 : y = '['
            · subst h2
              rw [pValue_lbrack, pValue_lbrack, (ih r0.length (by omega) r0 (Nat.le_refl _)).2.1]
              cases pValue.items P' c f (r0.length + 1) r0 with
              | none => rfl
              | some x => cases hx : finVs x.1 <;> simp [flt, finV, hx]
            by_cases h3 : y = '{'
            · subst h3
              rw [pValue_lbrace, pValue_lbrace, (ih r0.length (by omega) r0 (Nat.le_refl _)).2.2]
              cases pValue.fields P' c f (r0.length + 1) r0 with
              | none => rfl
              | some x => cases hx : finFs x.1 <;> simp [flt, finV, hx]
            · rw [pValue_punct_other P c _ y r0 h1 h2 h3, pValue_punct_other P' c _ y r0 h1 h2 h3]; rfl
          | spread => rw [pValue_spread, pValue_spread]; rfl
          | name n =>
            rw [pValue_name, pValue_name]
            repeat' split
            all_goals simp [flt, finV]
          | int n d => rw [pValue_int, pValue_int]; simp [flt, finV]
          | float n i fr e x =>
            rw [pValue_float, pValue_float]
            have : P'.finiteFloats = false := rfl
            simp only [hP, this, Bool.true_and, Bool.false_and]
            cases hb : floatBits n i fr e x == AGV.F64.infBits <;> simp [flt, finV, bne, hb]
          | str v => rw [pValue_str, pValue_str]; simp [flt, finV]
    refine ⟨hv, ?_, ?_⟩
    · intro f g
      cases g with
      | zero => rw [pValue.items.eq_def, pValue.items.eq_def]; rfl
      | succ g =>
        by_cases hc : ∃ r0, ts = .punct ']' :: r0
        · obtain ⟨r0, rfl⟩ := hc
          rw [items_close, items_close]; rfl
        · rw [items_elem P c f g ts (fun r0 e => hc ⟨r0, e⟩), items_elem P' c f g ts (fun r0 e => hc ⟨r0, e⟩), hv]
          cases hp : pValue P' c f ts with
          | none => rfl
          | some x =>
            obtain ⟨v, r1⟩ := x
            have hl1 := pValue_len P' c hp
            have i1 := (ih r1.length (by omega) r1 (Nat.le_refl _)).2.1 f g
            cases hfv : finV v <;> cases hi : pValue.items P' c f g r1 <;> simp [flt, finVs, hfv, hi, i1]
    · intro f g
      cases g with
      | zero => rw [pValue.fields.eq_def, pValue.fields.eq_def]; rfl
      | succ g =>
        by_cases hc : ∃ r0, ts = .punct '}' :: r0
        · obtain ⟨r0, rfl⟩ := hc
          rw [fields_close, fields_close]; rfl
        · by_cases hn : ∃ n r0, ts = .name n :: .punct ':' :: r0
          · obtain ⟨n, r0, rfl⟩ := hn
            simp only [List.length_cons] at hL
            rw [fields_elem, fields_elem, (ih r0.length (by omega) r0 (Nat.le_refl _)).1]
            cases hp : pValue P' c f r0 with
            | none => rfl
            | some x =>
              obtain ⟨v, r1⟩ := x
              have hl1 := pValue_len P' c hp
              have i1 := (ih r1.length (by omega) r1 (Nat.le_refl _)).2.2 f g
              cases hfv : finV v <;> cases hi : pValue.fields P' c f g r1 <;> simp [flt, finFs, hfv, hi, i1]
          · rw [fields_other P c f (g + 1) ts (fun r0 e => hc ⟨r0, e⟩) (fun n r0 e => hn ⟨n, r0, e⟩),
              fields_other P' c f (g + 1) ts (fun r0 e => hc ⟨r0, e⟩) (fun n r0 e => hn ⟨n, r0, e⟩)]; rfl

theorem pValue_flt (f : Nat) (ts : List Tok) : pValue P c f ts = flt finV (pValue P' c f ts) :=
  (spec_flt P hP c ts.length ts (Nat.le_refl _)).1 f

theorem pArgList_flt : ∀ (g : Nat) (ts : List Tok), pArgList P c g ts = flt finFs (pArgList P' c g ts) := by
  intro g
  induction g with
  | zero => intro ts; rw [pArgList, pArgList]; rfl
  | succ g ih =>
    intro ts
    rw [pArgList.eq_def, pArgList.eq_def P']
    simp only []
    split
    · rw [pValue_flt P hP c]
      rename_i n r
      cases hp : pValue P' c (valueFuel r) r with
      | none => rfl
      | some x =>
        obtain ⟨v, r1⟩ := x
        cases hfv : finV v <;> simp only [flt_some, hfv, Bool.false_eq_true, reduceIte] <;> split <;>
          simp [flt, finFs, hfv, ih]
        all_goals (cases hq : pArgList P' c g r1 <;> simp [finFs, hfv])
    · rfl

theorem pOptArgs_flt (ts : List Tok) : pOptArgs P c ts = flt finFs (pOptArgs P' c ts) := by
  unfold pOptArgs
  split
  · exact pArgList_flt P hP c _ _
  · simp [flt, finFs]

theorem pDirectives_flt : ∀ (g : Nat) (ts : List Tok), pDirectives P c g ts = flt finDs (pDirectives P' c g ts) := by
  intro g
  induction g with
  | zero => intro ts; rw [pDirectives, pDirectives]; rfl
  | succ g ih =>
    intro ts
    rw [pDirectives.eq_def, pDirectives.eq_def P']
    simp only []
    split
    · rename_i n r
      rw [pOptArgs_flt P hP c]
      cases hp : pOptArgs P' c r with
      | none => rfl
      | some x =>
        obtain ⟨as, r1⟩ := x
        cases hfv : finFs as <;> simp only [flt_some, hfv, Bool.false_eq_true, reduceIte] <;>
          cases hq : pDirectives P' c g r1 <;> simp [flt, finDs, finD, hfv, ih, hq]
    · rfl
    · simp [flt, finDs]

theorem pDirs_flt (ts : List Tok) : pDirs P c ts = flt finDs (pDirs P' c ts) := pDirectives_flt P hP c _ _
end

-- ------------------------------------------------------------------ variable definitions

def dvOf (P : Params) (r1 : List Tok) : Option (Option PValue × List Tok) :=
  match r1 with
  | .punct '=' :: r2 => (pValue P true (valueFuel r2) r2).map (fun x => (some x.1, x.2))
  | _ => some (none, r1)

def vdMore (P : Params) (g : Nat) (vd : PVarDef) (r4 : List Tok) : Option (List PVarDef × List Tok) :=
  match r4 with
  | .punct ')' :: r5 => some ([vd], r5)
  | _ => (pVarDefs P g r4).map (fun x => (vd :: x.1, x.2))

theorem pVarDefs_step (P : Params) (g : Nat) (v : Name) (r : List Tok) :
    pVarDefs P (g + 1) (.punct '$' :: .name v :: .punct ':' :: r) =
      (pType (r.length + 1) r).bind fun x => (dvOf P x.2).bind fun y => (pDirs P true y.2).bind fun z =>
        vdMore P g ⟨v, x.1, z.1, y.1⟩ z.2 := by
  have h : pVarDefs P (g + 1) (.punct '$' :: .name v :: .punct ':' :: r) =
      match pType (r.length + 1) r with
      | some (t, r1) =>
        (match dvOf P r1 with
        | some (d, r3) =>
          (match pDirs P true r3 with
           | some (ds, r4) => vdMore P g ⟨v, t, ds, d⟩ r4
           | none => none)
        | none => none)
      | none => none := by
    rw [pVarDefs.eq_def]
    simp only []
    unfold dvOf vdMore
    rfl
  rw [h]
  cases pType (r.length + 1) r with
  | none => rfl
  | some x =>
    simp only [Option.bind_some]
    cases dvOf P x.2 with
    | none => rfl
    | some y =>
      simp only [Option.bind_some]
      cases pDirs P true y.2 <;> rfl

def finOV (d : Option PValue) : Bool := match d with | some d => finV d | none => true

section
variable (P : Params) (hP : P.finiteFloats = true)
include hP

theorem dvOf_flt (r1 : List Tok) : dvOf P r1 = flt finOV (dvOf P' r1) := by
  unfold dvOf
  split
  · rename_i r2
    rw [pValue_flt P hP true]
    cases hv : pValue P' true (valueFuel r2) r2 with
    | none => rfl
    | some y => obtain ⟨y1, y2⟩ := y; cases hfy : finV y1 <;> simp [flt, hfy, finOV]
  · rfl

omit hP in
theorem vdMore_flt (g : Nat) (ih : ∀ ts, pVarDefs P g ts = flt (fun vs => vs.all finVD) (pVarDefs P' g ts))
    (vd : PVarDef) (r4 : List Tok) :
    flt (fun vs => vs.all finVD) (vdMore P' g vd r4) = if finVD vd then vdMore P g vd r4 else none := by
  unfold vdMore
  split
  · cases hfv : finVD vd <;> simp [flt, hfv]
  · rw [ih]
    cases hq : pVarDefs P' g r4 with
    | none => simp [flt]
    | some x => cases hfv : finVD vd <;> simp [flt, hfv]

theorem pVarDefs_flt : ∀ (g : Nat) (ts : List Tok),
    pVarDefs P g ts = flt (fun vs => vs.all finVD) (pVarDefs P' g ts) := by
  intro g
  induction g with
  | zero => intro ts; rw [pVarDefs, pVarDefs]; rfl
  | succ g ih =>
    intro ts
    by_cases hts : ∃ v r, ts = .punct '$' :: .name v :: .punct ':' :: r
    · obtain ⟨v, r, rfl⟩ := hts
      rw [pVarDefs_step, pVarDefs_step]
      cases hp : pType (r.length + 1) r with
      | none => rfl
      | some x =>
        obtain ⟨t, r1⟩ := x
        simp only [Option.bind_some]
        rw [dvOf_flt P hP]
        cases hd : dvOf P' r1 with
        | none => rfl
        | some y =>
          obtain ⟨d, r3⟩ := y
          simp only [pDirs_flt P hP true, flt_some, Option.bind_some]
          cases hq : pDirs P' true r3 with
          | none => cases finOV d <;> simp [flt, hq]
          | some z =>
            obtain ⟨ds, r4⟩ := z
            simp only [Option.bind_some, vdMore_flt P g ih]
            cases d with
            | none => cases hfz : finDs ds <;> simp [finVD, finOV, hfz, hq, flt]
            | some d => cases hfd : finV d <;> cases hfz : finDs ds <;> simp [finVD, finOV, hfz, hfd, hq, flt]
    · rw [pVarDefs.eq_def, pVarDefs.eq_def P']
      simp only []
      split
      · rename_i v r; exact (hts ⟨v, r, rfl⟩).elim
      · rfl
end
end AGV.Lemmas.PegX
