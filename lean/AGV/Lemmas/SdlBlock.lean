/-
  C17 — block strings: the exporter's block-style description (`"""`, newline, every line of the
  text after the indentation, newline, indentation, `"""`) is read back by the specification's
  block-string rule (`lexBlock` + `BlockStringValue`, Spec/Lex.lean) as the text itself.
-/
import AGV.Model.Sdl
import AGV.Spec.Lex

namespace AGV.Lemmas.SdlBlock
open AGV.Core.Sdl AGV.Model.Sdl AGV.Spec.Literal AGV.Spec.Lex

/-- split at `\n` -/
def splitNl : Text → List Text
  | [] => [[]]
  | c :: r =>
    if c = '\n' then [] :: splitNl r
    else match splitNl r with
      | l :: ls => (c :: l) :: ls
      | [] => [[c]]

theorem splitNl_ne_nil (d : Text) : ∃ l ls, splitNl d = l :: ls := by
  induction d with
  | nil => exact ⟨[], [], rfl⟩
  | cons c r ih =>
    obtain ⟨l, ls, h⟩ := ih
    by_cases hc : c = '\n'
    · exact ⟨[], l :: ls, by simp [splitNl, hc, h]⟩
    · exact ⟨c :: l, ls, by simp [splitNl, hc, h]⟩

/-- the specification's line splitting, on a text without carriage returns -/
theorem lines_splitNl (acc d : Text) (h : d.contains '\r' = false) :
    ∃ l ls, splitNl d = l :: ls ∧ lines acc d = (acc.reverse ++ l) :: ls := by
  induction d generalizing acc with
  | nil => exact ⟨[], [], rfl, by simp [lines]⟩
  | cons c r ih =>
    have hc : c ≠ '\r' := by intro e; subst e; simp at h
    have hr : r.contains '\r' = false := by
      simp only [List.contains_eq_mem, decide_eq_false_iff_not, List.mem_cons, not_or] at h ⊢
      exact h.2
    by_cases hn : c = '\n'
    · subst hn
      obtain ⟨l, ls, h1, h2⟩ := ih [] hr
      refine ⟨[], l :: ls, by simp [splitNl, h1], ?_⟩
      rw [lines.eq_3 _ _ _ (fun _ he _ => by cases he)]
      simp [isLineTerm, h2]
    · obtain ⟨l, ls, h1, h2⟩ := ih (c :: acc) hr
      refine ⟨c :: l, ls, by simp [splitNl, hn, h1], ?_⟩
      rw [lines.eq_3 _ _ _ (fun _ he _ => hc he)]
      simp [isLineTerm, hn, hc, h2]

theorem join_splitNl (d : Text) : join (splitNl d) = d := by
  induction d with
  | nil => rfl
  | cons c r ih =>
    obtain ⟨l, ls, h⟩ := splitNl_ne_nil r
    by_cases hc : c = '\n'
    · subst hc; simp [splitNl, h, join] ; rw [← h, ih]
    · rw [h] at ih
      simp only [splitNl, hc, if_false, h]
      cases ls with
      | nil => simp [join] at ih ⊢; exact ih
      | cons l2 ls => simp [join] at ih ⊢; exact ih


theorem splitNl_prefix (p x : Text) (hp : ∀ c ∈ p, c ≠ '\n') (l : Text) (ls : List Text) (h : splitNl x = l :: ls) :
    splitNl (p ++ x) = (p ++ l) :: ls := by
  induction p with
  | nil => simpa using h
  | cons c p ih =>
    have hc : c ≠ '\n' := hp c List.mem_cons_self
    simp [splitNl, hc, ih (fun c hc => hp c (List.mem_cons_of_mem _ hc))]

/-- the lines of the indented text: the lines of the text, each after the indentation, and a
    last line holding the indentation of the closing quotes -/
theorem splitNl_indent (tb : Text) (htb : ∀ c ∈ tb, c ≠ '\n') (d : Text) :
    ∀ (p : Text), (∀ c ∈ p, c ≠ '\n') → ∀ l ls, splitNl d = l :: ls →
      splitNl (p ++ indentLines tb d ++ '\n' :: tb) = (p ++ l) :: (ls.map (tb ++ ·) ++ [tb]) := by
  induction d with
  | nil =>
    intro p hp l ls h
    simp [splitNl] at h
    obtain ⟨rfl, rfl⟩ := h
    have : splitNl ('\n' :: tb) = [] :: [tb] := by
      have := splitNl_prefix tb [] htb [] [] rfl
      simp at this
      simp [splitNl, this]
    simpa [indentLines] using splitNl_prefix p _ hp _ _ this
  | cons c r ih =>
    intro p hp l ls h
    obtain ⟨l', ls', h'⟩ := splitNl_ne_nil r
    by_cases hc : c = '\n'
    · subst hc
      simp [splitNl, h'] at h
      obtain ⟨rfl, rfl⟩ := h
      have h2 := ih tb htb l' ls' h'
      have h3 : splitNl ('\n' :: (tb ++ indentLines tb r ++ '\n' :: tb)) =
          [] :: (tb ++ l') :: (ls'.map (tb ++ ·) ++ [tb]) := by
        rw [List.append_assoc] at h2; simp [splitNl, h2]
      have := splitNl_prefix p _ hp _ _ h3
      simpa [indentLines, List.append_assoc] using this
    · simp [splitNl, hc, h'] at h
      obtain ⟨rfl, rfl⟩ := h
      have hp' : ∀ x ∈ p ++ [c], x ≠ '\n' := by
        intro x hx
        rcases List.mem_append.mp hx with hx | hx
        · exact hp x hx
        · simp at hx; subst hx; exact hc
      have := ih (p ++ [c]) hp' l' ls' h'
      simpa [indentLines, hc, List.append_assoc] using this


theorem mem_indentLines (tb d : Text) (c : Char) (h : c ∈ indentLines tb d) : c ∈ d ∨ c ∈ tb := by
  induction d with
  | nil => simp [indentLines] at h
  | cons a r ih =>
    unfold indentLines at h
    split at h
    · rename_i ha
      simp only [List.cons_append, List.mem_cons, List.mem_append] at h
      rcases h with h | h | h
      · left; rw [h, ha]; exact List.mem_cons_self
      · right; exact h
      · rcases ih h with h | h
        · left; exact List.mem_cons_of_mem _ h
        · right; exact h
    · rcases List.mem_cons.mp h with h | h
      · left; simp [h]
      · rcases ih h with h | h
        · left; exact List.mem_cons_of_mem _ h
        · right; exact h

theorem leadingWs_blank (tb l : Text) (htb : tb.all isBlank = true) : leadingWs (tb ++ l) = tb.length + leadingWs l := by
  induction tb with
  | nil => simp
  | cons c tb ih =>
    simp only [List.all_cons, Bool.and_eq_true] at htb
    have : isWsChar c = true := by simpa [isBlank, isWsChar] using htb.1
    simp [leadingWs, this, ih htb.2]; omega

theorem commonIndent_indent (tb : Text) (htb : tb.all isBlank = true) (X : List Text) :
    commonIndent (X.map (tb ++ ·) ++ [tb]) = (commonIndent X).map (tb.length + ·) := by
  induction X with
  | nil =>
    have := leadingWs_blank tb [] htb
    simp [leadingWs] at this
    simp [commonIndent, this]
  | cons l X ih =>
    simp only [List.map_cons, List.cons_append, commonIndent, ih, leadingWs_blank tb l htb, List.length_append]
    by_cases h : leadingWs l < l.length
    · have h' : tb.length + leadingWs l < tb.length + l.length := by omega
      simp only [h, h', if_true]
      cases commonIndent X with
      | none => simp
      | some m => simp only [Option.map_some, Option.some.injEq]; omega
    · have h' : ¬ (tb.length + leadingWs l < tb.length + l.length) := by omega
      simp [h, h']

theorem lastLine_not_blank (d : Text) (seen : Bool) (h : lastLineOk d seen = true) :
    ∃ A x, splitNl d = A ++ [x] ∧ (onlyWs x = false ∨ (A = [] ∧ seen = true)) := by
  induction d generalizing seen with
  | nil => exact ⟨[], [], rfl, Or.inr ⟨rfl, by simpa [lastLineOk] using h⟩⟩
  | cons c r ih =>
    by_cases hc : c = '\n'
    · subst hc
      simp only [lastLineOk, if_true] at h
      obtain ⟨A, x, h1, h2⟩ := ih false h
      refine ⟨[] :: A, x, by simp [splitNl, h1], Or.inl ?_⟩
      rcases h2 with h2 | ⟨_, h2⟩
      · exact h2
      · cases h2
    · simp only [lastLineOk, hc, if_false] at h
      obtain ⟨A, x, h1, h2⟩ := ih _ h
      cases A with
      | nil =>
        refine ⟨[], c :: x, by simp [splitNl, hc, h1], ?_⟩
        rcases h2 with h2 | ⟨_, h2⟩
        · left; simp only [onlyWs, List.all_cons] at h2 ⊢; simp [h2]
        · simp only [Bool.or_eq_true, Bool.not_eq_true'] at h2
          rcases h2 with h2 | h2
          · exact Or.inr ⟨rfl, h2⟩
          · left; simp only [onlyWs, List.all_cons]
            have : isWsChar c = false := by simpa [isBlank, isWsChar] using h2
            simp [this]
      | cons a A =>
        refine ⟨(c :: a) :: A, x, by simp [splitNl, hc, h1], ?_⟩
        rcases h2 with h2 | ⟨h2, _⟩
        · exact Or.inl h2
        · cases h2

theorem dropTrailingBlank_snoc (A : List Text) (x : Text) (hx : onlyWs x = false) :
    dropTrailingBlank (A ++ [x] ++ [[]]) = A ++ [x] := by
  have e : (A ++ [x] ++ [[]]).reverse = [] :: x :: A.reverse := by simp
  have h0 : onlyWs ([] : Text) = true := rfl
  rw [dropTrailingBlank, e, List.dropWhile_cons, if_pos h0, List.dropWhile_cons, if_neg (by simp [hx])]
  simp

/-- `BlockStringValue` of the indented text between the newline after the opening quotes and the
    indentation before the closing ones -/
theorem blockStringValue_indent (tb d : Text) (htb : tb.all isBlank = true) (hd : blockPrintable d = true) :
    blockStringValue ('\n' :: tb ++ indentLines tb d ++ '\n' :: tb) = d := by
  simp only [blockPrintable, Bool.and_eq_true, Bool.not_eq_true'] at hd
  obtain ⟨⟨⟨_, hcr⟩, hfirst⟩, hlast⟩ := hd
  have htbn : ∀ c ∈ tb, c ≠ '\n' := by
    intro c hc e; subst e
    have := List.all_eq_true.mp htb _ hc
    simp [isBlank] at this
  have htbr : ∀ c ∈ tb, c ≠ '\r' := by
    intro c hc e; subst e
    have := List.all_eq_true.mp htb _ hc
    simp [isBlank] at this
  obtain ⟨c0, d', rfl⟩ : ∃ c0 d', d = c0 :: d' := by
    cases d with
    | nil => simp at hfirst
    | cons c0 d' => exact ⟨c0, d', rfl⟩
  simp only [Bool.and_eq_true, Bool.not_eq_true', bne_iff_ne, ne_eq] at hfirst
  obtain ⟨hb0, hn0⟩ := hfirst
  obtain ⟨A, x, hA, hx⟩ := lastLine_not_blank _ _ hlast
  have hx : onlyWs x = false := by
    rcases hx with hx | ⟨_, hx⟩
    · exact hx
    · cases hx
  obtain ⟨l', ls', hl'⟩ := splitNl_ne_nil d'
  have hL : splitNl (c0 :: d') = (c0 :: l') :: ls' := by simp [splitNl, hn0, hl']
  have hsplit := splitNl_indent tb htbn (c0 :: d') tb htbn _ _ hL
  have hraw : splitNl ('\n' :: tb ++ indentLines tb (c0 :: d') ++ '\n' :: tb) =
      [] :: (((c0 :: l') :: ls').map (tb ++ ·) ++ [tb]) := by
    rw [List.append_assoc] at hsplit
    simp [splitNl, hsplit]
  have hnocr : ('\n' :: tb ++ indentLines tb (c0 :: d') ++ '\n' :: tb).contains '\r' = false := by
    simp only [List.contains_eq_mem, decide_eq_false_iff_not, List.cons_append, List.mem_cons, List.mem_append,
      not_or] at hcr ⊢
    refine ⟨by decide, ⟨fun h => htbr _ h rfl, fun h => ?_⟩, by decide, fun h => htbr _ h rfl⟩
    rcases mem_indentLines _ _ _ h with h | h
    · simp only [List.mem_cons] at h
      rcases h with h | h
      · exact hcr.1 h
      · exact hcr.2 h
    · exact htbr _ h rfl
  obtain ⟨l, ls, h1, h2⟩ := lines_splitNl [] _ hnocr
  rw [hraw] at h1
  injection h1 with h1a h1b
  subst h1a; subst h1b
  unfold blockStringValue
  simp only [h2, List.reverse_nil, List.nil_append]
  rw [commonIndent_indent tb htb]
  have hci : commonIndent ((c0 :: l') :: ls') = some 0 := by
    have hw : isWsChar c0 = false := by simpa [isBlank, isWsChar] using hb0
    simp only [commonIndent, leadingWs, hw]
    cases commonIndent ls' <;> simp
  simp only [hci, Option.map_some, Nat.add_zero]
  have hdrop : (((c0 :: l') :: ls').map (tb ++ ·) ++ [tb]).map (List.drop tb.length) = ((c0 :: l') :: ls') ++ [[]] := by
    simp [List.map_append, List.map_map, Function.comp_def]
  rw [hdrop, ← hL, hA]
  have hw : isWsChar c0 = false := by simpa [isBlank, isWsChar] using hb0
  have hdw : ([] :: (A ++ [x] ++ [[]])).dropWhile onlyWs = A ++ [x] ++ [[]] := by
    have : onlyWs (c0 :: l') = false := by simp [onlyWs, hw]
    have h0 : onlyWs ([] : Text) = true := rfl
    rw [← hA, hL, List.dropWhile_cons, if_pos h0, List.cons_append, List.dropWhile_cons,
      if_neg (by simp [this])]
  rw [hdw, dropTrailingBlank_snoc A x hx, ← hA, join_splitNl]


-- ------------------------------------------------------------------ the block string token

theorem hasTriple_cons (c : Char) (r : Text) (h : hasTriple (c :: r) = false) : hasTriple r = false := by
  cases hr : hasTriple r with
  | false => rfl
  | true =>
    rw [hasTriple.eq_def] at h
    split at h
    · cases h
    · rename_i heq; cases heq; rw [hr] at h; cases h
    · rename_i heq; cases heq

theorem lexBlock_prefix (X : Text) (hX : hasTriple X = false) (t0 : Char) (tail v rest : Text)
    (ht0 : t0 ≠ '"') (ht : lexBlock (t0 :: tail) = some (v, rest)) :
    lexBlock (X ++ t0 :: tail) = some (X ++ v, rest) := by
  induction X with
  | nil => simpa using ht
  | cons c X ih =>
    have ih' := ih (hasTriple_cons c X hX)
    have s1 : ∀ r1 : List Char, c = '"' → X ++ t0 :: tail = '"' :: '"' :: r1 → False := by
      intro r1 hc he
      subst hc
      match X, hX, he with
      | [], _, he => simp at he; exact ht0 he.1
      | [a], _, he => simp at he; exact ht0 he.2.1
      | a :: b :: X', hX, he =>
        simp at he
        obtain ⟨rfl, rfl, _⟩ := he
        simp [hasTriple] at hX
    have s2 : ∀ r1 : List Char, c = '\\' → X ++ t0 :: tail = '"' :: '"' :: '"' :: r1 → False := by
      intro r1 hc he
      subst hc
      match X, hX, he with
      | [], _, he => simp at he; exact ht0 he.1
      | [a], _, he => simp at he; exact ht0 he.2.1
      | [a, b], _, he => simp at he; exact ht0 he.2.2.1
      | a :: b :: c :: X', hX, he =>
        simp at he
        obtain ⟨rfl, rfl, rfl, _⟩ := he
        have := hasTriple_cons _ _ hX
        simp [hasTriple] at this
    rw [List.cons_append, lexBlock.eq_4 _ _ s1 s2, ih']
    rfl

theorem lexBlock_blank (tb : Text) (htb : tb.all isBlank = true) (r : Text) :
    lexBlock (tb ++ quotes3 ++ r) = some (tb, r) := by
  induction tb with
  | nil => simp [quotes3, lexBlock]
  | cons c tb ih =>
    simp only [List.all_cons, Bool.and_eq_true] at htb
    have hb : c = ' ' ∨ c = '\t' := by simpa [isBlank] using htb.1
    have s1 : ∀ r1 : List Char, c = '"' → tb ++ quotes3 ++ r = '"' :: '"' :: r1 → False := by
      intro r1 hc; rcases hb with rfl | rfl <;> cases hc
    have s2 : ∀ r1 : List Char, c = '\\' → tb ++ quotes3 ++ r = '"' :: '"' :: '"' :: r1 → False := by
      intro r1 hc; rcases hb with rfl | rfl <;> cases hc
    rw [List.cons_append, List.cons_append, lexBlock.eq_4 _ _ s1 s2, ih htb.2]

theorem hasTriple_noquote (p y : Text) (hp : ∀ c ∈ p, c ≠ '"') : hasTriple (p ++ y) = hasTriple y := by
  induction p with
  | nil => rfl
  | cons c p ih =>
    have hc : c ≠ '"' := hp c List.mem_cons_self
    rw [List.cons_append, hasTriple.eq_2, ih (fun c h => hp c (List.mem_cons_of_mem _ h))]
    intro r he _; exact hc he

theorem indentLines_two_quotes (tb : Text) (r y : Text) (h : indentLines tb r = '"' :: '"' :: y) :
    ∃ y', r = '"' :: '"' :: y' := by
  match r, h with
  | [], h => simp [indentLines] at h
  | [a], h =>
    simp only [indentLines] at h
    split at h <;> simp at h
  | a :: b :: r', h =>
    simp only [indentLines] at h
    split at h
    · simp at h
    · split at h
      · simp at h
      · simp at h; exact ⟨r', by rw [h.1, h.2.1]⟩

theorem hasTriple_indentLines (tb : Text) (htb : ∀ c ∈ tb, c ≠ '"') (d : Text) (h : hasTriple d = false) :
    hasTriple (indentLines tb d) = false := by
  induction d with
  | nil => rfl
  | cons c r ih =>
    have ih' := ih (hasTriple_cons c r h)
    unfold indentLines
    split
    · have : hasTriple (('\n' :: tb) ++ indentLines tb r) = hasTriple (indentLines tb r) :=
        hasTriple_noquote _ _ (by
          intro x hx; rcases List.mem_cons.mp hx with rfl | hx
          · decide
          · exact htb x hx)
      rw [List.cons_append] at this ⊢
      rw [this, ih']
    · rw [hasTriple.eq_2, ih']
      intro y hc he
      subst hc
      obtain ⟨y', rfl⟩ := indentLines_two_quotes tb r y he
      simp [hasTriple] at h


theorem lexBlock_indent (tb d rest : Text) (htb : tb.all isBlank = true) (hd : hasTriple d = false) :
    lexBlock ('\n' :: tb ++ indentLines tb d ++ '\n' :: tb ++ quotes3 ++ rest) =
      some ('\n' :: tb ++ indentLines tb d ++ '\n' :: tb, rest) := by
  have htbq : ∀ c ∈ tb, c ≠ '"' := by
    intro c hc e; subst e
    have := List.all_eq_true.mp htb _ hc
    simp [isBlank] at this
  have h1 : lexBlock ('\n' :: (tb ++ quotes3 ++ rest)) = some ('\n' :: tb, rest) := by
    rw [lexBlock.eq_4 _ _ (fun _ hc _ => by cases hc) (fun _ hc _ => by cases hc), lexBlock_blank tb htb]
  have hX : hasTriple ('\n' :: tb ++ indentLines tb d) = false := by
    rw [hasTriple_noquote ('\n' :: tb) _ (by
      intro x hx; rcases List.mem_cons.mp hx with rfl | hx
      · decide
      · exact htbq x hx)]
    exact hasTriple_indentLines tb htbq d hd
  have := lexBlock_prefix _ hX '\n' (tb ++ quotes3 ++ rest) _ _ (by decide) h1
  simpa [List.append_assoc] using this

/-- the block-style description is one block-string token denoting the description -/
theorem lexToken_block (tb d rest : Text) (htb : tb.all isBlank = true) (hd : blockPrintable d = true) :
    lexToken (quotes3 ++ '\n' :: tb ++ indentLines tb d ++ '\n' :: tb ++ quotes3 ++ '\n' :: rest) = some (.str d, '\n' :: rest) := by
  have hd' := hd
  simp only [blockPrintable, Bool.and_eq_true, Bool.not_eq_true'] at hd'
  have hlb := lexBlock_indent tb d ('\n' :: rest) htb hd'.1.1.1
  have e : quotes3 ++ '\n' :: tb ++ indentLines tb d ++ '\n' :: tb ++ quotes3 ++ '\n' :: rest =
      '"' :: '"' :: '"' :: ('\n' :: tb ++ indentLines tb d ++ '\n' :: tb ++ quotes3 ++ '\n' :: rest) := by
    simp [quotes3, List.append_assoc]
  rw [e]
  unfold lexToken
  have h1 : isPunct '"' = false := by decide
  have h2 : nameStart '"' = false := by decide
  have h3 : isDig '"' = false := by decide
  simp only [h1, h2, h3, hlb, blockStringValue_indent tb d htb hd]
  simp

-- ------------------------------------------------------------------ quoted strings

/-- one arm of the repaired `escape_string` is read back as the character it stands for -/
theorem lexString_escapeChar (c : Char) (tl : Text) :
    lexString (escapeChar false c ++ tl) = (lexString tl).map (fun p => (c :: p.1, p.2)) := by
  unfold escapeChar
  by_cases h1 : c = '\\'
  · subst h1; rw [lexString.eq_def]; simp [escaped]; cases lexString tl <;> rfl
  by_cases h2 : c = '"'
  · subst h2; rw [lexString.eq_def]; simp [escaped]; cases lexString tl <;> rfl
  by_cases h3 : c = Char.ofNat 8
  · subst h3; rw [lexString.eq_def]; simp [escaped]; cases lexString tl <;> rfl
  by_cases h4 : c = Char.ofNat 12
  · subst h4; rw [lexString.eq_def]; simp [escaped]; cases lexString tl <;> rfl
  by_cases h5 : c = '\n'
  · subst h5; rw [lexString.eq_def]; simp [escaped]; cases lexString tl <;> rfl
  by_cases h6 : c = '\r'
  · subst h6; rw [lexString.eq_def]; simp [escaped]; cases lexString tl <;> rfl
  by_cases h7 : c = '\t'
  · subst h7; rw [lexString.eq_def]; simp [escaped]; cases lexString tl <;> rfl
  simp only [h1, h2, h3, h4, h5, h6, h7, if_false, Bool.false_and, Bool.and_true, Bool.not_false, decide_false, Bool.false_eq_true]
  rw [List.singleton_append, lexString.eq_def]
  simp [h1, h2, h5, h6]
  cases lexString tl <;> rfl

theorem lexString_escapeString (t rest : Text) :
    lexString (escapeString false t ++ '"' :: rest) = some (t, rest) := by
  induction t with
  | nil => rw [lexString.eq_def]; simp [escapeString]
  | cons c r ih => simp [escapeString, List.append_assoc, lexString_escapeChar, ih]

theorem escapeString_not_block (t rest : Text) (h : rest.head? ≠ some '"') :
    ∀ y, escapeString false t ++ '"' :: rest ≠ '"' :: '"' :: y := by
  intro y
  cases t with
  | nil =>
    cases rest with
    | nil => simp [escapeString]
    | cons d rest' =>
      have hd : d ≠ '"' := by simpa using h
      simp [escapeString, hd]
  | cons c r =>
    simp only [escapeString, escapeChar]
    repeat' split
    all_goals simp_all

end AGV.Lemmas.SdlBlock
