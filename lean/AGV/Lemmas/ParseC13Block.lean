/-
  Lemmas for property C13: `block_string_value` (no defect) is `BlockStringValue()`: common
  indent, removal of leading/trailing blank lines, `\"""` unescaping.
-/
import AGV.Lemmas.ParseC13
namespace AGV.Lemmas.ParseC13
open AGV.Model.BuildAst AGV.Core.PAst
open AGV.Spec.Lex (leadingWs onlyWs isWsChar commonIndent dropTrailingBlank lexBlock)


theorem isBlank_eq (c : Char) : isBlank c = isWsChar c := by
  simp [isBlank, isWsChar, Bool.or_comm]

theorem content_eq (l : List Char) : lineHasContent l = !onlyWs l := by
  induction l with
  | nil => rfl
  | cons c r ih => simp [lineHasContent, onlyWs, isBlank_eq] at ih ⊢; rw [ih]

theorem joinLines_eq (ls : List (List Char)) : joinLines ls = AGV.Spec.Lex.join ls := by
  fun_induction joinLines ls <;> simp_all [AGV.Spec.Lex.join]

theorem firstNonBlank_eq (l : List Char) :
    firstNonBlank l = if leadingWs l < l.length then some (leadingWs l) else none := by
  induction l with
  | nil => rfl
  | cons c r ih =>
    simp only [firstNonBlank, leadingWs, isBlank_eq]
    by_cases hc : isWsChar c = true
    · simp [hc, ih]
    · simp [hc]

theorem minList_eq (rest : List (List Char)) :
    minList (rest.filterMap firstNonBlank) = commonIndent rest := by
  induction rest with
  | nil => rfl
  | cons l ls ih =>
    simp only [commonIndent]
    rw [List.filterMap_cons, firstNonBlank_eq]
    by_cases h : leadingWs l < l.length
    · simp only [h, if_true, minList, ih]
      cases commonIndent ls <;> rfl
    · simp only [h, if_false, ih]

-- single-list facts
theorem dropWhile_eq_drop (M : List (List Char)) : M.dropWhile onlyWs = M.drop (firstContentful M) := by
  induction M with
  | nil => rfl
  | cons l L ih =>
    simp only [firstContentful, content_eq, List.dropWhile_cons]
    cases h : onlyWs l <;> simp [ih]

theorem dropTrailing_cons (l : List Char) (L : List (List Char)) :
    dropTrailingBlank (l :: L) =
      if (dropTrailingBlank L).isEmpty then (if onlyWs l then [] else [l]) else l :: dropTrailingBlank L := by
  simp only [dropTrailingBlank, List.reverse_cons, List.dropWhile_append]
  by_cases h : (List.dropWhile onlyWs L.reverse).isEmpty = true
  · simp [h]; cases hl : onlyWs l <;> simp [hl]
  · simp [h]

theorem endingStart_len (L : List (List Char)) :
    dropTrailingBlank L = L.take (endingStart L) := by
  induction L with
  | nil => rfl
  | cons l L ih =>
    rw [dropTrailing_cons, endingStart]
    by_cases h : endingStart L = 0
    · have : (dropTrailingBlank L).isEmpty = true := by rw [ih, h]; simp
      simp only [this, if_true, h, ne_eq, not_true, if_false, content_eq]
      cases onlyWs l <;> simp
    · have : (dropTrailingBlank L).isEmpty = false := by
        rw [ih]; cases L with
        | nil => simp [endingStart] at h
        | cons a b => cases hh : endingStart (a :: b) with
          | zero => exact absurd hh h
          | succ n => simp
      rw [this]
      simp only [Bool.false_eq_true, if_false, ne_eq, h, not_false_eq_true, if_true, List.take_succ_cons, ih]

theorem endingStart_drop (M : List (List Char)) :
    endingStart (M.drop (firstContentful M)) = endingStart M - firstContentful M := by
  induction M with
  | nil => rfl
  | cons l L ih =>
    simp only [firstContentful, endingStart]
    by_cases h : lineHasContent l = true
    · simp [h, endingStart]
    · simp only [h, if_false, List.drop_succ_cons, ih, Bool.false_eq_true]
      by_cases h2 : endingStart L = 0 <;> simp [h2]

theorem single_list (M : List (List Char)) :
    (M.take (endingStart M)).drop (firstContentful M) = dropTrailingBlank (M.dropWhile onlyWs) := by
  rw [dropWhile_eq_drop, endingStart_len, endingStart_drop, List.drop_take]

theorem content_iff_lt (l : List Char) : lineHasContent l = decide (leadingWs l < l.length) := by
  induction l with
  | nil => rfl
  | cons c r ih =>
    simp only [lineHasContent, List.any_cons, leadingWs, isBlank_eq] at ih ⊢
    by_cases hc : isWsChar c = true <;> simp [hc, ih]

theorem content_drop (l : List Char) : ∀ n, n ≤ leadingWs l → lineHasContent (l.drop n) = lineHasContent l := by
  induction l with
  | nil => intro n _; simp
  | cons c r ih =>
    intro n hn
    cases n with
    | zero => rfl
    | succ n =>
      simp only [leadingWs] at hn
      by_cases hc : isWsChar c = true
      · simp only [hc, if_true] at hn
        simp only [List.drop_succ_cons, ih n (by omega)]
        simp [lineHasContent, isBlank_eq, hc]
      · simp [hc] at hn

theorem nocontent_drop (l : List Char) (n : Nat) (h : lineHasContent l = false) :
    lineHasContent (l.drop n) = false := by
  simp only [lineHasContent, List.any_eq_false] at h ⊢
  intro x hx; exact h x (List.mem_of_mem_drop hx)

theorem commonIndent_le (rest : List (List Char)) : ∀ ci, commonIndent rest = some ci →
    ∀ l ∈ rest, leadingWs l < l.length → ci ≤ leadingWs l := by
  induction rest with
  | nil => intro ci h; cases h
  | cons a r ih =>
    intro ci h l hl hlt
    simp only [commonIndent] at h
    by_cases ha : leadingWs a < a.length
    · simp only [ha, if_true] at h
      cases hr : commonIndent r with
      | none =>
        simp only [hr] at h; cases h
        rcases List.mem_cons.1 hl with rfl | hl
        · exact Nat.le_refl _
        · cases r with
          | nil => cases hl
          | cons b r' =>
            exfalso
            -- commonIndent none means no contentful line
            have : ∀ (L : List (List Char)), commonIndent L = none → ∀ x ∈ L, ¬ leadingWs x < x.length := by
              intro L
              induction L with
              | nil => intro _ x hx; cases hx
              | cons y L ihL =>
                intro hn x hx
                simp only [commonIndent] at hn
                by_cases hy : leadingWs y < y.length
                · simp only [hy, if_true] at hn; cases hc : commonIndent L <;> simp [hc] at hn
                · simp only [hy, if_false] at hn
                  rcases List.mem_cons.1 hx with rfl | hx
                  · exact hy
                  · exact ihL hn x hx
            exact this _ hr l hl hlt
      | some m =>
        simp only [hr] at h; cases h
        rcases List.mem_cons.1 hl with rfl | hl
        · exact Nat.min_le_left _ _
        · exact Nat.le_trans (Nat.min_le_right _ _) (ih m hr l hl hlt)
    · simp only [ha, if_false] at h
      rcases List.mem_cons.1 hl with rfl | hl
      · exact absurd hlt ha
      · exact ih ci h l hl hlt

theorem content_drop_ci (rest : List (List Char)) :
    ∀ l ∈ rest, lineHasContent (l.drop ((commonIndent rest).getD 0)) = lineHasContent l := by
  intro l hl
  by_cases hlt : leadingWs l < l.length
  · cases hc : commonIndent rest with
    | none => simp
    | some ci => exact content_drop l ci (commonIndent_le rest ci hc l hl hlt)
  · exact (nocontent_drop l _ (by rw [content_iff_lt]; simp [hlt])).trans (by rw [content_iff_lt]; simp [hlt])

theorem first_end_congr (A : List (List Char)) : ∀ B : List (List Char),
    A.map lineHasContent = B.map lineHasContent →
    firstContentful A = firstContentful B ∧ endingStart A = endingStart B := by
  induction A with
  | nil => intro B h; cases B with
    | nil => exact ⟨rfl, rfl⟩
    | cons b B => simp at h
  | cons a A ih =>
    intro B h
    cases B with
    | nil => simp at h
    | cons b B =>
      simp only [List.map_cons, List.cons.injEq] at h
      obtain ⟨h1, h2⟩ := ih B h.2
      simp only [firstContentful, endingStart, h.1, h1, h2, and_self]

theorem zipIdx_map_succ (ci : Nat) (rest : List (List Char)) : ∀ i,
    (zipIdxFrom (i + 1) rest).map (fun p =>
      if p.1 ≠ 0 && (p.2.length ≥ ci || !false) then p.2.drop ci else p.2) = rest.map (List.drop ci) := by
  induction rest with
  | nil => intro i; rfl
  | cons a r ih =>
    intro i
    rw [zipIdxFrom, List.map_cons, ih (i + 1)]
    simp

/-- the line pipeline of `block_string_value` (no defect) is the one of `BlockStringValue()` -/
theorem blockPipeline_eq (raw : List Char) :
    blockStringValue { blockEscapeKept := true } raw = AGV.Spec.Lex.blockStringValue raw := by
  obtain ⟨first, rest, hls⟩ := splitLines_ne_nil raw
  have hl : AGV.Spec.Lex.lines [] raw = first :: rest := by rw [← splitLines_eq_lines, hls]
  simp only [blockStringValue, AGV.Spec.Lex.blockStringValue, if_true, hls, hl, List.tail_cons, minList_eq]
  have hM : (zipIdxFrom 0 (first :: rest)).map (fun p =>
      if p.1 ≠ 0 && (p.2.length ≥ (commonIndent rest).getD 0 || !false) then p.2.drop ((commonIndent rest).getD 0) else p.2)
      = first :: rest.map (List.drop ((commonIndent rest).getD 0)) := by
    rw [zipIdxFrom, List.map_cons, zipIdx_map_succ]; simp
  have hd0 : (List.drop 0 : List Char → List Char) = id := by funext l; rfl
  have hS : AGV.Spec.Lex.join (dropTrailingBlank (List.dropWhile onlyWs
      (match commonIndent rest with
      | some ci => first :: rest.map (List.drop ci)
      | none => first :: rest))) = AGV.Spec.Lex.join (dropTrailingBlank (List.dropWhile onlyWs
      (first :: rest.map (List.drop ((commonIndent rest).getD 0))))) := by
    cases commonIndent rest <;> simp [hd0]
  refine Eq.trans ?_ (Eq.trans hS.symm ?_)
  rotate_left
  · cases commonIndent rest <;> rfl
  rw [List.map_drop, List.map_take, hM, joinLines_eq]
  have hc : (first :: rest).map lineHasContent =
      (first :: rest.map (List.drop ((commonIndent rest).getD 0))).map lineHasContent := by
    simp only [List.map_cons, List.map_map, List.cons.injEq, true_and]
    apply List.map_congr_left
    intro l hl; exact (content_drop_ci rest l hl).symm
  obtain ⟨h1, h2⟩ := first_end_congr _ _ hc
  rw [h1, h2, single_list]

theorem lexBlock_rest_len (s : List Char) : ∀ v r, lexBlock s = some (v, r) → r.length + 3 ≤ s.length := by
  fun_induction lexBlock s with
  | case1 => intro v r h; cases h
  | case2 r => intro v r' h; cases h; simp
  | case3 r v rest hr ih => intro v' r' h; cases h; have := ih _ _ hr; simp; omega
  | case4 r hr ih => intro v' r' h; cases h
  | case5 c r _ _ v rest hr ih => intro v' r' h; cases h; have := ih _ _ hr; simp; omega
  | case6 c r _ _ hr ih => intro v' r' h; cases h

theorem lexBlock_unescape (raw : List Char) : ∀ v,
    lexBlock (raw ++ ['"', '"', '"']) = some (v, []) → v = unescapeTriple raw := by
  fun_induction unescapeTriple raw with
  | case1 r ih =>
    intro v h
    simp only [List.cons_append, lexBlock] at h
    cases hr : lexBlock (r ++ ['"', '"', '"']) with
    | none => simp [hr] at h
    | some x =>
      obtain ⟨v', rest⟩ := x
      simp [hr] at h
      obtain ⟨rfl, rfl⟩ := h
      rw [ih v' hr]
  | case2 c r hne ih =>
    intro v h
    rw [List.cons_append, lexBlock.eq_def] at h
    split at h
    · cases h
    · rename_i r' heq
      simp only [Option.some.injEq, Prod.mk.injEq] at h
      obtain ⟨_, rfl⟩ := h
      have := congrArg List.length heq
      simp at this
    · rename_i r' heq
      simp only [List.cons.injEq] at heq
      obtain ⟨rfl, heq⟩ := heq
      exfalso
      match r, hne, heq with
      | [], _, heq => simp at heq; subst heq; simp [lexBlock] at h
      | [a], _, heq => simp at heq; obtain ⟨rfl, rfl⟩ := heq; simp [lexBlock] at h
      | [a, b], _, heq => simp at heq; obtain ⟨rfl, rfl, rfl⟩ := heq; simp [lexBlock] at h
      | a :: b :: d :: r'', hne, heq =>
        simp at heq
        obtain ⟨rfl, rfl, rfl, _⟩ := heq
        exact hne r'' rfl rfl
    · rename_i c' r' _ _ heq
      simp only [List.cons.injEq] at heq
      obtain ⟨rfl, rfl⟩ := heq
      cases hr : lexBlock (r ++ ['"', '"', '"']) with
      | none => simp [hr] at h
      | some x =>
        obtain ⟨v', rest⟩ := x
        simp [hr] at h
        obtain ⟨rfl, rfl⟩ := h
        rw [ih v' hr]
  | case3 =>
    intro v h
    simp only [List.nil_append, lexBlock, Option.some.injEq, Prod.mk.injEq] at h; exact h.1.symm

end AGV.Lemmas.ParseC13
