/-
  C25 — lemmas about the frame decoder (Model/WsFrame.lean) and the frame grammar
  (Spec/WsFrame.lean):

    * message level: the table-driven model of serde's tagged enum and derived visitors equals the
      specification's message table (`decodeMsg_eq`);
    * text level: the recursive-descent reader is sound and complete for the grammar
      (`pv_sound`, `pv_complete`), strings and numbers included.
-/
import AGV.Model.WsFrame

namespace AGV.Lemmas.WsFrame
open AGV.Spec.WsFrame AGV.Model.WsFrame AGV.Gen
set_option linter.unusedSimpArgs false
set_option linter.unusedVariables false

theorem slot_eq_member (k : Str) (kvs : List (Str × J)) : slot k kvs = member k kvs := by
  induction kvs with
  | nil => simp [slot, member]
  | cons p r ih =>
    unfold slot
    by_cases h : p.1 = k
    · simp only [h, if_true, ih]
      unfold member
      simp only [List.filter_cons, h, decide_true, if_true]
      generalize r.filter (fun p => decide (p.1 = k)) = l
      rcases l with _ | ⟨q, _ | ⟨q2, l⟩⟩ <;> rfl
    · simp only [h, if_false, ih]
      unfold member
      simp [h]

theorem member_filter_ne (k t : Str) (h : k ≠ t) (kvs : List (Str × J)) :
    member k (kvs.filter (fun p => p.1 ≠ t)) = member k kvs := by
  unfold member
  congr 1
  rw [List.filter_filter]
  apply List.filter_congr
  intro p _
  by_cases hp : p.1 = k
  · simp [hp, h]
  · simp [hp]

theorem drf_q (r k : Str) (a : Option (Option J)) :
    (a.bind (decodeReqField ⟨r, k, true, ['S', 't', 'r', 'i', 'n', 'g']⟩))
      = (queryOf a).map RSlot.q := by
  rcases a with _ | _ | j
  · rfl
  · simp [decodeReqField, tyString, queryOf]
  · cases j <;> simp [decodeReqField, tyString, queryOf]

theorem drf_o (r k : Str) (a : Option (Option J)) :
    (a.bind (decodeReqField ⟨r, k, true, ['O', 'p', 't', 'i', 'o', 'n', '<', 'S', 't', 'r', 'i', 'n', 'g', '>']⟩))
      = (opNameOf a).map RSlot.o := by
  rcases a with _ | _ | j
  · rfl
  · simp [decodeReqField, tyString, tyOptString, opNameOf]
  · cases j <;> simp [decodeReqField, tyString, tyOptString, opNameOf]

theorem drf_v (r k : Str) (a : Option (Option J)) :
    (a.bind (decodeReqField ⟨r, k, true, ['V', 'a', 'r', 'i', 'a', 'b', 'l', 'e', 's']⟩))
      = (membersOf a).map RSlot.m := by
  rcases a with _ | _ | j
  · rfl
  · simp [decodeReqField, tyString, tyOptString, tyVariables, membersOf]
  · cases j <;> simp [decodeReqField, tyString, tyOptString, tyVariables, membersOf]

theorem drf_e (r k : Str) (a : Option (Option J)) :
    (a.bind (decodeReqField ⟨r, k, true, ['E', 'x', 't', 'e', 'n', 's', 'i', 'o', 'n', 's']⟩))
      = (membersOf a).map RSlot.m := by
  rcases a with _ | _ | j
  · rfl
  · simp [decodeReqField, tyString, tyOptString, tyVariables, tyExtensions, membersOf]
  · cases j <;> simp [decodeReqField, tyString, tyOptString, tyVariables, tyExtensions, membersOf]

theorem decodeReqObj_eq (kvs : List (Str × J)) : decodeReqObj kvs = reqOf (.obj kvs) := by
  unfold decodeReqObj reqOf
  simp only [RequestKeys.jsonFields, List.map, slot_eq_member]
  have e1 : (['q','u','e','r','y'] : Str) = kQuery := rfl
  have e2 : (['o','p','e','r','a','t','i','o','n','N','a','m','e'] : Str) = kOperationName := rfl
  have e3 : (['v','a','r','i','a','b','l','e','s'] : Str) = kVariables := rfl
  have e4 : (['e','x','t','e','n','s','i','o','n','s'] : Str) = kExtensions := rfl
  rw [e1, e2, e3, e4, drf_q, drf_o, drf_v, drf_e]
  generalize queryOf (member kQuery kvs) = a
  generalize opNameOf (member kOperationName kvs) = b
  generalize membersOf (member kVariables kvs) = c
  generalize membersOf (member kExtensions kvs) = d
  cases a <;> cases b <;> cases c <;> cases d <;> simp [allSome, buildReq]

theorem decodeReq_eq (v : J) : decodeReq {} v = reqOf v := by
  cases v <;> simp [decodeReq, reqOf, decodeReqObj_eq]

def rowOf : Kind → WsWire.ClientVariant
  | .init => ⟨[tConnectionInit], "ConnectionInit", [(kPayload, .optJson)]⟩
  | .start => ⟨[tStart, tSubscribe], "Start", [(kId, .string), (kPayload, .request)]⟩
  | .stop => ⟨[tStop, tComplete], "Stop", [(kId, .string)]⟩
  | .term => ⟨[tConnectionTerminate], "ConnectionTerminate", []⟩
  | .ping => ⟨[tPing], "Ping", [(kPayload, .optJson)]⟩
  | .pong => ⟨[tPong], "Pong", [(kPayload, .optJson)]⟩

theorem variantOf_eq (t : Str) : variantOf t = (kindOf t).map rowOf := by
  unfold kindOf
  by_cases h1 : t = tConnectionInit
  · subst h1; rfl
  by_cases h2 : t = tStart
  · subst h2; rfl
  by_cases h3 : t = tSubscribe
  · subst h3; rfl
  by_cases h4 : t = tStop
  · subst h4; rfl
  by_cases h5 : t = tComplete
  · subst h5; rfl
  by_cases h6 : t = tConnectionTerminate
  · subst h6; rfl
  by_cases h7 : t = tPing
  · subst h7; rfl
  by_cases h8 : t = tPong
  · subst h8; rfl
  simp only [h1, h2, h3, h4, h5, h6, h7, h8, if_false, or_self, Option.map_none]
  simp only [tConnectionInit, tStart, tSubscribe, tStop, tComplete, tConnectionTerminate, tPing, tPong] at h1 h2 h3 h4 h5 h6 h7 h8
  simp [variantOf, WsWire.clientVariants, List.find?, h1, h2, h3, h4, h5, h6, h7, h8]

theorem optField (a : Option (Option J)) :
    (a.bind (decodeField {} .optJson)) = (match a with
      | none => none | some none => some none | some (some .null) => some none | some (some v) => some (some v)).map Slot.j := by
  rcases a with _ | _ | j
  · rfl
  · rfl
  · cases j <;> rfl

theorem decodeVariantMap_eq (k : Kind) (kvs : List (Str × J)) :
    decodeVariantMap {} (rowOf k) (kvs.filter (fun p => p.1 ≠ WsWire.clientTag)) =
      match k with
      | .init => (optPayload kvs).map .init
      | .start =>
        match idOf kvs, member kPayload kvs with
        | some id, some (some p) => (reqOf p).map (.start id)
        | _, _ => none
      | .stop => (idOf kvs).map .stop
      | .term => some .term
      | .ping => (optPayload kvs).map .ping
      | .pong => (optPayload kvs).map .pong := by
  have hp : member kPayload (kvs.filter (fun p => p.1 ≠ WsWire.clientTag)) = member kPayload kvs :=
    member_filter_ne _ _ (by decide) kvs
  have hi : member kId (kvs.filter (fun p => p.1 ≠ WsWire.clientTag)) = member kId kvs :=
    member_filter_ne _ _ (by decide) kvs
  cases k <;> simp only [decodeVariantMap, rowOf, List.map, slot_eq_member, hp, hi, optField]
  · unfold optPayload
    generalize member kPayload kvs = a
    rcases a with _ | _ | j
    · rfl
    · rfl
    · cases j <;> rfl
  · unfold idOf
    generalize member kPayload kvs = a
    generalize member kId kvs = b
    rcases b with _ | _ | j
    · rfl
    · rcases a with _ | _ | p <;> rfl
    · cases j <;> (try (rcases a with _ | _ | p <;> rfl))
      rcases a with _ | _ | p
      · rfl
      · rfl
      · simp [decodeField, decodeReq_eq, allSome, build]
        cases reqOf p <;> simp [allSome, build]
  · unfold idOf
    generalize member kId kvs = b
    rcases b with _ | _ | j
    · rfl
    · rfl
    · cases j <;> rfl
  · rfl
  · unfold optPayload
    generalize member kPayload kvs = a
    rcases a with _ | _ | j
    · rfl
    · rfl
    · cases j <;> rfl
  · unfold optPayload
    generalize member kPayload kvs = a
    rcases a with _ | _ | j
    · rfl
    · rfl
    · cases j <;> rfl

theorem decodeMsg_eq (v : J) : decodeMsg {} v = msgOf v := by
  cases v with
  | obj kvs =>
    unfold decodeMsg msgOf member
    have ht : WsWire.clientTag = kType := rfl
    simp only [ht]
    generalize hl : kvs.filter (fun p => decide (p.1 = kType)) = l
    rcases l with _ | ⟨⟨k0, j⟩, _ | ⟨q2, l⟩⟩
    · rfl
    · cases j <;> try rfl
      rename_i t
      simp only [variantOf_eq]
      cases hk : kindOf t with
      | none => rfl
      | some k =>
        simp only [Option.map_some]
        have := decodeVariantMap_eq k kvs
        rw [ht] at this
        rw [this]
        cases k <;> rfl
    · cases j <;> rfl
  | arr xs =>
    cases xs with
    | nil => rfl
    | cons x r => cases x <;> rfl
  | _ => rfl

theorem skipWs_append_ws (w r : Str) (h : AllWs w) : skipWs (w ++ r) = skipWs r := by
  induction w with
  | nil => rfl
  | cons c w ih =>
    have hc : isWs c = true := h c (by simp)
    simp only [List.cons_append, skipWs, hc, if_true]
    exact ih (fun x hx => h x (by simp [hx]))

theorem skipWs_cons_nonws (c : Char) (r : Str) (h : isWs c = false) : skipWs (c :: r) = c :: r := by
  simp [skipWs, h]

theorem skipWs_spec (cs : Str) : ∃ w, cs = w ++ skipWs cs ∧ AllWs w := by
  induction cs with
  | nil => exact ⟨[], rfl, by simp [AllWs]⟩
  | cons c r ih =>
    by_cases hc : isWs c = true
    · obtain ⟨w, hw, ha⟩ := ih
      refine ⟨c :: w, ?_, ?_⟩
      · simp only [skipWs, hc, if_true, List.cons_append]; rw [← hw]
      · intro x hx
        rcases List.mem_cons.mp hx with rfl | hx
        · exact hc
        · exact ha x hx
    · refine ⟨[], ?_, by simp [AllWs]⟩
      simp [skipWs, hc]

theorem skipWs_head (cs : Str) (c : Char) (r : Str) (h : skipWs cs = c :: r) : isWs c = false := by
  induction cs with
  | nil => simp [skipWs] at h
  | cons d t ih =>
    by_cases hd : isWs d = true
    · simp only [skipWs, hd, if_true] at h; exact ih h
    · simp only [skipWs, hd] at h
      simp at h
      obtain ⟨rfl, _⟩ := h
      simpa using hd

theorem skipWs_nil_iff (r : Str) : skipWs r = [] ↔ AllWs r := by
  induction r with
  | nil => simp [skipWs, AllWs]
  | cons c r ih =>
    by_cases hc : isWs c = true
    · simp only [skipWs, hc, if_true, ih]
      constructor
      · intro h x hx
        rcases List.mem_cons.mp hx with rfl | hx
        · exact hc
        · exact h x hx
      · intro h x hx; exact h x (by simp [hx])
    · simp only [skipWs, hc]
      constructor
      · intro h; simp at h
      · intro h; exact absurd (h c (by simp)) hc

theorem readStr_complete {t s : Str} (h : StrBody t s) (rest : Str) :
    readStr (t ++ '"' :: rest) = some (s, rest) := by
  induction h with
  | nil => rw [readStr.eq_def]; simp
  | plain c h1 h2 h3 _ ih =>
    have : ¬ c.toNat < 32 := by omega
    rw [readStr.eq_def]; simp [h2, h3, this, ih, consStr]
  | esc e c he _ ih =>
    have hu : e ≠ 'u' := by
      intro h; subst h; simp [simpleEsc] at he
    rw [readStr.eq_def]; simp [hu, he, ih, consStr]
  | uni a b c d n hh h1 h2 _ ih =>
    rw [readStr.eq_def]; simp [hh, h1, h2, ih, consStr]
  | pair a b c d e f g h hi lo h1 h2 h3 h4 _ ih =>
    rw [readStr.eq_def]; simp [h1, h2, h3, h4, ih, consStr]

theorem consStr_some {c : Char} {o : Option (Str × Str)} {s rest : Str} (h : consStr c o = some (s, rest)) :
    ∃ s', o = some (s', rest) ∧ s = c :: s' := by
  cases o with
  | none => simp [consStr] at h
  | some p => obtain ⟨s', r⟩ := p; simp [consStr] at h; obtain ⟨rfl, rfl⟩ := h; exact ⟨s', rfl, rfl⟩

theorem readStr_sound (cs : Str) : ∀ (s rest : Str), readStr cs = some (s, rest) →
    ∃ t, cs = t ++ '"' :: rest ∧ StrBody t s := by
  fun_induction readStr cs <;> intro s rest h
  all_goals (try (simp at h; done))
  case case2 r =>
    simp at h; obtain ⟨rfl, rfl⟩ := h
    exact ⟨[], rfl, .nil⟩
  case case6 a b c d hi hh1 hh2 b1 u1 e1 f1 g1 h1 r3 hbu lo hl1 hl2 _ ih =>
    obtain ⟨s', hs, rfl⟩ := consStr_some h
    obtain ⟨t, rfl, hb⟩ := ih s' rest hs
    obtain ⟨rfl, rfl⟩ := hbu
    exact ⟨_, by simp, .pair a b c d e1 f1 g1 h1 hi lo hh1 hh2 hl1 hl2 hb⟩
  case case11 a b c d r2 n hn h1 h2 _ ih =>
    obtain ⟨s', hs, rfl⟩ := consStr_some h
    obtain ⟨t, rfl, hb⟩ := ih s' rest hs
    exact ⟨_, by simp, .uni a b c d n hn (by simpa using h1) (by simpa using h2) hb⟩
  case case13 e r1 hu x hx _ ih =>
    obtain ⟨s', hs, rfl⟩ := consStr_some h
    obtain ⟨t, rfl, hb⟩ := ih s' rest hs
    exact ⟨_, by simp, .esc e x hx hb⟩
  case case16 c r h1 h2 h3 ih =>
    obtain ⟨s', hs, rfl⟩ := consStr_some h
    obtain ⟨t, rfl, hb⟩ := ih s' rest hs
    exact ⟨c :: t, by simp, .plain c (by omega) h1 h2 hb⟩

theorem spanDigits_spec (cs : Str) : cs = (spanDigits cs).1 ++ (spanDigits cs).2 ∧ AllDigits (spanDigits cs).1 := by
  induction cs with
  | nil => simp [spanDigits, AllDigits]
  | cons c r ih =>
    by_cases hc : isDigit c = true
    · simp only [spanDigits, hc, if_true, List.cons_append]
      refine ⟨by rw [← ih.1], ?_⟩
      intro x hx
      rcases List.mem_cons.mp hx with rfl | hx
      · exact hc
      · exact ih.2 x hx
    · simp [spanDigits, hc, AllDigits]

/-- the text does not start with a digit -/
def NoDigit (rest : Str) : Prop := ∀ c r, rest = c :: r → isDigit c = false

theorem spanDigits_append (ds rest : Str) (hd : AllDigits ds) (hr : NoDigit rest) :
    spanDigits (ds ++ rest) = (ds, rest) := by
  induction ds with
  | nil =>
    cases rest with
    | nil => rfl
    | cons c r => simp [spanDigits, hr c r rfl]
  | cons d ds ih =>
    have h1 : isDigit d = true := hd d (by simp)
    have := ih (fun x hx => hd x (by simp [hx]))
    simp [spanDigits, h1, this]

theorem spanDigits_head_nodigit (cs : Str) : NoDigit (spanDigits cs).2 := by
  induction cs with
  | nil => intro c r h; simp [spanDigits] at h
  | cons c r ih =>
    by_cases hc : isDigit c = true
    · simpa [spanDigits, hc] using ih
    · intro x y h
      simp [spanDigits, hc] at h
      obtain ⟨rfl, _⟩ := h
      simpa using hc

/-- what may follow a number token without changing it -/
def SafeNum (rest : Str) : Prop :=
  ∀ c r, rest = c :: r → isDigit c = false ∧ c ≠ '.' ∧ c ≠ 'e' ∧ c ≠ 'E'

theorem readNum_sound (cs tok rest : Str) (h : readNum cs = some (tok, rest)) :
    cs = tok ++ rest ∧ NumTok tok := by
  unfold readNum at h
  -- sign
  have hm : cs = (readMinus cs).1 ++ (readMinus cs).2 ∧ ((readMinus cs).1 = [] ∨ (readMinus cs).1 = ['-']) := by
    cases cs with
    | nil => simp [readMinus]
    | cons c r => by_cases hc : c = '-' <;> simp [readMinus, hc]
  generalize (readMinus cs).1 = sg at h hm
  generalize (readMinus cs).2 = r0 at h hm
  obtain ⟨hcs, hsg⟩ := hm
  -- integer part
  cases hi : readInt r0 with
  | none => simp [hi] at h
  | some p1 =>
    obtain ⟨ip, r1⟩ := p1
    simp only [hi] at h
    have hip : r0 = ip ++ r1 ∧ IntPart ip := by
      cases r0 with
      | nil => simp [readInt] at hi
      | cons c r =>
        simp only [readInt] at hi
        by_cases h0 : c = '0'
        · simp [h0] at hi; obtain ⟨rfl, rfl⟩ := hi; subst h0; exact ⟨rfl, .zero⟩
        · by_cases hd : isDigit c = true
          · simp [h0, hd] at hi
            obtain ⟨rfl, rfl⟩ := hi
            have := spanDigits_spec r
            exact ⟨by simp [← this.1], .pos c _ hd h0 this.2⟩
          · simp [h0, hd] at hi
    -- fraction
    cases hf : readFrac r1 with
    | none => simp [hf] at h
    | some p2 =>
      obtain ⟨fp, r2⟩ := p2
      simp only [hf] at h
      have hfp : r1 = fp ++ r2 ∧ FracPart fp := by
        cases r1 with
        | nil => simp [readFrac] at hf; obtain ⟨rfl, rfl⟩ := hf; exact ⟨rfl, .none⟩
        | cons c r =>
          simp only [readFrac] at hf
          by_cases hc : c = '.'
          · by_cases he : (spanDigits r).1 = []
            · simp [hc, he] at hf
            · simp [hc, he] at hf
              obtain ⟨rfl, rfl⟩ := hf
              have := spanDigits_spec r
              subst hc
              exact ⟨by simp [← this.1], .some _ he this.2⟩
          · simp [hc] at hf; obtain ⟨rfl, rfl⟩ := hf; exact ⟨rfl, .none⟩
      -- exponent
      cases hx : readExp r2 with
      | none => simp [hx] at h
      | some p3 =>
        obtain ⟨ep, r3⟩ := p3
        simp only [hx] at h
        have hep : r2 = ep ++ r3 ∧ ExpPart ep := by
          cases r2 with
          | nil => simp [readExp] at hx; obtain ⟨rfl, rfl⟩ := hx; exact ⟨rfl, .none⟩
          | cons c r =>
            simp only [readExp] at hx
            by_cases hc : c = 'e' ∨ c = 'E'
            · by_cases he : (spanDigits (readSign r).2).1 = []
              · simp [hc, he] at hx
              · simp only [hc, he, if_true, if_false] at hx
                simp at hx
                obtain ⟨rfl, rfl⟩ := hx
                have hs : r = (readSign r).1 ++ (readSign r).2 ∧
                    ((readSign r).1 = [] ∨ (readSign r).1 = ['+'] ∨ (readSign r).1 = ['-']) := by
                  cases r with
                  | nil => simp [readSign]
                  | cons d t => by_cases h1 : d = '+' <;> by_cases h2 : d = '-' <;> simp [readSign, h1, h2]
                have := spanDigits_spec (readSign r).2
                refine ⟨?_, .some c _ _ hc hs.2 he this.2⟩
                simp only [List.cons_append, List.append_assoc]
                rw [← this.1, ← hs.1]
            · simp [hc] at hx; obtain ⟨rfl, rfl⟩ := hx; exact ⟨rfl, .none⟩
        simp at h
        obtain ⟨rfl, rfl⟩ := h
        refine ⟨?_, sg, ip, fp, ep, rfl, hsg, hip.2, hfp.2, hep.2⟩
        rw [hcs, hip.1, hfp.1, hep.1]; simp

theorem isDigit_ne {c d : Char} (h : isDigit c = true) (hd : isDigit d = false) : c ≠ d := by
  intro e; subst e; simp [h] at hd

theorem readExp_complete (ep rest : Str) (h : ExpPart ep) (hs : SafeNum rest) :
    readExp (ep ++ rest) = some (ep, rest) := by
  cases h with
  | none =>
    cases rest with
    | nil => rfl
    | cons c r =>
      obtain ⟨_, _, h2, h3⟩ := hs c r rfl
      simp [readExp, h2, h3]
  | some e sg ds he hsg hne hd =>
    have hnd : NoDigit rest := fun c r h => (hs c r h).1
    obtain ⟨d0, ds', rfl⟩ := List.exists_cons_of_ne_nil hne
    have hd0 : isDigit d0 = true := hd d0 (by simp)
    have hp : d0 ≠ '+' := isDigit_ne hd0 (by decide)
    have hm : d0 ≠ '-' := isDigit_ne hd0 (by decide)
    have hrs : readSign (sg ++ (d0 :: ds') ++ rest) = (sg, (d0 :: ds') ++ rest) := by
      rcases hsg with rfl | rfl | rfl <;> simp [readSign, hp, hm]
    have hsp := spanDigits_append (d0 :: ds') rest hd hnd
    simp only [List.cons_append, List.append_assoc] at hrs hsp ⊢
    simp only [readExp, he, if_true, hrs, hsp]
    simp

theorem readFrac_complete (fp rest : Str) (h : FracPart fp) (hs : ∀ c r, rest = c :: r → isDigit c = false ∧ c ≠ '.') :
    readFrac (fp ++ rest) = some (fp, rest) := by
  cases h with
  | none =>
    cases rest with
    | nil => rfl
    | cons c r => simp [readFrac, (hs c r rfl).2]
  | some ds hne hd =>
    have hsp := spanDigits_append ds rest hd (fun c r h => (hs c r h).1)
    simp [readFrac, hsp, hne]

theorem readInt_complete (ip rest : Str) (h : IntPart ip) (hs : NoDigit rest) :
    readInt (ip ++ rest) = some (ip, rest) := by
  cases h with
  | zero => simp [readInt]
  | pos d ds hd h0 hds =>
    have hsp := spanDigits_append ds rest hds hs
    simp [readInt, h0, hd, hsp]

theorem ExpPart_head {ep : Str} (h : ExpPart ep) (c : Char) (r : Str) (he : ep = c :: r) :
    isDigit c = false ∧ c ≠ '.' ∧ c ≠ '-' := by
  cases h with
  | none => simp at he
  | some e sg ds h1 _ _ _ =>
    simp at he; obtain ⟨rfl, _⟩ := he
    rcases h1 with rfl | rfl <;> decide

theorem FracPart_head {fp : Str} (h : FracPart fp) (c : Char) (r : Str) (he : fp = c :: r) :
    isDigit c = false ∧ c ≠ '-' := by
  cases h with
  | none => simp at he
  | some ds _ _ => simp at he; obtain ⟨rfl, _⟩ := he; decide

theorem readNum_complete (tok rest : Str) (h : NumTok tok) (hs : SafeNum rest) :
    readNum (tok ++ rest) = some (tok, rest) := by
  obtain ⟨sg, ip, fp, ep, rfl, hsg, hip, hfp, hep⟩ := h
  -- heads
  have h3 : ∀ c r, ep ++ rest = c :: r → isDigit c = false ∧ c ≠ '.' := by
    intro c r he
    cases ep with
    | nil => exact ⟨(hs c r he).1, (hs c r he).2.1⟩
    | cons x y => simp at he; obtain ⟨rfl, _⟩ := he; exact ⟨(ExpPart_head hep _ _ rfl).1, (ExpPart_head hep _ _ rfl).2.1⟩
  have h2 : NoDigit (fp ++ (ep ++ rest)) := by
    intro c r he
    cases fp with
    | nil => exact (h3 c r he).1
    | cons x y => simp at he; obtain ⟨rfl, _⟩ := he; exact (FracPart_head hfp _ _ rfl).1
  have hipne : ∃ d t, ip = d :: t ∧ d ≠ '-' := by
    cases hip with
    | zero => exact ⟨_, _, rfl, by decide⟩
    | pos d ds hd _ _ => exact ⟨d, ds, rfl, isDigit_ne hd (by decide)⟩
  obtain ⟨d, t, rfl, hdm⟩ := hipne
  have hmin : readMinus (sg ++ ((d :: t) ++ (fp ++ ep)) ++ rest) = (sg, (d :: t) ++ (fp ++ (ep ++ rest))) := by
    rcases hsg with rfl | rfl <;> simp [readMinus, hdm]
  unfold readNum
  rw [hmin]
  simp only []
  rw [readInt_complete _ _ hip h2]
  simp only []
  rw [readFrac_complete _ _ hfp h3]
  simp only []
  rw [readExp_complete _ _ hep hs]

theorem skipWs_idem (cs : Str) : skipWs (skipWs cs) = skipWs cs := by
  cases h : skipWs cs with
  | nil => rfl
  | cons c r => exact skipWs_cons_nonws c r (skipWs_head cs c r h)

theorem pvStep_skipWs (rec : Option PV) (cs : Str) : pvStep rec (skipWs cs) = pvStep rec cs := by
  unfold pvStep; rw [skipWs_idem]

theorem pv_eq (d : Nat) : pv d = pvStep (match d with | 0 => none | d + 1 => some (pv d)) := by
  cases d <;> rfl

theorem pv_skipWs (d : Nat) (cs : Str) : pv d (skipWs cs) = pv d cs := by
  rw [pv_eq]; exact pvStep_skipWs _ _

theorem pv_ws_append (d : Nat) (w cs : Str) (h : AllWs w) : pv d (w ++ cs) = pv d cs := by
  rw [← pv_skipWs, skipWs_append_ws w cs h, pv_skipWs]

/-- the first character of a number token -/
theorem NumTok_head {tok : Str} (h : NumTok tok) : ∃ c r, tok = c :: r ∧ (c = '-' ∨ isDigit c = true) := by
  obtain ⟨sg, ip, fp, ep, rfl, hsg, hip, _, _⟩ := h
  rcases hsg with rfl | rfl
  · cases hip with
    | zero => exact ⟨'0', _, rfl, .inr (by decide)⟩
    | pos d ds hd _ _ => exact ⟨d, _, rfl, .inr hd⟩
  · exact ⟨'-', _, rfl, .inl rfl⟩

/-- characters a value can start with -/
def StartCh (c : Char) : Prop :=
  c = 'n' ∨ c = 't' ∨ c = 'f' ∨ c = '"' ∨ c = '[' ∨ c = '{' ∨ c = '-' ∨ isDigit c = true

theorem StartCh_props {c : Char} (h : StartCh c) : isWs c = false ∧ c ≠ ']' ∧ c ≠ '}' ∧ c ≠ ',' ∧ c ≠ ':' := by
  rcases h with rfl | rfl | rfl | rfl | rfl | rfl | rfl | h
  any_goals decide
  refine ⟨?_, ?_, ?_, ?_, ?_⟩
  · cases hw : isWs c
    · rfl
    · exfalso
      simp only [isWs, Bool.or_eq_true, beq_iff_eq] at hw
      rcases hw with ((rfl | rfl) | rfl) | rfl <;> simp [isDigit] at h
  all_goals (intro e; subst e; simp [isDigit] at h)

theorem Val_head {d : Nat} {t : Str} {v : J} (h : Val d t v) : ∃ c r, t = c :: r ∧ StartCh c := by
  cases h with
  | null => exact ⟨_, _, rfl, .inl rfl⟩
  | tru => exact ⟨_, _, rfl, .inr (.inl rfl)⟩
  | fls => exact ⟨_, _, rfl, .inr (.inr (.inl rfl))⟩
  | num =>
    rename_i h1 _
    obtain ⟨c, r, rfl, hc⟩ := NumTok_head h1
    exact ⟨c, r, rfl, .inr (.inr (.inr (.inr (.inr (.inr hc)))))⟩
  | str => exact ⟨_, _, rfl, .inr (.inr (.inr (.inl rfl)))⟩
  | arr0 => exact ⟨_, _, rfl, .inr (.inr (.inr (.inr (.inl rfl))))⟩
  | arr => exact ⟨_, _, rfl, .inr (.inr (.inr (.inr (.inl rfl))))⟩
  | obj0 => exact ⟨_, _, rfl, .inr (.inr (.inr (.inr (.inr (.inl rfl)))))⟩
  | obj => exact ⟨_, _, rfl, .inr (.inr (.inr (.inr (.inr (.inl rfl)))))⟩

theorem safe_ws_append (w r : Str) (c : Char) (hc : isDigit c = false ∧ c ≠ '.' ∧ c ≠ 'e' ∧ c ≠ 'E') (hw : AllWs w) :
    SafeNum (w ++ c :: r) := by
  intro x y h
  cases w with
  | nil => simp at h; obtain ⟨rfl, _⟩ := h; exact hc
  | cons a w' =>
    simp at h; obtain ⟨rfl, _⟩ := h
    have ha : isWs a = true := hw a (by simp)
    simp only [isWs, Bool.or_eq_true, beq_iff_eq] at ha
    rcases ha with ((rfl | rfl) | rfl) | rfl <;> decide

theorem safe_ws (w : Str) (hw : AllWs w) : SafeNum w := by
  intro x y h
  subst h
  have ha : isWs x = true := hw x (by simp)
  simp only [isWs, Bool.or_eq_true, beq_iff_eq] at ha
  rcases ha with ((rfl | rfl) | rfl) | rfl <;> decide

/-- scalars: the result does not depend on the recursion -/
theorem pvStep_scalar (rec : Option PV) (rest : Str) :
    pvStep rec (['n', 'u', 'l', 'l'] ++ rest) = some (.null, rest) ∧
    pvStep rec (['t', 'r', 'u', 'e'] ++ rest) = some (.bool true, rest) ∧
    pvStep rec (['f', 'a', 'l', 's', 'e'] ++ rest) = some (.bool false, rest) ∧
    (∀ t s, StrBody t s → pvStep rec (('"' :: (t ++ ['"'])) ++ rest) = some (.str s, rest)) ∧
    (∀ tok, SafeNum rest → NumTok tok → finite64 tok = true → pvStep rec (tok ++ rest) = some (.num tok, rest)) := by
  refine ⟨?_, ?_, ?_, ?_, ?_⟩
  · simp [pvStep, skipWs, isWs, lit, dropPrefix]
  · simp [pvStep, skipWs, isWs, lit, dropPrefix]
  · simp [pvStep, skipWs, isWs, lit, dropPrefix]
  · intro t s h
    have := readStr_complete h rest
    simp [pvStep, skipWs, isWs, this]
  · intro tok hs h1 h2
    obtain ⟨c, r, rfl, hc⟩ := NumTok_head h1
    have hst : StartCh c := .inr (.inr (.inr (.inr (.inr (.inr hc)))))
    have hp := StartCh_props hst
    have hn := readNum_complete _ rest h1 hs
    have e1 : c ≠ 'n' := by rcases hc with rfl | hc; decide; intro e; subst e; simp [isDigit] at hc
    have e2 : c ≠ 't' := by rcases hc with rfl | hc; decide; intro e; subst e; simp [isDigit] at hc
    have e3 : c ≠ 'f' := by rcases hc with rfl | hc; decide; intro e; subst e; simp [isDigit] at hc
    have e4 : c ≠ '"' := by rcases hc with rfl | hc; decide; intro e; subst e; simp [isDigit] at hc
    have e5 : c ≠ '[' := by rcases hc with rfl | hc; decide; intro e; subst e; simp [isDigit] at hc
    have e6 : c ≠ '{' := by rcases hc with rfl | hc; decide; intro e; subst e; simp [isDigit] at hc
    simp only [List.cons_append] at hn ⊢
    simp [pvStep, skipWs, hp.1, e1, e2, e3, e4, e5, e6, hn, h2]

/-- completeness of the element loop, for any reader `f` that is complete on the items -/
theorem pElems_complete (f : PV) (rest : Str) (its : List Item) (hne : its ≠ [])
    (hws : ∀ i ∈ its, AllWs i.w1 ∧ AllWs i.w2)
    (hf : ∀ i ∈ its, ∀ r, SafeNum r → f (i.w1 ++ (i.t ++ r)) = some (i.v, r))
    (n : Nat) (hn : its.length ≤ n) :
    pElems f n (joinComma (its.map Item.text) ++ ']' :: rest) = some (its.map (·.v), rest) := by
  induction its generalizing n with
  | nil => exact absurd rfl hne
  | cons i r ih =>
    obtain ⟨hw1, hw2⟩ := hws i (by simp)
    cases n with
    | zero => simp at hn
    | succ n =>
      cases r with
      | nil =>
        have h1 := hf i (by simp) (i.w2 ++ ']' :: rest) (safe_ws_append _ _ _ (by decide) hw2)
        have h2 : skipWs (i.w2 ++ ']' :: rest) = ']' :: rest := by
          rw [skipWs_append_ws _ _ hw2]; exact skipWs_cons_nonws _ _ (by decide)
        simp only [List.map, joinComma, Item.text, List.append_assoc, pElems, h1, h2]
        simp
      | cons j r' =>
        have h1 := hf i (by simp) (i.w2 ++ ',' :: (joinComma ((j :: r').map Item.text) ++ ']' :: rest))
          (safe_ws_append _ _ _ (by decide) hw2)
        have h2 : skipWs (i.w2 ++ ',' :: (joinComma ((j :: r').map Item.text) ++ ']' :: rest))
            = ',' :: (joinComma ((j :: r').map Item.text) ++ ']' :: rest) := by
          rw [skipWs_append_ws _ _ hw2]; exact skipWs_cons_nonws _ _ (by decide)
        have h3 := ih (by simp) (fun x hx => hws x (by simp [hx])) (fun x hx => hf x (by simp [hx])) n (by simpa using hn)
        simp only [List.map, joinComma, Item.text, List.append_assoc, List.cons_append, pElems] at h1 h2 h3 ⊢
        rw [h1]
        simp only [h2, if_true, h3, consRes]

theorem pMembers_complete (f : PV) (rest : Str) (ms : List Memb) (hne : ms ≠ [])
    (hws : ∀ m ∈ ms, AllWs m.w1 ∧ AllWs m.w2 ∧ AllWs m.w3 ∧ AllWs m.w4 ∧ StrBody m.kt m.k)
    (hf : ∀ m ∈ ms, ∀ r, SafeNum r → f (m.w3 ++ (m.t ++ r)) = some (m.v, r))
    (n : Nat) (hn : ms.length ≤ n) :
    pMembers f n (joinComma (ms.map Memb.text) ++ '}' :: rest) = some (ms.map (fun m => (m.k, m.v)), rest) := by
  induction ms generalizing n with
  | nil => exact absurd rfl hne
  | cons m r ih =>
    obtain ⟨hw1, hw2, hw3, hw4, hk⟩ := hws m (by simp)
    cases n with
    | zero => simp at hn
    | succ n =>
      -- the part common to both cases: ws "key" ws : ws value ws
      have key : ∀ (c2 : Char) (r4 : Str), (c2 = ',' ∨ c2 = '}') →
          pMembers f (n + 1) (m.w1 ++ ('"' :: (m.kt ++ ('"' :: (m.w2 ++ (':' :: (m.w3 ++ (m.t ++ (m.w4 ++ c2 :: r4)))))))))
            = if c2 = ',' then consRes (m.k, m.v) (pMembers f n r4)
                else if c2 = '}' then some ([(m.k, m.v)], r4)
                else none := by
        intro c2 r4 hc2
        have hsafe : SafeNum (m.w4 ++ c2 :: r4) :=
          safe_ws_append _ _ _ (by rcases hc2 with rfl | rfl <;> decide) hw4
        have hnw : isWs c2 = false := by rcases hc2 with rfl | rfl <;> decide
        have s1 : skipWs (m.w1 ++ ('"' :: (m.kt ++ ('"' :: (m.w2 ++ (':' :: (m.w3 ++ (m.t ++ (m.w4 ++ c2 :: r4)))))))))
            = '"' :: (m.kt ++ ('"' :: (m.w2 ++ (':' :: (m.w3 ++ (m.t ++ (m.w4 ++ c2 :: r4))))))) := by
          rw [skipWs_append_ws _ _ hw1]; exact skipWs_cons_nonws _ _ (by decide)
        have s2 := readStr_complete hk (m.w2 ++ (':' :: (m.w3 ++ (m.t ++ (m.w4 ++ c2 :: r4)))))
        have s3 : skipWs (m.w2 ++ (':' :: (m.w3 ++ (m.t ++ (m.w4 ++ c2 :: r4)))))
            = ':' :: (m.w3 ++ (m.t ++ (m.w4 ++ c2 :: r4))) := by
          rw [skipWs_append_ws _ _ hw2]; exact skipWs_cons_nonws _ _ (by decide)
        have s4 := hf m (by simp) (m.w4 ++ c2 :: r4) hsafe
        have s5 : skipWs (m.w4 ++ c2 :: r4) = c2 :: r4 := by
          rw [skipWs_append_ws _ _ hw4]; exact skipWs_cons_nonws _ _ hnw
        rw [pMembers]
        simp only [s1, if_true, s2, s3, s4, s5]
      cases r with
      | nil =>
        have := key '}' rest (.inr rfl)
        simp only [List.map, joinComma, Memb.text, List.append_assoc, List.cons_append] at this ⊢
        rw [this]; simp
      | cons j r' =>
        have := key ',' (joinComma ((j :: r').map Memb.text) ++ '}' :: rest) (.inl rfl)
        have h3 := ih (by simp) (fun x hx => hws x (by simp [hx])) (fun x hx => hf x (by simp [hx])) n (by simpa using hn)
        simp only [List.map, joinComma, Memb.text, List.append_assoc, List.cons_append] at this h3 ⊢
        rw [this]; simp only [if_true, h3, consRes]

theorem joinComma_length (l : List Str) (h : ∀ x ∈ l, x ≠ []) : l.length ≤ (joinComma l).length := by
  induction l with
  | nil => simp
  | cons x r ih =>
    have hx : 1 ≤ x.length := by
      have := h x (by simp)
      cases x with
      | nil => exact absurd rfl this
      | cons _ _ => simp
    cases r with
    | nil => simpa [joinComma] using hx
    | cons y r' =>
      have := ih (fun z hz => h z (by simp [hz]))
      simp only [joinComma, List.length_append, List.length_cons] at this ⊢
      omega

theorem pElems_skipWs (f : PV) (hf : ∀ x, f (skipWs x) = f x) (n : Nat) (cs : Str) :
    pElems f n (skipWs cs) = pElems f n cs := by
  cases n with
  | zero => rfl
  | succ n => simp only [pElems, hf]

theorem pMembers_skipWs (f : PV) (n : Nat) (cs : Str) :
    pMembers f n (skipWs cs) = pMembers f n cs := by
  cases n with
  | zero => rfl
  | succ n => simp only [pMembers, skipWs_idem]

/-- the head of a non-empty comma-joined list of item texts, after white space -/
theorem joinComma_head_items (its : List Item) (hne : its ≠ []) (hws : ∀ i ∈ its, AllWs i.w1 ∧ AllWs i.w2)
    (hv : ∀ i ∈ its, ∃ c r, i.t = c :: r ∧ StartCh c) (tail : Str) :
    ∃ c r, skipWs (joinComma (its.map Item.text) ++ tail) = c :: r ∧ StartCh c := by
  cases its with
  | nil => exact absurd rfl hne
  | cons i r =>
    obtain ⟨c, t', ht, hc⟩ := hv i (by simp)
    have hw := (hws i (by simp)).1
    have : ∃ rest', joinComma ((i :: r).map Item.text) ++ tail = i.w1 ++ c :: rest' := by
      cases r with
      | nil => exact ⟨t' ++ (i.w2 ++ tail), by simp [joinComma, Item.text, ht]⟩
      | cons j r' =>
        exact ⟨t' ++ (i.w2 ++ ',' :: (joinComma ((j :: r').map Item.text) ++ tail)), by simp [joinComma, Item.text, ht]⟩
    obtain ⟨rest', he⟩ := this
    refine ⟨c, rest', ?_, hc⟩
    rw [he, skipWs_append_ws _ _ hw]; exact skipWs_cons_nonws _ _ (StartCh_props hc).1

/-- what may follow the text of `v`: anything, unless `v` is a number -/
def NumSafe (v : J) (rest : Str) : Prop := ∀ tok, v = .num tok → SafeNum rest

theorem pv_complete' {d : Nat} {t : Str} {v : J} (h : Val d t v) :
    ∀ rest, NumSafe v rest → pv d (t ++ rest) = some (v, rest) := by
  induction h with
  | null d => intro rest hs; rw [pv_eq]; exact (pvStep_scalar _ rest).1
  | tru d => intro rest hs; rw [pv_eq]; exact (pvStep_scalar _ rest).2.1
  | fls d => intro rest hs; rw [pv_eq]; exact (pvStep_scalar _ rest).2.2.1
  | num d tok h1 h2 => intro rest hs; rw [pv_eq]; exact (pvStep_scalar _ rest).2.2.2.2 tok (hs tok rfl) h1 h2
  | str d t s hb => intro rest hs; rw [pv_eq]; exact (pvStep_scalar _ rest).2.2.2.1 t s hb
  | arr0 d w hw =>
    intro rest hs
    have : skipWs (w ++ ']' :: rest) = ']' :: rest := by
      rw [skipWs_append_ws _ _ hw]; exact skipWs_cons_nonws _ _ (by decide)
    simp [pv, pvStep, skipWs, isWs, pArr, this]
  | arr d its hne hws hv ih =>
    intro rest hs
    obtain ⟨c, r, hsk, hc⟩ := joinComma_head_items its hne hws (fun i hi => Val_head (hv i hi)) (']' :: rest)
    have hcp := StartCh_props hc
    have hlen : its.length ≤ (joinComma (its.map Item.text) ++ ']' :: rest).length + 1 := by
      have := joinComma_length (its.map Item.text) (by
        intro x hx
        obtain ⟨i, hi, rfl⟩ := List.mem_map.mp hx
        obtain ⟨c, r, ht, _⟩ := Val_head (hv i hi)
        simp [Item.text, ht])
      simp only [List.length_map, List.length_append] at this ⊢
      omega
    have hel := pElems_complete (pv d) rest its hne hws
      (fun i hi r hr => by rw [pv_ws_append _ _ _ (hws i hi).1]; exact ih i hi r (fun _ _ => hr)) _ hlen
    rw [← pElems_skipWs _ (pv_skipWs d), hsk] at hel
    simp only [pv, pvStep, List.cons_append, List.append_assoc, List.nil_append]
    rw [skipWs_cons_nonws _ _ (by decide)]
    simp only []
    rw [if_neg (by decide), if_neg (by decide), if_neg (by decide), if_neg (by decide), if_pos trivial]
    simp only [pArr, hsk, hcp.2.1, if_false, hel]
  | obj0 d w hw =>
    intro rest hs
    have : skipWs (w ++ '}' :: rest) = '}' :: rest := by
      rw [skipWs_append_ws _ _ hw]; exact skipWs_cons_nonws _ _ (by decide)
    simp [pv, pvStep, skipWs, isWs, pObj, this]
  | obj d ms hne hws hv ih =>
    intro rest hs
    have hlen : ms.length ≤ (joinComma (ms.map Memb.text) ++ '}' :: rest).length + 1 := by
      have := joinComma_length (ms.map Memb.text) (by
        intro x hx
        obtain ⟨m, hm, rfl⟩ := List.mem_map.mp hx
        simp [Memb.text])
      simp only [List.length_map, List.length_append] at this ⊢
      omega
    have hel := pMembers_complete (pv d) rest ms hne hws
      (fun m hm r hr => by rw [pv_ws_append _ _ _ (hws m hm).2.2.1]; exact ih m hm r (fun _ _ => hr)) _ hlen
    -- the first member starts with white space and a quote
    obtain ⟨m, r, rfl⟩ := List.exists_cons_of_ne_nil hne
    have hw1 := (hws m (by simp)).1
    have hsk : ∃ tl, skipWs (joinComma ((m :: r).map Memb.text) ++ '}' :: rest) = '"' :: tl := by
      have : ∃ rest', joinComma ((m :: r).map Memb.text) ++ '}' :: rest = m.w1 ++ '"' :: rest' := by
        cases r with
        | nil => exact ⟨_, by simp only [List.map, joinComma, Memb.text, List.append_assoc, List.cons_append]; rfl⟩
        | cons j r' => exact ⟨_, by simp only [List.map, joinComma, Memb.text, List.append_assoc, List.cons_append]; rfl⟩
      obtain ⟨rest', he⟩ := this
      exact ⟨rest', by rw [he, skipWs_append_ws _ _ hw1]; exact skipWs_cons_nonws _ _ (by decide)⟩
    obtain ⟨tl, hsk⟩ := hsk
    rw [← pMembers_skipWs, hsk] at hel
    simp only [pv, pvStep, List.cons_append, List.append_assoc, List.nil_append]
    rw [skipWs_cons_nonws _ _ (by decide)]
    simp only []
    rw [if_neg (by decide), if_neg (by decide), if_neg (by decide), if_neg (by decide), if_neg (by decide), if_pos trivial]
    simp only [pObj, hsk, hel]
    rw [if_neg (by decide)]

theorem pv_complete {d : Nat} {t : Str} {v : J} (h : Val d t v) (rest : Str) (hs : SafeNum rest) :
    pv d (t ++ rest) = some (v, rest) := pv_complete' h rest (fun _ _ => hs)

/-- soundness of a value reader at depth `d` -/
def SoundAt (d : Nat) (f : PV) : Prop :=
  ∀ cs v rest, f cs = some (v, rest) → ∃ w t, cs = w ++ (t ++ rest) ∧ AllWs w ∧ Val d t v

theorem consRes_some {α : Type} {a : α} {o : Option (List α × Str)} {l : List α} {rest : Str}
    (h : consRes a o = some (l, rest)) : ∃ l', o = some (l', rest) ∧ l = a :: l' := by
  cases o with
  | none => simp [consRes] at h
  | some p => obtain ⟨l', r⟩ := p; simp [consRes] at h; obtain ⟨rfl, rfl⟩ := h; exact ⟨l', rfl, rfl⟩

theorem pElems_sound (f : PV) (d : Nat) (hf : SoundAt d f) :
    ∀ (n : Nat) (cs : Str) (vs : List J) (rest : Str), pElems f n cs = some (vs, rest) →
      ∃ its : List Item, its ≠ [] ∧ cs = joinComma (its.map Item.text) ++ ']' :: rest ∧
        (∀ i ∈ its, AllWs i.w1 ∧ AllWs i.w2) ∧ (∀ i ∈ its, Val d i.t i.v) ∧ vs = its.map (·.v) := by
  intro n
  induction n with
  | zero => intro cs vs rest h; simp [pElems] at h
  | succ n ih =>
    intro cs vs rest h
    rw [pElems] at h
    cases hfc : f cs with
    | none => simp [hfc] at h
    | some p =>
      obtain ⟨v, r⟩ := p
      simp only [hfc] at h
      obtain ⟨w, t, rfl, hw, hv⟩ := hf cs v r hfc
      obtain ⟨w2, hr, hw2⟩ := skipWs_spec r
      cases hsk : skipWs r with
      | nil => simp [hsk] at h
      | cons c r' =>
        simp only [hsk] at h
        rw [hsk] at hr
        by_cases hc : c = ','
        · simp only [hc, if_true] at h
          obtain ⟨vs', hrec, rfl⟩ := consRes_some h
          obtain ⟨its, hne, rfl, hws, hvs, rfl⟩ := ih r' vs' rest hrec
          refine ⟨⟨w, t, w2, v⟩ :: its, by simp, ?_, ?_, ?_, ?_⟩
          · obtain ⟨j, tl, rfl⟩ := List.exists_cons_of_ne_nil hne
            subst hc
            simp only [List.map, joinComma, Item.text, List.append_assoc, List.cons_append]
            rw [hr]; simp [Item.text]
          · intro i hi
            rcases List.mem_cons.mp hi with rfl | hi
            · exact ⟨hw, hw2⟩
            · exact hws i hi
          · intro i hi
            rcases List.mem_cons.mp hi with rfl | hi
            · exact hv
            · exact hvs i hi
          · simp
        · by_cases hc2 : c = ']'
          · simp only [hc, hc2, if_true, if_false] at h
            simp at h
            obtain ⟨rfl, rfl⟩ := h
            subst hc2
            refine ⟨[⟨w, t, w2, v⟩], by simp, ?_, ?_, ?_, ?_⟩
            · simp only [List.map, joinComma, Item.text, List.append_assoc]
              rw [hr]
            · intro i hi; simp at hi; subst hi; exact ⟨hw, hw2⟩
            · intro i hi; simp at hi; subst hi; exact hv
            · simp
          · simp [hc, hc2] at h

theorem pMembers_sound (f : PV) (d : Nat) (hf : SoundAt d f) :
    ∀ (n : Nat) (cs : Str) (kvs : List (Str × J)) (rest : Str), pMembers f n cs = some (kvs, rest) →
      ∃ ms : List Memb, ms ≠ [] ∧ cs = joinComma (ms.map Memb.text) ++ '}' :: rest ∧
        (∀ m ∈ ms, AllWs m.w1 ∧ AllWs m.w2 ∧ AllWs m.w3 ∧ AllWs m.w4 ∧ StrBody m.kt m.k) ∧
        (∀ m ∈ ms, Val d m.t m.v) ∧ kvs = ms.map (fun m => (m.k, m.v)) := by
  intro n
  induction n with
  | zero => intro cs kvs rest h; simp [pMembers] at h
  | succ n ih =>
    intro cs kvs rest h
    rw [pMembers] at h
    obtain ⟨w1, hcs, hw1⟩ := skipWs_spec cs
    cases hsk : skipWs cs with
    | nil => simp [hsk] at h
    | cons c r =>
      simp only [hsk] at h
      rw [hsk] at hcs
      by_cases hq : c = '"'
      · simp only [hq, if_true] at h
        cases hrs : readStr r with
        | none => simp [hrs] at h
        | some p =>
          obtain ⟨k, r1⟩ := p
          simp only [hrs] at h
          obtain ⟨kt, hr, hk⟩ := readStr_sound r k r1 hrs
          obtain ⟨w2, hr1, hw2⟩ := skipWs_spec r1
          cases hsk1 : skipWs r1 with
          | nil => simp [hsk1] at h
          | cons c1 r2 =>
            simp only [hsk1] at h
            rw [hsk1] at hr1
            by_cases hcol : c1 = ':'
            · simp only [hcol, if_true] at h
              cases hfv : f r2 with
              | none => simp [hfv] at h
              | some p2 =>
                obtain ⟨v, r3⟩ := p2
                simp only [hfv] at h
                obtain ⟨w3, t, hr2, hw3, hv⟩ := hf r2 v r3 hfv
                obtain ⟨w4, hr3, hw4⟩ := skipWs_spec r3
                cases hsk3 : skipWs r3 with
                | nil => simp [hsk3] at h
                | cons c2 r4 =>
                  simp only [hsk3] at h
                  rw [hsk3] at hr3
                  have htext : cs = (Memb.text ⟨w1, kt, k, w2, w3, t, w4, v⟩) ++ c2 :: r4 := by
                    rw [hcs, hq, hr, hr1, hcol, hr2, hr3]
                    simp [Memb.text]
                  by_cases hc : c2 = ','
                  · simp only [hc, if_true] at h
                    obtain ⟨kvs', hrec, rfl⟩ := consRes_some h
                    obtain ⟨ms, hne, hr4, hws, hvs, rfl⟩ := ih r4 kvs' rest hrec
                    refine ⟨⟨w1, kt, k, w2, w3, t, w4, v⟩ :: ms, by simp, ?_, ?_, ?_, ?_⟩
                    · obtain ⟨j, tl, rfl⟩ := List.exists_cons_of_ne_nil hne
                      rw [htext, hc, hr4]
                      simp only [List.map, joinComma, List.append_assoc, List.cons_append]
                    · intro m hm
                      rcases List.mem_cons.mp hm with rfl | hm
                      · exact ⟨hw1, hw2, hw3, hw4, hk⟩
                      · exact hws m hm
                    · intro m hm
                      rcases List.mem_cons.mp hm with rfl | hm
                      · exact hv
                      · exact hvs m hm
                    · simp
                  · by_cases hc2 : c2 = '}'
                    · simp only [hc, hc2, if_true, if_false] at h
                      simp at h
                      obtain ⟨rfl, rfl⟩ := h
                      refine ⟨[⟨w1, kt, k, w2, w3, t, w4, v⟩], by simp, ?_, ?_, ?_, ?_⟩
                      · rw [htext, hc2]; simp only [List.map, joinComma]
                      · intro m hm; simp at hm; subst hm; exact ⟨hw1, hw2, hw3, hw4, hk⟩
                      · intro m hm; simp at hm; subst hm; exact hv
                      · simp
                    · simp [hc, hc2] at h
            · simp [hcol] at h
      · simp [hq] at h

theorem dropPrefix_sound (p cs r : Str) (h : dropPrefix p cs = some r) : cs = p ++ r := by
  induction p generalizing cs with
  | nil => simp [dropPrefix] at h; simp [h]
  | cons a p ih =>
    cases cs with
    | nil => simp [dropPrefix] at h
    | cons c cs =>
      by_cases hac : a = c
      · simp [dropPrefix, hac] at h; simp [hac, ih cs h]
      · simp [dropPrefix, hac] at h

theorem lit_sound (p : Str) (v v' : J) (r rest : Str) (h : lit p v r = some (v', rest)) :
    r = p ++ rest ∧ v' = v := by
  unfold lit at h
  cases hd : dropPrefix p r with
  | none => simp [hd] at h
  | some r' =>
    simp [hd] at h
    obtain ⟨rfl, rfl⟩ := h
    exact ⟨dropPrefix_sound _ _ _ hd, rfl⟩

theorem pvStep_sound (D : Nat) (rec : Option PV)
    (hrec : ∀ f, rec = some f → (∀ x, f (skipWs x) = f x) ∧ ∃ d, D = d + 1 ∧ SoundAt d f) :
    SoundAt D (pvStep rec) := by
  intro cs v rest h
  unfold pvStep at h
  obtain ⟨w, hcs, hw⟩ := skipWs_spec cs
  cases hsk : skipWs cs with
  | nil => simp [hsk] at h
  | cons c r =>
    simp only [hsk] at h
    rw [hsk] at hcs
    refine ⟨w, ?_⟩
    by_cases h1 : c = 'n'
    · simp only [h1, if_true] at h
      obtain ⟨rfl, rfl⟩ := lit_sound _ _ _ _ _ h
      exact ⟨_, by rw [hcs, h1]; rfl, hw, .null D⟩
    by_cases h2 : c = 't'
    · simp only [h1, h2, if_true, if_false] at h
      rw [if_neg (by decide)] at h
      obtain ⟨rfl, rfl⟩ := lit_sound _ _ _ _ _ h
      exact ⟨_, by rw [hcs, h2]; rfl, hw, .tru D⟩
    by_cases h3 : c = 'f'
    · simp only [h3] at h
      rw [if_neg (by decide), if_neg (by decide), if_pos trivial] at h
      obtain ⟨rfl, rfl⟩ := lit_sound _ _ _ _ _ h
      exact ⟨_, by rw [hcs, h3]; rfl, hw, .fls D⟩
    by_cases h4 : c = '"'
    · simp only [h4] at h
      rw [if_neg (by decide), if_neg (by decide), if_neg (by decide), if_pos trivial] at h
      cases hrs : readStr r with
      | none => simp [hrs] at h
      | some p =>
        obtain ⟨s, r'⟩ := p
        simp [hrs] at h
        obtain ⟨rfl, rfl⟩ := h
        obtain ⟨t, rfl, hb⟩ := readStr_sound r s r' hrs
        exact ⟨'"' :: (t ++ ['"']), by rw [hcs, h4]; simp, hw, .str D t s hb⟩
    by_cases h5 : c = '['
    · simp only [h5] at h
      rw [if_neg (by decide), if_neg (by decide), if_neg (by decide), if_neg (by decide), if_pos trivial] at h
      cases rec with
      | none => simp at h
      | some f =>
        obtain ⟨hfs, d, rfl, hf⟩ := hrec f rfl
        simp only at h
        cases hpa : pArr f r with
        | none => simp [hpa] at h
        | some p =>
          obtain ⟨vs, r'⟩ := p
          simp [hpa] at h
          obtain ⟨rfl, rfl⟩ := h
          unfold pArr at hpa
          obtain ⟨w', hr, hw'⟩ := skipWs_spec r
          cases hsk2 : skipWs r with
          | nil => simp [hsk2] at hpa
          | cons c2 r2 =>
            simp only [hsk2] at hpa
            by_cases hc2 : c2 = ']'
            · simp [hc2] at hpa
              obtain ⟨rfl, rfl⟩ := hpa
              rw [hsk2, hc2] at hr
              exact ⟨'[' :: (w' ++ [']']), by rw [hcs, h5, hr]; simp, hw, .arr0 d w' hw'⟩
            · simp only [hc2, if_false] at hpa
              rw [← hsk2, pElems_skipWs f hfs] at hpa
              obtain ⟨its, hne, hr2, hws, hvs, rfl⟩ := pElems_sound f d hf _ _ _ _ hpa
              exact ⟨'[' :: (joinComma (its.map Item.text) ++ [']']), by rw [hcs, h5, hr2]; simp, hw,
                .arr d its hne hws hvs⟩
    by_cases h6 : c = '{'
    · simp only [h6] at h
      rw [if_neg (by decide), if_neg (by decide), if_neg (by decide), if_neg (by decide), if_neg (by decide), if_pos trivial] at h
      cases rec with
      | none => simp at h
      | some f =>
        obtain ⟨hfs, d, rfl, hf⟩ := hrec f rfl
        simp only at h
        cases hpa : pObj f r with
        | none => simp [hpa] at h
        | some p =>
          obtain ⟨kvs, r'⟩ := p
          simp [hpa] at h
          obtain ⟨rfl, rfl⟩ := h
          unfold pObj at hpa
          obtain ⟨w', hr, hw'⟩ := skipWs_spec r
          cases hsk2 : skipWs r with
          | nil => simp [hsk2] at hpa
          | cons c2 r2 =>
            simp only [hsk2] at hpa
            by_cases hc2 : c2 = '}'
            · simp [hc2] at hpa
              obtain ⟨rfl, rfl⟩ := hpa
              rw [hsk2, hc2] at hr
              exact ⟨'{' :: (w' ++ ['}']), by rw [hcs, h6, hr]; simp, hw, .obj0 d w' hw'⟩
            · simp only [hc2, if_false] at hpa
              rw [← hsk2, pMembers_skipWs] at hpa
              obtain ⟨ms, hne, hr2, hws, hvs, rfl⟩ := pMembers_sound f d hf _ _ _ _ hpa
              exact ⟨'{' :: (joinComma (ms.map Memb.text) ++ ['}']), by rw [hcs, h6, hr2]; simp, hw,
                .obj d ms hne hws hvs⟩
    · simp only [h1, h2, h3, h4, h5, h6, if_false] at h
      cases hrn : readNum (c :: r) with
      | none => simp [hrn] at h
      | some p =>
        obtain ⟨tok, r'⟩ := p
        simp only [hrn] at h
        by_cases hfin : finite64 tok = true
        · simp [hfin] at h
          obtain ⟨rfl, rfl⟩ := h
          obtain ⟨he, hn⟩ := readNum_sound _ _ _ hrn
          exact ⟨tok, by rw [hcs, he], hw, .num D tok hn hfin⟩
        · simp [hfin] at h

theorem pv_sound (d : Nat) : SoundAt d (pv d) := by
  induction d with
  | zero => exact pvStep_sound 0 none (by intro f h; cases h)
  | succ d ih =>
    exact pvStep_sound (d + 1) (some (pv d)) (by
      intro f h
      cases h
      exact ⟨pv_skipWs d, d, rfl, ih⟩)

/-- a message document is an object, and what follows the text of an object never matters to
    the reader -/
theorem msg_reads (cs : Str) (m : WMsg) (h : WellFormed cs m) (tail : Str) :
    ∃ v w2, msgOf v = some m ∧ AllWs w2 ∧ pv maxDepth (cs ++ tail) = some (v, w2 ++ tail) := by
  obtain ⟨v, ⟨w1, t, w2, rfl, hw1, hw2, hv⟩, hm⟩ := h
  refine ⟨v, w2, hm, hw2, ?_⟩
  have hns : NumSafe v (w2 ++ tail) := by
    intro tok he; subst he; simp [msgOf] at hm
  have := pv_complete' hv (w2 ++ tail) hns
  simp only [List.append_assoc]
  rw [pv_ws_append _ _ _ hw1]
  exact this

end AGV.Lemmas.WsFrame
