/-
  Helper lemmas for property C12 (Model/Hostile.lean).  Core only.
-/
import AGV.Model.Hostile

namespace AGV.Lemmas.Hostile
open AGV.Model.Hostile
open AGV.Model.UploadBind (stripPrefix parseUsize)
open AGV.Model.Peg (Pair eval Res)

-- ------------------------------------------------------------------ upload markers

theorem uploadParse_none_ne_panic (s : List Char) : uploadParse Defects.none s ≠ .panic := by
  unfold uploadParse
  split
  · simp
  · split <;> simp [Defects.none]

theorem uploadValue_none_ne_panic (i n : Nat) : uploadValue Defects.none i n ≠ .panic := by
  unfold uploadValue
  split
  · simp
  · simp [Defects.none]

theorem markerRun_none_ne_panic (s : List Char) (n : Nat) : markerRun Defects.none s n ≠ .panic := by
  unfold markerRun
  split
  · exact uploadValue_none_ne_panic _ _
  · simp
  · rename_i h
    exact absurd h (uploadParse_none_ne_panic s)

theorem uploadValue_ok_lt (D : Defects) (i n k : Nat) (h : uploadValue D i n = .ok k) : k < n := by
  unfold uploadValue at h
  split at h
  · cases h; assumption
  · split at h <;> cases h

theorem markerRun_ok_lt (D : Defects) (s : List Char) (n k : Nat) (h : markerRun D s n = .ok k) : k < n := by
  unfold markerRun at h
  split at h
  · exact uploadValue_ok_lt D _ n k h
  · cases h
  · cases h

theorem stripPrefix_eq_some (p s r : List Char) : stripPrefix p s = some r ↔ s = p ++ r := by
  induction p generalizing s with
  | nil => simp [stripPrefix, eq_comm]
  | cons a p ih =>
    cases s with
    | nil => simp [stripPrefix]
    | cons b s =>
      simp only [stripPrefix]
      by_cases hab : a = b
      · subst hab; simp [ih]
      · simp [hab]; intro h; exact absurd h.symm hab

theorem markerRun_none_ok_iff (s : List Char) (n k : Nat) :
    markerRun Defects.none s n = .ok k ↔
      ∃ rest, s = marker ++ rest ∧ parseUsize rest = some k ∧ k < n := by
  constructor
  · intro h
    unfold markerRun at h
    split at h
    · rename_i i hp
      have hk : k < n := uploadValue_ok_lt _ _ _ _ h
      have hik : i = k := by
        unfold uploadValue at h
        split at h
        · cases h; rfl
        · split at h <;> cases h
      unfold uploadParse at hp
      split at hp
      · cases hp
      · rename_i rest hs
        split at hp
        · rename_i m hm
          cases hp
          exact ⟨rest, (stripPrefix_eq_some _ _ _).1 hs, hik ▸ hm, hk⟩
        · split at hp <;> cases hp
    · cases h
    · cases h
  · rintro ⟨rest, hs, hp, hk⟩
    have h1 : stripPrefix marker s = some rest := (stripPrefix_eq_some _ _ _).2 hs
    simp [markerRun, uploadParse, h1, hp, uploadValue, hk]

-- ------------------------------------------------------------------ selection-set guard

theorem foldl_max_le (l : List Nat) (a b : Nat) (ha : a ≤ b) (h : ∀ x ∈ l, x ≤ b) : l.foldl max a ≤ b := by
  induction l generalizing a with
  | nil => simpa
  | cons x l ih =>
    simp only [List.foldl_cons]
    apply ih
    · exact Nat.max_le.2 ⟨ha, h x (by simp)⟩
    · intro y hy; exact h y (by simp [hy])

theorem listMax_le (l : List Nat) (b : Nat) (h : ∀ x ∈ l, x ≤ b) : listMax l ≤ b :=
  foldl_max_le l 0 b (Nat.zero_le _) h

theorem listMax_map_le {α : Type} (l : List α) (g : α → Nat) (b : Nat) (h : ∀ x, g x ≤ b) :
    listMax (l.map g) ≤ b := by
  apply listMax_le
  intro x hx
  obtain ⟨y, _, rfl⟩ := List.mem_map.1 hx
  exact h y

/-- the guard bounds the recursion by `remaining + 1` on every pair tree -/
theorem selRecursion_le (f remaining : Nat) (p : Pair) : selRecursion true f remaining p ≤ remaining + 1 := by
  induction f generalizing remaining p with
  | zero => simp [selRecursion]
  | succ f ih =>
    rw [selRecursion]
    have : listMax (p.inner.map (fun sp =>
          listMax (sp.inner.map (fun c =>
            listMax (c.inner.map (fun x =>
              if x.rule = "selection_set" then
                (if (true && decide (remaining = 0)) = true then 0 else selRecursion true f (remaining - 1) x)
              else 0)))))) ≤ remaining := by
      apply listMax_map_le; intro sp
      apply listMax_map_le; intro c
      apply listMax_map_le; intro x
      split
      · split
        · exact Nat.zero_le _
        · rename_i h0
          have hr : remaining ≠ 0 := by simpa using h0
          have := ih (remaining - 1) x
          omega
      · exact Nat.zero_le _
    omega

def selNest : Nat → Pair
  | 0 => Pair.mk "selection_set" 0 0 []
  | n + 1 => Pair.mk "selection_set" 0 0 [Pair.mk "selection" 0 0 [Pair.mk "field" 0 0 [selNest n]]]

theorem selNest_rule (n : Nat) : (selNest n).rule = "selection_set" := by
  cases n <;> rfl

theorem selRecursion_selNest (n f remaining : Nat) (hf : n + 1 ≤ f) :
    selRecursion false f remaining (selNest n) = n + 1 := by
  induction n generalizing f remaining with
  | zero =>
    obtain ⟨f', rfl⟩ : ∃ f', f = f' + 1 := ⟨f - 1, by omega⟩
    simp [selRecursion, selNest, Pair.inner, listMax]
  | succ n ih =>
    obtain ⟨f', rfl⟩ : ∃ f', f = f' + 1 := ⟨f - 1, by omega⟩
    have h := ih f' (remaining - 1) (by omega)
    rw [selRecursion]
    simp [selNest, Pair.inner, listMax, selNest_rule, h]
    omega

end AGV.Lemmas.Hostile
