/-
  Helper lemmas for property C12 (Model/Hostile.lean).  Core only.
-/
import AGV.Model.Hostile
import AGV.Lemmas.PegMono

namespace AGV.Lemmas.Hostile
open AGV.Model.Hostile
open AGV.Model.UploadBind (stripPrefix parseUsize)
open AGV.Model.Peg (Pair eval Res)

-- ------------------------------------------------------------------ upload markers

theorem uploadParse_none_ne_panic (s : List Char) : uploadParse Defects.none s ≠ .panic := by
  unfold uploadParse
  split
  · simp
  · split <;> simp [Defects.none]

theorem uploadValue_none_ne_panic (i n : Nat) : uploadValue Defects.none i n ≠ .panic := by
  unfold uploadValue
  split
  · simp
  · simp [Defects.none]

theorem markerRun_none_ne_panic (s : List Char) (n : Nat) : markerRun Defects.none s n ≠ .panic := by
  unfold markerRun
  split
  · exact uploadValue_none_ne_panic _ _
  · simp
  · rename_i h
    exact absurd h (uploadParse_none_ne_panic s)

theorem uploadValue_ok_lt (D : Defects) (i n k : Nat) (h : uploadValue D i n = .ok k) : k < n := by
  unfold uploadValue at h
  split at h
  · cases h; assumption
  · split at h <;> cases h

theorem markerRun_ok_lt (D : Defects) (s : List Char) (n k : Nat) (h : markerRun D s n = .ok k) : k < n := by
  unfold markerRun at h
  split at h
  · exact uploadValue_ok_lt D _ n k h
  · cases h
  · cases h

theorem stripPrefix_eq_some (p s r : List Char) : stripPrefix p s = some r ↔ s = p ++ r := by
  induction p generalizing s with
  | nil => simp [stripPrefix, eq_comm]
  | cons a p ih =>
    cases s with
    | nil => simp [stripPrefix]
    | cons b s =>
      simp only [stripPrefix]
      by_cases hab : a = b
      · subst hab; simp [ih]
      · simp [hab]; intro h; exact absurd h.symm hab

theorem markerRun_none_ok_iff (s : List Char) (n k : Nat) :
    markerRun Defects.none s n = .ok k ↔
      ∃ rest, s = marker ++ rest ∧ parseUsize rest = some k ∧ k < n := by
  constructor
  · intro h
    unfold markerRun at h
    split at h
    · rename_i i hp
      have hk : k < n := uploadValue_ok_lt _ _ _ _ h
      have hik : i = k := by
        unfold uploadValue at h
        split at h
        · cases h; rfl
        · split at h <;> cases h
      unfold uploadParse at hp
      split at hp
      · cases hp
      · rename_i rest hs
        split at hp
        · rename_i m hm
          cases hp
          exact ⟨rest, (stripPrefix_eq_some _ _ _).1 hs, hik ▸ hm, hk⟩
        · split at hp <;> cases hp
    · cases h
    · cases h
  · rintro ⟨rest, hs, hp, hk⟩
    have h1 : stripPrefix marker s = some rest := (stripPrefix_eq_some _ _ _).2 hs
    simp [markerRun, uploadParse, h1, hp, uploadValue, hk]

-- ------------------------------------------------------------------ selection-set guard

theorem foldl_max_le (l : List Nat) (a b : Nat) (ha : a ≤ b) (h : ∀ x ∈ l, x ≤ b) : l.foldl max a ≤ b := by
  induction l generalizing a with
  | nil => simpa
  | cons x l ih =>
    simp only [List.foldl_cons]
    apply ih
    · exact Nat.max_le.2 ⟨ha, h x (by simp)⟩
    · intro y hy; exact h y (by simp [hy])

theorem listMax_le (l : List Nat) (b : Nat) (h : ∀ x ∈ l, x ≤ b) : listMax l ≤ b :=
  foldl_max_le l 0 b (Nat.zero_le _) h

theorem listMax_map_le {α : Type} (l : List α) (g : α → Nat) (b : Nat) (h : ∀ x, g x ≤ b) :
    listMax (l.map g) ≤ b := by
  apply listMax_le
  intro x hx
  obtain ⟨y, _, rfl⟩ := List.mem_map.1 hx
  exact h y

/-- the guard bounds the recursion by `remaining + 1` on every pair tree -/
theorem selRecursion_le (f remaining : Nat) (p : Pair) : selRecursion true f remaining p ≤ remaining + 1 := by
  induction f generalizing remaining p with
  | zero => simp [selRecursion]
  | succ f ih =>
    rw [selRecursion]
    have : listMax (p.inner.map (fun sp =>
          listMax (sp.inner.map (fun c =>
            listMax (c.inner.map (fun x =>
              if x.rule = "selection_set" then
                (if (true && decide (remaining = 0)) = true then 0 else selRecursion true f (remaining - 1) x)
              else 0)))))) ≤ remaining := by
      apply listMax_map_le; intro sp
      apply listMax_map_le; intro c
      apply listMax_map_le; intro x
      split
      · split
        · exact Nat.zero_le _
        · rename_i h0
          have hr : remaining ≠ 0 := by simpa using h0
          have := ih (remaining - 1) x
          omega
      · exact Nat.zero_le _
    omega

def selNest : Nat → Pair
  | 0 => Pair.mk "selection_set" 0 0 []
  | n + 1 => Pair.mk "selection_set" 0 0 [Pair.mk "selection" 0 0 [Pair.mk "field" 0 0 [selNest n]]]

theorem selNest_rule (n : Nat) : (selNest n).rule = "selection_set" := by
  cases n <;> rfl

theorem selRecursion_selNest (n f remaining : Nat) (hf : n + 1 ≤ f) :
    selRecursion false f remaining (selNest n) = n + 1 := by
  induction n generalizing f remaining with
  | zero =>
    obtain ⟨f', rfl⟩ : ∃ f', f = f' + 1 := ⟨f - 1, by omega⟩
    simp [selRecursion, selNest, Pair.inner, listMax]
  | succ n ih =>
    obtain ⟨f', rfl⟩ : ∃ f', f = f' + 1 := ⟨f - 1, by omega⟩
    have h := ih f' (remaining - 1) (by omega)
    rw [selRecursion]
    simp [selNest, Pair.inner, listMax, selNest_rule, h]
    omega


-- ------------------------------------------------------------------ the pest descent on nested lists

section Descent
open AGV.Model.Peg AGV.Gen.Grammar
local notation "G" => AGV.Gen.Grammar.grammar

theorem find_variable : findRule G "variable" = some r_variable := by rfl
theorem find_number : findRule G "number" = some r_number := by rfl
theorem find_float : findRule G "float" = some r_float := by rfl
theorem find_int : findRule G "int" = some r_int := by rfl
theorem find_string : findRule G "string" = some r_string := by rfl
theorem find_boolean : findRule G "boolean" = some r_boolean := by rfl
theorem find_null : findRule G "null" = some r_null := by rfl
theorem find_enum_value : findRule G "enum_value" = some r_enum_value := by rfl
theorem find_name : findRule G "name" = some r_name := by rfl
theorem find_name_start : findRule G "name_start" = some r_name_start := by rfl
theorem find_list : findRule G "list" = some r_list := by rfl
theorem find_value : findRule G "value" = some r_value := by rfl
theorem find_ws : findRule G "WHITESPACE" = some r_WHITESPACE := by rfl
theorem find_comment : findRule G "COMMENT" = some r_COMMENT := by rfl
theorem find_lt : findRule G "line_terminator" = some r_line_terminator := by rfl

-- generic propagation of `oof` (out of depth) through the interpreter

theorem zero_oof (c e p s) : eval G 0 c e p s = .oof := by simp [eval]

theorem seq_oof_first (f c a b p s) (h : eval G f c a p s = .oof) : eval G (f + 1) c (.seq a b) p s = .oof := by
  simp [eval, h]

theorem rep_oof_first (f c a p s) (h : eval G f c a p s = .oof) : eval G (f + 1) c (.rep a) p s = .oof := by
  simp [eval, h]

theorem choice_oof_first (f c a b p s) (h : eval G f c a p s = .oof) : eval G (f + 1) c (.choice a b) p s = .oof := by
  simp [eval, h]

theorem choice_oof_second (f c a b p s) (ha : eval G f c a p s = .oof ∨ eval G f c a p s = .fail)
    (hb : eval G f c b p s = .oof) : eval G (f + 1) c (.choice a b) p s = .oof := by
  rcases ha with h | h <;> simp [eval, h, hb]

theorem seq_oof_second (f c a b p s p1 s1 ps1) (ha : eval G f c a p s = .ok p1 s1 ps1)
    (hs : eval G f { c with atom := .atomic } skipExpr p1 s1 = .oof ∨
          eval G f { c with atom := .atomic } skipExpr p1 s1 = .ok p1 s1 [])
    (hb : eval G f c b p1 s1 = .oof) : eval G (f + 1) c (.seq a b) p s = .oof := by
  by_cases hc : c.atom = .non
  · rcases hs with h | h <;> simp [eval, ha, hc, h, hb]
  · simp [eval, ha, hc, hb]

theorem ident_oof (f c n r p s) (hr : findRule G n = some r) (hcc : charClass n = none)
    (h1 : n ≠ "SOI") (h2 : n ≠ "EOI") (h : eval G f (bodyCtx c r) r.expr p s = .oof) :
    eval G (f + 1) c (.ident n) p s = .oof := by
  simp [eval, h1, h2, hcc, hr, h]

/-- the alternative `n` of `value` cannot match in front of `[`: cut off or failed, at every depth -/
abbrev No (n : String) : Prop := ∀ (f : Nat) (c : Ctx) (p : Nat) (t : List Char),
    eval G f c (.ident n) p ('[' :: t) = .oof ∨ eval G f c (.ident n) p ('[' :: t) = .fail

set_option maxRecDepth 8000 in
theorem no_variable : No "variable" := by
  intro f c p t
  rcases f with _ | _ | _ | f
  all_goals first
    | (left; simp [eval, find_variable, charClass, r_variable, matchStr]; done)
    | (right; simp [eval, find_variable, charClass, r_variable, matchStr]; done)

set_option maxRecDepth 8000 in
theorem no_number : No "number" := by
  intro f c p t
  rcases f with _ | _ | _ | _ | _ | _ | _ | _ | _ | _ | _ | _ | _ | f
  all_goals first
    | (left; simp [eval, find_number, find_float, find_int, charClass, r_number, r_float, r_int, matchStr, bodyCtx, isAsciiNonzeroDigit]; done)
    | (right; simp [eval, find_number, find_float, find_int, charClass, r_number, r_float, r_int, matchStr, bodyCtx, isAsciiNonzeroDigit]; done)

set_option maxRecDepth 8000 in
theorem no_string : No "string" := by
  intro f c p t
  -- both alternatives (block string; `!"\"\"\""` then an ordinary string) fail in front of `[`
  rcases f with _ | _ | _ | _ | _ | _ | _ | f
  all_goals first
    | (left; simp [eval, find_string, charClass, r_string, matchStr, bodyCtx]; done)
    | (right; simp [eval, find_string, charClass, r_string, matchStr, bodyCtx]; done)

set_option maxRecDepth 8000 in
theorem no_boolean : No "boolean" := by
  intro f c p t
  rcases f with _ | _ | _ | _ | f
  all_goals first
    | (left; simp [eval, find_boolean, charClass, r_boolean, matchStr]; done)
    | (right; simp [eval, find_boolean, charClass, r_boolean, matchStr]; done)

set_option maxRecDepth 8000 in
theorem no_null : No "null" := by
  intro f c p t
  rcases f with _ | _ | _ | f
  all_goals first
    | (left; simp [eval, find_null, charClass, r_null, matchStr]; done)
    | (right; simp [eval, find_null, charClass, r_null, matchStr]; done)

set_option maxRecDepth 8000 in
theorem no_enum_value : No "enum_value" := by
  intro f c p t
  rcases f with _ | _ | _ | _ | _ | _ | _ | _ | f
  all_goals first
    | (left; simp [eval, find_enum_value, find_boolean, find_null, find_name, find_name_start, charClass, r_enum_value, r_boolean, r_null, r_name, r_name_start, matchStr, bodyCtx, isAsciiAlpha]; done)
    | (right; simp [eval, find_enum_value, find_boolean, find_null, find_name, find_name_start, charClass, r_enum_value, r_boolean, r_null, r_name, r_name_start, matchStr, bodyCtx, isAsciiAlpha]; done)

set_option maxRecDepth 8000 in
/-- `hidden::skip` in front of a bracket consumes nothing -/
theorem skip_bracket (f : Nat) (c : Ctx) (p : Nat) (ch : Char) (t : List Char) (h : ch = '[' ∨ ch = ']') :
    eval G f { c with atom := .atomic } skipExpr p (ch :: t) = .oof ∨
    eval G f { c with atom := .atomic } skipExpr p (ch :: t) = .ok p (ch :: t) [] := by
  rcases h with rfl | rfl
  all_goals
    rcases f with _ | _ | _ | _ | _ | _ | _ | _ | _ | _ | _ | _ | _ | f
    all_goals first
      | (left; simp [eval, skipExpr, find_ws, find_comment, find_lt, charClass, r_WHITESPACE, r_COMMENT, r_line_terminator, matchStr]; done)
      | (right; simp [eval, skipExpr, find_ws, find_comment, find_lt, charClass, r_WHITESPACE, r_COMMENT, r_line_terminator, matchStr]; done)

theorem rep_snoc (s : List Char) (n : Nat) : rep s (n + 1) = rep s n ++ s := by
  induction n with
  | zero => simp [rep]
  | succ n ih =>
    show s ++ rep s (n + 1) = (s ++ rep s n) ++ s
    rw [ih, List.append_assoc]

theorem nestList_succ (k : Nat) : nestList (k + 1) = '[' :: (nestList k ++ [']']) := by
  unfold nestList
  rw [rep_snoc [']'] k]
  simp [rep, List.append_assoc]

theorem nest_head (k : Nat) (rest : List Char) :
    ∃ ch t, (ch = '[' ∨ ch = ']') ∧ nestList k ++ (']' :: rest) = ch :: t := by
  cases k with
  | zero => exact ⟨']', rest, Or.inr rfl, by simp [nestList, rep]⟩
  | succ k => exact ⟨'[', _, Or.inl rfl, by rw [nestList_succ]; rfl⟩

theorem bodyCtx_list (c : Ctx) : bodyCtx c r_list = c := by simp [bodyCtx, r_list]
theorem bodyCtx_value (c : Ctx) : bodyCtx c r_value = c := by simp [bodyCtx, r_value]

/-- On `[`ⁿ `]`ⁿ the descent from `value` is cut off at every depth up to `12·n`. -/
theorem value_nest_oof (n : Nat) : ∀ (f : Nat) (c : Ctx) (p : Nat) (rest : List Char), f ≤ 12 * n →
    eval G f c (.ident "value") p (nestList n ++ rest) = .oof := by
  induction n with
  | zero =>
    intro f c p rest hf
    have : f = 0 := by omega
    subst this; exact zero_oof _ _ _ _
  | succ k ih =>
    intro f c p rest hf
    have hin : nestList (k + 1) ++ rest = '[' :: (nestList k ++ (']' :: rest)) := by
      rw [nestList_succ]; simp [List.append_assoc]
    rw [hin]
    generalize ht : nestList k ++ (']' :: rest) = t
    obtain ⟨ch, t', hch, hhead⟩ := nest_head k rest
    rw [ht] at hhead
    -- the twelve levels between two activations of `value`
    have L12 : ∀ fu, fu ≤ 12 * k → eval G fu c (.ident "value") (p + 1) t = .oof := by
      intro fu h; rw [← ht]; exact ih fu c (p + 1) (']' :: rest) h
    have L11 : ∀ fu, fu ≤ 12 * k + 1 → eval G fu c (.rep (.ident "value")) (p + 1) t = .oof := by
      intro fu h
      cases fu with
      | zero => exact zero_oof _ _ _ _
      | succ fu => exact rep_oof_first _ _ _ _ _ (L12 fu (by omega))
    have L10 : ∀ fu, fu ≤ 12 * k + 2 →
        eval G fu c (.seq (.rep (.ident "value")) (.str [']'])) (p + 1) t = .oof := by
      intro fu h
      cases fu with
      | zero => exact zero_oof _ _ _ _
      | succ fu => exact seq_oof_first _ _ _ _ _ _ (L11 fu (by omega))
    have L9 : ∀ fu, fu ≤ 12 * k + 3 → eval G fu c r_list.expr p ('[' :: t) = .oof := by
      intro fu h
      cases fu with
      | zero => exact zero_oof _ _ _ _
      | succ fu =>
        cases fu with
        | zero => exact seq_oof_first _ _ _ _ _ _ (zero_oof _ _ _ _)
        | succ fu =>
          have ha : eval G (fu + 1) c (.str ['[']) p ('[' :: t) = .ok (p + 1) t [] := by
            simp [eval, matchStr]
          have hs := skip_bracket (fu + 1) c (p + 1) ch t' hch
          rw [← hhead] at hs
          exact seq_oof_second _ _ _ _ _ _ _ _ _ ha hs (L10 (fu + 1) (by omega))
    have L8 : ∀ fu, fu ≤ 12 * k + 4 → eval G fu c (.ident "list") p ('[' :: t) = .oof := by
      intro fu h
      cases fu with
      | zero => exact zero_oof _ _ _ _
      | succ fu =>
        refine ident_oof _ _ _ _ _ _ find_list (by decide) (by decide) (by decide) ?_
        rw [bodyCtx_list]; exact L9 fu (by omega)
    have L7 : ∀ fu, fu ≤ 12 * k + 5 →
        eval G fu c (.choice (.ident "list") (.ident "object")) p ('[' :: t) = .oof := by
      intro fu h
      cases fu with
      | zero => exact zero_oof _ _ _ _
      | succ fu => exact choice_oof_first _ _ _ _ _ _ (L8 fu (by omega))
    have L6 : ∀ fu, fu ≤ 12 * k + 6 →
        eval G fu c (.choice (.ident "enum_value") (.choice (.ident "list") (.ident "object"))) p ('[' :: t) = .oof := by
      intro fu h
      cases fu with
      | zero => exact zero_oof _ _ _ _
      | succ fu => exact choice_oof_second _ _ _ _ _ _ (no_enum_value fu c p t) (L7 fu (by omega))
    have L5 : ∀ fu, fu ≤ 12 * k + 7 →
        eval G fu c (.choice (.ident "null") (.choice (.ident "enum_value") (.choice (.ident "list") (.ident "object")))) p ('[' :: t) = .oof := by
      intro fu h
      cases fu with
      | zero => exact zero_oof _ _ _ _
      | succ fu => exact choice_oof_second _ _ _ _ _ _ (no_null fu c p t) (L6 fu (by omega))
    have L4 : ∀ fu, fu ≤ 12 * k + 8 →
        eval G fu c (.choice (.ident "boolean") (.choice (.ident "null") (.choice (.ident "enum_value") (.choice (.ident "list") (.ident "object"))))) p ('[' :: t) = .oof := by
      intro fu h
      cases fu with
      | zero => exact zero_oof _ _ _ _
      | succ fu => exact choice_oof_second _ _ _ _ _ _ (no_boolean fu c p t) (L5 fu (by omega))
    have L3 : ∀ fu, fu ≤ 12 * k + 9 →
        eval G fu c (.choice (.ident "string") (.choice (.ident "boolean") (.choice (.ident "null") (.choice (.ident "enum_value") (.choice (.ident "list") (.ident "object")))))) p ('[' :: t) = .oof := by
      intro fu h
      cases fu with
      | zero => exact zero_oof _ _ _ _
      | succ fu => exact choice_oof_second _ _ _ _ _ _ (no_string fu c p t) (L4 fu (by omega))
    have L2 : ∀ fu, fu ≤ 12 * k + 10 →
        eval G fu c (.choice (.ident "number") (.choice (.ident "string") (.choice (.ident "boolean") (.choice (.ident "null") (.choice (.ident "enum_value") (.choice (.ident "list") (.ident "object"))))))) p ('[' :: t) = .oof := by
      intro fu h
      cases fu with
      | zero => exact zero_oof _ _ _ _
      | succ fu => exact choice_oof_second _ _ _ _ _ _ (no_number fu c p t) (L3 fu (by omega))
    have L1 : ∀ fu, fu ≤ 12 * k + 11 → eval G fu c r_value.expr p ('[' :: t) = .oof := by
      intro fu h
      cases fu with
      | zero => exact zero_oof _ _ _ _
      | succ fu => exact choice_oof_second _ _ _ _ _ _ (no_variable fu c p t) (L2 fu (by omega))
    cases f with
    | zero => exact zero_oof _ _ _ _
    | succ f =>
      refine ident_oof _ _ _ _ _ _ find_value (by decide) (by decide) (by decide) ?_
      rw [bodyCtx_value]; exact L1 f (by omega)

-- ------------------------------------------------------------------ the descent on the whole witness document

/-! From `executable_document` on `{j(x:` `[`ⁿ `]`ⁿ `)}`.  The prefix is evaluated symbolically: by
    fuel monotonicity (`Lemmas/PegMono.lean`) ONE evaluation of a sibling expression at a concrete
    depth decides it at every depth (`Dec`: cut off, or that result), and `Cut` ("cut off at every
    depth ≤ N") is pushed up one interpreter level at a time. -/

open AGV.Lemmas.PegMono

/-- a character that `hidden::skip` does not consume -/
def Plain (ch : Char) : Prop :=
  ' ' ≠ ch ∧ ',' ≠ ch ∧ '\t' ≠ ch ∧ Char.ofNat 65279 ≠ ch ∧ '\r' ≠ ch ∧ '\n' ≠ ch ∧ '#' ≠ ch

set_option maxRecDepth 8000 in
theorem skip_plain_eval (c : Ctx) (p : Nat) (ch : Char) (t : List Char) (h : Plain ch) :
    eval G 13 { c with atom := .atomic } skipExpr p (ch :: t) = .ok p (ch :: t) [] := by
  obtain ⟨h1, h2, h3, h4, h5, h6, h7⟩ := h
  simp [eval, skipExpr, find_ws, find_comment, find_lt, charClass, r_WHITESPACE, r_COMMENT, r_line_terminator, matchStr, h1, h2, h3, h4, h5, h6, h7]

theorem find_alias : findRule G "alias" = some r_alias := by rfl
theorem find_nod : findRule G "named_operation_definition" = some r_named_operation_definition := by rfl
theorem find_optype : findRule G "operation_type" = some r_operation_type := by rfl

set_option maxRecDepth 8000 in
theorem name_eval (p : Nat) (a b : Char) (t : List Char) (ha : a = 'j' ∨ a = 'x') (hb : b = '(' ∨ b = ':') :
    eval G 10 {} (.ident "name") p (a :: b :: t) = .ok (p + 1) (b :: t) [Pair.mk "name" p (p + 1) []] := by
  have e1 : (Atomicity.atomic != Atomicity.atomic) = false := by decide
  have e2 : (Atomicity.non != Atomicity.atomic) = true := by decide
  rcases ha with rfl | rfl <;> rcases hb with rfl | rfl <;>
  simp [eval, e1, e2, find_name, find_name_start, charClass, r_name, r_name_start, matchStr, bodyCtx, isAsciiAlpha, isAsciiDigit, emits]

set_option maxRecDepth 8000 in
theorem nod_eval (p : Nat) (t : List Char) :
    eval G 10 {} (.ident "named_operation_definition") p ('{' :: t) = .fail := by
  simp [eval, find_nod, find_optype, charClass, r_named_operation_definition, r_operation_type, matchStr]

theorem plain_of (ch : Char) (h : ch = '{' ∨ ch = 'j' ∨ ch = '(' ∨ ch = 'x' ∨ ch = ':' ∨ ch = '[' ∨ ch = ')') :
    Plain ch := by
  unfold Plain
  rcases h with rfl | rfl | rfl | rfl | rfl | rfl | rfl <;> decide

theorem opt_of_fail (f c a p s) (h : eval G f c a p s = .fail) : eval G (f + 1) c (.opt a) p s = .ok p s [] := by
  simp [eval, h]

theorem ident_of_fail (f c n r p s) (hr : findRule G n = some r) (hcc : charClass n = none)
    (h1 : n ≠ "SOI") (h2 : n ≠ "EOI") (h : eval G f (bodyCtx c r) r.expr p s = .fail) :
    eval G (f + 1) c (.ident n) p s = .fail := by
  simp [eval, h1, h2, hcc, hr, h]

theorem seq_fail_second (f c a b p s p1 s1 ps1) (ha : eval G f c a p s = .ok p1 s1 ps1)
    (hs : eval G f { c with atom := .atomic } skipExpr p1 s1 = .ok p1 s1 [])
    (hb : eval G f c b p1 s1 = .fail) : eval G (f + 1) c (.seq a b) p s = .fail := by
  by_cases hc : c.atom = .non
  · simp [eval, ha, hc, hs, hb]
  · simp [eval, ha, hc, hb]

theorem bodyCtx_alias (c : Ctx) : bodyCtx c r_alias = c := by simp [bodyCtx, r_alias]

theorem optalias_eval (p : Nat) (t : List Char) :
    eval G 16 {} (.opt (.ident "alias")) p ('j' :: '(' :: t) = .ok p ('j' :: '(' :: t) [] := by
  have hn0 := name_eval p 'j' '(' t (Or.inl rfl) (Or.inl rfl)
  have hn : eval G 13 {} (.ident "name") p ('j' :: '(' :: t) = .ok (p + 1) ('(' :: t) [Pair.mk "name" p (p + 1) []] := by
    rw [eval_mono G (by decide : 10 ≤ 13) _ _ _ _ (by rw [hn0]; simp), hn0]
  have hs := skip_plain_eval {} (p + 1) '(' t (plain_of _ (by simp))
  have hc : eval G 13 {} (.str [Char.ofNat 58]) (p + 1) ('(' :: t) = .fail := by
    simp [eval, matchStr]
  apply opt_of_fail
  refine ident_of_fail _ _ _ _ _ _ find_alias (by decide) (by decide) (by decide) ?_
  rw [bodyCtx_alias]
  exact seq_fail_second _ _ _ _ _ _ _ _ _ hn hs hc

/-- at every depth: cut off, or the result `r` -/
def Dec (c : Ctx) (e : Expr) (p : Nat) (s : List Char) (r : Res) : Prop :=
  ∀ f, eval G f c e p s = .oof ∨ eval G f c e p s = r

/-- cut off at every depth up to `N` -/
def Cut (c : Ctx) (e : Expr) (p : Nat) (s : List Char) (N : Nat) : Prop :=
  ∀ f, f ≤ N → eval G f c e p s = .oof

theorem dec_of_eval {F c e p s r} (h : eval G F c e p s = r) (hr : r ≠ .oof) : Dec c e p s r :=
  fun f => eval_decided G h hr f

theorem opt_oof (f c a p s) (h : eval G f c a p s = .oof) : eval G (f + 1) c (.opt a) p s = .oof := by
  simp [eval, h]
theorem rep1_oof (f c a p s) (h : eval G f c a p s = .oof) : eval G (f + 1) c (.rep1 a) p s = .oof := by
  simp [eval, h]

theorem cut_seq1 {c a b p s N} (h : Cut c a p s N) : Cut c (.seq a b) p s (N + 1) := by
  intro f hf
  cases f with
  | zero => exact zero_oof _ _ _ _
  | succ f => exact seq_oof_first _ _ _ _ _ _ (h f (by omega))

theorem cut_seq2 {c a b p s p1 s1 ps1 N} (ha : Dec c a p s (.ok p1 s1 ps1))
    (hs : Dec { c with atom := .atomic } skipExpr p1 s1 (.ok p1 s1 []))
    (hb : Cut c b p1 s1 N) : Cut c (.seq a b) p s (N + 1) := by
  intro f hf
  cases f with
  | zero => exact zero_oof _ _ _ _
  | succ f =>
    rcases ha f with h1 | h1
    · exact seq_oof_first _ _ _ _ _ _ h1
    · exact seq_oof_second _ _ _ _ _ _ _ _ _ h1 (hs f) (hb f (by omega))

theorem cut_choice1 {c a b p s N} (h : Cut c a p s N) : Cut c (.choice a b) p s (N + 1) := by
  intro f hf
  cases f with
  | zero => exact zero_oof _ _ _ _
  | succ f => exact choice_oof_first _ _ _ _ _ _ (h f (by omega))

theorem cut_choice2 {c a b p s N} (ha : Dec c a p s .fail) (h : Cut c b p s N) : Cut c (.choice a b) p s (N + 1) := by
  intro f hf
  cases f with
  | zero => exact zero_oof _ _ _ _
  | succ f => exact choice_oof_second _ _ _ _ _ _ (ha f) (h f (by omega))

theorem cut_opt {c a p s N} (h : Cut c a p s N) : Cut c (.opt a) p s (N + 1) := by
  intro f hf
  cases f with
  | zero => exact zero_oof _ _ _ _
  | succ f => exact opt_oof _ _ _ _ _ (h f (by omega))

theorem cut_rep1 {c a p s N} (h : Cut c a p s N) : Cut c (.rep1 a) p s (N + 1) := by
  intro f hf
  cases f with
  | zero => exact zero_oof _ _ _ _
  | succ f => exact rep1_oof _ _ _ _ _ (h f (by omega))

theorem cut_ident {c n r p s N} (hr : findRule G n = some r) (hcc : charClass n = none)
    (h1 : n ≠ "SOI") (h2 : n ≠ "EOI") (hb : bodyCtx c r = c) (h : Cut c r.expr p s N) :
    Cut c (.ident n) p s (N + 1) := by
  intro f hf
  cases f with
  | zero => exact zero_oof _ _ _ _
  | succ f =>
    refine ident_oof _ _ _ _ _ _ hr hcc h1 h2 ?_
    rw [hb]; exact h f (by omega)

theorem dec_str {c l p s r} (h : matchStr l s = some r) : Dec c (.str l) p s (.ok (p + l.length) r []) := by
  refine dec_of_eval (F := 1) ?_ (by simp)
  simp [eval, h]

theorem dec_skip (c : Ctx) (p : Nat) (ch : Char) (t : List Char) (h : Plain ch) :
    Dec { c with atom := .atomic } skipExpr p (ch :: t) (.ok p (ch :: t) []) :=
  dec_of_eval (skip_plain_eval c p ch t h) (by simp)

theorem find_execdoc : findRule G "executable_document" = some r_executable_document := by rfl
theorem find_execdef : findRule G "executable_definition" = some r_executable_definition := by rfl
theorem find_opdef : findRule G "operation_definition" = some r_operation_definition := by rfl
theorem find_selset : findRule G "selection_set" = some r_selection_set := by rfl
theorem find_selection : findRule G "selection" = some r_selection := by rfl
theorem find_field : findRule G "field" = some r_field := by rfl
theorem find_arguments : findRule G "arguments" = some r_arguments := by rfl
theorem find_argument : findRule G "argument" = some r_argument := by rfl

/-- the tail of the witness document starts with a character `hidden::skip` leaves alone -/
theorem nest_tail_head (n : Nat) : ∃ ch t, Plain ch ∧ nestList n ++ [')', '}'] = ch :: t := by
  cases n with
  | zero => exact ⟨')', ['}'], plain_of _ (by simp), by simp [nestList, rep]⟩
  | succ k => exact ⟨'[', _, plain_of _ (by simp), by rw [nestList_succ]; rfl⟩

theorem dec_soi (c : Ctx) (s : List Char) : Dec c (.ident "SOI") 0 s (.ok 0 s []) := by
  refine dec_of_eval (F := 1) ?_ (by simp)
  simp [eval]

theorem dec_name (p : Nat) (a b : Char) (t : List Char) (ha : a = 'j' ∨ a = 'x') (hb : b = '(' ∨ b = ':') :
    Dec {} (.ident "name") p (a :: b :: t) (.ok (p + 1) (b :: t) [Pair.mk "name" p (p + 1) []]) :=
  dec_of_eval (name_eval p a b t ha hb) (by simp)

theorem dec_chr (c : Ctx) (a : Char) (p : Nat) (s : List Char) :
    Dec c (.str [a]) p (a :: s) (.ok (p + 1) s []) := by
  refine dec_of_eval (F := 1) ?_ (by simp)
  simp [eval, matchStr]

/-- The descent from `executable_document` on `{j(x:` `[`ⁿ `]`ⁿ `)}`: 26 activations lie between
    the document rule and the `value` of the argument, then 12 per bracket. -/
theorem document_nest_oof (n : Nat) : Cut {} (.ident "executable_document") 0 (listDoc n) (12 * n + 26) := by
  obtain ⟨ch, t, hch, hV⟩ := nest_tail_head n
  have hdoc : listDoc n = '{' :: 'j' :: '(' :: 'x' :: ':' :: (nestList n ++ [')', '}']) := by
    simp [listDoc]
  rw [hdoc]
  have A0 : Cut {} (.ident "value") 5 (nestList n ++ [')', '}']) (12 * n) :=
    fun f hf => value_nest_oof n f {} 5 [')', '}'] hf
  generalize nestList n ++ [')', '}'] = V at hV A0
  subst hV
  refine cut_ident find_execdoc (by decide) (by decide) (by decide) (by simp [bodyCtx, r_executable_document]) ?_
  refine cut_seq2 (dec_soi _ _) (dec_skip _ _ _ _ (plain_of _ (by simp))) ?_
  refine cut_seq1 ?_
  refine cut_rep1 ?_
  refine cut_ident find_execdef (by decide) (by decide) (by decide) (by simp [bodyCtx, r_executable_definition]) ?_
  refine cut_choice1 ?_
  refine cut_ident find_opdef (by decide) (by decide) (by decide) (by simp [bodyCtx, r_operation_definition]) ?_
  refine cut_choice2 (dec_of_eval (nod_eval _ _) (by simp)) ?_
  refine cut_ident find_selset (by decide) (by decide) (by decide) (by simp [bodyCtx, r_selection_set]) ?_
  refine cut_seq2 (dec_chr _ _ _ _) (dec_skip _ _ _ _ (plain_of _ (by simp))) ?_
  refine cut_seq1 ?_
  refine cut_rep1 ?_
  refine cut_ident find_selection (by decide) (by decide) (by decide) (by simp [bodyCtx, r_selection]) ?_
  refine cut_choice1 ?_
  refine cut_ident find_field (by decide) (by decide) (by decide) (by simp [bodyCtx, r_field]) ?_
  refine cut_seq2 (dec_of_eval (optalias_eval _ _) (by simp)) (dec_skip _ _ _ _ (plain_of _ (by simp))) ?_
  refine cut_seq2 (dec_name _ _ _ _ (Or.inl rfl) (Or.inl rfl)) (dec_skip _ _ _ _ (plain_of _ (by simp))) ?_
  refine cut_seq1 ?_
  refine cut_opt ?_
  refine cut_ident find_arguments (by decide) (by decide) (by decide) (by simp [bodyCtx, r_arguments]) ?_
  refine cut_seq2 (dec_chr _ _ _ _) (dec_skip _ _ _ _ (plain_of _ (by simp))) ?_
  refine cut_seq1 ?_
  refine cut_rep1 ?_
  refine cut_ident find_argument (by decide) (by decide) (by decide) (by simp [bodyCtx, r_argument]) ?_
  refine cut_seq2 (dec_name _ _ _ _ (Or.inr rfl) (Or.inr rfl)) (dec_skip _ _ _ _ (plain_of _ (by simp))) ?_
  refine cut_seq2 (dec_chr _ _ _ _) (dec_skip _ _ _ _ hch) ?_
  exact A0

theorem le_depthFrom (rule : String) (s : List Char) : ∀ (span lo : Nat), lo ≤ depthFrom rule s lo span := by
  intro span
  induction span with
  | zero => intro lo; simp [depthFrom]
  | succ k ih =>
    intro lo
    simp only [depthFrom]
    split
    · have := ih (lo + 1); omega
    · omega

/-- the linear search passes every depth at which the descent is cut off -/
theorem depthFrom_ge (rule : String) (s : List Char) (N : Nat)
    (h : ∀ f, f ≤ N → cutOffAt rule s f = true) :
    ∀ (span lo : Nat), lo ≤ N + 1 → N + 1 ≤ lo + span → N + 1 ≤ depthFrom rule s lo span := by
  intro span
  induction span with
  | zero => intro lo h1 h2; simp only [depthFrom]; omega
  | succ k ih =>
    intro lo h1 h2
    simp only [depthFrom]
    by_cases hlo : lo ≤ N
    · rw [if_pos (h lo hlo)]
      exact ih (lo + 1) (by omega) (by omega)
    · split
      · have := le_depthFrom rule s k (lo + 1); omega
      · omega

theorem rep_length (s : List Char) (n : Nat) : (rep s n).length = n * s.length := by
  induction n with
  | zero => simp [rep]
  | succ n ih => simp [rep, ih, Nat.add_mul]; omega

theorem listDoc_length (n : Nat) : (listDoc n).length = 2 * n + 7 := by
  simp [listDoc, nestList, rep_length]; omega


end Descent


-- ------------------------------------------------------------------ order of the pre-execution checks

theorem sumOpt_ne_none (l : List (Option Nat)) (h : ∀ x ∈ l, x ≠ none) : sumOpt l ≠ none := by
  induction l with
  | nil => simp [sumOpt]
  | cons a l ih =>
    cases a with
    | none => exact absurd rfl (h none (by simp))
    | some a =>
      have := ih (fun x hx => h x (by simp [hx]))
      cases hs : sumOpt l with
      | none => exact absurd hs this
      | some v => simp [sumOpt, hs]

theorem sumOpt_some_all (l : List (Option Nat)) (v : Nat) (h : sumOpt l = some v) : ∀ x ∈ l, x ≠ none := by
  induction l generalizing v with
  | nil => simp
  | cons a l ih =>
    cases a with
    | none => simp [sumOpt] at h
    | some a =>
      cases hs : sumOpt l with
      | none => simp [sumOpt, hs] at h
      | some w =>
        intro x hx
        rcases List.mem_cons.1 hx with rfl | hx
        · simp
        · exact ih w hs x hx

/-- wherever the depth check passes, the (unbounded) directives walk comes back within the same stack -/
theorem dirWalk_of_spreadVisits (frags : Spreads) (max : Nat) :
    ∀ (fuel d i v : Nat), spreadVisits frags max fuel d i = some v → dirWalk frags fuel i ≠ none := by
  intro fuel
  induction fuel with
  | zero => intro d i v h; simp [spreadVisits] at h
  | succ fuel ih =>
    intro d i v h
    rw [spreadVisits] at h
    split at h
    · cases h
    · rw [dirWalk]
      cases hs : sumOpt ((frags.getD i []).map (fun j => spreadVisits frags max fuel (d + 1) j)) with
      | none => rw [hs] at h; simp at h
      | some w =>
        have hall := sumOpt_some_all _ w hs
        have : sumOpt ((frags.getD i []).map (fun j => dirWalk frags fuel j)) ≠ none := by
          apply sumOpt_ne_none
          intro x hx
          obtain ⟨j, hj, rfl⟩ := List.mem_map.1 hx
          have hj' : spreadVisits frags max fuel (d + 1) j ≠ none := hall _ (List.mem_map.2 ⟨j, hj, rfl⟩)
          cases hv : spreadVisits frags max fuel (d + 1) j with
          | none => exact absurd hv hj'
          | some u => exact ih (d + 1) j u hv
        cases hd : sumOpt ((frags.getD i []).map (fun j => dirWalk frags fuel j)) with
        | none => exact absurd hd this
        | some u => simp

theorem runChecks_source_order (frags : Spreads) (max : Nat) (maxDirs : Option Nat) (stack root : Nat) :
    runChecks frags max maxDirs stack root AGV.Gen.LimitFacts.checkOrder ≠ .overflow := by
  cases hv : spreadVisits frags max stack 0 root with
  | none => simp [AGV.Gen.LimitFacts.checkOrder, runChecks, hv]
  | some v =>
    have hd := dirWalk_of_spreadVisits frags max stack 0 root v hv
    cases maxDirs with
    | none => simp [AGV.Gen.LimitFacts.checkOrder, runChecks, hv]
    | some m =>
      cases hw : dirWalk frags stack root with
      | none => exact absurd hw hd
      | some u => simp [AGV.Gen.LimitFacts.checkOrder, runChecks, hv, hw]

theorem dirWalk_self_cycle (stack : Nat) : dirWalk [[0]] stack 0 = none := by
  induction stack with
  | zero => simp [dirWalk]
  | succ n ih => rw [dirWalk]; simp [sumOpt, ih]

end AGV.Lemmas.Hostile
