/-
  Helper lemmas for property C12 (Model/Hostile.lean).  Core only.
-/
import AGV.Model.Hostile

namespace AGV.Lemmas.Hostile
open AGV.Model.Hostile
open AGV.Model.UploadBind (stripPrefix parseUsize)
open AGV.Model.Peg (Pair eval Res)

-- ------------------------------------------------------------------ upload markers

theorem uploadParse_none_ne_panic (s : List Char) : uploadParse Defects.none s ≠ .panic := by
  unfold uploadParse
  split
  · simp
  · split <;> simp [Defects.none]

theorem uploadValue_none_ne_panic (i n : Nat) : uploadValue Defects.none i n ≠ .panic := by
  unfold uploadValue
  split
  · simp
  · simp [Defects.none]

theorem markerRun_none_ne_panic (s : List Char) (n : Nat) : markerRun Defects.none s n ≠ .panic := by
  unfold markerRun
  split
  · exact uploadValue_none_ne_panic _ _
  · simp
  · rename_i h
    exact absurd h (uploadParse_none_ne_panic s)

theorem uploadValue_ok_lt (D : Defects) (i n k : Nat) (h : uploadValue D i n = .ok k) : k < n := by
  unfold uploadValue at h
  split at h
  · cases h; assumption
  · split at h <;> cases h

theorem markerRun_ok_lt (D : Defects) (s : List Char) (n k : Nat) (h : markerRun D s n = .ok k) : k < n := by
  unfold markerRun at h
  split at h
  · exact uploadValue_ok_lt D _ n k h
  · cases h
  · cases h

theorem stripPrefix_eq_some (p s r : List Char) : stripPrefix p s = some r ↔ s = p ++ r := by
  induction p generalizing s with
  | nil => simp [stripPrefix, eq_comm]
  | cons a p ih =>
    cases s with
    | nil => simp [stripPrefix]
    | cons b s =>
      simp only [stripPrefix]
      by_cases hab : a = b
      · subst hab; simp [ih]
      · simp [hab]; intro h; exact absurd h.symm hab

theorem markerRun_none_ok_iff (s : List Char) (n k : Nat) :
    markerRun Defects.none s n = .ok k ↔
      ∃ rest, s = marker ++ rest ∧ parseUsize rest = some k ∧ k < n := by
  constructor
  · intro h
    unfold markerRun at h
    split at h
    · rename_i i hp
      have hk : k < n := uploadValue_ok_lt _ _ _ _ h
      have hik : i = k := by
        unfold uploadValue at h
        split at h
        · cases h; rfl
        · split at h <;> cases h
      unfold uploadParse at hp
      split at hp
      · cases hp
      · rename_i rest hs
        split at hp
        · rename_i m hm
          cases hp
          exact ⟨rest, (stripPrefix_eq_some _ _ _).1 hs, hik ▸ hm, hk⟩
        · split at hp <;> cases hp
    · cases h
    · cases h
  · rintro ⟨rest, hs, hp, hk⟩
    have h1 : stripPrefix marker s = some rest := (stripPrefix_eq_some _ _ _).2 hs
    simp [markerRun, uploadParse, h1, hp, uploadValue, hk]

-- ------------------------------------------------------------------ selection-set guard

theorem foldl_max_le (l : List Nat) (a b : Nat) (ha : a ≤ b) (h : ∀ x ∈ l, x ≤ b) : l.foldl max a ≤ b := by
  induction l generalizing a with
  | nil => simpa
  | cons x l ih =>
    simp only [List.foldl_cons]
    apply ih
    · exact Nat.max_le.2 ⟨ha, h x (by simp)⟩
    · intro y hy; exact h y (by simp [hy])

theorem listMax_le (l : List Nat) (b : Nat) (h : ∀ x ∈ l, x ≤ b) : listMax l ≤ b :=
  foldl_max_le l 0 b (Nat.zero_le _) h

theorem listMax_map_le {α : Type} (l : List α) (g : α → Nat) (b : Nat) (h : ∀ x, g x ≤ b) :
    listMax (l.map g) ≤ b := by
  apply listMax_le
  intro x hx
  obtain ⟨y, _, rfl⟩ := List.mem_map.1 hx
  exact h y

/-- the guard bounds the recursion by `remaining + 1` on every pair tree -/
theorem selRecursion_le (f remaining : Nat) (p : Pair) : selRecursion true f remaining p ≤ remaining + 1 := by
  induction f generalizing remaining p with
  | zero => simp [selRecursion]
  | succ f ih =>
    rw [selRecursion]
    have : listMax (p.inner.map (fun sp =>
          listMax (sp.inner.map (fun c =>
            listMax (c.inner.map (fun x =>
              if x.rule = "selection_set" then
                (if (true && decide (remaining = 0)) = true then 0 else selRecursion true f (remaining - 1) x)
              else 0)))))) ≤ remaining := by
      apply listMax_map_le; intro sp
      apply listMax_map_le; intro c
      apply listMax_map_le; intro x
      split
      · split
        · exact Nat.zero_le _
        · rename_i h0
          have hr : remaining ≠ 0 := by simpa using h0
          have := ih (remaining - 1) x
          omega
      · exact Nat.zero_le _
    omega

def selNest : Nat → Pair
  | 0 => Pair.mk "selection_set" 0 0 []
  | n + 1 => Pair.mk "selection_set" 0 0 [Pair.mk "selection" 0 0 [Pair.mk "field" 0 0 [selNest n]]]

theorem selNest_rule (n : Nat) : (selNest n).rule = "selection_set" := by
  cases n <;> rfl

theorem selRecursion_selNest (n f remaining : Nat) (hf : n + 1 ≤ f) :
    selRecursion false f remaining (selNest n) = n + 1 := by
  induction n generalizing f remaining with
  | zero =>
    obtain ⟨f', rfl⟩ : ∃ f', f = f' + 1 := ⟨f - 1, by omega⟩
    simp [selRecursion, selNest, Pair.inner, listMax]
  | succ n ih =>
    obtain ⟨f', rfl⟩ : ∃ f', f = f' + 1 := ⟨f - 1, by omega⟩
    have h := ih f' (remaining - 1) (by omega)
    rw [selRecursion]
    simp [selNest, Pair.inner, listMax, selNest_rule, h]
    omega


-- ------------------------------------------------------------------ the pest descent on nested lists

section Descent
open AGV.Model.Peg AGV.Gen.Grammar
local notation "G" => AGV.Gen.Grammar.grammar

theorem find_variable : findRule G "variable" = some r_variable := by rfl
theorem find_number : findRule G "number" = some r_number := by rfl
theorem find_float : findRule G "float" = some r_float := by rfl
theorem find_int : findRule G "int" = some r_int := by rfl
theorem find_string : findRule G "string" = some r_string := by rfl
theorem find_boolean : findRule G "boolean" = some r_boolean := by rfl
theorem find_null : findRule G "null" = some r_null := by rfl
theorem find_enum_value : findRule G "enum_value" = some r_enum_value := by rfl
theorem find_name : findRule G "name" = some r_name := by rfl
theorem find_name_start : findRule G "name_start" = some r_name_start := by rfl
theorem find_list : findRule G "list" = some r_list := by rfl
theorem find_value : findRule G "value" = some r_value := by rfl
theorem find_ws : findRule G "WHITESPACE" = some r_WHITESPACE := by rfl
theorem find_comment : findRule G "COMMENT" = some r_COMMENT := by rfl
theorem find_lt : findRule G "line_terminator" = some r_line_terminator := by rfl

-- generic propagation of `oof` (out of depth) through the interpreter

theorem zero_oof (c e p s) : eval G 0 c e p s = .oof := by simp [eval]

theorem seq_oof_first (f c a b p s) (h : eval G f c a p s = .oof) : eval G (f + 1) c (.seq a b) p s = .oof := by
  simp [eval, h]

theorem rep_oof_first (f c a p s) (h : eval G f c a p s = .oof) : eval G (f + 1) c (.rep a) p s = .oof := by
  simp [eval, h]

theorem choice_oof_first (f c a b p s) (h : eval G f c a p s = .oof) : eval G (f + 1) c (.choice a b) p s = .oof := by
  simp [eval, h]

theorem choice_oof_second (f c a b p s) (ha : eval G f c a p s = .oof ∨ eval G f c a p s = .fail)
    (hb : eval G f c b p s = .oof) : eval G (f + 1) c (.choice a b) p s = .oof := by
  rcases ha with h | h <;> simp [eval, h, hb]

theorem seq_oof_second (f c a b p s p1 s1 ps1) (ha : eval G f c a p s = .ok p1 s1 ps1)
    (hs : eval G f { c with atom := .atomic } skipExpr p1 s1 = .oof ∨
          eval G f { c with atom := .atomic } skipExpr p1 s1 = .ok p1 s1 [])
    (hb : eval G f c b p1 s1 = .oof) : eval G (f + 1) c (.seq a b) p s = .oof := by
  by_cases hc : c.atom = .non
  · rcases hs with h | h <;> simp [eval, ha, hc, h, hb]
  · simp [eval, ha, hc, hb]

theorem ident_oof (f c n r p s) (hr : findRule G n = some r) (hcc : charClass n = none)
    (h1 : n ≠ "SOI") (h2 : n ≠ "EOI") (h : eval G f (bodyCtx c r) r.expr p s = .oof) :
    eval G (f + 1) c (.ident n) p s = .oof := by
  simp [eval, h1, h2, hcc, hr, h]

/-- the alternative `n` of `value` cannot match in front of `[`: cut off or failed, at every depth -/
abbrev No (n : String) : Prop := ∀ (f : Nat) (c : Ctx) (p : Nat) (t : List Char),
    eval G f c (.ident n) p ('[' :: t) = .oof ∨ eval G f c (.ident n) p ('[' :: t) = .fail

set_option maxRecDepth 8000 in
theorem no_variable : No "variable" := by
  intro f c p t
  rcases f with _ | _ | _ | f
  all_goals first
    | (left; simp [eval, find_variable, charClass, r_variable, matchStr]; done)
    | (right; simp [eval, find_variable, charClass, r_variable, matchStr]; done)

set_option maxRecDepth 8000 in
theorem no_number : No "number" := by
  intro f c p t
  rcases f with _ | _ | _ | _ | _ | _ | _ | _ | _ | _ | _ | _ | _ | f
  all_goals first
    | (left; simp [eval, find_number, find_float, find_int, charClass, r_number, r_float, r_int, matchStr, bodyCtx, isAsciiNonzeroDigit]; done)
    | (right; simp [eval, find_number, find_float, find_int, charClass, r_number, r_float, r_int, matchStr, bodyCtx, isAsciiNonzeroDigit]; done)

set_option maxRecDepth 8000 in
theorem no_string : No "string" := by
  intro f c p t
  rcases f with _ | _ | _ | _ | _ | f
  all_goals first
    | (left; simp [eval, find_string, charClass, r_string, matchStr]; done)
    | (right; simp [eval, find_string, charClass, r_string, matchStr]; done)

set_option maxRecDepth 8000 in
theorem no_boolean : No "boolean" := by
  intro f c p t
  rcases f with _ | _ | _ | _ | f
  all_goals first
    | (left; simp [eval, find_boolean, charClass, r_boolean, matchStr]; done)
    | (right; simp [eval, find_boolean, charClass, r_boolean, matchStr]; done)

set_option maxRecDepth 8000 in
theorem no_null : No "null" := by
  intro f c p t
  rcases f with _ | _ | _ | f
  all_goals first
    | (left; simp [eval, find_null, charClass, r_null, matchStr]; done)
    | (right; simp [eval, find_null, charClass, r_null, matchStr]; done)

set_option maxRecDepth 8000 in
theorem no_enum_value : No "enum_value" := by
  intro f c p t
  rcases f with _ | _ | _ | _ | _ | _ | _ | _ | f
  all_goals first
    | (left; simp [eval, find_enum_value, find_boolean, find_null, find_name, find_name_start, charClass, r_enum_value, r_boolean, r_null, r_name, r_name_start, matchStr, bodyCtx, isAsciiAlpha]; done)
    | (right; simp [eval, find_enum_value, find_boolean, find_null, find_name, find_name_start, charClass, r_enum_value, r_boolean, r_null, r_name, r_name_start, matchStr, bodyCtx, isAsciiAlpha]; done)

set_option maxRecDepth 8000 in
/-- `hidden::skip` in front of a bracket consumes nothing -/
theorem skip_bracket (f : Nat) (c : Ctx) (p : Nat) (ch : Char) (t : List Char) (h : ch = '[' ∨ ch = ']') :
    eval G f { c with atom := .atomic } skipExpr p (ch :: t) = .oof ∨
    eval G f { c with atom := .atomic } skipExpr p (ch :: t) = .ok p (ch :: t) [] := by
  rcases h with rfl | rfl
  all_goals
    rcases f with _ | _ | _ | _ | _ | _ | _ | _ | _ | _ | _ | _ | _ | f
    all_goals first
      | (left; simp [eval, skipExpr, find_ws, find_comment, find_lt, charClass, r_WHITESPACE, r_COMMENT, r_line_terminator, matchStr]; done)
      | (right; simp [eval, skipExpr, find_ws, find_comment, find_lt, charClass, r_WHITESPACE, r_COMMENT, r_line_terminator, matchStr]; done)

theorem rep_snoc (s : List Char) (n : Nat) : rep s (n + 1) = rep s n ++ s := by
  induction n with
  | zero => simp [rep]
  | succ n ih =>
    show s ++ rep s (n + 1) = (s ++ rep s n) ++ s
    rw [ih, List.append_assoc]

theorem nestList_succ (k : Nat) : nestList (k + 1) = '[' :: (nestList k ++ [']']) := by
  unfold nestList
  rw [rep_snoc [']'] k]
  simp [rep, List.append_assoc]

theorem nest_head (k : Nat) (rest : List Char) :
    ∃ ch t, (ch = '[' ∨ ch = ']') ∧ nestList k ++ (']' :: rest) = ch :: t := by
  cases k with
  | zero => exact ⟨']', rest, Or.inr rfl, by simp [nestList, rep]⟩
  | succ k => exact ⟨'[', _, Or.inl rfl, by rw [nestList_succ]; rfl⟩

theorem bodyCtx_list (c : Ctx) : bodyCtx c r_list = c := by simp [bodyCtx, r_list]
theorem bodyCtx_value (c : Ctx) : bodyCtx c r_value = c := by simp [bodyCtx, r_value]

/-- On `[`ⁿ `]`ⁿ the descent from `value` is cut off at every depth up to `12·n`. -/
theorem value_nest_oof (n : Nat) : ∀ (f : Nat) (c : Ctx) (p : Nat) (rest : List Char), f ≤ 12 * n →
    eval G f c (.ident "value") p (nestList n ++ rest) = .oof := by
  induction n with
  | zero =>
    intro f c p rest hf
    have : f = 0 := by omega
    subst this; exact zero_oof _ _ _ _
  | succ k ih =>
    intro f c p rest hf
    have hin : nestList (k + 1) ++ rest = '[' :: (nestList k ++ (']' :: rest)) := by
      rw [nestList_succ]; simp [List.append_assoc]
    rw [hin]
    generalize ht : nestList k ++ (']' :: rest) = t
    obtain ⟨ch, t', hch, hhead⟩ := nest_head k rest
    rw [ht] at hhead
    -- the twelve levels between two activations of `value`
    have L12 : ∀ fu, fu ≤ 12 * k → eval G fu c (.ident "value") (p + 1) t = .oof := by
      intro fu h; rw [← ht]; exact ih fu c (p + 1) (']' :: rest) h
    have L11 : ∀ fu, fu ≤ 12 * k + 1 → eval G fu c (.rep (.ident "value")) (p + 1) t = .oof := by
      intro fu h
      cases fu with
      | zero => exact zero_oof _ _ _ _
      | succ fu => exact rep_oof_first _ _ _ _ _ (L12 fu (by omega))
    have L10 : ∀ fu, fu ≤ 12 * k + 2 →
        eval G fu c (.seq (.rep (.ident "value")) (.str [']'])) (p + 1) t = .oof := by
      intro fu h
      cases fu with
      | zero => exact zero_oof _ _ _ _
      | succ fu => exact seq_oof_first _ _ _ _ _ _ (L11 fu (by omega))
    have L9 : ∀ fu, fu ≤ 12 * k + 3 → eval G fu c r_list.expr p ('[' :: t) = .oof := by
      intro fu h
      cases fu with
      | zero => exact zero_oof _ _ _ _
      | succ fu =>
        cases fu with
        | zero => exact seq_oof_first _ _ _ _ _ _ (zero_oof _ _ _ _)
        | succ fu =>
          have ha : eval G (fu + 1) c (.str ['[']) p ('[' :: t) = .ok (p + 1) t [] := by
            simp [eval, matchStr]
          have hs := skip_bracket (fu + 1) c (p + 1) ch t' hch
          rw [← hhead] at hs
          exact seq_oof_second _ _ _ _ _ _ _ _ _ ha hs (L10 (fu + 1) (by omega))
    have L8 : ∀ fu, fu ≤ 12 * k + 4 → eval G fu c (.ident "list") p ('[' :: t) = .oof := by
      intro fu h
      cases fu with
      | zero => exact zero_oof _ _ _ _
      | succ fu =>
        refine ident_oof _ _ _ _ _ _ find_list (by decide) (by decide) (by decide) ?_
        rw [bodyCtx_list]; exact L9 fu (by omega)
    have L7 : ∀ fu, fu ≤ 12 * k + 5 →
        eval G fu c (.choice (.ident "list") (.ident "object")) p ('[' :: t) = .oof := by
      intro fu h
      cases fu with
      | zero => exact zero_oof _ _ _ _
      | succ fu => exact choice_oof_first _ _ _ _ _ _ (L8 fu (by omega))
    have L6 : ∀ fu, fu ≤ 12 * k + 6 →
        eval G fu c (.choice (.ident "enum_value") (.choice (.ident "list") (.ident "object"))) p ('[' :: t) = .oof := by
      intro fu h
      cases fu with
      | zero => exact zero_oof _ _ _ _
      | succ fu => exact choice_oof_second _ _ _ _ _ _ (no_enum_value fu c p t) (L7 fu (by omega))
    have L5 : ∀ fu, fu ≤ 12 * k + 7 →
        eval G fu c (.choice (.ident "null") (.choice (.ident "enum_value") (.choice (.ident "list") (.ident "object")))) p ('[' :: t) = .oof := by
      intro fu h
      cases fu with
      | zero => exact zero_oof _ _ _ _
      | succ fu => exact choice_oof_second _ _ _ _ _ _ (no_null fu c p t) (L6 fu (by omega))
    have L4 : ∀ fu, fu ≤ 12 * k + 8 →
        eval G fu c (.choice (.ident "boolean") (.choice (.ident "null") (.choice (.ident "enum_value") (.choice (.ident "list") (.ident "object"))))) p ('[' :: t) = .oof := by
      intro fu h
      cases fu with
      | zero => exact zero_oof _ _ _ _
      | succ fu => exact choice_oof_second _ _ _ _ _ _ (no_boolean fu c p t) (L5 fu (by omega))
    have L3 : ∀ fu, fu ≤ 12 * k + 9 →
        eval G fu c (.choice (.ident "string") (.choice (.ident "boolean") (.choice (.ident "null") (.choice (.ident "enum_value") (.choice (.ident "list") (.ident "object")))))) p ('[' :: t) = .oof := by
      intro fu h
      cases fu with
      | zero => exact zero_oof _ _ _ _
      | succ fu => exact choice_oof_second _ _ _ _ _ _ (no_string fu c p t) (L4 fu (by omega))
    have L2 : ∀ fu, fu ≤ 12 * k + 10 →
        eval G fu c (.choice (.ident "number") (.choice (.ident "string") (.choice (.ident "boolean") (.choice (.ident "null") (.choice (.ident "enum_value") (.choice (.ident "list") (.ident "object"))))))) p ('[' :: t) = .oof := by
      intro fu h
      cases fu with
      | zero => exact zero_oof _ _ _ _
      | succ fu => exact choice_oof_second _ _ _ _ _ _ (no_number fu c p t) (L3 fu (by omega))
    have L1 : ∀ fu, fu ≤ 12 * k + 11 → eval G fu c r_value.expr p ('[' :: t) = .oof := by
      intro fu h
      cases fu with
      | zero => exact zero_oof _ _ _ _
      | succ fu => exact choice_oof_second _ _ _ _ _ _ (no_variable fu c p t) (L2 fu (by omega))
    cases f with
    | zero => exact zero_oof _ _ _ _
    | succ f =>
      refine ident_oof _ _ _ _ _ _ find_value (by decide) (by decide) (by decide) ?_
      rw [bodyCtx_value]; exact L1 f (by omega)

end Descent


-- ------------------------------------------------------------------ order of the pre-execution checks

theorem sumOpt_ne_none (l : List (Option Nat)) (h : ∀ x ∈ l, x ≠ none) : sumOpt l ≠ none := by
  induction l with
  | nil => simp [sumOpt]
  | cons a l ih =>
    cases a with
    | none => exact absurd rfl (h none (by simp))
    | some a =>
      have := ih (fun x hx => h x (by simp [hx]))
      cases hs : sumOpt l with
      | none => exact absurd hs this
      | some v => simp [sumOpt, hs]

theorem sumOpt_some_all (l : List (Option Nat)) (v : Nat) (h : sumOpt l = some v) : ∀ x ∈ l, x ≠ none := by
  induction l generalizing v with
  | nil => simp
  | cons a l ih =>
    cases a with
    | none => simp [sumOpt] at h
    | some a =>
      cases hs : sumOpt l with
      | none => simp [sumOpt, hs] at h
      | some w =>
        intro x hx
        rcases List.mem_cons.1 hx with rfl | hx
        · simp
        · exact ih w hs x hx

/-- wherever the depth check passes, the (unbounded) directives walk comes back within the same stack -/
theorem dirWalk_of_spreadVisits (frags : Spreads) (max : Nat) :
    ∀ (fuel d i v : Nat), spreadVisits frags max fuel d i = some v → dirWalk frags fuel i ≠ none := by
  intro fuel
  induction fuel with
  | zero => intro d i v h; simp [spreadVisits] at h
  | succ fuel ih =>
    intro d i v h
    rw [spreadVisits] at h
    split at h
    · cases h
    · rw [dirWalk]
      cases hs : sumOpt ((frags.getD i []).map (fun j => spreadVisits frags max fuel (d + 1) j)) with
      | none => rw [hs] at h; simp at h
      | some w =>
        have hall := sumOpt_some_all _ w hs
        have : sumOpt ((frags.getD i []).map (fun j => dirWalk frags fuel j)) ≠ none := by
          apply sumOpt_ne_none
          intro x hx
          obtain ⟨j, hj, rfl⟩ := List.mem_map.1 hx
          have hj' : spreadVisits frags max fuel (d + 1) j ≠ none := hall _ (List.mem_map.2 ⟨j, hj, rfl⟩)
          cases hv : spreadVisits frags max fuel (d + 1) j with
          | none => exact absurd hv hj'
          | some u => exact ih (d + 1) j u hv
        cases hd : sumOpt ((frags.getD i []).map (fun j => dirWalk frags fuel j)) with
        | none => exact absurd hd this
        | some u => simp

theorem runChecks_source_order (frags : Spreads) (max : Nat) (maxDirs : Option Nat) (stack root : Nat) :
    runChecks frags max maxDirs stack root AGV.Gen.LimitFacts.checkOrder ≠ .overflow := by
  cases hv : spreadVisits frags max stack 0 root with
  | none => simp [AGV.Gen.LimitFacts.checkOrder, runChecks, hv]
  | some v =>
    have hd := dirWalk_of_spreadVisits frags max stack 0 root v hv
    cases maxDirs with
    | none => simp [AGV.Gen.LimitFacts.checkOrder, runChecks, hv]
    | some m =>
      cases hw : dirWalk frags stack root with
      | none => exact absurd hw hd
      | some u => simp [AGV.Gen.LimitFacts.checkOrder, runChecks, hv, hw]

theorem dirWalk_self_cycle (stack : Nat) : dirWalk [[0]] stack 0 = none := by
  induction stack with
  | zero => simp [dirWalk]
  | succ n ih => rw [dirWalk]; simp [sumOpt, ih]

end AGV.Lemmas.Hostile
