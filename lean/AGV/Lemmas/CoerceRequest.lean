/-
  Document validity for the request-level statement of property C06: what the specification's
  validation (§5.4 arguments, §5.6 values: input object field names / uniqueness / required
  fields, values of correct type, §5.8 variables) guarantees of the argument literals of an
  executable document before CoerceArgumentValues runs.  Used as the hypothesis of
  `c06_request_wf`.
-/
import AGV.Lemmas.CoerceShape

namespace AGV.Lemmas.Coerce
open AGV.Core
open AGV.Spec.Coerce

mutual
/-- the literal `dv` is valid at a position of type `ty` (`hasDefault`: the position declares a
    default): variables are allowed there (§5.8.5), a null literal only at a nullable type, a list
    literal only at a list type, an object literal only at an input object type with pairwise
    distinct declared keys, every required field present, exactly one non-null entry for @oneOf;
    a leaf is a literal the specification coerces (no string literal at an enum type) -/
def litOk (T : Table) (vars : List VarDef) : TypeRef → Bool → DValue → Bool
  | ty, hasDefault, .var n =>
    match vars.find? (·.name = n) with
    | some vd => usageAllowed vd ty hasDefault
    | none => false
  | ty, _, .null => !ty.isNonNull
  | ty, _, .list xs =>
    match ty.nullable with
    | .list t => litOkList T vars t xs
    | _ => false
  | ty, _, .obj fs =>
    match T.find? ty.base with
    | some (.input oneOf fields) =>
      nodupB (fs.map (·.1)) && litOkEntries T vars oneOf fields fs
        && (if oneOf then fs.length = 1
            else fields.all (fun f => (lookup fs f.name).isSome || !f.ty.gql.isNonNull || f.default.isSome))
    | _ => false
  | ty, _, .int i => (coerceLeaf T false ty.base (.int i)).isSome
  | ty, _, .float t => (coerceLeaf T false ty.base (.float t)).isSome
  | ty, _, .str s => (coerceLeaf T false ty.base (.str s)).isSome
  | ty, _, .bool b => (coerceLeaf T false ty.base (.bool b)).isSome
  | ty, _, .enum n => (coerceLeaf T false ty.base (.enum n)).isSome
def litOkList (T : Table) (vars : List VarDef) (t : TypeRef) : List DValue → Bool
  | [] => true
  | x :: xs => litOk T vars t false x && litOkList T vars t xs
def litOkEntries (T : Table) (vars : List VarDef) (oneOf : Bool) (fields : List InField) :
    List (String × DValue) → Bool
  | [] => true
  | (k, v) :: rest =>
    (match fields.find? (·.name = k) with
     | some f =>
       if oneOf then litOk T vars (.nonNull f.ty.gql.nullable) false v
       else litOk T vars f.ty.gql f.default.isSome v
     | none => false) && litOkEntries T vars oneOf fields rest
end

mutual
/-- a constant as a document literal -/
def litOf : GValue → DValue
  | .null => .null
  | .int i => .int i
  | .float t => .float t
  | .str s => .str s
  | .bool b => .bool b
  | .enum n => .enum n
  | .list xs => .list (litOfList xs)
  | .obj fs => .obj (litOfFields fs)
def litOfList : List GValue → List DValue
  | [] => []
  | x :: xs => litOf x :: litOfList xs
def litOfFields : List (String × GValue) → List (String × DValue)
  | [] => []
  | (k, v) :: rest => (k, litOf v) :: litOfFields rest
end

/-- a valid query operation over the table: declared root fields, declared pairwise distinct
    argument names, required arguments provided, valid argument literals, pairwise distinct
    variable names, valid variable defaults -/
def docOk (T : Table) (op : OpDef) : Bool :=
  nodupB (op.vars.map (·.name))
  && op.vars.all (fun vd => match vd.default with
      | some d => litOk T [] vd.ty false (litOf d)
      | none => true)
  && op.sels.all (fun s => match s with
      | .field _ n args _ _ _ =>
        (match T.field? n with
         | some sig =>
           nodupB (args.map (·.1))
           && args.all (fun a => match sig.args.find? (·.name = a.1) with
               | some d => litOk T op.vars d.ty.gql d.default.isSome a.2
               | none => false)
           && sig.args.all (fun d => (lookup args d.name).isSome || !d.ty.gql.isNonNull || d.default.isSome)
         | none => false)
      | _ => false)

mutual
/-- integers of supplied variable values lie in the 32-bit range (the validity pre-check for
    `Int` is `is_i64`; a larger one fails later, as a field error of the position it reaches) -/
def intsSmall : GValue → Bool
  | .int i => decide (-2147483648 ≤ i ∧ i ≤ 2147483647)
  | .list xs => intsSmallList xs
  | .obj fs => intsSmallFields fs
  | _ => true
def intsSmallList : List GValue → Bool
  | [] => true
  | x :: xs => intsSmall x && intsSmallList xs
def intsSmallFields : List (String × GValue) → Bool
  | [] => true
  | (_, v) :: rest => intsSmall v && intsSmallFields rest
end

end AGV.Lemmas.Coerce
