/-
  C15: the one finite table needed about `{:04x}` (kept in its own file: `decide` over the 160
  code points below U+00A0 takes a few seconds).
-/
import AGV.Model.Print

namespace AGV.Lemmas.PrintTable
open AGV.Model.Print AGV.Gen.WriteQuoted

set_option maxRecDepth 100000 in
/-- `{:04x}` of a control character's code point: two zeros and two hex digits -/
theorem ctl_digits16 : ∀ n, n < 160 →
    padLeft controlWidth (radixDigits 16 n) = ['0', '0', lowerDigit (n / 16), lowerDigit (n % 16)] := by
  decide


end AGV.Lemmas.PrintTable
