/-
  Property C13: list and object literals — the repetition inside the brackets against the
  specification's `items`/`fields` loops, and the tree builder's `mapM` over the element pairs.
-/
import AGV.Lemmas.PegC13Val3
namespace AGV.Lemmas.PegX
open AGV.Model.Peg AGV.Model.BuildAst AGV.Spec.Lex AGV.Spec.Parse AGV.Core.PAst AGV.Lemmas.PegC13 AGV.Lemmas.SpecVal

/-- the next token is the Punctuator `y`: the tokens after it -/
def closeTok (y : Char) (ts : List Tok) : Option (List Tok) :=
  match ts with
  | .punct z :: r => if z = y then some r else none
  | _ => none

theorem closeTok_toks (y : Char) (hy : isPunct y = true) (u : List Char) (hu : TokStart u) :
    closeTok y (toks u) = (punctTok y u).map toks := by
  rcases toks_head u hu with ⟨rfl, h⟩ | ⟨-, hl, h⟩ | ⟨tok, rest, hl, h, -⟩
  · rw [h]; rfl
  · rw [h, (tok_none hl).1]
    have : ¬ '?' = y := by intro e; subst e; revert hy; decide
    simp [closeTok, bad, this]
  · rw [h]
    cases tok with
    | punct z => simp only [closeTok, punctTok, hl]; split <;> rfl
    | _ => simp [closeTok, punctTok, hl]

theorem closeTok_none {y : Char} {ts : List Tok} (h : ∀ r, ts ≠ .punct y :: r) : closeTok y ts = none := by
  unfold closeTok
  split
  · rename_i z r
    split
    · rename_i e; subst e; exact absurd rfl (h r)
    · rfl
  · rfl

theorem closeTok_self (y : Char) (r : List Tok) : closeTok y (.punct y :: r) = some r := by simp [closeTok]

/-- the element description used in repetitions: for whatever document the text is part of -/
def GoodC (F : ValFam) (q : Nat) (t : List Char) (r : Res) : Prop := ∀ s₀, At s₀ q t → GoodV F s₀ q t r

/-- the tree builder maps over these pairs to these values -/
def BuildsL (s₀ : List Char) (p : Nat) (ps : List Pair) (vs : List PValue) : Prop :=
  ∀ bf, s₀.length - p < bf → ps.mapM (buildValue (envOf s₀) bf) = expVs vs

theorem pV_rbrack (c : Bool) (r : List Tok) : pV P' c (.punct ']' :: r) = none :=
  pV_punct_other c ']' r (by decide) (by decide) (by decide)

theorem skipPos_ge (p : Nat) (s : List Char) : p ≤ skipPos p s := by unfold skipPos; omega

theorem chain_items {F : ValFam} {p : Nat} {s : List Char} {p' : Nat} {s' : List Char} {ps : List Pair}
    (h : Chain (GoodC F) p s p' s' ps) : ∀ s₀, At s₀ p s →
    ∃ vs, itemsV P' F.const (toks s) = (closeTok ']' (toks s')).map (fun r => (vs, r)) ∧ At s₀ p' s' ∧ p ≤ p' ∧
      BuildsL s₀ p ps vs := by
  induction h with
  | @stop p s hg =>
    intro s₀ hat
    have hg' := hg s₀ hat.skip
    have hpv : pV P' F.const (toks (skipI s)) = none := by
      cases hp : pV P' F.const (toks (skipI s)) with
      | none => rfl
      | some x => obtain ⟨v, ts'⟩ := x; obtain ⟨s'', pr, e, -⟩ := hg'.ok hp; cases e
    refine ⟨[], ?_, hat, Nat.le_refl _, fun bf _ => by rw [expVs_nil]; rfl⟩
    rw [← toks_skipI s]
    by_cases hc : ∃ r, toks (skipI s) = .punct ']' :: r
    · obtain ⟨r, hr⟩ := hc
      rw [hr, itemsV_close, closeTok_self]; rfl
    · rw [itemsV_elem P' F.const _ (fun r e => hc ⟨r, e⟩), hpv, closeTok_none (fun r e => hc ⟨r, e⟩)]; rfl
  | @step p s p2 s2 ps2 p3 s3 ps3 hg hch ih =>
    intro s₀ hat
    have hat1 := hat.skip
    have hg' := hg s₀ hat1
    cases hp : pV P' F.const (toks (skipI s)) with
    | none => have := hg'.fail hp; cases this
    | some x =>
      obtain ⟨v, ts'⟩ := x
      obtain ⟨s'', pr, e, hts, hlt, ⟨mid, hmid⟩, hst, hb⟩ := hg'.ok hp
      cases e
      have hat2 : At s₀ (skipPos p s + ((skipI s).length - s2.length)) s2 :=
        hat1.consumes ⟨mid, hmid, by rw [hmid]; simp⟩
      obtain ⟨vs', hi, hat3, hle, hbl⟩ := ih s₀ hat2
      have hge := skipPos_ge p s
      refine ⟨v :: vs', ?_, hat3, by omega, ?_⟩
      · rw [← toks_skipI s]
        have hnc : ∀ r, toks (skipI s) ≠ .punct ']' :: r := fun r e => by rw [e, pV_rbrack] at hp; cases hp
        rw [itemsV_elem P' F.const _ hnc, hp]
        simp only [Option.bind_some]
        rw [← hts, hi]
        cases closeTok ']' (toks s3) <;> rfl
      · intro bf hbf
        have h1 := hb bf (by rw [hst]; omega)
        have h2 := hbl bf (by omega)
        rw [List.singleton_append, List.mapM_cons, h1, h2, expVs_cons]
        rfl

theorem goodV_of_ev {F : ValFam} {s₀ : List Char} {q : Nat} {t s' : List Char} {p1 : Nat} {inner : Pair} {N : Nat}
    {v : PValue} (hev : EvR G0 c0 (.ident F.vName) q t N (.ok p1 s' [Pair.mk F.vName q p1 [inner]]))
    (hp : pV P' F.const (toks t) = some (v, toks s')) (hlt : s'.length < t.length)
    (hb : Builds s₀ (Pair.mk F.vName q p1 [inner]) v) :
    GoodV F s₀ q t (.ok p1 s' [Pair.mk F.vName q p1 [inner]]) := by
  obtain ⟨r, h1, h2⟩ := goodV_scalar hev hp hlt hb
  rw [← EvR.unique hev h1] at h2; exact h2

/-- a statement for one document gives the statement for all (the run does not depend on it) -/
theorem goodC_of {F : ValFam} {q : Nat} {t : List Char} {N : Nat}
    (h : ∀ s₀, At s₀ q t → ∃ r, EvR G0 c0 (.ident F.vName) q t N r ∧ GoodV F s₀ q t r) :
    ∃ r, EvR G0 c0 (.ident F.vName) q t N r ∧ GoodC F q t r := by
  obtain ⟨r, hr, -⟩ := h (List.replicate q 'x' ++ t) ⟨_, rfl, by simp⟩
  refine ⟨r, hr, fun s₀ hat => ?_⟩
  obtain ⟨r', hr', hg⟩ := h s₀ hat
  rw [EvR.unique hr hr']; exact hg

/-- what the repetition lemmas need to know about an element -/
theorem goodC_shape {F : ValFam} {q : Nat} {t : List Char} {r : Res} (h : GoodC F q t r) :
    r = .fail ∨ ∃ p2 s2 ps, r = .ok p2 s2 ps ∧ s2.length < t.length := by
  have hg := h (List.replicate q 'x' ++ t) ⟨_, rfl, by simp⟩
  cases hp : pV P' F.const (toks t) with
  | none => exact Or.inl (hg.fail hp)
  | some x =>
    obtain ⟨v, ts'⟩ := x
    obtain ⟨s', pr, e, -, hlt, -⟩ := hg.ok hp
    exact Or.inr ⟨_, _, _, e, hlt⟩

theorem At.len {s₀ q t} (h : At s₀ q t) : q + t.length = s₀.length := by
  obtain ⟨pre, rfl, rfl⟩ := h; simp

theorem build_list (F : ValFam) (hF : IsFam F) (s₀ : List Char) (q p5 p2 : Nat) (ps : List Pair) (vs : List PValue)
    (hq : q < p2) (hq2 : p2 ≤ s₀.length) (hb : BuildsL s₀ p2 ps vs) :
    Builds s₀ (Pair.mk F.vName q p5 [Pair.mk F.lName q p5 ps]) (.list vs) := by
  intro bf hbf
  obtain ⟨bf, rfl⟩ : ∃ b, bf = b + 1 := ⟨bf - 1, by omega⟩
  have := hb bf (by simp [Pair.start] at hbf; omega)
  rcases hF with rfl | rfl <;>
    simp [buildValue, Pair.inner, Pair.rule, famV, famC, this, expV_list]

theorem value_list_case (F : ValFam) (hF : IsFam F) (q : Nat) (t : List Char) (ht : TokStart t)
    (rest : List Char) (hl : lexToken t = some (.punct '[', rest)) (hts : toks t = .punct '[' :: toks rest)
    (IH : ∀ t' q', t'.length < t.length → TokStart t' →
      ∃ r, EvR G0 c0 (.ident F.vName) q' t' (24 * t'.length + 60) r ∧ GoodC F q' t' r) :
    ∃ r, EvR G0 c0 (.ident F.vName) q t (24 * t.length + 60) r ∧ GoodC F q t r := by
  obtain ⟨k1, k2, k3, k4, k5⟩ := tok_punct hl
  have hp : ∀ x, x ≠ '[' → punctTok x t = none := fun x hx => by rw [k1]; simp [Ne.symm hx]
  have hd : punctTok '[' t = some rest := by rw [k1]; simp
  obtain ⟨e, -⟩ := lexToken_punct_inv hl
  have hlen : t.length = rest.length + 1 := by rw [e]; rfl
  obtain ⟨-, hL, hO, -⟩ := fam_rules F hF
  -- the opening bracket, the items, the closing bracket
  have hopen : EvR G0 c0 (.str ['[']) q t 1 (.ok (q + 1) rest []) := by
    intro f hf; rw [punct_spec G0 c0 '[' (by decide) q t f hf, hd]; rfl
  have hsl := skipI_len rest
  obtain ⟨p3, s3, ps, hrep, hch, hle3⟩ := rep_chain tokRules0 (c := c0) rfl (a := .ident F.vName) (Good := GoodC F)
    (Ba := 60) (L := rest.length) (by omega)
    (fun t' q' hL' hts' => by
      obtain ⟨r, h1, h2⟩ := IH t' q' (by omega) hts'
      exact ⟨r, h1, h2, goodC_shape h2⟩)
    (skipI rest) (skipPos (q + 1) rest) (tokStart_skipI rest) hsl
  have hsl3 := skipI_len s3
  have hclose : EvR G0 c0 (.str [']']) (skipPos p3 s3) (skipI s3) 1
      (resOf (skipPos p3 s3 + 1) (punctTok ']' (skipI s3))) := by
    intro f hf; rw [punct_spec G0 c0 ']' (by decide) _ _ f hf]
  have hin := ev_seq0 hrep hclose (K := 24 * rest.length + 66) (by omega) (by omega) (by omega)
  have hbody := ev_seq0 hopen hin (K := 24 * rest.length + 67) (by omega) (by omega) (by omega)
  have hlist := ev_ruleOk hL (r := lRule F) hbody (Nat.lt_succ_self _)
  -- the other alternatives fail
  have hv := ev_variable_fail q t (hp _ (by decide))
  have hnum := ev_number_fail q t k2
  have hbool := ev_boolean_fail q t ht (boolTok_none k4)
  have hnull := ev_null_fail q t ht (k4 _)
  have henum := ev_enum_fail q t (Or.inr k5)
  have hobj := ev_open_fail hO '{' (by decide) _ rfl q t (hp _ (by decide))
  have hstr : EvR G0 c0 (.ident "string") q t (t.length + 22) .fail := by
    have := ev_string_fail (List.replicate q 'x') t k3
    simpa using this
  have hcl : closeTok ']' (toks s3) = (punctTok ']' (skipI s3)).map toks := by
    rw [← toks_skipI s3]; exact closeTok_toks ']' (by decide) _ (tokStart_skipI s3)
  cases hc5 : punctTok ']' (skipI s3) with
  | none =>
    rw [hc5] at hlist hcl
    have hev := ev_value_of_alts F hF q t (24 * t.length + 50) .fail .fail .fail .fail .fail .fail .fail .fail
      ⟨hv.mono (by omega), ne_oof_fail⟩ ⟨hnum.mono (by omega), ne_oof_fail⟩ ⟨hstr.mono (by omega), ne_oof_fail⟩
      ⟨hbool.mono (by omega), ne_oof_fail⟩ ⟨hnull.mono (by omega), ne_oof_fail⟩ ⟨henum.mono (by omega), ne_oof_fail⟩
      ⟨(hlist.cast (by simp [resOf])).mono (by omega), ne_oof_fail⟩ ⟨hobj.mono (by omega), ne_oof_fail⟩
    refine ⟨.fail, hev.cast (by cases F.const <;> simp [firstOk]), fun s₀ hat => GoodV.mk_fail ?_⟩
    obtain ⟨e1, -⟩ := lexToken_punct_inv hl
    have hat2 : At s₀ (skipPos (q + 1) rest) (skipI rest) := (hat.consumes ⟨['['], by rw [e1]; rfl, rfl⟩).skip
    obtain ⟨vs, hi, -, -, -⟩ := chain_items hch s₀ hat2
    rw [hts, pV_lbrack, ← toks_skipI rest, hi, hcl]; rfl
  | some r5 =>
    rw [hc5] at hlist hcl
    have hlist' : EvR G0 c0 (.ident F.lName) q t (24 * rest.length + 67 + 1)
        (.ok (skipPos p3 s3 + 1) r5 [Pair.mk F.lName q (skipPos p3 s3 + 1) ps]) :=
      hlist.cast (by simp [resOf])
    have hev := ev_value_of_alts F hF q t (24 * t.length + 50) .fail .fail .fail .fail .fail .fail _ .fail
      ⟨hv.mono (by omega), ne_oof_fail⟩ ⟨hnum.mono (by omega), ne_oof_fail⟩ ⟨hstr.mono (by omega), ne_oof_fail⟩
      ⟨hbool.mono (by omega), ne_oof_fail⟩ ⟨hnull.mono (by omega), ne_oof_fail⟩ ⟨henum.mono (by omega), ne_oof_fail⟩
      ⟨hlist'.mono (by omega), by simp⟩ ⟨hobj.mono (by omega), ne_oof_fail⟩
    have hev' : EvR G0 c0 (.ident F.vName) q t (24 * t.length + 60)
        (.ok (skipPos p3 s3 + 1) r5
          [Pair.mk F.vName q (skipPos p3 s3 + 1) [Pair.mk F.lName q (skipPos p3 s3 + 1) ps]]) :=
      hev.cast (by cases F.const <;> simp [firstOk])
    have hl5 : r5.length < t.length := by
      have h5 : r5.length < (skipI s3).length := by
        have := (show EvR G0 c0 (.str [']']) (skipPos p3 s3) (skipI s3) 1 (.ok (skipPos p3 s3 + 1) r5 []) from
          hclose.cast (by rw [hc5]; rfl)).consumes.len
        omega
      omega
    refine ⟨_, hev', fun s₀ hat => ?_⟩
    obtain ⟨e1, -⟩ := lexToken_punct_inv hl
    have hat2 : At s₀ (skipPos (q + 1) rest) (skipI rest) := (hat.consumes ⟨['['], by rw [e1]; rfl, rfl⟩).skip
    obtain ⟨vs, hi, -, -, hbl⟩ := chain_items hch s₀ hat2
    refine goodV_of_ev hev' (v := .list vs) ?_ hl5 ?_
    · rw [hts, pV_lbrack, ← toks_skipI rest, hi, hcl]; rfl
    · exact build_list F hF s₀ q _ (skipPos (q + 1) rest) ps vs (by have := skipPos_ge (q + 1) rest; omega)
        (by have := hat2.len; omega) hbl
end AGV.Lemmas.PegX
