/-
  C19 — helper lemmas: the root-field loop is a map, and list-level consequences.
-/
import AGV.Model.Introspection
import AGV.Model.IntrospectionObs
import AGV.Spec.Introspection

namespace AGV.Lemmas.Introspection
open AGV.Model.Introspection AGV.Spec.Introspection

theorem rootLoop_eq_map (f : Kind → Outcome) (ks : List Kind) :
    rootLoop f ks = ks.map (fun k => (k, f k)) := by
  induction ks with
  | nil => rfl
  | cons k ks ih => simp [rootLoop, ih]

theorem rootLoop_length (f : Kind → Outcome) (ks : List Kind) : (rootLoop f ks).length = ks.length := by
  simp [rootLoop_eq_map]

theorem mem_rootLoop {f : Kind → Outcome} {ks : List Kind} {p : Kind × Outcome}
    (h : p ∈ rootLoop f ks) : p.1 ∈ ks ∧ p.2 = f p.1 := by
  rw [rootLoop_eq_map] at h
  obtain ⟨k, hk, rfl⟩ := List.mem_map.1 h
  exact ⟨hk, rfl⟩

/-- a property of every table entry transfers to every field observation of a result -/
theorem all_observe_fields {P : FieldObs → Bool} {f : Kind → Outcome} (ks : List Kind)
    (h : ∀ k, k ∈ ks → P (observeField k (f k)) = true) :
    (observe (.fields (rootLoop f ks))).fields.all P = true := by
  simp only [observe, List.all_eq_true, List.mem_map]
  rintro _ ⟨p, hp, rfl⟩
  obtain ⟨hk, he⟩ := mem_rootLoop hp
  rw [he]
  exact h _ hk

/-- every entry produced by the loop with fragments is a root selection's kind paired with either
    its table entry or `absent` (a skipped fragment: subscription root, or a type condition that
    does not match the container) -/
theorem mem_selLoop {op : Op} {tm : Bool} {f : Kind → Outcome} {ss : List Sel} {p : Kind × Outcome}
    (h : p ∈ selLoop op tm f ss) :
    (∃ s ∈ ss, s.kind = p.1) ∧
      (p.2 = f p.1 ∨ (p.2 = .absent ∧ (op = .subscription ∨ tm = false))) := by
  induction ss with
  | nil => simp [selLoop] at h
  | cons s ss ih =>
    cases s with
    | field k =>
      simp only [selLoop, List.mem_cons] at h
      rcases h with rfl | h
      · exact ⟨⟨_, List.mem_cons_self, rfl⟩, Or.inl rfl⟩
      · obtain ⟨⟨s, hs, hk⟩, h2⟩ := ih h
        exact ⟨⟨s, List.mem_cons_of_mem _ hs, hk⟩, h2⟩
    | inline typed k =>
      simp only [selLoop, List.mem_append] at h
      rcases h with h | h
      · split at h
        · rename_i hc
          simp only [List.mem_singleton] at h
          subst h
          refine ⟨⟨_, List.mem_cons_self, rfl⟩, Or.inr ⟨rfl, ?_⟩⟩
          simp only [Bool.or_eq_true, decide_eq_true_eq, Bool.and_eq_true, Bool.not_eq_true'] at hc
          rcases hc with hc | hc
          · exact Or.inl hc
          · exact Or.inr hc.2
        · simp only [rootLoop, List.mem_singleton] at h
          subst h
          exact ⟨⟨_, List.mem_cons_self, rfl⟩, Or.inl rfl⟩
      · obtain ⟨⟨s, hs, hk⟩, h2⟩ := ih h
        exact ⟨⟨s, List.mem_cons_of_mem _ hs, hk⟩, h2⟩

/-- without fragments the loop with fragments is the plain root loop -/
theorem selLoop_fields (op : Op) (tm : Bool) (f : Kind → Outcome) (ks : List Kind) :
    selLoop op tm f (ks.map .field) = rootLoop f ks := by
  induction ks with
  | nil => rfl
  | cons k ks ih => simp [selLoop, rootLoop, ih]

theorem selLoop_kinds (op : Op) (tm : Bool) (f : Kind → Outcome) (ss : List Sel) :
    (selLoop op tm f ss).map Prod.fst = ss.map Sel.kind := by
  induction ss with
  | nil => rfl
  | cons s ss ih =>
    cases s with
    | field k => simp [selLoop, ih, Sel.kind]
    | inline typed k =>
      simp only [selLoop, List.map_append, ih, List.map_cons, Sel.kind]
      split <;> simp [rootLoop]

end AGV.Lemmas.Introspection
