import AGV.Model.LoaderCache
namespace AGV.Lemmas.LoaderCache
open AGV.Spec.LoaderCache (Key Val Op Out loaderVal normKeys normKVs arrange oneOf drop touch put)
open AGV.Model.LoaderCache (Storage Requests Kind Defects hmInsert lruDetach lruGet lruPut probe writeBack feedAll loadMany)

set_option linter.unusedSimpArgs false

def NodupKeys (l : List (Key × Val)) : Prop := l.Pairwise (fun a b => a.1 ≠ b.1)

theorem lookup_drop (h : List (Key × Val)) (k k' : Key) :
    (drop h k).lookup k' = if k' = k then none else h.lookup k' := by
  induction h with
  | nil => simp [drop]
  | cons p r ih =>
    obtain ⟨a, b⟩ := p
    simp only [drop] at ih ⊢
    simp only [List.filter_cons, List.lookup_cons]
    grind

theorem drop_of_lookup_none (h : List (Key × Val)) (k : Key) (hn : h.lookup k = none) : drop h k = h := by
  induction h with
  | nil => simp [drop]
  | cons p r ih =>
    obtain ⟨a, b⟩ := p
    simp only [drop] at ih ⊢
    simp only [List.filter_cons, List.lookup_cons] at hn ⊢
    grind

theorem lookup_touch (h : List (Key × Val)) (k k' : Key) : (touch h k).lookup k' = h.lookup k' := by
  unfold touch
  split
  · rename_i v hv
    simp only [List.lookup_cons, lookup_drop]
    grind
  · rfl

theorem lookup_hmInsert (m : List (Key × Val)) (k k' : Key) (v : Val) :
    (hmInsert m k v).lookup k' = if k' = k then some v else m.lookup k' := by
  induction m with
  | nil => simp only [hmInsert, List.lookup_cons]; grind
  | cons p r ih =>
    obtain ⟨a, b⟩ := p
    simp only [hmInsert]
    split <;> simp only [List.lookup_cons] <;> grind

theorem lruDetach_eq (l : List (Key × Val)) (k : Key) (hn : NodupKeys l) :
    lruDetach l k = (l.lookup k, drop l k) := by
  induction l with
  | nil => simp [lruDetach, drop]
  | cons p r ih =>
    obtain ⟨a, b⟩ := p
    have hr : NodupKeys r := (List.pairwise_cons.mp hn).2
    have ha : ∀ q ∈ r, a ≠ q.1 := (List.pairwise_cons.mp hn).1
    simp only [lruDetach, ih hr]
    by_cases hak : a = k
    · subst hak
      have : r.lookup a = none := by
        rw [List.lookup_eq_none_iff]
        intro q hq; have := ha q hq; grind
      have hd : List.filter (fun p => p.1 != a) r = r := drop_of_lookup_none r a this
      simp [drop, List.lookup_cons, List.filter_cons, hd]
    · simp only [drop, List.lookup_cons, List.filter_cons]
      grind

theorem nodup_drop (l : List (Key × Val)) (k : Key) (hn : NodupKeys l) : NodupKeys (drop l k) :=
  List.Pairwise.filter _ hn

theorem drop_no_key (l : List (Key × Val)) (k : Key) : ∀ q ∈ drop l k, k ≠ q.1 := by
  intro q hq
  simp [drop] at hq
  grind

theorem nodup_cons_drop (l : List (Key × Val)) (k : Key) (v : Val) (hn : NodupKeys l) :
    NodupKeys ((k, v) :: drop l k) :=
  List.pairwise_cons.mpr ⟨fun q hq => drop_no_key l k q hq, nodup_drop l k hn⟩

theorem length_drop_le (l : List (Key × Val)) (k : Key) : (drop l k).length ≤ l.length :=
  List.length_filter_le _ _

theorem length_drop_lt (l : List (Key × Val)) (k : Key) (v : Val) (h : l.lookup k = some v) :
    (drop l k).length < l.length := by
  induction l with
  | nil => simp at h
  | cons p r ih =>
    obtain ⟨a, b⟩ := p
    simp only [drop, List.filter_cons, List.lookup_cons] at ih h ⊢
    by_cases hak : k = a
    · subst hak
      have := List.length_filter_le (fun p : Key × Val => p.1 != k) r
      simp
      omega
    · have hak' : a ≠ k := fun e => hak e.symm
      have hb : (k == a) = false := by simp [hak]
      simp only [hb] at h
      have := ih h
      have e : (a != k) = true := by simp [hak']
      simp only [e, if_true, List.length_cons]
      omega

theorem lruGet_eq (l : List (Key × Val)) (k : Key) (hn : NodupKeys l) :
    lruGet l k = (l.lookup k, touch l k) := by
  simp only [lruGet, lruDetach_eq l k hn, touch]
  cases l.lookup k <;> rfl

theorem lruPut_eq (c : Nat) (l : List (Key × Val)) (k : Key) (v : Val) (hn : NodupKeys l)
    (hc : 1 ≤ c) (hl : l.length ≤ c) : lruPut c l k v = put (some c) l k v := by
  simp only [lruPut, lruDetach_eq l k hn, put]
  cases hk : l.lookup k with
  | some w =>
    have := length_drop_lt l k w hk
    simp only
    rw [List.take_of_length_le]
    simp; omega
  | none =>
    simp only [drop_of_lookup_none l k hk]
    split
    · rename_i he
      obtain ⟨c', rfl⟩ : ∃ c', c = c' + 1 := ⟨c - 1, by omega⟩
      simp only [List.take_succ_cons, List.dropLast_eq_take, he]
      simp
    · rw [List.take_of_length_le]
      simp; omega

theorem nodup_put (c : Nat) (l : List (Key × Val)) (k : Key) (v : Val) (hn : NodupKeys l) :
    NodupKeys (put (some c) l k v) :=
  List.Pairwise.sublist (List.take_sublist _ _) (nodup_cons_drop l k v hn)

theorem length_put (c : Nat) (l : List (Key × Val)) (k : Key) (v : Val) :
    (put (some c) l k v).length ≤ c := by
  simp [put, List.length_take]; omega

theorem nodup_touch (l : List (Key × Val)) (k : Key) (hn : NodupKeys l) : NodupKeys (touch l k) := by
  unfold touch
  split
  · exact nodup_cons_drop l k _ hn
  · exact hn

theorem length_touch (l : List (Key × Val)) (k : Key) : (touch l k).length ≤ l.length := by
  unfold touch
  split
  · rename_i v hv
    have := length_drop_lt l k v hv
    simp; omega
  · exact Nat.le_refl _


-- ---------------------------------------------------------------- storage vs documented cache

/-- how a concrete cache storage represents the documented cache `(held, cap)`:
    the LRU list *is* the recency list (and satisfies the LRU invariant), a hash map holds the
    same pairs (it forgets recency, which an unbounded cache never uses), no-cache holds nothing -/
def StorageRel : Storage → List (Key × Val) → Option Nat → Prop
  | .nocache, h, cap => cap = some 0 ∧ h = []
  | .map m, h, cap => cap = none ∧ ∀ k, m.lookup k = h.lookup k
  | .lru c l, h, cap => cap = some c ∧ 1 ≤ c ∧ l = h ∧ NodupKeys l ∧ l.length ≤ c

theorem rel_get {st h cap} (k : Key) (hr : StorageRel st h cap) :
    (st.get k).1 = h.lookup k ∧ StorageRel (st.get k).2 (touch h k) cap := by
  cases st with
  | nocache => obtain ⟨hc, rfl⟩ := hr; simp [Storage.get, StorageRel, hc, touch]
  | map m =>
    obtain ⟨hc, hm⟩ := hr
    refine ⟨by simp [Storage.get, hm], hc, fun k' => ?_⟩
    simp [lookup_touch, hm]
  | lru c l =>
    obtain ⟨hc, h1, rfl, hn, hl⟩ := hr
    show (lruGet l k).1 = _ ∧ StorageRel (.lru c (lruGet l k).2) _ _
    rw [lruGet_eq l k hn]
    exact ⟨rfl, hc, h1, rfl, nodup_touch l k hn, Nat.le_trans (length_touch l k) hl⟩

theorem rel_insert {st h cap} (k : Key) (v : Val) (hr : StorageRel st h cap) :
    StorageRel (st.insert k v) (put cap h k v) cap := by
  cases st with
  | nocache => obtain ⟨hc, rfl⟩ := hr; simp [Storage.insert, StorageRel, hc, put]
  | map m =>
    obtain ⟨hc, hm⟩ := hr
    refine ⟨hc, fun k' => ?_⟩
    simp only [hc, put, lookup_hmInsert, List.lookup_cons, lookup_drop, hm]
    grind
  | lru c l =>
    obtain ⟨hc, h1, rfl, hn, hl⟩ := hr
    show StorageRel (.lru c (lruPut c l k v)) _ _
    rw [lruPut_eq c l k v hn h1 hl, hc]
    exact ⟨rfl, h1, rfl, nodup_put c l k v hn, length_put c l k v⟩

theorem rel_remove {st h cap} (k : Key) (hr : StorageRel st h cap) :
    StorageRel (st.remove k) (drop h k) cap := by
  cases st with
  | nocache => obtain ⟨hc, rfl⟩ := hr; simp [Storage.remove, StorageRel, hc, drop]
  | map m =>
    obtain ⟨hc, hm⟩ := hr
    refine ⟨hc, fun k' => ?_⟩
    have := lookup_drop m k k'
    simp only [drop] at this
    simp only [this, lookup_drop, hm]
  | lru c l =>
    obtain ⟨hc, h1, rfl, hn, hl⟩ := hr
    show StorageRel (.lru c (lruDetach l k).2) _ _
    rw [lruDetach_eq l k hn]
    exact ⟨hc, h1, rfl, nodup_drop l k hn, Nat.le_trans (length_drop_le l k) hl⟩

theorem rel_clear {st h cap} (hr : StorageRel st h cap) : StorageRel st.clear [] cap := by
  cases st with
  | nocache => exact ⟨hr.1, rfl⟩
  | map m => exact ⟨hr.1, fun _ => rfl⟩
  | lru c l => exact ⟨hr.1, hr.2.1, rfl, List.Pairwise.nil, Nat.zero_le _⟩

theorem rel_values {st h cap} (n : Nat) (hr : StorageRel st h cap) :
    st.values n = (List.range n).filterMap (fun k => (h.lookup k).map (fun v => (k, v))) := by
  cases st with
  | nocache => obtain ⟨_, rfl⟩ := hr; simp [Storage.values]
  | map m => simp [Storage.values, hr.2]
  | lru c l => obtain ⟨_, _, rfl, _⟩ := hr; rfl

theorem foldl_touch_nil (ks : List Key) : ks.foldl touch [] = [] := by
  induction ks with
  | nil => rfl
  | cons k ks ih => simpa [touch] using ih

theorem rel_probe {st h cap} (ks : List Key) (hr : StorageRel st h cap) :
    (probe st ks).2.1 = ks.filterMap (fun k => (h.lookup k).map (fun v => (k, v))) ∧
    (probe st ks).2.2 = ks.filter (fun k => (h.lookup k).isNone) ∧
    StorageRel (probe st ks).1 (ks.foldl touch h) cap := by
  induction ks generalizing st h with
  | nil => exact ⟨rfl, rfl, hr⟩
  | cons k ks ih =>
    obtain ⟨hg, hr'⟩ := rel_get k hr
    obtain ⟨i1, i2, i3⟩ := ih hr'
    simp only [lookup_touch] at i1 i2
    simp only [probe]
    cases hgk : st.get k with
    | mk o st' =>
      rw [hgk] at hg i1 i2 i3
      simp only at hg i1 i2 i3
      cases o with
      | some v => simp [← hg, i1, i2, i3]
      | none => simp [← hg, i1, i2, i3]

/-- what `do_load` writes, on the documented cache -/
def specWrite (cap : Option Nat) (g : Nat) (h : List (Key × Val)) (ins : List Key) : List (Key × Val) :=
  ins.foldl (fun h k => match loaderVal g k with
    | some v => put cap h k v
    | none => h) h

theorem rel_writeBack {st h cap} (g : Nat) (ins : List Key) (hr : StorageRel st h cap) :
    StorageRel (writeBack g st ins) (specWrite cap g h ins) cap := by
  induction ins generalizing st h with
  | nil => exact hr
  | cons k ks ih =>
    simp only [writeBack, specWrite, List.foldl_cons]
    cases loaderVal g k with
    | some v => exact ih (rel_insert k v hr)
    | none => exact ih hr

theorem rel_feedAll {st h cap} (kvs : List (Key × Val)) (hr : StorageRel st h cap) :
    StorageRel (feedAll st kvs) (kvs.foldl (fun h p => put cap h p.1 p.2) h) cap := by
  induction kvs generalizing st h with
  | nil => exact hr
  | cons p r ih =>
    obtain ⟨k, v⟩ := p
    simp only [feedAll, List.foldl_cons]
    exact ih (rel_insert k v hr)


-- ---------------------------------------------------------------- loader state vs documented cache

/-- simulation relation between the model's DataLoader state and the documented cache; a key
    type without an entry counts as a freshly created one -/
def Rel (s : Model.LoaderCache.State) (t : Spec.LoaderCache.State) : Prop :=
  t.onAll = (!s.disableAll) ∧ t.gen = s.gen ∧ t.fail = s.fail ∧
  t.onType = (!s.entryOr.disable) ∧ StorageRel s.entryOr.storage t.held t.cap

theorem load_refines (s : Model.LoaderCache.State) (t : Spec.LoaderCache.State) (ks ord : List Key)
    (h : Rel s t) :
    Rel (loadMany s ks ord).1 (Spec.LoaderCache.load t ks ord).1 ∧
      (loadMany s ks ord).2 = (Spec.LoaderCache.load t ks ord).2 := by
  obtain ⟨h1, h2, h3, h4, h5⟩ := h
  obtain ⟨p1, p2, p3⟩ := rel_probe ks h5
  unfold loadMany Spec.LoaderCache.load
  simp only [h1, h2, h3, h4]
  generalize s.entryOr = r at *
  obtain ⟨st, dis⟩ := r
  have wb := fun g ins => rel_writeBack (cap := t.cap) g ins p3
  simp only [specWrite] at wb
  cases dis <;> cases hd : s.disableAll <;> simp only [] at h4 h5 p1 p2 p3 wb
  · simp only [Bool.not_false, Bool.and_self, Bool.or_self, if_true, Bool.false_eq_true, if_false, p1, p2]
    split
    · exact ⟨⟨by simp [hd], rfl, rfl, rfl, p3⟩, rfl⟩
    · split
      · exact ⟨⟨by simp [hd], rfl, rfl, rfl, p3⟩, rfl⟩
      · exact ⟨⟨by simp [hd], rfl, rfl, rfl, wb _ _⟩, rfl⟩
  all_goals
    simp only [Bool.not_false, Bool.not_true, Bool.and_self, Bool.and_false, Bool.false_and, Bool.and_true,
      Bool.or_self, Bool.or_true, Bool.or_false, Bool.true_or, Bool.false_or,
      if_true, if_false, Bool.false_eq_true, List.nil_append]
    split
    · exact ⟨⟨by simp [hd], rfl, rfl, rfl, h5⟩, rfl⟩
    · split
      · exact ⟨⟨by simp [hd], rfl, rfl, rfl, h5⟩, rfl⟩
      · exact ⟨⟨by simp [hd], rfl, rfl, rfl, h5⟩, rfl⟩

theorem create_values (kind : Kind) (n : Nat) : (Storage.create kind).values n = [] := by
  cases kind <;> simp [Storage.create, Storage.values]

theorem step_refines (s : Model.LoaderCache.State) (t : Spec.LoaderCache.State) (op : Op) (h : Rel s t) :
    Rel (Model.LoaderCache.step Defects.none s op).1 (Spec.LoaderCache.step t op).1 ∧
      (Model.LoaderCache.step Defects.none s op).2 = (Spec.LoaderCache.step t op).2 := by
  cases op with
  | load ks ord => exact load_refines s t ks ord h
  | loadOne k =>
    have := load_refines s t [k] [] h
    simp only [Model.LoaderCache.step, Spec.LoaderCache.step]
    exact ⟨this.1, by rw [this.2]⟩
  | feed kvs =>
    obtain ⟨h1, h2, h3, h4, h5⟩ := h
    exact ⟨⟨h1, h2, h3, h4, rel_feedAll kvs h5⟩, rfl⟩
  | clear =>
    obtain ⟨h1, h2, h3, h4, h5⟩ := h
    exact ⟨⟨h1, h2, h3, h4, rel_clear h5⟩, rfl⟩
  | clearOne k =>
    obtain ⟨h1, h2, h3, h4, h5⟩ := h
    exact ⟨⟨h1, h2, h3, h4, rel_remove k h5⟩, rfl⟩
  | enable b =>
    obtain ⟨h1, h2, h3, h4, h5⟩ := h
    simp only [Model.LoaderCache.step, Spec.LoaderCache.step]
    cases he : s.entry with
    | some r =>
      simp only [Model.LoaderCache.State.entryOr, he] at h4 h5
      exact ⟨⟨h1, h2, h3, by simp [Model.LoaderCache.State.entryOr], h5⟩, by simp⟩
    | none =>
      simp only [Defects.none, Bool.false_eq_true, if_false]
      exact ⟨⟨h1, h2, h3, by simp [Model.LoaderCache.State.entryOr], h5⟩, by simp⟩
  | enableAll b =>
    obtain ⟨h1, h2, h3, h4, h5⟩ := h
    exact ⟨⟨by simp [Model.LoaderCache.step, Spec.LoaderCache.step], h2, h3, h4, h5⟩, rfl⟩
  | cached n =>
    obtain ⟨h1, h2, h3, h4, h5⟩ := h
    have hv := rel_values n h5
    simp only [Model.LoaderCache.step, Spec.LoaderCache.step]
    cases he : s.entry with
    | some r =>
      simp only [Model.LoaderCache.State.entryOr, he] at h4 h5 hv
      exact ⟨⟨h1, h2, h3, by simp [Model.LoaderCache.State.entryOr, he, h4], by simpa [Model.LoaderCache.State.entryOr, he] using h5⟩, by simp only [hv]⟩
    | none =>
      simp only [Model.LoaderCache.State.entryOr, he, create_values] at h4 h5 hv
      exact ⟨⟨h1, h2, h3, by simp [Model.LoaderCache.State.entryOr, he, h4], by simpa [Model.LoaderCache.State.entryOr, he] using h5⟩, by simp only [← hv]⟩
  | setFail b =>
    obtain ⟨h1, h2, h3, h4, h5⟩ := h
    exact ⟨⟨h1, h2, by simp [Model.LoaderCache.step, Spec.LoaderCache.step], h4, h5⟩, rfl⟩

theorem run_refines (ops : List Op) (s : Model.LoaderCache.State) (t : Spec.LoaderCache.State) (h : Rel s t) :
    Model.LoaderCache.run Defects.none s ops = Spec.LoaderCache.run t ops := by
  induction ops generalizing s t with
  | nil => rfl
  | cons op ops ih =>
    obtain ⟨hr, ho⟩ := step_refines s t op h
    simp only [Model.LoaderCache.run, Spec.LoaderCache.run, ho, ih _ _ hr]

-- ---------------------------------------------------------------- invariant and abstraction

def capOf : Kind → Option Nat
  | .noCache => some 0
  | .hashMap => none
  | .lru c => some c

/-- `LruCache::new(cap)` needs `cap ≥ 1` (`NonZeroUsize::new(cap).unwrap()` when the entry is created) -/
def KindOK : Kind → Prop
  | .lru c => 1 ≤ c
  | _ => True

/-- the LRU invariant: no key twice, at most `cap` pairs, `cap ≥ 1` -/
def StorageInv : Storage → Prop
  | .lru c l => 1 ≤ c ∧ NodupKeys l ∧ l.length ≤ c
  | _ => True

def LruInv (s : Model.LoaderCache.State) : Prop := StorageInv s.entryOr.storage

def absStorage : Storage → List (Key × Val) × Option Nat
  | .nocache => ([], some 0)
  | .map m => (m, none)
  | .lru c l => (l, some c)

/-- the documented cache a model state stands for -/
def abs (s : Model.LoaderCache.State) : Spec.LoaderCache.State :=
  { held := (absStorage s.entryOr.storage).1, cap := (absStorage s.entryOr.storage).2,
    onAll := !s.disableAll, onType := !s.entryOr.disable, gen := s.gen, fail := s.fail }

theorem rel_abs (s : Model.LoaderCache.State) (h : LruInv s) : Rel s (abs s) := by
  refine ⟨rfl, rfl, rfl, rfl, ?_⟩
  unfold LruInv at h
  simp only [abs]
  cases hs : s.entryOr.storage with
  | nocache => exact ⟨rfl, rfl⟩
  | map m => exact ⟨rfl, fun _ => rfl⟩
  | lru c l => rw [hs] at h; exact ⟨rfl, h.1, rfl, h.2.1, h.2.2⟩

theorem inv_of_rel {s t} (h : Rel s t) : LruInv s := by
  obtain ⟨_, _, _, _, h5⟩ := h
  unfold LruInv
  cases hs : s.entryOr.storage with
  | nocache => trivial
  | map m => trivial
  | lru c l => rw [hs] at h5; exact ⟨h5.2.1, h5.2.2.2.1, h5.2.2.2.2⟩

theorem inv_init (kind : Kind) (hk : KindOK kind) : LruInv (Model.LoaderCache.init kind) := by
  cases kind with
  | noCache => trivial
  | hashMap => trivial
  | lru c => exact ⟨hk, List.Pairwise.nil, Nat.zero_le _⟩

theorem abs_init (kind : Kind) : abs (Model.LoaderCache.init kind) = Spec.LoaderCache.init (capOf kind) := by
  cases kind <;> rfl


theorem loadMany_out (s : Model.LoaderCache.State) (ks ord : List Key) :
    (∃ r c i, (loadMany s ks ord).2 = .loaded r c i) ∨ (∃ c, (loadMany s ks ord).2 = .failed c) := by
  unfold loadMany
  simp only
  repeat' split
  all_goals first | exact Or.inl ⟨_, _, _, rfl⟩ | exact Or.inr ⟨_, rfl⟩

theorem step_not_panic (s : Model.LoaderCache.State) (op : Op) :
    (Model.LoaderCache.step Defects.none s op).2 ≠ .panic := by
  cases op with
  | load ks ord =>
    rcases loadMany_out s ks ord with ⟨r, c, i, h⟩ | ⟨c, h⟩ <;> simp [Model.LoaderCache.step, h]
  | loadOne k =>
    rcases loadMany_out s [k] [] with ⟨r, c, i, h⟩ | ⟨c, h⟩ <;> simp [Model.LoaderCache.step, h, oneOf]
  | enable b =>
    simp only [Model.LoaderCache.step, Defects.none]
    cases s.entry <;> simp
  | cached n =>
    simp only [Model.LoaderCache.step]
    cases s.entry <;> simp
  | _ => simp [Model.LoaderCache.step]

/-- the state a history leads to -/
def after (D : Defects) (s : Model.LoaderCache.State) (ops : List Op) : Model.LoaderCache.State :=
  ops.foldl (fun s op => (Model.LoaderCache.step D s op).1) s


-- ---------------------------------------------------------------- the statement in words

/-- `load_one` on the documented cache: the cached value exactly when caching is on and the key
    is held (the loader is not called); otherwise the loader's current answer -/
theorem spec_loadOne (t : Spec.LoaderCache.State) (k : Key) :
    (Spec.LoaderCache.step t (.loadOne k)).2 =
      match (if t.onAll && t.onType then t.held.lookup k else none) with
      | some v => .one (some v) []
      | none => if t.fail then .failed [k] else .one (loaderVal (t.gen + 1) k) [k] := by
  simp only [Spec.LoaderCache.step, Spec.LoaderCache.load]
  cases hon : (t.onAll && t.onType) <;> cases hf : t.fail <;> cases hl : t.held.lookup k <;>
    cases hv : loaderVal (t.gen + 1) k <;>
    simp [hl, hv, normKeys, Spec.LoaderCache.insKey, normKVs, Spec.LoaderCache.insKV, oneOf, List.lookup_cons]

def isMap : Storage → Bool
  | .map _ => true
  | _ => false

theorem spec_step_cap (t : Spec.LoaderCache.State) (op : Op) : (Spec.LoaderCache.step t op).1.cap = t.cap := by
  cases op <;> simp only [Spec.LoaderCache.step, Spec.LoaderCache.load] <;> (repeat' split) <;> rfl

theorem rel_eq_abs {s : Model.LoaderCache.State} {t : Spec.LoaderCache.State} (h : Rel s t)
    (hm : isMap s.entryOr.storage = false) : t = abs s := by
  obtain ⟨h1, h2, h3, h4, h5⟩ := h
  obtain ⟨held, cap, onAll, onType, gen, fail⟩ := t
  simp only at h1 h2 h3 h4 h5
  subst h1 h2 h3 h4
  simp only [abs]
  cases hs : s.entryOr.storage with
  | nocache => rw [hs] at h5; obtain ⟨rfl, rfl⟩ := h5; rfl
  | map m => rw [hs] at hm; simp [isMap] at hm
  | lru c l => rw [hs] at h5; obtain ⟨rfl, _, rfl, _⟩ := h5; rfl

theorem rel_isMap {s : Model.LoaderCache.State} {t : Spec.LoaderCache.State} (h : Rel s t) :
    isMap s.entryOr.storage = t.cap.isNone := by
  obtain ⟨_, _, _, _, h5⟩ := h
  cases hs : s.entryOr.storage with
  | nocache => rw [hs] at h5; simp [isMap, h5.1]
  | map m => rw [hs] at h5; simp [isMap, h5.1]
  | lru c l => rw [hs] at h5; simp [isMap, h5.1]


-- ---------------------------------------------------------------- canonical orders keep content

theorem mem_insKey (a k : Key) (l : List Key) : a ∈ Spec.LoaderCache.insKey k l ↔ a = k ∨ a ∈ l := by
  induction l with
  | nil => simp [Spec.LoaderCache.insKey]
  | cons b r ih =>
    simp only [Spec.LoaderCache.insKey]
    split
    · simp
    · split
      · rename_i h1 h2; subst h2; simp
      · simp only [List.mem_cons, ih]; grind

theorem mem_normKeys (a : Key) (l : List Key) : a ∈ normKeys l ↔ a ∈ l := by
  induction l with
  | nil => simp [normKeys]
  | cons b r ih =>
    have : normKeys (b :: r) = Spec.LoaderCache.insKey b (normKeys r) := rfl
    rw [this, mem_insKey, ih]; simp

theorem mem_insKV (q p : Key × Val) (l : List (Key × Val)) :
    q ∈ Spec.LoaderCache.insKV p l → q = p ∨ q ∈ l := by
  induction l with
  | nil => simp [Spec.LoaderCache.insKV]
  | cons b r ih =>
    simp only [Spec.LoaderCache.insKV]
    split
    · simp
    · split
      · intro h; exact Or.inr h
      · simp only [List.mem_cons]; grind

theorem key_insKV (k : Key) (p : Key × Val) (l : List (Key × Val)) :
    (∃ q ∈ Spec.LoaderCache.insKV p l, q.1 = k) ↔ (p.1 = k ∨ ∃ q ∈ l, q.1 = k) := by
  induction l with
  | nil => simp [Spec.LoaderCache.insKV]
  | cons b r ih =>
    simp only [Spec.LoaderCache.insKV]
    split
    · simp
    · split
      · rename_i h1 h2; simp only [List.mem_cons]; grind
      · simp only [List.mem_cons] at ih ⊢; grind

theorem mem_normKVs (q : Key × Val) (l : List (Key × Val)) : q ∈ normKVs l → q ∈ l := by
  induction l with
  | nil => simp [normKVs]
  | cons b r ih =>
    have : normKVs (b :: r) = Spec.LoaderCache.insKV b (normKVs r) := rfl
    rw [this]
    intro h
    rcases mem_insKV q b _ h with h | h
    · simp [h]
    · exact List.mem_cons_of_mem _ (ih h)

theorem key_normKVs (k : Key) (l : List (Key × Val)) :
    (∃ q ∈ normKVs l, q.1 = k) ↔ ∃ q ∈ l, q.1 = k := by
  induction l with
  | nil => simp [normKVs]
  | cons b r ih =>
    have : normKVs (b :: r) = Spec.LoaderCache.insKV b (normKVs r) := rfl
    rw [this, key_insKV, ih]; simp

/-- looking a key up in a list in which all pairs of that key carry the same value -/
theorem lookup_of_allVal (l : List (Key × Val)) (k : Key) (v : Val)
    (hex : ∃ q ∈ l, q.1 = k) (hall : ∀ q ∈ l, q.1 = k → q.2 = v) : l.lookup k = some v := by
  induction l with
  | nil => simp at hex
  | cons b r ih =>
    obtain ⟨a, w⟩ := b
    simp only [List.lookup_cons]
    by_cases hak : k = a
    · subst hak
      have : w = v := hall (k, w) (by simp) rfl
      simp [this]
    · have hb : (k == a) = false := by simp [hak]
      simp only [hb]
      apply ih
      · obtain ⟨q, hq, hk⟩ := hex
        simp only [List.mem_cons] at hq
        rcases hq with rfl | hq
        · exact absurd hk.symm hak
        · exact ⟨q, hq, hk⟩
      · exact fun q hq => hall q (List.mem_cons_of_mem _ hq)

theorem lookup_normKVs_some (l : List (Key × Val)) (k : Key) (v : Val)
    (hex : ∃ q ∈ l, q.1 = k) (hall : ∀ q ∈ l, q.1 = k → q.2 = v) : (normKVs l).lookup k = some v :=
  lookup_of_allVal _ k v ((key_normKVs k l).mpr hex) (fun q hq => hall q (mem_normKVs q l hq))

theorem lookup_normKVs_none (l : List (Key × Val)) (k : Key) (hno : ∀ q ∈ l, q.1 ≠ k) :
    (normKVs l).lookup k = none := by
  rw [List.lookup_eq_none_iff]
  intro q hq
  have := hno q (mem_normKVs q l hq)
  simp; exact fun e => this e.symm


/-- the value the documented cache answers a load of `k` with, if any -/
def cachedOn (t : Spec.LoaderCache.State) (k : Key) : Option Val :=
  if t.onAll && t.onType then t.held.lookup k else none

/-- the observable part of `load`, uniformly in the switches -/
def loadOut (c : Key → Option Val) (g : Nat) (fail : Bool) (ks ord : List Key) : Out :=
  let hits := ks.filterMap (fun k => (c k).map (fun v => (k, v)))
  let miss := normKeys (ks.filter (fun k => (c k).isNone))
  if miss = [] then .loaded (normKVs hits) [] []
  else if fail then .failed miss
  else
    let got := miss.filterMap (fun k => (loaderVal g k).map (fun v => (k, v)))
    .loaded (normKVs (hits ++ got)) miss (arrange ord (got.map (·.1)))

theorem load_out_eq (t : Spec.LoaderCache.State) (ks ord : List Key) :
    (Spec.LoaderCache.load t ks ord).2 = loadOut (cachedOn t) (t.gen + 1) t.fail ks ord := by
  unfold Spec.LoaderCache.load loadOut cachedOn
  have e1 : ∀ l : List Key, l.filter (fun _ => true) = l := fun l => by simp
  have e2 : ∀ l : List Key, l.filterMap (fun _ => (none : Option (Key × Val))) = [] := fun l => by simp
  cases (t.onAll && t.onType) <;>
    simp only [Bool.false_eq_true, if_false, if_true, Option.map_none, Option.isNone_none, e1, e2,
      List.nil_append] <;>
    (repeat' split) <;> rfl

theorem loadOut_spec (c : Key → Option Val) (g : Nat) (ks ord : List Key) :
    ∃ res call ins, loadOut c g false ks ord = .loaded res call ins ∧
      (∀ k, k ∈ call ↔ k ∈ ks ∧ c k = none) ∧
      (∀ k ∈ ks, res.lookup k = match c k with
        | some v => some v
        | none => loaderVal g k) := by
  have hmiss : ∀ k, k ∈ normKeys (ks.filter (fun k => (c k).isNone)) ↔ k ∈ ks ∧ c k = none := by
    intro k; rw [mem_normKeys]; simp
  have hhit : ∀ q, q ∈ ks.filterMap (fun k => (c k).map (fun v => (k, v))) ↔ q.1 ∈ ks ∧ c q.1 = some q.2 := by
    intro q
    simp only [List.mem_filterMap, Option.map_eq_some_iff]
    constructor
    · rintro ⟨k, hk, v, hv, rfl⟩; exact ⟨hk, hv⟩
    · rintro ⟨hk, hv⟩; exact ⟨q.1, hk, q.2, hv, rfl⟩
  unfold loadOut
  simp only [Bool.false_eq_true, if_false]
  split
  · rename_i he
    refine ⟨_, _, _, rfl, ?_, ?_⟩
    · intro k; rw [← hmiss k, he]
    · intro k hk
      cases hc : c k with
      | none => have := (hmiss k).mpr ⟨hk, hc⟩; rw [he] at this; simp at this
      | some v =>
        apply lookup_normKVs_some
        · exact ⟨(k, v), (hhit _).mpr ⟨hk, hc⟩, rfl⟩
        · intro q hq hqk
          have := ((hhit q).mp hq).2
          rw [hqk, hc] at this; exact (Option.some.inj this).symm
  · refine ⟨_, _, _, rfl, hmiss, ?_⟩
    intro k hk
    have hgot : ∀ q, q ∈ (normKeys (ks.filter (fun k => (c k).isNone))).filterMap
        (fun k => (loaderVal g k).map (fun v => (k, v))) ↔
        (q.1 ∈ ks ∧ c q.1 = none) ∧ loaderVal g q.1 = some q.2 := by
      intro q
      simp only [List.mem_filterMap, Option.map_eq_some_iff]
      constructor
      · rintro ⟨k, hk, v, hv, rfl⟩; exact ⟨(hmiss k).mp hk, hv⟩
      · rintro ⟨hk, hv⟩; exact ⟨q.1, (hmiss _).mpr hk, q.2, hv, rfl⟩
    cases hc : c k with
    | some v =>
      apply lookup_normKVs_some
      · exact ⟨(k, v), List.mem_append_left _ ((hhit _).mpr ⟨hk, hc⟩), rfl⟩
      · intro q hq hqk
        rcases List.mem_append.mp hq with hq | hq
        · have := ((hhit q).mp hq).2
          rw [hqk, hc] at this; exact (Option.some.inj this).symm
        · have := ((hgot q).mp hq).1.2
          rw [hqk, hc] at this; cases this
    | none =>
      cases hl : loaderVal g k with
      | some v =>
        apply lookup_normKVs_some
        · exact ⟨(k, v), List.mem_append_right _ ((hgot _).mpr ⟨⟨hk, hc⟩, hl⟩), rfl⟩
        · intro q hq hqk
          rcases List.mem_append.mp hq with hq | hq
          · have := ((hhit q).mp hq).2
            rw [hqk, hc] at this; cases this
          · have := ((hgot q).mp hq).2
            rw [hqk, hl] at this; exact (Option.some.inj this).symm
      | none =>
        apply lookup_normKVs_none
        intro q hq hqk
        rcases List.mem_append.mp hq with hq | hq
        · have := ((hhit q).mp hq).2
          rw [hqk, hc] at this; cases this
        · have := ((hgot q).mp hq).2
          rw [hqk, hl] at this; cases this

end AGV.Lemmas.LoaderCache
