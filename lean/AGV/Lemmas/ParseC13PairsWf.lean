/-
  Lemmas for property C13: every pair tree the pest interpreter emits satisfies `SetsNonEmpty`
  (a `selection_set` pair has an inner pair, because its rule is `"{" ~ selection+ ~ "}"` and
  `selection` is a normal rule) — the hypothesis of the depth-limit theorem holds for all trees
  the tree builder is ever applied to.
-/
import AGV.Lemmas.ParseC13Depth
namespace AGV.Lemmas.ParseC13
open AGV.Model.Peg AGV.Model.BuildAst

def AllWf (ps : List Pair) : Prop := ∀ q ∈ ps, SetsNonEmpty q

theorem AllWf.nil : AllWf [] := fun _ h => by cases h
theorem AllWf.append {a b : List Pair} (ha : AllWf a) (hb : AllWf b) : AllWf (a ++ b) := by
  intro q hq; rcases List.mem_append.1 hq with h | h; exact ha q h; exact hb q h

theorem eval_pairs_wf_step (g : Grammar) (f : Nat)
    (hrule : ∀ c n r p s p' s' ps, findRule g n = some r → eval g f (bodyCtx c r) r.expr p s = .ok p' s' ps →
      emits c = true → r.ty ≠ .silent → n = "selection_set" → ps ≠ [])
    (ih : ∀ c e p s p' s' ps, eval g f c e p s = .ok p' s' ps → AllWf ps) :
    ∀ c e p s p' s' ps, eval g (f + 1) c e p s = .ok p' s' ps → AllWf ps := by
  intro c e p s p' s' ps h
  cases e with
  | str l => simp only [eval] at h; split at h <;> cases h; exact .nil
  | insens l => simp only [eval] at h; split at h <;> cases h; exact .nil
  | range lo hi =>
    simp only [eval] at h
    cases s with
    | nil => cases h
    | cons ch r => simp only [] at h; split at h <;> cases h; exact .nil
  | neg a => simp only [eval] at h; split at h <;> cases h; exact .nil
  | pos a =>
    simp only [eval] at h; split at h
    · cases h; exact .nil
    · rename_i hx; exact (hx _ _ _ h).elim
  | choice a b =>
    simp only [eval] at h; split at h
    · exact ih _ _ _ _ _ _ _ h
    · exact ih _ _ _ _ _ _ _ h
  | opt a =>
    simp only [eval] at h; split at h
    · cases h; exact .nil
    · exact ih _ _ _ _ _ _ _ h
  | repN n a =>
    simp only [eval] at h; split at h
    · cases h; exact .nil
    · exact ih _ _ _ _ _ _ _ h
    · exact ih _ _ _ _ _ _ _ h
  | seq a b =>
    simp only [eval] at h
    split at h
    · rename_i h1
      split at h
      · split at h
        · rename_i h3; cases h; exact (ih _ _ _ _ _ _ _ h1).append (ih _ _ _ _ _ _ _ h3)
        · rename_i hx; exact (hx _ _ _ h).elim
      · rename_i hx; exact (hx _ _ _ h).elim
    · rename_i hx; exact (hx _ _ _ h).elim
  | rep a =>
    simp only [eval] at h
    split at h
    · rename_i h1
      split at h
      · rename_i h2; cases h; exact (ih _ _ _ _ _ _ _ h1).append (ih _ _ _ _ _ _ _ h2)
      · rename_i hx; exact (hx _ _ _ h).elim
    · cases h; exact .nil
    · cases h
  | rep1 a =>
    simp only [eval] at h
    split at h
    · rename_i h1
      split at h
      · rename_i h2; cases h; exact (ih _ _ _ _ _ _ _ h1).append (ih _ _ _ _ _ _ _ h2)
      · rename_i hx; exact (hx _ _ _ h).elim
    · rename_i hx; exact (hx _ _ _ h).elim
  | repTail a =>
    simp only [eval] at h
    split at h
    · split at h
      · rename_i h2
        split at h
        · rename_i h3; cases h; exact (ih _ _ _ _ _ _ _ h2).append (ih _ _ _ _ _ _ _ h3)
        · rename_i hx; exact (hx _ _ _ h).elim
      · cases h; exact .nil
      · cases h
    · rename_i hx; exact (hx _ _ _ h).elim
  | ident n =>
    simp only [eval] at h
    split at h
    · split at h <;> cases h; exact .nil
    · split at h
      · rename_i hn
        cases s with
        | cons ch r => cases h
        | nil =>
          simp only [] at h
          cases h
          split
          · intro q hq
            simp only [List.mem_singleton] at hq
            subst hq
            exact .mk _ _ _ _ (by decide) (fun _ h => by cases h)
          · exact .nil
      · split at h
        · cases s with
          | nil => cases h
          | cons ch r => simp only [] at h; split at h <;> cases h; exact .nil
        · split at h
          · cases h
          · rename_i r hr
            split at h
            · rename_i p1 s1 ps0 hb
              have wf0 := ih _ _ _ _ _ _ _ hb
              split at h
              · cases h; exact wf0
              · rename_i hsil
                split at h
                · rename_i hem
                  cases h
                  intro q hq
                  simp only [List.mem_singleton] at hq
                  subst hq
                  exact .mk _ _ _ _ (fun hn => hrule c n r p s _ _ ps0 hr hb hem hsil hn) wf0
                · cases h; exact wf0
            · rename_i hx; exact (hx _ _ _ h).elim

theorem eval_zero_ne_ok {g c e p s p' s' ps} : eval g 0 c e p s ≠ .ok p' s' ps := by simp [eval]

theorem seq_pairs {g f c a b p s p' s' ps} (h : eval g (f + 1) c (.seq a b) p s = .ok p' s' ps) :
    ∃ p1 s1 ps1 p2 s2 ps3, eval g f c a p s = .ok p1 s1 ps1 ∧ eval g f c b p2 s2 = .ok p' s' ps3 ∧
      ps = ps1 ++ ps3 := by
  simp only [eval] at h
  split at h
  · rename_i h1
    split at h
    · split at h
      · rename_i h3; cases h; exact ⟨_, _, _, _, _, _, h1, h3, rfl⟩
      · rename_i hx; exact (hx _ _ _ h).elim
    · rename_i hx; exact (hx _ _ _ h).elim
  · rename_i hx; exact (hx _ _ _ h).elim

theorem rep1_pairs {g f c a p s p' s' ps} (h : eval g (f + 1) c (.rep1 a) p s = .ok p' s' ps) :
    ∃ p1 s1 ps1 ps2, eval g f c a p s = .ok p1 s1 ps1 ∧ ps = ps1 ++ ps2 := by
  simp only [eval] at h
  split at h
  · rename_i h1
    split at h
    · cases h; exact ⟨_, _, _, _, h1, rfl⟩
    · rename_i hx; exact (hx _ _ _ h).elim
  · rename_i hx; exact (hx _ _ _ h).elim

theorem ident_emit {g f c n r p s p' s' ps} (h1 : n ≠ "SOI") (h2 : n ≠ "EOI") (hp : charClass n = none)
    (hr : findRule g n = some r) (hs : r.ty ≠ .silent) (hc : emits c = true)
    (h : eval g (f + 1) c (.ident n) p s = .ok p' s' ps) : ∃ q, ps = [q] := by
  simp only [eval, h1, h2, if_false, hp, hr] at h
  split at h
  · simp only [hs, if_false, hc, if_true] at h
    cases h; exact ⟨_, rfl⟩
  · rename_i hx; exact (hx _ _ _ h).elim

/-- the body of `selection_set` emits at least one pair when pairs are emitted -/
theorem selset_body_nonempty (g : Grammar) (bsel : Expr)
    (hsel : findRule g "selection" = some ⟨"selection", .normal, bsel⟩)
    (f : Nat) (c : Ctx) (hc : emits c = true) (p : Nat) (s : List Char) (p' : Nat) (s' : List Char) (ps : List Pair)
    (h : eval g f c AGV.Gen.Grammar.r_selection_set.expr p s = .ok p' s' ps) : ps ≠ [] := by
  simp only [AGV.Gen.Grammar.r_selection_set] at h
  cases f with
  | zero => exact absurd h eval_zero_ne_ok
  | succ f =>
    obtain ⟨_, _, ps1, _, _, ps3, _, h3, rfl⟩ := seq_pairs h
    cases f with
    | zero => exact absurd h3 eval_zero_ne_ok
    | succ f =>
      obtain ⟨_, _, psa, _, _, _, ha, _, rfl⟩ := seq_pairs h3
      cases f with
      | zero => exact absurd ha eval_zero_ne_ok
      | succ f =>
        obtain ⟨_, _, psb, _, hb, rfl⟩ := rep1_pairs ha
        cases f with
        | zero => exact absurd hb eval_zero_ne_ok
        | succ f =>
          obtain ⟨q, rfl⟩ := ident_emit (by decide) (by decide) (by rfl) hsel (by simp) hc hb
          simp

/-- every pair the interpreter emits satisfies `SetsNonEmpty`, for any grammar whose
    `selection_set` rule is the source's and whose `selection` rule is a normal rule -/
theorem eval_pairs_wf (g : Grammar) (bsel : Expr)
    (hss : findRule g "selection_set" = some AGV.Gen.Grammar.r_selection_set)
    (hsel : findRule g "selection" = some ⟨"selection", .normal, bsel⟩) :
    ∀ f c e p s p' s' ps, eval g f c e p s = .ok p' s' ps → AllWf ps := by
  intro f
  induction f with
  | zero => intro c e p s p' s' ps h; exact absurd h eval_zero_ne_ok
  | succ f ih =>
    refine eval_pairs_wf_step g f ?_ ih
    intro c n r p s p' s' ps hr hb hem _ hn
    subst hn
    rw [hss] at hr
    cases hr
    exact selset_body_nonempty g bsel hsel f c hem p s p' s' ps hb

theorem pairs_wf_none : ∀ f c e p s p' s' ps,
    eval (grammarFor Defects.none) f c e p s = .ok p' s' ps → AllWf ps :=
  eval_pairs_wf _ AGV.Gen.Grammar.r_selection.expr (by rfl) (by rfl)

theorem pairs_wf_pinned : ∀ f c e p s p' s' ps,
    eval AGV.Gen.Grammar.grammar f c e p s = .ok p' s' ps → AllWf ps :=
  eval_pairs_wf _ AGV.Gen.Grammar.r_selection.expr (by rfl) (by rfl)
end AGV.Lemmas.ParseC13
