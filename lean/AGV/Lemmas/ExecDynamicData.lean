/-
  Lemmas for C02 (data equality of the dynamic executor model and the specification executor run
  on `Spec.ExecDyn`'s reading of schema and world); the approach of Lemmas/ExecStaticData.lean:
    * `specSchema` / `specWorld` preserve lookups, kinds, possible types, DoesFragmentTypeApply;
    * `leaf_val_eq`, `named_val_eq`, `resolve_val_eq`: dynamic `resolve`/`resolve_value` = CompleteValue
      on the normalised value against the carrier type (values; faults included);
    * `collect_agree`: dynamic `collect_fields` = CollectFields when every selected field exists, no
      directive acts and no fragment name is spread twice in one selection set;
    * `container_val_eq` / `run_val_eq`: lock-step induction on fuel under `noRepeatedKeys`;
    * decidable sufficient conditions (`dynSchemaWF`, `fieldsWF`, `worldOK`), `Ex`: an instance.
  The lemmas about the specification's `execSet` fold (`execStep_fold`, `group_nodup`, …) are the ones
  proved for C01, instantiated at the static-style context `cS c` over `specSchema`/`specWorld`.
-/
import AGV.Lemmas.ExecDynamic
import AGV.Lemmas.ExecStaticData
import AGV.Spec.ExecDyn

namespace AGV.Lemmas.ExecDynamicData
open AGV.Core AGV.Model.ExecDynamic AGV.Lemmas.ExecDynamic
open AGV.Spec.Exec (FieldOcc complete execSet group mapIdx serializeLeaf doesApply excluded argValue)
open AGV.Spec.ExecDyn (specSchema specWorld renameBase normRV normRVs normLeaf customScalar? accepts fieldBase)
open AGV.Model.ExecStatic (joinAll nnWrap insertKV singleKV prune)
open AGV.Lemmas.ExecStaticData (selsInert selInert dirsInert spreads IsObj SchemaOK eraseSt specStep spec_collect_succ
  spreads_cons doesApply_self frag_mem builtinScalars kind_beq joinAll_vals mapIdx_map mapIdx_congr complete_nonNull_val
  complete_fail_val fieldVal HasField execStep_fold execSet_succ group_nodup kvs_fold keys_filterMap_sublist all_congr_mem
  any_isNone_eq_not_all joinAll_all joinAll_eq_of_all foldl_insertKV_nodup prune_inert rootOf schemaWF schemaOK_of_wf listDepth
  argsSame)


-- ------------------------------------------------------------------ the specification's schema: custom scalars renamed

def renameTD (S : Schema) (t : TypeDef) : TypeDef :=
  { t with fields := t.fields.map (fun f => { f with ty := renameBase S f.ty }) }

theorem specSchema_types (S : Schema) : (specSchema S).types = S.types.map (renameTD S) := rfl

theorem find?_map_name (l : List TypeDef) (g : TypeDef → TypeDef) (hg : ∀ t, (g t).name = t.name) (n : String) :
    (l.map g).find? (·.name = n) = (l.find? (·.name = n)).map g := by
  induction l with
  | nil => rfl
  | cons x xs ih =>
    by_cases h : x.name = n
    · simp [hg, h]
    · simp [hg, h, ih]

theorem specSchema_find (S : Schema) (n : String) : (specSchema S).find? n = (S.find? n).map (renameTD S) := by
  unfold Schema.find?
  rw [specSchema_types]
  exact find?_map_name S.types (renameTD S) (fun _ => rfl) n

theorem specSchema_kindOf (S : Schema) (n : String) : (specSchema S).kindOf n = S.kindOf n := by
  unfold Schema.kindOf
  rw [specSchema_find]
  cases S.find? n <;> rfl

theorem specSchema_isComposite (S : Schema) (n : String) : (specSchema S).isComposite n = S.isComposite n := by
  unfold Schema.isComposite
  rw [specSchema_kindOf]

theorem specSchema_possibleTypes (S : Schema) (n : String) : (specSchema S).possibleTypes n = S.possibleTypes n := by
  unfold Schema.possibleTypes
  rw [specSchema_find]
  cases h : S.find? n with
  | none => rfl
  | some t =>
    simp only [Option.map_some]
    have hk : (renameTD S t).kind = t.kind := rfl
    have hm : (renameTD S t).members = t.members := rfl
    rw [hk, hm]
    cases t.kind <;> simp only []
    rw [specSchema_types, List.filter_map, List.map_map]
    rfl

theorem specSchema_doesApply (S : Schema) (rt cond : String) : doesApply (specSchema S) rt cond = doesApply S rt cond := by
  unfold doesApply
  rw [specSchema_find, specSchema_find]
  cases h : S.find? cond with
  | none => rfl
  | some t =>
    simp only [Option.map_some]
    have hk : (renameTD S t).kind = t.kind := rfl
    have hm : (renameTD S t).members = t.members := rfl
    rw [hk, hm]
    cases t.kind <;> simp only []
    cases S.find? rt <;> rfl

theorem specSchema_serializeLeaf (S : Schema) (n : String) (v : GValue) :
    serializeLeaf (specSchema S) n v = serializeLeaf S n v := by
  unfold serializeLeaf
  split <;> try rfl
  rw [specSchema_find]
  cases S.find? _ <;> rfl

def renameFD (S : Schema) (f : FieldDef) : FieldDef := { f with ty := renameBase S f.ty }

theorem find?_map_fname (l : List FieldDef) (g : FieldDef → FieldDef) (hg : ∀ t, (g t).name = t.name) (n : String) :
    (l.map g).find? (·.name = n) = (l.find? (·.name = n)).map g := by
  induction l with
  | nil => rfl
  | cons x xs ih =>
    by_cases h : x.name = n
    · simp [hg, h]
    · simp [hg, h, ih]

theorem specSchema_field (S : Schema) (rt f : String) :
    (specSchema S).field? rt f = (S.field? rt f).map (renameFD S) := by
  unfold Schema.field?
  rw [specSchema_find]
  cases S.find? rt with
  | none => rfl
  | some t =>
    simp only [Option.map_some]
    exact find?_map_fname t.fields (renameFD S) (fun _ => rfl) f

theorem find_name (S : Schema) (n : String) (t : TypeDef) (h : S.find? n = some t) : t.name = n := by
  unfold Schema.find? at h
  simpa using List.find?_some h

-- ------------------------------------------------------------------ the specification's world: leaves normalised

theorem specWorld_get (S : Schema) (w : World) (id : Nat) (f : String) :
    (specWorld S w).get id f =
      match fieldBase S f with
      | some b => normRV S b (w.get id f)
      | none => w.get id f := by
  unfold World.get specWorld
  simp only
  induction w.entries with
  | nil =>
    simp only [List.map_nil, List.find?_nil]
    cases fieldBase S f <;> simp [normRV]
  | cons e es ih =>
    simp only [List.map_cons, List.find?_cons]
    by_cases h : (e.1.1 = id && e.1.2 = f) = true
    · simp only [h]
      have hf : e.1.2 = f := by simp at h; exact h.2
      rw [hf]
      cases fieldBase S f <;> rfl
    · have h' : (decide (e.1.1 = id) && decide (e.1.2 = f)) = false := by simpa using h
      simp only [h']
      exact ih

theorem normRVs_map (S : Schema) (b : String) : ∀ xs, normRVs S b xs = xs.map (normRV S b) := by
  intro xs
  induction xs with
  | nil => simp [normRVs]
  | cons x xs ih => simp [normRVs, ih]

theorem mapIdx_map_src {α β γ} (f : Nat → β → γ) (g : α → β) (xs : List α) :
    ∀ i, mapIdx f (xs.map g) i = mapIdx (fun i x => f i (g x)) xs i := by
  induction xs with
  | nil => intro i; simp [mapIdx]
  | cons x xs ih => intro i; simp [mapIdx, ih]


-- ------------------------------------------------------------------ hypotheses on schema and resolver values

/-- what the dynamic model and `Spec.ExecDyn` assume of a schema description: the built-in scalar
    names are plain scalars; a custom scalar has no validator or one of the two described ones -/
structure DynSchemaOK (S : Schema) : Prop where
  builtin : ∀ b t, isBuiltin b = true → S.find? b = some t → t.kind = .scalar ∧ t.values = []
  custom : ∀ n t, S.find? n = some t → t.kind = .scalar → isBuiltin n = false →
    t.values = [] ∨ t.values = ["Int", "even"] ∨ t.values = ["String", "nonempty"]

/-- at an object-typed position a resolver hands over nothing, `Value::Null`, or an object identity
    of the declared type (the dynamic API has no way to say otherwise) -/
def objOK (S : Schema) (n : String) (rv : RVal) : Bool :=
  !decide (S.kindOf n = some .object) ||
  match rv with
  | .null => true
  | .leaf .null => true
  | .obj ty _ => decide (ty = n)
  | _ => false

/-- `objOK` at every named position reached through the list structure of the declared type -/
def rvOK (S : Schema) : TypeRef → RVal → Bool
  | .nonNull t, rv => rvOK S t rv
  | .list t, rv =>
    match rv with
    | .list xs => xs.all (fun x => rvOK S t x)
    | _ => true
  | .named n, rv => objOK S n rv

theorem serializeLeaf_none (S : Schema) (n : String) (v : GValue) (hb : isBuiltin n = false)
    (he : ∀ t e, v = .enum e → S.find? n = some t → (t.kind == .enum && t.values.contains e) = false) :
    serializeLeaf S n v = none := by
  simp only [isBuiltin, Bool.or_eq_false_iff, decide_eq_false_iff_not] at hb
  unfold serializeLeaf
  split
  all_goals (try (simp_all; done))
  rename_i e
  cases hf : S.find? n with
  | none => rfl
  | some t => simpa using he t e rfl hf

theorem serializeLeaf_enum (S : Schema) (n : String) (e : String) :
    serializeLeaf S n (.enum e) = (match S.find? n with
      | some t => if (t.kind == Kind.enum && t.values.contains e) = true then some (GValue.str e) else none
      | none => none) := by
  unfold serializeLeaf
  split <;> simp_all
  rfl

theorem normLeaf_plain (S : Schema) (n : String) (v : GValue) (hv : isNullV v = false)
    (hc : customScalar? S n = none) (hk : S.kindOf n ≠ some .enum) : normLeaf S n v = .leaf v := by
  unfold normLeaf
  cases v <;> simp_all [isNullV] <;> split <;> simp_all

theorem normLeaf_leaf (S : Schema) (n : String) (v : GValue) (hv : isNullV v = false) :
    ∃ v', normLeaf S n v = .leaf v' := by
  unfold normLeaf
  cases v
  case null => simp [isNullV] at hv
  all_goals
    simp only []
    cases customScalar? S n with
    | some t => simp only []; split <;> exact ⟨_, rfl⟩
    | none => simp only []; split <;> exact ⟨_, rfl⟩

theorem customScalar_none_of_kind (S : Schema) (n : String) (t : TypeDef) (h : S.find? n = some t)
    (hk : t.kind ≠ .scalar) : customScalar? S n = none := by
  unfold customScalar?
  rw [h]
  cases hkk : t.kind <;> simp_all [AGV.Lemmas.ExecStaticData.kind_beq]

theorem customScalar_none_of_values (S : Schema) (n : String) (t : TypeDef) (h : S.find? n = some t)
    (hv : t.values = []) : customScalar? S n = none := by
  unfold customScalar?
  rw [h]
  simp [hv]

theorem customScalar_some (S : Schema) (n : String) (t : TypeDef) (h : S.find? n = some t)
    (hk : t.kind = .scalar) (hv : t.values ≠ []) : customScalar? S n = some t := by
  unfold customScalar?
  rw [h]
  cases hvv : t.values with
  | nil => exact absurd hvv hv
  | cons a b => simp [hk, hvv, AGV.Lemmas.ExecStaticData.kind_beq]

theorem notComposite_of_builtin (S : Schema) (hS : DynSchemaOK S) (b : String) (hb : isBuiltin b = true) :
    S.isComposite b = false := by
  unfold Schema.isComposite Schema.kindOf
  cases h : S.find? b with
  | none => rfl
  | some t => simp [(hS.builtin b t hb h).1]


theorem cap_val (D : Defects) (hD : D.noNullableCapture = false) (r : Res) :
    (cap D r).val = some (r.val.getD .null) := by
  unfold cap
  cases h : r.val <;> simp [hD, h]

theorem renameBase_named_plain (S : Schema) (n : String) (h : customScalar? S n = none) :
    renameBase S (.named n) = .named n := by
  simp [renameBase, h]

/-- leaf values: `resolve_value` against the registered type = result coercion of the normalised leaf
    against the carrier type -/
theorem leaf_val_eq (c : Model.ExecDynamic.Ctx) (hD : c.D = Defects.none) (hS : DynSchemaOK c.S)
    (recM recS : String → Nat → List Sel → List PathSeg → Res) (ss : List Sel)
    (n : String) (td : TypeDef) (hfind : c.S.find? n = some td) (v : GValue) (hv : isNullV v = false)
    (path : List PathSeg) (pos : Pos) (hobj : objOK c.S n (.leaf v) = true) :
    ((resolveNamed c recM n (.leaf v) ss path pos).val).getD .null =
      ((complete (specSchema c.S) recS (renameBase c.S (.named n)) (normLeaf c.S n v) ss path pos).val).getD .null ∧
    (complete (specSchema c.S) recS (renameBase c.S (.named n)) (normLeaf c.S n v) ss path pos).val.isSome = true := by
  have hname := find_name c.S n td hfind
  have hD2 : c.D.builtinScalarUnchecked = false := by rw [hD]; rfl
  have hkind : c.S.kindOf n = some td.kind := by simp [Schema.kindOf, hfind]
  cases hk : td.kind with
  | scalar =>
    cases hb : isBuiltin n with
    | true =>
      have hvals := (hS.builtin n td hb hfind).2
      have hcs := customScalar_none_of_values c.S n td hfind hvals
      have hnl := normLeaf_plain c.S n v hv hcs (by rw [hkind, hk]; simp)
      have hnc : (specSchema c.S).isComposite n = false := by
        rw [specSchema_isComposite]; exact notComposite_of_builtin c.S hS n hb
      rw [renameBase_named_plain _ _ hcs, hnl]
      simp only [resolveNamed, hfind, hk, scalarCheck, hname, hb, hD2, hv, complete, hnc, specSchema_serializeLeaf,
        if_true, Bool.false_eq_true, if_false]
      cases serializeLeaf c.S n v <;> simp [errAt]
    | false =>
      have hInt : (specSchema c.S).isComposite "Int" = false := by
        rw [specSchema_isComposite]; exact notComposite_of_builtin c.S hS "Int" (by decide)
      have hStr : (specSchema c.S).isComposite "String" = false := by
        rw [specSchema_isComposite]; exact notComposite_of_builtin c.S hS "String" (by decide)
      have hb' : isBuiltin td.name = false := by rw [hname]; exact hb
      rcases hS.custom n td hfind hk hb with hvals | hvals | hvals
      · have hcs := customScalar_none_of_values c.S n td hfind hvals
        have hnl := normLeaf_plain c.S n v hv hcs (by rw [hkind, hk]; simp)
        have hnc : (specSchema c.S).isComposite n = false := by
          rw [specSchema_isComposite]; simp [Schema.isComposite, hkind, hk]
        have hser : serializeLeaf c.S n v = none := by
          apply serializeLeaf_none c.S n v hb
          intro t e _ ht
          rw [hfind] at ht; cases ht
          simp [hk, kind_beq]
        rw [renameBase_named_plain _ _ hcs, hnl]
        simp only [resolveNamed, hfind, hk, scalarCheck, hb', customValidate, hvals, complete, hnc,
          specSchema_serializeLeaf, hser, Bool.false_eq_true, if_false]
        simp [errAt]
      · have hcs := customScalar_some c.S n td hfind hk (by simp [hvals])
        have hrn : renameBase c.S (.named n) = .named "Int" := by simp [renameBase, hcs, hvals]
        rw [hrn]
        simp only [resolveNamed, hfind, hk, scalarCheck, hb', normLeaf, hcs, Bool.false_eq_true, if_false]
        cases v <;> simp [isNullV] at hv <;>
          simp [customValidate, accepts, hvals, complete, hInt, serializeLeaf, errAt, jsonOf]
        rename_i i
        by_cases he : i % 2 = 0 <;> simp [he]
      · have hcs := customScalar_some c.S n td hfind hk (by simp [hvals])
        have hrn : renameBase c.S (.named n) = .named "String" := by simp [renameBase, hcs, hvals]
        rw [hrn]
        simp only [resolveNamed, hfind, hk, scalarCheck, hb', normLeaf, hcs, Bool.false_eq_true, if_false]
        cases v <;> simp [isNullV] at hv <;>
          simp [customValidate, accepts, hvals, complete, hStr, serializeLeaf, errAt, jsonOf]
        rename_i s
        by_cases he : s = "" <;> simp [he]
  | object =>
    exfalso
    cases v <;> simp [objOK, hkind, hk, isNullV] at hobj hv
  | interface =>
    have hcs := customScalar_none_of_kind c.S n td hfind (by simp [hk])
    have hnc : (specSchema c.S).isComposite n = true := by
      rw [specSchema_isComposite]; simp [Schema.isComposite, hkind, hk]
    obtain ⟨v', hv'⟩ := normLeaf_leaf c.S n v hv
    rw [renameBase_named_plain _ _ hcs, hv']
    simp [resolveNamed, hfind, hk, complete, hnc, errAt]
  | union =>
    have hcs := customScalar_none_of_kind c.S n td hfind (by simp [hk])
    have hnc : (specSchema c.S).isComposite n = true := by
      rw [specSchema_isComposite]; simp [Schema.isComposite, hkind, hk]
    obtain ⟨v', hv'⟩ := normLeaf_leaf c.S n v hv
    rw [renameBase_named_plain _ _ hcs, hv']
    simp [resolveNamed, hfind, hk, complete, hnc, errAt]
  | input =>
    have hcs := customScalar_none_of_kind c.S n td hfind (by simp [hk])
    have hnb : isBuiltin n = false := by
      cases hb : isBuiltin n with
      | false => rfl
      | true => have := (hS.builtin n td hb hfind).1; rw [hk] at this; cases this
    have hnl := normLeaf_plain c.S n v hv hcs (by rw [hkind, hk]; simp)
    have hnc : (specSchema c.S).isComposite n = false := by
      rw [specSchema_isComposite]; simp [Schema.isComposite, hkind, hk]
    have hser : serializeLeaf c.S n v = none := by
      apply serializeLeaf_none c.S n v hnb
      intro t e _ ht
      rw [hfind] at ht; cases ht
      simp [hk, kind_beq]
    rw [renameBase_named_plain _ _ hcs, hnl]
    simp [resolveNamed, hfind, hk, complete, hnc, specSchema_serializeLeaf, hser, errAt]
  | enum =>
    have hcs := customScalar_none_of_kind c.S n td hfind (by simp [hk])
    have hnb : isBuiltin n = false := by
      cases hb : isBuiltin n with
      | false => rfl
      | true => have := (hS.builtin n td hb hfind).1; rw [hk] at this; cases this
    have hnc : (specSchema c.S).isComposite n = false := by
      rw [specSchema_isComposite]; simp [Schema.isComposite, hkind, hk]
    rw [renameBase_named_plain _ _ hcs]
    have hne : ∀ w : GValue, (∀ e, w ≠ .enum e) → serializeLeaf c.S n w = none := by
      intro w hw
      apply serializeLeaf_none c.S n w hnb
      intro t e he _
      exact absurd he (hw e)
    have hen : ∀ e, serializeLeaf c.S n (.enum e) = if td.values.contains e then some (.str e) else none := by
      intro e
      rw [serializeLeaf_enum, hfind]
      simp [hk, kind_beq]
    simp only [resolveNamed, hfind, hk, normLeaf, hcs, hkind, complete, hnc, specSchema_serializeLeaf,
      Bool.false_eq_true, if_false]
    cases v <;> simp [isNullV] at hv <;> simp [enumCheck, hen, hne, errAt]
    all_goals (split <;> simp_all)


theorem renameBase_named (S : Schema) (n : String) : ∃ n', renameBase S (.named n) = .named n' := by
  unfold renameBase
  cases customScalar? S n <;> exact ⟨_, rfl⟩

theorem kindOf_of_possible (S : Schema) (hok : SchemaOK S) (n ty : String) (h : ty ∈ S.possibleTypes n) :
    S.kindOf ty = some .object := by
  obtain ⟨⟨o, ho, hk⟩, _⟩ := hok.possible n ty h
  simp [Schema.kindOf, ho, hk]

theorem possibleTypes_scalarish (S : Schema) (n : String)
    (h : ∀ t, S.find? n = some t → t.kind = .scalar ∨ t.kind = .enum ∨ t.kind = .input) : S.possibleTypes n = [] := by
  unfold Schema.possibleTypes
  cases hf : S.find? n with
  | none => rfl
  | some t => rcases h t hf with hk | hk | hk <;> simp [hk]

theorem possibleTypes_builtin (S : Schema) (hS : DynSchemaOK S) (b : String) (hb : isBuiltin b = true) :
    S.possibleTypes b = [] :=
  possibleTypes_scalarish S b (fun t ht => Or.inl (hS.builtin b t hb ht).1)

/-- the carrier of a scalar, enum or input type has no possible object types -/
theorem possibleTypes_rename (S : Schema) (hS : DynSchemaOK S) (n n' : String) (td : TypeDef) (htd : S.find? n = some td)
    (hk : td.kind = .scalar ∨ td.kind = .enum ∨ td.kind = .input) (hn' : renameBase S (.named n) = .named n') :
    S.possibleTypes n' = [] := by
  have hself : S.possibleTypes n = [] := possibleTypes_scalarish S n (fun t ht => by rw [htd] at ht; cases ht; exact hk)
  unfold renameBase at hn'
  cases hcs : customScalar? S n with
  | none => rw [hcs] at hn'; cases hn'; exact hself
  | some t =>
    rw [hcs] at hn'
    have ht : t = td ∧ td.kind = .scalar := by
      unfold customScalar? at hcs
      rw [htd] at hcs
      simp only [] at hcs
      split at hcs
      · rename_i hc; cases hcs; simp [kind_beq] at hc; exact ⟨rfl, hc.1⟩
      · cases hcs
    obtain ⟨rfl, hks⟩ := ht
    cases hb : isBuiltin n with
    | true =>
      have := (hS.builtin n t hb htd).2
      simp [this] at hn'; cases hn'; exact hself
    | false =>
      rcases hS.custom n t htd hks hb with hv | hv | hv <;> simp [hv] at hn' <;> cases hn'
      · exact hself
      · exact possibleTypes_builtin S hS "Int" (by decide)
      · exact possibleTypes_builtin S hS "String" (by decide)

/-- completion at a named type -/
theorem named_val_eq (c : Model.ExecDynamic.Ctx) (hD : c.D = Defects.none) (hS : DynSchemaOK c.S) (hok : SchemaOK c.S)
    (recM recS : String → Nat → List Sel → List PathSeg → Res) (ss : List Sel)
    (n : String) (hfind : (c.S.find? n).isSome = true)
    (hr : ∀ ty id p, ty ∈ c.S.possibleTypes n → (recM ty id ss p).val = (recS ty id ss p).val)
    (rv : RVal) (path : List PathSeg) (pos : Pos) (hobj : objOK c.S n rv = true) :
    (resolve c recM (.named n) rv ss path pos).val =
      (complete (specSchema c.S) recS (renameBase c.S (.named n)) (normRV c.S n rv) ss path pos).val := by
  have hD1 : c.D.noNullableCapture = false := by rw [hD]; rfl
  have hD3 : c.D.nullValueNotNull = false := by rw [hD]; rfl
  obtain ⟨td, htd⟩ := Option.isSome_iff_exists.mp hfind
  obtain ⟨n', hn'⟩ := renameBase_named c.S n
  have hkind : c.S.kindOf n = some td.kind := by simp [Schema.kindOf, htd]
  cases rv with
  | null => rw [hn']; simp [resolve, normNull, normRV, complete]
  | leaf v =>
    cases hv : isNullV v with
    | true =>
      have : v = .null := by cases v <;> simp_all [isNullV]
      subst this
      rw [hn']; simp [resolve, normNull, hD3, normRV, normLeaf, complete]
    | false =>
      have hnn : normNull c.D (.leaf v) = .leaf v := by cases v <;> simp_all [normNull, isNullV]
      obtain ⟨h1, h2⟩ := leaf_val_eq c hD hS recM recS ss n td htd v hv path pos hobj
      simp only [resolve, hnn, normRV]
      rw [cap_val _ hD1, h1]
      cases hc : (complete (specSchema c.S) recS (renameBase c.S (TypeRef.named n)) (normLeaf c.S n v) ss path pos).val with
      | none => simp [hc] at h2
      | some x => rfl
  | obj ty id =>
    have hnn : normNull c.D (.obj ty id) = .obj ty id := rfl
    simp only [resolve, hnn, normRV]
    rw [cap_val _ hD1]
    cases hk : td.kind with
    | scalar =>
      have := possibleTypes_rename c.S hS n n' td htd (Or.inl hk) hn'
      rw [hn']
      simp [resolveNamed, htd, hk, complete, specSchema_possibleTypes, this, errAt]
    | enum =>
      have := possibleTypes_rename c.S hS n n' td htd (Or.inr (Or.inl hk)) hn'
      rw [hn']
      simp [resolveNamed, htd, hk, complete, specSchema_possibleTypes, this, errAt]
    | input =>
      have := possibleTypes_rename c.S hS n n' td htd (Or.inr (Or.inr hk)) hn'
      rw [hn']
      simp [resolveNamed, htd, hk, complete, specSchema_possibleTypes, this, errAt]
    | object =>
      have hty : ty = n := by simpa [objOK, hkind, hk] using hobj
      subst hty
      have hcs := customScalar_none_of_kind c.S ty td htd (by simp [hk])
      have hp : c.S.possibleTypes ty = [ty] := by simp [Schema.possibleTypes, htd, hk]
      rw [renameBase_named_plain _ _ hcs]
      simp only [resolveNamed, htd, hk, complete, specSchema_possibleTypes, hp]
      rw [hr ty id path (by simp [hp])]
      cases (recS ty id ss path).val <;> simp
    | interface =>
      have hcs := customScalar_none_of_kind c.S n td htd (by simp [hk])
      rw [renameBase_named_plain _ _ hcs]
      simp only [resolveNamed, htd, hk, complete, specSchema_possibleTypes]
      by_cases hp : ty ∈ c.S.possibleTypes n
      · have hko := kindOf_of_possible c.S hok n ty hp
        have hc : (c.S.possibleTypes n).contains ty = true := by simpa using hp
        have hcond : ((c.S.possibleTypes n).contains ty && c.S.kindOf ty == some Kind.object) = true := by
          rw [hc, hko]; rfl
        rw [if_pos hcond, if_pos hc, hr ty id path hp]
        cases (recS ty id ss path).val <;> simp
      · simp [hp, errAt]
    | union =>
      have hcs := customScalar_none_of_kind c.S n td htd (by simp [hk])
      have hpt : c.S.possibleTypes n = td.members := by simp [Schema.possibleTypes, htd, hk]
      rw [renameBase_named_plain _ _ hcs]
      simp only [resolveNamed, htd, hk, complete, specSchema_possibleTypes]
      rw [hpt]
      by_cases hp' : ty ∈ td.members
      · have hp : ty ∈ c.S.possibleTypes n := hpt ▸ hp'
        have hko := kindOf_of_possible c.S hok n ty hp
        have hc : td.members.contains ty = true := by simpa using hp'
        have hcond : (td.members.contains ty && c.S.kindOf ty == some Kind.object) = true := by
          rw [hc, hko]; rfl
        rw [if_pos hcond, if_pos hc, hr ty id path hp]
        cases (recS ty id ss path).val <;> simp
      · simp [hp', errAt]
  | list xs =>
    have hnn : normNull c.D (.list xs) = .list xs := rfl
    simp only [resolve, hnn, normRV]
    rw [cap_val _ hD1, hn']
    cases hk : td.kind <;> simp [resolveNamed, htd, hk, complete, errAt]
    simp [objOK, hkind, hk] at hobj
  | fail m =>
    have hnn : normNull c.D (.fail m) = .fail m := rfl
    simp only [resolve, hnn, normRV]
    rw [cap_val _ hD1, hn']
    cases hk : td.kind <;> simp [resolveNamed, htd, hk, complete, errAt]
    simp [objOK, hkind, hk] at hobj
  | arg a =>
    have hnn : normNull c.D (.arg a) = .arg a := rfl
    simp only [resolve, hnn, normRV]
    rw [cap_val _ hD1, hn']
    cases hk : td.kind <;> simp [resolveNamed, htd, hk, complete, errAt]
    simp [objOK, hkind, hk] at hobj


theorem resolve_normNull (c : Model.ExecDynamic.Ctx) (rec : String → Nat → List Sel → List PathSeg → Res)
    (t : TypeRef) (rv : RVal) (ss : List Sel) (path : List PathSeg) (pos : Pos) :
    resolve c rec t (normNull c.D rv) ss path pos = resolve c rec t rv ss path pos := by
  cases t <;> simp only [resolve, normNull_idem]

theorem normRV_itemRV (S : Schema) (b : String) (x : RVal) : normRV S b (itemRV x) = normRV S b x := by
  cases x <;> simp [itemRV, normRV, normLeaf]

theorem rvOK_itemRV (S : Schema) : ∀ (t : TypeRef) (x : RVal), rvOK S t x = true → rvOK S t (itemRV x) = true := by
  intro t
  induction t with
  | named n => intro x h; cases x <;> simp_all [itemRV, rvOK, objOK]
  | list t _ => intro x h; cases x <;> simp_all [itemRV, rvOK]
  | nonNull t ih => intro x h; simp only [rvOK] at h ⊢; exact ih x h

theorem normNull_null_cases (D : Defects) (rv : RVal) (h : normNull D rv = .null) :
    rv = .null ∨ rv = .leaf .null := by
  cases rv with
  | leaf v => cases v <;> simp_all [normNull]
  | _ => simp_all [normNull]

theorem normRV_ne_null (S : Schema) (D : Defects) (hD : D.nullValueNotNull = false) (b : String) (rv : RVal)
    (h : normNull D rv ≠ .null) :
    normRV S b rv ≠ .null := by
  cases rv with
  | null => simp [normNull] at h
  | leaf v =>
    cases hv : isNullV v with
    | true =>
      have : v = .null := by cases v <;> simp_all [isNullV]
      subst this
      simp [normNull, hD] at h
    | false =>
      obtain ⟨v', hv'⟩ := normLeaf_leaf S b v hv
      simp [normRV, hv']
  | _ => simp [normRV]

theorem renameBase_base_list (S : Schema) (t : TypeRef) : renameBase S (.list t) = .list (renameBase S t) := rfl
theorem renameBase_base_nonNull (S : Schema) (t : TypeRef) : renameBase S (.nonNull t) = .nonNull (renameBase S t) := rfl

/-- COMPLETION: the dynamic `resolve` on a resolver value = the specification's CompleteValue on the
    normalised value against the carrier type — values, every type, faults included -/
theorem resolve_val_eq (c : Model.ExecDynamic.Ctx) (hD : c.D = Defects.none) (hS : DynSchemaOK c.S) (hok : SchemaOK c.S)
    (recM : String → Nat → List Sel → List PathSeg → Res) (hrec : RecOK recM)
    (recS : String → Nat → List Sel → List PathSeg → Res) (ss : List Sel) :
    ∀ (t : TypeRef), (c.S.find? t.base).isSome = true →
      (∀ ty id p, ty ∈ c.S.possibleTypes t.base → (recM ty id ss p).val = (recS ty id ss p).val) →
      ∀ (rv : RVal) (path : List PathSeg) (pos : Pos), rvOK c.S t rv = true →
      (resolve c recM t rv ss path pos).val =
        (complete (specSchema c.S) recS (renameBase c.S t) (normRV c.S t.base rv) ss path pos).val := by
  have hD1 : c.D.noNullableCapture = false := by rw [hD]; rfl
  have hD3 : c.D.nullValueNotNull = false := by rw [hD]; rfl
  intro t
  induction t with
  | named n =>
    intro hfind hr rv path pos hrv
    exact named_val_eq c hD hS hok recM recS ss n hfind hr rv path pos hrv
  | list t ih =>
    intro hfind hr rv path pos hrv
    rw [renameBase_base_list]
    simp only [TypeRef.base] at hfind hr ⊢
    cases rv with
    | null => simp [resolve, normNull, normRV, complete]
    | leaf v =>
      cases hv : isNullV v with
      | true =>
        have : v = .null := by cases v <;> simp_all [isNullV]
        subst this
        simp [resolve, normNull, hD3, normRV, normLeaf, complete]
      | false =>
        have hnn : normNull c.D (.leaf v) = .leaf v := by cases v <;> simp_all [normNull, isNullV]
        obtain ⟨v', hv'⟩ := normLeaf_leaf c.S t.base v hv
        simp only [resolve, hnn, normRV, hv', complete]
        rw [cap_val _ hD1]; rfl
    | obj ty id =>
      have hnn : normNull c.D (.obj ty id) = .obj ty id := rfl
      simp only [resolve, hnn, normRV, complete]
      rw [cap_val _ hD1]; rfl
    | fail m =>
      have hnn : normNull c.D (.fail m) = .fail m := rfl
      simp only [resolve, hnn, normRV, complete]
      rw [cap_val _ hD1]; rfl
    | arg a =>
      have hnn : normNull c.D (.arg a) = .arg a := rfl
      simp only [resolve, hnn, normRV, complete]
      rw [cap_val _ hD1]; rfl
    | list xs =>
      have hnn : normNull c.D (.list xs) = .list xs := rfl
      simp only [rvOK, List.all_eq_true] at hrv
      simp only [resolve, hnn, normRV, complete, normRVs_map]
      rw [mapIdx_map_src]
      have hAB : (mapIdx (fun i x => fun (_ : Unit) =>
            resolve c recM t (itemRV x) ss (path ++ [PathSeg.idx i]) pos) xs 0).map (fun f => (f ()).val) =
          (mapIdx (fun i x => complete (specSchema c.S) recS (renameBase c.S t) (normRV c.S t.base x) ss
            (path ++ [PathSeg.idx i]) pos) xs 0).map (·.val) := by
        rw [mapIdx_map, mapIdx_map]
        apply mapIdx_congr
        intro i x hx
        have := ih hfind hr (itemRV x) (path ++ [PathSeg.idx i]) pos (rvOK_itemRV c.S t x (hrv x hx))
        rw [normRV_itemRV] at this
        exact this
      obtain ⟨h1, h2⟩ := joinAll_vals _ _ hAB
      rw [h1]
      split
      · rename_i hall
        simp only
        rw [h2 hall]
      · rw [cap_val _ hD1]; rfl
  | nonNull t ih =>
    intro hfind hr rv path pos hrv
    rw [renameBase_base_nonNull]
    simp only [TypeRef.base, rvOK] at hfind hr hrv ⊢
    by_cases hn : normNull c.D rv = .null
    · rcases normNull_null_cases c.D rv hn with rfl | rfl
      · simp [resolve, normNull, normRV, complete, errAt]
      · simp [resolve, normNull, hD3, normRV, normLeaf, complete, errAt]
    · rw [resolve_nonNull c recM t rv ss path pos hn, resolve_normNull]
      have e := ih hfind hr rv path pos hrv
      have h2 := (resolve_props c hD3 recM hrec t rv ss path pos).2
      have hrv' := normRV_ne_null c.S c.D hD3 t.base rv hn
      obtain ⟨ca, cb⟩ := complete_nonNull_val (specSchema c.S) recS (renameBase c.S t) (normRV c.S t.base rv) ss path pos hrv'
      cases hv : (complete (specSchema c.S) recS (renameBase c.S t) (normRV c.S t.base rv) ss path pos).val with
      | none =>
        rw [cb (by simp [hv]), hv]
        unfold nnWrap
        rw [hv] at e
        simp [e]
      | some v =>
        by_cases hnull : v = .null
        · subst hnull
          rw [ca hv]
          rw [hv] at e
          have hne := h2 e
          unfold nnWrap
          by_cases hemp : (resolve c recM t rv ss path pos).errs = []
          · exact absurd (hne hemp) hn
          · simp [e, hemp]
        · rw [cb (by simp [hv, hnull]), hv]
          rw [hv] at e
          unfold nnWrap
          cases v <;> simp_all


-- ------------------------------------------------------------------ field collection

/-- the specification-side context of a dynamic model context (`Spec.ExecDyn.run`) -/
def sc (c : Model.ExecDynamic.Ctx) : AGV.Spec.Exec.Ctx :=
  { S := specSchema c.S, d := c.d, vars := c.vars, w := specWorld c.S c.w }

@[simp] theorem sc_S (c : Model.ExecDynamic.Ctx) : (sc c).S = specSchema c.S := rfl
@[simp] theorem sc_d (c : Model.ExecDynamic.Ctx) : (sc c).d = c.d := rfl
@[simp] theorem sc_vars (c : Model.ExecDynamic.Ctx) : (sc c).vars = c.vars := rfl
@[simp] theorem sc_w (c : Model.ExecDynamic.Ctx) : (sc c).w = specWorld c.S c.w := rfl

/-- every field selected on `rt` (through the fragments that apply) is defined by `rt`
    (validation rule 5.3.1; the dynamic `collect_fields` silently skips any other field) -/
def fieldsExist (c : Model.ExecDynamic.Ctx) (rt : String) : Nat → List Sel → Bool
  | 0, _ => true
  | fuel + 1, sels =>
    sels.all (fun sel =>
      match sel with
      | .field _ n _ _ _ _ => n = "__typename" || (c.S.field? rt n).isSome
      | .spread n _ _ =>
        match c.d.frag? n with
        | none => true
        | some f => !condMatched c.D c.S rt f.cond || fieldsExist c rt fuel f.sels
      | .inline cond _ ss _ =>
        match cond with
        | some t => !condMatched c.D c.S rt t || fieldsExist c rt fuel ss
        | none => fieldsExist c rt fuel ss)

theorem collect_cons (c : Model.ExecDynamic.Ctx) (rt : String) (fuel : Nat) (s : Sel) (r : List Sel) :
    Model.ExecDynamic.collect c rt (fuel + 1) (s :: r) =
      Model.ExecDynamic.collect c rt (fuel + 1) [s] ++ Model.ExecDynamic.collect c rt (fuel + 1) r := by
  simp [Model.ExecDynamic.collect]

theorem fieldsExist_cons (c : Model.ExecDynamic.Ctx) (rt : String) (fuel : Nat) (s : Sel) (r : List Sel) :
    fieldsExist c rt (fuel + 1) (s :: r) = (fieldsExist c rt (fuel + 1) [s] && fieldsExist c rt (fuel + 1) r) := by
  simp [fieldsExist]

def CollectAgree (c : Model.ExecDynamic.Ctx) (rt : String) (fuel : Nat) : Prop :=
  ∀ sels vis, selsInert c.vars sels = true → fieldsExist c rt fuel sels = true →
    (spreads c.d fuel sels).Nodup → (∀ n ∈ spreads c.d fuel sels, n ∉ vis) →
    (AGV.Spec.Exec.collect (sc c) rt fuel sels vis).1 = (Model.ExecDynamic.collect c rt fuel sels).map eraseSt ∧
    ∀ n ∈ (AGV.Spec.Exec.collect (sc c) rt fuel sels vis).2, n ∈ vis ∨ n ∈ spreads c.d fuel sels

theorem condMatched_spec (c : Model.ExecDynamic.Ctx) (hD : c.D = Defects.none) (hok : SchemaOK c.S) (rt : String)
    (hrt : IsObj c.S rt) (cond : String) : condMatched c.D c.S rt cond = doesApply (specSchema c.S) rt cond := by
  rw [specSchema_doesApply, ← hok.applies rt hrt cond, hD]
  rfl

theorem step_agree (c : Model.ExecDynamic.Ctx) (hD : c.D = Defects.none) (hok : SchemaOK c.S) (rt : String)
    (hrt : IsObj c.S rt) (hfr : ∀ f ∈ c.d.frags, selsInert c.vars f.sels = true) (fuel : Nat)
    (ih : CollectAgree c rt fuel)
    (acc : List FieldOcc × List String) (sel : Sel) (hin : selInert c.vars sel = true)
    (hfe : fieldsExist c rt (fuel + 1) [sel] = true)
    (hnd : (spreads c.d (fuel + 1) [sel]).Nodup) (hdis : ∀ n ∈ spreads c.d (fuel + 1) [sel], n ∉ acc.2) :
    (specStep (sc c) rt fuel acc sel).1 = acc.1 ++ (Model.ExecDynamic.collect c rt (fuel + 1) [sel]).map eraseSt ∧
    ∀ n ∈ (specStep (sc c) rt fuel acc sel).2, n ∈ acc.2 ∨ n ∈ spreads c.d (fuel + 1) [sel] := by
  have hApp := condMatched_spec c hD hok rt hrt
  cases sel with
  | field al n args ds ss pos =>
    simp only [selInert, dirsInert, Bool.and_eq_true, Bool.not_eq_true'] at hin
    have hfe' : n = "__typename" ∨ (c.S.field? rt n).isSome = true := by simpa [fieldsExist] using hfe
    refine ⟨?_, ?_⟩
    · simp [specStep, hin.1.1, Model.ExecDynamic.collect, if_pos hfe', eraseSt]
    · simp [specStep, hin.1.1]
      intro m hm; exact Or.inl hm
  | spread n ds pos =>
    simp only [selInert, dirsInert, Bool.and_eq_true, Bool.not_eq_true'] at hin
    have hn : n ∉ acc.2 := hdis n (by simp [spreads])
    cases hf : c.d.frag? n with
    | none =>
      simp [specStep, hin.1, hn, hf, Model.ExecDynamic.collect, spreads]
      intro m hm; exact Or.inl hm
    | some f =>
      have hfin := hfr f (frag_mem c.d n f hf)
      simp only [spreads, hf, List.map_cons, List.map_nil, List.flatten_cons, List.flatten_nil, List.append_nil,
        List.nodup_cons] at hnd hdis
      cases ha : doesApply (specSchema c.S) rt f.cond with
      | true =>
        have hfe' : fieldsExist c rt fuel f.sels = true := by
          simpa [fieldsExist, hf, hApp, ha] using hfe
        obtain ⟨i1, i2⟩ := ih f.sels (n :: acc.2) hfin hfe' hnd.2 (by
          intro m hm
          simp only [List.mem_cons, not_or]
          exact ⟨fun e => hnd.1 (e ▸ hm), hdis m (by simp [hm])⟩)
        refine ⟨?_, ?_⟩
        · simp [specStep, hin.1, hn, hf, ha, Model.ExecDynamic.collect, hApp, i1]
        · intro m hm
          have hm' : m ∈ (AGV.Spec.Exec.collect (sc c) rt fuel f.sels (n :: acc.2)).2 := by
            simpa [specStep, hin.1, hn, hf, ha] using hm
          have hs : spreads c.d (fuel + 1) [Sel.spread n ds pos] = n :: spreads c.d fuel f.sels := by
            simp [spreads, hf]
          rw [hs]
          rcases i2 m hm' with h | h
          · simp only [List.mem_cons] at h
            rcases h with h | h
            · right; simp [h]
            · left; exact h
          · right; simp [h]
      | false =>
        simp [specStep, hin.1, hn, hf, ha, Model.ExecDynamic.collect, hApp]
        refine ⟨by simp [spreads, hf], fun m hm => Or.inl hm⟩
  | inline cond ds ss pos =>
    simp only [selInert, dirsInert, Bool.and_eq_true, Bool.not_eq_true'] at hin
    have hs : spreads c.d (fuel + 1) [Sel.inline cond ds ss pos] = spreads c.d fuel ss := by
      simp [spreads]
    rw [hs] at hnd hdis ⊢
    cases cond with
    | none =>
      have hfe' : fieldsExist c rt fuel ss = true := by simpa [fieldsExist] using hfe
      obtain ⟨i1, i2⟩ := ih ss acc.2 hin.2 hfe' hnd hdis
      refine ⟨?_, ?_⟩
      · simp [specStep, hin.1.1, Model.ExecDynamic.collect, i1]
      · intro m hm
        have hm' : m ∈ (AGV.Spec.Exec.collect (sc c) rt fuel ss acc.2).2 := by
          simpa [specStep, hin.1.1] using hm
        exact i2 m hm'
    | some t =>
      cases ha : doesApply (specSchema c.S) rt t with
      | true =>
        have hfe' : fieldsExist c rt fuel ss = true := by simpa [fieldsExist, hApp, ha] using hfe
        obtain ⟨i1, i2⟩ := ih ss acc.2 hin.2 hfe' hnd hdis
        refine ⟨?_, ?_⟩
        · simp [specStep, hin.1.1, ha, Model.ExecDynamic.collect, hApp, i1]
        · intro m hm
          have hm' : m ∈ (AGV.Spec.Exec.collect (sc c) rt fuel ss acc.2).2 := by
            simpa [specStep, hin.1.1, ha] using hm
          exact i2 m hm'
      | false =>
        simp [specStep, hin.1.1, ha, Model.ExecDynamic.collect, hApp]
        intro m hm; exact Or.inl hm

theorem foldl_agree (c : Model.ExecDynamic.Ctx) (hD : c.D = Defects.none) (hok : SchemaOK c.S) (rt : String)
    (hrt : IsObj c.S rt) (hfr : ∀ f ∈ c.d.frags, selsInert c.vars f.sels = true) (fuel : Nat)
    (ih : CollectAgree c rt fuel) :
    ∀ (sels : List Sel) (acc : List FieldOcc × List String), selsInert c.vars sels = true →
      fieldsExist c rt (fuel + 1) sels = true →
      (spreads c.d (fuel + 1) sels).Nodup → (∀ n ∈ spreads c.d (fuel + 1) sels, n ∉ acc.2) →
      (sels.foldl (specStep (sc c) rt fuel) acc).1 = acc.1 ++ (Model.ExecDynamic.collect c rt (fuel + 1) sels).map eraseSt ∧
      ∀ n ∈ (sels.foldl (specStep (sc c) rt fuel) acc).2, n ∈ acc.2 ∨ n ∈ spreads c.d (fuel + 1) sels := by
  intro sels
  induction sels with
  | nil => intro acc _ _ _ _; simp [Model.ExecDynamic.collect]; exact fun n h => Or.inl h
  | cons s r ihr =>
    intro acc hin hfe hnd hdis
    simp only [selsInert, Bool.and_eq_true] at hin
    rw [fieldsExist_cons, Bool.and_eq_true] at hfe
    rw [spreads_cons] at hnd hdis
    rw [List.nodup_append] at hnd
    obtain ⟨s1, s2⟩ := step_agree c hD hok rt hrt hfr fuel ih acc s hin.1 hfe.1 hnd.1
      (fun n hn => hdis n (by simp [hn]))
    obtain ⟨r1, r2⟩ := ihr (specStep (sc c) rt fuel acc s) hin.2 hfe.2 hnd.2.1 (by
      intro n hn hmem
      rcases s2 n hmem with h | h
      · exact hdis n (by simp [hn]) h
      · exact hnd.2.2 n h n hn rfl)
    rw [List.foldl_cons, collect_cons, spreads_cons]
    refine ⟨?_, ?_⟩
    · rw [r1, s1]; simp
    · intro n hn
      rcases r2 n hn with h | h
      · rcases s2 n h with h' | h'
        · exact Or.inl h'
        · right; simp [h']
      · right; simp [h]

/-- CollectFields: the dynamic `collect_fields` (union conditions honoured) collects exactly the
    specification's field occurrences when every selected field exists, no directive acts, the schema
    is consistent and every fragment name is spread at most once per selection set -/
theorem collect_agree (c : Model.ExecDynamic.Ctx) (hD : c.D = Defects.none) (hok : SchemaOK c.S) (rt : String)
    (hrt : IsObj c.S rt) (hfr : ∀ f ∈ c.d.frags, selsInert c.vars f.sels = true) :
    ∀ fuel, CollectAgree c rt fuel := by
  intro fuel
  induction fuel with
  | zero => intro sels vis _ _ _ _; simp [AGV.Spec.Exec.collect, Model.ExecDynamic.collect]; exact fun n h => Or.inl h
  | succ fuel ih =>
    intro sels vis hin hfe hnd hdis
    rw [spec_collect_succ]
    have := foldl_agree c hD hok rt hrt hfr fuel ih sels ([], vis) hin hfe hnd hdis
    simpa using this


-- ------------------------------------------------------------------ one field

theorem renameBase_isNonNull (S : Schema) (t : TypeRef) : (renameBase S t).isNonNull = t.isNonNull := by
  cases t with
  | named n => obtain ⟨n', h⟩ := renameBase_named S n; rw [h]; rfl
  | list t => rfl
  | nonNull t => rfl

theorem complete_null_val (S : Schema) (rec : String → Nat → List Sel → List PathSeg → Res)
    (ss : List Sel) (path : List PathSeg) (pos : Pos) (t : TypeRef) :
    (complete S rec t .null ss path pos).val = if t.isNonNull then none else some .null := by
  cases t <;> simp [complete, TypeRef.isNonNull]

theorem complete_leafNull (S : Schema) (rec : String → Nat → List Sel → List PathSeg → Res)
    (ss : List Sel) (path : List PathSeg) (pos : Pos) :
    ∀ t : TypeRef, (complete S rec t (.leaf .null) ss path pos).val = (if t.isNonNull then none else some .null) ∧
      (complete S rec t (.leaf .null) ss path pos).errs ≠ [] := by
  intro t
  induction t with
  | named n =>
    simp only [complete, TypeRef.isNonNull]
    split
    · simp
    · have : serializeLeaf S n .null = none := by unfold serializeLeaf; split <;> simp_all
      simp [this]
  | list t _ => simp [complete, TypeRef.isNonNull]
  | nonNull t ih =>
    obtain ⟨i1, i2⟩ := ih
    simp only [complete, TypeRef.isNonNull, if_true]
    by_cases hn : t.isNonNull = true
    · rw [hn] at i1
      simp only [if_true] at i1
      simp [i1, i2]
    · have hn' : t.isNonNull = false := by simpa using hn
      rw [hn'] at i1
      simp only [Bool.false_eq_true, if_false] at i1
      simp [i1, i2]

/-- the static-style context over the specification's schema and world: lets the lemmas on the
    specification's `execSet` proved for C01 be reused -/
def cS (c : Model.ExecDynamic.Ctx) : Model.ExecStatic.Ctx :=
  { D := Model.ExecStatic.Defects.none, S := specSchema c.S, d := c.d, vars := c.vars, w := specWorld c.S c.w }

theorem sc_cS (c : Model.ExecDynamic.Ctx) : AGV.Lemmas.ExecStaticData.sc (cS c) = sc c := rfl

/-- hypotheses of the data theorem that concern schema, document and world as a whole -/
structure DataHyps (c : Model.ExecDynamic.Ctx) : Prop where
  noDefect : c.D = Defects.none
  schema : SchemaOK c.S
  dyn : DynSchemaOK c.S
  frags : ∀ f ∈ c.d.frags, selsInert c.vars f.sels = true
  /-- a field name has the same base type wherever it occurs (how `Spec.ExecDyn.specWorld` reads a world) -/
  family : ∀ rt f fd, c.S.field? rt f = some fd → fieldBase c.S f = some fd.ty.base
  registered : ∀ rt f fd, c.S.field? rt f = some fd → (c.S.find? fd.ty.base).isSome = true
  /-- object-typed positions receive object identities of the declared type (or nothing) -/
  typed : ∀ rt id fd occ, c.S.field? rt occ.name = some fd → (∀ m, fieldRVal c id fd occ ≠ .fail m) →
    rvOK c.S fd.ty (fieldRVal c id fd occ) = true
  /-- an echoed argument value is already an internal value of the field's type -/
  args : ∀ rt id fd occ a, c.S.field? rt occ.name = some fd → c.w.get id occ.name = .arg a →
    argValue { S := c.S, d := c.d, vars := c.vars, w := c.w } fd occ a = .null ∨
    normLeaf c.S fd.ty.base (argValue { S := c.S, d := c.d, vars := c.vars, w := c.w } fd occ a) =
      .leaf (argValue { S := c.S, d := c.d, vars := c.vars, w := c.w } fd occ a)

theorem completeField_val_eq (c : Model.ExecDynamic.Ctx) (H : DataHyps c)
    (recM : String → Nat → List Sel → List PathSeg → Res) (hrec : RecOK recM)
    (recS : String → Nat → List Sel → List PathSeg → Res) (rt : String) (id : Nat) (fd : FieldDef) (occ : FieldOcc)
    (hfd : c.S.field? rt occ.name = some fd) (fpath : List PathSeg)
    (hr : ∀ ty id p, ty ∈ c.S.possibleTypes fd.ty.base → (recM ty id occ.sels p).val = (recS ty id occ.sels p).val) :
    (completeField c recM fd (fieldRVal c id fd occ) occ fpath).val =
      (complete (specSchema c.S) recS (renameBase c.S fd.ty)
        (Model.ExecStatic.fieldRVal (cS c) id (renameFD c.S fd) occ) occ.sels fpath occ.pos).val := by
  have hD1 : c.D.noNullableCapture = false := by rw [H.noDefect]; rfl
  have hreg := H.registered rt occ.name fd hfd
  have hmain := fun rv hrv => resolve_val_eq c H.noDefect H.dyn H.schema recM hrec recS occ.sels fd.ty hreg hr rv fpath occ.pos hrv
  have hget : (specWorld c.S c.w).get id occ.name = normRV c.S fd.ty.base (c.w.get id occ.name) := by
    rw [specWorld_get, H.family rt occ.name fd hfd]
  have htyped := H.typed rt id fd occ hfd
  unfold Model.ExecStatic.fieldRVal cS
  simp only [hget]
  cases hw : c.w.get id occ.name with
  | arg a =>
    have hargs := H.args rt id fd occ a hfd hw
    have hrv : fieldRVal c id fd occ = .leaf (argValue { S := c.S, d := c.d, vars := c.vars, w := c.w } fd occ a) := by
      simp [fieldRVal, hw]
    have hav : argValue { S := specSchema c.S, d := c.d, vars := c.vars, w := specWorld c.S c.w } (renameFD c.S fd) occ a =
        argValue { S := c.S, d := c.d, vars := c.vars, w := c.w } fd occ a := by
      simp [argValue, renameFD]
    rw [hrv] at htyped ⊢
    simp only [normRV, hav]
    have hm := hmain _ (htyped (by simp))
    simp only [completeField]
    rw [hm]
    rcases hargs with h0 | h1
    · rw [h0]
      simp only [normRV, normLeaf]
      rw [(complete_leafNull _ _ _ _ _ _).1, complete_null_val]
    · simp only [normRV, h1]
  | fail m =>
    have hrv : fieldRVal c id fd occ = .fail m := by simp [fieldRVal, hw]
    rw [hrv]
    simp only [normRV, completeField]
    rw [complete_fail_val, renameBase_isNonNull]
    have h2 : c.D.resolverErrNoPath = false := by rw [H.noDefect]; rfl
    split
    · simp [errAt]
    · rw [cap_val _ hD1]; simp [errAt]
  | null =>
    have hrv : fieldRVal c id fd occ = .null := by simp [fieldRVal, hw]
    rw [hrv] at htyped ⊢
    simpa [completeField, normRV] using hmain _ (htyped (by simp))
  | leaf v =>
    have hrv : fieldRVal c id fd occ = .leaf v := by simp [fieldRVal, hw]
    rw [hrv] at htyped ⊢
    have := hmain _ (htyped (by simp))
    simp only [completeField]
    rw [this]
    simp only [normRV]
    cases hv : isNullV v with
    | true =>
      have : v = .null := by cases v <;> simp_all [isNullV]
      subst this
      simp [normLeaf]
    | false =>
      obtain ⟨v', hv'⟩ := normLeaf_leaf c.S fd.ty.base v hv
      simp [hv']
  | obj ty i =>
    have hrv : fieldRVal c id fd occ = .obj ty i := by simp [fieldRVal, hw]
    rw [hrv] at htyped ⊢
    simpa [completeField, normRV] using hmain _ (htyped (by simp))
  | list xs =>
    have hrv : fieldRVal c id fd occ = .list xs := by simp [fieldRVal, hw]
    rw [hrv] at htyped ⊢
    simpa [completeField, normRV] using hmain _ (htyped (by simp))


theorem createValueObject_nodup (D : Defects) (fuel : Nat) (kvs : List (String × GValue)) (h : (kvs.map (·.1)).Nodup) :
    createValueObject D fuel kvs = .obj kvs := by
  unfold createValueObject
  rw [foldl_insertKV_nodup _ kvs [] (by simpa using h)]
  simp

theorem runField_val (c : Model.ExecDynamic.Ctx) (H : DataHyps c) (fuel : Nat) (rt : String) (id : Nat)
    (path : List PathSeg) (occ : FieldOcc)
    (hr : ∀ fd, occ.name ≠ "__typename" → c.S.field? rt occ.name = some fd →
      ∀ ty id p, ty ∈ c.S.possibleTypes fd.ty.base →
      (resolveContainer c fuel ty id occ.sels p).val = (execSet (sc c) fuel ty id occ.sels p).val)
    (h : occ.name = "__typename" ∨ ∃ fd, c.S.field? rt occ.name = some fd) :
    (runField c (resolveContainer c fuel) rt id path occ).val =
      (fieldVal (cS c) fuel rt id path occ).map (fun v => GValue.obj [(occ.key, v)]) := by
  have hD' : c.D.nullValueNotNull = false := by rw [H.noDefect]; rfl
  by_cases ht : occ.name = "__typename"
  · simp [runField, fieldVal, ht]
  · rcases h with h | ⟨fd, hfd⟩
    · exact absurd h ht
    · have e := completeField_val_eq c H (resolveContainer c fuel) (recOK_resolveContainer c hD' fuel)
        (execSet (sc c) fuel) rt id fd occ hfd (path ++ [PathSeg.key occ.key]) (hr fd ht hfd)
      have hfd' : (cS c).S.field? rt occ.name = some (renameFD c.S fd) := by
        show (specSchema c.S).field? rt occ.name = _
        rw [specSchema_field, hfd]; rfl
      simp only [runField, fieldVal, ht, hfd, hfd', if_false, e, sc_cS]
      rfl

theorem collect_inert (c : Model.ExecDynamic.Ctx) (rt : String)
    (hfr : ∀ f ∈ c.d.frags, selsInert c.vars f.sels = true) :
    ∀ (fuel : Nat) (sels : List Sel), selsInert c.vars sels = true →
      ∀ occ ∈ Model.ExecDynamic.collect c rt fuel sels, selsInert c.vars occ.sels = true := by
  intro fuel
  induction fuel with
  | zero => intro sels _ occ h; simp [Model.ExecDynamic.collect] at h
  | succ fuel ih =>
    intro sels
    induction sels with
    | nil => intro _ occ h; simp [Model.ExecDynamic.collect] at h
    | cons s r ihr =>
      intro hin occ hocc
      simp only [selsInert, Bool.and_eq_true] at hin
      rw [collect_cons, List.mem_append] at hocc
      rcases hocc with hocc | hocc
      · cases s with
        | field al n args ds ss pos =>
          simp only [selInert, Bool.and_eq_true] at hin
          simp only [Model.ExecDynamic.collect, List.map_cons, List.map_nil, List.flatten_cons, List.flatten_nil,
            List.append_nil] at hocc
          split at hocc
          · simp at hocc
            subst hocc
            exact hin.1.2
          · simp at hocc
        | spread n ds pos =>
          cases hf : c.d.frag? n with
          | none => simp [Model.ExecDynamic.collect, hf] at hocc
          | some f =>
            have hfin := hfr f (frag_mem c.d n f hf)
            simp only [Model.ExecDynamic.collect, hf, List.map_cons, List.map_nil, List.flatten_cons, List.flatten_nil,
              List.append_nil] at hocc
            split at hocc
            · exact ih _ hfin occ hocc
            · simp at hocc
        | inline cond ds ss pos =>
          simp only [selInert, Bool.and_eq_true] at hin
          cases cond with
          | none =>
            simp only [Model.ExecDynamic.collect, List.map_cons, List.map_nil, List.flatten_cons, List.flatten_nil,
              List.append_nil] at hocc
            exact ih _ hin.1.2 occ hocc
          | some t =>
            simp only [Model.ExecDynamic.collect, List.map_cons, List.map_nil, List.flatten_cons, List.flatten_nil,
              List.append_nil] at hocc
            split at hocc
            · exact ih _ hin.1.2 occ hocc
            · simp at hocc
      · exact ihr hin.2 occ hocc

/-- `NoRepeatedKeys` (decidable, relative to the schema, for every possible runtime type): at every
    selection set that execution can reach, the collected response keys are pairwise distinct, no
    fragment name is spread twice, and every selected field exists on the runtime type -/
def noRepeatedKeys (c : Model.ExecDynamic.Ctx) : Nat → String → List Sel → Bool
  | 0, _, _ => true
  | fuel + 1, rt, sels =>
    decide ((Model.ExecDynamic.collect c rt (fuel + 1) sels).map (·.key)).Nodup &&
    decide (spreads c.d (fuel + 1) sels).Nodup &&
    fieldsExist c rt (fuel + 1) sels &&
    (Model.ExecDynamic.collect c rt (fuel + 1) sels).all (fun occ =>
      occ.name = "__typename" ||
      match c.S.field? rt occ.name with
      | none => false
      | some fd => (c.S.possibleTypes fd.ty.base).all (fun ty => noRepeatedKeys c fuel ty occ.sels))

theorem noRepeatedKeys_succ (c : Model.ExecDynamic.Ctx) (fuel : Nat) (rt : String) (sels : List Sel)
    (h : noRepeatedKeys c (fuel + 1) rt sels = true) :
    ((Model.ExecDynamic.collect c rt (fuel + 1) sels).map (·.key)).Nodup ∧
    (spreads c.d (fuel + 1) sels).Nodup ∧ fieldsExist c rt (fuel + 1) sels = true ∧
    ∀ occ ∈ Model.ExecDynamic.collect c rt (fuel + 1) sels,
      occ.name = "__typename" ∨ ∃ fd, c.S.field? rt occ.name = some fd ∧
        ∀ ty ∈ c.S.possibleTypes fd.ty.base, noRepeatedKeys c fuel ty occ.sels = true := by
  simp only [noRepeatedKeys, Bool.and_eq_true, decide_eq_true_eq, List.all_eq_true, Bool.or_eq_true] at h
  refine ⟨h.1.1.1, h.1.1.2, h.1.2, ?_⟩
  intro occ hocc
  rcases h.2 occ hocc with ht | hf
  · exact Or.inl ht
  · right
    cases hfd : c.S.field? rt occ.name with
    | none => rw [hfd] at hf; simp at hf
    | some fd =>
      rw [hfd] at hf
      exact ⟨fd, rfl, by simpa [List.all_eq_true] using hf⟩

theorem container_val_eq (c : Model.ExecDynamic.Ctx) (H : DataHyps c) :
    ∀ (fuel : Nat) (rt : String) (id : Nat) (sels : List Sel) (path : List PathSeg),
      IsObj c.S rt → selsInert c.vars sels = true → noRepeatedKeys c fuel rt sels = true →
      (resolveContainer c fuel rt id sels path).val = (execSet (sc c) fuel rt id sels path).val := by
  intro fuel
  induction fuel with
  | zero => intro rt id sels path _ _ _; simp [resolveContainer, execSet]
  | succ fuel ih =>
    intro rt id sels path hrt hin hgood
    obtain ⟨hkeys, hspr, hfe, hoccs⟩ := noRepeatedKeys_succ c fuel rt sels hgood
    have hcol := (collect_agree c H.noDefect H.schema rt hrt H.frags (fuel + 1) sels [] hin hfe hspr
      (by intro n _; simp)).1
    have hkeys' : ((((Model.ExecDynamic.collect c rt (fuel + 1) sels).map eraseSt)).map (·.key)).Nodup := by
      have : ((Model.ExecDynamic.collect c rt (fuel + 1) sels).map eraseSt).map (·.key) =
          (Model.ExecDynamic.collect c rt (fuel + 1) sels).map (·.key) := by
        rw [List.map_map]; rfl
      rw [this]; exact hkeys
    have hHF : ∀ occ ∈ Model.ExecDynamic.collect c rt (fuel + 1) sels, HasField (cS c) rt occ := by
      intro occ hocc
      rcases hoccs occ hocc with h | ⟨fd, hfd, _⟩
      · exact Or.inl h
      · refine Or.inr ⟨renameFD c.S fd, ?_⟩
        show (specSchema c.S).field? rt occ.name = _
        rw [specSchema_field, hfd]; rfl
    have hRF : ∀ occ ∈ Model.ExecDynamic.collect c rt (fuel + 1) sels,
        (runField c (resolveContainer c fuel) rt id path occ).val =
          (fieldVal (cS c) fuel rt id path occ).map (fun v => GValue.obj [(occ.key, v)]) := by
      intro occ hocc
      apply runField_val c H fuel rt id path occ ?_ ?_
      · intro fd hnt hfd ty id' p hty
        rcases hoccs occ hocc with h | ⟨fd', hfd', hsub⟩
        · exact absurd h hnt
        · rw [hfd] at hfd'
          cases hfd'
          obtain ⟨hobj, _⟩ := H.schema.possible _ _ hty
          exact ih ty id' occ.sels p hobj
            (collect_inert c rt H.frags (fuel + 1) sels hin occ hocc) (hsub ty hty)
      · rcases hoccs occ hocc with h | ⟨fd, hfd, _⟩
        · exact Or.inl h
        · exact Or.inr ⟨fd, hfd⟩
    rw [execSet_succ]
    simp only [resolveContainer]
    rw [hcol, group_nodup _ hkeys']
    obtain ⟨f1, f2⟩ := execStep_fold (cS c) fuel rt id path _ hHF ([], [], [], false)
    rw [sc_cS] at f1 f2
    have hall : (joinAll ((Model.ExecDynamic.collect c rt (fuel + 1) sels).map
          (fun occ => fun (_ : Unit) => runField c (resolveContainer c fuel) rt id path occ))).all (·.val.isSome) =
        (Model.ExecDynamic.collect c rt (fuel + 1) sels).all (fun o => (fieldVal (cS c) fuel rt id path o).isSome) := by
      rw [joinAll_all, List.all_map]
      apply all_congr_mem
      intro o ho
      simp [hRF o ho]
    rw [hall, f2, any_isNone_eq_not_all, f1]
    cases hA : (Model.ExecDynamic.collect c rt (fuel + 1) sels).all (fun o => (fieldVal (cS c) fuel rt id path o).isSome) with
    | false => simp
    | true =>
      have hj := joinAll_eq_of_all ((Model.ExecDynamic.collect c rt (fuel + 1) sels).map
          (fun occ => fun (_ : Unit) => runField c (resolveContainer c fuel) rt id path occ)) (by
        rw [List.all_map]
        rw [← hA]
        apply all_congr_mem
        intro o ho
        simp [hRF o ho])
      rw [hj, List.map_map]
      have hk := kvs_fold (fun occ => runField c (resolveContainer c fuel) rt id path occ) (fieldVal (cS c) fuel rt id path)
        (Model.ExecDynamic.collect c rt (fuel + 1) sels) hRF
      have hcomp : ((fun f : Unit → Res => f ()) ∘ fun occ => fun (_ : Unit) => runField c (resolveContainer c fuel) rt id path occ) =
          (fun occ => runField c (resolveContainer c fuel) rt id path occ) := rfl
      rw [hcomp, hk, createValueObject_nodup _ _ _ (List.Nodup.sublist (keys_filterMap_sublist _ _) hkeys)]
      simp



/-- the model context in which `run` executes operation `op` when no directive acts -/
def runCtx (S : Schema) (d : Doc) (op : OpDef) (raw : List (String × GValue)) (w : World) : Model.ExecDynamic.Ctx :=
  { D := Defects.none, S := S, d := d, vars := AGV.Spec.Exec.coerceVars op.vars raw, w := w }

/-- hypotheses of `run_val_eq`, per selected operation -/
structure RunHyps (S : Schema) (d : Doc) (op : OpDef) (raw : List (String × GValue)) (w : World) (fuel : Nat) : Prop where
  root : IsObj S (rootOf S op)
  data : DataHyps (runCtx S d op raw w)
  opInert : selsInert (AGV.Spec.Exec.coerceVars op.vars raw) op.sels = true
  keys : noRepeatedKeys (runCtx S d op raw w) fuel (rootOf S op) op.sels = true

theorem run_val_eq (S : Schema) (d : Doc) (opName : Option String) (raw : List (String × GValue)) (w : World) (fuel : Nat)
    (H : ∀ op, AGV.Spec.Exec.selectOp d opName = some op → RunHyps S d op raw w fuel) :
    (Model.ExecDynamic.run Defects.none S d opName raw w fuel).val = (AGV.Spec.ExecDyn.run S d opName raw w fuel).val := by
  unfold Model.ExecDynamic.run AGV.Spec.ExecDyn.run AGV.Spec.Exec.run
  cases hop : AGV.Spec.Exec.selectOp d opName with
  | none => rfl
  | some op =>
    have h := H op hop
    have hsv : skipVars Defects.none op.vars raw = AGV.Spec.Exec.coerceVars op.vars raw := rfl
    have hfr := h.data.frags
    have hd : ({ ops := d.ops, frags := d.frags.map (fun f =>
        { f with sels := prune (AGV.Spec.Exec.coerceVars op.vars raw) fuel f.sels }) } : Doc) = d := by
      have : d.frags.map (fun f => ({ f with sels := prune (AGV.Spec.Exec.coerceVars op.vars raw) fuel f.sels } : FragDef)) = d.frags := by
        conv => rhs; rw [← List.map_id d.frags]
        apply List.map_congr_left
        intro f hf
        have := prune_inert (AGV.Spec.Exec.coerceVars op.vars raw) fuel f.sels (hfr f hf)
        simp [this]
      rw [this]
    simp only [hsv, hd, prune_inert _ fuel op.sels h.opInert]
    exact container_val_eq (runCtx S d op raw w) h.data fuel (rootOf S op) 0 op.sels [] h.root h.opInert h.keys

-- ------------------------------------------------------------------ decidable sufficient conditions

def customShapes : List (List String) := [[], ["Int", "even"], ["String", "nonempty"]]

/-- built-in scalar names are plain scalars, custom scalars carry a described validator or none -/
def dynSchemaWF (S : Schema) : Bool :=
  S.types.all (fun t =>
    (!isBuiltin t.name || (decide (t.kind = .scalar) && t.values.isEmpty)) &&
    (!decide (t.kind = .scalar) || isBuiltin t.name || customShapes.contains t.values))

theorem dynSchemaOK_of_wf (S : Schema) (h : dynSchemaWF S = true) : DynSchemaOK S := by
  simp only [dynSchemaWF, List.all_eq_true, Bool.and_eq_true, Bool.or_eq_true] at h
  constructor
  · intro b t hb ht
    have hm : t ∈ S.types := List.mem_of_find?_eq_some ht
    have hn := find_name S b t ht
    rcases (h t hm).1 with h1 | h1
    · rw [hn, hb] at h1; simp at h1
    · simpa using h1
  · intro n t ht hk hb
    have hm : t ∈ S.types := List.mem_of_find?_eq_some ht
    have hn := find_name S n t ht
    rcases (h t hm).2 with (h1 | h1) | h1
    · simp [hk] at h1
    · rw [hn, hb] at h1; simp at h1
    · simpa [customShapes] using h1

/-- one base type per field name; every field type is registered -/
def fieldsWF (S : Schema) : Bool :=
  S.types.all (fun t => t.fields.all (fun fd =>
    decide (fieldBase S fd.name = some fd.ty.base) && (S.find? fd.ty.base).isSome))

theorem field_mem (S : Schema) (rt f : String) (fd : FieldDef) (h : S.field? rt f = some fd) :
    ∃ t ∈ S.types, fd ∈ t.fields ∧ fd.name = f := by
  unfold Schema.field? at h
  cases hrt : S.find? rt with
  | none => simp [hrt] at h
  | some t =>
    simp only [hrt] at h
    exact ⟨t, List.mem_of_find?_eq_some hrt, List.mem_of_find?_eq_some h, by simpa using List.find?_some h⟩

theorem fields_of_wf (S : Schema) (h : fieldsWF S = true) :
    (∀ rt f fd, S.field? rt f = some fd → fieldBase S f = some fd.ty.base) ∧
    (∀ rt f fd, S.field? rt f = some fd → (S.find? fd.ty.base).isSome = true) := by
  simp only [fieldsWF, List.all_eq_true, Bool.and_eq_true, decide_eq_true_eq] at h
  refine ⟨?_, ?_⟩
  · intro rt f fd hfd
    obtain ⟨t, ht, hm, hn⟩ := field_mem S rt f fd hfd
    rw [← hn]; exact (h t ht fd hm).1
  · intro rt f fd hfd
    obtain ⟨t, ht, hm, _⟩ := field_mem S rt f fd hfd
    exact (h t ht fd hm).2

def isArg : RVal → Bool
  | .arg _ => true
  | _ => false

def isFail : RVal → Bool
  | .fail _ => true
  | _ => false

/-- no world entry echoes an argument; an entry that is not a resolver failure fits (`rvOK`) every
    field of its name -/
def worldOK (S : Schema) (w : World) : Bool :=
  w.entries.all (fun e => !isArg e.2 &&
    (isFail e.2 || S.types.all (fun t => t.fields.all (fun fd => !decide (fd.name = e.1.2) || rvOK S fd.ty e.2))))

theorem rvOK_null (S : Schema) : ∀ t : TypeRef, rvOK S t .null = true := by
  intro t
  induction t with
  | named n => simp [rvOK, objOK]
  | list t _ => simp [rvOK]
  | nonNull t ih => simpa [rvOK] using ih

theorem world_of_ok (c : Model.ExecDynamic.Ctx) (h : worldOK c.S c.w = true) :
    (∀ rt id fd occ, c.S.field? rt occ.name = some fd → (∀ m, fieldRVal c id fd occ ≠ .fail m) →
      rvOK c.S fd.ty (fieldRVal c id fd occ) = true) ∧
    (∀ rt id fd occ a, c.S.field? rt occ.name = some fd → c.w.get id occ.name = .arg a →
      argValue { S := c.S, d := c.d, vars := c.vars, w := c.w } fd occ a = .null ∨
      normLeaf c.S fd.ty.base (argValue { S := c.S, d := c.d, vars := c.vars, w := c.w } fd occ a) =
        .leaf (argValue { S := c.S, d := c.d, vars := c.vars, w := c.w } fd occ a)) := by
  simp only [worldOK, List.all_eq_true, Bool.and_eq_true, Bool.or_eq_true, Bool.not_eq_true'] at h
  have key : ∀ id f, (c.w.get id f = .null) ∨ ∃ e ∈ c.w.entries, e.1.2 = f ∧ e.2 = c.w.get id f := by
    intro id f
    unfold World.get
    cases hfind : c.w.entries.find? (fun e => e.1.1 = id && e.1.2 = f) with
    | none => left; rfl
    | some e =>
      right
      refine ⟨e, List.mem_of_find?_eq_some hfind, ?_, rfl⟩
      have := List.find?_some hfind
      simp only [Bool.and_eq_true, decide_eq_true_eq] at this
      exact this.2
  refine ⟨?_, ?_⟩
  · intro rt id fd occ hfd hnf
    obtain ⟨t, ht, hm, hn⟩ := field_mem c.S rt occ.name fd hfd
    rcases key id occ.name with h0 | ⟨e, he, hen, hev⟩
    · have : fieldRVal c id fd occ = .null := by simp [fieldRVal, h0]
      rw [this]; exact rvOK_null c.S fd.ty
    · obtain ⟨hna, hrest⟩ := h e he
      have hfr : fieldRVal c id fd occ = e.2 := by
        unfold fieldRVal
        rw [← hev]
        cases he2 : e.2 with
        | arg a => rw [he2] at hna; simp [isArg] at hna
        | _ => rfl
      rw [hfr] at hnf ⊢
      rcases hrest with hf | hall
      · cases he2 : e.2 <;> simp_all [isFail]
      · rcases hall t ht fd hm with h1 | h1
        · simp [hn, hen] at h1
        · exact h1
  · intro rt id fd occ a _ hw
    exfalso
    rcases key id occ.name with h0 | ⟨e, he, _, hev⟩
    · rw [h0] at hw; cases hw
    · have := (h e he).1
      rw [hev, hw] at this
      simp [isArg] at this


-- ------------------------------------------------------------------ validity for repeated response keys (Lemmas/ExecDynamicMerge.lean)

/-- like `noRepeatedKeys`, but a response key may repeat when all its occurrences name the same field
    with the same arguments (FieldsInSetCanMerge, per runtime type; "same arguments" = `argsSame`, the
    structural equality of Lemmas/ExecStaticData.lean — the derived `==` on `DValue` is opaque to the
    kernel, a hypothesis `o'.args == o.args` would say nothing); the sub-selections are then checked
    merged.  The model's `merge` is given four units of fuel per selection level (an object level plus
    up to three list levels), hence `listDepth ≤ 3` for repeated keys. -/
def mergeableKeys (c : Model.ExecDynamic.Ctx) : Nat → String → List Sel → Bool
  | 0, _, _ => true
  | fuel + 1, rt, sels =>
    decide (spreads c.d (fuel + 1) sels).Nodup && fieldsExist c rt (fuel + 1) sels &&
    (AGV.Spec.Exec.group (Model.ExecDynamic.collect c rt (fuel + 1) sels)).all (fun g =>
      match g.2 with
      | [] => true
      | o :: rest =>
        rest.all (fun o' => o'.name = o.name && argsSame o'.args o.args) &&
        (o.name = "__typename" ||
          match c.S.field? rt o.name with
          | none => false
          | some fd =>
            (rest.isEmpty || decide (listDepth fd.ty ≤ 3)) &&
            (c.S.possibleTypes fd.ty.base).all (fun ty =>
              mergeableKeys c fuel ty (g.2.map (·.sels)).flatten)))

-- ------------------------------------------------------------------ a non-trivial instance of the hypotheses

namespace Ex
def p0 : Pos := ⟨1, 1⟩

def tQuery : TypeDef := { name := "Query", kind := .object, fields := [
  { name := "obj", ty := .named "O", args := [] }, { name := "node", ty := .named "I", args := [] },
  { name := "items", ty := .list (.nonNull (.named "O")), args := [] },
  { name := "e", ty := .named "E", args := [] }, { name := "ev", ty := .named "Even", args := [] },
  { name := "tok", ty := .nonNull (.named "Tok"), args := [] },
  { name := "grid", ty := .list (.list (.named "Int")), args := [] }] }

/-- interface, union, enum, two custom scalars with validators, a nested list -/
def S1 : Schema := { query := "Query", types := [
  tQuery,
  { name := "I", kind := .interface, fields := [{ name := "name", ty := .named "String", args := [] }] },
  { name := "O", kind := .object, implements := ["I"], fields := [
      { name := "name", ty := .named "String", args := [] }, { name := "a", ty := .named "Int", args := [] },
      { name := "nn", ty := .nonNull (.named "Int"), args := [] }] },
  { name := "P", kind := .object, implements := ["I"], fields := [{ name := "name", ty := .named "String", args := [] }] },
  { name := "U", kind := .union, members := ["O", "P"] },
  { name := "E", kind := .enum, values := ["X", "Y"] },
  { name := "Even", kind := .scalar, values := ["Int", "even"] },
  { name := "Tok", kind := .scalar, values := ["String", "nonempty"] },
  { name := "Int", kind := .scalar }, { name := "String", kind := .scalar }, { name := "Boolean", kind := .scalar }] }

/-- a `Value::Null` in a non-null position (object 1), a failing resolver (object 3), an enum item
    named by a string, a value the custom validator rejects, a `Value::Null` inside a nested list -/
def w1 : World := { entries := [
  ((0, "obj"), .obj "O" 1), ((0, "node"), .obj "P" 2), ((0, "items"), .list [.obj "O" 3, .obj "O" 3]),
  ((0, "e"), .leaf (.str "X")), ((0, "ev"), .leaf (.int 3)), ((0, "tok"), .leaf (.str "t")),
  ((0, "grid"), .list [.list [.leaf (.int 1), .leaf .null], .null]),
  ((1, "name"), .leaf (.str "x")), ((1, "a"), .leaf (.int 5)), ((1, "nn"), .leaf .null),
  ((2, "name"), .leaf (.str "p")), ((3, "a"), .fail "boom"), ((3, "nn"), .leaf (.int 7))] }

def dirOn : Dir := { name := "include", args := [("if", .bool true)] }
def dirOff : Dir := { name := "skip", args := [("if", .bool false)] }
def fragF : FragDef := { name := "F", cond := "I", dirs := [], sels := [
  Sel.field none "name" [] [] [] p0, Sel.inline none [dirOff] [Sel.field none "a" [] [] [] p0] p0] }
/-- `{ obj { ...F ... on U { nn } } node { __typename ... on P { nm: name } ... on O { a } }
       items { a @include(if: true) nn } e ev tok grid }` -/
def op1 : OpDef := { ty := .query, name := none, vars := [], dirs := [], sels := [
  Sel.field none "obj" [] [] [Sel.spread "F" [] p0, Sel.inline (some "U") [] [Sel.field none "nn" [] [] [] p0] p0] p0,
  Sel.field none "node" [] [] [Sel.field none "__typename" [] [] [] p0,
    Sel.inline (some "P") [] [Sel.field (some "nm") "name" [] [] [] p0] p0,
    Sel.inline (some "O") [] [Sel.field none "a" [] [] [] p0] p0] p0,
  Sel.field none "items" [] [] [Sel.field none "a" [] [dirOn] [] p0, Sel.field none "nn" [] [] [] p0] p0,
  Sel.field none "e" [] [] [] p0, Sel.field none "ev" [] [] [] p0, Sel.field none "tok" [] [] [] p0,
  Sel.field none "grid" [] [] [] p0] }
def doc1 : Doc := { ops := [op1], frags := [fragF] }

theorem runHyps : ∀ op, AGV.Spec.Exec.selectOp doc1 none = some op → RunHyps S1 doc1 op [] w1 10 := by
  intro op hop
  have : op = op1 := by simpa [AGV.Spec.Exec.selectOp, doc1] using hop.symm
  subst this
  have hf := fields_of_wf S1 (by decide)
  have hw := world_of_ok (runCtx S1 doc1 op1 [] w1) (by decide)
  exact {
    root := ⟨tQuery, rfl, rfl⟩
    data := {
      noDefect := rfl
      schema := schemaOK_of_wf _ (by decide)
      dyn := dynSchemaOK_of_wf _ (by decide)
      frags := by decide
      family := hf.1
      registered := hf.2
      typed := hw.1
      args := hw.2 }
    opInert := by decide
    keys := by decide }

example : (run Defects.none S1 doc1 none [] w1 10).val = some (.obj [("obj", .null),
    ("node", .obj [("__typename", .str "P"), ("nm", .str "p")]),
    ("items", .list [.obj [("a", .null), ("nn", .int 7)], .obj [("a", .null), ("nn", .int 7)]]),
    ("e", .str "X"), ("ev", .null), ("tok", .str "t"),
    ("grid", .list [.list [.int 1, .null], .null])]) := by rfl
end Ex

end AGV.Lemmas.ExecDynamicData
