/-
  Token-level refinement lemmas for property C13: the grammar's `name` rule, implicit skipping
  (`WHITESPACE`/`COMMENT`), punctuators and keyword literals, run by the pest interpreter, against
  the specification's lexer (`Spec/Lex.lean`).
-/
import AGV.Lemmas.PegC13X
import AGV.Spec.Parse
set_option linter.unusedSimpArgs false
namespace AGV.Lemmas.PegX
open AGV.Model.Peg AGV.Lemmas.PegMono AGV.Spec.Lex AGV.Spec.Literal

-- ------------------------------------------------------------------ repetition over a character class

theorem takeWhile_len_add (pred : Char → Bool) (s : List Char) :
    (s.takeWhile pred).length + (s.dropWhile pred).length = s.length := by
  induction s with
  | nil => rfl
  | cons a r ih => simp only [List.takeWhile_cons, List.dropWhile_cons]; split <;> simp <;> omega

theorem EvR.tail_cls {g c a pred Na} (hc : c.atom ≠ .non)
    (ha : ∀ p s, EvR g c a p s Na (clsRes pred p s)) :
    ∀ s p, EvR g c (.repTail a) p s (s.length + Na + 1)
      (.ok (p + (s.takeWhile pred).length) (s.dropWhile pred) []) := by
  intro s
  induction s with
  | nil =>
    intro p
    exact (EvR.tail_tight_fail hc ((ha p []).cast rfl) (by simp)).cast (by simp)
  | cons ch r ih =>
    intro p
    by_cases hp : pred ch = true
    · have h1 : EvR g c a p (ch :: r) Na (.ok (p + 1) r []) := (ha p _).cast (by simp [clsRes, hp])
      refine (EvR.tail_tight_ok hc h1 (ih (p + 1)) (by simp; omega) (by simp)).cast ?_
      simp [hp]; omega
    · have h1 : EvR g c a p (ch :: r) Na .fail := (ha p _).cast (by simp [clsRes, hp])
      exact (EvR.tail_tight_fail hc h1 (by simp; omega)).cast (by simp [hp])

theorem EvR.rep_cls {g c a pred Na} (hc : c.atom ≠ .non)
    (ha : ∀ p s, EvR g c a p s Na (clsRes pred p s)) (s : List Char) (p : Nat) :
    EvR g c (.rep a) p s (s.length + Na + 2)
      (.ok (p + (s.takeWhile pred).length) (s.dropWhile pred) []) := by
  cases s with
  | nil => exact (EvR.rep_fail ((ha p []).cast rfl) (by simp)).cast (by simp)
  | cons ch r =>
    by_cases hp : pred ch = true
    · have h1 : EvR g c a p (ch :: r) Na (.ok (p + 1) r []) := (ha p _).cast (by simp [clsRes, hp])
      refine (EvR.rep_ok h1 (EvR.tail_cls hc ha r (p + 1)) (by simp; omega) (by simp; omega)).cast ?_
      simp [hp]; omega
    · have h1 : EvR g c a p (ch :: r) Na .fail := (ha p _).cast (by simp [clsRes, hp])
      exact (EvR.rep_fail h1 (by simp; omega)).cast (by simp [hp])

/-- a choice of two character classes is a character class -/
theorem EvR.choice_cls {g c a b pa pb Na Nb K} (ha : ∀ p s, EvR g c a p s Na (clsRes pa p s))
    (hb : ∀ p s, EvR g c b p s Nb (clsRes pb p s)) (hN : Na < K) (hM : Nb < K) (p : Nat) (s : List Char) :
    EvR g c (.choice a b) p s K (clsRes (fun ch => pa ch || pb ch) p s) := by
  cases s with
  | nil => exact EvR.choice_r ((ha p []).cast rfl) ((hb p []).cast rfl) hN hM
  | cons ch r =>
    by_cases h : pa ch = true
    · have h1 : EvR g c a p (ch :: r) Na (.ok (p + 1) r []) := (ha p _).cast (by simp [clsRes, h])
      exact (EvR.choice_l h1 hN).cast (by simp [clsRes, h])
    · have h1 : EvR g c a p (ch :: r) Na .fail := (ha p _).cast (by simp [clsRes, h])
      refine (EvR.choice_r h1 (hb p _) hN hM).cast ?_
      simp [clsRes, h]

/-- a one-character literal is a character class -/
theorem EvR.str1_cls (g c) (x : Char) (p : Nat) (s : List Char) :
    EvR g c (.str [x]) p s 1 (clsRes (fun ch => ch = x) p s) := by
  refine (EvR.str g c [x] p s).cast ?_
  cases s with
  | nil => rfl
  | cons ch r =>
    simp only [strRes, matchStr, clsRes]
    by_cases h : x = ch
    · subst h; simp
    · have : ¬ ch = x := fun e => h e.symm
      simp [h, this]

theorem ev_alphaR (g c p s) : EvR g c (.ident "ASCII_ALPHA") p s 1 (clsRes isAsciiAlpha p s) :=
  EvR.cls (by decide) (by decide) (by rfl)
theorem ev_digitR (g c p s) : EvR g c (.ident "ASCII_DIGIT") p s 1 (clsRes isAsciiDigit p s) :=
  EvR.cls (by decide) (by decide) (by rfl)
theorem ev_anyR (g c p s) : EvR g c (.ident "ANY") p s 1 (clsRes (fun _ => true) p s) :=
  EvR.cls (by decide) (by decide) (by rfl)

-- ------------------------------------------------------------------ `name`

/-- the rules the token lemmas read from the grammar -/
structure TokRules (g : Grammar) : Prop where
  nameStart : findRule g "name_start" = some AGV.Gen.Grammar.r_name_start
  name : findRule g "name" = some AGV.Gen.Grammar.r_name
  ws : findRule g "WHITESPACE" = some AGV.Gen.Grammar.r_WHITESPACE
  comment : findRule g "COMMENT" = some AGV.Gen.Grammar.r_COMMENT
  lt : findRule g "line_terminator" = some AGV.Gen.Grammar.r_line_terminator

def pestNameStart (ch : Char) : Bool := isAsciiAlpha ch || ch = '_'
def pestNameCont (ch : Char) : Bool := isAsciiAlpha ch || (isAsciiDigit ch || ch = '_')

theorem pestNameStart_eq (ch : Char) : pestNameStart ch = nameStart ch := rfl
theorem pestNameCont_eq (ch : Char) : pestNameCont ch = nameChar ch := by
  simp only [pestNameCont, nameChar, nameStart, isAlpha, isAsciiAlpha, isAsciiDigit, AGV.Digits.isDigit]
  cases (65 ≤ ch.toNat && ch.toNat ≤ 90 || 97 ≤ ch.toNat && ch.toNat ≤ 122) <;>
    cases (48 ≤ ch.toNat && ch.toNat ≤ 57) <;> cases (decide (ch = '_')) <;> rfl

theorem ev_nameStartBody (g c p s) :
    EvR g c AGV.Gen.Grammar.r_name_start.expr p s 2 (clsRes pestNameStart p s) :=
  EvR.choice_cls (ev_alphaR g c) (EvR.str1_cls g c '_') (by omega) (by omega) p s

/-- `name_start` where it emits no pair (inside an atomic rule or a lookahead) -/
theorem ev_nameStartR {g : Grammar} (G : TokRules g) (c : Ctx) (hq : emits c = false) (p s) :
    EvR g c (.ident "name_start") p s 3 (clsRes pestNameStart p s) := by
  refine (EvR.rule (by decide) (by decide) (by rfl) G.nameStart (ev_nameStartBody g _ p s)
    (Nat.lt_succ_self 2)).cast ?_
  cases s with
  | nil => rfl
  | cons ch r =>
    simp only [clsRes]
    split
    · simp [wrapRule, hq, AGV.Gen.Grammar.r_name_start]
    · rfl

def nameRes (c : Ctx) (p : Nat) (s : List Char) : Res :=
  match s with
  | ch :: r =>
    if pestNameStart ch then
      .ok (p + 1 + (r.takeWhile pestNameCont).length) (r.dropWhile pestNameCont)
        (if emits c then [Pair.mk "name" p (p + 1 + (r.takeWhile pestNameCont).length) []] else [])
    else .fail
  | [] => .fail

theorem ev_nameCont (g c) (p s) :
    EvR g c (.choice (.ident "ASCII_ALPHA") (.choice (.ident "ASCII_DIGIT") (.str ['_']))) p s 3
      (clsRes pestNameCont p s) :=
  EvR.choice_cls (ev_alphaR g c)
    (fun p s => EvR.choice_cls (ev_digitR g c) (EvR.str1_cls g c '_') (Nat.lt_succ_self 1) (Nat.lt_succ_self 1) p s)
    (by omega) (by omega) p s

/-- the `name` rule: NameStart NameContinue* (longest), one pair without inner pairs where pairs
    are emitted -/
theorem ev_nameR {g : Grammar} (G : TokRules g) (c : Ctx) (p : Nat) (s : List Char) :
    EvR g c (.ident "name") p s (s.length + 8) (nameRes c p s) := by
  have hca : (bodyCtx c AGV.Gen.Grammar.r_name).atom = .atomic := rfl
  have hq : emits (bodyCtx c AGV.Gen.Grammar.r_name) = false := by simp [emits, hca]; intro _; decide
  have hcn : (bodyCtx c AGV.Gen.Grammar.r_name).atom ≠ .non := by rw [hca]; decide
  cases s with
  | nil =>
    have h1 := ev_nameStartR G _ hq p []
    have hb : EvR g (bodyCtx c AGV.Gen.Grammar.r_name) AGV.Gen.Grammar.r_name.expr p [] 4 .fail :=
      EvR.seq_fail (h1.cast rfl) (by omega)
    exact (EvR.rule (by decide) (by decide) (by rfl) G.name hb (by simp)).cast rfl
  | cons ch r =>
    by_cases h : pestNameStart ch = true
    · have h1 : EvR g (bodyCtx c AGV.Gen.Grammar.r_name) (.ident "name_start") p (ch :: r) 3 (.ok (p + 1) r []) :=
        (ev_nameStartR G _ hq p _).cast (by simp [clsRes, h])
      have h2 := EvR.rep_cls hcn (ev_nameCont g _) r (p + 1)
      have hb : EvR g (bodyCtx c AGV.Gen.Grammar.r_name) AGV.Gen.Grammar.r_name.expr p (ch :: r)
          ((ch :: r).length + 7) _ := EvR.seq_tight hcn h1 h2 (by simp) (by simp)
      refine (EvR.rule (by decide) (by decide) (by rfl) G.name hb (by simp)).cast ?_
      simp only [prepend_ok, wrapRule, nameRes, h, if_true, AGV.Gen.Grammar.r_name, List.append_nil]
      have hs : (RuleTy.atomic = RuleTy.silent) = False := by decide
      simp only [hs, if_false]
      cases emits c <;> rfl
    · have h1 : EvR g (bodyCtx c AGV.Gen.Grammar.r_name) (.ident "name_start") p (ch :: r) 3 .fail :=
        (ev_nameStartR G _ hq p _).cast (by simp [clsRes, h])
      have hb : EvR g (bodyCtx c AGV.Gen.Grammar.r_name) AGV.Gen.Grammar.r_name.expr p (ch :: r) 4 .fail :=
        EvR.seq_fail h1 (by omega)
      exact (EvR.rule (by decide) (by decide) (by rfl) G.name hb (by simp)).cast (by simp [wrapRule, nameRes, h])

/-- against the specification's lexer: at a NameStart character the rule consumes exactly the
    characters of the Name token `lexToken` reads and leaves the same rest -/
theorem nameOf_eq (r : List Char) :
    (nameOf r).1 = r.takeWhile pestNameCont ∧ (nameOf r).2 = r.dropWhile pestNameCont := by
  induction r with
  | nil => exact ⟨rfl, rfl⟩
  | cons ch r ih =>
    simp only [nameOf, List.takeWhile_cons, List.dropWhile_cons, pestNameCont_eq]
    split <;> simp [ih.1, ih.2]
