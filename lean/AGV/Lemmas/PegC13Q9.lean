/-
  Property C13, token level, specification side: `pDefinition` by the shape of the first tokens.
-/
import AGV.Lemmas.PegC13Q8
namespace AGV.Lemmas.PegX
open AGV.Model.Peg AGV.Model.BuildAst AGV.Spec.Lex AGV.Spec.Parse AGV.Core.PAst AGV.Lemmas.PegC13 AGV.Lemmas.SpecVal

/-- `VariableDefinitions? Directives? SelectionSet` of an operation -/
def pOpTail (ty : OpType) (nm : Option Name) (r1 : List Tok) : Outc PDef :=
  obind (pOptVars r1) (fun vs r3 =>
    obind (pDirs P' false r3) (fun ds r4 =>
      omap (fun ss => PDef.op nm ⟨ty, vs, ds, ss⟩) (pSelectionSet P' r4)))

/-- `Directives? SelectionSet` of a fragment definition -/
def pFragTail (n t : Name) (r1 : List Tok) : Outc PDef :=
  obind (pDirs P' false r1) (fun ds r2 => omap (fun ss => PDef.frag n ⟨t, ds, ss⟩) (pSelectionSet P' r2))

theorem optVars_eq (r1 : List Tok) :
    (match r1 with
     | .punct '(' :: r2 => pVarDefs P' (r2.length + 1) r2
     | _ => some ([], r1)) = pOptVars r1 := by
  by_cases h : ∃ r2, r1 = .punct '(' :: r2
  · obtain ⟨r2, rfl⟩ := h; rfl
  · have e2 : pOptVars r1 = some ([], r1) := by
      unfold pOptVars
      split
      · rename_i r2; exact absurd ⟨r2, rfl⟩ h
      · rfl
    rw [e2]
    split
    · rename_i r2; exact absurd ⟨r2, rfl⟩ h
    · rfl

theorem pOpTail_eq (ty : OpType) (nm : Option Name) (r1 : List Tok) :
    (match (match r1 with
            | .punct '(' :: r2 => pVarDefs P' (r2.length + 1) r2
            | _ => some ([], r1)) with
     | some (vs, r3) =>
       (match pDirs P' false r3 with
        | some (ds, r4) => (pSelectionSet P' r4).map (fun x => (PDef.op nm ⟨ty, vs, ds, x.1⟩, x.2))
        | none => none)
     | none => none) = pOpTail ty nm r1 := by
  unfold pOpTail
  rw [optVars_eq]
  cases pOptVars r1 with
  | none => rfl
  | some x =>
    obtain ⟨vs, r3⟩ := x
    simp only [obind]
    cases pDirs P' false r3 with
    | none => rfl
    | some y => rfl

theorem pDef_brace (r : List Tok) :
    pDefinition P' (.punct '{' :: r) =
      omap (fun ss => PDef.op none ⟨.query, [], [], ss⟩) (pSelectionSet P' (.punct '{' :: r)) := by
  unfold pDefinition
  rfl

theorem pDef_op_named (k n : Name) (ty : OpType) (r' : List Tok) (h1 : k ≠ kw "fragment")
    (h2 : AGV.Spec.Parse.opTypeOf k = some ty) :
    pDefinition P' (.name k :: .name n :: r') = pOpTail ty (some n) r' := by
  unfold pDefinition
  simp only [h1, if_false, h2]
  exact pOpTail_eq ty (some n) r'

theorem pDef_op_anon (k : Name) (ty : OpType) (r : List Tok) (h1 : k ≠ kw "fragment")
    (h2 : AGV.Spec.Parse.opTypeOf k = some ty) (hr : ∀ n r', r ≠ .name n :: r') :
    pDefinition P' (.name k :: r) = pOpTail ty none r := by
  unfold pDefinition
  simp only [h1, if_false, h2]
  rcases r with _ | ⟨t, r'⟩
  · exact pOpTail_eq ty none []
  · cases t with
    | name n => exact absurd rfl (hr n r')
    | punct c => exact pOpTail_eq ty none (.punct c :: r')
    | spread => exact pOpTail_eq ty none (.spread :: r')
    | int a b => exact pOpTail_eq ty none (.int a b :: r')
    | float a b c d e => exact pOpTail_eq ty none (.float a b c d e :: r')
    | str v => exact pOpTail_eq ty none (.str v :: r')

theorem pDef_notop (k : Name) (r : List Tok) (h1 : k ≠ kw "fragment") (h2 : AGV.Spec.Parse.opTypeOf k = none) :
    pDefinition P' (.name k :: r) = none := by
  unfold pDefinition
  simp only [h1, if_false, h2]

theorem pDef_frag (n t : Name) (r1 : List Tok) (hn : n ≠ kw "on") :
    pDefinition P' (.name (kw "fragment") :: .name n :: .name (kw "on") :: .name t :: r1) = pFragTail n t r1 := by
  unfold pDefinition pFragTail
  simp only [if_true, hn, decide_false, ne_eq, not_true_eq_false, Bool.or_self, Bool.false_eq_true, if_false]
  cases pDirs P' false r1 with
  | none => rfl
  | some y => rfl

theorem pDef_frag_on (o t : Name) (r1 : List Tok) :
    pDefinition P' (.name (kw "fragment") :: .name (kw "on") :: .name o :: .name t :: r1) = none := by
  unfold pDefinition
  simp

theorem pDef_frag_noon (n o t : Name) (r1 : List Tok) (ho : o ≠ kw "on") :
    pDefinition P' (.name (kw "fragment") :: .name n :: .name o :: .name t :: r1) = none := by
  unfold pDefinition
  simp [ho]

theorem pDef_frag_short (r : List Tok) (h : ∀ n o t r1, r ≠ .name n :: .name o :: .name t :: r1) :
    pDefinition P' (.name (kw "fragment") :: r) = none := by
  unfold pDefinition
  simp only [if_true]

theorem pDef_other (ts : List Tok) (h1 : ∀ r, ts ≠ .punct '{' :: r) (h2 : ∀ k r, ts ≠ .name k :: r) :
    pDefinition P' ts = none := by
  unfold pDefinition
  split
  · rename_i r; exact absurd rfl (h1 r)
  · rename_i k r; exact absurd rfl (h2 k r)
  · rfl
end AGV.Lemmas.PegX
