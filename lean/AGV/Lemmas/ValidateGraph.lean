/-
  C09 — the graph rules, part 1: a generic worklist reachability function with fuel (`gReach`), of
  which the reference validator's `closure`, the parser-side `fragReach` and the model's `reach`
  are instances; with enough fuel it computes exactly the nodes reachable from the start list.
  `mem_usedFrags`: the reference validator's `usedFrags` = the defined fragments reachable through
  spreads (fragment names unique).
-/
import AGV.Lemmas.ValidateSpreads
set_option linter.unusedSectionVars false
set_option linter.unusedSimpArgs false
namespace AGV.Lemmas.ValidateGraph

section generic
variable {α : Type} [BEq α] [LawfulBEq α]

/-- worklist search: `node n = none` — `n` is not a node (skipped, not recorded) -/
def gReach (node : α → Option (List α)) : Nat → List α → List α → List α
  | 0, _, seen => seen
  | _, [], seen => seen
  | fuel + 1, n :: todo, seen =>
    if seen.contains n then gReach node fuel todo seen
    else match node n with
      | some succ => gReach node fuel (succ ++ todo) (seen ++ [n])
      | none => gReach node fuel todo seen

/-- paths along the successor lists -/
inductive Path (node : α → Option (List α)) : α → α → Prop where
  | refl (a : α) : Path node a a
  | step (a b c : α) (l : List α) (h : node a = some l) (hb : b ∈ l) (p : Path node b c) : Path node a c

theorem Path.trans {node : α → Option (List α)} {a b c : α} (p : Path node a b) (q : Path node b c) : Path node a c := by
  induction p with
  | refl => exact q
  | step a b _ l h hb _ ih => exact .step a b _ l h hb (ih q)

theorem Path.isSome_start {node : α → Option (List α)} {a c : α} (p : Path node a c) (h : (node c).isSome = true) :
    (node a).isSome = true := by
  cases p with
  | refl => exact h
  | step _ b _ l h' => simp [h']

/-- soundness, for any fuel -/
theorem gReach_sound (node : α → Option (List α)) (fuel : Nat) (todo seen : List α) (x : α)
    (hx : x ∈ gReach node fuel todo seen) :
    x ∈ seen ∨ ∃ t ∈ todo, Path node t x ∧ (node x).isSome = true := by
  induction fuel generalizing todo seen with
  | zero => left; simpa [gReach] using hx
  | succ fuel ih =>
    cases todo with
    | nil => left; simpa [gReach] using hx
    | cons n todo =>
      rw [gReach] at hx
      split at hx
      · rcases ih _ _ hx with h | ⟨t, ht, hp⟩
        · exact Or.inl h
        · exact Or.inr ⟨t, List.mem_cons_of_mem _ ht, hp⟩
      · split at hx
        · rename_i l hl
          rcases ih _ _ hx with h | ⟨t, ht, hp, hs⟩
          · rcases List.mem_append.mp h with h | h
            · exact Or.inl h
            · simp only [List.mem_singleton] at h
              subst h
              exact Or.inr ⟨x, List.mem_cons_self, .refl x, by simp [hl]⟩
          · rcases List.mem_append.mp ht with ht | ht
            · exact Or.inr ⟨n, List.mem_cons_self, .step n t x l hl ht hp, hs⟩
            · exact Or.inr ⟨t, List.mem_cons_of_mem _ ht, hp, hs⟩
        · rcases ih _ _ hx with h | ⟨t, ht, hp⟩
          · exact Or.inl h
          · exact Or.inr ⟨t, List.mem_cons_of_mem _ ht, hp⟩

/-- the successors still to be expanded: the potential that bounds the number of steps -/
def weight (node : α → Option (List α)) (U : List α) (seen : List α) : Nat :=
  (U.map (fun u => if seen.contains u then 0 else ((node u).getD []).length)).sum

theorem term_le (seen : List α) (n u : α) (k : Nat) :
    (if (seen ++ [n]).contains u then 0 else k) ≤ (if seen.contains u then 0 else k) := by
  by_cases h : u ∈ seen
  · simp [h]
  · simp only [List.contains_eq_mem, h, decide_false, Bool.false_eq_true, if_false]
    split <;> omega

theorem weight_mono (node : α → Option (List α)) (U seen : List α) (n : α) :
    weight node U (seen ++ [n]) ≤ weight node U seen := by
  induction U with
  | nil => simp [weight]
  | cons u U ih =>
    simp only [weight, List.map_cons, List.sum_cons] at ih ⊢
    have := term_le seen n u ((node u).getD []).length
    omega

theorem weight_drop (node : α → Option (List α)) (U seen : List α) (n : α) (hU : n ∈ U) (hn : seen.contains n = false) :
    weight node U (seen ++ [n]) + ((node n).getD []).length ≤ weight node U seen := by
  induction U with
  | nil => cases hU
  | cons u U ih =>
    have hm := weight_mono node U seen n
    simp only [weight, List.map_cons, List.sum_cons] at ih hm ⊢
    by_cases hu : u = n
    · subst hu
      have h1 : (seen ++ [u]).contains u = true := by simp
      rw [if_pos h1, hn]
      simp only [Bool.false_eq_true, if_false]
      omega
    · have hU' : n ∈ U := by
        rcases List.mem_cons.mp hU with h | h
        · exact absurd h.symm hu
        · exact h
      have := ih hU'
      have hle := term_le seen n u ((node u).getD []).length
      omega

/-- every recorded node has its node-successors recorded or on the worklist -/
def Inv (node : α → Option (List α)) (seen todo : List α) : Prop :=
  ∀ x ∈ seen, ∀ l, node x = some l → ∀ y ∈ l, (node y).isSome = true → y ∈ seen ∨ y ∈ todo

/-- with enough fuel the result contains the start data and is closed under successors -/
theorem gReach_complete (node : α → Option (List α)) (U : List α)
    (hU : ∀ n l, node n = some l → l ≠ [] → n ∈ U)
    (fuel : Nat) (todo seen : List α) (hf : todo.length + weight node U seen ≤ fuel) (hI : Inv node seen todo) :
    (∀ x ∈ seen, x ∈ gReach node fuel todo seen)
    ∧ (∀ t ∈ todo, (node t).isSome = true → t ∈ gReach node fuel todo seen)
    ∧ (∀ x ∈ gReach node fuel todo seen, ∀ l, node x = some l → ∀ y ∈ l, (node y).isSome = true →
        y ∈ gReach node fuel todo seen) := by
  induction fuel generalizing todo seen with
  | zero =>
    have : todo = [] := by cases todo <;> simp_all
    subst this
    refine ⟨by simp [gReach], by simp, ?_⟩
    intro x hx l hl y hy hs
    simp only [gReach] at hx ⊢
    rcases hI x hx l hl y hy hs with h | h
    · exact h
    · cases h
  | succ fuel ih =>
    cases todo with
    | nil =>
      refine ⟨by simp [gReach], by simp, ?_⟩
      intro x hx l hl y hy hs
      simp only [gReach] at hx ⊢
      rcases hI x hx l hl y hy hs with h | h
      · exact h
      · cases h
    | cons n todo =>
      rw [gReach]
      split
      · rename_i hc
        have hn : n ∈ seen := by simpa using hc
        have hI' : Inv node seen todo := by
          intro x hx l hl y hy hs
          rcases hI x hx l hl y hy hs with h | h
          · exact Or.inl h
          · rcases List.mem_cons.mp h with h | h
            · exact Or.inl (h ▸ hn)
            · exact Or.inr h
        obtain ⟨h1, h2, h3⟩ := ih todo seen (by simp at hf; omega) hI'
        refine ⟨h1, ?_, h3⟩
        intro t ht hs
        rcases List.mem_cons.mp ht with h | h
        · exact h ▸ h1 n hn
        · exact h2 t h hs
      · rename_i hc
        have hc' : seen.contains n = false := by simpa using hc
        split
        · rename_i l hl
          have hw : weight node U (seen ++ [n]) + l.length ≤ weight node U seen := by
            by_cases hl0 : l = []
            · subst hl0; simpa using weight_mono node U seen n
            · have := weight_drop node U seen n (hU n l hl hl0) hc'
              simpa [hl] using this
          have hI' : Inv node (seen ++ [n]) (l ++ todo) := by
            intro x hx l' hl' y hy hs
            rcases List.mem_append.mp hx with hx | hx
            · rcases hI x hx l' hl' y hy hs with h | h
              · exact Or.inl (List.mem_append_left _ h)
              · rcases List.mem_cons.mp h with h | h
                · exact Or.inl (by simp [h])
                · exact Or.inr (List.mem_append_right _ h)
            · simp only [List.mem_singleton] at hx
              subst hx
              rw [hl] at hl'
              cases hl'
              exact Or.inr (List.mem_append_left _ hy)
          obtain ⟨h1, h2, h3⟩ := ih (l ++ todo) (seen ++ [n]) (by simp at hf ⊢; omega) hI'
          refine ⟨fun x hx => h1 x (List.mem_append_left _ hx), ?_, h3⟩
          intro t ht hs
          rcases List.mem_cons.mp ht with h | h
          · exact h ▸ h1 n (by simp)
          · exact h2 t (List.mem_append_right _ h) hs
        · rename_i hnone
          have hI' : Inv node seen todo := by
            intro x hx l hl y hy hs
            rcases hI x hx l hl y hy hs with h | h
            · exact Or.inl h
            · rcases List.mem_cons.mp h with h | h
              · subst h; simp [hnone] at hs
              · exact Or.inr h
          obtain ⟨h1, h2, h3⟩ := ih todo seen (by simp at hf; omega) hI'
          refine ⟨h1, ?_, h3⟩
          intro t ht hs
          rcases List.mem_cons.mp ht with h | h
          · subst h; simp [hnone] at hs
          · exact h2 t h hs

/-- with enough fuel, from an empty record: exactly the nodes reachable from the start list -/
theorem gReach_iff (node : α → Option (List α)) (U : List α)
    (hU : ∀ n l, node n = some l → l ≠ [] → n ∈ U)
    (fuel : Nat) (todo : List α) (hf : todo.length + weight node U [] ≤ fuel) (x : α) :
    x ∈ gReach node fuel todo [] ↔ ∃ t ∈ todo, Path node t x ∧ (node x).isSome = true := by
  constructor
  · intro hx
    rcases gReach_sound node fuel todo [] x hx with h | h
    · cases h
    · exact h
  · rintro ⟨t, ht, hp, hs⟩
    obtain ⟨_, h2, h3⟩ := gReach_complete node U hU fuel todo [] hf (by intro x hx; cases hx)
    have ht' := h2 t ht (hp.isSome_start hs)
    clear ht
    induction hp with
    | refl => exact ht'
    | step a b c l h hb p ih =>
      exact ih hs (h3 a ht' l h b hb (p.isSome_start hs))

end generic
end AGV.Lemmas.ValidateGraph

namespace AGV.Lemmas.ValidateGraph
open AGV.Core AGV.Model.Validate

-- ------------------------------------------------------------------ small facts

mutual
theorem spreadsOf_eq : (s : Sel) → Model.Validate.spreadsOf s = Spec.Validate.spreadsOf s
  | .field _ _ _ _ ss _ => by simp [Model.Validate.spreadsOf, Spec.Validate.spreadsOf, spreadsOfL_eq ss]
  | .spread _ _ _ => by simp [Model.Validate.spreadsOf, Spec.Validate.spreadsOf]
  | .inline _ _ ss _ => by simp [Model.Validate.spreadsOf, Spec.Validate.spreadsOf, spreadsOfL_eq ss]
theorem spreadsOfL_eq : (ss : List Sel) → Model.Validate.spreadsOfL ss = Spec.Validate.spreadsOfL ss
  | [] => by simp [Model.Validate.spreadsOfL, Spec.Validate.spreadsOfL]
  | s :: ss => by simp [Model.Validate.spreadsOfL, Spec.Validate.spreadsOfL, spreadsOf_eq s, spreadsOfL_eq ss]
end

mutual
theorem spreadsOf_le : (s : Sel) → (Spec.Validate.spreadsOf s).length ≤ Spec.Validate.selSize s
  | .field _ _ _ _ ss _ => by have := spreadsOfL_le ss; simp [Spec.Validate.spreadsOf, Spec.Validate.selSize]; omega
  | .spread _ _ _ => by simp [Spec.Validate.spreadsOf, Spec.Validate.selSize]
  | .inline _ _ ss _ => by have := spreadsOfL_le ss; simp [Spec.Validate.spreadsOf, Spec.Validate.selSize]; omega
theorem spreadsOfL_le : (ss : List Sel) → (Spec.Validate.spreadsOfL ss).length ≤ Spec.Validate.selsSize ss
  | [] => by simp [Spec.Validate.spreadsOfL, Spec.Validate.selsSize]
  | s :: ss => by
    have := spreadsOf_le s; have := spreadsOfL_le ss
    simp [Spec.Validate.spreadsOfL, Spec.Validate.selsSize]; omega
end

theorem hasDup_false_iff (l : List String) : Spec.Validate.hasDup l = false ↔ l.Nodup := by
  induction l with
  | nil => simp [Spec.Validate.hasDup]
  | cons x xs ih => simp [Spec.Validate.hasDup, ih]

theorem foldl_add {α} (g : α → Nat) (l : List α) (n : Nat) :
    l.foldl (fun n x => n + g x + 1) n = n + (l.map (fun x => g x + 1)).sum := by
  induction l generalizing n with
  | nil => simp
  | cons x xs ih => simp [List.foldl_cons, ih]; omega

theorem docFuel_eq (d : Doc) :
    Spec.Validate.docFuel d = 2 + (d.frags.map (fun f => Spec.Validate.selsSize f.sels + 1)).sum
      + (d.ops.map (fun o => Spec.Validate.selsSize o.sels + 1)).sum := by
  simp [Spec.Validate.docFuel, foldl_add]

theorem sum_le_of_mem {α} (g h : α → Nat) (l : List α) (hle : ∀ x ∈ l, g x ≤ h x) : (l.map g).sum ≤ (l.map h).sum := by
  induction l with
  | nil => simp
  | cons x xs ih =>
    have := hle x (by simp)
    have := ih (fun y hy => hle y (by simp [hy]))
    simp; omega

theorem le_sum_of_mem {α} (g : α → Nat) (l : List α) (x : α) (hx : x ∈ l) : g x ≤ (l.map g).sum := by
  induction l with
  | nil => cases hx
  | cons y ys ih =>
    rcases List.mem_cons.mp hx with h | h
    · subst h; simp
    · have := ih h; simp; omega

-- ------------------------------------------------------------------ the reference validator's closure

/-- the fragment graph: a defined fragment with the names it spreads -/
def nodeS (d : Doc) (n : String) : Option (List String) :=
  (d.frags.find? (·.name = n)).map (fun f => Spec.Validate.spreadsOfL f.sels)

theorem closure_eq (d : Doc) (fuel : Nat) (todo seen : List String) :
    Spec.Validate.closure d fuel todo seen = gReach (nodeS d) fuel todo seen := by
  induction fuel generalizing todo seen with
  | zero => cases todo <;> simp [Spec.Validate.closure, gReach]
  | succ fuel ih =>
    cases todo with
    | nil => simp [Spec.Validate.closure, gReach]
    | cons n todo =>
      rw [Spec.Validate.closure, gReach]
      split
      · exact ih _ _
      · cases h : d.frags.find? (·.name = n) with
        | none => simp [nodeS, h, ih]
        | some f => simp [nodeS, h, ih]

theorem fragReach_eq (d : Doc) (fuel : Nat) (todo seen : List String) :
    Model.Validate.fragReach d fuel todo seen = Spec.Validate.closure d fuel todo seen := by
  induction fuel generalizing todo seen with
  | zero => cases todo <;> simp [Model.Validate.fragReach, Spec.Validate.closure]
  | succ fuel ih =>
    cases todo with
    | nil => simp [Model.Validate.fragReach, Spec.Validate.closure]
    | cons n todo =>
      rw [Model.Validate.fragReach, Spec.Validate.closure]
      split
      · exact ih _ _
      · simp only [Doc.frag?]
        cases h : d.frags.find? (·.name = n) with
        | none => simp [ih]
        | some f => simp [ih, spreadsOfL_eq]

/-- fragment names are not repeated -/
def FragsNodup (d : Doc) : Prop := (d.frags.map (·.name)).Nodup

theorem find_of_nodup (l : List FragDef) (hn : (l.map (·.name)).Nodup) (f : FragDef) (hf : f ∈ l) :
    l.find? (·.name = f.name) = some f := by
  induction l with
  | nil => cases hf
  | cons g gs ih =>
    simp only [List.map_cons, List.nodup_cons] at hn
    rcases List.mem_cons.mp hf with h | h
    · subst h; simp
    · have hne : g.name ≠ f.name := by
        intro he; exact hn.1 (he ▸ List.mem_map_of_mem h)
      simp [List.find?_cons, hne, ih hn.2 h]

theorem find_frag (d : Doc) (hn : FragsNodup d) (f : FragDef) (hf : f ∈ d.frags) :
    d.frags.find? (·.name = f.name) = some f := find_of_nodup d.frags hn f hf

theorem nodeS_frag (d : Doc) (hn : FragsNodup d) (f : FragDef) (hf : f ∈ d.frags) :
    nodeS d f.name = some (Spec.Validate.spreadsOfL f.sels) := by simp [nodeS, find_frag d hn f hf]

theorem nodeS_isSome (d : Doc) (n : String) : (nodeS d n).isSome = true ↔ ∃ f ∈ d.frags, f.name = n := by
  simp only [nodeS, Option.isSome_map, List.find?_isSome, decide_eq_true_eq]

theorem nodeS_mem (d : Doc) (n : String) (l : List String) (h : nodeS d n = some l) : n ∈ d.frags.map (·.name) := by
  have : (nodeS d n).isSome = true := by simp [h]
  obtain ⟨f, hf, rfl⟩ := (nodeS_isSome d n).mp this
  exact List.mem_map_of_mem hf

theorem weightS_le (d : Doc) (hn : FragsNodup d) :
    weight (nodeS d) (d.frags.map (·.name)) [] ≤ (d.frags.map (fun f => Spec.Validate.selsSize f.sels + 1)).sum := by
  simp only [weight, List.map_map]
  apply sum_le_of_mem
  intro f hf
  simp only [Function.comp, List.contains_nil, Bool.false_eq_true, if_false, nodeS_frag d hn f hf, Option.getD_some]
  have := spreadsOfL_le f.sels
  omega

/-- the selection sets the closure is started from: an operation's or a fragment's -/
def RootSels (d : Doc) (ss : List Sel) : Prop := (∃ o ∈ d.ops, o.sels = ss) ∨ (∃ f ∈ d.frags, f.sels = ss)

theorem rootSels_le (d : Doc) (ss : List Sel) (h : RootSels d ss) :
    Spec.Validate.selsSize ss + 2 ≤ Spec.Validate.docFuel d := by
  rw [docFuel_eq]
  rcases h with ⟨o, ho, rfl⟩ | ⟨f, hf, rfl⟩
  · have := le_sum_of_mem (fun o : OpDef => Spec.Validate.selsSize o.sels + 1) d.ops o ho
    omega
  · have := le_sum_of_mem (fun f : FragDef => Spec.Validate.selsSize f.sels + 1) d.frags f hf
    omega

/-- `usedFrags` of a root selection set = the defined fragments reachable from its spreads -/
theorem mem_usedFrags (d : Doc) (hn : FragsNodup d) (ss : List Sel) (hr : RootSels d ss) (x : String) :
    x ∈ Spec.Validate.usedFrags d ss ↔
      ∃ t ∈ Spec.Validate.spreadsOfL ss, Path (nodeS d) t x ∧ (nodeS d x).isSome = true := by
  unfold Spec.Validate.usedFrags
  rw [closure_eq]
  apply gReach_iff (nodeS d) (d.frags.map (·.name)) (fun n l h _ => nodeS_mem d n l h)
  have h1 := weightS_le d hn
  have h2 := rootSels_le d ss hr
  have h3 := spreadsOfL_le ss
  have h4 := docFuel_eq d
  simp only [Spec.Validate.closureFuel]
  omega

end AGV.Lemmas.ValidateGraph

