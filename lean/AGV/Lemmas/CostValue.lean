/-
  C11 — lemmas about the cost of input-value checking (Model/CostValue.lean).
-/
import AGV.Model.CostValue
import AGV.Spec.Cost

namespace AGV.Lemmas.CostValue
open AGV.Core AGV.Model.CostValue AGV.Spec.Cost

-- ------------------------------------------------------------------ maxima

theorem le_maxl_of_mem {x : Nat} : ∀ {l : List Nat}, x ∈ l → x ≤ maxl l
  | [], h => by cases h
  | y :: ys, h => by
    simp only [maxl, List.foldr_cons]
    rcases List.mem_cons.mp h with h | h
    · subst h; exact Nat.le_max_left _ _
    · have := le_maxl_of_mem h
      simp only [maxl] at this
      exact Nat.le_trans this (Nat.le_max_right _ _)

theorem wraps_le_argsWraps {a : ArgDef} {as : List ArgDef} (h : a ∈ as) : wraps a.ty ≤ argsWraps as :=
  le_maxl_of_mem (List.mem_map.mpr ⟨a, h, rfl⟩)

/-- the most layers of any input-object field type -/
def inputsWraps (S : VSchema) : Nat := maxl (S.inputs.map fun i => argsWraps i.fields)

theorem inputsWraps_le (S : VSchema) : inputsWraps S ≤ schemaWraps S := Nat.le_max_left _ _

/-- a schema whose input objects declare every field name once (the registry keeps the fields of
    an input object in a map keyed by name) -/
def InputsNodup (S : VSchema) : Prop := ∀ i ∈ S.inputs, (i.fields.map (·.name)).Nodup

-- ------------------------------------------------------------------ the chain of calls on one value

theorem land_le : ∀ (t : TypeRef) (sh : Shape), (land t sh).1 ≤ 1 + wraps t
  | .named n, sh => by simp only [land, wraps]; split <;> simp
  | .nonNull t, sh => by
    have := land_le t sh
    simp only [land, wraps]
    split
    · simp
    · simp only []; omega
  | .list t, sh => by
    have := land_le t .other
    simp only [land, wraps]
    cases sh <;> simp only [] <;> omega

theorem land_elems : ∀ (t : TypeRef) (sh : Shape) (k : Nat) (t' : TypeRef),
    land t sh = (k, .elems t') → k + wraps t' ≤ wraps t
  | .named n, sh, k, t', h => by
    simp only [land] at h
    split at h <;> simp at h
  | .nonNull t, sh, k, t', h => by
    simp only [land] at h
    split at h
    · simp at h
    · simp only [Prod.mk.injEq] at h
      have := land_elems t sh (land t sh).1 t' (by rw [← h.2])
      simp only [wraps]; omega
  | .list t, sh, k, t', h => by
    simp only [land] at h
    cases sh <;> simp only [Prod.mk.injEq] at h
    · simp at h
    · simp only [Land.elems.injEq] at h
      simp only [wraps]; rw [← h.1, ← h.2]; omega
    · have := land_elems t .other (land t .other).1 t' (by rw [← h.2])
      simp only [wraps]; omega

theorem leaf_fst (S : VSchema) (v : GValue) (t : TypeRef) : (leaf S v t).1 = (land t (shape v)).1 := by
  unfold leaf
  split <;> simp_all

-- ------------------------------------------------------------------ object fields

/-- value nodes supplied under the key `nm` -/
def szKey (nm : String) : List (String × GValue) → Nat
  | [] => 0
  | (k, v) :: r => (if k = nm then gsize v else 0) + szKey nm r

theorem sum_ite_le (k : String) (c : Nat) : ∀ (names : List String), names.Nodup →
    (names.map fun nm => if k = nm then c else 0).sum ≤ c
  | [], _ => by simp
  | n :: ns, h => by
    have hn := List.nodup_cons.mp h
    have ih := sum_ite_le k c ns hn.2
    simp only [List.map_cons, List.sum_cons]
    by_cases hk : k = n
    · subst hk
      have hz : (ns.map fun nm => if k = nm then c else 0).sum = 0 := by
        have : ∀ nm ∈ ns, (if k = nm then c else 0) = 0 := by
          intro nm hm
          have : k ≠ nm := fun e => hn.1 (e ▸ hm)
          simp [this]
        rw [List.map_congr_left this]
        clear ih this hn h
        induction ns with
        | nil => simp
        | cons _ _ ih => simp [ih]
      simp [hz]
    · simp [hk]; exact ih

theorem sum_map_add {α : Type} (f g : α → Nat) : ∀ (l : List α),
    (l.map fun x => f x + g x).sum = (l.map f).sum + (l.map g).sum
  | [] => by simp
  | x :: xs => by simp only [List.map_cons, List.sum_cons, sum_map_add f g xs]; omega

theorem sum_szKey_le (names : List String) (hn : names.Nodup) : ∀ (fs : List (String × GValue)),
    (names.map fun nm => szKey nm fs).sum ≤ gsizeFields fs
  | [] => by
    simp only [szKey, gsizeFields]
    induction names with
    | nil => simp
    | cons _ ns ih => simp only [List.map_cons, List.sum_cons]; have := ih (List.nodup_cons.mp hn).2; omega
  | (k, v) :: r => by
    have ih := sum_szKey_le names hn r
    have h1 := sum_ite_le k (gsize v) names hn
    have e : (names.map fun nm => szKey nm ((k, v) :: r)).sum
        = (names.map fun nm => if k = nm then gsize v else 0).sum + (names.map fun nm => szKey nm r).sum := by
      simp only [szKey]
      exact sum_map_add _ _ names
    rw [e]
    simp only [gsizeFields]
    omega

/-- the loop over the declared fields costs no more than what the look-ups cost -/
theorem seqDefs_le (look : String → TypeRef → Option (Nat × Bool)) (cost : String → Nat) (K : Nat)
    (h : ∀ nm ty r, wraps ty ≤ K → look nm ty = some r → r.1 ≤ cost nm) :
    ∀ (defs : List ArgDef), (∀ f ∈ defs, wraps f.ty ≤ K) →
      (seqDefs look defs).1 ≤ (defs.map fun f => cost f.name).sum
  | [], _ => by simp [seqDefs]
  | f :: rest, hw => by
    have ih := seqDefs_le look cost K h rest (fun g hg => hw g (List.mem_cons_of_mem _ hg))
    have hf := hw f (List.mem_cons_self ..)
    simp only [seqDefs, List.map_cons, List.sum_cons]
    split
    · rename_i r hr
      have := h f.name f.ty r hf hr
      split <;> simp only [] <;> omega
    · split
      · simp
      · omega

-- ------------------------------------------------------------------ the bound for one value

theorem one_add_mul (x K : Nat) : (1 + K) * (1 + x) = (1 + K) + (1 + K) * x := by
  rw [Nat.mul_add, Nat.mul_one]

theorem gsize_pos : ∀ (v : GValue), 1 ≤ gsize v
  | .list _ => by simp [gsize]
  | .obj _ => by simp [gsize]
  | .null => by simp [gsize]
  | .int _ => by simp [gsize]
  | .float _ => by simp [gsize]
  | .str _ => by simp [gsize]
  | .bool _ => by simp [gsize]
  | .enum _ => by simp [gsize]

theorem leaf_le (S : VSchema) (K : Nat) (v : GValue) (t : TypeRef) (hg : gsize v = 1) :
    (leaf S v t).1 + K ≤ wraps t + (1 + K) * gsize v := by
  have := land_le t (shape v)
  rw [leaf_fst, hg, Nat.mul_one]
  omega

theorem mem_inputs_of_input? {S : VSchema} {n : String} {i : InputDef} (h : input? S n = some i) :
    i ∈ S.inputs := List.mem_of_find?_eq_some h

mutual
/-- every node of the value is charged once per layer of the type it is first checked against -/
theorem vc_le (S : VSchema) (hS : InputsNodup S) (K : Nat) (hK : inputsWraps S ≤ K) :
    ∀ (v : GValue) (t : TypeRef), wraps t ≤ K → (vc {} S v t).1 + K ≤ wraps t + (1 + K) * gsize v
  | .list xs, t, ht => by
    have hl := land_le t .list
    have he := land_elems t .list
    simp only [vc, gsize, one_add_mul]
    split
    · rename_i k t' heq
      have h1 := he k t' heq
      have h2 := vcList_le S hS K hK xs t' (by omega)
      simp only []
      omega
    all_goals (rename_i k _ heq; rw [heq] at hl; simp only [] at hl ⊢; omega)
  | .obj fs, t, ht => by
    have hl := land_le t .other
    simp only [vc, gsize, one_add_mul]
    split
    · rename_i k n heq
      rw [heq] at hl
      simp only [] at hl
      split
      · rename_i idef hi
        split
        · simp only []; omega
        · have hmem := mem_inputs_of_input? hi
          have hnd := hS idef hmem
          have hw : ∀ f ∈ idef.fields, wraps f.ty ≤ K := fun f hf =>
            Nat.le_trans (wraps_le_argsWraps hf)
              (Nat.le_trans (le_maxl_of_mem (List.mem_map.mpr ⟨idef, hmem, rfl⟩)) hK)
          have h1 := seqDefs_le (fun nm ty => vcFind {} S fs nm ty) (fun nm => (1 + K) * szKey nm fs) K
            (fun nm ty r hty hr => vcFind_le S hS K hK fs nm ty hty r hr) idef.fields hw
          have h2 := sum_szKey_le (idef.fields.map (·.name)) hnd fs
          have h3 : (idef.fields.map fun f => (1 + K) * szKey f.name fs).sum
              = (1 + K) * ((idef.fields.map (·.name)).map fun nm => szKey nm fs).sum := by
            clear h1 h2 hw hnd
            induction idef.fields with
            | nil => simp
            | cons f fs' ih => simp only [List.map_cons, List.sum_cons, ih, Nat.mul_add]
          have h4 := Nat.mul_le_mul_left (1 + K) h2
          simp only []
          omega
      · simp only []; omega
    all_goals (rename_i k _ heq; rw [heq] at hl; simp only [] at hl ⊢; omega)
  | .null, t, _ => by simp only [vc]; exact leaf_le S K .null t rfl
  | .int i, t, _ => by simp only [vc]; exact leaf_le S K (.int i) t rfl
  | .float x, t, _ => by simp only [vc]; exact leaf_le S K (.float x) t rfl
  | .str s, t, _ => by simp only [vc]; exact leaf_le S K (.str s) t rfl
  | .bool b, t, _ => by simp only [vc]; exact leaf_le S K (.bool b) t rfl
  | .enum e, t, _ => by simp only [vc]; exact leaf_le S K (.enum e) t rfl
theorem vcList_le (S : VSchema) (hS : InputsNodup S) (K : Nat) (hK : inputsWraps S ≤ K) :
    ∀ (xs : List GValue) (t : TypeRef), wraps t ≤ K → (vcList {} S xs t).1 ≤ (1 + K) * gsizeList xs
  | [], _, _ => by simp [vcList, gsizeList]
  | x :: r, t, ht => by
    have h1 := vc_le S hS K hK x t ht
    have h2 := vcList_le S hS K hK r t ht
    simp only [vcList, gsizeList, Nat.mul_add]
    split <;> simp only [] <;> (try split) <;> (try simp_all) <;> omega
theorem vcFind_le (S : VSchema) (hS : InputsNodup S) (K : Nat) (hK : inputsWraps S ≤ K) :
    ∀ (fs : List (String × GValue)) (nm : String) (ty : TypeRef), wraps ty ≤ K →
      ∀ r, vcFind {} S fs nm ty = some r → r.1 ≤ (1 + K) * szKey nm fs
  | [], _, _, _, r, h => by simp [vcFind] at h
  | (k, v) :: rest, nm, ty, hty, r, h => by
    have ih := vcFind_le S hS K hK rest nm ty hty
    have hv := vc_le S hS K hK v ty hty
    simp only [vcFind] at h
    simp only [szKey, Nat.mul_add]
    split at h
    · rename_i x hx
      have := ih x hx
      simp only [Option.some.injEq] at h
      subst h
      omega
    · split at h
      · rename_i hk
        simp only [Option.some.injEq] at h
        subst h
        simp only [hk, if_true]
        omega
      · simp at h
end

/-- the seeded variant on `[[…[null]…]]` against `[[…[T!]…]]`: every list level doubles the work -/
def nest : Nat → GValue
  | 0 => .null
  | d + 1 => .list [nest d]

def lists : Nat → TypeRef → TypeRef
  | 0, t => t
  | d + 1, t => .list (lists d t)

theorem recheck_nest (S : VSchema) (n : String) : ∀ (d : Nat),
    (vc { listRechecksInvalid := true } S (nest d) (lists d (.nonNull (.named n)))).2 = false ∧
      2 ^ d ≤ (vc { listRechecksInvalid := true } S (nest d) (lists d (.nonNull (.named n)))).1
  | 0 => by simp [nest, lists, vc, leaf, land, shape]
  | d + 1 => by
    have ih := recheck_nest S n d
    simp only [nest, lists, vc, land, vcList, ih.1, Nat.pow_succ]
    simp
    omega

/-- … while the real control flow makes one call per level -/
theorem real_nest (S : VSchema) (n : String) : ∀ (d : Nat),
    vc {} S (nest d) (lists d (.nonNull (.named n))) = (d + 1, false)
  | 0 => by simp [nest, lists, vc, leaf, land, shape]
  | d + 1 => by
    have ih := real_nest S n d
    simp only [nest, lists, vc, land, vcList, ih]
    simp
    omega

-- ------------------------------------------------------------------ the document

theorem vc_le_bound (S : VSchema) (hS : InputsNodup S) (K : Nat) (hK : inputsWraps S ≤ K)
    (v : GValue) (t : TypeRef) (ht : wraps t ≤ K) : (vc {} S v t).1 ≤ (1 + K) * gsize v := by
  have := vc_le S hS K hK v t ht
  omega

mutual
/-- substituting the supplied variables yields a value of exactly the size the specification counts -/
theorem toConst_size (vs : List (String × GValue)) : ∀ (v : DValue) (vars : Option (List (String × GValue))) (c : GValue),
    (vars = none ∨ vars = some vs) → toConst vars v = some c → gsize c = dsize vs v
  | .var n, vars, c, hv, h => by
    rcases hv with hv | hv <;> subst hv <;> simp only [toConst] at h
    · simp at h
    · simp only [dsize]
      cases hf : vs.find? (·.1 = n) with
      | none => simp [hf] at h
      | some p => simp [hf] at h; simp [h]
  | .null, _, c, _, h => by simp only [toConst, Option.some.injEq] at h; subst h; simp [gsize, dsize]
  | .int _, _, c, _, h => by simp only [toConst, Option.some.injEq] at h; subst h; simp [gsize, dsize]
  | .float _, _, c, _, h => by simp only [toConst, Option.some.injEq] at h; subst h; simp [gsize, dsize]
  | .str _, _, c, _, h => by simp only [toConst, Option.some.injEq] at h; subst h; simp [gsize, dsize]
  | .bool _, _, c, _, h => by simp only [toConst, Option.some.injEq] at h; subst h; simp [gsize, dsize]
  | .enum _, _, c, _, h => by simp only [toConst, Option.some.injEq] at h; subst h; simp [gsize, dsize]
  | .list xs, vars, c, hv, h => by
    simp only [toConst] at h
    cases hl : toConstList vars xs with
    | none => simp [hl] at h
    | some cs =>
      simp [hl] at h
      subst h
      simp only [gsize, dsize, toConstList_size vs xs vars cs hv hl]
  | .obj fs, vars, c, hv, h => by
    simp only [toConst] at h
    cases hl : toConstFields vars fs with
    | none => simp [hl] at h
    | some cs =>
      simp [hl] at h
      subst h
      simp only [gsize, dsize, toConstFields_size vs fs vars cs hv hl]
theorem toConstList_size (vs : List (String × GValue)) : ∀ (xs : List DValue) (vars : Option (List (String × GValue)))
    (cs : List GValue), (vars = none ∨ vars = some vs) → toConstList vars xs = some cs → gsizeList cs = dsizeList vs xs
  | [], _, cs, _, h => by simp only [toConstList, Option.some.injEq] at h; subst h; simp [gsizeList, dsizeList]
  | x :: xs, vars, cs, hv, h => by
    simp only [toConstList] at h
    cases h1 : toConst vars x with
    | none => simp [h1] at h
    | some a =>
      cases h2 : toConstList vars xs with
      | none => simp [h1, h2] at h
      | some as =>
        simp [h1, h2] at h
        subst h
        simp only [gsizeList, dsizeList, toConst_size vs x vars a hv h1, toConstList_size vs xs vars as hv h2]
theorem toConstFields_size (vs : List (String × GValue)) : ∀ (fs : List (String × DValue)) (vars : Option (List (String × GValue)))
    (cs : List (String × GValue)), (vars = none ∨ vars = some vs) → toConstFields vars fs = some cs →
      gsizeFields cs = dsizeFields vs fs
  | [], _, cs, _, h => by simp only [toConstFields, Option.some.injEq] at h; subst h; simp [gsizeFields, dsizeFields]
  | (k, x) :: xs, vars, cs, hv, h => by
    simp only [toConstFields] at h
    cases h1 : toConst vars x with
    | none => simp [h1] at h
    | some a =>
      cases h2 : toConstFields vars xs with
      | none => simp [h1, h2] at h
      | some as =>
        simp [h1, h2] at h
        subst h
        simp only [gsizeFields, dsizeFields, toConst_size vs x vars a hv h1, toConstFields_size vs xs vars as hv h2]
end

section doc
set_option linter.unusedSectionVars false
variable (S : VSchema) (hS : InputsNodup S) (K : Nat) (hK : schemaWraps S ≤ K) (vs : List (String × GValue))
include hS hK

theorem argCost_le (vars : Option (List (String × GValue))) (hv : vars = none ∨ vars = some vs)
    (defs : Option (List ArgDef)) (hd : ∀ ds, defs = some ds → ∀ a ∈ ds, wraps a.ty ≤ K) (a : String × DValue) :
    argCost {} S vars defs a ≤ (1 + K) * dsize vs a.2 := by
  unfold argCost
  split
  · omega
  · rename_i ds
    split
    · omega
    · rename_i d hf
      split
      · omega
      · rename_i c hc
        have hw := hd ds rfl d (List.mem_of_find?_eq_some hf)
        have := vc_le_bound S hS K (Nat.le_trans (inputsWraps_le S) hK) c d.ty hw
        rw [toConst_size vs a.2 vars c hv hc] at this
        exact this

theorem argsCost_le (vars : Option (List (String × GValue))) (hv : vars = none ∨ vars = some vs)
    (defs : Option (List ArgDef)) (hd : ∀ ds, defs = some ds → ∀ a ∈ ds, wraps a.ty ≤ K) :
    ∀ (as : List (String × DValue)), argsCost {} S vars defs as ≤ (1 + K) * argsSize vs as
  | [] => by simp [argsCost, argsSize]
  | a :: as => by
    have h1 := argCost_le S hS K hK vs vars hv defs hd a
    have h2 := argsCost_le vars hv defs hd as
    simp only [argsCost, argsSize, Nat.mul_add]
    omega

theorem dirsCost_le (vars : Option (List (String × GValue))) (hv : vars = none ∨ vars = some vs) :
    ∀ (ds : List Dir), dirsCost {} S vars ds ≤ (1 + K) * dirsSize vs ds
  | [] => by simp [dirsCost, dirsSize]
  | d :: ds => by
    have h2 := dirsCost_le vars hv ds
    have h1 := argsCost_le S hS K hK vs vars hv ((S.dirs.find? (·.name = d.name)).map (·.args)) (by
      intro as has a ha
      cases hf : S.dirs.find? (·.name = d.name) with
      | none => simp [hf] at has
      | some dd =>
        simp [hf] at has
        subst has
        have hm : dd ∈ S.dirs := List.mem_of_find?_eq_some hf
        have h3 : argsWraps dd.args ≤ schemaWraps S :=
          Nat.le_trans (le_maxl_of_mem (List.mem_map.mpr ⟨dd, hm, rfl⟩))
            (Nat.le_trans (Nat.le_max_right _ _) (Nat.le_max_right _ _))
        exact Nat.le_trans (wraps_le_argsWraps ha) (Nat.le_trans h3 hK)) d.args
    simp only [dirsCost, dirsSize, Nat.mul_add]
    omega

omit hS in
theorem fieldDef?_wraps (cur : Option String) (name : String) (f : FieldDef) (h : fieldDef? S cur name = some f) :
    ∀ a ∈ f.args, wraps a.ty ≤ K := by
  intro a ha
  unfold fieldDef? at h
  split at h
  · simp at h
  · split at h
    · rename_i td htd
      have hm : td ∈ S.base.types := List.mem_of_find?_eq_some htd
      have hf : f ∈ td.fields := by
        split at h
        · exact List.mem_of_find?_eq_some h
        · exact List.mem_of_find?_eq_some h
        · simp at h
      have h1 : argsWraps f.args ≤ maxl (td.fields.map fun f => argsWraps f.args) :=
        le_maxl_of_mem (List.mem_map.mpr ⟨f, hf, rfl⟩)
      have h2 : maxl (td.fields.map fun f => argsWraps f.args) ≤ schemaWraps S :=
        Nat.le_trans (le_maxl_of_mem (List.mem_map.mpr ⟨td, hm, rfl⟩))
          (Nat.le_trans (Nat.le_max_left _ _) (Nat.le_max_right _ _))
      exact Nat.le_trans (wraps_le_argsWraps ha) (Nat.le_trans h1 (Nat.le_trans h2 hK))
    · simp at h

mutual
theorem wSel_le (vars : Option (List (String × GValue))) (hv : vars = none ∨ vars = some vs) :
    ∀ (cur : Option String) (s : Sel), wSel {} S vars cur s ≤ (1 + K) * selValues vs s
  | cur, .field _ name args dirs sub _ => by
    simp only [wSel, selValues, Nat.mul_add]
    split
    · omega
    · have h1 := argsCost_le S hS K hK vs vars hv ((fieldDef? S cur name).map (·.args)) (by
        intro as has
        cases hf : fieldDef? S cur name with
        | none => simp [hf] at has
        | some f =>
          simp [hf] at has
          subst has
          exact fieldDef?_wraps S K hK cur name f hf) args
      have h2 := dirsCost_le S hS K hK vs vars hv dirs
      exact Nat.add_le_add (Nat.add_le_add h1 h2) (wSels_le vars hv _ sub)
  | cur, .spread _ dirs _ => by
    simp only [wSel, selValues]
    exact dirsCost_le S hS K hK vs vars hv dirs
  | cur, .inline c dirs sub _ => by
    have h2 := dirsCost_le S hS K hK vs vars hv dirs
    simp only [wSel, selValues, Nat.mul_add]
    exact Nat.add_le_add h2 (wSels_le vars hv _ sub)
theorem wSels_le (vars : Option (List (String × GValue))) (hv : vars = none ∨ vars = some vs) :
    ∀ (cur : Option String) (ss : List Sel), wSels {} S vars cur ss ≤ (1 + K) * selsValues vs ss
  | _, [] => by simp [wSels, selsValues]
  | cur, s :: ss => by
    have h1 := wSel_le vars hv cur s
    have h2 := wSels_le vars hv cur ss
    simp only [wSels, selsValues, Nat.mul_add]
    omega
end

end doc

theorem sum_map_le_mul {α : Type} (B : Nat) (f g : α → Nat) : ∀ (l : List α), (∀ x ∈ l, f x ≤ B * g x) →
    (l.map f).sum ≤ B * (l.map g).sum
  | [], _ => by simp
  | x :: xs, h => by
    have h1 := h x (List.mem_cons_self ..)
    have h2 := sum_map_le_mul B f g xs (fun y hy => h y (List.mem_cons_of_mem _ hy))
    simp only [List.map_cons, List.sum_cons, Nat.mul_add]
    omega

theorem varsFor_cases (r : Req) (o : OpDef) : varsFor r o = none ∨ varsFor r o = some r.vars := by
  unfold varsFor
  split
  · split <;> simp
  · simp

theorem defaultsCost_le (S : VSchema) (hS : InputsNodup S) (K : Nat) (hK : schemaWraps S ≤ K) :
    ∀ (vs : List VarDef), (∀ v ∈ vs, wraps v.ty ≤ K) → (vs.map (defaultCost {} S)).sum ≤ (1 + K) * defaultsSize vs
  | [], _ => by simp [defaultsSize]
  | v :: vs, h => by
    have ih := defaultsCost_le S hS K hK vs (fun w hw => h w (List.mem_cons_of_mem _ hw))
    have hv := h v (List.mem_cons_self ..)
    simp only [List.map_cons, List.sum_cons, defaultsSize, Nat.mul_add]
    have : defaultCost {} S v ≤ (1 + K) * optSize v.default := by
      unfold defaultCost
      split
      · omega
      · cases v.default with
        | none => simp [optSize]
        | some dv =>
          simp only [optSize]
          exact vc_le_bound S hS K (Nat.le_trans (inputsWraps_le S) hK) _ _ hv
    omega

theorem argWork_le (S : VSchema) (hS : InputsNodup S) (K : Nat) (hK : schemaWraps S ≤ K) (r : Req) (d : Doc) :
    argWork {} S r d ≤ (1 + K) * ((d.frags.map fun f => dirsSize r.vars f.dirs + selsValues r.vars f.sels).sum
      + (d.ops.map fun o => dirsSize r.vars o.dirs + selsValues r.vars o.sels).sum) := by
  unfold argWork
  rw [Nat.mul_add]
  apply Nat.add_le_add
  · apply sum_map_le_mul
    intro f _
    have h1 := dirsCost_le S hS K hK r.vars (some r.vars) (Or.inr rfl) f.dirs
    have h2 := wSels_le S hS K hK r.vars (some r.vars) (Or.inr rfl) (known S f.cond) f.sels
    rw [Nat.mul_add]
    omega
  · apply sum_map_le_mul
    intro o _
    split
    · have h1 := dirsCost_le S hS K hK r.vars (varsFor r o) (varsFor_cases r o) o.dirs
      rw [Nat.mul_add]
      exact Nat.add_le_add h1 (wSels_le S hS K hK r.vars (varsFor r o) (varsFor_cases r o) _ o.sels)
    · omega

theorem defaultWork_le (S : VSchema) (hS : InputsNodup S) (K : Nat) (hK : schemaWraps S ≤ K) (d : Doc)
    (hd : docWraps d ≤ K) : defaultWork {} S d ≤ (1 + K) * (d.ops.map fun o => defaultsSize o.vars).sum := by
  unfold defaultWork
  apply sum_map_le_mul
  intro o ho
  split
  · apply defaultsCost_le S hS K hK
    intro v hv
    have h1 : wraps v.ty ≤ maxl (o.vars.map fun v => wraps v.ty) := le_maxl_of_mem (List.mem_map.mpr ⟨v, hv, rfl⟩)
    have h2 : maxl (o.vars.map fun v => wraps v.ty) ≤ docWraps d := le_maxl_of_mem (List.mem_map.mpr ⟨o, ho, rfl⟩)
    omega
  · omega

theorem passes_le_one (strict : Bool) : argPasses strict ≤ 1 ∧ defaultPasses strict ≤ 1 := by
  cases strict <;> decide

/-- the ninth counter of every request is within the specification's bound for one walk -/
theorem valueTotal_le (S : VSchema) (hS : InputsNodup S) (strict : Bool) (r : Req) (d : Doc) :
    valueTotal {} S strict r d ≤ valueBoundDoc S r.vars d := by
  have hK1 : schemaWraps S ≤ max (schemaWraps S) (docWraps d) := Nat.le_max_left _ _
  have hK2 : docWraps d ≤ max (schemaWraps S) (docWraps d) := Nat.le_max_right _ _
  have ha := argWork_le S hS _ hK1 r d
  have hd := defaultWork_le S hS _ hK1 d hK2
  have hp := passes_le_one strict
  have e := sum_map_add (fun o : OpDef => dirsSize r.vars o.dirs + selsValues r.vars o.sels)
    (fun o => defaultsSize o.vars) d.ops
  unfold valueTotal valueBoundDoc docValues
  rw [e]
  generalize max (schemaWraps S) (docWraps d) = K at *
  rw [Nat.mul_add] at ha
  rw [Nat.mul_add, Nat.mul_add]
  have h1 : argPasses strict * argWork {} S r d ≤ argWork {} S r d := by
    have := Nat.mul_le_mul_right (argWork {} S r d) hp.1; simpa using this
  have h2 : defaultPasses strict * defaultWork {} S d ≤ defaultWork {} S d := by
    have := Nat.mul_le_mul_right (defaultWork {} S d) hp.2; simpa using this
  omega

end AGV.Lemmas.CostValue
