/-
  C17 — the `extend schema @link(url: …  import: […]) @composeDirective(name: …)…` blocks a
  federation export writes for composable directives (`compose_directive`), at token level:
  `Lx_groups`, `pDefs_exts`.  Any URL text (escaped by the repaired exporter); the import names
  are written as they are, so they must need no escaping (true for `@` + a Name).
-/
import AGV.Lemmas.SdlFedSchema
namespace AGV.Lemmas.SdlSkeleton
open AGV.Core AGV.Core.PAst AGV.Core.Sdl AGV.Model.Sdl AGV.Spec.Literal AGV.Spec.Lex AGV.Spec.Parse AGV.Spec.SdlParse AGV.Lemmas.SdlLex AGV.Lemmas.SdlValue AGV.Lemmas.SdlBlock

def composeApp (n : Text) : DirApp := ⟨kwT "composeDirective", [(kwT "name", .str n)]⟩

/-- the directive applications of one compose block -/
def groupApps (g : Text × List Text) : List DirApp :=
  ⟨kwT "link", [(kwT "url", .str g.1), (kwT "import", .list (g.2.map .str))]⟩ :: g.2.map composeApp

theorem svsWf_strs : ∀ ns : List Text, svsWf (ns.map .str) = true
  | [] => rfl
  | n :: r => by simp [svsWf, svWf, svsWf_strs r]

theorem groupApps_wf (g : Text × List Text) : ∀ d ∈ groupApps g, dirWf d = true := by
  intro d hd
  simp only [groupApps, List.mem_cons, List.mem_map] at hd
  rcases hd with rfl | ⟨n, _, rfl⟩
  · simp only [dirWf, sfWf, svWf, svsWf_strs, Bool.and_true]; decide
  · simp only [composeApp, dirWf, sfWf, svWf, Bool.and_true]; decide

theorem groupApps_dDir (g : Text × List Text) :
    (groupApps g).map dDir =
      linkDir g.1 g.2 :: g.2.map (fun n => ⟨kwT "composeDirective", [(kwT "name", .str n)]⟩) := by
  simp [groupApps, composeApp, dDir, linkDir, SValue.toP, toPs_strs, Function.comp_def]

theorem groupApps_ne (g : Text × List Text) : groupApps g ≠ [] := by simp [groupApps]

def groupToks (g : Text × List Text) : List Tok := extToks (groupApps g)

/-- the definition one compose block denotes -/
def xGroup (g : Text × List Text) : SDef := .schema true ((groupApps g).map dDir) none none none

-- ------------------------------------------------------------------ characters to tokens

theorem quoted_eq (n : Text) : quoted n = '"' :: (n ++ ['"']) := rfl

/-- quoted plain strings separated by a comma -/
theorem Lx_strListC : ∀ (ns : List Text), (∀ n ∈ ns, escapeString false n = n) → ∀ (rest : Text) (ts : List Tok), Lx rest ts →
    Lx (joinSep [','] (ns.map quoted) ++ ']' :: rest) (ns.map Tok.str ++ .punct ']' :: ts)
  | [], _, rest, ts, h => by simpa [joinSep] using Lx.punct (c := ']') (by decide) h
  | [n], hp, rest, ts, h => by
    have := Lx.estr (t := n) (rest := ']' :: rest) (by simp) (Lx.punct (c := ']') (by decide) h)
    rw [hp n List.mem_cons_self] at this
    simpa [joinSep, quoted] using this
  | n :: m :: r, hp, rest, ts, h => by
    have h0 := Lx_strListC (m :: r) (fun x hx => hp x (List.mem_cons_of_mem _ hx)) rest ts h
    have := Lx.estr (t := n) (by simp) (Lx.ign (c := ',') (by decide) h0)
    rw [hp n List.mem_cons_self] at this
    simpa [joinSep, quoted, List.append_assoc] using this

/-- the `@composeDirective(name: "…")` lines -/
theorem Lx_composeLines (o : Opts) : ∀ (ns : List Text), (∀ n ∈ ns, escapeString false n = n) → ∀ (rest : Text) (ts : List Tok), Lx rest ts →
    Lx ((ns.map (fun n => tab o ++ s "@composeDirective(name: " ++ quoted n ++ s ")\n")).flatten ++ rest)
      (dirsToks (ns.map composeApp) ++ ts)
  | [], _, rest, ts, h => by simpa [dirsToks] using h
  | n :: r, hp, rest, ts, h => by
    have h0 := Lx_composeLines o r (fun x hx => hp x (List.mem_cons_of_mem _ hx)) rest ts h
    have h1 := Lx.estr (t := n) (rest := ')' :: '\n' :: ((r.map (fun n => tab o ++ s "@composeDirective(name: " ++ quoted n ++ s ")\n")).flatten ++ rest))
      (by simp) (Lx.punct (c := ')') (by decide) (Lx.ign (c := '\n') (by decide) h0))
    rw [hp n List.mem_cons_self] at h1
    have h2 := Lx.ws (tab_ignored o) (Lx.punct (c := '@') (by decide)
      (Lx.nameP (n := kwT "composeDirective") (c := '(') (by decide) (by decide)
        (Lx.nameP (n := kwT "name") (c := ':') (by decide) (by decide) (Lx.ign (c := ' ') (by decide) h1))))
    have e : s "@composeDirective(name: " = '@' :: (kwT "composeDirective" ++ '(' :: (kwT "name" ++ [':', ' '])) := by decide
    have e2 : s ")\n" = [')', '\n'] := by decide
    simp only [List.map_cons, List.flatten_cons, e, e2] at h2 ⊢
    simpa [dirsToks, dirToks, composeApp, sfToks, svToks, quoted, List.append_assoc] using h2

theorem composeLines_head (o : Opts) (ns : List Text) (rest : Text) (hr : rest.head? ≠ some '"') :
    ((ns.map (fun n => tab o ++ s "@composeDirective(name: " ++ quoted n ++ s ")\n")).flatten ++ rest).head? ≠ some '"' := by
  cases ns with
  | nil => simpa using hr
  | cons n r =>
    simp only [List.map_cons, List.flatten_cons, List.append_assoc]
    unfold tab
    split
    · cases o.width <;> simp [List.replicate, s]
    · simp

/-- one compose block, whatever follows -/
theorem Lx_group (o : Opts) (g : Text × List Text) (hn : ∀ n ∈ g.2, escapeString false n = n) (rest : Text) (ts : List Tok)
    (h : Lx rest ts) : Lx (composeSdl Defects.none o g ++ rest) (groupToks g ++ ts) := by
  have h0 := Lx_composeLines o g.2 hn ('\n' :: rest) ts (Lx.ign (by decide) h)
  have h1 : Lx ('\n' :: ')' :: '\n' :: ((g.2.map (fun n => tab o ++ s "@composeDirective(name: " ++ quoted n ++ s ")\n")).flatten ++ '\n' :: rest))
      (.punct ')' :: (dirsToks (g.2.map composeApp) ++ ts)) :=
    Lx.ign (by decide) (Lx.punct (by decide) (Lx.ign (by decide) h0))
  have h2 := Lx_strListC g.2 hn _ _ h1
  have h3 := Lx.ws (tab_ignored o) (Lx.name (n := kwT "import") (by decide) (valEnd_punct ':' _ (by decide)).nameEnd
    (Lx.punct (c := ':') (by decide) (Lx.ign (c := ' ') (by decide) (Lx.punct (c := '[') (by decide) h2))))
  have h4 := Lx.estr (t := g.1) (by
    unfold tab; split
    · cases o.width <;> simp [List.replicate, kwT]
    · simp) (Lx.ign (c := '\n') (by decide) h3)
  have h5 := Lx.ws (tab_ignored o) (Lx.name (n := kwT "url") (by decide) (valEnd_punct ':' _ (by decide)).nameEnd
    (Lx.punct (c := ':') (by decide) (Lx.ign (c := ' ') (by decide) h4)))
  have h6 := Lx.nameI (n := kw "extend") (c := ' ') (by decide) (by decide)
    (Lx.nameI (n := kw "schema") (c := ' ') (by decide) (by decide)
      (Lx.punct (c := '@') (by decide) (Lx.name (n := kwT "link") (by decide) (valEnd_punct '(' _ (by decide)).nameEnd
        (Lx.punct (c := '(') (by decide) (Lx.ign (c := '\n') (by decide) h5)))))
  have e : s "extend schema @link(\n" = kw "extend" ++ ' ' :: (kw "schema" ++ ' ' :: '@' :: (kwT "link" ++ ['(', '\n'])) := by decide
  have e1 : s "url: \"" = kwT "url" ++ [':', ' ', '"'] := by decide
  have e2 : s "\"\n" = ['"', '\n'] := by decide
  have e3 : s "import: [" = kwT "import" ++ [':', ' ', '['] := by decide
  have e4 : s "]\n)\n" = [']', '\n', ')', '\n'] := by decide
  simp only [composeSdl, Defects.none, Bool.false_eq_true, if_false]
  rw [e, e1, e2, e3, e4]
  simpa [groupToks, extToks, groupApps, dirsToks, dirToks, sfToks, svToks, svsToks_strs, List.append_assoc] using h6

theorem Lx_groups (o : Opts) : ∀ (gs : List (Text × List Text)), (∀ g ∈ gs, ∀ n ∈ g.2, escapeString false n = n) →
    ∀ (rest : Text) (ts : List Tok), Lx rest ts →
    Lx ((gs.map (composeSdl Defects.none o)).flatten ++ rest) (gs.flatMap groupToks ++ ts)
  | [], _, rest, ts, h => by simpa using h
  | g :: r, hn, rest, ts, h => by
    have h0 := Lx_groups o r (fun x hx => hn x (List.mem_cons_of_mem _ hx)) rest ts h
    have := Lx_group o g (hn g List.mem_cons_self) _ _ h0
    simpa [List.append_assoc] using this

-- ------------------------------------------------------------------ tokens to definitions

theorem extToks_defEnd (apps : List DirApp) (r : List Tok) : DefEnd (extToks apps ++ r) := DefEnd.name _ _

/-- a non-empty run of schema extensions at the end of the document -/
theorem pDefs_exts : ∀ (L : List (List DirApp)), L ≠ [] → (∀ a ∈ L, a ≠ [] ∧ ∀ d ∈ a, dirWf d = true) →
    ∀ g, L.length ≤ g → pDefs g (L.flatMap extToks) = some (L.map (fun a => SDef.schema true (a.map dDir) none none none))
  | [], h, _, _, _ => absurd rfl h
  | [a], _, hw, g, hg => by
    obtain ⟨g, rfl⟩ : ∃ g', g = g' + 1 := ⟨g - 1, by simp at hg; omega⟩
    have := pDef_ext a (hw a List.mem_cons_self).2 (hw a List.mem_cons_self).1 [] DefEnd.nil
    simp only [List.append_nil] at this
    simp [pDefs, this]
  | a :: b :: r, _, hw, g, hg => by
    obtain ⟨g, rfl⟩ : ∃ g', g = g' + 1 := ⟨g - 1, by simp at hg; omega⟩
    have ih := pDefs_exts (b :: r) (by simp) (fun x hx => hw x (List.mem_cons_of_mem _ hx)) g (by simp at hg ⊢; omega)
    have := pDef_ext a (hw a List.mem_cons_self).2 (hw a List.mem_cons_self).1 ((b :: r).flatMap extToks)
      (by simp only [List.flatMap_cons]; exact extToks_defEnd _ _)
    rw [List.flatMap_cons, pDefs, this]
    have hne : (b :: r).flatMap extToks = .name (kw "extend") :: (.name (kw "schema") :: dirsToks b ++ r.flatMap extToks) := by
      simp [extToks]
    rw [hne] at ih ⊢
    simp only [ih, Option.map_some, List.map_cons]

end AGV.Lemmas.SdlSkeleton
