/-
  Lemmas for the request level of property C06 (core tactics only): how `is_valid_input_value`
  (`isValid`) relates to the specification's input coercion (`coerce`):
    coerce_mono       a literal that coerces (enum names only as enum tokens) coerces alike as JSON
    coerce_valid      whatever coerces is accepted by `isValid` (tables whose oneof variants are nullable)
    valid_coerce      whatever the repaired `isValid` (toggle `nonObjectPassesInputObject` off) accepts
                      coerces, for 32-bit integers
    coerce_shapeOk    a coercible value with distinct keys has the shape `c06_value_wf` asks for
    compat_coerce     a value that coerces at a variable's type coerces alike at every compatible position
-/
import AGV.Lemmas.CoerceTyped
import AGV.Lemmas.CoerceRequest

namespace AGV.Lemmas.Coerce
open AGV.Core
open AGV.Spec.Coerce
open AGV.Model.Coerce

-- ------------------------------------------------------------------ tables, lookups, field completion

/-- a oneof variant is registered with a nullable type (`Option<T>`), as the derive macro does -/
def oneofOpt : NDef → Bool
  | .input true fields => fields.all (fun f => !f.ty.gql.isNonNull)
  | _ => true

/-- well-formed table whose oneof variants are registered nullable and whose root fields have
    pairwise distinct argument names -/
def wfTable2 (T : Table) : Bool :=
  wfTable T && T.types.all (fun nd => oneofOpt nd.2) && T.fields.all (fun sig => nodupB (sig.args.map (·.name)))

theorem find_mem' {T : Table} {n : String} {d : NDef} (h : T.find? n = some d) : (n, d) ∈ T.types := by
  simp only [Table.find?, Option.map_eq_some_iff] at h
  obtain ⟨nd, hnd, rfl⟩ := h
  have h1 := List.mem_of_find?_eq_some hnd
  have h2 : nd.1 = n := by simpa using List.find?_some hnd
  rw [← h2]; exact h1

theorem wfTable2_find {T : Table} (h : wfTable2 T = true) {n : String} {fields : List InField}
    (hf : T.find? n = some (.input true fields)) : ∀ f ∈ fields, f.ty.gql.isNonNull = false := by
  simp only [wfTable2, Bool.and_eq_true, List.all_eq_true] at h
  have := h.1.2 _ (find_mem' hf)
  simpa [oneofOpt] using this

theorem wfTable2_wf {T : Table} (h : wfTable2 T = true) : wfTable T = true := by
  simp only [wfTable2, Bool.and_eq_true] at h; exact h.1.1

theorem wfTable2_args {T : Table} (h : wfTable2 T = true) {n : String} {sig : FieldSig}
    (hf : T.field? n = some sig) : nodupB (sig.args.map (·.name)) = true := by
  simp only [wfTable2, Bool.and_eq_true, List.all_eq_true] at h
  exact h.2 sig (List.mem_of_find?_eq_some hf)

theorem lookup_isSome {α : Type} (xs : List (String × α)) (k : String) :
    (lookup xs k).isSome = true ↔ k ∈ xs.map (·.1) := by
  induction xs with
  | nil => simp [lookup]
  | cons x xs ih =>
    obtain ⟨k', v⟩ := x
    rw [lookup_cons]
    by_cases h : k' = k
    · simp [h]
    · simp only [if_neg h, ih, List.map_cons, List.mem_cons]
      constructor
      · exact Or.inr
      · rintro (e | e)
        · exact absurd e.symm h
        · exact e

theorem lookup_isSome_keys {α β : Type} (xs : List (String × α)) (ys : List (String × β))
    (h : xs.map (·.1) = ys.map (·.1)) (k : String) : (lookup xs k).isSome = (lookup ys k).isSome := by
  rw [Bool.eq_iff_iff, lookup_isSome, lookup_isSome, h]

theorem coerceEntries_keys (T : Table) (j : Bool) (fields : List InField) (fs es : List (String × GValue))
    (h : coerceEntries T j fields fs = some es) : es.map (·.1) = fs.map (·.1) := by
  induction fs generalizing es with
  | nil => simp [coerceEntries] at h; subst h; rfl
  | cons e fs ih =>
    obtain ⟨k, v⟩ := e
    simp only [coerceEntries] at h
    split at h
    · cases h
    · split at h
      · rename_i a b ha hb
        cases h
        simp [ih b hb]
      · cases h

theorem finishFields_some_iff (gs : List InField) (es : List (String × GValue)) :
    (finishFields gs es).isSome = true ↔
      ∀ f ∈ gs, (lookup es f.name).isSome = true ∨ f.default.isSome = true ∨ f.ty.gql.isNonNull = false := by
  induction gs with
  | nil => simp [finishFields]
  | cons g gs ih =>
    simp only [finishFields, List.forall_mem_cons, ← ih]
    cases hr : finishFields gs es with
    | none => simp
    | some rest =>
      cases hl : lookup es g.name with
      | some a => simp
      | none =>
        cases hd : g.default with
        | some d => simp
        | none => cases hnn : g.ty.gql.isNonNull <;> simp

theorem requiredPresent_iff (gs : List InField) (fs : List (String × GValue)) :
    requiredPresent gs fs = true ↔
      ∀ f ∈ gs, (lookup fs f.name).isSome = true ∨ f.default.isSome = true ∨ f.ty.gql.isNonNull = false := by
  simp only [requiredPresent, List.all_eq_true, Bool.or_eq_true, Bool.not_eq_true']
  constructor
  · intro h f hf; rcases h f hf with (h | h) | h <;> simp [h]
  · intro h f hf; rcases h f hf with h | h | h <;> simp [h]

theorem finishOneOf_some (es r : List (String × GValue)) (h : finishOneOf es = some r) :
    ∃ k a, es = [(k, a)] ∧ a ≠ .null := by
  unfold finishOneOf at h
  split at h
  · cases h
  · rename_i k v hne
    exact ⟨k, v, rfl, fun e => by subst e; exact hne rfl⟩
  · cases h

-- ------------------------------------------------------------------ leaves

theorem i32_isValid : i32Entry.isValid = .i64 := by
  simp [i32Entry, AGV.Gen.IntScalars.table]

theorem i32_domain (i : Int) : AGV.Spec.Scalars.inIntDomain "i32" i ↔ (-2147483648 ≤ i ∧ i ≤ 2147483647) := by
  simp [AGV.Spec.Scalars.inIntDomain, AGV.Spec.Scalars.intKind, AGV.Spec.Scalars.minOf, AGV.Spec.Scalars.maxOf]

theorem coerceLeaf_mono (T : Table) (n : String) (v c : GValue)
    (h : coerceLeaf T false n v = some c) : coerceLeaf T true n v = some c := by
  unfold coerceLeaf at h ⊢
  split <;> simp_all
  rename_i vs _
  cases v <;> simp_all [coerceEnum]

theorem coerceScalar_valid (n : String) (v c : GValue)
    (h : coerceScalar n v = some c) : isValidScalar n v = true := by
  unfold coerceScalar at h
  split at h
  · split at h
    · rename_i hd
      have := (i32_domain _).mp hd
      simp only [isValidScalar, i32_isValid, AGV.Model.Scalars.readable, AGV.Model.Scalars.i64Min,
        AGV.Model.Scalars.i64Max, decide_eq_true_eq]
      omega
    · cases h
  all_goals first | (simp [isValidScalar]; done) | cases h

theorem validScalar_coerce (n : String) (v : GValue)
    (h : isValidScalar n v = true) (hs : intsSmall v = true) : (coerceScalar n v).isSome = true := by
  unfold isValidScalar at h
  split at h
  · simp only [intsSmall, decide_eq_true_eq] at hs
    simp [coerceScalar, (i32_domain _).mpr hs]
  all_goals first | (simp [coerceScalar]; done) | cases h

theorem coerceLeaf_valid (np : Bool) (T : Table) (n : String) (v c : GValue)
    (h : coerceLeaf T true n v = some c) : isValidLeaf np T n v = true := by
  unfold coerceLeaf at h
  unfold isValidLeaf
  split at h
  · rename_i hf
    simp only [hf]
    exact coerceScalar_valid n v c h
  · rename_i vs hf
    simp only [hf]
    cases v <;> simp_all [coerceEnum]
  · cases h

theorem validLeaf_coerce (T : Table) (n : String) (v : GValue)
    (h : isValidLeaf false T n v = true) (hs : intsSmall v = true) (hl : isLeaf v = true) :
    (coerceLeaf T true n v).isSome = true := by
  unfold isValidLeaf at h
  unfold coerceLeaf
  split at h
  · rename_i hf
    simp only [hf]
    exact validScalar_coerce n v h hs
  · rename_i vs hf
    simp only [hf]
    cases v <;> simp_all [coerceEnum]
  · cases h
  · cases h


-- ------------------------------------------------------------------ literal coercion is JSON coercion

mutual
theorem coerce_mono (T : Table) : ∀ (v : GValue) (ty : TypeRef) (c : GValue),
    coerce T false ty v = some c → coerce T true ty v = some c
  | .null, ty, c, h => by simpa [coerce] using h
  | .int i, ty, c, h => by
    simp only [coerce, Option.map_eq_some_iff] at h ⊢
    obtain ⟨a, ha, rfl⟩ := h; exact ⟨a, coerceLeaf_mono T _ _ _ ha, rfl⟩
  | .float i, ty, c, h => by
    simp only [coerce, Option.map_eq_some_iff] at h ⊢
    obtain ⟨a, ha, rfl⟩ := h; exact ⟨a, coerceLeaf_mono T _ _ _ ha, rfl⟩
  | .str i, ty, c, h => by
    simp only [coerce, Option.map_eq_some_iff] at h ⊢
    obtain ⟨a, ha, rfl⟩ := h; exact ⟨a, coerceLeaf_mono T _ _ _ ha, rfl⟩
  | .bool i, ty, c, h => by
    simp only [coerce, Option.map_eq_some_iff] at h ⊢
    obtain ⟨a, ha, rfl⟩ := h; exact ⟨a, coerceLeaf_mono T _ _ _ ha, rfl⟩
  | .enum i, ty, c, h => by
    simp only [coerce, Option.map_eq_some_iff] at h ⊢
    obtain ⟨a, ha, rfl⟩ := h; exact ⟨a, coerceLeaf_mono T _ _ _ ha, rfl⟩
  | .list xs, ty, c, h => by
    simp only [coerce] at h ⊢
    split at h
    · rename_i t ht
      simp only [Option.map_eq_some_iff] at h ⊢
      obtain ⟨a, ha, rfl⟩ := h; exact ⟨a, coerceList_mono T xs t a ha, rfl⟩
    · cases h
  | .obj fs, ty, c, h => by
    simp only [coerce] at h ⊢
    split at h
    · rename_i o fields hf
      cases hc : coerceEntries T false fields fs with
      | none => simp [hc] at h
      | some es =>
        simp only [hc] at h
        simp only [coerceEntries_mono T fs fields es hc]
        exact h
    · cases h
theorem coerceList_mono (T : Table) : ∀ (xs : List GValue) (t : TypeRef) (cs : List GValue),
    coerceList T false t xs = some cs → coerceList T true t xs = some cs
  | [], t, cs, h => by simpa [coerceList] using h
  | x :: xs, t, cs, h => by
    simp only [coerceList] at h ⊢
    cases h1 : coerce T false t x with
    | none => simp [h1] at h
    | some a =>
      cases h2 : coerceList T false t xs with
      | none => simp [h1, h2] at h
      | some b =>
        simp only [h1, h2] at h
        simp only [coerce_mono T x t a h1, coerceList_mono T xs t b h2]
        exact h
theorem coerceEntries_mono (T : Table) : ∀ (fs : List (String × GValue)) (fields : List InField)
    (es : List (String × GValue)),
    coerceEntries T false fields fs = some es → coerceEntries T true fields fs = some es
  | [], fields, es, h => by simpa [coerceEntries] using h
  | (k, v) :: rest, fields, es, h => by
    simp only [coerceEntries] at h ⊢
    cases hf : fields.find? (·.name = k) with
    | none => simp [hf] at h
    | some f =>
      simp only [hf] at h ⊢
      cases h1 : coerce T false f.ty.gql v with
      | none => simp [h1] at h
      | some a =>
        cases h2 : coerceEntries T false fields rest with
        | none => simp [h1, h2] at h
        | some b =>
          simp only [h1, h2] at h
          simp only [coerce_mono T v f.ty.gql a h1, coerceEntries_mono T rest fields b h2]
          exact h
end

-- ------------------------------------------------------------------ what coerces is valid

theorem coerce_null_inv (T : Table) (j : Bool) (ty : TypeRef) (a : GValue) (h : coerce T j ty .null = some a) :
    a = .null := by
  simp only [coerce] at h
  split at h <;> simp_all

mutual
theorem coerce_valid (np : Bool) (T : Table) (hw : wfTable2 T = true) : ∀ (v : GValue) (ty : TypeRef) (c : GValue),
    coerce T true ty v = some c → isValid np T ty v = true
  | .null, ty, c, h => by
    simp only [coerce] at h
    simp only [isValid]
    split at h <;> simp_all
  | .int i, ty, c, h => by
    simp only [coerce, Option.map_eq_some_iff] at h
    obtain ⟨a, ha, _⟩ := h; simp only [isValid]; exact coerceLeaf_valid np T _ _ _ ha
  | .float i, ty, c, h => by
    simp only [coerce, Option.map_eq_some_iff] at h
    obtain ⟨a, ha, _⟩ := h; simp only [isValid]; exact coerceLeaf_valid np T _ _ _ ha
  | .str i, ty, c, h => by
    simp only [coerce, Option.map_eq_some_iff] at h
    obtain ⟨a, ha, _⟩ := h; simp only [isValid]; exact coerceLeaf_valid np T _ _ _ ha
  | .bool i, ty, c, h => by
    simp only [coerce, Option.map_eq_some_iff] at h
    obtain ⟨a, ha, _⟩ := h; simp only [isValid]; exact coerceLeaf_valid np T _ _ _ ha
  | .enum i, ty, c, h => by
    simp only [coerce, Option.map_eq_some_iff] at h
    obtain ⟨a, ha, _⟩ := h; simp only [isValid]; exact coerceLeaf_valid np T _ _ _ ha
  | .list xs, ty, c, h => by
    simp only [coerce] at h
    simp only [isValid]
    split at h
    · rename_i t ht
      simp only [Option.map_eq_some_iff] at h
      obtain ⟨a, ha, _⟩ := h
      simp only [ht]
      exact coerceList_valid np T hw xs t a ha
    · cases h
  | .obj fs, ty, c, h => by
    simp only [coerce] at h
    simp only [isValid]
    split at h
    · rename_i o fields hf
      simp only [hf]
      cases hc : coerceEntries T true fields fs with
      | none => simp [hc] at h
      | some es =>
        simp only [hc, Option.map_eq_some_iff] at h
        obtain ⟨r, hr, _⟩ := h
        have hent := coerceEntries_valid np T hw fs fields es hc
        have hkeys := coerceEntries_keys T true fields fs es hc
        simp only [hent, Bool.and_true, Bool.and_eq_true]
        cases o with
        | false =>
          simp only [Bool.false_eq_true, if_false] at hr
          refine ⟨by simp, ?_⟩
          rw [requiredPresent_iff]
          have := (finishFields_some_iff fields es).mp (by simp [hr])
          intro f hfm
          rw [← lookup_isSome_keys es fs hkeys]
          exact this f hfm
        | true =>
          simp only [if_true] at hr
          obtain ⟨k, a, rfl, hane⟩ := finishOneOf_some es r hr
          have hnul := wfTable2_find hw hf
          constructor
          · cases fs with
            | nil => simp at hkeys
            | cons e rest =>
              obtain ⟨k', v⟩ := e
              cases rest with
              | cons _ _ => simp at hkeys
              | nil =>
                have hv : v ≠ .null := by
                  intro e; subst e
                  simp only [coerceEntries] at hc
                  split at hc
                  · cases hc
                  · rename_i f _
                    cases h1 : coerce T true f.ty.gql .null with
                    | none => simp [h1] at hc
                    | some a' =>
                      have := coerce_null_inv T true _ a' h1
                      subst this
                      simp [h1] at hc
                      exact hane hc.2.symm
                cases v <;> simp_all
          · rw [requiredPresent_iff]
            intro f hfm
            exact Or.inr (Or.inr (hnul f hfm))
    · cases h
theorem coerceList_valid (np : Bool) (T : Table) (hw : wfTable2 T = true) : ∀ (xs : List GValue) (t : TypeRef) (cs : List GValue),
    coerceList T true t xs = some cs → isValidList np T t xs = true
  | [], t, cs, h => by simp [isValidList]
  | x :: xs, t, cs, h => by
    simp only [coerceList] at h
    simp only [isValidList, Bool.and_eq_true]
    cases h1 : coerce T true t x with
    | none => simp [h1] at h
    | some a =>
      cases h2 : coerceList T true t xs with
      | none => simp [h1, h2] at h
      | some b => exact ⟨coerce_valid np T hw x t a h1, coerceList_valid np T hw xs t b h2⟩
theorem coerceEntries_valid (np : Bool) (T : Table) (hw : wfTable2 T = true) : ∀ (fs : List (String × GValue)) (fields : List InField)
    (es : List (String × GValue)),
    coerceEntries T true fields fs = some es → isValidEntries np T fields fs = true
  | [], fields, es, h => by simp [isValidEntries]
  | (k, v) :: rest, fields, es, h => by
    simp only [coerceEntries] at h
    simp only [isValidEntries, Bool.and_eq_true]
    cases hf : fields.find? (·.name = k) with
    | none => simp [hf] at h
    | some f =>
      simp only [hf] at h ⊢
      cases h1 : coerce T true f.ty.gql v with
      | none => simp [h1] at h
      | some a =>
        cases h2 : coerceEntries T true fields rest with
        | none => simp [h1, h2] at h
        | some b => exact ⟨coerce_valid np T hw v f.ty.gql a h1, coerceEntries_valid np T hw rest fields b h2⟩
end


-- ------------------------------------------------------------------ what is valid coerces

theorem leaf_case (T : Table) (ty : TypeRef) (v : GValue) (hl : isLeaf v = true)
    (h : isValidLeaf false T ty.base v = true) (hs : intsSmall v = true) :
    ∃ c, (coerceLeaf T true ty.base v).map (wrap ty) = some c := by
  have := validLeaf_coerce T ty.base v h hs hl
  obtain ⟨a, ha⟩ := Option.isSome_iff_exists.mp this
  exact ⟨wrap ty a, by simp [ha]⟩

mutual
theorem valid_coerce (T : Table) : ∀ (v : GValue) (ty : TypeRef),
    isValid false T ty v = true → intsSmall v = true → ∃ c, coerce T true ty v = some c
  | .null, ty, h, _ => by
    simp only [isValid] at h
    simp only [coerce]
    split <;> simp_all
  | .int i, ty, h, hs => by
    simp only [isValid] at h; simp only [coerce]
    exact leaf_case T ty _ rfl h hs
  | .float i, ty, h, hs => by
    simp only [isValid] at h; simp only [coerce]
    exact leaf_case T ty _ rfl h hs
  | .str i, ty, h, hs => by
    simp only [isValid] at h; simp only [coerce]
    exact leaf_case T ty _ rfl h hs
  | .bool i, ty, h, hs => by
    simp only [isValid] at h; simp only [coerce]
    exact leaf_case T ty _ rfl h hs
  | .enum i, ty, h, hs => by
    simp only [isValid] at h; simp only [coerce]
    exact leaf_case T ty _ rfl h hs
  | .list xs, ty, h, hs => by
    simp only [isValid] at h; simp only [coerce]
    simp only [intsSmall] at hs
    cases ht : ty.nullable with
    | list t =>
      simp only [ht] at h ⊢
      obtain ⟨cs, hcs⟩ := valid_coerceList T xs t h hs
      exact ⟨.list cs, by simp [hcs]⟩
    | named n =>
      simp only [ht] at h
      split at h <;> cases h
    | nonNull t => simp [ht] at h
  | .obj fs, ty, h, hs => by
    simp only [isValid] at h; simp only [coerce]
    simp only [intsSmall] at hs
    cases hf : T.find? ty.base with
    | none => simp [hf] at h
    | some d =>
      cases d with
      | scalar => simp [hf] at h
      | enum vs => simp [hf] at h
      | input o fields =>
        simp only [hf, Bool.and_eq_true] at h ⊢
        obtain ⟨⟨h1, h2⟩, h3⟩ := h
        obtain ⟨es, hes⟩ := valid_coerceEntries T fs fields h2 hs
        have hkeys := coerceEntries_keys T true fields fs es hes
        simp only [hes]
        cases o with
        | false =>
          have : (finishFields fields es).isSome = true := by
            rw [finishFields_some_iff]
            intro f hfm
            rw [lookup_isSome_keys es fs hkeys]
            exact (requiredPresent_iff fields fs).mp h3 f hfm
          obtain ⟨r, hr⟩ := Option.isSome_iff_exists.mp this
          exact ⟨wrap ty (.obj r), by simp [hr]⟩
        | true =>
          simp only [Bool.not_true, Bool.false_or] at h1
          cases fs with
          | nil => simp at h1
          | cons e rest =>
            obtain ⟨k, v⟩ := e
            cases rest with
            | cons _ _ => simp at h1
            | nil =>
              have hv : v ≠ .null := by intro e; subst e; simp at h1
              simp only [coerceEntries] at hes
              split at hes
              · cases hes
              · rename_i f _
                cases hc : coerce T true f.ty.gql v with
                | none => simp [hc] at hes
                | some a =>
                  simp [hc] at hes
                  subst hes
                  have hane := coerce_ne_null T true _ v a hv hc
                  exact ⟨wrap ty (.obj [(k, a)]), by simp [finishOneOf_one k a hane]⟩
theorem valid_coerceList (T : Table) : ∀ (xs : List GValue) (t : TypeRef),
    isValidList false T t xs = true → intsSmallList xs = true →
    ∃ cs, coerceList T true t xs = some cs
  | [], t, _, _ => ⟨[], by simp [coerceList]⟩
  | x :: xs, t, h, hs => by
    simp only [isValidList, intsSmallList, Bool.and_eq_true] at h hs
    obtain ⟨a, ha⟩ := valid_coerce T x t h.1 hs.1
    obtain ⟨b, hb⟩ := valid_coerceList T xs t h.2 hs.2
    exact ⟨a :: b, by simp [coerceList, ha, hb]⟩
theorem valid_coerceEntries (T : Table) : ∀ (fs : List (String × GValue)) (fields : List InField),
    isValidEntries false T fields fs = true → intsSmallFields fs = true →
    ∃ es, coerceEntries T true fields fs = some es
  | [], fields, _, _ => ⟨[], by simp [coerceEntries]⟩
  | (k, v) :: rest, fields, h, hs => by
    simp only [isValidEntries, intsSmallFields, Bool.and_eq_true] at h hs
    cases hf : fields.find? (·.name = k) with
    | none => simp [hf] at h
    | some f =>
      simp only [hf] at h
      obtain ⟨a, ha⟩ := valid_coerce T v f.ty.gql h.1 hs.1
      obtain ⟨b, hb⟩ := valid_coerceEntries T rest fields h.2 hs.2
      exact ⟨(k, a) :: b, by simp [coerceEntries, hf, ha, hb]⟩
end


-- ------------------------------------------------------------------ coerced values have declared keys

mutual
/-- object values are maps: pairwise distinct keys, at every depth -/
def distinctKeys : GValue → Bool
  | .list xs => distinctKeysList xs
  | .obj fs => nodupB (fs.map (·.1)) && distinctKeysFields fs
  | _ => true
def distinctKeysList : List GValue → Bool
  | [] => true
  | x :: xs => distinctKeys x && distinctKeysList xs
def distinctKeysFields : List (String × GValue) → Bool
  | [] => true
  | (_, v) :: rest => distinctKeys v && distinctKeysFields rest
end

mutual
theorem coerce_shapeOk (T : Table) (j : Bool) : ∀ (v : GValue) (ty : TypeRef) (c : GValue),
    coerce T j ty v = some c → distinctKeys v = true → shapeOk T ty v = true
  | .null, _, _, _, _ => by simp [shapeOk]
  | .int _, _, _, _, _ => by simp [shapeOk]
  | .float _, _, _, _, _ => by simp [shapeOk]
  | .str _, _, _, _, _ => by simp [shapeOk]
  | .bool _, _, _, _, _ => by simp [shapeOk]
  | .enum _, _, _, _, _ => by simp [shapeOk]
  | .list xs, ty, c, h, hd => by
    simp only [coerce] at h
    simp only [shapeOk]
    simp only [distinctKeys] at hd
    split at h
    · rename_i t ht
      simp only [Option.map_eq_some_iff] at h
      obtain ⟨a, ha, _⟩ := h
      simp only [ht]
      exact coerceList_shapeOk T j xs t a ha hd
    · cases h
  | .obj fs, ty, c, h, hd => by
    simp only [coerce] at h
    simp only [shapeOk]
    simp only [distinctKeys, Bool.and_eq_true] at hd
    split at h
    · rename_i o fields hf
      simp only [hf]
      cases hc : coerceEntries T j fields fs with
      | none => simp [hc] at h
      | some es => simp [hd.1, coerceEntries_shapeOk T j fs fields es hc hd.2]
    · cases h
theorem coerceList_shapeOk (T : Table) (j : Bool) : ∀ (xs : List GValue) (t : TypeRef) (cs : List GValue),
    coerceList T j t xs = some cs → distinctKeysList xs = true → shapeOkList T t xs = true
  | [], _, _, _, _ => by simp [shapeOkList]
  | x :: xs, t, cs, h, hd => by
    simp only [coerceList] at h
    simp only [distinctKeysList, Bool.and_eq_true] at hd
    simp only [shapeOkList, Bool.and_eq_true]
    cases h1 : coerce T j t x with
    | none => simp [h1] at h
    | some a =>
      cases h2 : coerceList T j t xs with
      | none => simp [h1, h2] at h
      | some b => exact ⟨coerce_shapeOk T j x t a h1 hd.1, coerceList_shapeOk T j xs t b h2 hd.2⟩
theorem coerceEntries_shapeOk (T : Table) (j : Bool) : ∀ (fs : List (String × GValue)) (fields : List InField)
    (es : List (String × GValue)),
    coerceEntries T j fields fs = some es → distinctKeysFields fs = true → shapeOkEntries T fields fs = true
  | [], _, _, _, _ => by simp [shapeOkEntries]
  | (k, v) :: rest, fields, es, h, hd => by
    simp only [coerceEntries] at h
    simp only [distinctKeysFields, Bool.and_eq_true] at hd
    simp only [shapeOkEntries, Bool.and_eq_true]
    cases hf : fields.find? (·.name = k) with
    | none => simp [hf] at h
    | some f =>
      simp only [hf] at h ⊢
      cases h1 : coerce T j f.ty.gql v with
      | none => simp [h1] at h
      | some a =>
        cases h2 : coerceEntries T j fields rest with
        | none => simp [h1, h2] at h
        | some b => exact ⟨coerce_shapeOk T j v f.ty.gql a h1 hd.1, coerceEntries_shapeOk T j rest fields b h2 hd.2⟩
end

-- ------------------------------------------------------------------ compatible types (§5.8.5) coerce alike

theorem compat_facts (a b : TypeRef) (h : compatible a b = true) :
    a.base = b.base ∧ (∀ g, wrap a g = wrap b g) ∧ (b.isNonNull = true → a.isNonNull = true) ∧
    (∀ t, a.nullable = .list t → ∃ t', b.nullable = .list t' ∧ compatible t t' = true) := by
  fun_induction compatible a b with
  | case1 v l ih =>
    obtain ⟨h1, h2, h3, h4⟩ := ih h
    refine ⟨by simpa [TypeRef.base] using h1, by simpa [wrap] using h2, by simp [TypeRef.isNonNull], ?_⟩
    intro t ht
    simp only [TypeRef.nullable] at ht ⊢
    subst ht
    cases l with
    | named n => simp [compatible] at h
    | nonNull l' => simp [compatible] at h
    | list t' => exact ⟨t', rfl, by simpa [compatible] using h⟩
  | case2 => cases h
  | case3 v l hl ih =>
    obtain ⟨h1, h2, h3, h4⟩ := ih h
    refine ⟨by simpa [TypeRef.base] using h1, by simpa [wrap] using h2, by simp [TypeRef.isNonNull], ?_⟩
    intro t ht
    simp only [TypeRef.nullable] at ht
    subst ht
    cases l with
    | named n => simp [compatible] at h
    | nonNull l' => exact absurd rfl (hl l')
    | list t' => exact ⟨t', rfl, by simpa [compatible] using h⟩
  | case4 v l ih =>
    refine ⟨?_, ?_, by simp [TypeRef.isNonNull], ?_⟩
    · obtain ⟨h1, _⟩ := ih h; simpa [TypeRef.base] using h1
    · obtain ⟨_, h2, _⟩ := ih h; intro g; simp [wrap, h2]
    · intro t ht
      simp only [TypeRef.nullable, TypeRef.list.injEq] at ht
      subst ht
      exact ⟨l, rfl, h⟩
  | case5 x y =>
    simp only [decide_eq_true_eq] at h
    subst h
    simp [TypeRef.nullable]
  | case6 => cases h


theorem compat_leaf (T : Table) (j : Bool) (a b : TypeRef) (hc : compatible a b = true) (w : GValue) :
    (coerceLeaf T j a.base w).map (wrap a) = (coerceLeaf T j b.base w).map (wrap b) := by
  obtain ⟨h1, h2, _, _⟩ := compat_facts a b hc
  rw [h1, funext h2]

mutual
/-- a value that coerces at the variable's type coerces to the same value at every position the
    variable may be used in -/
theorem compat_coerce (T : Table) (j : Bool) : ∀ (v : GValue) (a b : TypeRef) (c : GValue),
    compatible a b = true → coerce T j a v = some c → coerce T j b v = some c
  | .null, a, b, c, hc, h => by
    obtain ⟨_, _, h3, _⟩ := compat_facts a b hc
    simp only [coerce] at h ⊢
    cases hb : b.isNonNull
    · split at h <;> simp_all
    · simp [h3 hb] at h
  | .int i, a, b, c, hc, h => by simp only [coerce] at h ⊢; rw [← compat_leaf T j a b hc]; exact h
  | .float i, a, b, c, hc, h => by simp only [coerce] at h ⊢; rw [← compat_leaf T j a b hc]; exact h
  | .str i, a, b, c, hc, h => by simp only [coerce] at h ⊢; rw [← compat_leaf T j a b hc]; exact h
  | .bool i, a, b, c, hc, h => by simp only [coerce] at h ⊢; rw [← compat_leaf T j a b hc]; exact h
  | .enum i, a, b, c, hc, h => by simp only [coerce] at h ⊢; rw [← compat_leaf T j a b hc]; exact h
  | .obj fs, a, b, c, hc, h => by
    obtain ⟨h1, h2, _, _⟩ := compat_facts a b hc
    simp only [coerce] at h ⊢
    rw [← h1, ← funext h2]; exact h
  | .list xs, a, b, c, hc, h => by
    obtain ⟨_, _, _, h4⟩ := compat_facts a b hc
    simp only [coerce] at h ⊢
    split at h
    · rename_i t ht
      obtain ⟨t', ht', hct⟩ := h4 t ht
      simp only [ht']
      simp only [Option.map_eq_some_iff] at h ⊢
      obtain ⟨cs, hcs, rfl⟩ := h
      exact ⟨cs, compat_coerceList T j xs t t' cs hct hcs, rfl⟩
    · cases h
theorem compat_coerceList (T : Table) (j : Bool) : ∀ (xs : List GValue) (t t' : TypeRef) (cs : List GValue),
    compatible t t' = true → coerceList T j t xs = some cs → coerceList T j t' xs = some cs
  | [], _, _, _, _, h => by simpa [coerceList] using h
  | x :: xs, t, t', cs, hc, h => by
    simp only [coerceList] at h ⊢
    cases h1 : coerce T j t x with
    | none => simp [h1] at h
    | some a =>
      cases h2 : coerceList T j t xs with
      | none => simp [h1, h2] at h
      | some b =>
        simp only [h1, h2] at h
        simp only [compat_coerce T j x t t' a hc h1, compat_coerceList T j xs t t' b hc h2]
        exact h
end

end AGV.Lemmas.Coerce
