/-
  Property C13, token level: no reader consumes the token `bad` (the mark of a lexical error), so a
  token stream that contains it is never read to its end.
-/
import AGV.Lemmas.PegC13Doc
namespace AGV.Lemmas.PegX
open AGV.Model.Peg AGV.Model.BuildAst AGV.Spec.Lex AGV.Spec.Parse AGV.Core.PAst AGV.Lemmas.PegC13 AGV.Lemmas.SpecVal

/-- a reader that does not consume `bad` -/
def NoBad {α : Type} (q : Sim α) : Prop := ∀ ts a r, q ts = some (a, r) → bad ∈ ts → bad ∈ r

theorem nobad_seq {α β : Type} {qa : Sim α} {qb : Sim β} (ha : NoBad qa) (hb : NoBad qb) : NoBad (tSeq qa qb) := by
  intro ts x r h hm
  obtain ⟨r1, h1, h2⟩ := tSeq_some h
  exact hb _ _ _ h2 (ha _ _ _ h1 hm)

theorem nobad_opt {α : Type} {q : Sim α} (h : NoBad q) : NoBad (tOpt q) := by
  intro ts o r e hm
  rcases tOpt_some e with ⟨x, -, hq⟩ | ⟨-, rfl, -⟩
  · exact h _ _ _ hq hm
  · exact hm

theorem nobad_or {α : Type} {qa qb : Sim α} (ha : NoBad qa) (hb : NoBad qb) : NoBad (tOr qa qb) := by
  intro ts x r e hm
  rcases tOr_some e with h | ⟨-, h⟩
  · exact ha _ _ _ h hm
  · exact hb _ _ _ h hm

theorem nobad_map {α β : Type} {f : α → β} {q : Sim α} (h : NoBad q) : NoBad (tMap f q) := by
  intro ts y r e hm
  obtain ⟨x, hq, -⟩ := tMap_some e
  exact h _ _ _ hq hm

theorem nobad_not {α : Type} (q : Sim α) : NoBad (tNot q) := by
  intro ts a r h hm
  simp only [tNot] at h
  cases hq : q ts with
  | none => simp [hq] at h; subst h; exact hm
  | some x => simp [hq] at h

theorem nobad_manyF {α : Type} {q : Sim α} (h : NoBad q) : ∀ (n : Nat) (ts : List Tok), bad ∈ ts → bad ∈ (manyF q n ts).2 := by
  intro n
  induction n with
  | zero => intro ts hm; exact hm
  | succ n ih =>
    intro ts hm
    simp only [manyF]
    cases hq : q ts with
    | none => exact hm
    | some x => obtain ⟨a, r⟩ := x; exact ih r (h _ _ _ hq hm)

theorem nobad_rep1 {α : Type} {q : Sim α} (h : NoBad q) : NoBad (tRep1 q) := by
  intro ts xs r e hm
  simp only [tRep1] at e
  cases hq : q ts with
  | none => simp [hq] at e
  | some x =>
    obtain ⟨a, r1⟩ := x
    simp [hq] at e
    obtain ⟨-, rfl⟩ := e
    exact nobad_manyF h _ _ (h _ _ _ hq hm)

theorem bad_ne_name (n : List Char) : bad ≠ .name n := by simp [bad]
theorem bad_ne_spread : bad ≠ .spread := by simp [bad]

theorem nobad_punct (x : Char) (hx : x ≠ '?') : NoBad (tPunct x) := by
  intro ts a r h hm
  simp only [tPunct] at h
  cases hc : closeTok x ts with
  | none => simp [hc] at h
  | some r' =>
    simp [hc] at h
    subst h
    rw [closeTok_some hc] at hm
    rcases List.mem_cons.1 hm with e | hm
    · simp [bad] at e; exact absurd e.symm hx
    · exact hm

theorem nobad_pName : NoBad pName := by
  intro ts a r h hm
  unfold pName at h
  split at h
  · cases h
    rcases List.mem_cons.1 hm with e | hm
    · exact absurd e (bad_ne_name _)
    · exact hm
  · cases h

theorem nobad_kw (x : List Char) : NoBad (tKw x) := by
  intro ts a r h hm
  cases a
  rw [tKw_inv h] at hm
  rcases List.mem_cons.1 hm with e | hm
  · exact absurd e (bad_ne_name _)
  · exact hm

theorem nobad_spread : NoBad tSpread := by
  intro ts a r h hm
  unfold tSpread at h
  split at h
  · cases h
    rcases List.mem_cons.1 hm with e | hm
    · exact absurd e bad_ne_spread
    · exact hm
  · cases h

theorem nobad_opType : NoBad qOpType := by
  intro ts a r h hm
  unfold qOpType at h
  split at h
  · rename_i n r'
    cases ho : AGV.Spec.Parse.opTypeOf n with
    | none => simp [ho] at h
    | some ty =>
      simp [ho] at h
      obtain ⟨-, rfl⟩ := h
      rcases List.mem_cons.1 hm with e | hm
      · exact absurd e (bad_ne_name _)
      · exact hm
  · cases h

/-- values, items up to `]`, fields up to `}` do not consume `bad` -/
theorem spec_nobad (P : Params) (c : Bool) : ∀ (L : Nat) (ts : List Tok), ts.length ≤ L → bad ∈ ts →
    (∀ f v r, pValue P c f ts = some (v, r) → bad ∈ r) ∧
    (∀ f g vs r, pValue.items P c f g ts = some (vs, r) → bad ∈ r) ∧
    (∀ f g vs r, pValue.fields P c f g ts = some (vs, r) → bad ∈ r) := by
  intro L
  induction L using Nat.strongRecOn with
  | _ L ih =>
    intro ts hL hm
    have hv : ∀ f v r, pValue P c f ts = some (v, r) → bad ∈ r := by
      intro f v r h
      cases f with
      | zero => rw [pValue.eq_def] at h; cases h
      | succ f =>
        cases ts with
        | nil => cases hm
        | cons t r0 =>
          simp only [List.length_cons] at hL
          have hm0 : t = bad ∨ bad ∈ r0 := by
            rcases List.mem_cons.1 hm with e | e
            · exact Or.inl e.symm
            · exact Or.inr e
          cases t with
          | punct y =>
            by_cases h1 : y = '$'
            · subst h1
              rw [pValue_dollar] at h
              split at h
              · cases h
              · cases hp : pName r0 with
                | none => simp [hp] at h
                | some x =>
                  simp [hp] at h; obtain ⟨-, rfl⟩ := h
                  rcases hm0 with e | e
                  · simp [bad] at e
                  · exact nobad_pName _ _ _ hp e
            by_cases h2 : y = '['
            · subst h2
              rw [pValue_lbrack] at h
              cases hi : pValue.items P c f (r0.length + 1) r0 with
              | none => simp [hi] at h
              | some x =>
                simp [hi] at h; obtain ⟨-, rfl⟩ := h
                rcases hm0 with e | e
                · simp [bad] at e
                · exact (ih r0.length (by omega) r0 (Nat.le_refl _) e).2.1 _ _ _ _ hi
            by_cases h3 : y = '{'
            · subst h3
              rw [pValue_lbrace] at h
              cases hi : pValue.fields P c f (r0.length + 1) r0 with
              | none => simp [hi] at h
              | some x =>
                simp [hi] at h; obtain ⟨-, rfl⟩ := h
                rcases hm0 with e | e
                · simp [bad] at e
                · exact (ih r0.length (by omega) r0 (Nat.le_refl _) e).2.2 _ _ _ _ hi
            · rw [pValue_punct_other P c _ y r0 h1 h2 h3] at h; cases h
          | spread => rw [pValue_spread] at h; cases h
          | name n =>
            rw [pValue_name] at h
            have : bad ∈ r0 := by
              rcases hm0 with e | e
              · simp [bad] at e
              · exact e
            repeat' (split at h)
            all_goals (cases h; exact this)
          | int n d =>
            rw [pValue_int] at h; cases h
            rcases hm0 with e | e
            · simp [bad] at e
            · exact e
          | float n i fr e x =>
            rw [pValue_float] at h
            split at h
            · cases h
            · cases h
              rcases hm0 with e' | e'
              · simp [bad] at e'
              · exact e'
          | str v =>
            rw [pValue_str] at h; cases h
            rcases hm0 with e | e
            · simp [bad] at e
            · exact e
    refine ⟨hv, ?_, ?_⟩
    · intro f g vs r h
      cases g with
      | zero => rw [pValue.items.eq_def] at h; cases h
      | succ g =>
        by_cases hc : ∃ r0, ts = .punct ']' :: r0
        · obtain ⟨r0, rfl⟩ := hc
          rw [items_close] at h; cases h
          rcases List.mem_cons.1 hm with e | e
          · simp [bad] at e
          · exact e
        · rw [items_elem P c f g ts (fun r0 e => hc ⟨r0, e⟩)] at h
          cases hp : pValue P c f ts with
          | none => simp [hp] at h
          | some x =>
            obtain ⟨v, r1⟩ := x
            simp only [hp, Option.bind_some] at h
            have h1 := pValue_len P c hp
            have hb1 := hv _ _ _ hp
            cases hi : pValue.items P c f g r1 with
            | none => simp [hi] at h
            | some y =>
              simp [hi] at h; obtain ⟨-, rfl⟩ := h
              exact (ih r1.length (by omega) r1 (Nat.le_refl _) hb1).2.1 _ _ _ _ hi
    · intro f g vs r h
      cases g with
      | zero => rw [pValue.fields.eq_def] at h; cases h
      | succ g =>
        by_cases hc : ∃ r0, ts = .punct '}' :: r0
        · obtain ⟨r0, rfl⟩ := hc
          rw [fields_close] at h; cases h
          rcases List.mem_cons.1 hm with e | e
          · simp [bad] at e
          · exact e
        · by_cases hn : ∃ n r0, ts = .name n :: .punct ':' :: r0
          · obtain ⟨n, r0, rfl⟩ := hn
            simp only [List.length_cons] at hL
            have hm1 : bad ∈ r0 := by
              rcases List.mem_cons.1 hm with e | e
              · simp [bad] at e
              · rcases List.mem_cons.1 e with e | e
                · simp [bad] at e
                · exact e
            rw [fields_elem] at h
            cases hp : pValue P c f r0 with
            | none => simp [hp] at h
            | some x =>
              obtain ⟨v, r1⟩ := x
              simp only [hp, Option.bind_some] at h
              have h1 := pValue_len P c hp
              have hb1 := (ih r0.length (by omega) r0 (Nat.le_refl _) hm1).1 _ _ _ hp
              cases hi : pValue.fields P c f g r1 with
              | none => simp [hi] at h
              | some y =>
                simp [hi] at h; obtain ⟨-, rfl⟩ := h
                exact (ih r1.length (by omega) r1 (Nat.le_refl _) hb1).2.2 _ _ _ _ hi
          · rw [fields_other P c f (g + 1) ts (fun r0 e => hc ⟨r0, e⟩) (fun n r0 e => hn ⟨n, r0, e⟩)] at h
            cases h

theorem nobad_pV (c : Bool) : NoBad (pV P' c) := fun ts a r h hm =>
  (spec_nobad P' c ts.length ts (Nat.le_refl _) hm).1 _ _ _ h

theorem nobad_pArgList (c : Bool) : ∀ (L : Nat) (ts : List Tok), ts.length ≤ L → ∀ g a r,
    pArgList P' c g ts = some (a, r) → bad ∈ ts → bad ∈ r := by
  intro L
  induction L using Nat.strongRecOn with
  | _ L ih =>
    intro ts hL g a r h hm
    cases g with
    | zero => rw [pArgList] at h; cases h
    | succ g =>
      by_cases hn : ∃ n r0, ts = .name n :: .punct ':' :: r0
      · obtain ⟨n, r0, rfl⟩ := hn
        have hm1 : bad ∈ r0 := by
          rcases List.mem_cons.1 hm with e | e
          · simp [bad] at e
          · rcases List.mem_cons.1 e with e | e
            · simp [bad] at e
            · exact e
        rw [pArgList_nc] at h
        cases hp : pV P' c r0 with
        | none => simp [hp] at h
        | some x =>
          have hl := pV_len P' c (v := x.1) (r := x.2) hp
          have hb1 := nobad_pV c _ _ _ hp hm1
          simp only [hp, Option.bind_some] at h
          cases hcl : closeTok ')' x.2 with
          | some r' =>
            simp only [hcl] at h
            cases h
            rw [closeTok_some hcl] at hb1
            rcases List.mem_cons.1 hb1 with e | e
            · simp [bad] at e
            · exact e
          | none =>
            simp only [hcl] at h
            cases hr : pArgList P' c g x.2 with
            | none => simp [hr] at h
            | some y =>
              simp [hr] at h
              obtain ⟨-, rfl⟩ := h
              simp only [List.length_cons] at hL
              exact ih x.2.length (by omega) x.2 (Nat.le_refl _) g _ _ hr hb1
      · rw [pArgList_other c _ ts (fun n r e => hn ⟨n, r, e⟩)] at h; cases h

theorem nobad_pArgsV (c : Bool) : NoBad (pArgsV c) := by
  intro ts a r h hm
  unfold pArgsV at h
  cases hc : closeTok '(' ts with
  | none => simp [hc] at h
  | some r1 =>
    simp only [hc] at h
    rw [closeTok_some hc] at hm
    have hm1 : bad ∈ r1 := by
      rcases List.mem_cons.1 hm with e | e
      · simp [bad] at e
      · exact e
    exact nobad_pArgList c r1.length r1 (Nat.le_refl _) _ _ _ h hm1

theorem ne_q (x : Char) (h : x ∈ ['@', '(', ')', ':', '[', ']', '!', '$', '=', '{', '}']) : x ≠ '?' := by
  intro e; subst e; revert h; decide

theorem nobad_qDirective (c : Bool) : NoBad (qDirective c) :=
  nobad_map (nobad_seq (nobad_punct '@' (by decide)) (nobad_seq nobad_pName (nobad_opt (nobad_pArgsV c))))

theorem nobad_qDirectives (c : Bool) : NoBad (qDirectives c) := nobad_rep1 (nobad_qDirective c)

theorem nobad_qType : ∀ n, NoBad (qType n) := by
  intro n
  induction n with
  | zero => intro ts a r h; cases h
  | succ n ih =>
    show NoBad (qTypeBody (qType n))
    unfold qTypeBody
    exact nobad_map (nobad_seq (nobad_or (nobad_map nobad_pName) (nobad_map (nobad_seq (nobad_punct '[' (by decide))
      (nobad_seq ih (nobad_punct ']' (by decide)))))) (nobad_opt (nobad_punct '!' (by decide))))

theorem nobad_qVarDef (n : Nat) : NoBad (qVarDef n) :=
  nobad_map (nobad_seq (nobad_map (nobad_seq (nobad_punct '$' (by decide)) nobad_pName))
    (nobad_seq (nobad_punct ':' (by decide)) (nobad_seq (nobad_qType n)
      (nobad_seq (nobad_opt (nobad_map (nobad_seq (nobad_punct '=' (by decide)) (nobad_pV true))))
        (nobad_opt (nobad_qDirectives true))))))

theorem nobad_qVarDefs (n : Nat) : NoBad (qVarDefs n) :=
  nobad_map (nobad_seq (nobad_punct '(' (by decide)) (nobad_seq (nobad_rep1 (nobad_qVarDef n)) (nobad_punct ')' (by decide))))

theorem nobad_qTypeCond : NoBad qTypeCond := nobad_map (nobad_seq (nobad_kw onKw) nobad_pName)

theorem nobad_qSelection {ss : Sim (List PSel)} (h : NoBad ss) : NoBad (qSelection ss) :=
  nobad_or (nobad_map (nobad_seq (nobad_opt (nobad_map (nobad_seq nobad_pName (nobad_punct ':' (by decide)))))
      (nobad_seq nobad_pName (nobad_seq (nobad_opt (nobad_pArgsV false)) (nobad_seq (nobad_opt (nobad_qDirectives false))
        (nobad_opt h))))))
    (nobad_or (nobad_map (nobad_seq nobad_spread (nobad_seq (nobad_opt nobad_qTypeCond)
        (nobad_seq (nobad_opt (nobad_qDirectives false)) h))))
      (nobad_map (nobad_seq nobad_spread (nobad_seq (nobad_not _) (nobad_seq (nobad_not _) (nobad_seq nobad_pName
        (nobad_opt (nobad_qDirectives false))))))))

theorem nobad_qSelSet : ∀ n, NoBad (qSelSet n) := by
  intro n
  induction n with
  | zero => intro ts a r h; cases h
  | succ n ih =>
    show NoBad (qSelSetBody (qSelSet n))
    unfold qSelSetBody
    exact nobad_map (nobad_seq (nobad_punct '{' (by decide)) (nobad_seq (nobad_rep1 (nobad_qSelection ih))
      (nobad_punct '}' (by decide))))

theorem nobad_qDefinition (n : Nat) : NoBad (qDefinition n) :=
  nobad_or (nobad_or
    (nobad_map (nobad_seq nobad_opType (nobad_seq (nobad_opt nobad_pName) (nobad_seq (nobad_opt (nobad_qVarDefs n))
      (nobad_seq (nobad_opt (nobad_qDirectives false)) (nobad_qSelSet n))))))
    (nobad_map (nobad_qSelSet n)))
    (nobad_map (nobad_seq (nobad_kw kwFragment) (nobad_seq (nobad_not _) (nobad_seq nobad_pName (nobad_seq nobad_qTypeCond
      (nobad_seq (nobad_opt (nobad_qDirectives false)) (nobad_qSelSet n)))))))

/-- a token stream with a lexical error is no document for the interpreter either -/
theorem qDocument_bad (n : Nat) (ts : List Tok) (h : bad ∈ ts) : qDocument n ts = none := by
  cases hq : qDocument n ts with
  | none => rfl
  | some x =>
    obtain ⟨defs, r⟩ := x
    obtain ⟨y, hy, -⟩ := tMap_some hq
    obtain ⟨r1, h1, h2⟩ := tSeq_some hy
    have hb := nobad_rep1 (nobad_qDefinition n) _ _ _ h1 h
    unfold tEOI at h2
    split at h2
    · cases hb
    · cases h2
end AGV.Lemmas.PegX
