/-
  Helper lemmas for the `numbers` part of property C12 (Model/HostileNum.lean): no value makes an
  integer scalar of the source-derived table panic; which integers are answered with data.
  Built on the C07 lemmas about the same table (Lemmas/Scalars.lean).  Core Lean only.
-/
import AGV.Model.HostileNum
import AGV.Lemmas.Scalars

namespace AGV.Lemmas.HostileNum
open AGV.Gen.IntScalars AGV.Model.Scalars AGV.Model.HostileNum AGV.Lemmas.Scalars
open AGV.Spec.Scalars (GValue inIntDomain)

/-- the guard of the registered `Int` validator, as far as it matters: `add_system_types` registers
    a plain (not NonZero) type first whose `is_valid` is `is_i64()` or `is_i64() || is_u64()` -/
theorem registered_guard :
    registeredIntEntry.map (fun e => (e.nonZero, e.isValid, e.isValidOr)) = some (false, .i64, []) ∨
    registeredIntEntry.map (fun e => (e.nonZero, e.isValid, e.isValidOr)) = some (false, .i64, [.u64]) := by
  decide

/-- WHICH integers the validator registered under `Int` lets through: those `as_i64()` can read
    (the pinned tree) or every integer a `Number` holds (after the repair of finding
    C07-int-validator-of-first-registered) — whichever the source says -/
theorem registeredIntValid_cases :
    (∀ i, registeredIntValid (.int i) = readableB .i64 i) ∨
    (∀ i, registeredIntValid (.int i) = (readableB .i64 i || readableB .u64 i)) := by
  rcases registered_guard with h | h
  · left; intro i; unfold registeredIntValid
    cases he : registeredIntEntry with
    | none => simp [he] at h
    | some e =>
      simp only [he, Option.map_some, Option.some.injEq, Prod.mk.injEq] at h
      obtain ⟨h1, h2, h3⟩ := h
      simp [isValidInt, h1, h2, h3]
  · right; intro i; unfold registeredIntValid
    cases he : registeredIntEntry with
    | none => simp [he] at h
    | some e =>
      simp only [he, Option.map_some, Option.some.injEq, Prod.mk.injEq] at h
      obtain ⟨h1, h2, h3⟩ := h
      simp [isValidInt, h1, h2, h3]

theorem registeredIntValid_nonint (v : GValue) (h : ∀ i, v ≠ .int i) : registeredIntValid v = false := by
  unfold registeredIntValid
  cases v <;> simp at h <;> split <;> simp [isValidInt, pinnedValidInt]

/-- no value of any kind makes an integer scalar of the source panic -/
theorem parseInt_ne_panic (t : Entry) (ht : t ∈ table) (v : GValue) : parseInt t v ≠ .panic := by
  by_cases hx : ∃ i, v = .int i
  · obtain ⟨i, rfl⟩ := hx
    by_cases hd : inIntDomain t.name i
    · rw [parseInt_in t ht i hd]; simp
    · obtain ⟨e, he⟩ := parseInt_out t ht i hd
      rw [he]; simp
  · obtain ⟨e, he⟩ := parseInt_other t v (fun i hi => hx ⟨i, hi⟩)
    rw [he]; simp

theorem answerInt_ne_crash (t : Entry) (ht : t ∈ table) (v : GValue) : answerInt t v ≠ .crash := by
  unfold answerInt
  split
  · simp
  · have := parseInt_ne_panic t ht v
    split <;> simp_all

theorem answerValue_ne_crash (ty : NTy) (h : ty.fromSource) (v : GValue) : answerValue ty v ≠ .crash := by
  cases ty with
  | int t => exact answerInt_ne_crash t h v
  | float => cases v <;> simp [answerValue, parseF64]
  | id =>
    have hp : parseId .none v ≠ .panic := by
      cases v <;> simp [parseId]
      split <;> simp
    simp only [answerValue]
    split <;> simp_all

theorem readable_bounds (a : Acc) (n : Int) (h : readable a n) : i64Min ≤ n ∧ n ≤ u64Max := by
  cases a <;> simp [readable, i64Min, i64Max, u64Max] at * <;> omega

theorem parseInt_ok_readable (t : Entry) (n r : Int) (h : parseInt t (.int n) = .ok r) : readable t.accessor n := by
  by_cases hr : readable t.accessor n
  · exact hr
  · simp [parseInt, hr] at h

theorem lexNumber_int (n : Int) (h : i64Min ≤ n ∧ n ≤ u64Max) : lexNumber n = .int n := by
  simp [lexNumber, h]

theorem answerInt_float (t : Entry) (b : Nat) : answerInt t (.float b) = .error := by
  simp [answerInt, registeredIntValid_nonint (.float b) (by simp)]

/-- accepted: exactly the integers of the type's range that the registered `Int` validator lets through -/
theorem numAnswer_int_accept (t : Entry) (ht : t ∈ table) (n : Int) (hd : inIntDomain t.name n)
    (hv : registeredIntValid (.int n) = true) :
    numAnswer (.int t) n = .data (.int n) := by
  have hp := parseInt_in t ht n hd
  have hb := readable_bounds _ _ (parseInt_ok_readable t n n hp)
  simp [numAnswer, answerValue, lexNumber_int n hb, answerInt, hv, hp]

theorem numAnswer_int_reject (t : Entry) (ht : t ∈ table) (n : Int)
    (h : ¬ (inIntDomain t.name n ∧ registeredIntValid (.int n) = true)) :
    numAnswer (.int t) n = .error := by
  by_cases hb : i64Min ≤ n ∧ n ≤ u64Max
  · simp only [numAnswer, answerValue, lexNumber_int n hb, answerInt]
    by_cases hv : registeredIntValid (.int n) = true
    · have hd : ¬ inIntDomain t.name n := fun hd => h ⟨hd, hv⟩
      obtain ⟨e, he⟩ := parseInt_out t ht n hd
      simp [hv, he]
    · simp [hv]
  · simp only [numAnswer, answerValue, lexNumber, hb, if_false]
    exact answerInt_float t 0

theorem numAnswer_id (n : Int) :
    numAnswer .id n = if i64Min ≤ n ∧ n ≤ u64Max then .data (.int n) else .error := by
  by_cases hb : i64Min ≤ n ∧ n ≤ u64Max
  · have : readable .i64 n ∨ (Defects.none.idRejectsLargeUint = false ∧ readable .u64 n) := by
      simp only [readable, Defects.none, i64Min, i64Max, u64Max, true_and] at *; omega
    simp [numAnswer, lexNumber, hb, answerValue, parseId, this]
  · simp [numAnswer, lexNumber, hb, answerValue, parseId]

theorem numAnswer_float (n : Int) : numAnswer .float n = .data .float := by
  by_cases hb : i64Min ≤ n ∧ n ≤ u64Max <;> simp [numAnswer, lexNumber, hb, answerValue, parseF64]

end AGV.Lemmas.HostileNum
