import AGV.Model.DynCheck
import AGV.Model.DynLookups
import AGV.Spec.TypeSystem

namespace AGV.Lemmas.DynCheck
open AGV.Model.DynCheck

theorem forEach_ok_iff {α : Type} (f : α → R) (l : List α) :
    forEach f l = .ok () ↔ ∀ x ∈ l, f x = .ok () := by
  induction l with
  | nil => simp [forEach]
  | cons x xs ih =>
    simp only [forEach, List.mem_cons, forall_eq_or_imp]
    cases h : f x with
    | error e => simp
    | ok u => cases u; simp [ih]

theorem andThen_ok_iff (a : R) (b : Unit → R) : andThen a b = .ok () ↔ a = .ok () ∧ b () = .ok () := by
  cases a with
  | error e => simp [andThen]
  | ok u => cases u; simp [andThen]

theorem existsCheck_ok_iff (types : List TypeDef) (names : List String) :
    existsCheck types names = .ok () ↔ ∀ n ∈ names, (getType types n).isSome = true := by
  unfold existsCheck
  rw [forEach_ok_iff]
  constructor
  · intro h n hn
    have := h n hn
    by_cases hs : (getType types n).isSome = true
    · exact hs
    · simp [hs] at this
  · intro h n hn
    simp [h n hn]

open AGV.Spec.TypeSystem (validImplFieldType lookup systemScalars)

theorem subtype_spec (nm : String → String → Bool) (sup sub : TypeRef) :
    isSubtypeWith nm sup sub = validImplFieldType (fun f i => nm i f) sub sup := by
  induction sub generalizing sup with
  | named b => cases sup <;> simp [isSubtypeWith, validImplFieldType]
  | nonNull b ih => cases sup <;> simp [isSubtypeWith, validImplFieldType, ih]
  | list b ih => cases sup <;> simp [isSubtypeWith, validImplFieldType, ih]

theorem getType_allTypes (T : TypeSystem) (n : String) : getType (allTypes T) n = lookup T n := by
  unfold getType allTypes lookup
  rw [List.find?_append]
  cases h : List.find? (fun t => t.name == n) T.types with
  | some t => simp
  | none =>
    simp only [Option.none_or, builtinScalars, systemScalars, List.map, List.find?, TypeDef.name]
    by_cases h1 : "Int" = n
    · subst h1; simp
    by_cases h2 : "Float" = n
    · subst h2; simp
    by_cases h3 : "Boolean" = n
    · subst h3; simp
    by_cases h4 : "String" = n
    · subst h4; simp
    by_cases h5 : "ID" = n
    · subst h5; simp
    have e1 : ("Int" == n) = false := by simpa using h1
    have e2 : ("Float" == n) = false := by simpa using h2
    have e3 : ("Boolean" == n) = false := by simpa using h3
    have e4 : ("String" == n) = false := by simpa using h4
    have e5 : ("ID" == n) = false := by simpa using h5
    have f1 : ¬ n = "Int" := fun h => h1 h.symm
    have f2 : ¬ n = "Float" := fun h => h2 h.symm
    have f3 : ¬ n = "Boolean" := fun h => h3 h.symm
    have f4 : ¬ n = "String" := fun h => h4 h.symm
    have f5 : ¬ n = "ID" := fun h => h5 h.symm
    simp [e1, e2, e3, e4, e5, f1, f2, f3, f4, f5]

end AGV.Lemmas.DynCheck
