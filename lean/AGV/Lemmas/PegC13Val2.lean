/-
  Property C13: what the tree builder (`parse_value`) computes from the pairs of the scalar
  alternatives of `value`, and the number token text.
-/
import AGV.Lemmas.PegC13Val1
import AGV.Lemmas.PegC13SpecVal
namespace AGV.Lemmas.PegX
open AGV.Model.Peg AGV.Model.BuildAst AGV.Spec.Lex AGV.Spec.Parse AGV.Core.PAst AGV.Lemmas.PegC13 AGV.Lemmas.SpecVal

/-- `t` is the part of the document `s₀` from offset `q` on -/
def At (s₀ : List Char) (q : Nat) (t : List Char) : Prop := ∃ pre, s₀ = pre ++ t ∧ pre.length = q

theorem At.consumes {s₀ q t q' t'} (h : At s₀ q t) (hc : Consumes q t q' t') : At s₀ q' t' := by
  obtain ⟨pre, rfl, rfl⟩ := h
  obtain ⟨mid, rfl, rfl⟩ := hc
  exact ⟨pre ++ mid, by simp, by simp⟩

theorem At.skip {s₀ q t} (h : At s₀ q t) : At s₀ (skipPos q t) (skipI t) := by
  have := (ev_skip0 q t).consumes
  exact h.consumes this

/-- the text of a pair that starts at `q` -/
theorem asStr_at {s₀ q t} (h : At s₀ q t) (k : Nat) (r : String) (inner : List Pair) :
    Env.asStr ⟨Defects.none, s₀.toArray⟩ (Pair.mk r q (q + k) inner) = t.take k := by
  obtain ⟨pre, rfl, rfl⟩ := h
  exact asStr_anchor Defects.none pre t k r inner

def envOf (s₀ : List Char) : Env := ⟨Defects.none, s₀.toArray⟩

mutual
/-- a value as the tree builder stores it: object literals collected into an `IndexMap` -/
def normV : PValue → PValue
  | .list xs => .list (normVs xs)
  | .obj fs => .obj (indexMapCollect (normFs fs))
  | v => v
def normVs : List PValue → List PValue
  | [] => []
  | x :: xs => normV x :: normVs xs
def normFs : List (Name × PValue) → List (Name × PValue)
  | [] => []
  | (k, v) :: fs => (k, normV v) :: normFs fs
end

mutual
/-- no float in the value is the infinite double (the parser rejects those) -/
def finV : PValue → Bool
  | .float b => b != AGV.F64.infBits
  | .list xs => finVs xs
  | .obj fs => finFs fs
  | _ => true
def finVs : List PValue → Bool
  | [] => true
  | x :: xs => finV x && finVs xs
def finFs : List (Name × PValue) → Bool
  | [] => true
  | (_, v) :: fs => finV v && finFs fs
end

/-- what the tree builder makes of a pair that denotes `v`: the stored form, or a number error
    when some float literal in `v` denotes the infinite double -/
def expV (v : PValue) : Except PErr PValue := if finV v then .ok (normV v) else .error .number
def expVs (vs : List PValue) : Except PErr (List PValue) := if finVs vs then .ok (normVs vs) else .error .number
def expFs (fs : List (Name × PValue)) : Except PErr (List (Name × PValue)) :=
  if finFs fs then .ok (normFs fs) else .error .number

theorem expV_fin {v : PValue} (h : finV v = true) : expV v = .ok (normV v) := by simp [expV, h]
theorem expV_inf {v : PValue} (h : finV v = false) : expV v = .error .number := by simp [expV, h]
theorem expVs_fin {vs : List PValue} (h : finVs vs = true) : expVs vs = .ok (normVs vs) := by simp [expVs, h]
theorem expVs_inf {vs : List PValue} (h : finVs vs = false) : expVs vs = .error .number := by simp [expVs, h]
theorem expFs_fin {fs : List (Name × PValue)} (h : finFs fs = true) : expFs fs = .ok (normFs fs) := by
  simp [expFs, h]
theorem expFs_inf {fs : List (Name × PValue)} (h : finFs fs = false) : expFs fs = .error .number := by
  simp [expFs, h]

theorem expVs_nil : expVs [] = .ok [] := rfl
theorem expFs_nil : expFs [] = .ok [] := rfl

/-- the expected result for a list is that of `mapM` over the expected results of its elements:
    the first error stops it, and every error is the number error -/
theorem expVs_cons (v : PValue) (vs : List PValue) :
    expVs (v :: vs) = (expV v).bind (fun x => (expVs vs).bind (fun xs => .ok (x :: xs))) := by
  cases h1 : finV v <;> cases h2 : finVs vs <;> simp [expVs, expV, finVs, normVs, h1, h2, Except.bind]

theorem expFs_cons (n : Name) (v : PValue) (fs : List (Name × PValue)) :
    expFs ((n, v) :: fs) =
      ((expV v).map (fun x => (n, x))).bind (fun x => (expFs fs).bind (fun xs => .ok (x :: xs))) := by
  cases h1 : finV v <;> cases h2 : finFs fs <;>
    simp [expFs, expV, finFs, normFs, h1, h2, Except.bind, Except.map]

theorem expV_list (vs : List PValue) : expV (.list vs) = (expVs vs).map .list := by
  cases h : finVs vs <;> simp [expV, expVs, finV, normV, h, Except.map]

theorem expV_obj (fs : List (Name × PValue)) :
    expV (.obj fs) = (expFs fs).map (fun fs => .obj (indexMapCollect fs)) := by
  cases h : finFs fs <;> simp [expV, expFs, finV, normV, h, Except.map]

/-- `pr` is a `value` pair from which the tree builder computes `v` (at any sufficient fuel), or
    reports the number error exactly when `v` contains an infinite float -/
def Builds (s₀ : List Char) (pr : Pair) (v : PValue) : Prop :=
  ∀ bf, s₀.length - pr.start < bf → buildValue (envOf s₀) bf pr = expV v

-- ------------------------------------------------------------------ scalars

theorem build_variable (s₀ : List Char) (vn : String) (q q1 q2 k : Nat) (t1 : List Char) (h : At s₀ q1 t1) :
    Builds s₀ (Pair.mk vn q q2 [Pair.mk "variable" q q2 [Pair.mk "name" q1 (q1 + k) []]]) (.var (t1.take k)) := by
  intro bf hbf
  obtain ⟨bf, rfl⟩ : ∃ b, bf = b + 1 := ⟨bf - 1, by omega⟩
  have ha := asStr_at h k "name" []
  simp [buildValue, Pair.inner, Pair.rule, innerName, envOf, normV, expV, finV] at ha ⊢
  rw [ha]; rfl

theorem build_boolean (s₀ : List Char) (vn : String) (q k : Nat) (t : List Char) (h : At s₀ q t) :
    Builds s₀ (Pair.mk vn q (q + k) [Pair.mk "boolean" q (q + k) []]) (.bool (t.take k == ['t', 'r', 'u', 'e'])) := by
  intro bf hbf
  obtain ⟨bf, rfl⟩ : ∃ b, bf = b + 1 := ⟨bf - 1, by omega⟩
  have ha := asStr_at h k "boolean" []
  simp [buildValue, Pair.inner, Pair.rule, envOf, normV, expV, finV] at ha ⊢
  rw [ha]

theorem build_null (s₀ : List Char) (vn : String) (q q2 : Nat) (hq : q < q2) :
    Builds s₀ (Pair.mk vn q q2 [Pair.mk "null" q q2 []]) .null := by
  intro bf hbf
  obtain ⟨bf, rfl⟩ : ∃ b, bf = b + 1 := ⟨bf - 1, by omega⟩
  simp [buildValue, Pair.inner, Pair.rule, normV, expV, finV]

theorem build_enum (s₀ : List Char) (vn : String) (q k : Nat) (t : List Char) (h : At s₀ q t) (hk : 0 < k) :
    Builds s₀ (Pair.mk vn q (q + k) [Pair.mk "enum_value" q (q + k) [Pair.mk "name" q (q + k) []]])
      (.enum (t.take k)) := by
  intro bf hbf
  obtain ⟨bf, rfl⟩ : ∃ b, bf = b + 1 := ⟨bf - 1, by omega⟩
  have ha := asStr_at h k "name" []
  simp [buildValue, Pair.inner, Pair.rule, innerName, envOf, normV, expV, finV] at ha ⊢
  rw [ha]; rfl

-- ------------------------------------------------------------------ integers

theorem digitsOf_split (b : List Char) : b = (digitsOf b).1 ++ (digitsOf b).2 ∧ ∀ c ∈ (digitsOf b).1, isDig c = true := by
  induction b with
  | nil => exact ⟨rfl, by simp [digitsOf]⟩
  | cons c r ih =>
    simp only [digitsOf]
    split
    · rename_i h
      refine ⟨by simp; exact ih.1, ?_⟩
      intro d hd
      simp at hd
      rcases hd with rfl | hd
      · exact h
      · exact ih.2 d hd
    · exact ⟨rfl, by simp⟩

theorem fracT_noFr (r1 : List Char) (h : (fracT r1).2.2 = false) : (fracT r1).2.1 = r1 := by
  unfold fracT at h ⊢
  split
  · split
    · rfl
    · rename_i h2; simp [h2] at h
  · rfl

theorem expT_noEx (r2 : List Char) (h : (expT r2).2.2.2 = false) : (expT r2).2.2.1 = r2 := by
  unfold expT at h ⊢
  repeat' split
  all_goals first | rfl | (simp_all)

theorem lexNumber_int_text {s rest ds : List Char} {neg : Bool} (h : lexNumber s = some (.int neg ds, rest)) :
    s = (if neg then ['-'] else []) ++ ds ++ rest ∧ ds ≠ [] ∧ (∀ c ∈ ds, isDig c = true) := by
  rw [lexNumber_eq] at h
  simp only [lexNumber'] at h
  have hs : s = (if decide (s.head? = some '-') then ['-'] else []) ++ (if s.head? = some '-' then s.tail else s) := by
    cases s with
    | nil => rfl
    | cons c r =>
      by_cases hc : c = '-'
      · subst hc; simp
      · simp [hc]
  generalize (if s.head? = some '-' then s.tail else s) = b at h hs
  have hb := digitsOf_split b
  by_cases hbad : ((digitsOf b).fst.isEmpty || decide ((digitsOf b).fst.head? = some '0') && decide ((digitsOf b).fst.length > 1)) = true
  · simp only [hbad, if_true] at h; cases h
  · simp only [hbad, if_false, Bool.false_eq_true] at h
    split at h
    · cases h
    · split at h
      · cases h
      · rename_i hfl
        simp only [Option.some.injEq, Prod.mk.injEq, Tok.int.injEq] at h
        obtain ⟨⟨h1, h2⟩, h3⟩ := h
        simp only [Bool.or_eq_true, not_or, Bool.not_eq_true] at hfl
        rw [expT_noEx _ hfl.2, fracT_noFr _ hfl.1] at h3
        subst h1 h2 h3
        refine ⟨?_, ?_, hb.2⟩
        · conv => lhs; rw [hs, hb.1]
          simp [List.append_assoc]
        · intro he
          simp [he] at hbad

theorem spanDigits_all (ds : List Char) (hd : ∀ c ∈ ds, isDig c = true) : spanDigits ds = (ds, []) := by
  induction ds with
  | nil => rfl
  | cons c r ih =>
    have hc : isDigitC c = true := hd c (by simp)
    have := ih (fun d hd' => hd d (by simp [hd']))
    simp [spanDigits, hc, this]

theorem parseNumber_int (neg : Bool) (ds : List Char) (hne : ds ≠ []) (hd : ∀ c ∈ ds, isDig c = true) :
    parseNumber Defects.none ((if neg then ['-'] else []) ++ ds) =
      .ok (.int (if neg then -(natOf ds : Int) else natOf ds)) := by
  have hsp := spanDigits_all ds hd
  cases neg with
  | true =>
    simp only [if_true, List.cons_append, List.nil_append, parseNumber, List.head?_cons, List.tail_cons, hsp]
    simp [Defects.none, natOf]
  | false =>
    obtain ⟨d, r, rfl⟩ := List.exists_cons_of_ne_nil hne
    have hd0 : isDig d = true := hd d (by simp)
    have hdm : d ≠ '-' := by
      intro e; subst e; revert hd0; decide
    simp only [Bool.false_eq_true, if_false, List.nil_append, parseNumber, List.head?_cons, Option.some.injEq, hdm,
      decide_false, hsp]
    simp [Defects.none, natOf]

theorem build_int (s₀ : List Char) (vn : String) (q : Nat) (t rest ds : List Char) (neg : Bool) (h : At s₀ q t)
    (hl : lexNumber t = some (.int neg ds, rest)) :
    Builds s₀ (Pair.mk vn q (q + (t.length - rest.length)) [Pair.mk "number" q (q + (t.length - rest.length)) []])
      (.int (if neg then -(natOf ds : Int) else natOf ds)) := by
  obtain ⟨e1, e2, e3⟩ := lexNumber_int_text hl
  intro bf hbf
  obtain ⟨bf, rfl⟩ : ∃ b, bf = b + 1 := ⟨bf - 1, by omega⟩
  have ha := asStr_at h (t.length - rest.length) "number" []
  have hk : t.take (t.length - rest.length) = (if neg then ['-'] else []) ++ ds := by
    generalize hsg : (if neg then ['-'] else []) = sg at e1 ⊢
    have hl2 : t.length - rest.length = (sg ++ ds).length := by
      rw [e1]; simp; omega
    rw [hl2, e1, List.take_left']
    rfl
  rw [hk] at ha
  simp [buildValue, Pair.inner, Pair.rule, envOf, normV, expV, finV] at ha ⊢
  rw [ha]
  exact parseNumber_int neg ds e2 e3
end AGV.Lemmas.PegX
