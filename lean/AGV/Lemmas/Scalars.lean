/-
  Helper lemmas for property C07 (built-in scalars).  Core Lean only.
-/
import AGV.Model.Scalars

namespace AGV.Lemmas.Scalars
open AGV.Gen.IntScalars AGV.Model.Scalars AGV.Spec.Scalars

/-- in-range integers are accepted unchanged — every entry of the generated table -/
theorem parseInt_in (t : Entry) (ht : t ∈ table) (i : Int) (h : inIntDomain t.name i) :
    parseInt t (.int i) = .ok i := by
  simp only [table, List.mem_cons, List.not_mem_nil, or_false] at ht
  rcases ht with rfl | rfl | rfl | rfl | rfl | rfl | rfl | rfl | rfl | rfl | rfl | rfl | rfl | rfl | rfl | rfl | rfl | rfl | rfl | rfl <;>
  · simp [inIntDomain, intKind, minOf, maxOf] at h
    simp [parseInt, readable, i64Min, i64Max, u64Max, cmpHolds, wrap]
    repeat' split
    all_goals (simp only [Res.ok.injEq, reduceCtorEq] at *; omega)

/-- out-of-range integers (and 0 for NonZero) are rejected with an error, never a panic -/
theorem parseInt_out (t : Entry) (ht : t ∈ table) (i : Int) (h : ¬ inIntDomain t.name i) :
    ∃ e, parseInt t (.int i) = .err e := by
  simp only [table, List.mem_cons, List.not_mem_nil, or_false] at ht
  rcases ht with rfl | rfl | rfl | rfl | rfl | rfl | rfl | rfl | rfl | rfl | rfl | rfl | rfl | rfl | rfl | rfl | rfl | rfl | rfl | rfl <;>
  · simp [inIntDomain, intKind, minOf, maxOf] at h
    simp [parseInt, readable, i64Min, i64Max, u64Max, cmpHolds, wrap]
    repeat' split
    all_goals (simp only [reduceCtorEq, Res.err.injEq, exists_eq', exists_false] at *; try omega)

/-- every other kind of value is an error for an integer scalar -/
theorem parseInt_other (t : Entry) (x : GValue) (h : ∀ i, x ≠ .int i) :
    ∃ e, parseInt t x = .err e := by
  cases x <;> simp [parseInt] at * 

/-- `to_value` of an in-range integer is that integer number -/
theorem toValueInt_in (t : Entry) (ht : t ∈ table) (i : Int) (h : inIntDomain t.name i) :
    toValueInt t i = .int i := by
  simp only [table, List.mem_cons, List.not_mem_nil, or_false] at ht
  rcases ht with rfl | rfl | rfl | rfl | rfl | rfl | rfl | rfl | rfl | rfl | rfl | rfl | rfl | rfl | rfl | rfl | rfl | rfl | rfl | rfl <;>
  · simp [inIntDomain, intKind, minOf, maxOf] at h
    simp [toValueInt, wrap]
    repeat' split
    all_goals omega

/-- an accepted integer passes the validation pre-check of its own type (whichever disjunction of
    `is_i64()` / `is_u64()` the source has) -/
theorem isValidInt_in (t : Entry) (ht : t ∈ table) (i : Int) (h : inIntDomain t.name i) :
    isValidInt .none t (.int i) = true := by
  simp only [table, List.mem_cons, List.not_mem_nil, or_false] at ht
  rcases ht with rfl | rfl | rfl | rfl | rfl | rfl | rfl | rfl | rfl | rfl | rfl | rfl | rfl | rfl | rfl | rfl | rfl | rfl | rfl | rfl <;>
  · simp [inIntDomain, intKind, minOf, maxOf] at h
    simp only [isValidInt, Defects.none, readableB, List.any_cons, List.any_nil,
      Bool.or_false, Bool.or_eq_true, Bool.and_eq_true, decide_eq_true_eq, Bool.false_eq_true, and_false, if_false, reduceCtorEq]
    simp only [i64Min, i64Max, u64Max]
    omega

theorem find_name_unique (items : List (List Char × Nat)) (hn : (items.map (·.1)).Nodup)
    (it : List Char × Nat) (hit : it ∈ items) :
    items.find? (fun x => x.1 = it.1) = some it := by
  induction items with
  | nil => simp at hit
  | cons a rest ih =>
    simp only [List.map_cons, List.nodup_cons] at hn
    by_cases ha : a.1 = it.1
    · have : a = it := by
        rcases List.mem_cons.mp hit with h | h
        · exact h.symm
        · exact absurd (List.mem_map.mpr ⟨it, h, ha.symm⟩) hn.1
      simp [List.find?, this]
    · have hit' : it ∈ rest := by
        rcases List.mem_cons.mp hit with h | h
        · exact absurd (by rw [h]) ha
        · exact h
      simp [List.find?, ha, ih hn.2 hit']

end AGV.Lemmas.Scalars
