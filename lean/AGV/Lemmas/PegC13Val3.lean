/-
  Property C13: the `value` / `const_value` productions (scalars, lists, objects, any nesting) run by
  the interpreter and read back by the tree builder, against the specification's `pValue`.
-/
import AGV.Lemmas.PegC13Float
namespace AGV.Lemmas.PegX
open AGV.Model.Peg AGV.Model.BuildAst AGV.Spec.Lex AGV.Spec.Parse AGV.Core.PAst AGV.Lemmas.PegC13 AGV.Lemmas.SpecVal

/-- the two families of value rules: `value`/`list`/`object`/`object_field` and their `const_` twins -/
structure ValFam where
  const : Bool
  vName : String
  lName : String
  oName : String
  fName : String

def famV : ValFam := ⟨false, "value", "list", "object", "object_field"⟩
def famC : ValFam := ⟨true, "const_value", "const_list", "const_object", "const_object_field"⟩
def IsFam (F : ValFam) : Prop := F = famV ∨ F = famC

def valueTail (F : ValFam) : Expr :=
  .choice (.ident "number") (.choice (.ident "string") (.choice (.ident "boolean") (.choice (.ident "null")
    (.choice (.ident "enum_value") (.choice (.ident F.lName) (.ident F.oName))))))
def valueBody (F : ValFam) : Expr := if F.const then valueTail F else .choice (.ident "variable") (valueTail F)
def vRule (F : ValFam) : Rule := ⟨F.vName, .normal, valueBody F⟩
def lRule (F : ValFam) : Rule := ⟨F.lName, .normal, .seq (.str ['[']) (.seq (.rep (.ident F.vName)) (.str [']']))⟩
def oRule (F : ValFam) : Rule := ⟨F.oName, .normal, .seq (.str ['{']) (.seq (.rep (.ident F.fName)) (.str ['}']))⟩
def fRule (F : ValFam) : Rule := ⟨F.fName, .normal, .seq (.ident "name") (.seq (.str [':']) (.ident F.vName))⟩

structure RuleOk (n : String) (r : Rule) : Prop where
  find : findRule G0 n = some r
  soi : n ≠ "SOI"
  eoi : n ≠ "EOI"
  cls : charClass n = none
  ctx : bodyCtx c0 r = c0
  ty : r.ty ≠ .silent

theorem fam_rules (F : ValFam) (hF : IsFam F) :
    RuleOk F.vName (vRule F) ∧ RuleOk F.lName (lRule F) ∧ RuleOk F.oName (oRule F) ∧ RuleOk F.fName (fRule F) := by
  rcases hF with rfl | rfl <;>
    exact ⟨⟨by rfl, by decide, by decide, by rfl, rfl, by decide⟩, ⟨by rfl, by decide, by decide, by rfl, rfl, by decide⟩,
      ⟨by rfl, by decide, by decide, by rfl, rfl, by decide⟩, ⟨by rfl, by decide, by decide, by rfl, rfl, by decide⟩⟩

theorem ev_ruleOk {n : String} {r : Rule} (h : RuleOk n r) {p : Nat} {s : List Char} {N K : Nat} {res : Res}
    (he : EvR G0 c0 r.expr p s N res) (hN : N < K) : EvR G0 c0 (.ident n) p s K (wrapN n p res) :=
  ev_ruleN h.soi h.eoi h.cls h.find h.ctx h.ty he hN

-- ------------------------------------------------------------------ ordered choice of several alternatives

def choiceNest : List Expr → Expr
  | [] => .str []
  | [a] => a
  | a :: b :: as => .choice a (choiceNest (b :: as))

def firstOk : List Res → Res
  | [] => .fail
  | .fail :: rs => firstOk rs
  | r :: _ => r

theorem ev_choiceNest {g : Grammar} {c : Ctx} {p : Nat} {s : List Char} {N : Nat} :
    ∀ (as : List (Expr × Res)), as ≠ [] → (∀ x ∈ as, EvR g c x.1 p s N x.2 ∧ x.2 ≠ .oof) →
      EvR g c (choiceNest (as.map (·.1))) p s (N + as.length) (firstOk (as.map (·.2))) := by
  intro as
  induction as with
  | nil => intro h; exact absurd rfl h
  | cons a as ih =>
    intro _ hall
    obtain ⟨e, r⟩ := a
    have hab := hall (e, r) (by simp)
    cases as with
    | nil =>
      have e' : firstOk [r] = r := by
        cases r <;> first | rfl | exact absurd rfl hab.2
      simp only [List.map_cons, List.map_nil, choiceNest, e']
      exact hab.1.mono (by simp)
    | cons b as' =>
      have ih' := ih (by simp) (fun x hx => hall x (by simp [hx]))
      simp only [List.map_cons, choiceNest, List.length_cons] at ih' ⊢
      cases r with
      | oof => exact absurd rfl hab.2
      | fail => exact EvR.choice_r hab.1 ih' (by omega) (by omega)
      | ok p1 s1 ps1 => exact EvR.choice_l hab.1 (by omega)

theorem valueTail_nest (F : ValFam) :
    valueTail F = choiceNest [.ident "number", .ident "string", .ident "boolean", .ident "null",
      .ident "enum_value", .ident F.lName, .ident F.oName] := rfl

-- ------------------------------------------------------------------ the head token

theorem toks_head (t : List Char) (ht : TokStart t) :
    (t = [] ∧ toks t = []) ∨ (t ≠ [] ∧ lexToken t = none ∧ toks t = [bad]) ∨
    (∃ tok rest, lexToken t = some (tok, rest) ∧ toks t = tok :: toks rest ∧ rest.length < t.length) := by
  cases t with
  | nil => exact Or.inl ⟨rfl, toks_nil rfl⟩
  | cons c r =>
    cases hl : lexToken (c :: r) with
    | none => exact Or.inr (Or.inl ⟨by simp, rfl, toks_bad ht hl⟩)
    | some x =>
      obtain ⟨tok, rest⟩ := x
      exact Or.inr (Or.inr ⟨tok, rest, rfl, toks_cons ht hl, lexToken_lt hl⟩)

/-- the specification's parameters used in the refinement lemmas: float values are not rejected
    for being infinite (that check is made on the finished tree) -/
def P' : Params := { finiteFloats := false }

theorem pV_nil (c : Bool) : pV P' c [] = none := pValue_nil _ _ _
theorem pV_bad (c : Bool) (r : List Tok) : pV P' c (bad :: r) = none :=
  pValue_punct_other _ _ _ _ _ (by decide) (by decide) (by decide)
theorem pV_spread (c : Bool) (r : List Tok) : pV P' c (.spread :: r) = none := pValue_spread _ _ _ _
theorem pV_punct_other (c : Bool) (y : Char) (r : List Tok) (h1 : y ≠ '$') (h2 : y ≠ '[') (h3 : y ≠ '{') :
    pV P' c (.punct y :: r) = none := pValue_punct_other _ _ _ _ _ h1 h2 h3
theorem pV_dollar (c : Bool) (r : List Tok) :
    pV P' c (.punct '$' :: r) = if c then none else (pName r).map (fun x => (.var x.1, x.2)) := pValue_dollar _ _ _ _
theorem pV_int (c : Bool) (neg : Bool) (ds : List Char) (r : List Tok) :
    pV P' c (.int neg ds :: r) = some (.int (if neg then -(natOf ds : Int) else natOf ds), r) := pValue_int _ _ _ _ _ _
theorem pV_float (c : Bool) (neg : Bool) (ip fr : List Char) (en : Bool) (ex : List Char) (r : List Tok) :
    pV P' c (.float neg ip fr en ex :: r) = some (.float (floatBits neg ip fr en ex), r) := by
  rw [pV, pValue_float]; rfl
theorem pV_str (c : Bool) (v : List Char) (r : List Tok) : pV P' c (.str v :: r) = some (.str v, r) := pValue_str _ _ _ _ _
theorem pV_name (c : Bool) (n : List Char) (r : List Tok) :
    pV P' c (.name n :: r) =
      if n = kw "true" then some (.bool true, r)
      else if n = kw "false" then some (.bool false, r)
      else if n = kw "null" then some (.null, r)
      else some (.enum n, r) := pValue_name _ _ _ _ _

/-- the interpreter's result for a value rule at `(q, t)` is what the specification reads there, and
    the tree builder computes the specification's value from the pair -/
def GoodV (F : ValFam) (s₀ : List Char) (q : Nat) (t : List Char) (r : Res) : Prop :=
  match pV P' F.const (toks t) with
  | some (v, ts') =>
    ∃ s' pr, r = .ok (q + (t.length - s'.length)) s' [pr] ∧ toks s' = ts' ∧ s'.length < t.length ∧
      (∃ mid, t = mid ++ s') ∧ pr.start = q ∧ Builds s₀ pr v
  | none => r = .fail

theorem GoodV.fail {F s₀ q t r} (h : GoodV F s₀ q t r) (hp : pV P' F.const (toks t) = none) : r = .fail := by
  unfold GoodV at h; rw [hp] at h; exact h

theorem GoodV.ok {F s₀ q t r v ts'} (h : GoodV F s₀ q t r) (hp : pV P' F.const (toks t) = some (v, ts')) :
    ∃ s' pr, r = .ok (q + (t.length - s'.length)) s' [pr] ∧ toks s' = ts' ∧ s'.length < t.length ∧
      (∃ mid, t = mid ++ s') ∧ pr.start = q ∧ Builds s₀ pr v := by
  unfold GoodV at h; rw [hp] at h; exact h

theorem GoodV.mk_fail {F s₀ q t} (hp : pV P' F.const (toks t) = none) : GoodV F s₀ q t .fail := by
  unfold GoodV; rw [hp]

theorem GoodV.mk_ok {F s₀ q t v ts' s' pr} (hp : pV P' F.const (toks t) = some (v, ts'))
    (h1 : toks s' = ts') (h2 : s'.length < t.length) (hm : ∃ mid, t = mid ++ s') (h3 : pr.start = q)
    (h4 : Builds s₀ pr v) :
    GoodV F s₀ q t (.ok (q + (t.length - s'.length)) s' [pr]) := by
  unfold GoodV; rw [hp]; exact ⟨s', pr, rfl, h1, h2, hm, h3, h4⟩

-- ------------------------------------------------------------------ the value rule from its alternatives

theorem ev_value_of_alts (F : ValFam) (hF : IsFam F) (q : Nat) (t : List Char) (N : Nat)
    (rv rn rs rb rz re rl ro : Res)
    (hv : EvR G0 c0 (.ident "variable") q t N rv ∧ rv ≠ .oof)
    (hn : EvR G0 c0 (.ident "number") q t N rn ∧ rn ≠ .oof)
    (hs : EvR G0 c0 (.ident "string") q t N rs ∧ rs ≠ .oof)
    (hb : EvR G0 c0 (.ident "boolean") q t N rb ∧ rb ≠ .oof)
    (hz : EvR G0 c0 (.ident "null") q t N rz ∧ rz ≠ .oof)
    (he : EvR G0 c0 (.ident "enum_value") q t N re ∧ re ≠ .oof)
    (hl : EvR G0 c0 (.ident F.lName) q t N rl ∧ rl ≠ .oof)
    (ho : EvR G0 c0 (.ident F.oName) q t N ro ∧ ro ≠ .oof) :
    EvR G0 c0 (.ident F.vName) q t (N + 10)
      (wrapN F.vName q (if F.const then firstOk [rn, rs, rb, rz, re, rl, ro]
        else firstOk [rv, rn, rs, rb, rz, re, rl, ro])) := by
  have htail := ev_choiceNest (g := G0) (c := c0) (p := q) (s := t) (N := N)
    [(.ident "number", rn), (.ident "string", rs), (.ident "boolean", rb), (.ident "null", rz),
      (.ident "enum_value", re), (.ident F.lName, rl), (.ident F.oName, ro)] (by simp)
    (by
      intro x hx
      simp only [List.mem_cons, List.not_mem_nil, or_false] at hx
      rcases hx with rfl | rfl | rfl | rfl | rfl | rfl | rfl <;> assumption)
  simp only [List.map_cons, List.map_nil, List.length_cons, List.length_nil] at htail
  rw [← valueTail_nest] at htail
  have hR := (fam_rules F hF).1
  refine ev_ruleOk hR ?_ (Nat.lt_succ_self (N + 9))
  simp only [vRule, valueBody]
  cases hc : F.const with
  | true => simp only [if_true]; exact htail.mono (by omega)
  | false =>
    simp only [Bool.false_eq_true, if_false]
    cases rv with
    | oof => exact absurd rfl hv.2
    | fail => exact EvR.choice_r hv.1 htail (by omega) (by omega)
    | ok p1 s1 ps1 => exact EvR.choice_l hv.1 (by omega)

theorem ev_number_fail (q : Nat) (t : List Char) (h : numTok t = none) :
    EvR G0 c0 (.ident "number") q t (t.length + 21) .fail := by
  intro f hf; rw [number_spec c0 q t f hf, numberSpecRes, h]

theorem ev_string_fail (pre t : List Char) (h : strTok t = none) :
    EvR G0 c0 (.ident "string") pre.length t (t.length + 22) .fail := by
  intro f hf
  have := string_spec pre t c0 rfl (by decide) f hf
  rw [h] at this; exact this

theorem ev_boolean_fail (q : Nat) (t : List Char) (ht : TokStart t) (h : boolTok t = none) :
    EvR G0 c0 (.ident "boolean") q t (2 * t.length + 21) .fail :=
  (ev_boolean q t ht).cast (by rw [h]; rfl)

theorem ev_null_fail (q : Nat) (t : List Char) (ht : TokStart t) (h : kwTok kwNull t = none) :
    EvR G0 c0 (.ident "null") q t (2 * t.length + 20) .fail :=
  (ev_null q t ht).cast (by rw [nullTokR, h]; rfl)

theorem ev_enum_fail (q : Nat) (t : List Char) (h : isKwValue t = true ∨ nameTok t = none) :
    EvR G0 c0 (.ident "enum_value") q t (t.length + 16) .fail := by
  refine (ev_enum q t).cast ?_
  unfold enumRes
  rcases h with h | h
  · rw [h]; rfl
  · rw [h]; split <;> rfl

/-- a bracketed rule (`"[" ~ … ~ "]"`, `"{" ~ … ~ "}"`) fails when the next token is not its opening
    bracket -/
theorem ev_open_fail {n : String} {r : Rule} (hR : RuleOk n r) (x : Char) (hx : isPunct x = true) (body : Expr)
    (hr : r.expr = .seq (.str [x]) body) (q : Nat) (t : List Char) (h : punctTok x t = none) :
    EvR G0 c0 (.ident n) q t 4 .fail := by
  have h1 : EvR G0 c0 (.str [x]) q t 1 .fail := by
    intro f hf; rw [punct_spec G0 c0 x hx q t f hf, h]; rfl
  have h2 : EvR G0 c0 r.expr q t 2 .fail := by rw [hr]; exact EvR.seq_fail h1 (Nat.lt_succ_self 1)
  exact (ev_ruleOk hR h2 (by omega)).cast rfl

/-- what the token functions say about a text that does not start with a token -/
theorem tok_none {t : List Char} (hl : lexToken t = none) :
    (∀ x, punctTok x t = none) ∧ numTok t = none ∧ strTok t = none ∧ (∀ x, kwTok x t = none) ∧ nameTok t = none := by
  refine ⟨fun x => ?_, ?_, ?_, fun x => ?_, ?_⟩
  · simp [punctTok, hl]
  · simp [numTok, hl]
  · simp [strTok, hl]
  · simp [kwTok, hl]
  · rw [nameTok_lex, hl]

theorem ev_variable_any (q : Nat) (t : List Char) :
    ∃ rv, EvR G0 c0 (.ident "variable") q t (2 * t.length + 20) rv ∧ rv ≠ .oof := by
  cases h : punctTok '$' t with
  | none => exact ⟨_, (ev_variable_fail q t h).mono (by omega), by simp⟩
  | some r1 =>
    cases hn : nameTok (skipI r1) with
    | none => exact ⟨_, ev_variable_noname q t r1 h hn, by simp⟩
    | some x => obtain ⟨n, r2⟩ := x; exact ⟨_, ev_variable_ok q t r1 n r2 h hn, by simp⟩

/-- the value rule given its scalar alternatives' results and failing list/object -/
theorem ev_value_scalars (F : ValFam) (hF : IsFam F) (q : Nat) (t : List Char)
    (rv rn rs rb rz re : Res)
    (hv : EvR G0 c0 (.ident "variable") q t (24 * t.length + 50) rv ∧ rv ≠ .oof)
    (hn : EvR G0 c0 (.ident "number") q t (24 * t.length + 50) rn ∧ rn ≠ .oof)
    (hs : EvR G0 c0 (.ident "string") q t (24 * t.length + 50) rs ∧ rs ≠ .oof)
    (hb : EvR G0 c0 (.ident "boolean") q t (24 * t.length + 50) rb ∧ rb ≠ .oof)
    (hz : EvR G0 c0 (.ident "null") q t (24 * t.length + 50) rz ∧ rz ≠ .oof)
    (he : EvR G0 c0 (.ident "enum_value") q t (24 * t.length + 50) re ∧ re ≠ .oof)
    (hl : punctTok '[' t = none) (ho : punctTok '{' t = none) :
    EvR G0 c0 (.ident F.vName) q t (24 * t.length + 60)
      (wrapN F.vName q (if F.const then firstOk [rn, rs, rb, rz, re] else firstOk [rv, rn, rs, rb, rz, re])) := by
  obtain ⟨-, hL, hO, -⟩ := fam_rules F hF
  have h1 := ev_open_fail hL '[' (by decide) _ rfl q t hl
  have h2 := ev_open_fail hO '{' (by decide) _ rfl q t ho
  refine (ev_value_of_alts F hF q t (24 * t.length + 50) rv rn rs rb rz re .fail .fail hv hn hs hb hz he
    ⟨h1.mono (by omega), by simp⟩ ⟨h2.mono (by omega), by simp⟩).cast ?_
  have e1 : ∀ rs' : List Res, firstOk (rs' ++ [.fail, .fail]) = firstOk rs' := by
    intro rs'
    induction rs' with
    | nil => rfl
    | cons r rs' ih => cases r <;> simp [firstOk, ih]
  have := e1 [rn, rs, rb, rz, re]
  have := e1 [rv, rn, rs, rb, rz, re]
  simp only [List.cons_append, List.nil_append] at *
  cases F.const <;> simp [*]

theorem ne_oof_fail : Res.fail ≠ .oof := by simp

/-- nothing that starts a value: every alternative fails -/
theorem ev_value_allfail (F : ValFam) (hF : IsFam F) (s₀ : List Char) (q : Nat) (t : List Char) (ht : TokStart t)
    (hat : At s₀ q t) (hd : F.const = true ∨ punctTok '$' t = none) (hl : punctTok '[' t = none)
    (ho : punctTok '{' t = none) (hnum : numTok t = none) (hstr : strTok t = none) (hbool : boolTok t = none)
    (hnull : kwTok kwNull t = none) (hen : isKwValue t = true ∨ nameTok t = none) :
    EvR G0 c0 (.ident F.vName) q t (24 * t.length + 60) .fail := by
  obtain ⟨pre, rfl, rfl⟩ := hat
  obtain ⟨rv, hv1, hv2⟩ := ev_variable_any pre.length t
  refine (ev_value_scalars F hF pre.length t rv .fail .fail .fail .fail .fail ⟨hv1.mono (by omega), hv2⟩
    ⟨(ev_number_fail _ t hnum).mono (by omega), ne_oof_fail⟩ ⟨(ev_string_fail pre t hstr).mono (by omega), ne_oof_fail⟩
    ⟨(ev_boolean_fail _ t ht hbool).mono (by omega), ne_oof_fail⟩
    ⟨(ev_null_fail _ t ht hnull).mono (by omega), ne_oof_fail⟩
    ⟨(ev_enum_fail _ t hen).mono (by omega), ne_oof_fail⟩ hl ho).cast ?_
  rcases hd with hd | hd
  · simp [hd, firstOk]
  · have : rv = .fail := EvR.unique hv1 (ev_variable_fail pre.length t hd)
    subst this
    cases F.const <;> simp [firstOk]

-- ------------------------------------------------------------------ the scalar cases

theorem nameTok_append {t n rest : List Char} (h : nameTok t = some (n, rest)) : t = n ++ rest ∧ 0 < n.length := by
  cases t with
  | nil => simp [nameTok] at h
  | cons ch r =>
    simp only [nameTok] at h
    split at h
    · simp only [Option.some.injEq, Prod.mk.injEq] at h
      obtain ⟨rfl, rfl⟩ := h
      simp [List.takeWhile_append_dropWhile]
    · cases h

theorem tok_name {t n rest : List Char} (hl : lexToken t = some (.name n, rest)) :
    (∀ x, punctTok x t = none) ∧ numTok t = none ∧ strTok t = none ∧
    (∀ x, kwTok x t = if n = x then some rest else none) ∧ nameTok t = some (n, rest) := by
  refine ⟨fun x => ?_, ?_, ?_, fun x => ?_, ?_⟩
  · simp [punctTok, hl]
  · simp [numTok, hl, isNumTok]
  · simp [strTok, hl]
  · simp [kwTok, hl]
  · rw [nameTok_lex, hl]

theorem kwTok_text {x t rest : List Char} (hx : x ∈ kwList) (h : kwTok x t = some rest) : t = x ++ rest := by
  obtain ⟨x0, xs, rfl, h0, hall⟩ := kwList_shape x hx
  rw [← kwMatch_lex x0 xs h0 hall] at h
  exact matchStr_append _ _ _ (kwMatch_str h)

/-- finishing a scalar case: the value rule's pair, the remaining tokens, the builder -/
theorem goodV_scalar {F : ValFam} {s₀ : List Char} {q : Nat} {t s' : List Char} {p1 : Nat} {inner : Pair} {N : Nat}
    {v : PValue} (hev : EvR G0 c0 (.ident F.vName) q t N (.ok p1 s' [Pair.mk F.vName q p1 [inner]]))
    (hp : pV P' F.const (toks t) = some (v, toks s')) (hlt : s'.length < t.length)
    (hb : Builds s₀ (Pair.mk F.vName q p1 [inner]) v) :
    ∃ r, EvR G0 c0 (.ident F.vName) q t N r ∧ GoodV F s₀ q t r := by
  have hc := hev.consumes.len
  obtain ⟨mid, hmid, -⟩ := hev.consumes
  have e : p1 = q + (t.length - s'.length) := by omega
  refine ⟨_, hev, ?_⟩
  rw [e]
  exact GoodV.mk_ok hp rfl hlt ⟨mid, hmid⟩ rfl (by rw [← e]; exact hb)

theorem enumRes_ne_oof (q : Nat) (t : List Char) : enumRes q t ≠ .oof := by
  unfold enumRes
  split
  · simp
  · cases nameTok t with
    | none => simp
    | some x => simp

theorem nullRes_ne_oof (q : Nat) (t : List Char) : wrapN "null" q (nullTokR q t) ≠ .oof := by
  unfold nullTokR
  cases kwTok kwNull t <;> simp [resOf]

theorem boolRes_ne_oof (q : Nat) (x : Option (Nat × List Char)) : wrapN "boolean" q (lenRes q x) ≠ .oof := by
  cases x with
  | none => simp [lenRes]
  | some y => simp [lenRes]

theorem value_name_case (F : ValFam) (hF : IsFam F) (s₀ : List Char) (q : Nat) (t : List Char) (ht : TokStart t)
    (hat : At s₀ q t) (n rest : List Char) (hl : lexToken t = some (.name n, rest)) (hts : toks t = .name n :: toks rest)
    (hlt : rest.length < t.length) :
    ∃ r, EvR G0 c0 (.ident F.vName) q t (24 * t.length + 60) r ∧ GoodV F s₀ q t r := by
  obtain ⟨k1, k2, k3, k4, k5⟩ := tok_name hl
  obtain ⟨pre, hs0, hq⟩ := hat
  subst hq
  have hat : At s₀ pre.length t := ⟨pre, hs0, rfl⟩
  obtain ⟨rv, hv1, hv2⟩ := ev_variable_any pre.length t
  have hvf : rv = .fail := EvR.unique hv1 (ev_variable_fail pre.length t (k1 '$'))
  subst hvf
  have hnum := ev_number_fail pre.length t k2
  have hstr := ev_string_fail pre t k3
  have hbool := ev_boolean pre.length t ht
  have hnull := ev_null pre.length t ht
  have henum := ev_enum pre.length t
  have hall := fun rb rz re (hb : EvR G0 c0 (.ident "boolean") pre.length t (2 * t.length + 21) rb ∧ rb ≠ .oof)
      (hz : EvR G0 c0 (.ident "null") pre.length t (2 * t.length + 20) rz ∧ rz ≠ .oof)
      (he : EvR G0 c0 (.ident "enum_value") pre.length t (t.length + 16) re ∧ re ≠ .oof) =>
    ev_value_scalars F hF pre.length t .fail .fail .fail rb rz re ⟨hv1.mono (by omega), hv2⟩
      ⟨hnum.mono (by omega), ne_oof_fail⟩ ⟨hstr.mono (by omega), ne_oof_fail⟩
      ⟨hb.1.mono (by omega), hb.2⟩ ⟨hz.1.mono (by omega), hz.2⟩ ⟨he.1.mono (by omega), he.2⟩ (k1 '[') (k1 '{')
  have hpv := pV_name F.const n (toks rest)
  rw [← hts] at hpv
  by_cases h1 : n = kwTrue
  · -- `true`
    have hbt : boolTok t = some (4, rest) := by simp [boolTok, k4, h1]
    rw [hbt] at hbool
    have hev := hall _ _ _ ⟨hbool, boolRes_ne_oof _ _⟩ ⟨hnull, nullRes_ne_oof _ _⟩ ⟨henum, enumRes_ne_oof _ _⟩
    have htxt := kwTok_text kwTrue_mem (by rw [k4]; simp [h1] : kwTok kwTrue t = some rest)
    have hev' : EvR G0 c0 (.ident F.vName) pre.length t (24 * t.length + 60) (.ok (pre.length + 4) rest
        [Pair.mk F.vName pre.length (pre.length + 4) [Pair.mk "boolean" pre.length (pre.length + 4) []]]) :=
      hev.cast (by cases F.const <;> simp [firstOk, lenRes])
    refine goodV_scalar (v := .bool true) hev' (by rw [hpv]; simp [h1, kwTrue, kw]) hlt ?_
    · have := build_boolean s₀ F.vName pre.length 4 t hat
      rw [htxt] at this
      simpa [kwTrue] using this
  by_cases h2 : n = kwFalse
  · have hbt : boolTok t = some (5, rest) := by
      have : ¬ kwFalse = kwTrue := by decide
      simp [boolTok, k4, h2, this]
    rw [hbt] at hbool
    have hev := hall _ _ _ ⟨hbool, boolRes_ne_oof _ _⟩ ⟨hnull, nullRes_ne_oof _ _⟩ ⟨henum, enumRes_ne_oof _ _⟩
    have htxt := kwTok_text kwFalse_mem (by rw [k4]; simp [h2] : kwTok kwFalse t = some rest)
    have hev' : EvR G0 c0 (.ident F.vName) pre.length t (24 * t.length + 60) (.ok (pre.length + 5) rest
        [Pair.mk F.vName pre.length (pre.length + 5) [Pair.mk "boolean" pre.length (pre.length + 5) []]]) :=
      hev.cast (by cases F.const <;> simp [firstOk, lenRes])
    refine goodV_scalar (v := .bool false) hev' (by rw [hpv]; simp [h2, kwFalse, kw]) hlt ?_
    · have := build_boolean s₀ F.vName pre.length 5 t hat
      rw [htxt] at this
      simpa [kwFalse] using this
  have hbt : boolTok t = none := by simp [boolTok, k4, h1, h2]
  have hbf := ev_boolean_fail pre.length t ht hbt
  by_cases h3 : n = kwNull
  · have hnt : kwTok kwNull t = some rest := by rw [k4]; simp [h3]
    have hnull' : EvR G0 c0 (.ident "null") pre.length t (2 * t.length + 20)
        (.ok (pre.length + 4) rest [Pair.mk "null" pre.length (pre.length + 4) []]) :=
      hnull.cast (by simp [nullTokR, hnt, resOf])
    have hev := hall _ _ _ ⟨hbf, ne_oof_fail⟩ ⟨hnull', by simp⟩
      ⟨henum, enumRes_ne_oof _ _⟩
    have hev' : EvR G0 c0 (.ident F.vName) pre.length t (24 * t.length + 60) (.ok (pre.length + 4) rest
        [Pair.mk F.vName pre.length (pre.length + 4) [Pair.mk "null" pre.length (pre.length + 4) []]]) :=
      hev.cast (by cases F.const <;> simp [firstOk])
    refine goodV_scalar (v := .null) hev'
      (by rw [hpv]; simp [h3, kwNull, kw]) hlt ?_
    · exact build_null s₀ F.vName pre.length (pre.length + 4) (by omega)
  · have hnt : kwTok kwNull t = none := by rw [k4]; simp [h3]
    have hnf := ev_null_fail pre.length t ht hnt
    have hkv : isKwValue t = false := by simp [isKwValue, hbt, hnt]
    obtain ⟨htxt, hnpos⟩ := nameTok_append k5
    have henum' : EvR G0 c0 (.ident "enum_value") pre.length t (t.length + 16)
        (.ok (pre.length + n.length) rest
          [Pair.mk "enum_value" pre.length (pre.length + n.length) [Pair.mk "name" pre.length (pre.length + n.length) []]]) :=
      henum.cast (by simp [enumRes, hkv, k5])
    have hev := hall _ _ _ ⟨hbf, ne_oof_fail⟩ ⟨hnf, ne_oof_fail⟩ ⟨henum', by simp⟩
    have hev' : EvR G0 c0 (.ident F.vName) pre.length t (24 * t.length + 60) (.ok (pre.length + n.length) rest
        [Pair.mk F.vName pre.length (pre.length + n.length)
          [Pair.mk "enum_value" pre.length (pre.length + n.length) [Pair.mk "name" pre.length (pre.length + n.length) []]]]) :=
      hev.cast (by cases F.const <;> simp [firstOk])
    refine goodV_scalar (v := .enum n) hev'
      (by
        have g1 : ¬ n = "true".toList := h1
        have g2 : ¬ n = "false".toList := h2
        have g3 : ¬ n = "null".toList := h3
        rw [hpv]; simp only [kw, g1, g2, g3, if_false]) hlt ?_
    · have := build_enum s₀ F.vName pre.length n.length t hat hnpos
      rw [htxt] at this
      simpa using this

theorem tok_num {t rest : List Char} {tok : Tok} (hl : lexToken t = some (tok, rest)) (hk : isNumTok tok = true) :
    (∀ x, punctTok x t = none) ∧ numTok t = some (tok, rest) ∧ strTok t = none ∧
    (∀ x, kwTok x t = none) ∧ nameTok t = none := by
  refine ⟨fun x => ?_, ?_, ?_, fun x => ?_, ?_⟩
  · cases tok <;> simp [isNumTok] at hk <;> simp [punctTok, hl]
  · simp [numTok, hl, hk]
  · cases tok <;> simp [isNumTok] at hk <;> simp [strTok, hl]
  · cases tok <;> simp [isNumTok] at hk <;> simp [kwTok, hl]
  · rw [nameTok_lex, hl]; cases tok <;> simp [isNumTok] at hk <;> rfl

theorem boolTok_none {t : List Char} (h : ∀ x, kwTok x t = none) : boolTok t = none := by
  simp [boolTok, h]

theorem value_number_case (F : ValFam) (hF : IsFam F) (s₀ : List Char) (q : Nat) (t : List Char) (ht : TokStart t)
    (hat : At s₀ q t) (tok : Tok) (rest : List Char) (hl : lexToken t = some (tok, rest)) (hk : isNumTok tok = true)
    (hts : toks t = tok :: toks rest) (hlt : rest.length < t.length) :
    ∃ r, EvR G0 c0 (.ident F.vName) q t (24 * t.length + 60) r ∧ GoodV F s₀ q t r := by
  obtain ⟨k1, k2, k3, k4, k5⟩ := tok_num hl hk
  obtain ⟨pre, hs0, hq⟩ := hat
  subst hq
  have hat : At s₀ pre.length t := ⟨pre, hs0, rfl⟩
  have hv := ev_variable_fail pre.length t (k1 '$')
  have hnum : EvR G0 c0 (.ident "number") pre.length t (t.length + 21)
      (.ok (pre.length + (t.length - rest.length)) rest
        [Pair.mk "number" pre.length (pre.length + (t.length - rest.length)) []]) := by
    intro f hf; rw [number_spec c0 pre.length t f hf, numberSpecRes, k2]; rfl
  have hstr := ev_string_fail pre t k3
  have hbool := ev_boolean_fail pre.length t ht (boolTok_none k4)
  have hnull := ev_null_fail pre.length t ht (k4 _)
  have henum := ev_enum_fail pre.length t (Or.inr k5)
  have hev := ev_value_scalars F hF pre.length t .fail _ .fail .fail .fail .fail ⟨hv.mono (by omega), ne_oof_fail⟩
    ⟨hnum.mono (by omega), by simp⟩ ⟨hstr.mono (by omega), ne_oof_fail⟩ ⟨hbool.mono (by omega), ne_oof_fail⟩
    ⟨hnull.mono (by omega), ne_oof_fail⟩ ⟨henum.mono (by omega), ne_oof_fail⟩ (k1 '[') (k1 '{')
  have hev' : EvR G0 c0 (.ident F.vName) pre.length t (24 * t.length + 60)
      (.ok (pre.length + (t.length - rest.length)) rest
        [Pair.mk F.vName pre.length (pre.length + (t.length - rest.length))
          [Pair.mk "number" pre.length (pre.length + (t.length - rest.length)) []]]) :=
    hev.cast (by cases F.const <;> simp [firstOk])
  have hln : lexNumber t = some (tok, rest) := by rw [lexNumber_tok, k2]
  cases tok with
  | int neg ds =>
    refine goodV_scalar hev' (by rw [hts, pV_int]) hlt ?_
    exact build_int s₀ F.vName pre.length t rest ds neg hat hln
  | float neg ip fr en ex =>
    refine goodV_scalar hev' (by rw [hts, pV_float]) hlt ?_
    exact build_float s₀ F.vName pre.length t rest ip fr ex neg en hat hln
  | _ => simp [isNumTok] at hk

theorem tok_str {t rest v : List Char} (hl : lexToken t = some (.str v, rest)) :
    (∀ x, punctTok x t = none) ∧ numTok t = none ∧ strTok t = some (v, rest) ∧
    (∀ x, kwTok x t = none) ∧ nameTok t = none := by
  refine ⟨fun x => ?_, ?_, ?_, fun x => ?_, ?_⟩
  · simp [punctTok, hl]
  · simp [numTok, hl, isNumTok]
  · simp [strTok, hl]
  · simp [kwTok, hl]
  · rw [nameTok_lex, hl]

theorem value_string_case (F : ValFam) (hF : IsFam F) (s₀ : List Char) (q : Nat) (t : List Char) (ht : TokStart t)
    (hat : At s₀ q t) (v rest : List Char) (hl : lexToken t = some (.str v, rest))
    (hts : toks t = .str v :: toks rest) (hlt : rest.length < t.length) :
    ∃ r, EvR G0 c0 (.ident F.vName) q t (24 * t.length + 60) r ∧ GoodV F s₀ q t r := by
  obtain ⟨k1, k2, k3, k4, k5⟩ := tok_str hl
  obtain ⟨pre, hs0, hq⟩ := hat
  subst hq
  have hv := ev_variable_fail pre.length t (k1 '$')
  have hnum := ev_number_fail pre.length t k2
  have hbool := ev_boolean_fail pre.length t ht (boolTok_none k4)
  have hnull := ev_null_fail pre.length t ht (k4 _)
  have henum := ev_enum_fail pre.length t (Or.inr k5)
  have hsp := fun f hf => string_spec pre t c0 rfl (by decide) f hf
  simp only [k3] at hsp
  obtain ⟨qp, hq1, hq2⟩ := hsp (t.length + 22) (Nat.le_refl _)
  have hstr : EvR G0 c0 (.ident "string") pre.length t (t.length + 22)
      (.ok (pre.length + (t.length - rest.length)) rest
        [Pair.mk "string" pre.length (pre.length + (t.length - rest.length)) [qp]]) :=
    EvR.of_eval hq1 (by simp)
  have hev := ev_value_scalars F hF pre.length t .fail .fail _ .fail .fail .fail ⟨hv.mono (by omega), ne_oof_fail⟩
    ⟨hnum.mono (by omega), ne_oof_fail⟩ ⟨hstr.mono (by omega), by simp⟩ ⟨hbool.mono (by omega), ne_oof_fail⟩
    ⟨hnull.mono (by omega), ne_oof_fail⟩ ⟨henum.mono (by omega), ne_oof_fail⟩ (k1 '[') (k1 '{')
  have hev' : EvR G0 c0 (.ident F.vName) pre.length t (24 * t.length + 60)
      (.ok (pre.length + (t.length - rest.length)) rest
        [Pair.mk F.vName pre.length (pre.length + (t.length - rest.length))
          [Pair.mk "string" pre.length (pre.length + (t.length - rest.length)) [qp]]]) :=
    hev.cast (by cases F.const <;> simp [firstOk])
  refine goodV_scalar hev' (by rw [hts, pV_str]) hlt ?_
  intro bf hbf
  obtain ⟨bf, rfl⟩ : ∃ b, bf = b + 1 := ⟨bf - 1, by omega⟩
  have e : buildValue (envOf s₀) (bf + 1)
      (Pair.mk F.vName pre.length (pre.length + (t.length - rest.length))
        [Pair.mk "string" pre.length (pre.length + (t.length - rest.length)) [qp]]) =
      buildValue ⟨Defects.none, (pre ++ t).toArray⟩ 1
      (Pair.mk "value" pre.length (pre.length + (t.length - rest.length))
        [Pair.mk "string" pre.length (pre.length + (t.length - rest.length)) [qp]]) := by
    subst hs0
    simp [buildValue, Pair.inner, Pair.rule, envOf]
  rw [e, hq2]; simp [expV, finV, normV]

theorem pName_toks (u : List Char) (hu : TokStart u) :
    pName (toks u) = (nameTok u).map (fun x => (x.1, toks x.2)) := by
  rw [nameTok_lex]
  rcases toks_head u hu with ⟨rfl, h⟩ | ⟨-, hl, h⟩ | ⟨tok, rest, hl, h, -⟩
  · rw [h]; rfl
  · rw [h, hl]; rfl
  · rw [h, hl]; cases tok <;> rfl

theorem tok_punct {t rest : List Char} {y : Char} (hl : lexToken t = some (.punct y, rest)) :
    (∀ x, punctTok x t = if y = x then some rest else none) ∧ numTok t = none ∧ strTok t = none ∧
    (∀ x, kwTok x t = none) ∧ nameTok t = none := by
  refine ⟨fun x => ?_, ?_, ?_, fun x => ?_, ?_⟩
  · simp [punctTok, hl]
  · simp [numTok, hl, isNumTok]
  · simp [strTok, hl]
  · simp [kwTok, hl]
  · rw [nameTok_lex, hl]

theorem tok_spread {t rest : List Char} (hl : lexToken t = some (.spread, rest)) :
    (∀ x, punctTok x t = none) ∧ numTok t = none ∧ strTok t = none ∧
    (∀ x, kwTok x t = none) ∧ nameTok t = none := by
  refine ⟨fun x => ?_, ?_, ?_, fun x => ?_, ?_⟩
  · simp [punctTok, hl]
  · simp [numTok, hl, isNumTok]
  · simp [strTok, hl]
  · simp [kwTok, hl]
  · rw [nameTok_lex, hl]

/-- a text that starts no value: no token, `...`, or a Punctuator other than `$ [ {` (and `$` for
    constant values) -/
theorem value_fail_case (F : ValFam) (hF : IsFam F) (s₀ : List Char) (q : Nat) (t : List Char) (ht : TokStart t)
    (hat : At s₀ q t) (k1 : F.const = true ∨ punctTok '$' t = none) (k1' : punctTok '[' t = none)
    (k1'' : punctTok '{' t = none) (k2 : numTok t = none) (k3 : strTok t = none) (k4 : ∀ x, kwTok x t = none)
    (k5 : nameTok t = none) (hpv : pV P' F.const (toks t) = none) :
    ∃ r, EvR G0 c0 (.ident F.vName) q t (24 * t.length + 60) r ∧ GoodV F s₀ q t r :=
  ⟨.fail, ev_value_allfail F hF s₀ q t ht hat k1 k1' k1'' k2 k3 (boolTok_none k4) (k4 _) (Or.inr k5),
    GoodV.mk_fail hpv⟩

theorem value_variable_case (F : ValFam) (hF : IsFam F) (s₀ : List Char) (q : Nat) (t : List Char) (ht : TokStart t)
    (hat : At s₀ q t) (rest : List Char) (hl : lexToken t = some (.punct '$', rest))
    (hts : toks t = .punct '$' :: toks rest) (hlt : rest.length < t.length) :
    ∃ r, EvR G0 c0 (.ident F.vName) q t (24 * t.length + 60) r ∧ GoodV F s₀ q t r := by
  obtain ⟨k1, k2, k3, k4, k5⟩ := tok_punct hl
  have hp : ∀ x, x ≠ '$' → punctTok x t = none := fun x hx => by rw [k1]; simp [Ne.symm hx]
  have hd : punctTok '$' t = some rest := by rw [k1]; simp
  have hpv := pV_dollar F.const (toks rest)
  rw [← hts] at hpv
  cases hc : F.const with
  | true =>
    exact value_fail_case F hF s₀ q t ht hat (Or.inl hc) (hp _ (by decide)) (hp _ (by decide)) k2 k3 k4 k5
      (by rw [hpv, hc]; rfl)
  | false =>
    rw [hc] at hpv
    simp only [Bool.false_eq_true, if_false] at hpv
    rw [← toks_skipI rest, pName_toks _ (tokStart_skipI rest)] at hpv
    obtain ⟨pre, hs0, hq⟩ := hat
    subst hq
    have hat : At s₀ pre.length t := ⟨pre, hs0, rfl⟩
    obtain ⟨e, -⟩ := lexToken_punct_inv hl
    have hat1 : At s₀ (pre.length + 1) rest := hat.consumes ⟨['$'], by rw [e]; rfl, rfl⟩
    have hnum := ev_number_fail pre.length t k2
    have hstr := ev_string_fail pre t k3
    have hbool := ev_boolean_fail pre.length t ht (boolTok_none k4)
    have hnull := ev_null_fail pre.length t ht (k4 _)
    have henum := ev_enum_fail pre.length t (Or.inr k5)
    have hall := fun rv (hv : EvR G0 c0 (.ident "variable") pre.length t (2 * t.length + 20) rv ∧ rv ≠ .oof) =>
      ev_value_scalars F hF pre.length t rv .fail .fail .fail .fail .fail ⟨hv.1.mono (by omega), hv.2⟩
        ⟨hnum.mono (by omega), ne_oof_fail⟩ ⟨hstr.mono (by omega), ne_oof_fail⟩ ⟨hbool.mono (by omega), ne_oof_fail⟩
        ⟨hnull.mono (by omega), ne_oof_fail⟩ ⟨henum.mono (by omega), ne_oof_fail⟩ (hp _ (by decide)) (hp _ (by decide))
    cases hn : nameTok (skipI rest) with
    | none =>
      rw [hn] at hpv
      have hv := ev_variable_noname pre.length t rest hd hn
      have hev := hall _ ⟨hv, ne_oof_fail⟩
      exact ⟨.fail, hev.cast (by rw [hc]; simp [firstOk]), GoodV.mk_fail (by rw [hc, hpv]; rfl)⟩
    | some x =>
      obtain ⟨n, r2⟩ := x
      rw [hn] at hpv
      have hv := ev_variable_ok pre.length t rest n r2 hd hn
      have hev := hall _ ⟨hv, by simp⟩
      obtain ⟨htxt, -⟩ := nameTok_append hn
      have hl2 : r2.length < t.length := by
        have := skipI_len rest
        have := congrArg List.length htxt
        simp at this; omega
      have hev' : EvR G0 c0 (.ident F.vName) pre.length t (24 * t.length + 60)
          (.ok (skipPos (pre.length + 1) rest + n.length) r2
            [Pair.mk F.vName pre.length (skipPos (pre.length + 1) rest + n.length)
              [Pair.mk "variable" pre.length (skipPos (pre.length + 1) rest + n.length)
                [Pair.mk "name" (skipPos (pre.length + 1) rest) (skipPos (pre.length + 1) rest + n.length) []]]]) :=
        hev.cast (by rw [hc]; simp [firstOk])
      refine goodV_scalar (v := .var n) hev' (by rw [hc, hpv]; rfl) hl2 ?_
      have := build_variable s₀ F.vName pre.length (skipPos (pre.length + 1) rest)
        (skipPos (pre.length + 1) rest + n.length) n.length (skipI rest) hat1.skip
      rw [htxt] at this
      simpa using this
end AGV.Lemmas.PegX
