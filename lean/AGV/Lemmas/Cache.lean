/-
  C20 helper lemmas: the algebra of `merge`, folds of hints, and the inclusion
  "what the response can contain ⊆ what the repaired visitor merges".
-/
import AGV.Model.CacheControl
import AGV.Spec.Cache

namespace AGV.Lemmas.Cache
open AGV.Core AGV.Core.Cache AGV.Model.CacheControl AGV.Spec.Cache AGV.Spec.Exec

theorem mergeAge_comm (x y : Int) : Gen.CacheMerge.mergeAge x y = Gen.CacheMerge.mergeAge y x := by
  unfold Gen.CacheMerge.mergeAge; repeat' split
  all_goals omega

theorem mergeAge_assoc (x y z : Int) :
    Gen.CacheMerge.mergeAge (Gen.CacheMerge.mergeAge x y) z = Gen.CacheMerge.mergeAge x (Gen.CacheMerge.mergeAge y z) := by
  unfold Gen.CacheMerge.mergeAge; repeat' split
  all_goals omega

theorem mergeAge_idem (x : Int) : Gen.CacheMerge.mergeAge x x = x := by
  unfold Gen.CacheMerge.mergeAge; repeat' split
  all_goals omega

theorem merge_comm (a b : CC) : merge a b = merge b a := by
  simp [merge, mergeAge_comm a.maxAge b.maxAge, Gen.CacheMerge.mergePublic, Bool.and_comm]

theorem merge_assoc (a b c : CC) : merge (merge a b) c = merge a (merge b c) := by
  simp [merge, mergeAge_assoc, Gen.CacheMerge.mergePublic, Bool.and_assoc]

theorem merge_idem (a : CC) : merge a a = a := by
  cases a; simp [merge, mergeAge_idem, Gen.CacheMerge.mergePublic]

theorem merge_default_left (a : CC) : merge CC.default a = a := by
  cases a
  simp [merge, CC.default, Gen.CacheMerge.mergePublic, Gen.CacheMerge.defaultPublic, Gen.CacheMerge.defaultMaxAge,
    Gen.CacheMerge.mergeAge]
  repeat' split
  all_goals omega

theorem merge_default_right (a : CC) : merge a CC.default = a := by
  rw [merge_comm]; exact merge_default_left a

/-- merging never loosens: the result is no looser than either argument -/
theorem merge_noLooser_right (a b : CC) : noLooser (merge a b) b := by
  refine ⟨?_, ?_, ?_⟩
  · intro h; simp [merge, Gen.CacheMerge.mergePublic, h]
  · intro h; simp only [merge, Gen.CacheMerge.mergeAge]; repeat' split
    all_goals omega
  · intro h; simp only [merge, Gen.CacheMerge.mergeAge]; repeat' split
    all_goals omega

theorem merge_noLooser_left (a b : CC) : noLooser (merge a b) a := by
  rw [merge_comm]; exact merge_noLooser_right b a

/-- `noLooser` is monotone under further merging -/
theorem noLooser_merge_of_noLooser (p q h : CC) (hp : noLooser p h) : noLooser (merge p q) h := by
  obtain ⟨h1, h2, h3⟩ := hp
  refine ⟨?_, ?_, ?_⟩
  · intro hh; simp [merge, Gen.CacheMerge.mergePublic, h1 hh]
  · intro hh; have := h2 hh; simp only [merge, Gen.CacheMerge.mergeAge]; repeat' split
    all_goals omega
  · intro hh; have := h3 hh; simp only [merge, Gen.CacheMerge.mergeAge]; repeat' split
    all_goals omega

theorem foldl_merge_noLooser_acc (H : Hints) (ks : List Key) (acc h : CC) (hp : noLooser acc h) :
    noLooser (ks.foldl (fun acc k => merge acc (hintOf H k)) acc) h := by
  induction ks generalizing acc with
  | nil => simpa using hp
  | cons k ks ih => simp only [List.foldl_cons]; exact ih _ (noLooser_merge_of_noLooser _ _ _ hp)

/-- the fold of the hints at `ks` is no looser than the hint at any member of `ks` -/
theorem foldHints_noLooser (H : Hints) (ks : List Key) (k : Key) (hk : k ∈ ks) :
    noLooser (foldHints H ks) (hintOf H k) := by
  unfold foldHints
  generalize CC.default = acc
  induction ks generalizing acc with
  | nil => cases hk
  | cons k' ks ih =>
    simp only [List.foldl_cons]
    rcases List.mem_cons.mp hk with rfl | hk'
    · exact foldl_merge_noLooser_acc H ks _ _ (merge_noLooser_right _ _)
    · exact ih hk' _

end AGV.Lemmas.Cache
