/-
  Property C13: inside an atomic context no pairs are emitted, as long as only normal, atomic and
  silent rules are reachable (`Quiet`): the position-forgetting `Ev` facts of `Lemmas/PegC13.lean`
  then determine the exact result (`EvR`) of such runs.
-/
import AGV.Lemmas.PegC13X
namespace AGV.Lemmas.PegX
open AGV.Model.Peg AGV.Lemmas.PegMono

/-- rule and builtin names an expression mentions -/
def idents : Expr → List String
  | .ident n => [n]
  | .seq a b => idents a ++ idents b
  | .choice a b => idents a ++ idents b
  | .opt a => idents a
  | .rep a => idents a
  | .rep1 a => idents a
  | .repN _ a => idents a
  | .neg a => idents a
  | .pos a => idents a
  | .repTail a => idents a
  | _ => []

/-- every rule among `names` keeps the atomicity it is called with or makes it atomic, and mentions
    only names in `names` -/
def builtin (n : String) : Bool := n == "SOI" || n == "EOI" || (charClass n).isSome

def okName (names : List String) (n : String) : Bool := names.contains n || builtin n

def quietB (g : Grammar) (names : List String) : Bool :=
  names.all (fun n =>
    match findRule g n with
    | some r => (r.ty == .normal || r.ty == .atomic || r.ty == .silent) && (idents r.expr).all (okName names)
    | none => true)

theorem bodyCtx_atomic (c : Ctx) (r : Rule) (hc : c.atom = .atomic)
    (ht : (r.ty == .normal || r.ty == .atomic || r.ty == .silent) = true) : (bodyCtx c r).atom = .atomic := by
  unfold bodyCtx
  cases hty : r.ty <;> simp [hty] at ht ⊢
  all_goals first
    | exact hc
    | (split <;> first | rfl | exact hc)
    | exact absurd ht (by decide)

theorem eval_quiet_step (g : Grammar) (names : List String) (hq : quietB g names = true) (f : Nat)
    (ih : ∀ c e p s p' s' ps, c.atom = .atomic → (∀ n ∈ idents e, okName names n = true) →
      eval g f c e p s = .ok p' s' ps → ps = []) :
    ∀ c e p s p' s' ps, c.atom = .atomic → (∀ n ∈ idents e, okName names n = true) →
      eval g (f + 1) c e p s = .ok p' s' ps → ps = [] := by
  intro c e p s p' s' ps hc hn h
  have hnon : (c.atom = .non) = False := by rw [hc]; simp
  have hem : emits c = false := by simp [emits, hc]; intro _; decide
  have sub : ∀ a, idents e = idents a → ∀ n ∈ idents a, okName names n = true := fun a he n hm => hn n (he ▸ hm)
  cases e with
  | str l => simp only [eval] at h; split at h <;> cases h; rfl
  | insens l => simp only [eval] at h; split at h <;> cases h; rfl
  | range lo hi =>
    simp only [eval] at h
    cases s with
    | nil => cases h
    | cons ch r => simp only [] at h; split at h <;> cases h; rfl
  | neg a => simp only [eval] at h; split at h <;> cases h; rfl
  | pos a =>
    simp only [eval] at h; split at h
    · cases h; rfl
    · rename_i hx; exact (hx _ _ _ h).elim
  | choice a b =>
    have ha : ∀ n ∈ idents a, okName names n = true := fun n hm => hn n (by simp [idents, hm])
    have hb : ∀ n ∈ idents b, okName names n = true := fun n hm => hn n (by simp [idents, hm])
    simp only [eval] at h; split at h
    · exact ih _ _ _ _ _ _ _ hc hb h
    · exact ih _ _ _ _ _ _ _ hc ha h
  | opt a =>
    simp only [eval] at h; split at h
    · cases h; rfl
    · exact ih _ _ _ _ _ _ _ hc (sub a rfl) h
  | repN n a =>
    simp only [eval] at h; split at h
    · cases h; rfl
    · exact ih _ _ _ _ _ _ _ hc (sub a rfl) h
    · exact ih _ _ _ _ _ _ _ hc (fun m hm => hn m (by simpa [idents] using hm)) h
  | seq a b =>
    have ha : ∀ n ∈ idents a, okName names n = true := fun n hm => hn n (by simp [idents, hm])
    have hb : ∀ n ∈ idents b, okName names n = true := fun n hm => hn n (by simp [idents, hm])
    simp only [eval, hnon, if_false] at h
    split at h
    · rename_i h1
      split at h
      · rename_i h3; cases h
        rw [ih _ _ _ _ _ _ _ hc ha h1, ih _ _ _ _ _ _ _ hc hb h3]; rfl
      · rename_i hx; exact (hx _ _ _ h).elim
    · rename_i hx; exact (hx _ _ _ h).elim
  | rep a =>
    simp only [eval] at h
    split at h
    · rename_i h1
      split at h
      · rename_i h2; cases h
        rw [ih _ _ _ _ _ _ _ hc (sub a rfl) h1, ih _ _ _ _ _ _ _ hc (sub (.repTail a) rfl) h2]; rfl
      · rename_i hx; exact (hx _ _ _ h).elim
    · cases h; rfl
    · cases h
  | rep1 a =>
    simp only [eval] at h
    split at h
    · rename_i h1
      split at h
      · rename_i h2; cases h
        rw [ih _ _ _ _ _ _ _ hc (sub a rfl) h1, ih _ _ _ _ _ _ _ hc (sub (.repTail a) rfl) h2]; rfl
      · rename_i hx; exact (hx _ _ _ h).elim
    · rename_i hx; exact (hx _ _ _ h).elim
  | repTail a =>
    simp only [eval, hnon, if_false] at h
    split at h
    · rename_i h2
      split at h
      · rename_i h3; cases h
        rw [ih _ _ _ _ _ _ _ hc (sub a rfl) h2, ih _ _ _ _ _ _ _ hc (sub (.repTail a) rfl) h3]; rfl
      · rename_i hx; exact (hx _ _ _ h).elim
    · cases h; rfl
    · cases h
  | ident n =>
    simp only [eval, hem] at h
    split at h
    · split at h <;> cases h; rfl
    · split at h
      · cases s with
        | cons ch r => cases h
        | nil => simp only [] at h; cases h; rfl
      · split at h
        · cases s with
          | nil => cases h
          | cons ch r => simp only [] at h; split at h <;> cases h; rfl
        · split at h
          · cases h
          · rename_i r hr
            rename_i hsoi heoi _ hcls _
            have hmem : n ∈ names := by
              have := hn n (by simp [idents])
              simp only [okName, builtin, Bool.or_eq_true, List.contains_iff_mem, beq_iff_eq, hcls,
                Option.isSome_none, Bool.false_eq_true, or_false] at this
              rcases this with h | h | h
              · exact h
              · exact absurd h hsoi
              · exact absurd h heoi
            have hr' := List.all_eq_true.1 hq n hmem
            simp only [hr, Bool.and_eq_true] at hr'
            have hcb := bodyCtx_atomic c r hc hr'.1
            have hnb : ∀ m ∈ idents r.expr, okName names m = true := fun m hm =>
              List.all_eq_true.1 hr'.2 m hm
            split at h
            · rename_i hb
              have c0 := ih _ _ _ _ _ _ _ hcb hnb hb
              split at h
              · cases h; exact c0
              · simp only [Bool.false_eq_true, if_false] at h; cases h; exact c0
            · rename_i hx; exact (hx _ _ _ h).elim

/-- in an atomic context, with only quiet rules reachable, a match emits no pairs -/
theorem eval_quiet (g : Grammar) (names : List String) (hq : quietB g names = true) :
    ∀ f c e p s p' s' ps, c.atom = .atomic → (∀ n ∈ idents e, okName names n = true) →
      eval g f c e p s = .ok p' s' ps → ps = [] := by
  intro f
  induction f with
  | zero => intro c e p s p' s' ps _ _ h; simp [eval] at h
  | succ f ih => exact eval_quiet_step g names hq f ih

/-- an `Ev` fact about a quiet expression in an atomic context gives the exact result -/
theorem EvR.ofEv_quiet {g c e s N s1} (names : List String) (hq : quietB g names = true)
    (hc : c.atom = .atomic) (hn : ∀ n ∈ idents e, okName names n = true)
    (h : AGV.Lemmas.PegC13.Ev g c e s N (some s1)) (p : Nat) :
    EvR g c e p s N (.ok (p + (s.length - s1.length)) s1 []) := by
  obtain ⟨p1, ps, hr, hcons⟩ := EvR.ofEv_ok h p
  have hps := eval_quiet g names hq N c e p s p1 s1 ps hc hn (hr N (Nat.le_refl N))
  obtain ⟨pre, rfl, rfl⟩ := hcons
  subst hps
  refine hr.cast ?_
  simp
end AGV.Lemmas.PegX
