/-
  Lemmas for property C13: the selection-depth limit of the tree builder (`buildSelSet`) against
  the specification's `selDepth`.
-/
import AGV.Lemmas.ParseC13
namespace AGV.Lemmas.ParseC13
open AGV.Model.BuildAst AGV.Core.PAst AGV.Spec.Parse AGV.Model.Peg

/-- the per-selection function of `buildSelSet`, with the recursive call on a nested
    selection-set pair abstracted as `k` -/
def selElemK (env : Env) (k : Pair → Except PErr (List PSel)) (sp : Pair) : Except PErr PSel :=
      match sp.inner with
      | c :: _ =>
        if c.rule = "field" then
          let (alias, r1) := nextIf "alias" c.inner
          match r1 with
          | n :: r2 => do
            let al ← match alias with
              | some a => (innerName env a).map some
              | none => pure none
            let (argsP, r3) := nextIf "arguments" r2
            let args ← match argsP with
              | some a => buildArgs env a
              | none => pure []
            let (ds, r4) ← buildOptDirectives env r3
            let (ssP, _) := nextIf "selection_set" r4
            let ss ← match ssP with
              | some s => k s
              | none => pure []
            pure (PSel.field al (env.asStr n) args ds ss)
          | [] => .error bug
        else if c.rule = "fragment_spread" then
          match c.inner with
          | n :: r => (buildOptDirectives env r).map (fun x => PSel.spread (env.asStr n) x.1)
          | [] => .error bug
        else if c.rule = "inline_fragment" then
          let (tcP, r1) := nextIf "type_condition" c.inner
          do
            let tc ← match tcP with
              | some t => (innerName env t).map some
              | none => pure none
            let (ds, r2) ← buildOptDirectives env r1
            match r2 with
            | s :: _ => (k s).map (fun ss => PSel.inline tc ds ss)
            | [] => .error bug
        else .error bug
      | [] => .error bug

def kOf (env : Env) (f remaining : Nat) (s : Pair) : Except PErr (List PSel) :=
  if remaining = 0 then .error .depth else buildSelSet env f (remaining - 1) s

theorem buildSelSet_succ (env : Env) (f remaining : Nat) (p : Pair) :
    buildSelSet env (f + 1) remaining p = p.inner.mapM (selElemK env (kOf env f remaining)) := by
  rw [buildSelSet]
  cases remaining <;> rfl


inductive All2 {α β : Type} (R : α → β → Prop) : List α → List β → Prop
  | nil : All2 R [] []
  | cons {a b l m} : R a b → All2 R l m → All2 R (a :: l) (b :: m)

theorem All2.mem_right {α β : Type} {R : α → β → Prop} {l : List α} {m : List β} (h : All2 R l m) :
    ∀ y ∈ m, ∃ x ∈ l, R x y := by
  induction h with
  | nil => intro y hy; cases hy
  | cons h1 _ ih =>
    intro y hy
    rcases List.mem_cons.1 hy with rfl | hy
    · exact ⟨_, List.mem_cons_self, h1⟩
    · obtain ⟨x, hx, hr⟩ := ih y hy; exact ⟨x, List.mem_cons_of_mem _ hx, hr⟩

theorem All2.imp_mem {α β : Type} {R S : α → β → Prop} {l : List α} {m : List β} (h : All2 R l m)
    (hi : ∀ x ∈ l, ∀ y ∈ m, R x y → S x y) : All2 S l m := by
  induction h with
  | nil => exact .nil
  | cons h1 _ ih =>
    refine .cons (hi _ List.mem_cons_self _ List.mem_cons_self h1) (ih ?_)
    intro x hx y hy; exact hi x (List.mem_cons_of_mem _ hx) y (List.mem_cons_of_mem _ hy)

theorem All2.length_eq {α β : Type} {R : α → β → Prop} {l : List α} {m : List β} (h : All2 R l m) :
    l.length = m.length := by
  induction h with
  | nil => rfl
  | cons _ _ ih => simp [ih]

theorem mapM_ok_iff {α β : Type} (g : α → Except PErr β) (l : List α) (out : List β) :
    l.mapM g = .ok out ↔ All2 (fun x y => g x = .ok y) l out := by
  induction l generalizing out with
  | nil =>
    simp only [List.mapM_nil]
    constructor
    · intro h; cases h; exact .nil
    · intro h; cases h; rfl
  | cons a r ih =>
    simp only [List.mapM_cons]
    cases ha : g a with
    | error e =>
      constructor
      · intro h; cases h
      · intro h; cases h with | cons h1 _ => rw [ha] at h1; cases h1
    | ok b =>
      cases hr : r.mapM g with
      | error e =>
        constructor
        · intro h; cases h
        · intro h
          cases h with
          | cons h1 h2 => rw [(ih _).2 h2] at hr; cases hr
      | ok bs =>
        have := (ih bs).1 hr
        constructor
        · intro h; cases h; exact .cons ha this
        · intro h
          cases h with
          | cons h1 h2 =>
            rw [ha] at h1; cases h1
            rw [(ih _).2 h2] at hr; cases hr; rfl

/-- what one selection contributes to `selDepth (f+1)` -/
def contrib (f : Nat) : PSel → Nat
  | .field _ _ _ _ sub => if sub.isEmpty then 0 else selDepth f sub + 1
  | .inline _ _ sub => selDepth f sub + 1
  | .spread _ _ => 0

theorem selDepth_succ (f : Nat) (ss : List PSel) :
    selDepth (f + 1) ss = ss.foldl (fun m s => max m (contrib f s)) 0 := by
  rw [selDepth]
  congr 1
  funext m s
  cases s with
  | field a n as ds sub => by_cases hs : sub.isEmpty = true <;> simp [contrib, hs]
  | inline tc ds sub => simp [contrib]
  | spread n ds => simp [contrib]

theorem foldl_max_le (g : PSel → Nat) (lim : Nat) (ss : List PSel) : ∀ m0,
    ss.foldl (fun m s => max m (g s)) m0 ≤ lim ↔ (m0 ≤ lim ∧ ∀ s ∈ ss, g s ≤ lim) := by
  induction ss with
  | nil => intro m0; simp
  | cons s r ih =>
    intro m0
    rw [List.foldl_cons, ih]
    simp only [List.mem_cons, forall_eq_or_imp]
    constructor
    · rintro ⟨h1, h2⟩; exact ⟨by omega, by omega, h2⟩
    · rintro ⟨h1, h2, h3⟩; exact ⟨by omega, h3⟩

theorem selDepth_succ_le (f lim : Nat) (ss : List PSel) :
    selDepth (f + 1) ss ≤ lim ↔ ∀ s ∈ ss, contrib f s ≤ lim := by
  rw [selDepth_succ, foldl_max_le]; simp

theorem selElemK_contrib (env : Env) (k : Pair → Except PErr (List PSel)) (sp : Pair) (s : PSel)
    (f lim : Nat) (h : selElemK env k sp = .ok s)
    (hk : ∀ q sub, k q = .ok sub → selDepth f sub + 1 ≤ lim) : contrib f s ≤ lim := by
  simp only [selElemK, bind, Except.bind, pure, Except.pure, Except.map] at h
  repeat' (split at h)
  all_goals try (cases h)
  all_goals first
    | (simp [contrib]; done)
    | (rename_i hq; have := hk _ _ hq; simp only [contrib]; (try split) <;> omega)

theorem nextIf_snd_sub (rule : String) (ps : List Pair) : ∀ x ∈ (nextIf rule ps).2, x ∈ ps := by
  cases ps with
  | nil => simp [nextIf]
  | cons p r =>
    by_cases h : p.rule = rule <;> simp [nextIf, h]
    intro x hx; exact .inr hx

theorem nextIf_fst_some (rule : String) (ps : List Pair) (q : Pair) (h : (nextIf rule ps).1 = some q) :
    q ∈ ps ∧ q.rule = rule := by
  cases ps with
  | nil => simp [nextIf] at h
  | cons p r =>
    by_cases hr : p.rule = rule <;> simp [nextIf, hr] at h
    subst h; exact ⟨List.mem_cons_self, hr⟩

theorem buildOptDirectives_sub (env : Env) (ps : List Pair) (x : List PDirective × List Pair)
    (h : buildOptDirectives env ps = .ok x) : ∀ y ∈ x.2, y ∈ ps := by
  cases ps with
  | nil => simp [buildOptDirectives] at h; cases h; simp
  | cons p r =>
    simp only [buildOptDirectives] at h
    split at h
    · cases hm : List.mapM (buildDirective env) p.inner with
      | error e => simp [hm, Except.map] at h
      | ok ds =>
        simp [hm, Except.map] at h; cases h
        intro y hy; exact List.mem_cons_of_mem _ hy
    · cases h; intro y hy; exact hy

theorem field_set_mem (env : Env) (c n : Pair) (r2 : List Pair) (x : List PDirective × List Pair) (a : Pair)
    (h1 : (nextIf "alias" c.inner).snd = n :: r2)
    (h2 : buildOptDirectives env (nextIf "arguments" r2).snd = .ok x)
    (h3 : (nextIf "selection_set" x.snd).fst = some a) : a ∈ c.inner ∧ a.rule = "selection_set" := by
  have ha := nextIf_fst_some _ _ _ h3
  refine ⟨?_, ha.2⟩
  have m1 := buildOptDirectives_sub _ _ _ h2 _ ha.1
  have m2 := nextIf_snd_sub _ _ _ m1
  have m3 : a ∈ n :: r2 := List.mem_cons_of_mem _ m2
  rw [← h1] at m3
  exact nextIf_snd_sub _ _ _ m3

theorem inline_set_mem (env : Env) (c : Pair) (x : List PDirective × List Pair) (a : Pair) (t : List Pair)
    (h2 : buildOptDirectives env (nextIf "type_condition" c.inner).snd = .ok x)
    (h3 : x.snd = a :: t) : a ∈ c.inner := by
  have m1 := buildOptDirectives_sub _ _ _ h2 a (by rw [h3]; exact List.mem_cons_self)
  exact nextIf_snd_sub _ _ _ m1

theorem selElemK_transfer (env : Env) (k k' : Pair → Except PErr (List PSel)) (sp : Pair) (s : PSel)
    (f lim : Nat) (h : selElemK env k sp = .ok s) (hd : contrib f s ≤ lim)
    (hk : ∀ c rest q sub, sp.inner = c :: rest → q ∈ c.inner → k q = .ok sub →
      selDepth f sub + 1 ≤ lim → k' q = .ok sub)
    (hne : ∀ c rest q sub, sp.inner = c :: rest → q ∈ c.inner → q.rule = "selection_set" →
      k q = .ok sub → sub ≠ []) :
    selElemK env k' sp = .ok s := by
  simp only [selElemK, bind, Except.bind, pure, Except.pure, Except.map] at h ⊢
  repeat' (split at h)
  all_goals try (cases h)
  all_goals try (simp [*]; done)
  all_goals first
    | (rename_i _ _ hq
       have hc := hd
       simp only [contrib] at hc
       have hm := inline_set_mem env _ _ _ _ ‹buildOptDirectives env _ = Except.ok _› ‹_ = _ :: _›
       have hk' := hk _ _ _ _ ‹sp.inner = _ :: _› hm hq hc
       simp [*]; done)
    | (rename_i _ _ hq
       obtain ⟨m, hr⟩ := field_set_mem env _ _ _ _ _ ‹(nextIf "alias" _).snd = _ :: _›
         ‹buildOptDirectives env _ = Except.ok _› ‹(nextIf "selection_set" _).fst = some _›
       have hv := hne _ _ _ _ ‹sp.inner = _ :: _› m hr hq
       have hc := hd
       simp only [contrib, List.isEmpty_iff, hv, if_false] at hc
       simp [*, hk _ _ _ _ ‹sp.inner = _ :: _› m hq hc]; done)

/-- what the grammar guarantees (`selection_set = { "{" ~ selection+ ~ "}" }`): every
    `selection_set` pair in the tree has at least one inner pair -/
inductive SetsNonEmpty : Pair → Prop
  | mk (r : String) (s e : Nat) (inner : List Pair) :
      (r = "selection_set" → inner ≠ []) → (∀ q ∈ inner, SetsNonEmpty q) → SetsNonEmpty (.mk r s e inner)

theorem SetsNonEmpty.inner {p : Pair} (h : SetsNonEmpty p) : ∀ q ∈ p.inner, SetsNonEmpty q := by
  cases h with | mk r s e inner h1 h2 => exact h2

theorem SetsNonEmpty.ne {p : Pair} (h : SetsNonEmpty p) (hr : p.rule = "selection_set") : p.inner ≠ [] := by
  cases h with | mk r s e inner h1 h2 => exact h1 hr

theorem buildSelSet_depth_le (env : Env) : ∀ (f lim : Nat) (p : Pair) (ss : List PSel),
    buildSelSet env f lim p = .ok ss → selDepth f ss ≤ lim := by
  intro f
  induction f with
  | zero => intro lim p ss h; simp [selDepth]
  | succ f ih =>
    intro lim p ss h
    rw [buildSelSet_succ, mapM_ok_iff] at h
    rw [selDepth_succ_le]
    intro s hs
    obtain ⟨x, _, hx⟩ := h.mem_right s hs
    refine selElemK_contrib env _ x s f lim hx ?_
    intro q sub hq
    unfold kOf at hq
    split at hq
    · cases hq
    · have := ih _ _ _ hq; omega

theorem buildSelSet_nonempty (env : Env) (f lim : Nat) (p : Pair) (ss : List PSel)
    (h : buildSelSet env f lim p = .ok ss) (hp : p.inner ≠ []) : ss ≠ [] := by
  cases f with
  | zero => simp [buildSelSet] at h
  | succ f =>
    rw [buildSelSet_succ, mapM_ok_iff] at h
    have := h.length_eq
    intro hss; subst hss
    simp at this; exact hp this

theorem buildSelSet_within_limit (env : Env) : ∀ (f lim lim' : Nat) (p : Pair) (ss : List PSel),
    SetsNonEmpty p → buildSelSet env f lim' p = .ok ss → selDepth f ss ≤ lim →
    buildSelSet env f lim p = .ok ss := by
  intro f
  induction f with
  | zero => intro lim lim' p ss _ h; simp [buildSelSet] at h
  | succ f ih =>
    intro lim lim' p ss wf h hd
    rw [buildSelSet_succ, mapM_ok_iff] at h ⊢
    rw [selDepth_succ_le] at hd
    refine h.imp_mem ?_
    intro x hx s hs hxs
    have wfx := wf.inner x hx
    refine selElemK_transfer env _ _ x s f lim hxs (hd s hs) ?_ ?_
    · intro c rest q sub hc hq hk hdq
      have wfq : SetsNonEmpty q := (wfx.inner c (by rw [hc]; exact List.mem_cons_self)).inner q hq
      unfold kOf at hk ⊢
      split at hk
      · cases hk
      · rw [if_neg (by omega)]
        exact ih _ _ _ _ wfq hk (by omega)
    · intro c rest q sub hc hq hr hk
      have wfq : SetsNonEmpty q := (wfx.inner c (by rw [hc]; exact List.mem_cons_self)).inner q hq
      unfold kOf at hk
      split at hk
      · cases hk
      · exact buildSelSet_nonempty env _ _ q sub hk (wfq.ne hr)

/-- a pair tree the grammar cannot produce: a field whose `selection_set` pair is empty -/
def badSet : Pair :=
  .mk "selection_set" 0 0 [.mk "selection" 0 0 [.mk "field" 0 0 [.mk "name" 0 0 [], .mk "selection_set" 0 0 []]]]

theorem bad_ok : buildSelSet ⟨{}, #[]⟩ 2 1 badSet = .ok [.field none [] [] [] []] := by rfl
theorem bad_err : buildSelSet ⟨{}, #[]⟩ 2 0 badSet = .error .depth := by rfl

end AGV.Lemmas.ParseC13
