/-
  C20: the traversal inclusion reach ⊆ visited.  Everything the reference execution of a
  well-formed document over a well-formed schema can put into the response (`Spec.Cache.reach`,
  built on `Spec.Exec.collect`/`group`, every runtime type) is merged by the repaired visitor
  (`Model.CacheControl.visitSet` with no defect toggle) at some fuel.

  * `WfSchema`, `wfSel`/`wfSels`, `WfDoc` : the hypotheses, as explicit predicates
  * `Vis` : "merged by the visitor at some fuel", with one introduction rule per visitor step
  * `collect_ok`, `group_mem`, `reach_sub`, `reachRequest_visited` : the induction
-/
import AGV.Lemmas.Cache
namespace AGV.Lemmas.Cache
open AGV.Core AGV.Core.Cache AGV.Model.CacheControl AGV.Spec.Cache AGV.Spec.Exec

/-! ### the visitor, one selection at a time -/

/-- the keys one selection contributes (the body of the `flatMap` in `visitSet`) -/
def selKeys (D : Defects) (S : Schema) (d : Doc) (m : Nat) (cur : Option String) (sel : Sel) : List Key :=
  match sel with
  | .field _ name _ _ ss _ =>
    if name = "__typename" then []
    else enterField D S cur name ++ visitSet D S d m (fieldType S cur name) ss
  | .spread name _ _ =>
    match d.frag? name with
    | none => []
    | some fr =>
      visitSet D S d m (if D.spreadKeepsParentType then cur else typeNamed S fr.cond) fr.sels
  | .inline cond _ ss _ =>
    match cond with
    | some t => visitSet D S d m (typeNamed S t) ss
    | none => visitSet D S d m cur ss

theorem visitSet_succ (D : Defects) (S : Schema) (d : Doc) (m : Nat) (cur : Option String) (ss : List Sel) :
    visitSet D S d (m + 1) cur ss =
      if ss.isEmpty then [] else enterSet D S cur ++ ss.flatMap (selKeys D S d m cur) := by
  rfl

theorem mem_visitSet_succ {D : Defects} {S : Schema} {d : Doc} {m : Nat} {cur : Option String} {ss : List Sel}
    {k : Key} : k ∈ visitSet D S d (m + 1) cur ss ↔
      ss ≠ [] ∧ (k ∈ enterSet D S cur ∨ ∃ sel ∈ ss, k ∈ selKeys D S d m cur sel) := by
  rw [visitSet_succ]
  cases ss with
  | nil => simp
  | cons a r => simp [List.mem_flatMap]

theorem visitSet_mono (D : Defects) (S : Schema) (d : Doc) : ∀ (m : Nat) (cur : Option String) (ss : List Sel) (k : Key),
    k ∈ visitSet D S d m cur ss → k ∈ visitSet D S d (m + 1) cur ss := by
  intro m
  induction m with
  | zero => intro cur ss k h; simp [visitSet] at h
  | succ m ih =>
    intro cur ss k h
    rw [mem_visitSet_succ] at h ⊢
    refine ⟨h.1, ?_⟩
    rcases h.2 with h2 | ⟨sel, hs, h2⟩
    · exact Or.inl h2
    · refine Or.inr ⟨sel, hs, ?_⟩
      cases sel with
      | field al name args dirs sub pos =>
        simp only [selKeys] at h2 ⊢
        split
        · rename_i hn; simp [hn] at h2
        · rename_i hn
          rw [if_neg hn, List.mem_append] at h2
          rw [List.mem_append]
          exact h2.imp id (ih _ _ _)
      | spread name dirs pos =>
        simp only [selKeys] at h2 ⊢
        split
        · rename_i hf; simp [hf] at h2
        · rename_i fr hf
          rw [hf] at h2
          exact ih _ _ _ h2
      | inline cond dirs sub pos =>
        cases cond with
        | some t => exact ih _ _ _ h2
        | none => exact ih _ _ _ h2

theorem visitSet_mono_le (D : Defects) (S : Schema) (d : Doc) {m m' : Nat} (h : m ≤ m') (cur : Option String)
    (ss : List Sel) (k : Key) (hk : k ∈ visitSet D S d m cur ss) : k ∈ visitSet D S d m' cur ss := by
  induction h with
  | refl => exact hk
  | step _ ih => exact visitSet_mono D S d _ cur ss k ih

theorem visitDoc_mono_le (D : Defects) (S : Schema) (d : Doc) {m m' : Nat} (h : m ≤ m') (k : Key)
    (hk : k ∈ visitDoc D S d m) : k ∈ visitDoc D S d m' := by
  unfold visitDoc at hk ⊢
  rw [List.mem_flatMap] at hk ⊢
  obtain ⟨op, hop, h2⟩ := hk
  refine ⟨op, hop, ?_⟩
  split at h2
  · rename_i r hr; exact visitSet_mono_le D S d h _ _ k h2
  · cases h2

/-- a finite list of keys each visited at some fuel is visited at one common fuel -/
theorem exists_common_fuel (D : Defects) (S : Schema) (d : Doc) (l : List Key)
    (h : ∀ k ∈ l, ∃ m, k ∈ visitDoc D S d m) : ∃ M, ∀ m ≥ M, ∀ k ∈ l, k ∈ visitDoc D S d m := by
  induction l with
  | nil => exact ⟨0, fun _ _ k hk => by cases hk⟩
  | cons a l ih =>
    obtain ⟨M1, h1⟩ := ih (fun k hk => h k (List.mem_cons_of_mem _ hk))
    obtain ⟨M2, h2⟩ := h a (List.mem_cons_self ..)
    refine ⟨max M1 M2, ?_⟩
    intro m hm k hk
    rcases List.mem_cons.1 hk with e | e
    · subst e; exact visitDoc_mono_le D S d (by omega) _ h2
    · exact h1 m (by omega) k e

/-- `k` is merged when the repaired visitor visits `ss` with current type `cur` (any fuel) -/
def Vis (S : Schema) (d : Doc) (cur : Option String) (ss : List Sel) (k : Key) : Prop :=
  ∃ m, k ∈ visitSet {} S d m cur ss

theorem Vis.enter {S : Schema} {d : Doc} {cur : Option String} {ss : List Sel} {k : Key}
    (hne : ss ≠ []) (hk : k ∈ enterSet {} S cur) : Vis S d cur ss k :=
  ⟨1, mem_visitSet_succ.2 ⟨hne, Or.inl hk⟩⟩

theorem Vis.of_mem {S : Schema} {d : Doc} {cur : Option String} {ss : List Sel} {sel : Sel} {k : Key}
    (hs : sel ∈ ss) (h : Vis S d cur [sel] k) : Vis S d cur ss k := by
  obtain ⟨m, hm⟩ := h
  cases m with
  | zero => simp [visitSet] at hm
  | succ m =>
    rw [mem_visitSet_succ] at hm
    refine ⟨m + 1, mem_visitSet_succ.2 ⟨List.ne_nil_of_mem hs, ?_⟩⟩
    rcases hm.2 with h2 | ⟨sel', hs', h2⟩
    · exact Or.inl h2
    · rw [List.mem_singleton] at hs'; subst hs'
      exact Or.inr ⟨_, hs, h2⟩

theorem Vis.field_enter {S : Schema} {d : Doc} {cur : Option String} {al : Option String} {name : String}
    {args : List (String × DValue)} {dirs : List Dir} {sub : List Sel} {pos : Pos} {k : Key}
    (hn : name ≠ "__typename") (hk : k ∈ enterField {} S cur name) :
    Vis S d cur [.field al name args dirs sub pos] k :=
  ⟨1, mem_visitSet_succ.2 ⟨by simp, Or.inr ⟨_, List.mem_singleton.2 rfl, by simp [selKeys, hn, hk]⟩⟩⟩

theorem Vis.field_sub {S : Schema} {d : Doc} {cur : Option String} {al : Option String} {name : String}
    {args : List (String × DValue)} {dirs : List Dir} {sub : List Sel} {pos : Pos} {k : Key}
    (hn : name ≠ "__typename") (hk : Vis S d (fieldType S cur name) sub k) :
    Vis S d cur [.field al name args dirs sub pos] k := by
  obtain ⟨m, hm⟩ := hk
  exact ⟨m + 1, mem_visitSet_succ.2 ⟨by simp, Or.inr ⟨_, List.mem_singleton.2 rfl, by simp [selKeys, hn, hm]⟩⟩⟩

theorem Vis.spread {S : Schema} {d : Doc} {cur : Option String} {name : String} {dirs : List Dir} {pos : Pos}
    {fr : FragDef} {k : Key} (hf : d.frag? name = some fr) (hk : Vis S d (typeNamed S fr.cond) fr.sels k) :
    Vis S d cur [.spread name dirs pos] k := by
  obtain ⟨m, hm⟩ := hk
  exact ⟨m + 1, mem_visitSet_succ.2 ⟨by simp, Or.inr ⟨_, List.mem_singleton.2 rfl, by simpa [selKeys, hf] using hm⟩⟩⟩

theorem Vis.inline_some {S : Schema} {d : Doc} {cur : Option String} {t : String} {dirs : List Dir}
    {sub : List Sel} {pos : Pos} {k : Key} (hk : Vis S d (typeNamed S t) sub k) :
    Vis S d cur [.inline (some t) dirs sub pos] k := by
  obtain ⟨m, hm⟩ := hk
  exact ⟨m + 1, mem_visitSet_succ.2 ⟨by simp, Or.inr ⟨_, List.mem_singleton.2 rfl, by simpa [selKeys] using hm⟩⟩⟩

theorem Vis.inline_none {S : Schema} {d : Doc} {cur : Option String} {dirs : List Dir}
    {sub : List Sel} {pos : Pos} {k : Key} (hk : Vis S d cur sub k) :
    Vis S d cur [.inline none dirs sub pos] k := by
  obtain ⟨m, hm⟩ := hk
  exact ⟨m + 1, mem_visitSet_succ.2 ⟨by simp, Or.inr ⟨_, List.mem_singleton.2 rfl, by simpa [selKeys] using hm⟩⟩⟩

/-! ### well-formed schemas and documents -/

/-- the schema facts soundness needs -/
structure WfSchema (S : Schema) : Prop where
  /-- type names are unique -/
  uniq : (S.types.map (·.name)).Nodup
  /-- union members are object types -/
  unionObj : ∀ td ∈ S.types, td.kind = .union → ∀ m ∈ td.members, S.kindOf m = some .object
  /-- a field of a possible runtime type `o` of `td` returns a subtype of what `td` declares for it
      (interface fields are covariant in their implementors; trivial when `td` is an object) -/
  covariant : ∀ td ∈ S.types, ∀ o ∈ S.possibleTypes td.name, ∀ fdT ∈ td.fields,
    ∀ fdO ∈ (S.field? o fdT.name).toList, ∀ x ∈ S.possibleTypes fdO.ty.base, x ∈ S.possibleTypes fdT.ty.base

mutual
/-- one selection set of a definition, static type `t`: every field exists on its parent type
    (FieldsOnCorrectType), a field of composite type has a selection set (ScalarLeafs), and the
    response key determines the field name (`N`; the part of OverlappingFieldsCanBeMerged that
    execution relies on when it merges the selection sets of equally keyed fields) -/
def wfSel (S : Schema) (N : String → String) : String → Sel → Bool
  | t, .field al name _ _ ss _ =>
    (N (Sel.key al name) == name) &&
    (name == "__typename" ||
      match S.field? t name with
      | none => false
      | some fd => (!(S.possibleTypes fd.ty.base).isEmpty → !ss.isEmpty) && wfSels S N fd.ty.base ss)
  | _, .spread _ _ _ => true
  | t, .inline cond _ ss _ => wfSels S N (cond.getD t) ss
def wfSels (S : Schema) (N : String → String) : String → List Sel → Bool
  | _, [] => true
  | t, s :: r => wfSel S N t s && wfSels S N t r
end

/-- the document: every operation has an object root type and a non-empty selection set, and all
    selection sets of operations and fragment definitions are well-formed -/
def WfDoc (S : Schema) (d : Doc) : Prop :=
  ∃ N : String → String,
    (∀ op ∈ d.ops, rootOf S op = some (rootName S op) ∧ S.kindOf (rootName S op) = some .object ∧
      op.sels ≠ [] ∧ wfSels S N (rootName S op) op.sels = true) ∧
    (∀ fr ∈ d.frags, wfSels S N fr.cond fr.sels = true)

theorem wfSels_mem {S : Schema} {N : String → String} {t : String} : ∀ {sels : List Sel} {sel : Sel},
    wfSels S N t sels = true → sel ∈ sels → wfSel S N t sel = true := by
  intro sels
  induction sels with
  | nil => intro sel _ h; cases h
  | cons a r ih =>
    intro sel hw hm
    simp only [wfSels, Bool.and_eq_true] at hw
    rcases List.mem_cons.1 hm with e | e
    · subst e; exact hw.1
    · exact ih hw.2 e

theorem wfSels_field {S : Schema} {N : String → String} {t : String} {al : Option String} {name : String}
    {args : List (String × DValue)} {dirs : List Dir} {ss : List Sel} {pos : Pos}
    (h : wfSel S N t (.field al name args dirs ss pos) = true) :
    N (Sel.key al name) = name ∧ (name ≠ "__typename" → ∃ fd, S.field? t name = some fd ∧
      (S.possibleTypes fd.ty.base ≠ [] → ss ≠ []) ∧ wfSels S N fd.ty.base ss = true) := by
  simp only [wfSel, Bool.and_eq_true, Bool.or_eq_true, beq_iff_eq] at h
  refine ⟨h.1, ?_⟩
  intro hn
  rcases h.2 with e | e
  · exact absurd e hn
  · cases hf : S.field? t name with
    | none => rw [hf] at e; cases e
    | some fd =>
      rw [hf] at e
      simp only [Bool.and_eq_true, decide_eq_true_eq] at e
      refine ⟨fd, rfl, ?_, e.2⟩
      intro hne
      have := e.1 (by simpa using hne)
      simpa using this

theorem wfSels_inline {S : Schema} {N : String → String} {t : String} {cond : Option String}
    {dirs : List Dir} {ss : List Sel} {pos : Pos}
    (h : wfSel S N t (.inline cond dirs ss pos) = true) : wfSels S N (cond.getD t) ss = true := by
  simpa only [wfSel] using h

/-! ### schema lookups -/

theorem kind_beq_object (k : Kind) : (k == Kind.object) = true ↔ k = .object := by
  cases k <;> decide

theorem find?_name {S : Schema} {n : String} {td : TypeDef} (h : S.find? n = some td) :
    td ∈ S.types ∧ td.name = n := by
  unfold Schema.find? at h
  exact ⟨List.mem_of_find?_eq_some h, by simpa using List.find?_some h⟩

theorem find?_of_uniq {S : Schema} (hu : (S.types.map (·.name)).Nodup) {td : TypeDef} (h : td ∈ S.types) :
    S.find? td.name = some td := by
  unfold Schema.find?
  generalize S.types = l at hu h
  induction l with
  | nil => cases h
  | cons a l ih =>
    simp only [List.map_cons, List.nodup_cons] at hu
    rw [List.find?_cons]
    rcases List.mem_cons.1 h with e | e
    · subst e; simp
    · have : a.name ≠ td.name := by
        intro e'
        exact hu.1 (e' ▸ List.mem_map.2 ⟨td, e, rfl⟩)
      simp [this, ih hu.2 e]

theorem typeNamed_of_find {S : Schema} {n : String} {td : TypeDef} (h : S.find? n = some td) :
    typeNamed S n = some n := by
  simp [typeNamed, h, (find?_name h).2]

theorem find_of_possible {S : Schema} {b x : String} (h : x ∈ S.possibleTypes b) : ∃ td, S.find? b = some td := by
  unfold Schema.possibleTypes at h
  cases hf : S.find? b with
  | none => simp [hf] at h
  | some td => exact ⟨td, rfl⟩

/-- possible runtime types are object types -/
theorem possible_isObject {S : Schema} (hS : WfSchema S) {b x : String} (h : x ∈ S.possibleTypes b) :
    S.kindOf x = some .object := by
  unfold Schema.possibleTypes at h
  cases hf : S.find? b with
  | none => simp [hf] at h
  | some td =>
    simp only [hf] at h
    cases hk : td.kind <;> simp only [hk] at h
    case object =>
      simp only [List.mem_singleton] at h
      subst h
      simp [Schema.kindOf, hf, hk]
    case interface =>
      obtain ⟨o, ho, rfl⟩ := List.mem_map.1 h
      simp only [List.mem_filter, Bool.and_eq_true, kind_beq_object] at ho
      simp [Schema.kindOf, find?_of_uniq hS.uniq ho.1, ho.2.1]
    case union =>
      exact hS.unionObj td (find?_name hf).1 hk x h
    all_goals cases h

theorem doesApply_possible {S : Schema} {rt cond : String} (ho : S.kindOf rt = some .object)
    (h : doesApply S rt cond = true) : rt ∈ S.possibleTypes cond := by
  unfold doesApply at h
  unfold Schema.possibleTypes
  cases hf : S.find? cond with
  | none => simp [hf] at h
  | some td =>
    simp only [hf] at h ⊢
    cases hk : td.kind <;> simp only [hk] at h ⊢
    case object =>
      have : cond = rt := by simpa using h
      simp [this]
    case interface =>
      cases hr : S.find? rt with
      | none => simp [hr] at h
      | some o =>
        simp only [hr] at h
        have hn := find?_name hr
        refine List.mem_map.2 ⟨o, ?_, hn.2⟩
        simp only [List.mem_filter, Bool.and_eq_true, kind_beq_object]
        refine ⟨hn.1, ?_, h⟩
        simpa [Schema.kindOf, hr] using ho
    case union => simpa using h
    all_goals cases h

theorem field?_mem {S : Schema} {t f : String} {fd : FieldDef} (h : S.field? t f = some fd) :
    ∃ td, S.find? t = some td ∧ fd ∈ td.fields ∧ fd.name = f := by
  unfold Schema.field? at h
  cases hf : S.find? t with
  | none => simp [hf] at h
  | some td =>
    simp only [hf] at h
    exact ⟨td, rfl, List.mem_of_find?_eq_some h, by simpa using List.find?_some h⟩

/-- covariance in the form the proof uses -/
theorem covariant' {S : Schema} (hS : WfSchema S) {t o f : String} {fdT fdO : FieldDef}
    (ho : o ∈ S.possibleTypes t) (hT : S.field? t f = some fdT) (hO : S.field? o f = some fdO)
    {x : String} (hx : x ∈ S.possibleTypes fdO.ty.base) : x ∈ S.possibleTypes fdT.ty.base := by
  obtain ⟨td, hf, hm, hn⟩ := field?_mem hT
  obtain ⟨htd, hname⟩ := find?_name hf
  subst hname
  refine hS.covariant td htd o ho fdT hm fdO ?_ x hx
  rw [hn, hO]; simp


/-! ### `collect`, `group` and `reach` against the visitor -/

theorem foldl_inv_mem {α β : Type} (P : β → Prop) (f : β → α → β) : ∀ (l : List α) (b : β), P b →
    (∀ acc x, x ∈ l → P acc → P (f acc x)) → P (l.foldl f b) := by
  intro l
  induction l with
  | nil => intro b hb _; exact hb
  | cons a l ih =>
    intro b hb hf
    exact ih _ (hf b a (List.mem_cons_self ..) hb) (fun acc x hx => hf acc x (List.mem_cons_of_mem _ hx))

/-- the body of the fold in `collect` -/
def collectStep (c : Ctx) (rt : String) (fuel : Nat) (acc : List FieldOcc × List String) (sel : Sel) :
    List FieldOcc × List String :=
  match sel with
  | .field al n args dirs ss pos =>
    if excluded c.vars dirs then acc
    else (acc.1 ++ [{ key := Sel.key al n, name := n, args := args, sels := ss, pos := pos }], acc.2)
  | .spread n dirs _ =>
    if excluded c.vars dirs then acc
    else if acc.2.contains n then acc
    else
      let vis := n :: acc.2
      match c.d.frag? n with
      | none => (acc.1, vis)
      | some f =>
        if !doesApply c.S rt f.cond then (acc.1, vis)
        else
          let r := collect c rt fuel f.sels vis
          (acc.1 ++ r.1, r.2)
  | .inline cond dirs ss _ =>
    if excluded c.vars dirs then acc
    else
      match cond with
      | some t =>
        if !doesApply c.S rt t then acc
        else
          let r := collect c rt fuel ss acc.2
          (acc.1 ++ r.1, r.2)
      | none =>
        let r := collect c rt fuel ss acc.2
        (acc.1 ++ r.1, r.2)

theorem collect_succ (c : Ctx) (rt : String) (fuel : Nat) (sels : List Sel) (vis : List String) :
    collect c rt (fuel + 1) sels vis = sels.foldl (collectStep c rt fuel) ([], vis) := by
  rfl

def reachGroup (c : Ctx) (n : Nat) (rt : String) (g : String × List FieldOcc) : List Key :=
  match g.2 with
  | [] => []
  | occ :: _ =>
    if occ.name = "__typename" then []
    else
      match c.S.field? rt occ.name with
      | none => []
      | some fd =>
        ⟨rt, some occ.name⟩ ::
        (c.S.possibleTypes fd.ty.base).flatMap (fun rt' => reach c n rt' (g.2.map (·.sels)).flatten)

theorem reach_succ (c : Ctx) (n : Nat) (rt : String) (sels : List Sel) :
    reach c (n + 1) rt sels =
      ⟨rt, none⟩ :: (group (collect c rt (n + 1) sels []).1).flatMap (reachGroup c n rt) := by
  rfl

theorem enterSet_covers {S : Schema} {t rt : String} (h : rt ∈ S.possibleTypes t) :
    (⟨rt, none⟩ : Key) ∈ enterSet {} S (some t) := by
  unfold Schema.possibleTypes at h
  unfold enterSet Schema.kindOf
  cases hf : S.find? t with
  | none => simp [hf] at h
  | some td =>
    simp only [hf] at h
    cases hk : td.kind <;> simp_all [Schema.possibleTypes]

theorem enterField_covers {S : Schema} {t rt f : String} {fd : FieldDef}
    (h : rt ∈ S.possibleTypes t) (hf : S.field? rt f = some fd) :
    (⟨rt, some f⟩ : Key) ∈ enterField {} S (some t) f := by
  unfold enterField
  have h0 := h
  unfold Schema.possibleTypes at h
  cases hft : S.find? t with
  | none => simp [hft] at h
  | some td =>
    simp only [hft] at h
    cases hk : td.kind
    case object =>
      simp only [hk, List.mem_singleton] at h
      subst h
      simp [hf]
    case interface =>
      have : isAbstract S t = true := by simp [isAbstract, Schema.kindOf, hft, hk]
      simp only [this, List.mem_append]
      right
      simp only [Bool.false_or, Bool.not_true, Bool.false_eq_true, if_false, List.mem_filterMap]
      exact ⟨rt, h0, by simp [hf]⟩
    case union =>
      have : isAbstract S t = true := by simp [isAbstract, Schema.kindOf, hft, hk]
      simp only [this, List.mem_append]
      right
      simp only [Bool.false_or, Bool.not_true, Bool.false_eq_true, if_false, List.mem_filterMap]
      exact ⟨rt, h0, by simp [hf]⟩
    all_goals simp [hk] at h

/-- selection `sel`, collected for runtime type `rt`, is visited under a static type `t` that has
    `rt` among its possible types, everything the visitor merges there is in `V`, and it is
    well-formed for `t` -/
def CovSel (c : Ctx) (N : String → String) (V : Key → Prop) (rt : String) (sel : Sel) : Prop :=
  ∃ t, rt ∈ c.S.possibleTypes t ∧ (∀ k, Vis c.S c.d (some t) [sel] k → V k) ∧ wfSel c.S N t sel = true

def OccOK (c : Ctx) (N : String → String) (V : Key → Prop) (rt : String) (occ : FieldOcc) : Prop :=
  N occ.key = occ.name ∧ ∃ t, rt ∈ c.S.possibleTypes t ∧
    (occ.name ≠ "__typename" →
      (∀ k ∈ enterField {} c.S (some t) occ.name, V k) ∧
      ∃ fdS, c.S.field? t occ.name = some fdS ∧ (c.S.possibleTypes fdS.ty.base ≠ [] → occ.sels ≠ []) ∧
        wfSels c.S N fdS.ty.base occ.sels = true ∧
        (∀ k, Vis c.S c.d (typeNamed c.S fdS.ty.base) occ.sels k → V k))

theorem fieldType_some {S : Schema} {t f : String} {fd : FieldDef} (h : S.field? t f = some fd) :
    fieldType S (some t) f = typeNamed S fd.ty.base := by
  simp [fieldType, h]

theorem collect_ok {c : Ctx} {N : String → String} {V : Key → Prop} {rt : String}
    (hfr : ∀ fr ∈ c.d.frags, wfSels c.S N fr.cond fr.sels = true) (hobj : c.S.kindOf rt = some .object) :
    ∀ (fuel : Nat) (sels : List Sel) (vis : List String), (∀ sel ∈ sels, CovSel c N V rt sel) →
      ∀ occ ∈ (collect c rt fuel sels vis).1, OccOK c N V rt occ := by
  intro fuel
  induction fuel with
  | zero => intro sels vis _ occ h; simp [collect] at h
  | succ fuel ih =>
    intro sels vis hcov
    rw [collect_succ]
    apply foldl_inv_mem (fun (acc : List FieldOcc × List String) => ∀ occ ∈ acc.1, OccOK c N V rt occ)
    · intro occ h; cases h
    · intro acc sel hsel hacc
      obtain ⟨t, hrt, hvis, hwf⟩ := hcov sel hsel
      cases sel with
      | field al n args dirs ss pos =>
        simp only [collectStep]
        split
        · exact hacc
        · intro occ hocc
          rcases List.mem_append.1 hocc with h | h
          · exact hacc occ h
          · rw [List.mem_singleton] at h
            subst h
            obtain ⟨w1, w2⟩ := wfSels_field hwf
            refine ⟨w1, t, hrt, ?_⟩
            intro hn
            obtain ⟨fd, hfd, hne, hw⟩ := w2 hn
            refine ⟨fun k hk => hvis k (Vis.field_enter hn hk), fd, hfd, hne, hw, ?_⟩
            intro k hk
            exact hvis k (Vis.field_sub hn (by rw [fieldType_some hfd]; exact hk))
      | spread n dirs pos =>
        simp only [collectStep]
        split
        · exact hacc
        · split
          · exact hacc
          · split
            · exact hacc
            · rename_i fr hfr'
              split
              · exact hacc
              · rename_i happ
                intro occ hocc
                rcases List.mem_append.1 hocc with h | h
                · exact hacc occ h
                · have happ' : doesApply c.S rt fr.cond = true := by simpa using happ
                  have hposs := doesApply_possible hobj happ'
                  obtain ⟨td, htd⟩ := find_of_possible hposs
                  have hmem : fr ∈ c.d.frags := List.mem_of_find?_eq_some hfr'
                  refine ih fr.sels _ ?_ occ h
                  intro sel' hsel'
                  refine ⟨fr.cond, hposs, ?_, wfSels_mem (hfr fr hmem) hsel'⟩
                  intro k hk
                  apply hvis k
                  apply Vis.spread hfr'
                  rw [typeNamed_of_find htd]
                  exact Vis.of_mem hsel' hk
      | inline cond dirs ss pos =>
        have hw := wfSels_inline hwf
        simp only [collectStep]
        split
        · exact hacc
        · cases cond with
          | some t' =>
            dsimp only
            split
            · exact hacc
            · rename_i happ
              intro occ hocc
              rcases List.mem_append.1 hocc with h | h
              · exact hacc occ h
              · have happ' : doesApply c.S rt t' = true := by simpa using happ
                have hposs := doesApply_possible hobj happ'
                obtain ⟨td, htd⟩ := find_of_possible hposs
                refine ih ss _ ?_ occ h
                intro sel' hsel'
                refine ⟨t', hposs, ?_, wfSels_mem hw hsel'⟩
                intro k hk
                apply hvis k
                apply Vis.inline_some
                rw [typeNamed_of_find htd]
                exact Vis.of_mem hsel' hk
          | none =>
            dsimp only
            intro occ hocc
            rcases List.mem_append.1 hocc with h | h
            · exact hacc occ h
            · refine ih ss _ ?_ occ h
              intro sel' hsel'
              refine ⟨t, hrt, ?_, wfSels_mem hw hsel'⟩
              intro k hk
              exact hvis k (Vis.inline_none (Vis.of_mem hsel' hk))

theorem group_mem (occs : List FieldOcc) : ∀ g ∈ group occs, ∀ o ∈ g.2, o ∈ occs ∧ o.key = g.1 := by
  unfold group
  apply foldl_inv_mem (fun (gs : List (String × List FieldOcc)) => ∀ g ∈ gs, ∀ o ∈ g.2, o ∈ occs ∧ o.key = g.1)
  · intro g h; cases h
  · intro gs x hx hgs
    split
    · intro g hg o ho
      obtain ⟨g0, hg0, e⟩ := List.mem_map.1 hg
      split at e
      · rename_i hk
        subst e
        rcases List.mem_append.1 ho with h | h
        · exact hgs g0 hg0 o h
        · rw [List.mem_singleton] at h; subst h
          exact ⟨hx, by simpa using hk.symm⟩
      · subst e; exact hgs g0 hg0 o ho
    · intro g hg o ho
      rcases List.mem_append.1 hg with h | h
      · exact hgs g h o ho
      · rw [List.mem_singleton] at h; subst h
        simp only [List.mem_singleton] at ho
        subst ho
        exact ⟨hx, rfl⟩

/-- the traversal inclusion, one object at a time -/
theorem reach_sub {c : Ctx} {N : String → String} {V : Key → Prop} (hS : WfSchema c.S)
    (hfr : ∀ fr ∈ c.d.frags, wfSels c.S N fr.cond fr.sels = true) :
    ∀ (n : Nat) (rt : String) (sels : List Sel), c.S.kindOf rt = some .object → sels ≠ [] →
      (∀ sel ∈ sels, CovSel c N V rt sel) → ∀ k ∈ reach c n rt sels, V k := by
  intro n
  induction n with
  | zero => intro rt sels _ _ _ k h; simp [reach] at h
  | succ n ih =>
    intro rt sels hobj hne hcov k hk
    rw [reach_succ] at hk
    rcases List.mem_cons.1 hk with e | hk
    · subst e
      cases sels with
      | nil => exact absurd rfl hne
      | cons sel r =>
        obtain ⟨t, hrt, hvis, _⟩ := hcov sel (List.mem_cons_self ..)
        exact hvis _ (Vis.enter (by simp) (enterSet_covers hrt))
    · obtain ⟨g, hg, hk⟩ := List.mem_flatMap.1 hk
      have hgm := group_mem _ g hg
      have hocc : ∀ o ∈ g.2, OccOK c N V rt o := fun o ho => collect_ok hfr hobj _ _ _ hcov o (hgm o ho).1
      unfold reachGroup at hk
      split at hk
      · cases hk
      · rename_i occ rest hg2
        have hmem0 : occ ∈ g.2 := by rw [hg2]; exact List.mem_cons_self ..
        split at hk
        · cases hk
        · rename_i hn
          split at hk
          · cases hk
          · rename_i fd hfd
            obtain ⟨hN0, t0, hrt0, h0⟩ := hocc occ hmem0
            obtain ⟨henter0, fdS0, hfdS0, hne0, hwf0, hvis0⟩ := h0 hn
            rcases List.mem_cons.1 hk with e | hk
            · subst e
              exact henter0 _ (enterField_covers hrt0 hfd)
            · obtain ⟨rt', hrt', hk⟩ := List.mem_flatMap.1 hk
              refine ih rt' _ (possible_isObject hS hrt') ?_ ?_ k hk
              · -- the merged selection set is not empty
                have h1 : c.S.possibleTypes fdS0.ty.base ≠ [] :=
                  List.ne_nil_of_mem (covariant' hS hrt0 hfdS0 hfd hrt')
                have h2 := hne0 h1
                intro hnil
                rw [hg2] at hnil
                simp only [List.map_cons, List.flatten_cons, List.append_eq_nil_iff] at hnil
                exact h2 hnil.1
              · intro sel hsel
                obtain ⟨l, hl, hsel⟩ := List.mem_flatten.1 hsel
                obtain ⟨o, ho, rfl⟩ := List.mem_map.1 hl
                obtain ⟨hNo, ti, hrti, hi⟩ := hocc o ho
                have hname : o.name = occ.name := by
                  rw [← hNo, ← hN0, (hgm o ho).2, (hgm occ hmem0).2]
                rw [hname] at hi
                obtain ⟨_, fdSi, hfdSi, _, hwfi, hvisi⟩ := hi hn
                have hposs := covariant' hS hrti hfdSi hfd hrt'
                obtain ⟨td, htd⟩ := find_of_possible hposs
                refine ⟨fdSi.ty.base, hposs, ?_, wfSels_mem hwfi hsel⟩
                intro k' hk'
                apply hvisi k'
                rw [typeNamed_of_find htd]
                exact Vis.of_mem hsel hk'


theorem selectOp_mem {d : Doc} {opName : Option String} {op : OpDef} (h : selectOp d opName = some op) :
    op ∈ d.ops := by
  unfold selectOp at h
  cases opName with
  | some n => exact List.mem_of_find?_eq_some h
  | none =>
    change (match d.ops with | [o] => some o | _ => none) = some op at h
    split at h
    · rename_i o heq
      cases h
      rw [heq]; exact List.mem_singleton.2 rfl
    · cases h

theorem possible_self_of_object {S : Schema} {r : String} (h : S.kindOf r = some .object) :
    r ∈ S.possibleTypes r := by
  unfold Schema.kindOf at h
  unfold Schema.possibleTypes
  cases hf : S.find? r with
  | none => simp [hf] at h
  | some td =>
    have : td.kind = .object := by simpa [hf] using h
    simp [this]

/-- The traversal inclusion reach ⊆ visited: for a well-formed schema and document, everything the
    response to the selected operation can contain (any world, every runtime type, any fuel of
    the reference execution) is merged by the repaired visitor at some fuel. -/
theorem reachRequest_visited {S : Schema} {d : Doc} (hS : WfSchema S) (hd : WfDoc S d)
    (opName : Option String) (raw : List (String × GValue)) (n : Nat) :
    ∀ k ∈ reachRequest S d opName raw n, ∃ m, k ∈ visitDoc {} S d m := by
  obtain ⟨N, hops, hfrs⟩ := hd
  intro k hk
  unfold reachRequest at hk
  split at hk
  · cases hk
  · rename_i op hop
    have hmem := selectOp_mem hop
    obtain ⟨hroot, hkind, hne, hwf⟩ := hops op hmem
    obtain ⟨td, htd⟩ : ∃ td, S.find? (rootName S op) = some td := by
      unfold Schema.kindOf at hkind
      cases hf : S.find? (rootName S op) with
      | none => simp [hf] at hkind
      | some td => exact ⟨td, rfl⟩
    refine reach_sub (c := { S := S, d := d, vars := coerceVars op.vars raw, w := ⟨[]⟩ }) (N := N)
      (V := fun k => ∃ m, k ∈ visitDoc {} S d m) hS hfrs n (rootName S op) op.sels hkind hne ?_ k hk
    intro sel hsel
    refine ⟨rootName S op, possible_self_of_object hkind, ?_, wfSels_mem hwf hsel⟩
    intro k' hk'
    obtain ⟨m, hm⟩ := Vis.of_mem hsel hk'
    refine ⟨m, ?_⟩
    unfold visitDoc
    rw [List.mem_flatMap]
    refine ⟨op, hmem, ?_⟩
    rw [hroot]
    simp only
    rw [typeNamed_of_find htd]
    exact hm

end AGV.Lemmas.Cache
