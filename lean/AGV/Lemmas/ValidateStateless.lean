/-
  C09 — the stateless rules of Model/Validate.lean over the toggle-free walk: what they report is
  a function of the structure of the document (`fragOut`, `opOut`, `nodeOut` per visited selection),
  and the exact conditions under which each message kind is reported at each callback.
-/
import AGV.Lemmas.ValidateSpecNodes
namespace AGV.Lemmas.ValidateRules
open AGV.Core AGV.Model.Validate AGV.Lemmas.ValidateWalk

instance : LawfulBEq Model.Validate.Kind where
  rfl := by intro a; cases a <;> rfl
  eq_of_beq := by intro a b h; cases a <;> cases b <;> first | rfl | (exact absurd h (by decide))

/-- `mem_events` for `List.any` -/
theorem any_events (S : VSchema) (d : Doc) (P : Evt → Bool) :
    (events S {} d).any P =
      (P (mk [] .enterDoc) || P (mk [] .exitDoc) || d.frags.any (fun f => (fragLocal S f).any P)
        || d.ops.any (fun o => (opLocal S o).any P) || (docVisits S d).any (fun v => (localEvents S v.1 v.2).any P)) := by
  rw [Bool.eq_iff_iff]
  simp only [List.any_eq_true, Bool.or_eq_true, mem_events]
  constructor
  · rintro ⟨e, (rfl | rfl | ⟨f, hf, h⟩ | ⟨o, ho, h⟩ | ⟨v, hv, h⟩), hp⟩
    · exact Or.inl (Or.inl (Or.inl (Or.inl hp)))
    · exact Or.inl (Or.inl (Or.inl (Or.inr hp)))
    · exact Or.inl (Or.inl (Or.inr ⟨f, hf, e, h, hp⟩))
    · exact Or.inl (Or.inr ⟨o, ho, e, h, hp⟩)
    · exact Or.inr ⟨v, hv, e, h, hp⟩
  · rintro ((((hp | hp) | ⟨f, hf, e, h, hp⟩) | ⟨o, ho, e, h, hp⟩) | ⟨v, hv, e, h, hp⟩)
    · exact ⟨_, Or.inl rfl, hp⟩
    · exact ⟨_, Or.inr (Or.inl rfl), hp⟩
    · exact ⟨e, Or.inr (Or.inr (Or.inl ⟨f, hf, h⟩)), hp⟩
    · exact ⟨e, Or.inr (Or.inr (Or.inr (Or.inl ⟨o, ho, h⟩))), hp⟩
    · exact ⟨e, Or.inr (Or.inr (Or.inr (Or.inr ⟨v, hv, h⟩))), hp⟩


-- ------------------------------------------------------------------ stateless rules over the walk

section
variable (S : VSchema) (d : Doc)

theorem stateless_other (e : Evt)
    (h : match e.ev with
      | .report _ | .enterOp _ | .enterFrag _ | .enterVar _ | .enterDir _ | .enterField .. | .enterSpread .. | .enterInline .. => False
      | _ => True) : stateless S {} d e = [] := by
  rcases e with ⟨ev, c, p⟩
  cases ev <;> simp_all [stateless]

/-- what the stateless rules report for the directives of one location -/
def dirsOut (st : Stack) (ds : List Dir) : List Model.Validate.Kind :=
  ds.flatMap (fun dr => stateless S {} d (mk st (.enterDir dr)))

theorem stateless_walkArgs (st defs args) : (walkArgs S {} st defs args).flatMap (stateless S {} d) = [] := by
  induction args with
  | nil => simp [walkArgs]
  | cons a as ih =>
    simp only [walkArgs, List.flatMap_cons, List.flatMap_append] at ih ⊢
    rw [ih]; simp [stateless, mk]

theorem stateless_walkDirs (st ds) : (walkDirs S {} st ds).flatMap (stateless S {} d) = dirsOut S d st ds := by
  induction ds with
  | nil => simp [walkDirs, dirsOut]
  | cons a as ih =>
    simp only [walkDirs, dirsOut, List.flatMap_cons, List.flatMap_append, stateless_walkArgs] at ih ⊢
    rw [ih]; simp [stateless, mk]

theorem stateless_setEvents (st ss) : (setEvents st ss).flatMap (stateless S {} d) = [] := by
  cases ss <;> simp [setEvents, stateless, mk]

/-- what the stateless rules report at one visited selection -/
def nodeOut (st : Stack) : Sel → List Model.Validate.Kind
  | .field al n args ds ss _ =>
    stateless S {} d (mk (fieldTy S st n :: st) (.enterField al n args ds ss)) ++ dirsOut S d (fieldTy S st n :: st) ds
  | .spread n ds _ => stateless S {} d (mk st (.enterSpread n ds)) ++ dirsOut S d st ds
  | .inline c ds ss _ => stateless S {} d (mk (inlineSt S st c) (.enterInline c ds ss)) ++ dirsOut S d (inlineSt S st c) ds

theorem stateless_localEvents (st s) : (localEvents S st s).flatMap (stateless S {} d) = nodeOut S d st s := by
  cases s <;>
    simp only [localEvents, nodeOut, List.flatMap_cons, List.flatMap_append, stateless_walkArgs, stateless_walkDirs,
      stateless_setEvents, List.flatMap_nil, List.append_nil, List.nil_append] <;>
    simp [stateless, mk]


/-- what the stateless rules report at a fragment definition itself -/
def fragOut (f : FragDef) : List Model.Validate.Kind :=
  stateless S {} d (mk (fragSt S f) (.enterFrag f)) ++ dirsOut S d (fragSt S f) f.dirs

theorem stateless_fragLocal (f) : (fragLocal S f).flatMap (stateless S {} d) = fragOut S d f := by
  simp only [fragLocal, fragOut, List.flatMap_cons, List.flatMap_append, stateless_walkDirs, stateless_setEvents,
    List.flatMap_nil, List.append_nil]
  simp [stateless, mk]

/-- what the stateless rules report at an operation definition itself -/
def opOut (o : OpDef) : List Model.Validate.Kind :=
  stateless S {} d (mk [] (.enterOp o)) ++
    (match rootOf S o.ty with
     | some r => o.vars.flatMap (fun v => stateless S {} d (mk (opSt S r) (.enterVar v))) ++ dirsOut S d (opSt S r) o.dirs
     | none => [.notConfigured])

theorem stateless_vars (st : Stack) (vs : List VarDef) :
    (vs.flatMap (fun v => [mk st (.enterVar v), mk st (.exitVar v)])).flatMap (stateless S {} d)
      = vs.flatMap (fun v => stateless S {} d (mk st (.enterVar v))) := by
  induction vs with
  | nil => simp
  | cons a as ih =>
    simp only [List.flatMap_cons, List.flatMap_append] at ih ⊢
    rw [ih]; simp [stateless, mk]

theorem stateless_opLocal (o) : (opLocal S o).flatMap (stateless S {} d) = opOut S d o := by
  unfold opLocal opOut
  cases rootOf S o.ty <;>
    simp only [List.flatMap_cons, List.flatMap_append, stateless_walkDirs, stateless_setEvents, stateless_vars,
      List.flatMap_nil, List.append_nil] <;>
    simp [stateless, mk]

/-- The stateless rules over the walk = the stateless rules over the structure of the document. -/
theorem mem_stateless_events (k : Model.Validate.Kind) :
    k ∈ (events S {} d).flatMap (stateless S {} d) ↔
      (∃ f ∈ d.frags, k ∈ fragOut S d f) ∨ (∃ o ∈ d.ops, k ∈ opOut S d o) ∨ ∃ v ∈ docVisits S d, k ∈ nodeOut S d v.1 v.2 := by
  simp only [← stateless_fragLocal, ← stateless_opLocal, ← stateless_localEvents, List.mem_flatMap, mem_events]
  constructor
  · rintro ⟨e, (rfl | rfl | ⟨f, hf, h⟩ | ⟨o, ho, h⟩ | ⟨v, hv, h⟩), hk⟩
    · simp [stateless, mk] at hk
    · simp [stateless, mk] at hk
    · exact Or.inl ⟨f, hf, e, h, hk⟩
    · exact Or.inr (Or.inl ⟨o, ho, e, h, hk⟩)
    · exact Or.inr (Or.inr ⟨v, hv, e, h, hk⟩)
  · rintro (⟨f, hf, e, h, hk⟩ | ⟨o, ho, e, h, hk⟩ | ⟨v, hv, e, h, hk⟩)
    · exact ⟨e, Or.inr (Or.inr (Or.inl ⟨f, hf, h⟩)), hk⟩
    · exact ⟨e, Or.inr (Or.inr (Or.inr (Or.inl ⟨o, ho, h⟩))), hk⟩
    · exact ⟨e, Or.inr (Or.inr (Or.inr (Or.inr ⟨v, hv, h⟩))), hk⟩



-- ------------------------------------------------------------------ what each callback reports, exactly

theorem mem_stateless_enterVar (k : Model.Validate.Kind) (st : Stack) (v : VarDef) :
    k ∈ stateless S {} d (mk st (.enterVar v)) ↔
      (k = .unknownTypeDefault ∧ ∃ n, v.ty.nullable = .named n ∧ S.exists? n = false)
      ∨ (k = .invalidDefault ∧ (¬ ∃ n, v.ty.nullable = .named n ∧ S.exists? n = false)
          ∧ ∃ dv, v.default = some dv ∧ validInput S {} valueFuel v.ty dv = false)
      ∨ (k = .unknownType ∧ S.exists? v.ty.base = false)
      ∨ (k = .varNonInput ∧ S.exists? v.ty.base = true ∧ S.isInput v.ty.base = false) := by
  simp only [stateless, mk, List.mem_append]
  grind



theorem mem_stateless_enterOp (k : Model.Validate.Kind) (st : Stack) (o : OpDef) :
    k ∈ stateless S {} d (mk st (.enterOp o)) ↔
      (k = .dupDirective ∧ hasDupNonRepeatable S o.dirs = true)
      ∨ (k = .upload ∧ o.vars.any (fun v => S.exists? v.ty.base && o.ty != .mutation && v.ty.base == "Upload") = true) := by
  simp only [stateless, mk, List.mem_append]
  grind


theorem mem_stateless_enterFrag (k : Model.Validate.Kind) (st : Stack) (f : FragDef) :
    k ∈ stateless S {} d (mk st (.enterFrag f)) ↔
      (k = .dupDirective ∧ hasDupNonRepeatable S f.dirs = true)
      ∨ (k = .fragNonComposite ∧ ∃ t, Stack.cur st = some t ∧ S.isComposite t = false)
      ∨ (k = .unknownType ∧ S.exists? f.cond = false) := by
  simp only [stateless, mk, List.mem_append]
  grind


theorem mem_stateless_enterDir (k : Model.Validate.Kind) (st : Stack) (dr : Dir) :
    k ∈ stateless S {} d (mk st (.enterDir dr)) ↔
      k = .dirArgMissing ∧ ∃ dd, S.dir? dr.name = some dd ∧ missingArgs dd.args dr.args = true := by
  simp only [stateless, mk]
  grind


theorem mem_stateless_enterField (k : Model.Validate.Kind) (st : Stack) al n args ds ss :
    k ∈ stateless S {} d (mk st (.enterField al n args ds ss)) ↔
      (k = .unknownField ∧ ∃ p, Stack.par st = some p ∧ n ≠ "__typename" ∧ S.field? p n = none)
      ∨ (k = .leafWithSel ∧ ∃ t, ((Stack.par st).bind (fun p => S.field? p n)).bind (fun f => S.concrete f.ty) = some t
            ∧ S.isLeaf t = true ∧ ss ≠ [])
      ∨ (k = .compositeNoSel ∧ ∃ t, ((Stack.par st).bind (fun p => S.field? p n)).bind (fun f => S.concrete f.ty) = some t
            ∧ S.isLeaf t = false ∧ ss = [])
      ∨ (k = .fieldArgMissing ∧ ∃ f, (Stack.par st).bind (fun p => S.field? p n) = some f ∧ missingArgs f.args args = true)
      ∨ (k = .dupDirective ∧ hasDupNonRepeatable S ds = true) := by
  simp only [stateless, mk, List.mem_append]
  cases hp : Stack.par st with
  | none => simp; grind
  | some p =>
    simp only [Option.bind_some]
    cases hf : S.field? p n with
    | none => simp; grind
    | some f =>
      simp only [Option.bind_some]
      cases hc : S.concrete f.ty <;> simp <;> grind


theorem mem_stateless_enterSpread (k : Model.Validate.Kind) (st : Stack) n ds :
    k ∈ stateless S {} d (mk st (.enterSpread n ds)) ↔
      (k = .unknownFragment ∧ d.frag? n = none)
      ∨ (k = .spreadImpossible ∧ ∃ f c, d.frag? n = some f ∧ Stack.cur st = some c ∧ S.exists? f.cond = true ∧ S.overlap c f.cond = false)
      ∨ (k = .dupDirective ∧ hasDupNonRepeatable S ds = true) := by
  simp only [stateless, mk, List.mem_append]
  cases h : d.frag? n <;> cases hc : Stack.cur st <;> simp <;> grind


theorem mem_stateless_enterInline (k : Model.Validate.Kind) (st : Stack) c ds ss :
    k ∈ stateless S {} d (mk st (.enterInline c ds ss)) ↔
      (k = .inlineNonComposite ∧ ∃ t, Stack.cur st = some t ∧ S.isComposite t = false)
      ∨ (k = .unknownType ∧ ∃ t, c = some t ∧ S.exists? t = false)
      ∨ (k = .inlineImpossible ∧ ∃ p t, Stack.par st = some p ∧ c = some t ∧ S.exists? t = true ∧ S.overlap p t = false)
      ∨ (k = .dupDirective ∧ hasDupNonRepeatable S ds = true) := by
  simp only [stateless, mk, List.mem_append]
  grind



end

end AGV.Lemmas.ValidateRules
