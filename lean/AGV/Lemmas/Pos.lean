import AGV.Model.Pos
import AGV.Spec.Pos

namespace AGV.Lemmas.Pos
open AGV.Model.Pos AGV.Spec.Pos

/-- what the spec says after a CR has just been consumed: a following LF belongs to it -/
def afterCR (cs : List Char) (l c : Nat) : Nat × Nat :=
  match cs with
  | b :: r => if b = '\n' then lineColAux r l c else lineColAux (b :: r) l c
  | [] => (l, c)

theorem lineColAux_cons (a : Char) (r : List Char) (l c : Nat) :
    lineColAux (a :: r) l c =
      if a = '\n' then lineColAux r (l + 1) 1
      else if a = '\r' then afterCR r (l + 1) 1
      else lineColAux r l (c + 1) := by
  rw [lineColAux.eq_def]
  cases r <;> simp [afterCR]

/-- the one-character state machine computes the two-character look-ahead specification -/
theorem stepChars_spec (cs : List Char) : ∀ l c,
    (let s := stepChars false ⟨l, c, false⟩ cs; (s.line, s.col)) = lineColAux cs l c ∧
    (let s := stepChars false ⟨l, c, true⟩ cs; (s.line, s.col)) = afterCR cs l c := by
  induction cs with
  | nil => intro l c; simp [stepChars, lineColAux, afterCR]
  | cons a r ih =>
    intro l c
    have ihF := fun l c => (ih l c).1
    have ihT := fun l c => (ih l c).2
    simp only [stepChars, List.foldl_cons] at ihF ihT ⊢
    constructor
    · rw [lineColAux_cons]
      by_cases h1 : a = '\n'
      · simp [stepChar, h1, ihF]
      · by_cases h2 : a = '\r'
        · simp [stepChar, h2, ihT]
        · simp [stepChar, h1, h2, ihF]
    · simp only [afterCR]
      by_cases h1 : a = '\n'
      · simp [stepChar, h1, ihF]
      · rw [lineColAux_cons]
        by_cases h2 : a = '\r'
        · simp [stepChar, h2, ihT]
        · simp [stepChar, h1, h2, ihF]

theorem stepChars_append (b : Bool) (s : St) (xs ys : List Char) :
    stepChars b (stepChars b s xs) ys = stepChars b s (xs ++ ys) := by
  simp [stepChars, List.foldl_append]

/-- the incremental calculator: after reaching offset `pos` with state = fold over the prefix,
    every later answer is the fold over the corresponding whole prefix -/
theorem stepAllAux_eq (b : Bool) (text : List Char) : ∀ (offs : List Nat) (pos : Nat),
    List.Pairwise (· ≤ ·) (pos :: offs) →
    stepAllAux b (text.drop pos) pos (stepChars b St.init (text.take pos)) offs =
      offs.map (fun o => let s := stepChars b St.init (text.take o); (s.line, s.col)) := by
  intro offs
  induction offs with
  | nil => intro pos _; simp [stepAllAux]
  | cons o os ih =>
    intro pos hs
    have hpo : pos ≤ o := by
      have := List.rel_of_pairwise_cons hs (List.mem_cons_self)
      exact this
    have hs' : List.Pairwise (· ≤ ·) (o :: os) := (List.pairwise_cons.mp hs).2
    have htake : text.take pos ++ (text.drop pos).take (o - pos) = text.take o := by
      have : o = pos + (o - pos) := by omega
      conv => rhs; rw [this, List.take_add]
    simp only [stepAllAux, List.map_cons]
    rw [stepChars_append, htake]
    have hdrop : (text.drop pos).drop (o - pos) = text.drop o := by
      rw [List.drop_drop]; congr 1; omega
    rw [hdrop, ih o hs']

/-! byte layer -/

theorem byteLen_append (xs ys : List Char) : byteLen (xs ++ ys) = byteLen xs + byteLen ys := by
  induction xs with
  | nil => simp [byteLen]
  | cons a r ih => simp [byteLen, ih, Nat.add_assoc]

/-- cutting at the byte length of a character prefix cuts exactly that prefix -/
theorem takeBytes_prefix (xs ys : List Char) : takeBytes (byteLen xs) (xs ++ ys) = xs := by
  induction xs with
  | nil =>
    cases ys with
    | nil => simp [takeBytes]
    | cons c r =>
      have := Char.utf8Size_pos c
      simp only [byteLen, List.nil_append, takeBytes]
      rw [if_neg (by omega)]
  | cons a r ih =>
    simp only [byteLen, List.cons_append, takeBytes]
    rw [if_pos (by omega)]
    rw [show a.utf8Size + byteLen r - a.utf8Size = byteLen r by omega, ih]

theorem dropBytes_prefix (xs ys : List Char) : dropBytes (byteLen xs) (xs ++ ys) = ys := by
  induction xs with
  | nil =>
    cases ys with
    | nil => simp [dropBytes]
    | cons c r =>
      have := Char.utf8Size_pos c
      simp only [byteLen, List.nil_append, dropBytes]
      rw [if_neg (by omega)]
  | cons a r ih =>
    simp only [byteLen, List.cons_append, dropBytes]
    rw [if_pos (by omega)]
    rw [show a.utf8Size + byteLen r - a.utf8Size = byteLen r by omega, ih]

theorem byteOff_le (text : List Char) {p k : Nat} (h : p ≤ k) :
    byteOff text k = byteOff text p + byteLen ((text.drop p).take (k - p)) := by
  unfold byteOff
  have : text.take k = text.take p ++ (text.drop p).take (k - p) := by
    have hk : k = p + (k - p) := by omega
    conv => lhs; rw [hk, List.take_add]
  rw [this, byteLen_append]

/-- the byte-driven calculator started at a character boundary does what the
    character-driven one does -/
theorem stepAllAuxB_eq (b : Bool) (text : List Char) : ∀ (ks : List Nat) (p : Nat) (s : St),
    List.Pairwise (· ≤ ·) (p :: ks) →
    stepAllAuxB b (text.drop p) (byteOff text p) s (ks.map (byteOff text)) =
      stepAllAux b (text.drop p) p s ks := by
  intro ks
  induction ks with
  | nil => intro p s _; simp [stepAllAuxB, stepAllAux]
  | cons k ks ih =>
    intro p s hs
    have hpk : p ≤ k := List.rel_of_pairwise_cons hs (List.mem_cons_self)
    have hs' : List.Pairwise (· ≤ ·) (k :: ks) := (List.pairwise_cons.mp hs).2
    have hn : byteOff text k - byteOff text p = byteLen ((text.drop p).take (k - p)) := by
      rw [byteOff_le text hpk]; omega
    have htk : takeBytes (byteOff text k - byteOff text p) (text.drop p) = (text.drop p).take (k - p) := by
      rw [hn]
      have := takeBytes_prefix ((text.drop p).take (k - p)) ((text.drop p).drop (k - p))
      rwa [List.take_append_drop] at this
    have hdr : dropBytes (byteOff text k - byteOff text p) (text.drop p) = text.drop k := by
      rw [hn]
      have := dropBytes_prefix ((text.drop p).take (k - p)) ((text.drop p).drop (k - p))
      rw [List.take_append_drop] at this
      rw [this, List.drop_drop]; congr 1; omega
    have hdr' : (text.drop p).drop (k - p) = text.drop k := by
      rw [List.drop_drop]; congr 1; omega
    simp only [List.map_cons, stepAllAuxB, stepAllAux]
    rw [htk, hdr, hdr', ih k _ hs']

theorem pestAux_eq_spec (pre : List Char) (l c : Nat) :
    pestAux false pre l c = lineColAux pre l c := by
  fun_induction lineColAux pre l c <;> (rw [pestAux.eq_def]; try simp_all)

end AGV.Lemmas.Pos
