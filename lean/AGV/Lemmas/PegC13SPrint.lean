/-
  Property C13, printer side: the canonical printer does not see the normalisation the tree builder
  applies (object literals collected into an `IndexMap`), and the document-level rules are those of
  the specification on the normalised definitions.
-/
import AGV.Lemmas.PegC13Defs2
import AGV.Lemmas.ParseC13Unique
namespace AGV.Lemmas.PegX
open AGV.Model.BuildAst AGV.Spec.Parse AGV.Core.PAst AGV.Lemmas.ParseC13 AGV.Sexp

-- ------------------------------------------------------------------ IndexMap collection

theorem indexMapInsert_eq (k : Name) (v : PValue) (m : List (Name × PValue)) :
    indexMapInsert k v m = imInsert k v m := by
  induction m with
  | nil => rfl
  | cons a r ih => obtain ⟨k', v'⟩ := a; simp [indexMapInsert, imInsert, ih]

theorem indexMapCollect_eq (fs : List (Name × PValue)) : indexMapCollect fs = imCollect fs := by
  unfold indexMapCollect imCollect
  congr
  funext m p
  exact indexMapInsert_eq ..

theorem imInsert_map {β γ : Type} (g : β → γ) (k : Name) (v : β) (m : List (Name × β)) :
    imInsert k (g v) (m.map fun p => (p.1, g p.2)) = (imInsert k v m).map fun p => (p.1, g p.2) := by
  induction m with
  | nil => rfl
  | cons a r ih =>
    obtain ⟨k', v'⟩ := a
    simp only [List.map_cons, imInsert]
    split
    · rfl
    · simp [ih]

theorem imFold_map {β γ : Type} (g : β → γ) (fs : List (Name × β)) : ∀ m : List (Name × β),
    (fs.map fun p => (p.1, g p.2)).foldl (fun m p => imInsert p.1 p.2 m) (m.map fun p => (p.1, g p.2)) =
      (fs.foldl (fun m p => imInsert p.1 p.2 m) m).map fun p => (p.1, g p.2) := by
  induction fs with
  | nil => intro m; rfl
  | cons a r ih =>
    intro m
    simp only [List.map_cons, List.foldl_cons]
    rw [imInsert_map, ih]

/-- collecting commutes with mapping the values -/
theorem imCollect_map {β γ : Type} (g : β → γ) (fs : List (Name × β)) :
    imCollect (fs.map fun p => (p.1, g p.2)) = (imCollect fs).map fun p => (p.1, g p.2) :=
  imFold_map g fs []

theorem imInsert_keys {β : Type} (k : Name) (v : β) (m : List (Name × β)) :
    (imInsert k v m).map (·.1) = if k ∈ m.map (·.1) then m.map (·.1) else m.map (·.1) ++ [k] := by
  induction m with
  | nil => simp [imInsert]
  | cons a r ih =>
    obtain ⟨k', v'⟩ := a
    simp only [imInsert]
    by_cases h : k' = k
    · subst h; simp
    · have h' : ¬ k = k' := fun e => h e.symm
      simp only [h, if_false, List.map_cons, ih, List.mem_cons, h', false_or]
      split <;> simp

theorem imInsert_new {β : Type} (k : Name) (v : β) (m : List (Name × β)) (h : k ∉ m.map (·.1)) :
    imInsert k v m = m ++ [(k, v)] := by
  induction m with
  | nil => rfl
  | cons a r ih =>
    obtain ⟨k', v'⟩ := a
    simp only [List.map_cons, List.mem_cons, not_or] at h
    have h' : ¬ k' = k := fun e => h.1 e.symm
    simp [imInsert, h', ih h.2]

theorem imInsert_nodup {β : Type} (k : Name) (v : β) (m : List (Name × β)) (h : (m.map (·.1)).Nodup) :
    ((imInsert k v m).map (·.1)).Nodup := by
  rw [imInsert_keys]
  split
  · exact h
  · rename_i hk
    rw [List.nodup_append]
    refine ⟨h, by simp, ?_⟩
    intro a ha b hb
    simp at hb
    subst hb
    intro e; subst e; exact hk ha

theorem imFold_nodup {β : Type} (fs : List (Name × β)) : ∀ m : List (Name × β), (m.map (·.1)).Nodup →
    ((fs.foldl (fun m p => imInsert p.1 p.2 m) m).map (·.1)).Nodup := by
  induction fs with
  | nil => intro m h; exact h
  | cons a r ih => intro m h; exact ih _ (imInsert_nodup _ _ _ h)

theorem imFold_id {β : Type} (l : List (Name × β)) : ∀ m : List (Name × β), ((m ++ l).map (·.1)).Nodup →
    l.foldl (fun m p => imInsert p.1 p.2 m) m = m ++ l := by
  induction l with
  | nil => intro m _; simp
  | cons a r ih =>
    intro m h
    simp only [List.foldl_cons]
    have hk : a.1 ∉ m.map (·.1) := by
      intro hm
      simp only [List.map_append, List.map_cons, List.nodup_append] at h
      exact h.2.2 _ hm _ (List.mem_cons_self) rfl
    rw [imInsert_new _ _ _ hk, ih]
    · simp
    · simpa using h

/-- collecting is idempotent -/
theorem imCollect_idem {β : Type} (fs : List (Name × β)) : imCollect (imCollect fs) = imCollect fs := by
  have h : ((imCollect fs).map (·.1)).Nodup := imFold_nodup fs [] (by simp)
  have := imFold_id (imCollect fs) [] (by simpa using h)
  simpa [imCollect] using this

-- ------------------------------------------------------------------ values

theorem sFields_map (fs : List (Name × PValue)) : sFields fs = fs.map fun p => (p.1, sValue p.2) := by
  induction fs with
  | nil => rfl
  | cons a r ih => obtain ⟨k, v⟩ := a; simp [sFields, ih]

theorem normFs_map (fs : List (Name × PValue)) : normFs fs = fs.map fun p => (p.1, normV p.2) := by
  induction fs with
  | nil => rfl
  | cons a r ih => obtain ⟨k, v⟩ := a; simp [normFs, ih]

mutual
theorem sValue_norm : ∀ v : PValue, sValue (normV v) = sValue v
  | .var _ => by simp [normV]
  | .int _ => by simp [normV]
  | .float _ => by simp [normV]
  | .str _ => by simp [normV]
  | .bool _ => by simp [normV]
  | .null => by simp [normV]
  | .enum _ => by simp [normV]
  | .list xs => by
    rw [normV, sValue, sValue, sValues_norm xs]
  | .obj fs => by
    rw [normV, sValue, sValue, indexMapCollect_eq, sFields_map (imCollect _), ← imCollect_map, ← sFields_map,
      sFields_norm fs, imCollect_idem]
theorem sValues_norm : ∀ vs : List PValue, sValues (normVs vs) = sValues vs
  | [] => by simp [normVs]
  | x :: xs => by rw [normVs, sValues, sValues, sValue_norm x, sValues_norm xs]
theorem sFields_norm : ∀ fs : List (Name × PValue), sFields (normFs fs) = sFields fs
  | [] => by simp [normFs]
  | (k, v) :: fs => by rw [normFs, sFields, sFields, sValue_norm v, sFields_norm fs]
end

theorem sArgs_norm (as : List (Name × PValue)) : sArgs (normFs as) = sArgs as := by
  simp only [sArgs, normFs_map, List.map_map]
  congr 1
  apply List.map_congr_left
  intro p _
  simp [sValue_norm]

theorem sDirs_norm (ds : List PDirective) : sDirs (normDs ds) = sDirs ds := by
  simp only [sDirs, normDs, List.map_map]
  congr 1
  apply List.map_congr_left
  intro d _
  simp [normD, sArgs_norm]

mutual
theorem sSel_norm : ∀ s : PSel, sSel (normSel s) = sSel s
  | .field a n as ds ss => by rw [normSel, sSel, sSel, sArgs_norm, sDirs_norm, sSelList_norm ss]
  | .spread n ds => by rw [normSel, sSel, sSel, sDirs_norm]
  | .inline tc ds ss => by rw [normSel, sSel, sSel, sDirs_norm, sSelList_norm ss]
theorem sSelList_norm : ∀ ss : List PSel, sSelList (normSels ss) = sSelList ss
  | [] => by simp [normSels]
  | s :: ss => by rw [normSels, sSelList, sSelList, sSel_norm s, sSelList_norm ss]
end

theorem sSels_norm (ss : List PSel) : sSels (normSels ss) = sSels ss := by
  simp [sSels, sSelList_norm]

theorem sVarDef_norm (v : PVarDef) : sVarDef (normVD v) = sVarDef v := by
  obtain ⟨n, t, ds, d⟩ := v
  cases d <;> simp [sVarDef, normVD, sDirs_norm, sValue_norm]

-- ------------------------------------------------------------------ documents

def normOp (o : POp) : POp := ⟨o.ty, o.vars.map normVD, normDs o.dirs, normSels o.sels⟩
def normFrag (f : PFrag) : PFrag := ⟨f.tc, normDs f.dirs, normSels f.sels⟩
def normOps : POps → POps
  | .single o => .single (normOp o)
  | .multi m => .multi (m.map fun p => (p.1, normOp p.2))
def normDoc (d : PDoc) : PDoc := ⟨normOps d.ops, d.frags.map fun p => (p.1, normFrag p.2)⟩

theorem sOp_norm (o : POp) : sOp (normOp o) = sOp o := by
  have h : (sVarDef ∘ normVD) = sVarDef := funext sVarDef_norm
  simp only [sOp, normOp, sDirs_norm, sSels_norm, List.map_map, h]

theorem mergeSort_mapSnd {β γ : Type} (g : β → γ) (m : List (Name × β)) :
    (m.map fun p => (p.1, g p.2)).mergeSort (fun a b => nameLe a.1 b.1) =
      (m.mergeSort (fun a b => nameLe a.1 b.1)).map fun p => (p.1, g p.2) :=
  (List.map_mergeSort (r := fun a b => nameLe a.1 b.1) (s := fun a b => nameLe a.1 b.1)
    (f := fun p : Name × β => (p.1, g p.2)) (l := m) (fun _ _ _ _ => rfl)).symm

theorem sDoc_norm (d : PDoc) : sDoc (normDoc d) = sDoc d := by
  obtain ⟨ops, frags⟩ := d
  have hf : ((frags.map fun p => (p.1, normFrag p.2)).mergeSort (fun a b => nameLe a.1 b.1)).map
        (fun p => Sexp.list [sName p.1, sName p.2.tc, sDirs p.2.dirs, sSels p.2.sels]) =
      (frags.mergeSort (fun a b => nameLe a.1 b.1)).map
        (fun p => Sexp.list [sName p.1, sName p.2.tc, sDirs p.2.dirs, sSels p.2.sels]) := by
    rw [mergeSort_mapSnd, List.map_map]
    apply List.map_congr_left
    intro p _
    simp [normFrag, sDirs_norm, sSels_norm]
  cases ops with
  | single o => simp only [sDoc, normDoc, normOps, sOp_norm, hf]
  | multi m =>
    simp only [sDoc, normDoc, normOps, hf]
    have h : ((fun p : Name × POp => Sexp.list [sName p.1, sOp p.2]) ∘ fun p : Name × POp => (p.1, normOp p.2)) =
        fun p : Name × POp => Sexp.list [sName p.1, sOp p.2] := by
      funext p; simp [sOp_norm]
    rw [mergeSort_mapSnd, List.map_map, h]

theorem sResult_norm (d : PDoc) : sResult (.ok (normDoc d)) = sResult (.ok d) := by
  simp [sResult, sDoc_norm]

-- ------------------------------------------------------------------ document-level rules

theorem opNames_norm (defs : List PDef) : opNames (defs.map normDef) = opNames defs := by
  induction defs with
  | nil => rfl
  | cons d r ih =>
    cases d with
    | op n o => cases n <;> simp [normDef, ih]
    | frag n f => simp [normDef, ih]

theorem anonOps_norm (defs : List PDef) : anonOps (defs.map normDef) = (anonOps defs).map normOp := by
  induction defs with
  | nil => rfl
  | cons d r ih =>
    cases d with
    | op n o => cases n <;> simp [normDef, ih, normOp]
    | frag n f => simp [normDef, ih]

theorem namedOps_norm (defs : List PDef) :
    namedOps (defs.map normDef) = (namedOps defs).map fun p => (p.1, normOp p.2) := by
  induction defs with
  | nil => rfl
  | cons d r ih =>
    cases d with
    | op n o => cases n <;> simp [normDef, ih, normOp]
    | frag n f => simp [normDef, ih]

theorem fragDefs_norm (defs : List PDef) :
    fragDefs (defs.map normDef) = (fragDefs defs).map fun p => (p.1, normFrag p.2) := by
  induction defs with
  | nil => rfl
  | cons d r ih =>
    cases d with
    | op n o => cases n <;> simp [normDef, ih]
    | frag n f => simp [normDef, ih, normFrag]

theorem validDefs_norm (P : Params) (defs : List PDef) : validDefs P (defs.map normDef) = validDefs P defs := by
  simp [validDefs, opNames_norm, anonOps_norm, fragDefs_norm, List.map_map, Function.comp_def]

theorem mkDoc_norm (defs : List PDef) : mkDoc (defs.map normDef) = (mkDoc defs).map normDoc := by
  unfold mkDoc
  rw [anonOps_norm, namedOps_norm, fragDefs_norm]
  cases anonOps defs with
  | nil => simp [normDoc, normOps]
  | cons o r => simp [normDoc, normOps]

/-- the printed result of the document-level loop on the stored definitions is that of the
    specification's rules on the definitions as written -/
theorem model_print (defs : List PDef) :
    (match collectDefs (defs.map normDef) with
      | .ok d => some (sResult (.ok d))
      | .error _ => none) =
    if validDefs {} defs then (mkDoc defs).map (fun d => sResult (.ok d)) else none := by
  have h := collectDefs_spec (defs.map normDef)
  rw [validDefs_norm, mkDoc_norm] at h
  cases hc : collectDefs (defs.map normDef) with
  | ok d =>
    rw [hc] at h
    simp only [toOpt] at h
    split at h
    · rename_i hv
      simp only [hv, if_true]
      cases hm : mkDoc defs with
      | none => simp [hm] at h
      | some d0 =>
        simp [hm] at h
        subst h
        simp [sResult_norm]
    · cases h
  | error e =>
    rw [hc] at h
    simp only [toOpt] at h
    split at h
    · rename_i hv
      simp only [hv, if_true]
      cases hm : mkDoc defs with
      | none => rfl
      | some d0 => simp [hm] at h
    · rename_i hv
      simp [hv]
end AGV.Lemmas.PegX
