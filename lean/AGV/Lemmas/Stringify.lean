/-
  C21 helper lemmas: the repaired printer is a function of the request "outside secrets".
-/
import AGV.Model.Stringify

namespace AGV.Lemmas.Stringify
open AGV.Core AGV.Spec.Stringify AGV.Model.Stringify

theorem sval_secret (D : Defects) (R : Reg) (pv : GValue → String) (m : Option Meta) (g : GValue)
    (h : isSecret m = true) : sval D R pv m g = secretText := by
  cases g <;> simp [sval, h]

mutual
theorem sval_eq (R : Reg) (pv : GValue → String) : ∀ (m : Option Meta) (g g' : GValue),
    VRel R m g g' → sval Defects.none R pv m g = sval Defects.none R pv m g'
  | m, .obj fs, g', h => by
    by_cases hs : isSecret m = true
    · rw [sval_secret _ _ _ _ _ hs, sval_secret _ _ _ _ _ hs]
    · simp only [VRel, hs, Bool.false_eq_true, false_or] at h
      cases g' with
      | obj fs' =>
        simp only at h
        simp only [sval, hs, Bool.false_eq_true, if_false]
        cases ht : inputTypeOf R m with
        | some t =>
          rw [ht] at h
          simp only at h
          simp [sfields_eq R pv t true fs fs' h]
        | none =>
          rw [ht] at h
          simp only at h
          subst h; rfl
      | _ => simp at h
  | m, .list xs, g', h => by
    by_cases hs : isSecret m = true
    · rw [sval_secret _ _ _ _ _ hs, sval_secret _ _ _ _ _ hs]
    · simp only [VRel, hs, Bool.false_eq_true, false_or] at h
      cases g' with
      | list xs' =>
        simp only at h
        have hl : Defects.none.listNotRecursed = false := rfl
        simp only [sval, hs, hl, Bool.false_eq_true, if_false]
        rw [sitems_eq R pv m true xs xs' h]
      | _ => simp at h
  | m, .null, g', h => by
    by_cases hs : isSecret m = true
    · rw [sval_secret _ _ _ _ _ hs, sval_secret _ _ _ _ _ hs]
    · simp only [VRel, hs, Bool.false_eq_true, false_or] at h; subst h; rfl
  | m, .int i, g', h => by
    by_cases hs : isSecret m = true
    · rw [sval_secret _ _ _ _ _ hs, sval_secret _ _ _ _ _ hs]
    · simp only [VRel, hs, Bool.false_eq_true, false_or] at h; subst h; rfl
  | m, .float t, g', h => by
    by_cases hs : isSecret m = true
    · rw [sval_secret _ _ _ _ _ hs, sval_secret _ _ _ _ _ hs]
    · simp only [VRel, hs, Bool.false_eq_true, false_or] at h; subst h; rfl
  | m, .str s, g', h => by
    by_cases hs : isSecret m = true
    · rw [sval_secret _ _ _ _ _ hs, sval_secret _ _ _ _ _ hs]
    · simp only [VRel, hs, Bool.false_eq_true, false_or] at h; subst h; rfl
  | m, .bool b, g', h => by
    by_cases hs : isSecret m = true
    · rw [sval_secret _ _ _ _ _ hs, sval_secret _ _ _ _ _ hs]
    · simp only [VRel, hs, Bool.false_eq_true, false_or] at h; subst h; rfl
  | m, .enum n, g', h => by
    by_cases hs : isSecret m = true
    · rw [sval_secret _ _ _ _ _ hs, sval_secret _ _ _ _ _ hs]
    · simp only [VRel, hs, Bool.false_eq_true, false_or] at h; subst h; rfl
theorem sfields_eq (R : Reg) (pv : GValue → String) : ∀ (t : TypeDef) (first : Bool)
    (fs fs' : List (String × GValue)), FRel R t fs fs' →
    sfields Defects.none R pv t first fs = sfields Defects.none R pv t first fs'
  | t, first, [], fs', h => by
    simp only [FRel] at h; subst h; rfl
  | t, first, (k, v) :: rest, fs', h => by
    cases fs' with
    | nil => simp [FRel] at h
    | cons p rest' =>
      obtain ⟨k', v'⟩ := p
      simp only [FRel] at h
      obtain ⟨hk, hv, hr⟩ := h
      subst hk
      simp only [sfields]
      rw [sval_eq R pv _ v v' hv, sfields_eq R pv t false rest rest' hr]
theorem sitems_eq (R : Reg) (pv : GValue → String) : ∀ (m : Option Meta) (first : Bool)
    (xs xs' : List GValue), LRel R m xs xs' →
    sitems Defects.none R pv m first xs = sitems Defects.none R pv m first xs'
  | m, first, [], xs', h => by
    simp only [LRel] at h; subst h; rfl
  | m, first, x :: rest, xs', h => by
    cases xs' with
    | nil => simp [LRel] at h
    | cons x' rest' =>
      simp only [LRel] at h
      obtain ⟨hv, hr⟩ := h
      simp only [sitems]
      rw [sval_eq R pv m x x' hv, sitems_eq R pv m false rest rest' hr]
end

theorem sargs_eq (R : Reg) (pv : GValue → String) (vars vars' : Vars) (parent : Option TypeDef)
    (field : String) : ∀ (first : Bool) (as as' : List (String × DValue)),
    ARel R vars vars' parent field as as' →
    sargs Defects.none R pv vars parent field first as = sargs Defects.none R pv vars' parent field first as'
  | first, [], as', h => by
    simp only [ARel] at h; subst h; rfl
  | first, (k, a) :: rest, as', h => by
    cases as' with
    | nil => simp [ARel] at h
    | cons p rest' =>
      obtain ⟨k', a'⟩ := p
      simp only [ARel] at h
      obtain ⟨hk, hv, hr⟩ := h
      subst hk
      simp only [sargs]
      rw [sval_eq R pv _ _ _ hv, sargs_eq R pv vars vars' parent field false rest rest' hr]

theorem ARel_isEmpty (R : Reg) (vars vars' : Vars) (parent : Option TypeDef) (field : String)
    (as as' : List (String × DValue)) (h : ARel R vars vars' parent field as as') :
    as.isEmpty = as'.isEmpty := by
  cases as with
  | nil => simp only [ARel] at h; subst h; rfl
  | cons p r =>
    obtain ⟨k, a⟩ := p
    cases as' with
    | nil => simp [ARel] at h
    | cons _ _ => rfl

theorem SsRel_isEmpty (R : Reg) (vars vars' : Vars) (parent : Option TypeDef)
    (ss ss' : List Sel) (h : SsRel R vars vars' parent ss ss') : ss.isEmpty = ss'.isEmpty := by
  cases ss with
  | nil => simp only [SsRel] at h; subst h; rfl
  | cons s r =>
    cases ss' with
    | nil => simp [SsRel] at h
    | cons _ _ => rfl

theorem inlineParent_none (R : Reg) (parent : Option TypeDef) (c : Option String) :
    inlineParent Defects.none R parent c = inlineScope R parent c := by
  cases c <;> simp [inlineParent, inlineScope, Defects.none]

mutual
theorem ssel_eq (R : Reg) (pv : GValue → String) (vars vars' : Vars) : ∀ (parent : Option TypeDef)
    (s s' : Sel), SRel R vars vars' parent s s' →
    ssel Defects.none R pv vars parent s = ssel Defects.none R pv vars' parent s'
  | parent, .field al n args ds sels p, s', h => by
    cases s' with
    | field al' n' args' ds' sels' p' =>
      simp only [SRel] at h
      obtain ⟨ha, hn, hargs, hsels⟩ := h
      subst ha; subst hn
      simp only [ssel]
      rw [ARel_isEmpty _ _ _ _ _ _ _ hargs, SsRel_isEmpty _ _ _ _ _ _ hsels,
        sargs_eq R pv vars vars' parent n true args args' hargs,
        ssels_eq R pv vars vars' (childType R parent n) true sels sels' hsels]
    | spread _ _ _ => simp [SRel] at h
    | inline _ _ _ _ => simp [SRel] at h
  | parent, .spread n ds p, s', h => by
    cases s' with
    | spread n' _ _ => simp only [SRel] at h; subst h; simp [ssel]
    | field _ _ _ _ _ _ => simp [SRel] at h
    | inline _ _ _ _ => simp [SRel] at h
  | parent, .inline c ds sels p, s', h => by
    cases s' with
    | inline c' ds' sels' p' =>
      simp only [SRel] at h
      obtain ⟨hc, hsels⟩ := h
      subst hc
      simp only [ssel, inlineParent_none]
      rw [ssels_eq R pv vars vars' (inlineScope R parent c) true sels sels' hsels]
    | field _ _ _ _ _ _ => simp [SRel] at h
    | spread _ _ _ => simp [SRel] at h
theorem ssels_eq (R : Reg) (pv : GValue → String) (vars vars' : Vars) : ∀ (parent : Option TypeDef)
    (first : Bool) (ss ss' : List Sel), SsRel R vars vars' parent ss ss' →
    ssels Defects.none R pv vars parent first ss = ssels Defects.none R pv vars' parent first ss'
  | parent, first, [], ss', h => by
    simp only [SsRel] at h; subst h; rfl
  | parent, first, s :: rest, ss', h => by
    cases ss' with
    | nil => simp [SsRel] at h
    | cons s' rest' =>
      simp only [SsRel] at h
      obtain ⟨hs, hr⟩ := h
      simp only [ssels]
      rw [ssel_eq R pv vars vars' parent s s' hs, ssels_eq R pv vars vars' parent false rest rest' hr]
end

theorem svardefs_eq (pv : GValue → String) : ∀ (first : Bool) (vs vs' : List VarDef), VdRel vs vs' →
    svardefs Defects.none pv first vs = svardefs Defects.none pv first vs'
  | first, [], vs', h => by
    simp only [VdRel] at h; subst h; rfl
  | first, v :: rest, vs', h => by
    cases vs' with
    | nil => simp [VdRel] at h
    | cons v' rest' =>
      simp only [VdRel] at h
      obtain ⟨hn, ht, hr⟩ := h
      have hd : Defects.none.varDefaultPrinted = false := rfl
      simp only [svardefs, hd, hn, ht, Bool.false_eq_true, if_false]
      rw [svardefs_eq pv false rest rest' hr]
      cases v.default <;> cases v'.default <;> rfl

theorem VdRel_isEmpty (vs vs' : List VarDef) (h : VdRel vs vs') : vs.isEmpty = vs'.isEmpty := by
  cases vs with
  | nil => simp only [VdRel] at h; subst h; rfl
  | cons _ _ =>
    cases vs' with
    | nil => simp [VdRel] at h
    | cons _ _ => rfl

theorem sop_eq (R : Reg) (pv : GValue → String) (vars vars' : Vars) (o o' : OpDef)
    (h : OpRel R vars vars' o o') :
    sop Defects.none R pv vars o = sop Defects.none R pv vars' o' := by
  obtain ⟨ht, hn, hv, hs⟩ := h
  simp only [sop, selSet]
  rw [← ht, ← hn, VdRel_isEmpty _ _ hv, svardefs_eq pv true _ _ hv, ssels_eq R pv vars vars' _ true _ _ hs]

theorem sfrag_eq (R : Reg) (pv : GValue → String) (vars vars' : Vars) (f f' : FragDef)
    (h : FragRel R vars vars' f f') :
    sfrag Defects.none R pv vars f = sfrag Defects.none R pv vars' f' := by
  obtain ⟨hn, hc, hs⟩ := h
  simp only [sfrag, selSet]
  rw [← hn, ← hc, ssels_eq R pv vars vars' _ true _ _ hs]

theorem sops_eq (R : Reg) (pv : GValue → String) (vars vars' : Vars) : ∀ (os os' : List OpDef),
    OpsRel R vars vars' os os' → sops Defects.none R pv vars os = sops Defects.none R pv vars' os'
  | [], os', h => by simp only [OpsRel] at h; subst h; rfl
  | o :: rest, os', h => by
    cases os' with
    | nil => simp [OpsRel] at h
    | cons o' rest' =>
      simp only [OpsRel] at h
      simp only [sops]
      rw [sop_eq R pv vars vars' o o' h.1, sops_eq R pv vars vars' rest rest' h.2]

theorem sfrags_eq (R : Reg) (pv : GValue → String) (vars vars' : Vars) : ∀ (fs fs' : List FragDef),
    FragsRel R vars vars' fs fs' → sfrags Defects.none R pv vars fs = sfrags Defects.none R pv vars' fs'
  | [], fs', h => by simp only [FragsRel] at h; subst h; rfl
  | f :: rest, fs', h => by
    cases fs' with
    | nil => simp [FragsRel] at h
    | cons f' rest' =>
      simp only [FragsRel] at h
      simp only [sfrags]
      rw [sfrag_eq R pv vars vars' f f' h.1, sfrags_eq R pv vars vars' rest rest' h.2]

end AGV.Lemmas.Stringify
