/-
  C21 helper lemmas: the repaired printer is a function of the request "outside secrets".
-/
import AGV.Model.Stringify

namespace AGV.Lemmas.Stringify
open AGV.Core AGV.Spec.Stringify AGV.Model.Stringify

theorem sval_secret (D : Defects) (R : Reg) (pv : GValue → String) (m : Option Meta) (g : GValue)
    (h : isSecret m = true) : sval D R pv m g = secretText := by
  cases g <;> simp [sval, h]

mutual
theorem sval_eq (R : Reg) (pv : GValue → String) : ∀ (m : Option Meta) (g g' : GValue),
    VRel R m g g' → sval Defects.none R pv m g = sval Defects.none R pv m g'
  | m, .obj fs, g', h => by
    by_cases hs : isSecret m = true
    · rw [sval_secret _ _ _ _ _ hs, sval_secret _ _ _ _ _ hs]
    · simp only [VRel, hs, Bool.false_eq_true, false_or] at h
      cases g' with
      | obj fs' =>
        simp only at h
        simp only [sval, hs, Bool.false_eq_true, if_false]
        cases ht : inputTypeOf R m with
        | some t =>
          rw [ht] at h
          simp only at h
          simp [sfields_eq R pv t true fs fs' h]
        | none =>
          rw [ht] at h
          simp only at h
          subst h; rfl
      | _ => simp at h
  | m, .list xs, g', h => by
    by_cases hs : isSecret m = true
    · rw [sval_secret _ _ _ _ _ hs, sval_secret _ _ _ _ _ hs]
    · simp only [VRel, hs, Bool.false_eq_true, false_or] at h
      cases g' with
      | list xs' =>
        simp only at h
        have hl : Defects.none.listNotRecursed = false := rfl
        simp only [sval, hs, hl, Bool.false_eq_true, if_false]
        rw [sitems_eq R pv m true xs xs' h]
      | _ => simp at h
  | m, .null, g', h => by
    by_cases hs : isSecret m = true
    · rw [sval_secret _ _ _ _ _ hs, sval_secret _ _ _ _ _ hs]
    · simp only [VRel, hs, Bool.false_eq_true, false_or] at h; subst h; rfl
  | m, .int i, g', h => by
    by_cases hs : isSecret m = true
    · rw [sval_secret _ _ _ _ _ hs, sval_secret _ _ _ _ _ hs]
    · simp only [VRel, hs, Bool.false_eq_true, false_or] at h; subst h; rfl
  | m, .float t, g', h => by
    by_cases hs : isSecret m = true
    · rw [sval_secret _ _ _ _ _ hs, sval_secret _ _ _ _ _ hs]
    · simp only [VRel, hs, Bool.false_eq_true, false_or] at h; subst h; rfl
  | m, .str s, g', h => by
    by_cases hs : isSecret m = true
    · rw [sval_secret _ _ _ _ _ hs, sval_secret _ _ _ _ _ hs]
    · simp only [VRel, hs, Bool.false_eq_true, false_or] at h; subst h; rfl
  | m, .bool b, g', h => by
    by_cases hs : isSecret m = true
    · rw [sval_secret _ _ _ _ _ hs, sval_secret _ _ _ _ _ hs]
    · simp only [VRel, hs, Bool.false_eq_true, false_or] at h; subst h; rfl
  | m, .enum n, g', h => by
    by_cases hs : isSecret m = true
    · rw [sval_secret _ _ _ _ _ hs, sval_secret _ _ _ _ _ hs]
    · simp only [VRel, hs, Bool.false_eq_true, false_or] at h; subst h; rfl
theorem sfields_eq (R : Reg) (pv : GValue → String) : ∀ (t : TypeDef) (first : Bool)
    (fs fs' : List (String × GValue)), FRel R t fs fs' →
    sfields Defects.none R pv t first fs = sfields Defects.none R pv t first fs'
  | t, first, [], fs', h => by
    simp only [FRel] at h; subst h; rfl
  | t, first, (k, v) :: rest, fs', h => by
    cases fs' with
    | nil => simp [FRel] at h
    | cons p rest' =>
      obtain ⟨k', v'⟩ := p
      simp only [FRel] at h
      obtain ⟨hk, hv, hr⟩ := h
      subst hk
      simp only [sfields]
      rw [sval_eq R pv _ v v' hv, sfields_eq R pv t false rest rest' hr]
theorem sitems_eq (R : Reg) (pv : GValue → String) : ∀ (m : Option Meta) (first : Bool)
    (xs xs' : List GValue), LRel R m xs xs' →
    sitems Defects.none R pv m first xs = sitems Defects.none R pv m first xs'
  | m, first, [], xs', h => by
    simp only [LRel] at h; subst h; rfl
  | m, first, x :: rest, xs', h => by
    cases xs' with
    | nil => simp [LRel] at h
    | cons x' rest' =>
      simp only [LRel] at h
      obtain ⟨hv, hr⟩ := h
      simp only [sitems]
      rw [sval_eq R pv m x x' hv, sitems_eq R pv m false rest rest' hr]
end

theorem sargs_eq (R : Reg) (pv : GValue → String) (vars vars' : Vars) (parent : Option TypeDef)
    (field : String) : ∀ (first : Bool) (as as' : List (String × DValue)),
    ARel R vars vars' parent field as as' →
    sargs Defects.none R pv vars parent field first as = sargs Defects.none R pv vars' parent field first as'
  | first, [], as', h => by
    simp only [ARel] at h; subst h; rfl
  | first, (k, a) :: rest, as', h => by
    cases as' with
    | nil => simp [ARel] at h
    | cons p rest' =>
      obtain ⟨k', a'⟩ := p
      simp only [ARel] at h
      obtain ⟨hk, hv, hr⟩ := h
      subst hk
      simp only [sargs]
      rw [sval_eq R pv _ _ _ hv, sargs_eq R pv vars vars' parent field false rest rest' hr]

theorem ARel_isEmpty (R : Reg) (vars vars' : Vars) (parent : Option TypeDef) (field : String)
    (as as' : List (String × DValue)) (h : ARel R vars vars' parent field as as') :
    as.isEmpty = as'.isEmpty := by
  cases as with
  | nil => simp only [ARel] at h; subst h; rfl
  | cons p r =>
    obtain ⟨k, a⟩ := p
    cases as' with
    | nil => simp [ARel] at h
    | cons _ _ => rfl

theorem SsRel_isEmpty (R : Reg) (vars vars' : Vars) (parent : Option TypeDef)
    (ss ss' : List Sel) (h : SsRel R vars vars' parent ss ss') : ss.isEmpty = ss'.isEmpty := by
  cases ss with
  | nil => simp only [SsRel] at h; subst h; rfl
  | cons s r =>
    cases ss' with
    | nil => simp [SsRel] at h
    | cons _ _ => rfl

theorem inlineParent_none (R : Reg) (parent : Option TypeDef) (c : Option String) :
    inlineParent Defects.none R parent c = inlineScope R parent c := by
  cases c <;> simp [inlineParent, inlineScope, Defects.none]

mutual
theorem ssel_eq (R : Reg) (pv : GValue → String) (vars vars' : Vars) : ∀ (parent : Option TypeDef)
    (s s' : Sel), SRel R vars vars' parent s s' →
    ssel Defects.none R pv vars parent s = ssel Defects.none R pv vars' parent s'
  | parent, .field al n args ds sels p, s', h => by
    cases s' with
    | field al' n' args' ds' sels' p' =>
      simp only [SRel] at h
      obtain ⟨ha, hn, hargs, hsels⟩ := h
      subst ha; subst hn
      simp only [ssel]
      rw [ARel_isEmpty _ _ _ _ _ _ _ hargs, SsRel_isEmpty _ _ _ _ _ _ hsels,
        sargs_eq R pv vars vars' parent n true args args' hargs,
        ssels_eq R pv vars vars' (childType R parent n) true sels sels' hsels]
    | spread _ _ _ => simp [SRel] at h
    | inline _ _ _ _ => simp [SRel] at h
  | parent, .spread n ds p, s', h => by
    cases s' with
    | spread n' _ _ => simp only [SRel] at h; subst h; simp [ssel]
    | field _ _ _ _ _ _ => simp [SRel] at h
    | inline _ _ _ _ => simp [SRel] at h
  | parent, .inline c ds sels p, s', h => by
    cases s' with
    | inline c' ds' sels' p' =>
      simp only [SRel] at h
      obtain ⟨hc, hsels⟩ := h
      subst hc
      simp only [ssel, inlineParent_none]
      rw [ssels_eq R pv vars vars' (inlineScope R parent c) true sels sels' hsels]
    | field _ _ _ _ _ _ => simp [SRel] at h
    | spread _ _ _ => simp [SRel] at h
theorem ssels_eq (R : Reg) (pv : GValue → String) (vars vars' : Vars) : ∀ (parent : Option TypeDef)
    (first : Bool) (ss ss' : List Sel), SsRel R vars vars' parent ss ss' →
    ssels Defects.none R pv vars parent first ss = ssels Defects.none R pv vars' parent first ss'
  | parent, first, [], ss', h => by
    simp only [SsRel] at h; subst h; rfl
  | parent, first, s :: rest, ss', h => by
    cases ss' with
    | nil => simp [SsRel] at h
    | cons s' rest' =>
      simp only [SsRel] at h
      obtain ⟨hs, hr⟩ := h
      simp only [ssels]
      rw [ssel_eq R pv vars vars' parent s s' hs, ssels_eq R pv vars vars' parent false rest rest' hr]
end

theorem svardefs_eq (pv : GValue → String) : ∀ (first : Bool) (vs vs' : List VarDef), VdRel vs vs' →
    svardefs Defects.none pv first vs = svardefs Defects.none pv first vs'
  | first, [], vs', h => by
    simp only [VdRel] at h; subst h; rfl
  | first, v :: rest, vs', h => by
    cases vs' with
    | nil => simp [VdRel] at h
    | cons v' rest' =>
      simp only [VdRel] at h
      obtain ⟨hn, ht, hr⟩ := h
      have hd : Defects.none.varDefaultPrinted = false := rfl
      simp only [svardefs, hd, hn, ht, Bool.false_eq_true, if_false]
      rw [svardefs_eq pv false rest rest' hr]
      cases v.default <;> cases v'.default <;> rfl

theorem VdRel_isEmpty (vs vs' : List VarDef) (h : VdRel vs vs') : vs.isEmpty = vs'.isEmpty := by
  cases vs with
  | nil => simp only [VdRel] at h; subst h; rfl
  | cons _ _ =>
    cases vs' with
    | nil => simp [VdRel] at h
    | cons _ _ => rfl

theorem sop_eq (R : Reg) (pv : GValue → String) (vars vars' : Vars) (o o' : OpDef)
    (h : OpRel R vars vars' o o') :
    sop Defects.none R pv vars o = sop Defects.none R pv vars' o' := by
  obtain ⟨ht, hn, hv, hs⟩ := h
  simp only [sop, selSet]
  rw [← ht, ← hn, VdRel_isEmpty _ _ hv, svardefs_eq pv true _ _ hv, ssels_eq R pv vars vars' _ true _ _ hs]

theorem sfrag_eq (R : Reg) (pv : GValue → String) (vars vars' : Vars) (f f' : FragDef)
    (h : FragRel R vars vars' f f') :
    sfrag Defects.none R pv vars f = sfrag Defects.none R pv vars' f' := by
  obtain ⟨hn, hc, hs⟩ := h
  simp only [sfrag, selSet]
  rw [← hn, ← hc, ssels_eq R pv vars vars' _ true _ _ hs]

theorem sops_eq (R : Reg) (pv : GValue → String) (vars vars' : Vars) : ∀ (os os' : List OpDef),
    OpsRel R vars vars' os os' → sops Defects.none R pv vars os = sops Defects.none R pv vars' os'
  | [], os', h => by simp only [OpsRel] at h; subst h; rfl
  | o :: rest, os', h => by
    cases os' with
    | nil => simp [OpsRel] at h
    | cons o' rest' =>
      simp only [OpsRel] at h
      simp only [sops]
      rw [sop_eq R pv vars vars' o o' h.1, sops_eq R pv vars vars' rest rest' h.2]

theorem sfrags_eq (R : Reg) (pv : GValue → String) (vars vars' : Vars) : ∀ (fs fs' : List FragDef),
    FragsRel R vars vars' fs fs' → sfrags Defects.none R pv vars fs = sfrags Defects.none R pv vars' fs'
  | [], fs', h => by simp only [FragsRel] at h; subst h; rfl
  | f :: rest, fs', h => by
    cases fs' with
    | nil => simp [FragsRel] at h
    | cons f' rest' =>
      simp only [FragsRel] at h
      simp only [sfrags]
      rw [sfrag_eq R pv vars vars' f f' h.1, sfrags_eq R pv vars vars' rest rest' h.2]

-- ================================================================== secrets at any depth

-- ------------------------------------------------------------------ reflexivity of the relation

mutual
theorem VRel_refl (R : Reg) : ∀ (m : Option Meta) (g : GValue), VRel R m g g
  | m, .obj fs => by
    simp only [VRel]
    right
    cases ht : inputTypeOf R m with
    | some t => exact FRel_refl R t fs
    | none => trivial
  | m, .list xs => by
    simp only [VRel]
    right
    exact LRel_refl R m xs
  | m, .null => by simp [VRel]
  | m, .int i => by simp [VRel]
  | m, .float t => by simp [VRel]
  | m, .str s => by simp [VRel]
  | m, .bool b => by simp [VRel]
  | m, .enum n => by simp [VRel]
theorem FRel_refl (R : Reg) : ∀ (t : TypeDef) (fs : List (String × GValue)), FRel R t fs fs
  | t, [] => by simp [FRel]
  | t, (k, v) :: rest => by
    simp only [FRel]
    exact ⟨trivial, VRel_refl R _ v, FRel_refl R t rest⟩
theorem LRel_refl (R : Reg) : ∀ (m : Option Meta) (xs : List GValue), LRel R m xs xs
  | m, [] => by simp [LRel]
  | m, x :: rest => by
    simp only [LRel]
    exact ⟨VRel_refl R m x, LRel_refl R m rest⟩
end

-- ------------------------------------------------------------------ replacing a subvalue

/-- apply `f` to the value of the `i`-th entry of an object -/
def modF (f : GValue → GValue) : List (String × GValue) → Nat → List (String × GValue)
  | [], _ => []
  | (k, v) :: r, 0 => (k, f v) :: r
  | p :: r, i + 1 => p :: modF f r i

/-- apply `f` to the `i`-th item of a list -/
def modL (f : GValue → GValue) : List GValue → Nat → List GValue
  | [], _ => []
  | x :: r, 0 => f x :: r
  | x :: r, i + 1 => x :: modL f r i

/-- the value `g` with the subvalue at `path` (entry / item indices, outermost first) replaced by
    `new`; a path that leaves the value changes nothing -/
def replaceAt (new : GValue) : List Nat → GValue → GValue
  | [], _ => new
  | i :: rest, .obj fs => .obj (modF (replaceAt new rest) fs i)
  | i :: rest, .list xs => .list (modL (replaceAt new rest) xs i)
  | _ :: _, g => g

/-- the subvalue of `g` at `path` -/
def subAt : List Nat → GValue → Option GValue
  | [], g => some g
  | i :: rest, .obj fs => match fs[i]? with
    | some (_, v) => subAt rest v
    | none => none
  | i :: rest, .list xs => match xs[i]? with
    | some x => subAt rest x
    | none => none
  | _ :: _, _ => none

/-- walking `path` into the value `g` that sits at a position described by `m`: is a position
    marked secret met on the way (the start, an input-object field at any depth, the items of a
    list standing at such a field)?  Input-object fields are looked up in the registry exactly as
    the printer does; below a value the registry knows nothing about, nothing is secret. -/
def secretAlong (R : Reg) : Option Meta → GValue → List Nat → Bool
  | m, _, [] => isSecret m
  | m, .obj fs, i :: rest =>
    isSecret m ||
      match inputTypeOf R m, fs[i]? with
      | some t, some (k, v) => secretAlong R (inputFieldMeta R t k) v rest
      | _, _ => false
  | m, .list xs, i :: rest =>
    isSecret m ||
      match xs[i]? with
      | some x => secretAlong R m x rest
      | none => false
  | m, _, _ :: _ => isSecret m

theorem FRel_modF (R : Reg) (t : TypeDef) (f : GValue → GValue) :
    ∀ (fs : List (String × GValue)) (i : Nat),
    (∀ k v, fs[i]? = some (k, v) → VRel R (inputFieldMeta R t k) v (f v)) →
    FRel R t fs (modF f fs i)
  | [], _, _ => by simp [modF, FRel]
  | (k, v) :: r, 0, h => by
    simp only [modF, FRel]
    exact ⟨trivial, h k v (by simp), FRel_refl R t r⟩
  | (k, v) :: r, i + 1, h => by
    simp only [modF, FRel]
    refine ⟨trivial, VRel_refl R _ v, FRel_modF R t f r i ?_⟩
    intro k' v' hi
    exact h k' v' (by simpa using hi)

theorem LRel_modL (R : Reg) (m : Option Meta) (f : GValue → GValue) :
    ∀ (xs : List GValue) (i : Nat),
    (∀ x, xs[i]? = some x → VRel R m x (f x)) → LRel R m xs (modL f xs i)
  | [], _, _ => by simp [modL, LRel]
  | x :: r, 0, h => by
    simp only [modL, LRel]
    exact ⟨h x (by simp), LRel_refl R m r⟩
  | x :: r, i + 1, h => by
    simp only [modL, LRel]
    refine ⟨VRel_refl R m x, LRel_modL R m f r i ?_⟩
    intro x' hi
    exact h x' (by simpa using hi)

theorem VRel_of_secret (R : Reg) (m : Option Meta) (g g' : GValue) (h : isSecret m = true) :
    VRel R m g g' := by
  cases g <;> simp [VRel, h]

/-- replacing anything below a secret position gives a value equal outside secrets -/
theorem VRel_replaceAt (R : Reg) (new : GValue) : ∀ (path : List Nat) (m : Option Meta) (g : GValue),
    secretAlong R m g path = true → VRel R m g (replaceAt new path g)
  | [], m, g, h => by
    have hs : isSecret m = true := by cases g <;> simpa [secretAlong] using h
    exact VRel_of_secret R m g _ hs
  | i :: rest, m, .obj fs, h => by
    by_cases hs : isSecret m = true
    · exact VRel_of_secret R m _ _ hs
    · simp only [secretAlong, hs, Bool.false_or] at h
      simp only [replaceAt, VRel]
      right
      cases ht : inputTypeOf R m with
      | none => simp [ht] at h
      | some t =>
        simp only
        apply FRel_modF
        intro k v hi
        rw [ht, hi] at h
        exact VRel_replaceAt R new rest _ v h
  | i :: rest, m, .list xs, h => by
    by_cases hs : isSecret m = true
    · exact VRel_of_secret R m _ _ hs
    · simp only [secretAlong, hs, Bool.false_or] at h
      simp only [replaceAt, VRel]
      right
      apply LRel_modL
      intro x hi
      rw [hi] at h
      exact VRel_replaceAt R new rest m x h
  | i :: rest, m, .null, h => by simp only [replaceAt]; exact VRel_refl R m _
  | i :: rest, m, .int _, h => by simp only [replaceAt]; exact VRel_refl R m _
  | i :: rest, m, .float _, h => by simp only [replaceAt]; exact VRel_refl R m _
  | i :: rest, m, .str _, h => by simp only [replaceAt]; exact VRel_refl R m _
  | i :: rest, m, .bool _, h => by simp only [replaceAt]; exact VRel_refl R m _
  | i :: rest, m, .enum _, h => by simp only [replaceAt]; exact VRel_refl R m _

end AGV.Lemmas.Stringify
