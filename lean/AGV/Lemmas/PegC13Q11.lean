/-
  Property C13, token level: `qDefinition` is `pDefinition`, `qDocument` is `pDefinitions`.
-/
import AGV.Lemmas.PegC13Q10
namespace AGV.Lemmas.PegX
open AGV.Model.Peg AGV.Model.BuildAst AGV.Spec.Lex AGV.Spec.Parse AGV.Core.PAst AGV.Lemmas.PegC13 AGV.Lemmas.SpecVal

theorem qTypeCond_inv {r1 r2 : List Tok} {t : Name} (h : qTypeCond r1 = some (t, r2)) :
    r1 = .name onKw :: .name t :: r2 := by
  obtain ⟨y, hy, rfl⟩ := tMap_some h
  obtain ⟨r0, g1, g2⟩ := tSeq_some hy
  have e1 := tKw_inv g1
  subst e1
  unfold pName at g2
  split at g2
  · cases g2; rfl
  · cases g2

theorem tOr3_of {α : Type} {a b c : Sim α} {ts : List Tok} {x : Outc α}
    (h : (a ts = x ∧ (x = none → b ts = none ∧ c ts = none)) ∨ (a ts = none ∧ b ts = x ∧ (x = none → c ts = none)) ∨
      (a ts = none ∧ b ts = none ∧ c ts = x)) : tOr (tOr a b) c ts = x := by
  unfold tOr
  rcases h with ⟨h1, h2⟩ | ⟨h1, h2, h3⟩ | ⟨h1, h2, h3⟩
  · cases x with
    | none =>
      obtain ⟨hb, hc⟩ := h2 rfl
      simp only [h1, hb, hc]
    | some v => simp only [h1]
  · cases x with
    | none => simp only [h1, h2, h3 rfl]
    | some v => simp only [h1, h2]
  · simp only [h1, h2, h3]

theorem opTypeOf_fragment : AGV.Spec.Parse.opTypeOf (kw "fragment") = none := by decide

theorem opTypeOf_ne_fragment {k : Name} {ty : OpType} (h : AGV.Spec.Parse.opTypeOf k = some ty) : k ≠ kw "fragment" := by
  intro e; subst e; rw [opTypeOf_fragment] at h; cases h

/-- the definition reader is the specification's `pDefinition` -/
theorem def_agree (L : Nat) (ts : List Tok) (hL : ts.length < L) : qDefinition L ts = pDefinition P' ts := by
  unfold qDefinition
  by_cases hbr : ∃ r, ts = .punct '{' :: r
  · obtain ⟨r, rfl⟩ := hbr
    rw [pDef_brace, ← selSet_agree L _ hL]
    refine tOr3_of (Or.inr (Or.inl ⟨?_, qAnonOp_eq L _, fun _ => ?_⟩))
    · exact qNamedOp_none L _ (qOpType_none _ (fun k r e => by cases e))
    · exact qFragDef_none L _ (fun r e => by cases e)
  by_cases hnm : ∃ k r, ts = .name k :: r
  · obtain ⟨k, r, rfl⟩ := hnm
    simp only [List.length_cons] at hL
    have hanon : qAnonOp L (.name k :: r) = none := by
      rw [qAnonOp_eq, qSelSet_needs L _ (fun r' e => by cases e)]; rfl
    by_cases hk : k = kw "fragment"
    · subst hk
      have hnamed : qNamedOp L (.name (kw "fragment") :: r) = none :=
        qNamedOp_none L _ (by rw [qOpType_at, opTypeOf_fragment]; rfl)
      refine tOr3_of (Or.inr (Or.inr ⟨hnamed, hanon, ?_⟩))
      have hq := qFragDef_at L r
      rw [kwFragment_eq] at hq
      rw [hq]
      by_cases hshape : ∃ n o t r1, r = .name n :: .name o :: .name t :: r1
      · obtain ⟨n, o, t, r1, rfl⟩ := hshape
        simp only [List.length_cons] at hL
        by_cases hn : n = onKw
        · subst hn
          rw [tKw_cons]
          exact (pDef_frag_on o t r1).symm
        · rw [tKw_none onKw _ (fun r' e => by cases e; exact hn rfl)]
          simp only [pName]
          by_cases ho : o = onKw
          · subst ho
            rw [qTypeCond_at]
            simp only []
            rw [fragTail_agree L n t r1 (by omega)]
            exact (pDef_frag n t r1 hn).symm
          · rw [qTypeCond_none1 _ (fun r' e => by cases e; exact ho rfl)]
            exact (pDef_frag_noon n o t r1 ho).symm
      · have hne : ∀ n o t r1, r ≠ .name n :: .name o :: .name t :: r1 := fun n o t r1 e => hshape ⟨n, o, t, r1, e⟩
        rw [pDef_frag_short r hne]
        cases h1 : tKw onKw r with
        | some y => rfl
        | none =>
          simp only []
          cases h2 : pName r with
          | none => rfl
          | some z =>
            obtain ⟨n, r1⟩ := z
            simp only []
            cases h3 : qTypeCond r1 with
            | none => rfl
            | some w =>
              obtain ⟨t, r2⟩ := w
              have e3 := qTypeCond_inv h3
              subst e3
              unfold pName at h2
              split at h2
              · rename_i n' r'
                cases h2
                exact absurd rfl (hne _ _ _ _)
              · cases h2
    · have hfrag : qFragDef L (.name k :: r) = none :=
        qFragDef_none L _ (fun r' e => by cases e; exact hk rfl)
      cases hop : AGV.Spec.Parse.opTypeOf k with
      | none =>
        rw [pDef_notop k r hk hop]
        exact tOr3_of (Or.inr (Or.inr ⟨qNamedOp_none L _ (by rw [qOpType_at, hop]; rfl), hanon, hfrag⟩))
      | some ty =>
        by_cases hr : ∃ n r', r = .name n :: r'
        · obtain ⟨n, r', rfl⟩ := hr
          simp only [List.length_cons] at hL
          rw [pDef_op_named k n ty r' hk hop, ← opTail_agree L ty (some n) r' (by omega)]
          exact tOr3_of (Or.inl ⟨qNamedOp_named L k n ty r' hop, fun _ => ⟨hanon, hfrag⟩⟩)
        · have hne : ∀ n r', r ≠ .name n :: r' := fun n r' e => hr ⟨n, r', e⟩
          rw [pDef_op_anon k ty r hk hop hne, ← opTail_agree L ty none r (by omega)]
          exact tOr3_of (Or.inl ⟨qNamedOp_anon L k ty r hop hne, fun _ => ⟨hanon, hfrag⟩⟩)
  · have h1 : ∀ r, ts ≠ .punct '{' :: r := fun r e => hbr ⟨r, e⟩
    have h2 : ∀ k r, ts ≠ .name k :: r := fun k r e => hnm ⟨k, r, e⟩
    rw [pDef_other ts h1 h2]
    refine tOr3_of (Or.inr (Or.inr ⟨qNamedOp_none L _ (qOpType_none _ h2), ?_, qFragDef_none L _ (fun r e => h2 _ _ e)⟩))
    rw [qAnonOp_eq, qSelSet_needs L _ h1]; rfl

-- ------------------------------------------------------------------ the document

/-- `e+` up to the end of the token stream -/
def tRepEnd {α : Type} (q : Sim α) : Sim (List α) := tMap (fun x => x.1) (tSeq (tRep1 q) tEOI)

theorem tRepEnd_unfold {α : Type} {q : Sim α} (hS : Strict q) (ts : List Tok) :
    tRepEnd q ts = obind (q ts) (fun a r =>
      match r with
      | [] => some ([a], [])
      | _ :: _ => omap (fun xs => a :: xs) (tRepEnd q r)) := by
  unfold tRepEnd tMap tSeq tRep1
  cases hq : q ts with
  | none => rfl
  | some x =>
    obtain ⟨a, r⟩ := x
    simp only [obind]
    cases r with
    | nil => rfl
    | cons t r' =>
      simp only []
      cases hq2 : q (t :: r') with
      | none =>
        have hm : manyF q (t :: r').length (t :: r') = ([], t :: r') := by
          simp only [List.length_cons, manyF, hq2]
        simp only [hm, tEOI, Option.map_none, omap]
      | some x2 =>
        obtain ⟨b, r2⟩ := x2
        have hl := hS _ _ _ hq2
        simp only [List.length_cons] at hl
        have hm : manyF q (t :: r').length (t :: r') = (b :: (manyF q r2.length r2).1, (manyF q r2.length r2).2) := by
          simp only [List.length_cons, manyF, hq2]
          rw [manyF_fuel hS r'.length r2.length r2 (by omega) (Nat.le_refl _)]
        simp only [hm, omap]
        cases tEOI (manyF q r2.length r2).2 <;> rfl

theorem pDefinitions_unfold (g : Nat) (ts : List Tok) :
    (pDefinitions P' (g + 1) ts).map (fun defs => (defs, ([] : List Tok))) =
      obind (pDefinition P' ts) (fun d r =>
        match r with
        | [] => some ([d], [])
        | _ :: _ => omap (fun xs => d :: xs) ((pDefinitions P' g r).map (fun defs => (defs, ([] : List Tok))))) := by
  rw [pDefinitions]
  cases pDefinition P' ts with
  | none => rfl
  | some x =>
    obtain ⟨d, r⟩ := x
    cases r with
    | nil => rfl
    | cons t r' =>
      simp only [obind]
      cases pDefinitions P' g (t :: r') <;> rfl

theorem pDefinitions_zero (ts : List Tok) : pDefinitions P' 0 ts = none := by rw [pDefinitions]

/-- the document reader is the specification's `pDefinitions` -/
theorem doc_agree : ∀ (n : Nat) (ts : List Tok), ts.length ≤ n → ∀ L g, ts.length < L → ts.length < g →
    tRepEnd (qDefinition L) ts = (pDefinitions P' g ts).map (fun defs => (defs, ([] : List Tok))) := by
  intro n
  induction n using Nat.strongRecOn with
  | _ n ih =>
    intro ts hn L g hL hg
    obtain ⟨g, rfl⟩ : ∃ k, g = k + 1 := ⟨g - 1, by omega⟩
    rw [tRepEnd_unfold (strict_qDefinition L), pDefinitions_unfold, def_agree L ts hL]
    cases hd : pDefinition P' ts with
    | none => rfl
    | some x =>
      obtain ⟨d, r⟩ := x
      have hl : r.length < ts.length := by
        rw [← def_agree L ts hL] at hd
        exact strict_qDefinition L _ _ _ hd
      simp only [obind]
      cases r with
      | nil => rfl
      | cons t r' =>
        simp only []
        rw [ih (t :: r').length (by omega) (t :: r') (Nat.le_refl _) L g (by omega) (by omega)]

theorem qDocument_agree (ts : List Tok) (L : Nat) (hL : ts.length < L) :
    qDocument L ts = (pDefinitions P' (ts.length + 1) ts).map (fun defs => (defs, ([] : List Tok))) :=
  doc_agree ts.length ts (Nat.le_refl _) L _ hL (Nat.lt_succ_self _)
end AGV.Lemmas.PegX
