/-
  Lemmas about the subscription stream model (C27): shape and bookkeeping of a root field's
  transitions, the per-field invariant (answered ++ pending = the field's events), the error-list
  invariants (per-event list; request-wide list with a single root field).  Core tactics only.
-/
import AGV.Model.Subscr

namespace AGV.Lemmas.Subscr
open AGV.Core AGV.Spec.Subscr AGV.Model.Subscr

def restCaps (ps : List Poll) : List GErr := (ps.map (·.caps)).flatten

theorem caps_eq (e : EventRun) : e.caps = e.first.caps ++ restCaps e.rest := by
  simp [EventRun.caps, EventRun.polls, restCaps]

def curEvs (c : Option Cur) : List EventRun := (c.map (·.ev)).toList

def pending (g : FSt) : List EventRun := curEvs g.cur ++ g.queue ++ g.script

-- ------------------------------------------------------------------ shape: every emitted response is a `finish`

theorem takeLoop_shape (D : Defects) (i : Nat) (key : String) :
    ∀ (q : List EventRun) (sh : List GErr), ∀ r ∈ (takeLoop D i key sh q).out, ∃ e sh', r = finish D i key e sh' := by
  intro q
  induction q with
  | nil => intro sh r hr; simp [takeLoop] at hr
  | cons e q ih =>
    intro sh r hr
    unfold takeLoop at hr
    split at hr
    · simp only [List.mem_cons] at hr
      rcases hr with rfl | h
      · exact ⟨_, _, rfl⟩
      · exact ih [] r h
    · simp at hr

theorem pollCur_shape (D : Defects) (i : Nat) (key : String) (sh : List GErr) (c : Cur) (q : List EventRun) :
    ∀ r ∈ (pollCur D i key sh c q).out, ∃ e sh', r = finish D i key e sh' := by
  intro r hr
  unfold pollCur at hr
  split at hr
  · simp only [List.mem_cons] at hr
    rcases hr with rfl | h
    · exact ⟨_, _, rfl⟩
    · exact takeLoop_shape D i key q [] r h
  · simp only [List.mem_cons] at hr
    rcases hr with rfl | h
    · exact ⟨_, _, rfl⟩
    · exact takeLoop_shape D i key q [] r h
  · simp at hr

-- ------------------------------------------------------------------ bookkeeping: no event is lost, duplicated or reordered

theorem takeLoop_book (D : Defects) (i : Nat) (key : String) :
    ∀ (q : List EventRun) (sh : List GErr),
      (takeLoop D i key sh q).out.filterMap (·.ev) ++ curEvs (takeLoop D i key sh q).cur ++ (takeLoop D i key sh q).queue = q := by
  intro q
  induction q with
  | nil => intro sh; simp [takeLoop, curEvs]
  | cons e q ih =>
    intro sh
    unfold takeLoop
    split
    · have := ih []
      simp only [List.filterMap_cons, finish] 
      simpa using this
    · simp [curEvs]

theorem pollCur_book (D : Defects) (i : Nat) (key : String) (sh : List GErr) (c : Cur) (q : List EventRun) :
    (pollCur D i key sh c q).out.filterMap (·.ev) ++ curEvs (pollCur D i key sh c q).cur ++ (pollCur D i key sh c q).queue
      = c.ev :: q := by
  unfold pollCur
  split
  · have := takeLoop_book D i key q []
    simp only [List.filterMap_cons, finish]
    simpa using this
  · have := takeLoop_book D i key q []
    simp only [List.filterMap_cons, finish]
    simpa using this
  · simp [curEvs]

-- ------------------------------------------------------------------ the per-field invariant

structure FieldInv (fields : List Field) (s : St) : Prop where
  len : s.fields.length = fields.length
  key : ∀ (i : Nat) (f : Field) (g : FSt), fields[i]? = some f → s.fields[i]? = some g → g.key = f.key
  order : ∀ (i : Nat) (f : Field) (g : FSt), fields[i]? = some f → s.fields[i]? = some g → answered i s.out ++ pending g = f.events
  data : OwnData fields s.out

theorem answered_append (i : Nat) (a b : List Resp) : answered i (a ++ b) = answered i a ++ answered i b := by
  simp [answered]

theorem answered_of_field {i j : Nat} {l : List Resp} (h : ∀ r ∈ l, r.field = i) :
    answered j l = if j = i then l.filterMap (·.ev) else [] := by
  induction l with
  | nil => simp [answered]
  | cons r l ih =>
    have hr : r.field = i := h r (by simp)
    have ih' := ih (fun r hr => h r (by simp [hr]))
    by_cases hji : j = i
    · subst hji
      simp only [if_true] at ih' ⊢
      simp only [answered, List.filter_cons, hr, beq_self_eq_true, if_true, List.filterMap_cons] at ih' ⊢
      rw [ih']
    · simp only [if_neg hji] at ih' ⊢
      have : (r.field == j) = false := by simp [hr]; exact fun h => hji h.symm
      simp only [answered, List.filter_cons, this] at ih' ⊢
      simpa using ih'

theorem inv_update {D : Defects} {fields : List Field} {s s' : St} {i : Nat} {g g' : FSt} {o : List Resp}
    (h : FieldInv fields s) (hg : s.fields[i]? = some g)
    (hf : s'.fields = s.fields.set i g') (ho : s'.out = s.out ++ o)
    (hk : g'.key = g.key)
    (hshape : ∀ r ∈ o, ∃ e sh', r = finish D i g.key e sh')
    (hbook : o.filterMap (·.ev) ++ pending g' = pending g) : FieldInv fields s' := by
  have hi : i < s.fields.length := by
    rcases List.getElem?_eq_some_iff.mp hg with ⟨hlt, _⟩; exact hlt
  have hfld : ∀ r ∈ o, r.field = i := by
    intro r hr; rcases hshape r hr with ⟨e, sh', rfl⟩; rfl
  refine ⟨?_, ?_, ?_, ?_⟩
  · simp [hf, h.len]
  · intro j f g2 hfj hg2
    rw [hf, List.getElem?_set] at hg2
    by_cases hij : i = j
    · subst hij
      simp only [if_true, hi] at hg2
      cases hg2
      rw [hk]; exact h.key i f g hfj hg
    · simp only [if_neg hij] at hg2
      exact h.key j f g2 hfj hg2
  · intro j f g2 hfj hg2
    rw [hf, List.getElem?_set] at hg2
    rw [ho, answered_append, answered_of_field hfld]
    by_cases hij : i = j
    · subst hij
      simp only [if_true, hi] at hg2
      cases hg2
      simp only [if_true]
      rw [List.append_assoc, hbook]
      exact h.order i f g hfj hg
    · simp only [if_neg hij] at hg2
      have : ¬ j = i := fun h => hij h.symm
      simp only [if_neg this, List.append_nil]
      exact h.order j f g2 hfj hg2
  · intro r hr e he
    rw [ho] at hr
    rcases List.mem_append.mp hr with hr | hr
    · exact h.data r hr e he
    · rcases hshape r hr with ⟨e', sh', rfl⟩
      have hlt : i < fields.length := h.len ▸ hi
      refine ⟨fields[i], by simp [finish, hlt], ?_⟩
      have hkey := h.key i fields[i] g (by simp [hlt]) hg
      simp only [finish] at he ⊢
      cases he
      rw [hkey]

theorem step_inv (D : Defects) (fields : List Field) (s : St) (a : Act) (h : FieldInv fields s) :
    FieldInv fields (step D s a) := by
  cases a with
  | arr i =>
    simp only [step]
    split
    · exact h
    · rename_i g hg
      split
      · exact h
      · rename_i e script' hsc
        split
        · rename_i c hc
          refine inv_update (D := D) (o := []) h hg rfl (by simp) rfl (by simp) ?_
          simp [pending, hsc, hc]
        · rename_i hc
          refine inv_update (D := D) h hg rfl rfl rfl (takeLoop_shape D i g.key _ _) ?_
          have := takeLoop_book D i g.key (g.queue ++ [e]) s.shared
          simp only [pending, hsc, hc, curEvs, Option.map_none, Option.toList_none, List.nil_append]
          simp only [curEvs] at this
          rw [← List.append_assoc, ← List.append_assoc, this]
          simp
  | step i =>
    simp only [step]
    split
    · exact h
    · rename_i g hg
      split
      · exact h
      · rename_i c hc
        refine inv_update (D := D) h hg rfl rfl rfl (pollCur_shape D i g.key _ _ _) ?_
        have := pollCur_book D i g.key s.shared c g.queue
        simp only [pending, hc, curEvs, Option.map_some, Option.toList_some]
        simp only [curEvs] at this
        rw [← List.append_assoc, ← List.append_assoc, this]
        simp

theorem mapIdx_setup_ev (fields : List Field) (k : Nat) :
    ∀ r ∈ (mapIdx (fun i (f : Field) =>
      match f.src with
      | .fail e => [({ field := i, ev := none, data := none, errs := [e] } : Resp)]
      | .events _ => []) fields k).flatten, r.ev = none := by
  induction fields generalizing k with
  | nil => simp [mapIdx]
  | cons f fs ih =>
    intro r hr
    simp only [mapIdx, List.flatten_cons, List.mem_append] at hr
    rcases hr with hr | hr
    · split at hr
      · simp at hr; subst hr; rfl
      · simp at hr
    · exact ih (k + 1) r hr

theorem setup_ev (fields : List Field) : ∀ r ∈ setupOut fields, r.ev = none :=
  mapIdx_setup_ev fields 0

theorem answered_setup (fields : List Field) (i : Nat) : answered i (setupOut fields) = [] := by
  unfold answered
  apply List.filterMap_eq_nil_iff.mpr
  intro r hr
  exact setup_ev fields r (List.mem_filter.mp hr).1

theorem init_inv (fields : List Field) : FieldInv fields (init fields) := by
  refine ⟨by simp [init], ?_, ?_, ?_⟩
  · intro i f g hf hg
    simp only [init, List.getElem?_map, hf, Option.map_some] at hg
    cases hg; rfl
  · intro i f g hf hg
    simp only [init, List.getElem?_map, hf, Option.map_some] at hg
    cases hg
    simp [init, answered_setup, pending, curEvs]
  · intro r hr e he
    have := setup_ev fields r (by simpa [init] using hr)
    rw [this] at he; cases he

theorem run_inv (D : Defects) (fields : List Field) (acts : List Act) : FieldInv fields (run D fields acts) := by
  unfold run
  generalize hs : init fields = s0
  have h0 : FieldInv fields s0 := hs ▸ init_inv fields
  clear hs
  induction acts generalizing s0 with
  | nil => exact h0
  | cons a as ih => exact ih (step D s0 a) (step_inv D fields s0 a h0)

-- ------------------------------------------------------------------ errors: per-event list

theorem step_out (D : Defects) (s : St) (a : Act) :
    ∃ o, (step D s a).out = s.out ++ o ∧ ∀ r ∈ o, ∃ i key e sh', r = finish D i key e sh' := by
  cases a with
  | arr i =>
    simp only [step]
    split
    · exact ⟨[], by simp, by simp⟩
    · rename_i g hg
      split
      · exact ⟨[], by simp, by simp⟩
      · split
        · exact ⟨[], by simp, by simp⟩
        · refine ⟨_, rfl, ?_⟩
          intro r hr
          rcases takeLoop_shape D i g.key _ _ r hr with ⟨e, sh', h⟩
          exact ⟨i, g.key, e, sh', h⟩
  | step i =>
    simp only [step]
    split
    · exact ⟨[], by simp, by simp⟩
    · rename_i g hg
      split
      · exact ⟨[], by simp, by simp⟩
      · refine ⟨_, rfl, ?_⟩
        intro r hr
        rcases pollCur_shape D i g.key _ _ _ r hr with ⟨e, sh', h⟩
        exact ⟨i, g.key, e, sh', h⟩

theorem step_errs_repaired (s : St) (a : Act) (h : OwnErrors s.out) : OwnErrors (step Defects.none s a).out := by
  rcases step_out Defects.none s a with ⟨o, ho, hsh⟩
  intro r hr e he
  rw [ho] at hr
  rcases List.mem_append.mp hr with hr | hr
  · exact h r hr e he
  · rcases hsh r hr with ⟨i, key, e', sh', rfl⟩
    simp only [finish] at he
    cases he
    simp [finish, Defects.none, ownErrs]

theorem init_errs (fields : List Field) : OwnErrors (init fields).out := by
  intro r hr e he
  have := setup_ev fields r (by simpa [init] using hr)
  rw [this] at he; cases he

theorem run_errs_repaired (fields : List Field) (acts : List Act) : OwnErrors (run Defects.none fields acts).out := by
  unfold run
  generalize hs : init fields = s0
  have h0 : OwnErrors s0.out := hs ▸ init_errs fields
  clear hs
  induction acts generalizing s0 with
  | nil => exact h0
  | cons a as ih => exact ih (step Defects.none s0 a) (step_errs_repaired s0 a h0)

-- ------------------------------------------------------------------ errors: request-wide list, a single root field

/-- with one root field the request-wide list holds exactly what the current event captured so far -/
def shInv (sh : List GErr) (cur : Option Cur) : Prop :=
  match cur with
  | none => sh = []
  | some c => sh ++ restCaps c.rest = c.ev.caps

theorem takeLoop_shared (i : Nat) (key : String) : ∀ (q : List EventRun),
    (∀ r ∈ (takeLoop Defects.pinned i key [] q).out, ∀ e, r.ev = some e → r.errs = ownErrs e) ∧
    shInv (takeLoop Defects.pinned i key [] q).shared (takeLoop Defects.pinned i key [] q).cur := by
  intro q
  induction q with
  | nil => simp [takeLoop, shInv]
  | cons e q ih =>
    unfold takeLoop
    split
    · rename_i hrest
      refine ⟨?_, ih.2⟩
      intro r hr e' he'
      simp only [List.mem_cons] at hr
      rcases hr with rfl | hr
      · simp only [finish] at he'
        cases he'
        simp [finish, Defects.pinned, ownErrs, caps_eq, hrest, restCaps]
      · exact ih.1 r hr e' he'
    · rename_i p ps hrest
      refine ⟨by simp, ?_⟩
      simp [shInv, caps_eq, hrest]

theorem pollCur_shared (i : Nat) (key : String) (sh : List GErr) (c : Cur) (q : List EventRun)
    (h : sh ++ restCaps c.rest = c.ev.caps) :
    (∀ r ∈ (pollCur Defects.pinned i key sh c q).out, ∀ e, r.ev = some e → r.errs = ownErrs e) ∧
    shInv (pollCur Defects.pinned i key sh c q).shared (pollCur Defects.pinned i key sh c q).cur := by
  have hq := takeLoop_shared i key q
  unfold pollCur
  split
  · rename_i hrest
    refine ⟨?_, hq.2⟩
    intro r hr e' he'
    simp only [List.mem_cons] at hr
    rcases hr with rfl | hr
    · simp only [finish] at he'
      cases he'
      rw [hrest] at h
      simp only [restCaps, List.map_nil, List.flatten_nil, List.append_nil] at h
      simp [finish, Defects.pinned, ownErrs, h]
    · exact hq.1 r hr e' he'
  · rename_i p hrest
    refine ⟨?_, hq.2⟩
    intro r hr e' he'
    simp only [List.mem_cons] at hr
    rcases hr with rfl | hr
    · simp only [finish] at he'
      cases he'
      rw [hrest] at h
      simp only [restCaps, List.map_cons, List.map_nil, List.flatten_cons, List.flatten_nil, List.append_nil] at h
      simp [finish, Defects.pinned, ownErrs, h]
    · exact hq.1 r hr e' he'
  · rename_i p p' ps hrest
    refine ⟨by simp, ?_⟩
    rw [hrest] at h
    simp only [shInv]
    rw [← h]
    simp [restCaps]

def ShOK (s : St) : Prop := ∀ g, s.fields[0]? = some g → shInv s.shared g.cur

theorem step_single (s : St) (a : Act) (h1 : s.fields.length ≤ 1) (hs : ShOK s) (he : OwnErrors s.out) :
    (step Defects.pinned s a).fields.length ≤ 1 ∧ ShOK (step Defects.pinned s a) ∧
      OwnErrors (step Defects.pinned s a).out := by
  have idx0 : ∀ (i : Nat) (g : FSt), s.fields[i]? = some g → i = 0 := by
    intro i g hg
    rcases List.getElem?_eq_some_iff.mp hg with ⟨hlt, _⟩
    omega
  have app : ∀ (o : List Resp), (∀ r ∈ o, ∀ e, r.ev = some e → r.errs = ownErrs e) → OwnErrors (s.out ++ o) := by
    intro o ho r hr e hre
    rcases List.mem_append.mp hr with hr | hr
    · exact he r hr e hre
    · exact ho r hr e hre
  cases a with
  | arr i =>
    simp only [step]
    split
    · exact ⟨h1, hs, he⟩
    · rename_i g hg
      have hi := idx0 i g hg
      subst hi
      have hlt : 0 < s.fields.length := (List.getElem?_eq_some_iff.mp hg).1
      split
      · exact ⟨h1, hs, he⟩
      · rename_i e script' hsc
        split
        · rename_i c hc
          refine ⟨by simpa using h1, ?_, he⟩
          intro g' hg'
          simp only [List.getElem?_set, if_true, hlt] at hg'
          cases hg'
          have := hs g hg
          simpa [hc] using this
        · rename_i hc
          have hsh : s.shared = [] := by
            have := hs g hg
            simpa [shInv, hc] using this
          rw [hsh]
          have ht := takeLoop_shared 0 g.key (g.queue ++ [e])
          refine ⟨by simpa using h1, ?_, app _ ht.1⟩
          intro g' hg'
          simp only [List.getElem?_set, if_true, hlt] at hg'
          cases hg'
          exact ht.2
  | step i =>
    simp only [step]
    split
    · exact ⟨h1, hs, he⟩
    · rename_i g hg
      have hi := idx0 i g hg
      subst hi
      have hlt : 0 < s.fields.length := (List.getElem?_eq_some_iff.mp hg).1
      split
      · exact ⟨h1, hs, he⟩
      · rename_i c hc
        have hinv : s.shared ++ restCaps c.rest = c.ev.caps := by
          have := hs g hg
          simpa [shInv, hc] using this
        have ht := pollCur_shared 0 g.key s.shared c g.queue hinv
        refine ⟨by simpa using h1, ?_, app _ ht.1⟩
        intro g' hg'
        simp only [List.getElem?_set, if_true, hlt] at hg'
        cases hg'
        exact ht.2

theorem init_shok (fields : List Field) : ShOK (init fields) := by
  intro g hg
  simp only [init, List.getElem?_map] at hg
  cases h : fields[0]? with
  | none => simp [h] at hg
  | some f =>
    simp only [h, Option.map_some] at hg
    cases hg
    simp [shInv, init]

theorem run_errs_single (fields : List Field) (acts : List Act) (h1 : fields.length ≤ 1) :
    OwnErrors (run Defects.pinned fields acts).out := by
  unfold run
  generalize hs : init fields = s0
  have h0 : s0.fields.length ≤ 1 ∧ ShOK s0 ∧ OwnErrors s0.out := by
    subst hs
    exact ⟨by simpa [init] using h1, init_shok fields, init_errs fields⟩
  clear hs
  induction acts generalizing s0 with
  | nil => exact h0.2.2
  | cons a as ih => exact ih (step Defects.pinned s0 a) (step_single s0 a h0.1 h0.2.1 h0.2.2)

end AGV.Lemmas.Subscr
