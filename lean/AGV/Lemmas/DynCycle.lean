import AGV.Lemmas.DynCheck
/-
  C33 — the input-object cycle clause: walks along `requiredRefs`, loop erasure, the pigeonhole
  bound, the closure computation of the reference (`reached`) and the model's chain-guarded
  depth-first search (`refCheck`) against them.
-/
namespace AGV.Lemmas.DynCycle
open AGV.Model.DynCheck AGV.Lemmas.DynCheck
open AGV.Spec.TypeSystem (lookup requiredRefs grow reached requiresItself Requires noRequiredInputCycle)

/-- `l` is a walk from `a` along `refs` -/
def Walk (refs : String → List String) : String → List String → Prop
  | _, [] => True
  | a, b :: l => b ∈ refs a ∧ Walk refs b l

theorem walk_suffix (refs : String → List String) (a : String) (l1 : List String) (b : String) (l2 : List String)
    (h : Walk refs a (l1 ++ b :: l2)) : Walk refs b l2 := by
  induction l1 generalizing a with
  | nil => exact h.2
  | cons x xs ih => exact ih x h.2

theorem nodup_subset_length (l m : List String) (hn : l.Nodup) (hs : l ⊆ m) : l.length ≤ m.length := by
  induction l generalizing m with
  | nil => simp
  | cons a l ih =>
    rw [List.nodup_cons] at hn
    have ham : a ∈ m := hs (by simp)
    have : l ⊆ m.erase a := by
      intro x hx
      have hxa : x ≠ a := fun e => hn.1 (e ▸ hx)
      exact (List.mem_erase_of_ne hxa).2 (hs (by simp [hx]))
    have h1 := ih (m.erase a) hn.2 this
    rw [List.length_erase_of_mem ham] at h1
    have : 0 < m.length := List.length_pos_of_mem ham
    simp only [List.length_cons]
    omega

theorem walk_simplify (refs : String → List String) (a z : String) (l : List String)
    (hw : Walk refs a l) (hl : l.getLast? = some z) :
    ∃ l', Walk refs a l' ∧ l'.getLast? = some z ∧ l'.Nodup ∧ l' ⊆ l := by
  induction l generalizing a with
  | nil => simp at hl
  | cons b l ih =>
    cases l with
    | nil =>
      refine ⟨[b], hw, hl, by simp, by simp⟩
    | cons c l =>
      have hl' : (c :: l).getLast? = some z := by simpa [List.getLast?_cons_cons] using hl
      obtain ⟨r, hr, hrl, hrn, hrs⟩ := ih b hw.2 hl'
      by_cases hb : b ∈ r
      · obtain ⟨s, t, rfl⟩ := List.append_of_mem hb
        refine ⟨b :: t, ⟨hw.1, walk_suffix refs b s b t hr⟩, ?_, ?_, ?_⟩
        · rw [List.getLast?_append] at hrl
          simpa using hrl
        · exact (List.nodup_append.1 hrn).2.1
        · intro x hx
          simp only [List.mem_cons] at hx
          rcases hx with rfl | hx
          · simp
          · exact List.mem_cons_of_mem _ (hrs (by simp [hx]))
      · refine ⟨b :: r, ⟨hw.1, hr⟩, ?_, List.nodup_cons.2 ⟨hb, hrn⟩, ?_⟩
        · cases r with
          | nil => simp at hrl
          | cons r0 rs => simpa [List.getLast?_cons_cons] using hrl
        · intro x hx
          simp only [List.mem_cons] at hx
          rcases hx with rfl | hx
          · simp
          · exact List.mem_cons_of_mem _ (hrs hx)


theorem subset_grow (T : TypeSystem) (s : List String) : s ⊆ grow T s := by
  intro x hx; simp [grow, hx]

theorem grow_mono (T : TypeSystem) (s t : List String) (h : s ⊆ t) : grow T s ⊆ grow T t := by
  intro x hx
  simp only [grow, List.mem_eraseDups, List.mem_append, List.mem_flatMap] at hx ⊢
  rcases hx with hx | ⟨y, hy, hxy⟩
  · exact Or.inl (h hx)
  · exact Or.inr ⟨y, h hy, hxy⟩

theorem reached_mono (T : TypeSystem) (n : String) (k j : Nat) (h : k ≤ j) : reached T n k ⊆ reached T n j := by
  induction j with
  | zero => have : k = 0 := by omega
            subst this; exact fun _ h => h
  | succ j ih =>
    by_cases hk : k = j + 1
    · subst hk; exact fun _ h => h
    · exact fun x hx => subset_grow T _ (ih (by omega) hx)

theorem reached_step (T : TypeSystem) (a b : String) (h : b ∈ requiredRefs T a) (k : Nat) :
    reached T b k ⊆ reached T a (k + 1) := by
  induction k with
  | zero =>
    intro x hx
    simp only [reached, grow, List.mem_eraseDups, List.mem_append, List.mem_flatMap]
    exact Or.inr ⟨b, h, hx⟩
  | succ k ih => exact grow_mono T _ _ ih

theorem mem_reached_of_walk (T : TypeSystem) (a x : String) (l : List String) (k : Nat)
    (hw : Walk (requiredRefs T) a l) (hl : l.getLast? = some x) (hk : l.length ≤ k + 1) : x ∈ reached T a k := by
  induction l generalizing a k with
  | nil => simp at hl
  | cons b l ih =>
    cases l with
    | nil =>
      have : b = x := by simpa using hl
      subst this
      exact reached_mono T a 0 k (by omega) hw.1
    | cons c l =>
      have hl' : (c :: l).getLast? = some x := by simpa [List.getLast?_cons_cons] using hl
      cases k with
      | zero => simp at hk
      | succ k =>
        exact reached_step T a b hw.1 k (ih b k hw.2 hl' (by simpa using hk))

theorem requires_snoc (T : TypeSystem) (a b c : String) (h : Requires T a b) (hc : c ∈ requiredRefs T b) : Requires T a c := by
  induction h with
  | step h1 => exact .trans h1 (.step hc)
  | trans h1 _ ih => exact .trans h1 (ih hc)

theorem requires_of_mem_reached (T : TypeSystem) (n x : String) (k : Nat) (h : x ∈ reached T n k) : Requires T n x := by
  induction k generalizing x with
  | zero => exact .step h
  | succ k ih =>
    simp only [reached, grow, List.mem_eraseDups, List.mem_append, List.mem_flatMap] at h
    rcases h with h | ⟨y, hy, hxy⟩
    · exact ih x h
    · exact requires_snoc T n y x (ih y hy) hxy

theorem walk_of_requires (T : TypeSystem) (a x : String) (h : Requires T a x) :
    ∃ l, Walk (requiredRefs T) a l ∧ l.getLast? = some x := by
  induction h with
  | step h1 => exact ⟨[_], ⟨h1, trivial⟩, rfl⟩
  | @trans a b c h1 _ ih =>
    obtain ⟨l, hw, hl⟩ := ih
    refine ⟨b :: l, ⟨h1, hw⟩, ?_⟩
    cases l with
    | nil => simp at hl
    | cons r0 rs => simpa [List.getLast?_cons_cons] using hl

theorem requires_of_walk (T : TypeSystem) (a x : String) (l : List String)
    (hw : Walk (requiredRefs T) a l) (hl : l.getLast? = some x) : Requires T a x := by
  induction l generalizing a with
  | nil => simp at hl
  | cons b l ih =>
    cases l with
    | nil =>
      have : b = x := by simpa using hl
      subst this; exact .step hw.1
    | cons c l =>
      have hl' : (c :: l).getLast? = some x := by simpa [List.getLast?_cons_cons] using hl
      exact .trans hw.1 (ih b hw.2 hl')




theorem nonNullableName_eq_some (ty : TypeRef) (b : String) : nonNullableName ty = some b ↔ ty = .nonNull (.named b) := by
  unfold nonNullableName
  split <;> simp_all

theorem lookup_name (T : TypeSystem) (n : String) (t : TypeDef) (h : lookup T n = some t) : t.name = n := by
  unfold lookup at h
  split at h
  · rename_i t' ht
    have := List.find?_some ht
    simp at h; subst h; simpa using this
  · split at h
    · simp at h; subst h; rfl
    · simp at h

theorem lookup_mem (T : TypeSystem) (n : String) (t : TypeDef) (h : lookup T n = some t)
    (hs : ∀ s, t ≠ .scalar s) : t ∈ T.types := by
  unfold lookup at h
  split at h
  · rename_i t' ht
    simp at h; subst h; exact List.mem_of_find?_eq_some ht
  · split at h
    · simp at h; exact absurd h.symm (hs n)
    · simp at h

theorem inputFieldsOf_eq_some (T : TypeSystem) (n : String) (fs : List InputValue) :
    inputFieldsOf (allTypes T) n = some fs ↔ ∃ o, lookup T n = some (.inputObject n o fs) := by
  unfold inputFieldsOf
  rw [getType_allTypes]
  constructor
  · intro h
    split at h
    · rename_i n' o fs' hl
      have := lookup_name T n _ hl
      simp [TypeDef.name] at this; subst this
      simp at h; subst h
      exact ⟨o, hl⟩
    · simp at h
  · rintro ⟨o, h⟩; simp [h]

theorem mem_requiredRefs_iff (T : TypeSystem) (a b : String) :
    b ∈ requiredRefs T a ↔ ∃ fs, inputFieldsOf (allTypes T) a = some fs ∧ (∃ f ∈ fs, nonNullableName f.ty = some b) ∧
      (inputFieldsOf (allTypes T) b).isSome = true := by
  unfold requiredRefs inputFieldsOf
  simp only [getType_allTypes]
  cases ha : lookup T a with
  | none => simp
  | some t =>
    cases t <;> simp
    rename_i n o fs
    constructor
    · rintro ⟨f, hf, h⟩
      split at h
      · rename_i m hm
        split at h
        · rename_i hlm
          simp at h; subst h
          refine ⟨⟨f, hf, (nonNullableName_eq_some _ _).2 hm⟩, ?_⟩
          simp [hlm]
        · simp at h
      · simp at h
    · rintro ⟨⟨f, hf, hn⟩, hb⟩
      refine ⟨f, hf, ?_⟩
      rw [nonNullableName_eq_some] at hn
      rw [hn]
      simp only
      split at hb
      · rename_i hlb
        have := lookup_name T b _ hlb
        simp [TypeDef.name] at this; subst this
        simp [hlb]
      · simp at hb

theorem mem_requiredRefs_inputObject (T : TypeSystem) (a b : String) (h : b ∈ requiredRefs T a) :
    b ∈ T.types.map (·.name) := by
  obtain ⟨_, _, _, hb⟩ := (mem_requiredRefs_iff T a b).1 h
  rw [Option.isSome_iff_exists] at hb
  obtain ⟨fs, hfs⟩ := hb
  obtain ⟨o, ho⟩ := (inputFieldsOf_eq_some T b fs).1 hfs
  have := lookup_mem T b _ ho (by simp)
  simp only [List.mem_map]
  exact ⟨_, this, rfl⟩


theorem refCheck_ne_ok_of_walk (T : TypeSystem) (cur : String) (fuel : Nat) (chain : List String) (a : String)
    (fs : List InputValue) (l : List String)
    (hfs : inputFieldsOf (allTypes T) a = some fs)
    (hw : Walk (requiredRefs T) a l) (hl : l.getLast? = some cur) (hn : l.Nodup)
    (hc : ∀ x ∈ l, x ∉ chain) (hk : l.length ≤ fuel) :
    refCheck (allTypes T) cur fuel chain fs ≠ .ok () := by
  induction l generalizing a fs chain fuel with
  | nil => simp at hl
  | cons b l ih =>
    cases fuel with
    | zero => simp at hk
    | succ fuel =>
      intro hok
      rw [refCheck, forEach_ok_iff] at hok
      obtain ⟨fs', hfs', ⟨f, hf, hfb⟩, hb⟩ := (mem_requiredRefs_iff T a b).1 hw.1
      rw [hfs] at hfs'; simp at hfs'; subst hfs'
      have hbody := hok f hf
      simp only [hfb] at hbody
      rw [Option.isSome_iff_exists] at hb
      obtain ⟨ofs, hofs⟩ := hb
      rw [List.nodup_cons] at hn
      have hbc : chain.contains b = false := by
        have := hc b (by simp)
        simpa using this
      by_cases hbcur : b = cur
      · simp [hbcur] at hbody
      · have hne : (b == cur) = false := by simpa using hbcur
        simp only [hne, hofs, hbc] at hbody
        simp only [Bool.false_eq_true, if_false] at hbody
        cases l with
        | nil => simp at hl; exact hbcur hl
        | cons c l =>
          have hl' : (c :: l).getLast? = some cur := by simpa [List.getLast?_cons_cons] using hl
          refine ih fuel (b :: chain) b ofs hofs hw.2 hl' hn.2 ?_ (by simpa using hk) hbody
          intro x hx hxc
          simp only [List.mem_cons] at hxc
          rcases hxc with rfl | hxc
          · exact hn.1 hx
          · exact hc x (List.mem_cons_of_mem _ hx) hxc

theorem forEach_ne_ok {α : Type} (f : α → R) (l : List α) (h : forEach f l ≠ .ok ()) : ∃ x ∈ l, f x ≠ .ok () := by
  false_or_by_contra
  rename_i hne
  apply h
  rw [forEach_ok_iff]
  intro x hx
  false_or_by_contra
  rename_i h2
  exact hne ⟨x, hx, h2⟩

theorem walk_of_refCheck_ne_ok (T : TypeSystem) (cur : String) (fuel : Nat) (chain : List String) (a : String)
    (fs : List InputValue)
    (hfs : inputFieldsOf (allTypes T) a = some fs) (hcur : (inputFieldsOf (allTypes T) cur).isSome = true)
    (h : refCheck (allTypes T) cur fuel chain fs ≠ .ok ()) :
    ∃ l, Walk (requiredRefs T) a l ∧ l.getLast? = some cur := by
  induction fuel generalizing chain a fs with
  | zero => simp [refCheck] at h
  | succ fuel ih =>
    rw [refCheck] at h
    obtain ⟨f, hf, hbody⟩ := forEach_ne_ok _ _ h
    cases hn : nonNullableName f.ty with
    | none => simp [hn] at hbody
    | some n =>
      simp only [hn] at hbody
      by_cases hncur : n = cur
      · subst hncur
        exact ⟨[n], ⟨(mem_requiredRefs_iff T a n).2 ⟨fs, hfs, ⟨f, hf, hn⟩, hcur⟩, trivial⟩, rfl⟩
      · have hne : (n == cur) = false := by simpa using hncur
        simp only [hne, Bool.false_eq_true, if_false] at hbody
        cases hofs : inputFieldsOf (allTypes T) n with
        | none => simp [hofs] at hbody
        | some ofs =>
          simp only [hofs] at hbody
          split at hbody
          · simp at hbody
          · obtain ⟨l, hw, hl⟩ := ih (n :: chain) n ofs hofs hbody
            refine ⟨n :: l, ⟨(mem_requiredRefs_iff T a n).2 ⟨fs, hfs, ⟨f, hf, hn⟩, by simp [hofs]⟩, hw⟩, ?_⟩
            cases l with
            | nil => simp at hl
            | cons r0 rs => simpa [List.getLast?_cons_cons] using hl


theorem walk_subset_names (T : TypeSystem) (a : String) (l : List String) (hw : Walk (requiredRefs T) a l) :
    l ⊆ T.types.map (·.name) := by
  induction l generalizing a with
  | nil => simp
  | cons b l ih =>
    intro x hx
    simp only [List.mem_cons] at hx
    rcases hx with rfl | hx
    · exact mem_requiredRefs_inputObject T a x hw.1
    · exact ih b hw.2 hx

theorem simple_walk_length (T : TypeSystem) (a : String) (l : List String) (hw : Walk (requiredRefs T) a l)
    (hn : l.Nodup) : l.length ≤ T.types.length := by
  have := nodup_subset_length l _ hn (walk_subset_names T a l hw)
  simpa using this

/-- the reference's bounded closure computation decides the inductive relation `Requires` -/
theorem requiresItself_iff (T : TypeSystem) (n : String) : requiresItself T n = true ↔ Requires T n n := by
  unfold requiresItself
  simp only [List.contains_eq_mem, decide_eq_true_eq]
  constructor
  · exact requires_of_mem_reached T n n _
  · intro h
    obtain ⟨l, hw, hl⟩ := walk_of_requires T n n h
    obtain ⟨l', hw', hl', hn', _⟩ := walk_simplify _ n n l hw hl
    have := simple_walk_length T n l' hw' hn'
    exact mem_reached_of_walk T n n l' _ hw' hl' (by omega)

/-- the model's chain-guarded depth-first search, started on the fields of input object `n` with
    the fuel `check_input_objects` gives it, succeeds exactly when `n` does not require itself -/
theorem refCheck_ok_iff (T : TypeSystem) (n : String) (fs : List InputValue)
    (hfs : inputFieldsOf (allTypes T) n = some fs) :
    refCheck (allTypes T) n ((allTypes T).length + 1) [] fs = .ok () ↔ ¬ Requires T n n := by
  constructor
  · intro hok h
    obtain ⟨l, hw, hl⟩ := walk_of_requires T n n h
    obtain ⟨l', hw', hl', hn', _⟩ := walk_simplify _ n n l hw hl
    have hlen := simple_walk_length T n l' hw' hn'
    refine refCheck_ne_ok_of_walk T n _ [] n fs l' hfs hw' hl' hn' (by simp) ?_ hok
    simp only [allTypes, List.length_append]
    omega
  · intro h
    false_or_by_contra
    rename_i hne
    obtain ⟨l, hw, hl⟩ := walk_of_refCheck_ne_ok T n _ [] n fs hfs (by simp [hfs]) hne
    exact h (requires_of_walk T n n l hw hl)

end AGV.Lemmas.DynCycle
