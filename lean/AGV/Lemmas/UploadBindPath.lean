import AGV.Lemmas.UploadBind

/- C24: path syntax (model = spec), well-formed variable trees, `resolve` in bind form (core tactics only). -/
namespace AGV.Lemmas.UploadBind
open AGV.Spec.UploadBind
open AGV.Model.UploadBind

theorem segments_eq_splitDot (s : Str) : segments s = splitDot s := by
  induction s with
  | nil => simp [segments, splitDot]
  | cons c cs ih =>
    simp only [segments, List.foldr_cons] at ih ⊢
    simp only [splitDot, ih]
    split <;> rfl

theorem digitsVal_eq (ds : Str) (acc : Nat) :
    digitsVal acc ds = if ds.all (fun c => '0' ≤ c ∧ c ≤ '9') then
      some (ds.foldl (fun a c => a * 10 + (c.toNat - '0'.toNat)) acc) else none := by
  induction ds generalizing acc with
  | nil => simp [digitsVal]
  | cons c cs ih =>
    simp only [digitsVal, ih]
    by_cases h : '0' ≤ c ∧ c ≤ '9'
    · simp [h]
    · simp [h]

theorem parseCore_eq (bits : Nat) (ds : Str) :
    (match ds with
      | [] => none
      | _ => match digitsVal 0 ds with
        | some n => if n ≤ 2 ^ bits - 1 then some n else none
        | none => none) =
    (if ds ≠ [] ∧ ds.all (fun c => '0' ≤ c ∧ c ≤ '9') then
      let n := ds.foldl (fun a c => a * 10 + (c.toNat - '0'.toNat)) 0
      if n < 2 ^ bits then some n else none
    else none) := by
  have hp : 0 < 2 ^ bits := Nat.pow_pos (by decide)
  cases ds with
  | nil => simp
  | cons d r =>
    simp only [digitsVal_eq]
    by_cases hall : (d :: r).all (fun c => '0' ≤ c ∧ c ≤ '9') = true
    · simp only [hall, if_true, ne_eq, reduceCtorEq, not_false_eq_true, and_self]
      split <;> split <;> first | rfl | omega
    · simp only [hall]
      simp

theorem stripPlus_eq (s : Str) :
    parseUnsigned.match_1 (fun _ => List Char) s (fun r => r) (fun _ => s) =
      if s.head? = some '+' then s.drop 1 else s := by
  cases s with
  | nil => rfl
  | cons c r =>
    by_cases hc : c = '+'
    · subst hc; rfl
    · simp only [List.head?_cons, Option.some.injEq, hc, if_false]
      split
      · rename_i heq; simp at heq; exact absurd heq.1 hc
      · rfl

theorem parseUnsigned_eq (bits : Nat) (s : Str) : parseUnsigned (2 ^ bits - 1) s = index? bits s := by
  have h := parseCore_eq bits (if s.head? = some '+' then s.drop 1 else s)
  simp only [parseUnsigned, index?, stripPlus_eq]
  exact h

theorem parseU32_eq (s : Str) : parseU32 s = index? 32 s := parseUnsigned_eq 32 s
theorem parseUsize_eq (s : Str) : parseUsize s = index? 64 s := parseUnsigned_eq 64 s


-- ------------------------------------------------------------------ well-formed variable trees

mutual
/-- every object has pairwise distinct keys; `e = false`: moreover no `ext` leaf occurs -/
def wfT {α : Type} (e : Bool) : T α → Bool
  | .arr xs => wfL e xs
  | .obj kvs => distinct (kvs.map (·.1)) && wfM e kvs
  | .ext _ => e
  | _ => true
def wfL {α : Type} (e : Bool) : List (T α) → Bool
  | [] => true
  | x :: xs => wfT e x && wfL e xs
def wfM {α : Type} (e : Bool) : List (Str × T α) → Bool
  | [] => true
  | (_, v) :: r => wfT e v && wfM e r
end

theorem wfL_iff {α : Type} (e : Bool) (xs : List (T α)) : wfL e xs = true ↔ ∀ x ∈ xs, wfT e x = true := by
  induction xs with
  | nil => simp [wfL]
  | cons x xs ih => simp [wfL, ih]

theorem wfM_iff {α : Type} (e : Bool) (kvs : List (Str × T α)) : wfM e kvs = true ↔ ∀ kv ∈ kvs, wfT e kv.2 = true := by
  induction kvs with
  | nil => simp [wfM]
  | cons kv r ih => obtain ⟨k, v⟩ := kv; simp [wfM, ih]

theorem getKey_mem {β : Type} {k : Str} {kvs : List (Str × β)} {v : β} (h : getKey k kvs = some v) : (k, v) ∈ kvs := by
  induction kvs with
  | nil => simp [getKey] at h
  | cons kv r ih =>
    obtain ⟨k', v'⟩ := kv
    by_cases hk : k' = k
    · simp [getKey, hk] at h; simp [hk, h]
    · simp [getKey, hk] at h; simp [ih h]

theorem getKey_eq_find {β : Type} (k : Str) (kvs : List (Str × β)) :
    getKey k kvs = (kvs.find? (fun kv => kv.1 = k)).map (·.2) := by
  induction kvs with
  | nil => simp [getKey]
  | cons kv r ih =>
    obtain ⟨k', v'⟩ := kv
    by_cases hk : k' = k
    · simp [getKey, hk]
    · simp [getKey, hk, ih]

theorem find_key {β : Type} {k : Str} {kvs : List (Str × β)} {kv : Str × β}
    (h : kvs.find? (fun kv => kv.1 = k) = some kv) : kv.1 = k := by
  have := List.find?_some h
  simpa using this

-- ------------------------------------------------------------------ resolve in a friendlier form

theorem resolve_nil {α : Type} (t : T α) : resolve t [] = some [] := by
  cases t <;> simp [resolve]

theorem resolve_arr {α : Type} (xs : List (T α)) (p : Str) (ps : List Str) :
    resolve (.arr xs) (p :: ps) =
      (parseU32 p).bind (fun i => (xs[i]?).bind (fun v => (resolve v ps).map (fun a => Step.idx i :: a))) := by
  rw [parseU32_eq]
  simp only [resolve]
  cases index? 32 p <;> simp
  rename_i i
  cases xs[i]? <;> simp
  rename_i v
  cases resolve v ps <;> simp

theorem resolve_obj {α : Type} (kvs : List (Str × T α)) (p : Str) (ps : List Str) :
    resolve (.obj kvs) (p :: ps) =
      (getKey p kvs).bind (fun v => (resolve v ps).map (fun a => Step.key p :: a)) := by
  rw [getKey_eq_find]
  simp only [resolve]
  cases List.find? (fun kv => kv.1 = p) kvs <;> simp
  rename_i kv
  cases resolve kv.2 ps <;> simp

theorem resolve_leaf {α : Type} (t : T α) (p : Str) (ps : List Str)
    (h1 : ∀ xs, t ≠ .arr xs) (h2 : ∀ kvs, t ≠ .obj kvs) : resolve t (p :: ps) = none := by
  cases t <;> simp_all [resolve]

-- ------------------------------------------------------------------ mapExt on lists

theorem mapExtL_eq {α β : Type} (g : α → β) (xs : List (T α)) : mapExtL g xs = xs.map (mapExt g) := by
  induction xs with
  | nil => simp [mapExtL]
  | cons x xs ih => simp [mapExtL, ih]

theorem mapExtM_eq {α β : Type} (g : α → β) (kvs : List (Str × T α)) :
    mapExtM g kvs = kvs.map (fun kv => (kv.1, mapExt g kv.2)) := by
  induction kvs with
  | nil => simp [mapExtM]
  | cons kv r ih => obtain ⟨k, v⟩ := kv; simp [mapExtM, ih]

end AGV.Lemmas.UploadBind
