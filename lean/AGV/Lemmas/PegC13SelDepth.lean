/-
  Property C13, token level: a selection set read by `qSelSet` nests fewer levels than it has
  tokens (so the tree builder's fuel, the length of the text, always suffices).
-/
import AGV.Lemmas.PegC13Sel4
namespace AGV.Lemmas.PegX
open AGV.Model.Peg AGV.Model.BuildAst AGV.Spec.Lex AGV.Spec.Parse AGV.Core.PAst AGV.Lemmas.PegC13 AGV.Lemmas.SpecVal

theorem tMap_some {α β : Type} {f : α → β} {q : Sim α} {ts r : List Tok} {y : β} (h : tMap f q ts = some (y, r)) :
    ∃ x, q ts = some (x, r) ∧ y = f x := by
  simp only [tMap] at h
  cases hq : q ts with
  | none => simp [hq] at h
  | some z => obtain ⟨x, r'⟩ := z; simp [hq] at h; obtain ⟨rfl, rfl⟩ := h; exact ⟨x, rfl, rfl⟩

theorem tOr_some {α : Type} {qa qb : Sim α} {ts r : List Tok} {x : α} (h : tOr qa qb ts = some (x, r)) :
    qa ts = some (x, r) ∨ (qa ts = none ∧ qb ts = some (x, r)) := by
  simp only [tOr] at h
  cases ha : qa ts with
  | none => simp only [ha] at h; exact Or.inr ⟨rfl, h⟩
  | some z => simp only [ha] at h; exact Or.inl h

theorem tOpt_some {α : Type} {q : Sim α} {ts r : List Tok} {o : Option α} (h : tOpt q ts = some (o, r)) :
    (∃ x, o = some x ∧ q ts = some (x, r)) ∨ (o = none ∧ r = ts ∧ q ts = none) := by
  simp only [tOpt] at h
  cases hq : q ts with
  | none => simp [hq] at h; obtain ⟨rfl, rfl⟩ := h; exact Or.inr ⟨rfl, rfl, rfl⟩
  | some z => obtain ⟨x, r'⟩ := z; simp [hq] at h; obtain ⟨rfl, rfl⟩ := h; exact Or.inl ⟨x, rfl, rfl⟩

/-- a measure bounded by the tokens an element consumes stays bounded along a repetition -/
theorem manyF_measure {α : Type} {q : Sim α} (m : α → Nat)
    (hq : ∀ ts x r, q ts = some (x, r) → m x + r.length < ts.length) :
    ∀ (n : Nat) (ts : List Tok), ∀ x ∈ (manyF q n ts).1, m x + (manyF q n ts).2.length < ts.length := by
  intro n
  induction n with
  | zero => intro ts x hx; simp [manyF] at hx
  | succ n ih =>
    intro ts x hx
    simp only [manyF] at hx ⊢
    cases h : q ts with
    | none => simp [h] at hx
    | some z =>
      obtain ⟨a, r⟩ := z
      simp only [h] at hx ⊢
      have h1 := hq _ _ _ h
      have hS : Strict q := fun ts a r e => by have := hq ts a r e; omega
      have h2 := manyF_len hS n r
      rcases List.mem_cons.1 hx with rfl | hx
      · omega
      · have := ih r x hx; omega

theorem dSels_bound {ss : List PSel} {b : Nat} (h : ∀ s ∈ ss, dSel s ≤ b) : dSels ss ≤ b := by
  induction ss with
  | nil => simp [dSels]
  | cons s ss ih =>
    simp only [dSels]
    have := h s (by simp)
    have := ih (fun x hx => h x (by simp [hx]))
    omega

theorem qSelSet_ne_nil {n : Nat} {ts r : List Tok} {ss : List PSel} (h : qSelSet n ts = some (ss, r)) : ss ≠ [] := by
  cases n with
  | zero => cases h
  | succ n =>
    simp only [qSelSet, qSelSetBody] at h
    obtain ⟨y, hy, rfl⟩ := tMap_some h
    obtain ⟨r1, -, g2⟩ := tSeq_some hy
    obtain ⟨r2, g3, -⟩ := tSeq_some g2
    exact tRep1_ne_nil g3

theorem qSelSet_depth : ∀ (n : Nat) (ts : List Tok) (ss : List PSel) (r : List Tok), qSelSet n ts = some (ss, r) →
    dSels ss + r.length + 2 < ts.length + 1 := by
  intro n
  induction n with
  | zero => intro ts ss r h; cases h
  | succ n ih =>
    intro ts ss r h
    have hmono : Mono (qSelSet n) := (strict_qSelSet n).mono
    -- one selection
    have hsel : ∀ ts x r, qSelection (qSelSet n) ts = some (x, r) → dSel x + r.length < ts.length := by
      intro ts x r hx
      rcases tOr_some hx with hf | ⟨-, hx⟩
      · -- field
        obtain ⟨y, hy, rfl⟩ := tMap_some hf
        obtain ⟨oal, nm, oas, ods, oss⟩ := y
        obtain ⟨r1, g1, g2⟩ := tSeq_some hy
        obtain ⟨r2, g3, g4⟩ := tSeq_some g2
        obtain ⟨r3, g5, g6⟩ := tSeq_some g4
        obtain ⟨r4, g7, g8⟩ := tSeq_some g6
        have m1 := mono_opt strict_qAlias.mono _ _ _ g1
        have m2 := strict_pName _ _ _ g3
        have m3 := mono_opt (strict_pArgsV false).mono _ _ _ g5
        have m4 := mono_opt (strict_rep1 (strict_qDirective false)).mono _ _ _ g7
        rcases tOpt_some g8 with ⟨sub, e, g9⟩ | ⟨e, e2, -⟩
        · simp only at e
          subst e
          have d := ih _ _ _ g9
          have hne : sub.isEmpty = false := by
            cases sub with
            | nil => exact absurd rfl (qSelSet_ne_nil g9)
            | cons _ _ => rfl
          simp only [mkField, Option.getD_some, dSel, hne, Bool.false_eq_true, if_false]
          omega
        · simp only at e e2
          subst e e2
          simp only [mkField, Option.getD_none, dSel, List.isEmpty_nil, if_true]
          omega
      · rcases tOr_some hx with hi | ⟨-, hs⟩
        · -- inline fragment
          obtain ⟨y, hy, rfl⟩ := tMap_some hi
          obtain ⟨u, otc, ods, sub⟩ := y
          obtain ⟨r1, g1, g2⟩ := tSeq_some hy
          obtain ⟨r2, g3, g4⟩ := tSeq_some g2
          obtain ⟨r3, g5, g6⟩ := tSeq_some g4
          have m1 := strict_spread _ _ _ g1
          have m2 := mono_opt strict_qTypeCond.mono _ _ _ g3
          have m3 := mono_opt (strict_rep1 (strict_qDirective false)).mono _ _ _ g5
          have d : dSels sub + r.length + 2 < r3.length + 1 := ih _ _ _ g6
          simp only [mkInline, dSel]
          omega
        · -- fragment spread
          obtain ⟨y, hy, rfl⟩ := tMap_some hs
          have := strict_qSpread _ _ _ hs
          simp only [mkSpread, dSel]
          omega
    simp only [qSelSet, qSelSetBody] at h
    obtain ⟨y, hy, rfl⟩ := tMap_some h
    obtain ⟨u, ss, u'⟩ := y
    obtain ⟨r1, g1, g2⟩ := tSeq_some hy
    obtain ⟨r2, g3, g4⟩ := tSeq_some g2
    have m1 := strict_punct '{' _ _ _ g1
    have m2 := strict_punct '}' _ _ _ g4
    -- the repetition
    simp only [tRep1] at g3
    cases hq : qSelection (qSelSet n) r1 with
    | none => simp [hq] at g3
    | some z =>
      obtain ⟨x, r3⟩ := z
      simp [hq] at g3
      obtain ⟨rfl, rfl⟩ := g3
      have d1 := hsel _ _ _ hq
      have hS : Strict (qSelection (qSelSet n)) := strict_qSelection _ hmono
      have d2 := manyF_len hS r3.length r3
      have d3 := manyF_measure dSel hsel r3.length r3
      have : dSels (x :: (manyF (qSelection (qSelSet n)) r3.length r3).1) + (manyF (qSelection (qSelSet n)) r3.length r3).2.length
          < r1.length := by
        have hb : ∀ s ∈ x :: (manyF (qSelection (qSelSet n)) r3.length r3).1,
            dSel s ≤ r1.length - (manyF (qSelection (qSelSet n)) r3.length r3).2.length - 1 := by
          intro s hs
          rcases List.mem_cons.1 hs with rfl | hs
          · omega
          · have := d3 s hs; omega
        have := dSels_bound hb
        omega
      show dSels (x :: (manyF (qSelection (qSelSet n)) r3.length r3).1) + r.length + 2 < ts.length + 1
      omega
end AGV.Lemmas.PegX
