/-
  Property C13: `variable`, `default_value`, `variable_definition(s)` read by the interpreter, as
  token-level PEGs, and `parse_variable_definition` on the emitted pairs.
-/
import AGV.Lemmas.PegC13TypeR
namespace AGV.Lemmas.PegX
open AGV.Model.Peg AGV.Model.BuildAst AGV.Spec.Lex AGV.Spec.Parse AGV.Core.PAst AGV.Lemmas.PegC13 AGV.Lemmas.SpecVal
open AGV.Lemmas.ParseC13 (typeDepth)

-- ------------------------------------------------------------------ values as a reader

def bValue (F : ValFam) : Bld PValue := fun s₀ ps v =>
  ∃ pr, ps = [pr] ∧ pr.rule = F.vName ∧ buildValue (envOf s₀) (fuelOf (envOf s₀)) pr = expV v

theorem strict_pV (c : Bool) : Strict (pV P' c) := fun _ _ _ h => pV_len P' c h

theorem reads_value (F : ValFam) (hF : IsFam F) (L : Nat) : Reads L (.ident F.vName) 60 (pV P' F.const) (bValue F) := by
  intro q t _ ht
  obtain ⟨r, hE, hG⟩ := value_main F hF t.length t q (Nat.le_refl _) ht
  refine ⟨r, hE, fun s₀ hat => ?_⟩
  have hg := hG s₀ hat
  cases hp : pV P' F.const (toks t) with
  | none => rw [hg.fail hp]; exact Out.mk_none hp
  | some x =>
    obtain ⟨v, ts'⟩ := x
    obtain ⟨s', pr, e, h1, -, h2, h3, h4⟩ := hg.ok hp
    subst e
    obtain ⟨inner, hin⟩ := ev_ident_pair (fam_rules F hF).1 hE
    injection hin with hin
    subst hin
    refine Out.mk_some hp rfl h1 h2 ⟨_, rfl, rfl, ?_⟩
    exact h4 _ (by simp [fuelOf, envOf, Pair.start]; omega)

-- ------------------------------------------------------------------ pair-list helpers of the tree builder

theorem inner_mk (n : String) (a b : Nat) (i : List Pair) : (Pair.mk n a b i).inner = i := rfl
theorem rule_mk (n : String) (a b : Nat) (i : List Pair) : (Pair.mk n a b i).rule = n := rfl

theorem nextIf_hit {r : String} {p : Pair} {rest : List Pair} (h : p.rule = r) : nextIf r (p :: rest) = (some p, rest) := by
  simp [nextIf, h]

theorem nextIf_miss {r : String} {p : Pair} {rest : List Pair} (h : p.rule ≠ r) :
    nextIf r (p :: rest) = (none, p :: rest) := by
  simp [nextIf, h]

theorem nextIf_nil (r : String) : nextIf r [] = (none, []) := rfl

theorem optDirs_nil (env : Env) : buildOptDirectives env [] = .ok ([], []) := rfl

theorem optDirs_hit (env : Env) (F : ValFam) (hF : IsFam F) {p : Pair} {rest : List Pair} (h : p.rule = dsName F) :
    buildOptDirectives env (p :: rest) = (p.inner.mapM (buildDirective env)).map (fun ds => (ds, rest)) := by
  have : (p.rule = "directives" ∨ p.rule = "const_directives") := by
    rcases hF with rfl | rfl
    · left; exact h
    · right; exact h
  simp [buildOptDirectives, this]

theorem optDirs_miss (env : Env) {p : Pair} {rest : List Pair} (h1 : p.rule ≠ "directives")
    (h2 : p.rule ≠ "const_directives") : buildOptDirectives env (p :: rest) = .ok ([], p :: rest) := by
  simp [buildOptDirectives, h1, h2]

-- ------------------------------------------------------------------ variable, default value

theorem variable_ok : RuleOk "variable" variableRule := ⟨by rfl, by decide, by decide, by rfl, rfl, by decide⟩

def qVariable : Sim Name := tMap (fun x => x.2) (tSeq (tPunct '$') pName)

def bVariable : Bld Name := fun s₀ ps n => ∃ pr, ps = [pr] ∧ pr.rule = "variable" ∧ innerName (envOf s₀) pr = .ok n

theorem reads_variable (L : Nat) : Reads L (.ident "variable") 20 qVariable bVariable := by
  refine Reads.map _ (Reads.rule variable_ok (r := variableRule)
    (Reads.seq (Reads.punct L '$' (by decide) 1 (Nat.le_refl _)) (Reads.name L 8 (Nat.le_refl _)) (K := 18)
      (by omega) (by omega) (by omega)) (K := 20) (by omega)) ?_
  rintro s₀ ps ⟨⟨⟩, n⟩ ⟨p, p1, inner, rfl, ps1, ps2, rfl, h1, a, b, rfl, hn⟩
  simp only [bNil] at h1
  subst h1
  exact ⟨_, rfl, rfl, by simp [innerName, Pair.inner, hn]⟩

theorem strict_qVariable : Strict qVariable := strict_map (strict_seq (strict_punct '$') strict_pName.mono)

def defaultRule : Rule := ⟨"default_value", .normal, .seq (.str ['=']) (.ident "const_value")⟩
theorem default_ok : RuleOk "default_value" defaultRule := ⟨by rfl, by decide, by decide, by rfl, rfl, by decide⟩

def qDefault : Sim PValue := tMap (fun x => x.2) (tSeq (tPunct '=') (pV P' true))

def bDefault : Bld PValue := fun s₀ ps v =>
  ∃ pr cv rest, ps = [pr] ∧ pr.rule = "default_value" ∧ pr.inner = cv :: rest ∧
    buildValue (envOf s₀) (fuelOf (envOf s₀)) cv = expV v

theorem reads_default (L : Nat) : Reads L (.ident "default_value") 63 qDefault bDefault := by
  refine Reads.map _ (Reads.rule default_ok (r := defaultRule)
    (Reads.seq (Reads.punct L '=' (by decide) 1 (Nat.le_refl _)) (reads_value famC (Or.inr rfl) L) (K := 61)
      (by omega) (by omega) (by omega)) (K := 63) (by omega)) ?_
  rintro s₀ ps ⟨⟨⟩, v⟩ ⟨p, p1, inner, rfl, ps1, ps2, rfl, h1, pr, rfl, -, hb⟩
  simp only [bNil] at h1
  subst h1
  exact ⟨_, pr, [], rfl, rfl, rfl, hb⟩

theorem strict_qDefault : Strict qDefault := strict_map (strict_seq (strict_punct '=') (strict_pV true).mono)

-- ------------------------------------------------------------------ one variable definition

def vdRule : Rule := ⟨"variable_definition", .normal,
  .seq (.ident "variable") (.seq (.str [':']) (.seq (.ident "type_")
    (.seq (.opt (.ident "default_value")) (.opt (.ident "const_directives")))))⟩
def vdsRule : Rule := ⟨"variable_definitions", .normal,
  .seq (.str ['(']) (.seq (.rep1 (.ident "variable_definition")) (.str [')']))⟩

theorem vd_rules : RuleOk "variable_definition" vdRule ∧ RuleOk "variable_definitions" vdsRule :=
  ⟨⟨by rfl, by decide, by decide, by rfl, rfl, by decide⟩, ⟨by rfl, by decide, by decide, by rfl, rfl, by decide⟩⟩

/-- `$name : type default? directives?` on tokens, as the PEG reads it -/
def qVarDefRaw (n : Nat) :=
  tSeq qVariable (tSeq (tPunct ':') (tSeq (qType n) (tSeq (tOpt qDefault) (tOpt (qDirectives true)))))

def mkVarDef (x : Name × Unit × PType × Option PValue × Option (List PDirective)) : PVarDef :=
  ⟨x.1, x.2.2.1, x.2.2.2.2.getD [], x.2.2.2.1⟩

def qVarDef (n : Nat) : Sim PVarDef := tMap mkVarDef (qVarDefRaw n)

def finVD (v : PVarDef) : Bool := finDs v.dirs && (match v.default with | some d => finV d | none => true)
def normVD (v : PVarDef) : PVarDef := ⟨v.name, v.ty, normDs v.dirs, v.default.map normV⟩

def expVD (v : PVarDef) : Except PErr PVarDef := if finVD v then .ok (normVD v) else .error .number

def bVarDef : Bld PVarDef := fun s₀ ps v =>
  ∃ pr, ps = [pr] ∧ pr.rule = "variable_definition" ∧ buildVarDef (envOf s₀) pr = expVD v

theorem tSeq_some {α β : Type} {qa : Sim α} {qb : Sim β} {ts r : List Tok} {x : α × β}
    (h : tSeq qa qb ts = some (x, r)) : ∃ r1, qa ts = some (x.1, r1) ∧ qb r1 = some (x.2, r) := by
  simp only [tSeq] at h
  cases ha : qa ts with
  | none => simp [ha] at h
  | some y =>
    obtain ⟨a, r1⟩ := y
    simp only [ha] at h
    cases hb : qb r1 with
    | none => simp [hb] at h
    | some z =>
      obtain ⟨b, r2⟩ := z
      simp [hb] at h
      obtain ⟨rfl, rfl⟩ := h
      exact ⟨r1, rfl, hb⟩

/-- a type read from tokens nests at most as deep as it has tokens -/
theorem qType_depth : ∀ (n : Nat) (ts : List Tok) (ty : PType) (r : List Tok), qType n ts = some (ty, r) →
    typeDepth ty + r.length < ts.length := by
  intro n
  induction n with
  | zero => intro ts ty r h; cases h
  | succ n ih =>
    intro ts ty r h
    simp only [qType, qTypeBody, tMap] at h
    cases hs : tSeq (tOr (tMap (fun n => PType.named n) pName)
        (tMap (fun x => PType.listOf x.2.1) (tSeq (tPunct '[') (tSeq (qType n) (tPunct ']'))))) (tOpt (tPunct '!')) ts with
    | none => simp [hs] at h
    | some x =>
      obtain ⟨⟨mk, o⟩, r'⟩ := x
      simp [hs] at h
      obtain ⟨rfl, rfl⟩ := h
      obtain ⟨r1, h1, h2⟩ := tSeq_some hs
      have hm := mono_opt (strict_punct '!').mono _ _ _ h2
      simp only [tOr] at h1
      cases hn : tMap (fun n => PType.named n) pName ts with
      | some y =>
        simp only [hn] at h1
        cases h1
        simp only [tMap] at hn
        cases hp : pName ts with
        | none => simp [hp] at hn
        | some z =>
          simp [hp] at hn
          obtain ⟨rfl, rfl⟩ := hn
          have := pName_len hp
          simp only [typeDepth]; omega
      | none =>
        simp only [hn] at h1
        simp only [tMap] at h1
        cases hl : tSeq (tPunct '[') (tSeq (qType n) (tPunct ']')) ts with
        | none => simp [hl] at h1
        | some z =>
          obtain ⟨⟨u, ty', u'⟩, r2⟩ := z
          simp [hl] at h1
          obtain ⟨rfl, rfl⟩ := h1
          obtain ⟨r3, h3, h4⟩ := tSeq_some hl
          obtain ⟨r4, h5, h6⟩ := tSeq_some h4
          have d0 : typeDepth ty' + r4.length < r3.length := ih _ _ _ h5
          have := strict_punct '[' _ _ _ h3
          have := strict_punct ']' _ _ _ h6
          simp only [typeDepth]; omega

theorem strict_qType (n : Nat) : Strict (qType n) := by
  intro ts a r h
  have := qType_depth n ts a r h
  omega

theorem strict_qVarDef (n : Nat) : Strict (qVarDef n) :=
  strict_map (strict_seq strict_qVariable (mono_seq (strict_punct ':').mono (mono_seq (strict_qType n).mono
    (mono_seq (mono_opt strict_qDefault.mono) (mono_opt (strict_rep1 (strict_qDirective true)).mono)))))

theorem reads_vardef (L : Nat) : Reads L (.ident "variable_definition") 70 (qVarDef L) bVarDef := by
  have hbody := Reads.seq (reads_variable L) (Reads.seq (Reads.punct L ':' (by decide) 1 (Nat.le_refl _))
    (Reads.seq (reads_type L) (Reads.seq (Reads.opt (reads_default L) (K := 64) (by omega))
      (Reads.opt (reads_directives famC (Or.inr rfl) L) (K := 64) (by omega)) (K := 65) (by omega) (by omega) (by omega))
      (K := 66) (by omega) (by omega) (by omega)) (K := 67) (by omega) (by omega) (by omega)) (K := 68) (by omega)
      (by omega) (by omega)
  have hrule := Reads.rule vd_rules.1 (r := vdRule) hbody (K := 70) (by omega)
  refine Reads.convT mkVarDef hrule (fun _ => rfl) ?_
  rintro s₀ q t ps ⟨n, ⟨⟩, ty, odv, ods⟩ r hat hq ⟨p, p1, inner, rfl, ps1, ps2, rfl, ⟨vp, rfl, hvr, hvn⟩, ps3, ps4, rfl, h3,
    ps5, ps6, rfl, ⟨tp, rfl, htr, htb⟩, ps7, ps8, rfl, h7, h8⟩
  simp only [bNil] at h3
  subst h3
  -- the type's nesting is bounded by the text
  have hdepth : typeDepth ty < fuelOf (envOf s₀) := by
    obtain ⟨r1, g1, h2⟩ := tSeq_some hq
    obtain ⟨r2, g2, h3⟩ := tSeq_some h2
    obtain ⟨r3, h4, -⟩ := tSeq_some h3
    have d1 : typeDepth ty + r3.length < r2.length := qType_depth _ _ _ _ h4
    have d2 := strict_qVariable _ _ _ g1
    have d3 := strict_punct ':' _ _ _ g2
    have d4 := toks_length_le t.length t (Nat.le_refl _)
    have d5 := hat.len
    simp only [fuelOf, envOf, List.size_toArray]
    omega
  refine ⟨_, rfl, rfl, ?_⟩
  have hty := htb _ hdepth
  have hD1 : (envOf s₀).D.atomicTypeRule = false := rfl
  have hD2 : (envOf s₀).D.varDefDirectivesFirst = false := rfl
  cases odv with
  | none =>
    simp only [bOpt] at h7
    subst h7
    cases ods with
    | none =>
      simp only [bOpt] at h8
      subst h8
      simp [buildVarDef, inner_mk, hvn, buildType, hD1, hD2, hty, nextIf_nil, optDirs_nil, bind, Except.bind,
        pure, Except.pure, normVD, mkVarDef, normDs, expVD, finVD, finDs]
    | some ds =>
      obtain ⟨dp, rfl, hdr, hdb⟩ := h8
      have hne : dp.rule ≠ "default_value" := by rw [hdr]; decide
      cases hf1 : finDs ds <;>
      simp [buildVarDef, inner_mk, hvn, buildType, hD1, hD2, hty, nextIf_miss hne,
        optDirs_hit _ famC (Or.inr rfl) hdr, hdb, bind, Except.bind, pure, Except.pure, normVD, mkVarDef, Except.map,
        expVD, finVD, expDs, hf1]
  | some dv =>
    obtain ⟨vp', cv, rest, rfl, hvr', hin, hvb⟩ := h7
    cases ods with
    | none =>
      simp only [bOpt] at h8
      subst h8
      cases hf2 : finV dv <;>
      simp [buildVarDef, inner_mk, hvn, buildType, hD1, hD2, hty, nextIf_hit hvr', hin, hvb, optDirs_nil, bind,
        Except.bind, pure, Except.pure, normVD, mkVarDef, Except.map, normDs, expVD, finVD, finDs, expV, hf2]
    | some ds =>
      obtain ⟨dp, rfl, hdr, hdb⟩ := h8
      cases hf1 : finDs ds <;> cases hf2 : finV dv <;>
      simp [buildVarDef, inner_mk, hvn, buildType, hD1, hD2, hty, nextIf_hit hvr', hin, hvb,
        optDirs_hit _ famC (Or.inr rfl) hdr, hdb, bind, Except.bind, pure, Except.pure, normVD, mkVarDef, Except.map,
        expVD, finVD, expDs, expV, hf1, hf2]

-- ------------------------------------------------------------------ the list of variable definitions

def qVarDefs (n : Nat) : Sim (List PVarDef) :=
  tMap (fun x => x.2.1) (tSeq (tPunct '(') (tSeq (tRep1 (qVarDef n)) (tPunct ')')))

def bVarDefs : Bld (List PVarDef) := fun s₀ ps vds =>
  ∃ pr, ps = [pr] ∧ pr.rule = "variable_definitions" ∧
    pr.inner.mapM (buildVarDef (envOf s₀)) = if vds.all finVD then .ok (vds.map normVD) else .error .number

theorem reads_vardefs (L : Nat) : Reads L (.ident "variable_definitions") 80 (qVarDefs L) bVarDefs := by
  have hrep := Reads.rep1 (reads_vardef L) (strict_qVarDef L) (by omega)
  have hbody := Reads.seq (Reads.punct L '(' (by decide) 1 (Nat.le_refl _))
    (Reads.seq hrep (Reads.punct L ')' (by decide) 1 (Nat.le_refl _)) (K := 76) (by omega) (by omega) (by omega))
    (K := 77) (by omega) (by omega) (by omega)
  have hrule := Reads.rule vd_rules.2 (r := vdsRule) hbody (K := 80) (by omega)
  refine Reads.map _ hrule ?_
  rintro s₀ ps ⟨⟨⟩, vds, ⟨⟩⟩ ⟨p, p1, inner, rfl, ps1, ps2, rfl, h1, ps3, ps4, rfl, h3, h4⟩
  simp only [bNil] at h1 h4
  subst h1 h4
  refine ⟨_, rfl, rfl, ?_⟩
  simp only [inner_mk, List.nil_append, List.append_nil]
  exact mapM_expN (c := finVD) (nf := normVD) (bMany_all2 (Q := fun s₀ pr v => buildVarDef (envOf s₀) pr = expVD v) h3)

theorem strict_qVarDefs (n : Nat) : Strict (qVarDefs n) :=
  strict_map (strict_seq (strict_punct '(') (mono_seq (strict_rep1 (strict_qVarDef n)).mono (strict_punct ')').mono))
end AGV.Lemmas.PegX
