/-
  C09 — KnownArgumentNames (repaired: `current_args` is reset at a field the parent type does not
  have, `__typename` on a composite type has the empty argument list; the pinned behaviour is the
  toggle `knownArgsStale`) = §5.4.1 Argument Names.  `Machine.run_events_on`: the fold of a stateful
  rule over the walk when it is state-independent only on selections satisfying a predicate (here:
  all of them).
-/
import AGV.Lemmas.ValidateGraphUsages
set_option linter.unusedSectionVars false
set_option linter.unusedSimpArgs false
namespace AGV.Lemmas.ValidateMachine
open AGV.Core AGV.Model.Validate AGV.Lemmas.ValidateWalk

namespace Machine
variable {σ : Type} (M : Machine σ)

theorem run_flatMap_mem {α} (g : α → List Evt) (out : α → List Model.Validate.Kind) (l : List α)
    (h : ∀ s, ∀ x ∈ l, M.run s (g x) = out x) (s : σ) : M.run s (l.flatMap g) = l.flatMap out := by
  induction l generalizing s with
  | nil => simp
  | cons x l ih =>
    simp only [List.flatMap_cons, run_append]
    rw [h s x (by simp), ih (fun s y hy => h s y (by simp [hy]))]

mutual
/-- `run_walkSel` for a rule that is state-independent only on the selections satisfying `G` -/
theorem run_walkSel_on (S : VSchema) (G : Stack → Sel → Prop) (out : Stack → Sel → List Model.Validate.Kind)
    (hpre : ∀ s st sel, G st sel → M.run s (preEvents S st sel) = out st sel)
    (hpost : ∀ s st sel, M.run s (postEvents S st sel) = []) (s : σ) (st : Stack) :
    (sel : Sel) → (∀ v ∈ visitsSel S st sel, G v.1 v.2) →
      M.run s (walkSel S {} st sel) = (visitsSel S st sel).flatMap (fun v => out v.1 v.2)
  | .field al n args ds ss p => by
    intro hG
    have h0 : G st (.field al n args ds ss p) := hG (st, .field al n args ds ss p) (by simp [visitsSel])
    rw [walkSel_eq, run_append, run_append, hpre _ _ _ h0, hpost]
    simp only [childSt, childrenOf, visitsSel, List.flatMap_cons, List.append_nil]
    rw [run_walkSels_on S G out hpre hpost _ _ ss (fun v hv => hG v (by simp [visitsSel, hv]))]
  | .spread n ds p => by
    intro hG
    have h0 : G st (.spread n ds p) := hG (st, .spread n ds p) (by simp [visitsSel])
    rw [walkSel_eq, run_append, run_append, hpre _ _ _ h0, hpost]
    simp [childSt, childrenOf, visitsSel, walkSels]
  | .inline c ds ss p => by
    intro hG
    have h0 : G st (.inline c ds ss p) := hG (st, .inline c ds ss p) (by simp [visitsSel])
    rw [walkSel_eq, run_append, run_append, hpre _ _ _ h0, hpost]
    simp only [childSt, childrenOf, visitsSel, List.flatMap_cons, List.append_nil]
    rw [run_walkSels_on S G out hpre hpost _ _ ss (fun v hv => hG v (by simp [visitsSel, hv]))]
theorem run_walkSels_on (S : VSchema) (G : Stack → Sel → Prop) (out : Stack → Sel → List Model.Validate.Kind)
    (hpre : ∀ s st sel, G st sel → M.run s (preEvents S st sel) = out st sel)
    (hpost : ∀ s st sel, M.run s (postEvents S st sel) = []) (s : σ) (st : Stack) :
    (ss : List Sel) → (∀ v ∈ visitsSels S st ss, G v.1 v.2) →
      M.run s (walkSels S {} st ss) = (visitsSels S st ss).flatMap (fun v => out v.1 v.2)
  | [] => by intro _; simp [walkSels, visitsSels]
  | x :: xs => by
    intro hG
    simp only [walkSels, visitsSels, run_append, List.flatMap_append]
    rw [run_walkSel_on S G out hpre hpost _ _ x (fun v hv => hG v (by simp [visitsSels, hv])),
      run_walkSels_on S G out hpre hpost _ _ xs (fun v hv => hG v (by simp [visitsSels, hv]))]
end

theorem run_events_on (S : VSchema) (d : Doc) (G : Stack → Sel → Prop) (out : Stack → Sel → List Model.Validate.Kind)
    (fout : FragDef → List Model.Validate.Kind) (oout : OpDef → List Model.Validate.Kind)
    (hpre : ∀ s st sel, G st sel → M.run s (preEvents S st sel) = out st sel)
    (hpost : ∀ s st sel, M.run s (postEvents S st sel) = [])
    (hfpre : ∀ s, ∀ f ∈ d.frags, M.run s (fragPre S f) = fout f) (hfpost : ∀ s f, M.run s (fragPost S f) = [])
    (hopre : ∀ s, ∀ o ∈ d.ops, M.run s (opPre S o) = oout o) (hopost : ∀ s o, M.run s (opPost S o) = [])
    (hdoc : ∀ s, (M.step s (Model.Validate.mk [] .enterDoc)).2 = [] ∧ (M.step s (Model.Validate.mk [] .exitDoc)).2 = [])
    (hG : ∀ v ∈ docVisits S d, G v.1 v.2) (s : σ) :
    M.run s (events S {} d) =
      d.frags.flatMap (fun f => fout f ++ (visitsSels S (fragSt S f) f.sels).flatMap (fun v => out v.1 v.2))
      ++ d.ops.flatMap (fun o => oout o ++ (opVisits S o).flatMap (fun v => out v.1 v.2)) := by
  have hf : ∀ s, ∀ f ∈ d.frags, M.run s (walkFrag S {} f) = fout f ++ (visitsSels S (fragSt S f) f.sels).flatMap (fun v => out v.1 v.2) := by
    intro s f hfm
    rw [walkFrag_eq, run_append, run_append, hfpre _ f hfm, hfpost,
      run_walkSels_on M S G out hpre hpost _ _ _ (fun v hv => hG v (by
        simp only [docVisits, List.mem_append, List.mem_flatMap]; exact Or.inl ⟨f, hfm, hv⟩))]
    simp
  have ho : ∀ s, ∀ o ∈ d.ops, M.run s (walkOp S {} o) = oout o ++ (opVisits S o).flatMap (fun v => out v.1 v.2) := by
    intro s o hom
    have hGo : ∀ v ∈ opVisits S o, G v.1 v.2 := fun v hv => hG v (by
      simp only [docVisits, List.mem_append, List.mem_flatMap]; exact Or.inr ⟨o, hom, hv⟩)
    rw [walkOp_eq, run_append, run_append, hopre _ o hom, hopost]
    have : M.run (M.final s (opPre S o)) (opWalk S o) = (opVisits S o).flatMap (fun v => out v.1 v.2) := by
      unfold opWalk
      unfold opVisits at hGo ⊢
      cases hroot : rootOf S o.ty with
      | none => simp
      | some r =>
        simp only [hroot] at hGo ⊢
        exact run_walkSels_on M S G out hpre hpost _ _ _ hGo
    rw [this]; simp
  simp only [events, run_append, run_cons, run_nil, (hdoc _).1, (hdoc _).2, List.nil_append, List.append_nil,
    run_flatMap_mem M _ _ _ hf, run_flatMap_mem M _ _ _ ho]

end Machine
end AGV.Lemmas.ValidateMachine

namespace AGV.Lemmas.ValidateRules
open AGV.Core AGV.Model.Validate AGV.Lemmas.ValidateWalk AGV.Lemmas.ValidateMachine AGV.Lemmas.ValidateSpecNodes
open AGV.Spec.Validate (tyDef fieldType)

abbrev KAState := Option (List ArgDef × Bool)

/-- the argument definitions the repaired rule holds after entering field `n` below `par` -/
def kaDefs (S : VSchema) (par : Option String) (n : String) : Option (List ArgDef) :=
  match par.bind (fun p => S.field? p n) with
  | some f => some f.args
  | none => if n = "__typename" && (match par with | some p => S.isComposite p | none => false) then some [] else none

/-- `KnownArgumentNames` (repaired) as a machine -/
def kaM (S : VSchema) : Machine KAState where
  step cur e := match e.ev with
    | .enterDir dr => ((S.dir? dr.name).map (fun dd => (dd.args, true)), [])
    | .exitDir _ => (none, [])
    | .enterField _ n _ _ _ =>
      ((kaDefs S e.par n).map (fun a => (a, false)), [])
    | .exitField => (none, [])
    | .enterArg n _ =>
      (cur, match cur with
        | some (defs, isDir) => if defs.any (·.name = n) then [] else [if isDir then Kind.unknownArgDir else Kind.unknownArgField]
        | none => [])
    | _ => (cur, [])

theorem ruleKnownArgs_eq (S : VSchema) (cur evs) : ruleKnownArgs S {} cur evs = (kaM S).run cur evs := by
  induction evs generalizing cur with
  | nil => simp [ruleKnownArgs, Machine.run]
  | cons e es ih =>
    rcases e with ⟨ev, c, p⟩
    cases ev with
    | enterField al n args ds ss =>
      cases h : p.bind (fun q => S.field? q n) <;> simp [ruleKnownArgs, Machine.run_cons, kaM, kaDefs, ih, h]
      split <;> simp
    | enterArg n v => rcases cur with _ | ⟨defs, isDir⟩ <;> simp [ruleKnownArgs, Machine.run_cons, kaM, ih]
    | _ => simp [ruleKnownArgs, Machine.run_cons, kaM, ih]

/-- the verdict on one argument name against the current definitions -/
def judgeArg (cur : KAState) (n : String) : List Model.Validate.Kind :=
  match cur with
  | some (defs, isDir) => if defs.any (·.name = n) then [] else [if isDir then Kind.unknownArgDir else Kind.unknownArgField]
  | none => []

def judgeArgs (cur : KAState) (args : List (String × DValue)) : List Model.Validate.Kind := args.flatMap (fun a => judgeArg cur a.1)

theorem kaM_args (S : VSchema) (st defs) (cur : KAState) (args : List (String × DValue)) :
    (kaM S).run cur (walkArgs S {} st defs args) = judgeArgs cur args ∧ (kaM S).final cur (walkArgs S {} st defs args) = cur := by
  induction args with
  | nil => exact ⟨rfl, rfl⟩
  | cons a as ih =>
    rw [walkArgs_cons]
    simp only [Machine.run_cons, Machine.final]
    rw [show (kaM S).step cur (mk st (.enterArg a.1 a.2)) = (cur, judgeArg cur a.1) from rfl]
    simp only []
    rw [show ∀ x, (kaM S).step cur (mk st (.inputVars x)) = (cur, []) from fun _ => rfl,
      show (kaM S).step cur (mk st (.exitArg a.1)) = (cur, []) from rfl]
    simp [ih.1, ih.2, judgeArgs]

def dirsKA (S : VSchema) (ds : List Dir) : List Model.Validate.Kind :=
  ds.flatMap (fun dr => judgeArgs ((S.dir? dr.name).map (fun dd => (dd.args, true))) dr.args)

theorem kaM_dirs (S : VSchema) (st) (cur : KAState) (ds : List Dir) :
    (kaM S).run cur (walkDirs S {} st ds) = dirsKA S ds := by
  induction ds generalizing cur with
  | nil => rfl
  | cons dr ds ih =>
    rw [walkDirs_cons]
    simp only [Machine.run_cons, Machine.run_append, dirsKA, List.flatMap_cons] at ih ⊢
    rw [show (kaM S).step cur (mk st (.enterDir dr)) = ((S.dir? dr.name).map (fun dd => (dd.args, true)), []) from rfl]
    simp only [List.nil_append, (kaM_args S st _ _ dr.args).1, (kaM_args S st _ _ dr.args).2]
    rw [show ∀ s, (kaM S).step s (mk st (.exitDir dr)) = (none, []) from fun _ => rfl]
    simp [ih]

def notKAEv (e : Evt) : Bool := match e.ev with | .enterArg .. => false | _ => true
theorem kaM_silent (S : VSchema) (s e) (h : notKAEv e = true) : ((kaM S).step s e).2 = [] := by
  rcases e with ⟨ev, c, p⟩
  cases ev <;> simp_all [kaM, notKAEv]

theorem notKAEv_enterSet (st ss) : (enterSetEv st ss).all notKAEv = true := by
  cases ss <;> simp [enterSetEv, notKAEv, mk]
theorem notKAEv_exitSet (st ss) : (exitSetEv st ss).all notKAEv = true := by
  cases ss <;> simp [exitSetEv, notKAEv, mk]
theorem notKAEv_post (S : VSchema) (st sel) : (postEvents S st sel).all notKAEv = true := by
  cases sel <;> simp [postEvents, notKAEv_exitSet] <;> simp [notKAEv, mk]

/-- what `KnownArgumentNames` reports at one selection -/
def nodeKA (S : VSchema) (st : Stack) : Sel → List Model.Validate.Kind
  | .field _ n args ds _ _ => judgeArgs ((kaDefs S (Stack.cur st) n).map (fun a => (a, false))) args ++ dirsKA S ds
  | .spread _ ds _ => dirsKA S ds
  | .inline _ ds _ _ => dirsKA S ds

theorem kaM_pre (S : VSchema) (s st sel) : (kaM S).run s (preEvents S st sel) = nodeKA S st sel := by
  cases sel with
  | field al n args ds ss p =>
    simp only [preEvents, Machine.run_cons, Machine.run_append, kaM_dirs, nodeKA]
    rw [show (kaM S).step s (mk st .enterSel) = (s, []) from rfl]
    simp only [List.nil_append]
    rw [Machine.silent (kaM S) notKAEv (kaM_silent S) _ (notKAEv_enterSet _ _)]
    simp only [List.append_nil]
    have hstep : (kaM S).step s (mk (fieldTy S st n :: st) (.enterField al n args ds ss)) =
        ((kaDefs S (Stack.cur st) n).map (fun a => (a, false)), []) := by
      simp only [kaM, mk, par_cons]
    rw [hstep]
    simp only [List.nil_append, (kaM_args S _ _ _ args).1]
  | spread n ds p =>
    simp only [preEvents, Machine.run_cons, Machine.run_append, kaM_dirs, nodeKA, Machine.run_nil]
    simp [kaM, mk]
  | inline c ds ss p =>
    simp only [preEvents, Machine.run_cons, Machine.run_append, kaM_dirs, nodeKA,
      Machine.silent (kaM S) notKAEv (kaM_silent S) _ (notKAEv_enterSet _ _)]
    simp [kaM, mk]

def opKA (S : VSchema) (o : OpDef) : List Model.Validate.Kind :=
  match rootOf S o.ty with
  | some _ => dirsKA S o.dirs
  | none => []

theorem ruleKnownArgs_events (S : VSchema) (d : Doc) :
    ruleKnownArgs S {} none (events S {} d) =
      d.frags.flatMap (fun f => dirsKA S f.dirs ++ (visitsSels S (fragSt S f) f.sels).flatMap (fun v => nodeKA S v.1 v.2))
      ++ d.ops.flatMap (fun o => opKA S o ++ (opVisits S o).flatMap (fun v => nodeKA S v.1 v.2)) := by
  rw [ruleKnownArgs_eq,
    Machine.run_events_on (kaM S) S d (fun _ _ => True) (nodeKA S) (fun f => dirsKA S f.dirs) (opKA S)
      (fun s st sel _ => kaM_pre S s st sel)
      (fun s st sel => Machine.silent (kaM S) notKAEv (kaM_silent S) _ (notKAEv_post S st sel) s)]
  · intro s f _
    simp only [fragPre, Machine.run_cons, Machine.run_append, kaM_dirs,
      Machine.silent (kaM S) notKAEv (kaM_silent S) _ (notKAEv_enterSet _ _)]
    simp [kaM, mk]
  · intro s f
    exact Machine.silent (kaM S) notKAEv (kaM_silent S) _ (by simp [fragPost, notKAEv_exitSet]; simp [notKAEv, mk]) s
  · intro s o _
    unfold opPre opKA
    cases rootOf S o.ty with
    | none => simp [kaM, mk]
    | some r =>
      simp only [Machine.run_cons, Machine.run_append, kaM_dirs,
        Machine.silent (kaM S) notKAEv (kaM_silent S) _ (notKAEv_enterSet _ _)]
      rw [Machine.silent (kaM S) notKAEv (kaM_silent S) (varEvents _ _) (by simp [varEvents, List.all_flatMap, notKAEv, mk])]
      simp [kaM, mk]
  · intro s o
    exact Machine.silent (kaM S) notKAEv (kaM_silent S) _ (by unfold opPost; cases rootOf S o.ty <;> simp [notKAEv_exitSet] <;> simp [notKAEv, mk]) s
  · intro s; simp [kaM, mk]
  · intro _ _; trivial

end AGV.Lemmas.ValidateRules

namespace AGV.Lemmas.ValidateRules
open AGV.Core AGV.Model.Validate AGV.Lemmas.ValidateWalk AGV.Lemmas.ValidateMachine AGV.Lemmas.ValidateSpecNodes
open AGV.Spec.Validate (tyDef fieldType violates_ArgumentNames argSites)

/-- §5.4.1 at one argument site -/
def siteUnknown (s : Option (List ArgDef) × List (String × DValue)) : Bool :=
  match s.1 with
  | some defs => s.2.any (fun a => !(defs.any (·.name = a.1)))
  | none => false

theorem argumentNames_eq (S : VSchema) (d : Doc) : violates_ArgumentNames S d = (argSites S d).any siteUnknown := by
  unfold violates_ArgumentNames
  congr 1

/-- some argument is reported -/
def hasKA (l : List Model.Validate.Kind) : Prop := Kind.unknownArgField ∈ l ∨ Kind.unknownArgDir ∈ l

theorem hasKA_append (a b) : hasKA (a ++ b) ↔ hasKA a ∨ hasKA b := by
  simp only [hasKA, List.mem_append]; constructor <;> (intro h; rcases h with (h|h)|(h|h) <;> simp [h])

theorem hasKA_judgeArgs (defs : Option (List ArgDef)) (b : Bool) (args : List (String × DValue)) :
    hasKA (judgeArgs (defs.map (fun a => (a, b))) args) ↔ siteUnknown (defs, args) = true := by
  cases defs with
  | none => simp [hasKA, judgeArgs, judgeArg, siteUnknown]
  | some ds =>
    simp only [hasKA, judgeArgs, judgeArg, siteUnknown, Option.map_some, List.mem_flatMap, List.any_eq_true,
      Bool.not_eq_true']
    constructor
    · rintro (⟨a, ha, h⟩ | ⟨a, ha, h⟩)
      · split at h
        · cases h
        · rename_i hne; exact ⟨a, ha, by simpa using hne⟩
      · split at h
        · cases h
        · rename_i hne; exact ⟨a, ha, by simpa using hne⟩
    · rintro ⟨a, ha, h⟩
      have hne : ¬ ∃ x, x ∈ ds ∧ decide (x.name = a.1) = true := by simpa using h
      cases b
      · left; exact ⟨a, ha, by rw [if_neg hne]; simp⟩
      · right; exact ⟨a, ha, by rw [if_neg hne]; simp⟩

theorem hasKA_dirsKA (S : VSchema) (ds : List Dir) : hasKA (dirsKA S ds) ↔ (dirSites S ds).any siteUnknown = true := by
  induction ds with
  | nil => simp [hasKA, dirsKA, dirSites]
  | cons dr ds ih =>
    have h1 : dirsKA S (dr :: ds) = judgeArgs (((S.dir? dr.name).map (·.args)).map (fun a => (a, true))) dr.args ++ dirsKA S ds := by
      simp [dirsKA, Option.map_map, Function.comp_def]
    rw [h1, hasKA_append, hasKA_judgeArgs, ih]
    simp [dirSites, VSchema.dir?]

theorem kaDefs_agree (S : VSchema) (hT : TypedSchema S) (hSC : Spec.Validate.composite S "String" = false)
    (cur parent : Option String) (n : String) (h : TyRel cur parent) :
    kaDefs S cur n = (parent.bind (fun p => fieldType S p n)).map (·.2) := by
  unfold kaDefs
  by_cases hn' : n = "__typename"
  · subst hn'
    have hnf : cur.bind (fun p => S.field? p "__typename") = none := by
      cases cur <;> simp [hT.noTypenameField]
    rw [hnf]
    rcases h with h | ⟨h1, h2⟩
    · subst h
      cases cur with
      | none => simp
      | some p =>
        simp only [Option.bind_some, fieldType, isComposite_eq, if_true, Bool.true_and, decide_true]
        cases Spec.Validate.composite S p <;> simp
    · subst h1; subst h2
      simp [isComposite_eq, hSC]
  · rcases h with h | ⟨h1, h2⟩
    · subst h
      cases cur with
      | none => simp [hn']
      | some p =>
        simp only [Option.bind_some, ← field?_eq_fieldType S p n hn']
        cases S.field? p n <;> simp [hn']
    · subst h1; subst h2
      simp [hT.stringNoFields n, hn']

theorem ka_agree (S : VSchema) (hT : TypedSchema S) (hSC : Spec.Validate.composite S "String" = false)
    (st : Stack) (parent : Option String) (s : Sel) (h : TyRel (Stack.cur st) parent) :
    hasKA (nodeKA S st s) ↔ (selSites S (parent, s)).any siteUnknown = true := by
  cases s with
  | spread n ds p => simp [nodeKA, selSites, hasKA_dirsKA]
  | inline c ds ss p => simp [nodeKA, selSites, hasKA_dirsKA]
  | field al n args ds ss p =>
    simp only [nodeKA, selSites, List.any_cons, Bool.or_eq_true, hasKA_append, hasKA_dirsKA, hasKA_judgeArgs]
    rw [kaDefs_agree S hT hSC _ _ n h]

/-- KnownArgumentNames (repaired) = §5.4.1 Argument Names -/
theorem rule_known_argument_names (S : VSchema) (d : Doc) (hT : TypedSchema S) (hSC : Spec.Validate.composite S "String" = false)
    (hs : Served S d) (hr : RootsExist S d) :
    hasKA (ruleKnownArgs S {} none (events S {} d)) ↔ violates_ArgumentNames S d = true := by
  have hspec : violates_ArgumentNames S d = true ↔
      (∃ w ∈ specDocVisits S d, (selSites S w).any siteUnknown = true)
        ∨ (∃ o ∈ d.ops, (dirSites S o.dirs).any siteUnknown = true)
        ∨ (∃ f ∈ d.frags, (dirSites S f.dirs).any siteUnknown = true) := by
    simp only [argumentNames_eq, argSites_eq, List.any_append, List.any_flatMap, Bool.or_eq_true, List.any_eq_true, or_assoc]
  rw [hspec, ← typed_exists S d hT hs hr (fun v => hasKA (nodeKA S v.1 v.2))
    (fun w => (selSites S w).any siteUnknown = true)
    (fun st parent s h => ka_agree S hT hSC st parent s h)]
  rw [ruleKnownArgs_events S d]
  have hmem : ∀ k, k ∈ (d.frags.flatMap (fun f => dirsKA S f.dirs ++ (visitsSels S (fragSt S f) f.sels).flatMap (fun v => nodeKA S v.1 v.2))
      ++ d.ops.flatMap (fun o => opKA S o ++ (opVisits S o).flatMap (fun v => nodeKA S v.1 v.2))) ↔ _ :=
    fun k => mem_folded (S := S) (d := d) (nodeKA S) (fun f => dirsKA S f.dirs) (opKA S) k
  have hop : ∀ o ∈ d.ops, opKA S o = dirsKA S o.dirs := by
    intro o ho
    have := hs o ho
    unfold opKA; cases hroot : rootOf S o.ty <;> simp_all
  unfold hasKA
  rw [hmem, hmem]
  constructor
  · rintro ((⟨f, hf, h⟩ | ⟨o, ho, h⟩ | ⟨v, hv, h⟩) | (⟨f, hf, h⟩ | ⟨o, ho, h⟩ | ⟨v, hv, h⟩))
    · exact Or.inr (Or.inr ⟨f, hf, (hasKA_dirsKA S f.dirs).mp (Or.inl h)⟩)
    · exact Or.inr (Or.inl ⟨o, ho, (hasKA_dirsKA S o.dirs).mp (Or.inl (hop o ho ▸ h))⟩)
    · exact Or.inl ⟨v, hv, Or.inl h⟩
    · exact Or.inr (Or.inr ⟨f, hf, (hasKA_dirsKA S f.dirs).mp (Or.inr h)⟩)
    · exact Or.inr (Or.inl ⟨o, ho, (hasKA_dirsKA S o.dirs).mp (Or.inr (hop o ho ▸ h))⟩)
    · exact Or.inl ⟨v, hv, Or.inr h⟩
  · rintro (⟨v, hv, h | h⟩ | ⟨o, ho, h⟩ | ⟨f, hf, h⟩)
    · exact Or.inl (Or.inr (Or.inr ⟨v, hv, h⟩))
    · exact Or.inr (Or.inr (Or.inr ⟨v, hv, h⟩))
    · rcases (hasKA_dirsKA S o.dirs).mpr h with h | h
      · exact Or.inl (Or.inr (Or.inl ⟨o, ho, hop o ho ▸ h⟩))
      · exact Or.inr (Or.inr (Or.inl ⟨o, ho, hop o ho ▸ h⟩))
    · rcases (hasKA_dirsKA S f.dirs).mpr h with h | h
      · exact Or.inl (Or.inl ⟨f, hf, h⟩)
      · exact Or.inr (Or.inl ⟨f, hf, h⟩)

end AGV.Lemmas.ValidateRules
