/-
  Lemmas for the request level of property C06, variables INSIDE literals (part 2): coercion
  commutes with substitution.  The code parses a literal with the RAW variable values in it
  (`resolve`), the specification coerces the literal with the COERCED values in it (`subst`); for a
  valid literal the two vanish alike, fail alike or denote the same Rust value (`lit_sim`, by
  structural induction on the literal; `Sim`, `sim_list`, `sim_obj`), hence one argument
  (`paramValue_eq_nested`); validation — the constant reading `toConst` (`toConst_resolve`) and the
  repaired reading around unsupplied variables `isValidP` (`validP_of`) — refuses an argument only
  when its coercion fails (`argInvalid_coerceArg_nested`); the root fields (`ReqBase.root_eq`,
  `ReqBase.root_invalid`).
-/
import AGV.Lemmas.CoerceIdem

namespace AGV.Lemmas.Coerce
open AGV.Core
open AGV.Spec.Coerce
open AGV.Model.Coerce

-- ------------------------------------------------------------------ raw values vs. coerced values in a literal

/-- `x` (a literal with the RAW variable values in it, coerced as JSON) and `y` (the literal with
    the COERCED variable values in it, coerced as a literal) fail alike or denote the same Rust value -/
def Sim (T : Table) (rty : RTy) (x y : GValue) : Prop :=
  (coerce T true rty.gql x).map (view T rty) = (coerce T false rty.gql y).map (view T rty) ∧
  (x = .null ↔ y = .null)

def SimL (T : Table) (t : RTy) (xs ys : List GValue) : Prop :=
  (coerceList T true t.gql xs).map (viewList T t) = (coerceList T false t.gql ys).map (viewList T t)

/-- entries with the same keys, all declared, pairwise `Sim` at the type the entry is parsed at -/
def SimE (T : Table) (o : Bool) (fields : List InField) :
    List (String × GValue) → List (String × GValue) → Prop
  | [], [] => True
  | (k, x) :: xs, (k', y) :: ys =>
    k = k' ∧ (∃ f, fields.find? (·.name = k) = some f ∧ Sim T (tyOf o f) x y) ∧ SimE T o fields xs ys
  | _, _ => False

theorem sim_null (T : Table) (rty : RTy) : Sim T rty .null .null := by
  simp [Sim, coerce]

theorem simL_cons (T : Table) (t : RTy) (x y : GValue) (xs ys : List GValue)
    (h1 : Sim T t x y) (h2 : SimL T t xs ys) : SimL T t (x :: xs) (y :: ys) := by
  unfold SimL at h2 ⊢
  have h1 := h1.1
  simp only [coerceList]
  cases ha : coerce T true t.gql x <;> cases hb : coerce T false t.gql y <;> simp [ha, hb] at h1
  · simp
  · cases hc : coerceList T true t.gql xs <;> cases hd : coerceList T false t.gql ys <;> simp [hc, hd] at h2
    · simp
    · simp [viewList, h1, h2]

theorem sim_list (T : Table) (rty u : RTy) (hn : rty.gql.nullable = .list u.gql) (hi : rty.item = u)
    (xs ys : List GValue) (h : SimL T u xs ys) : Sim T rty (.list xs) (.list ys) := by
  refine ⟨?_, by simp⟩
  unfold SimL at h
  simp only [coerce, hn]
  cases hc : coerceList T true u.gql xs <;> cases hd : coerceList T false u.gql ys <;> simp [hc, hd] at h
  · simp
  · simp [view, hi, h]

/-- the provided entries: alike coercible, with equal views -/
theorem simE_entries (T : Table) (fields : List InField) : ∀ (xs ys : List (String × GValue)),
    SimE T false fields xs ys →
    (coerceEntries T true fields xs).map (viewEntries T fields) =
      (coerceEntries T false fields ys).map (viewEntries T fields)
  | [], [], _ => by simp [coerceEntries]
  | [], _ :: _, h => by simp [SimE] at h
  | _ :: _, [], h => by simp [SimE] at h
  | (k, x) :: xs, (k', y) :: ys, h => by
    simp only [SimE] at h
    obtain ⟨rfl, ⟨f, hf, hs⟩, hrest⟩ := h
    have ih := simE_entries T fields xs ys hrest
    have h1 := hs.1
    simp only [tyOf, Bool.false_eq_true, if_false] at h1
    simp only [coerceEntries, hf]
    cases ha : coerce T true f.ty.gql x <;> cases hb : coerce T false f.ty.gql y <;> simp [ha, hb] at h1
    · simp
    · cases hc : coerceEntries T true fields xs <;> cases hd : coerceEntries T false fields ys <;>
        simp [hc, hd] at ih
      · simp
      · simp [viewEntries, hf, h1, ih]

theorem simE_length (T : Table) (o : Bool) (fields : List InField) : ∀ (xs ys : List (String × GValue)),
    SimE T o fields xs ys → xs.length = ys.length
  | [], [], _ => rfl
  | [], _ :: _, h => by simp [SimE] at h
  | _ :: _, [], h => by simp [SimE] at h
  | (k, x) :: xs, (k', y) :: ys, h => by
    simp only [SimE] at h
    simp [simE_length T o fields xs ys h.2.2]

theorem finishOneOf_long (es : List (String × GValue)) (h : es.length ≠ 1) : finishOneOf es = none := by
  cases es with
  | nil => rfl
  | cons a es =>
    cases es with
    | nil => simp at h
    | cons b es => exact finishOneOf_two a b es

theorem oneOf_long (T : Table) (j : Bool) (fields : List InField) (fs es : List (String × GValue))
    (h : fs.length ≠ 1) (hc : coerceEntries T j fields fs = some es) : finishOneOf es = none := by
  have := coerceEntries_length T j fields fs es hc
  exact finishOneOf_long es (by rw [this]; exact h)

theorem sim_obj (T : Table) (hwf : wfTable T = true) (rty : RTy) (o : Bool) (fields : List InField)
    (hfind : T.find? rty.base = some (.input o fields)) (xs ys : List (String × GValue))
    (h : SimE T o fields xs ys) : Sim T rty (.obj xs) (.obj ys) := by
  refine ⟨?_, by simp⟩
  have hwd := wfTable_find hwf hfind
  simp only [wfDef, Bool.and_eq_true] at hwd
  have hview : ∀ r, view T rty (wrap rty.gql (.obj r)) = wrapVec rty (view T rty (.obj r)) :=
    fun r => view_wrap T (.obj r) rfl rty
  simp only [coerce, gql_base, hfind]
  cases o with
  | false =>
    have he := simE_entries T fields xs ys h
    simp only [Bool.false_eq_true, if_false]
    cases hc : coerceEntries T true fields xs <;> cases hd : coerceEntries T false fields ys <;>
      simp [hc, hd] at he
    · simp
    · rename_i esx esy
      have := finishFields_view T fields hwd.1 esx esy he
      simp only [Option.map_map]
      cases h1 : finishFields fields esx <;> cases h2 : finishFields fields esy <;> simp [h1, h2] at this
      · simp
      · simp [hview, view, hfind, this]
  | true =>
    simp only [if_true]
    have hlen := simE_length T true fields xs ys h
    by_cases h1 : xs.length = 1
    · have h2 : ys.length = 1 := hlen ▸ h1
      cases xs with
      | nil => simp at h1
      | cons ex xs =>
        cases xs with
        | cons _ _ => simp at h1
        | nil =>
          cases ys with
          | nil => simp at h2
          | cons ey ys =>
            cases ys with
            | cons _ _ => simp at h2
            | nil =>
              obtain ⟨k, x⟩ := ex
              obtain ⟨k', y⟩ := ey
              simp only [SimE] at h
              obtain ⟨rfl, ⟨f, hf, hs⟩, _⟩ := h
              simp only [coerceEntries, hf]
              by_cases hx : x = .null
              · have hy := hs.2.mp hx
                subst hx; subst hy
                simp only [coerce]
              · have hy : y ≠ .null := fun e => hx (hs.2.mpr e)
                have h1 := hs.1
                simp only [tyOf, if_true] at h1
                rw [coerce_congr T true (stripOpt f.ty).gql f.ty.gql x hx (stripOpt_gql f.ty).1,
                  coerce_congr T false (stripOpt f.ty).gql f.ty.gql y hy (stripOpt_gql f.ty).1] at h1
                cases ha : coerce T true f.ty.gql x <;> cases hb : coerce T false f.ty.gql y <;>
                  simp [ha, hb] at h1
                · simp
                · rename_i a b
                  have hane := coerce_ne_null T true _ x a hx ha
                  have hbne := coerce_ne_null T false _ y b hy hb
                  simp only [view_stripOpt] at h1
                  simp [finishOneOf_one k a hane, finishOneOf_one k b hbne, hview, view, hfind, viewEntries, hf, h1]
    · have fx := oneOf_long T true fields xs
      have fy := oneOf_long T false fields ys
      cases hc : coerceEntries T true fields xs <;> cases hd : coerceEntries T false fields ys
      · rfl
      · simp [fy _ (hlen ▸ h1) hd]
      · simp [fx _ h1 hc]
      · simp [fy _ (hlen ▸ h1) hd, fx _ h1 hc]

-- ------------------------------------------------------------------ small facts

theorem nodupB_iff (l : List String) : nodupB l = true ↔ l.Nodup := by
  induction l with
  | nil => simp [nodupB]
  | cons x xs ih => simp [nodupB, List.nodup_cons, ih]

theorem nodupB_sublist (l l' : List String) (h : List.Sublist l' l) (hn : nodupB l = true) : nodupB l' = true :=
  (nodupB_iff l').mpr (((nodupB_iff l).mp hn).sublist h)

theorem nonNull_eq (ty : TypeRef) (h : ty.isNonNull = true) : ty = .nonNull ty.nullable := by
  cases ty <;> simp_all [TypeRef.isNonNull, TypeRef.nullable]

/-- the type a oneof variant's literal is checked at is the type it is parsed at -/
theorem oneOf_litTy (f : InField) (h : (stripOpt f.ty).gql.isNonNull = true) :
    TypeRef.nonNull f.ty.gql.nullable = (stripOpt f.ty).gql := by
  rw [nonNull_eq _ h, (stripOpt_gql f.ty).1]

theorem wf_oneOf {T : Table} (hwf : wfTable T = true) {n : String} {fields : List InField}
    (hf : T.find? n = some (.input true fields)) : ∀ f ∈ fields, (stripOpt f.ty).gql.isNonNull = true := by
  have hwd := wfTable_find hwf hf
  simp only [wfDef, Bool.and_eq_true] at hwd
  simpa using hwd.2

theorem resolve_var_none (defs : List VarDef) (raw : List (String × GValue)) (dv : DValue)
    (h : resolve defs raw dv = none) : ∃ n, dv = .var n := by
  cases dv <;> simp [resolve] at h
  exact ⟨_, rfl⟩

-- ------------------------------------------------------------------ a variable at a position of a literal

/-- a variable with a runtime value, at a position it may be used in: the raw value and the
    coerced value are alike there -/
theorem sim_var (T : Table) (hw : wfTable2 T = true) (hdc : defaultsCoerced T) (vd : VarDef) (rty : RTy)
    (hd : Bool) (hu : usageAllowed vd rty.gql hd = true) (v c : GValue)
    (hc : coerce T true vd.ty v = some c) (hk : distinctKeys v = true) :
    Sim T rty v c ∧ shapeOk T rty.gql v = true := by
  by_cases hv : v = .null
  · subst hv
    have := coerce_null_inv T true _ c hc
    subst this
    exact ⟨sim_null T rty, by simp [shapeOk]⟩
  · have hc' := usage_coerce T true vd rty.gql hd v c hu hv hc
    have hcne := coerce_ne_null T true _ v c hv hc
    obtain ⟨c', hc'', hvw⟩ := coerce_reco T (wfTable2_wf hw) hdc true v rty c hc'
    refine ⟨⟨by simp [hc', hc'', hvw], by simp [hv, hcne]⟩, coerce_shapeOk T true v rty.gql c hc' hk⟩

theorem sim_leaf (T : Table) (rty : RTy) (w : GValue) (hl : isLeaf w = true)
    (h : (coerceLeaf T false rty.gql.base w).isSome = true) : Sim T rty w w := by
  obtain ⟨g, hg⟩ := Option.isSome_iff_exists.mp h
  have hg' := coerceLeaf_mono T _ w g hg
  refine ⟨?_, by simp⟩
  cases w <;> simp_all [isLeaf, coerce]

-- ------------------------------------------------------------------ the literal, by structural induction

mutual
/-- **Coercion commutes with substitution**, for a valid literal at a declared type: the
    literal with the RAW values of its variables (what the code parses) and the literal with their
    COERCED values (what the specification coerces) vanish alike, fail alike, or denote the same
    Rust value; and the former is a map with declared keys at every input object -/
theorem lit_sim (T : Table) (hw : wfTable2 T = true) (hdc : defaultsCoerced T)
    (defs : List VarDef) (raw vars : List (String × GValue)) (C : VarCtx T defs raw vars) :
    ∀ (dv : DValue) (rty : RTy) (hd : Bool), litOk T defs rty.gql hd dv = true →
      (resolve defs raw dv = none → subst vars dv = none) ∧
      (∀ x, resolve defs raw dv = some x →
        ∃ y, subst vars dv = some y ∧ Sim T rty x y ∧ shapeOk T rty.gql x = true)
  | .var n, rty, hd, h => by
    simp only [litOk] at h
    cases hfind : defs.find? (·.name = n) with
    | none => simp [hfind] at h
    | some vd =>
      simp only [hfind] at h
      have hvd : vd ∈ defs := List.mem_of_find?_eq_some hfind
      obtain ⟨hnone, hsome⟩ := coerceVars_lookup T raw defs vars C.nodup C.cv n vd hfind
      simp only [resolve, subst, varValue_find defs raw n vd hfind]
      refine ⟨hnone, ?_⟩
      intro x hx
      obtain ⟨c, hc, hl⟩ := hsome x hx
      exact ⟨c, hl, sim_var T hw hdc vd rty hd h x c hc (effVal_keys C vd hvd x hx)⟩
  | .null, rty, _, _ => by
    simp only [resolve, subst]
    refine ⟨by simp, ?_⟩
    intro x hx; cases hx
    exact ⟨.null, rfl, sim_null T rty, by simp [shapeOk]⟩
  | .int i, rty, _, h => by
    simp only [litOk] at h
    simp only [resolve, subst]
    refine ⟨by simp, ?_⟩
    intro x hx; cases hx
    exact ⟨_, rfl, sim_leaf T rty _ rfl h, by simp [shapeOk]⟩
  | .float i, rty, _, h => by
    simp only [litOk] at h
    simp only [resolve, subst]
    refine ⟨by simp, ?_⟩
    intro x hx; cases hx
    exact ⟨_, rfl, sim_leaf T rty _ rfl h, by simp [shapeOk]⟩
  | .str i, rty, _, h => by
    simp only [litOk] at h
    simp only [resolve, subst]
    refine ⟨by simp, ?_⟩
    intro x hx; cases hx
    exact ⟨_, rfl, sim_leaf T rty _ rfl h, by simp [shapeOk]⟩
  | .bool i, rty, _, h => by
    simp only [litOk] at h
    simp only [resolve, subst]
    refine ⟨by simp, ?_⟩
    intro x hx; cases hx
    exact ⟨_, rfl, sim_leaf T rty _ rfl h, by simp [shapeOk]⟩
  | .enum i, rty, _, h => by
    simp only [litOk] at h
    simp only [resolve, subst]
    refine ⟨by simp, ?_⟩
    intro x hx; cases hx
    exact ⟨_, rfl, sim_leaf T rty _ rfl h, by simp [shapeOk]⟩
  | .list xs, rty, _, h => by
    simp only [litOk] at h
    simp only [resolve, subst]
    refine ⟨by simp, ?_⟩
    intro x hx; cases hx
    refine ⟨_, rfl, ?_⟩
    obtain ⟨h1, h2, h3, h4⟩ := gql_nullable_core rty
    cases hcore : rty.core with
    | vec u =>
      obtain ⟨hn, hi⟩ := h1 u hcore
      simp only [hn] at h
      obtain ⟨hs, hsh⟩ := lit_simList T hw hdc defs raw vars C xs u h
      exact ⟨sim_list T rty u hn hi _ _ hs, by simp [shapeOk, hn, hsh]⟩
    | named n => simp [h2 n hcore] at h
    | opt u => exact absurd hcore (h3 u)
    | mu u => exact absurd hcore (h4 u)
  | .obj fs, rty, _, h => by
    simp only [litOk, gql_base] at h
    simp only [resolve, subst]
    refine ⟨by simp, ?_⟩
    intro x hx; cases hx
    refine ⟨_, rfl, ?_⟩
    cases hfind : T.find? rty.base with
    | none => simp [hfind] at h
    | some d =>
      cases d with
      | scalar => simp [hfind] at h
      | enum vs => simp [hfind] at h
      | input o fields =>
        simp only [hfind, Bool.and_eq_true] at h
        obtain ⟨⟨hnd, hent⟩, _⟩ := h
        obtain ⟨hs, hsh, hsub⟩ := lit_simEntries T hw hdc defs raw vars C fs o fields
          (fun f hf ho => wf_oneOf (wfTable2_wf hw) (ho ▸ hfind) f hf) hent
        exact ⟨sim_obj T (wfTable2_wf hw) rty o fields hfind _ _ hs,
          by simp [shapeOk, gql_base, hfind, hsh, nodupB_sublist _ _ hsub hnd]⟩
theorem lit_simList (T : Table) (hw : wfTable2 T = true) (hdc : defaultsCoerced T)
    (defs : List VarDef) (raw vars : List (String × GValue)) (C : VarCtx T defs raw vars) :
    ∀ (xs : List DValue) (t : RTy), litOkList T defs t.gql xs = true →
      SimL T t (resolveList defs raw xs) (substList vars xs) ∧
      shapeOkList T t.gql (resolveList defs raw xs) = true
  | [], t, _ => by simp [SimL, resolveList, substList, coerceList, shapeOkList]
  | x :: xs, t, h => by
    simp only [litOkList, Bool.and_eq_true] at h
    obtain ⟨h1, h2⟩ := lit_sim T hw hdc defs raw vars C x t false h.1
    obtain ⟨ih1, ih2⟩ := lit_simList T hw hdc defs raw vars C xs t h.2
    simp only [resolveList, substList, shapeOkList, Bool.and_eq_true]
    cases hr : resolve defs raw x with
    | none =>
      simp only [h1 hr, Option.getD_none]
      exact ⟨simL_cons T t _ _ _ _ (sim_null T t) ih1, by simp [shapeOk], ih2⟩
    | some a =>
      obtain ⟨y, hy, hs, hsh⟩ := h2 a hr
      simp only [hy, Option.getD_some]
      exact ⟨simL_cons T t _ _ _ _ hs ih1, hsh, ih2⟩
theorem lit_simEntries (T : Table) (hw : wfTable2 T = true) (hdc : defaultsCoerced T)
    (defs : List VarDef) (raw vars : List (String × GValue)) (C : VarCtx T defs raw vars) :
    ∀ (fs : List (String × DValue)) (o : Bool) (fields : List InField),
      (∀ f ∈ fields, o = true → (stripOpt f.ty).gql.isNonNull = true) →
      litOkEntries T defs o fields fs = true →
      SimE T o fields (resolveFields defs raw fs) (substFields vars fs) ∧
      shapeOkEntries T fields (resolveFields defs raw fs) = true ∧
      List.Sublist ((resolveFields defs raw fs).map (·.1)) (fs.map (·.1))
  | [], o, fields, _, _ => by simp [SimE, resolveFields, substFields, shapeOkEntries]
  | (k, v) :: rest, o, fields, hty, h => by
    simp only [litOkEntries, Bool.and_eq_true] at h
    obtain ⟨ih1, ih2, ih3⟩ := lit_simEntries T hw hdc defs raw vars C rest o fields hty h.2
    cases hf : fields.find? (·.name = k) with
    | none => simp [hf] at h
    | some f =>
      have hlit : ∃ hd, litOk T defs (tyOf o f).gql hd v = true := by
        have h1 := h.1
        simp only [hf] at h1
        cases o with
        | false => exact ⟨_, by simpa [tyOf] using h1⟩
        | true =>
          simp only [if_true] at h1
          rw [oneOf_litTy f (hty f (find_name hf).2 rfl)] at h1
          exact ⟨_, by simpa [tyOf] using h1⟩
      obtain ⟨hd, hlit⟩ := hlit
      obtain ⟨h1, h2⟩ := lit_sim T hw hdc defs raw vars C v (tyOf o f) hd hlit
      simp only [resolveFields, substFields]
      cases hr : resolve defs raw v with
      | none =>
        simp only [h1 hr]
        exact ⟨ih1, ih2, by simpa using ih3.cons k⟩
      | some a =>
        obtain ⟨y, hy, hs, hsh⟩ := h2 a hr
        simp only [hy]
        refine ⟨by simp only [SimE]; exact ⟨trivial, ⟨f, hf, hs⟩, ih1⟩, ?_, by simpa using ih3.cons_cons k⟩
        rw [shapeOk_tyOf] at hsh
        simp [shapeOkEntries, hf, hsh, ih2]
end

-- ------------------------------------------------------------------ the validator's reading of a literal

mutual
/-- when every variable of a valid literal is supplied, the constant the validator checks is the
    value the resolver parses -/
theorem toConst_resolve (T : Table) (defs : List VarDef) (raw : List (String × GValue)) :
    ∀ (dv : DValue) (ty : TypeRef) (hd : Bool) (c : GValue), litOk T defs ty hd dv = true →
      toConst raw dv = some c → resolve defs raw dv = some c
  | .var n, ty, hd, c, h, ht => by
    simp only [litOk] at h
    cases hfind : defs.find? (·.name = n) with
    | none => simp [hfind] at h
    | some vd =>
      have hn : vd.name = n := (by simpa using List.find?_some hfind)
      simp only [toConst] at ht
      simp [resolve, varValue_find defs raw n vd hfind, effVal, hn, ht]
  | .null, _, _, c, _, ht => by simpa [toConst, resolve] using ht
  | .int _, _, _, c, _, ht => by simpa [toConst, resolve] using ht
  | .float _, _, _, c, _, ht => by simpa [toConst, resolve] using ht
  | .str _, _, _, c, _, ht => by simpa [toConst, resolve] using ht
  | .bool _, _, _, c, _, ht => by simpa [toConst, resolve] using ht
  | .enum _, _, _, c, _, ht => by simpa [toConst, resolve] using ht
  | .list xs, ty, _, c, h, ht => by
    simp only [litOk] at h
    simp only [toConst, Option.map_eq_some_iff] at ht
    obtain ⟨cs, hcs, rfl⟩ := ht
    split at h
    · rename_i t _
      simp [resolve, toConstList_resolve T defs raw xs t cs h hcs]
    · cases h
  | .obj fs, ty, _, c, h, ht => by
    simp only [litOk] at h
    simp only [toConst, Option.map_eq_some_iff] at ht
    obtain ⟨es, hes, rfl⟩ := ht
    split at h
    · rename_i o fields _
      simp only [Bool.and_eq_true] at h
      simp [resolve, toConstFields_resolve T defs raw fs o fields es h.1.2 hes]
    · cases h
theorem toConstList_resolve (T : Table) (defs : List VarDef) (raw : List (String × GValue)) :
    ∀ (xs : List DValue) (t : TypeRef) (cs : List GValue), litOkList T defs t xs = true →
      toConstList raw xs = some cs → resolveList defs raw xs = cs
  | [], _, cs, _, ht => by simp [toConstList] at ht; subst ht; rfl
  | x :: xs, t, cs, h, ht => by
    simp only [litOkList, Bool.and_eq_true] at h
    simp only [toConstList] at ht
    cases h1 : toConst raw x with
    | none => simp [h1] at ht
    | some a =>
      cases h2 : toConstList raw xs with
      | none => simp [h1, h2] at ht
      | some b =>
        simp [h1, h2] at ht
        subst ht
        simp [resolveList, toConst_resolve T defs raw x t false a h.1 h1,
          toConstList_resolve T defs raw xs t b h.2 h2]
theorem toConstFields_resolve (T : Table) (defs : List VarDef) (raw : List (String × GValue)) :
    ∀ (fs : List (String × DValue)) (o : Bool) (fields : List InField) (es : List (String × GValue)),
      litOkEntries T defs o fields fs = true →
      toConstFields raw fs = some es → resolveFields defs raw fs = es
  | [], _, _, es, _, ht => by simp [toConstFields] at ht; subst ht; rfl
  | (k, v) :: rest, o, fields, es, h, ht => by
    simp only [litOkEntries, Bool.and_eq_true] at h
    simp only [toConstFields] at ht
    cases h1 : toConst raw v with
    | none => simp [h1] at ht
    | some a =>
      cases h2 : toConstFields raw rest with
      | none => simp [h1, h2] at ht
      | some b =>
        simp [h1, h2] at ht
        subst ht
        have hv : resolve defs raw v = some a := by
          cases hf : fields.find? (·.name = k) with
          | none => simp [hf] at h
          | some f =>
            have := h.1
            simp only [hf] at this
            cases o with
            | false => exact toConst_resolve T defs raw v _ _ a (by simpa using this) h1
            | true => exact toConst_resolve T defs raw v _ _ a (by simpa using this) h1
        simp [resolveFields, hv, toConstFields_resolve T defs raw rest o fields b h.2 h2]
end

theorem coerce_some_nullable (T : Table) (j : Bool) (ty : TypeRef) (h : (coerce T j ty .null).isSome = true) :
    ty.isNonNull = false := by
  simp only [coerce] at h
  cases hn : ty.isNonNull <;> simp_all

mutual
/-- the repaired ArgumentsOfCorrectType accepts a valid literal around variables without supplied
    value whenever the literal, with the variables' runtime values in it, coerces -/
theorem validP_of (np : Bool) (T : Table) (hw : wfTable2 T = true) (defs : List VarDef) (raw : List (String × GValue)) :
    ∀ (dv : DValue) (ty ty' : TypeRef) (hd : Bool), litOk T defs ty' hd dv = true →
      ty'.nullable = ty.nullable →
      (∀ x, resolve defs raw dv = some x → (coerce T true ty x).isSome = true) →
      isValidP np T raw ty dv = true
  | .var n, ty, ty', hd, h, _, hc => by
    simp only [litOk] at h
    cases hfind : defs.find? (·.name = n) with
    | none => simp [hfind] at h
    | some vd =>
      have hn : vd.name = n := (by simpa using List.find?_some hfind)
      simp only [isValidP]
      cases hl : lookup raw n with
      | none => rfl
      | some v =>
        have := hc v (by simp [resolve, varValue_find defs raw n vd hfind, effVal, hn, hl])
        obtain ⟨c, hcc⟩ := Option.isSome_iff_exists.mp this
        exact coerce_valid np T hw v ty c hcc
  | .null, ty, _, _, _, _, hc => by
    have := coerce_some_nullable T true ty (hc .null (by simp [resolve]))
    simp [isValidP, this]
  | .int i, ty, _, _, _, _, hc => by
    obtain ⟨c, hcc⟩ := Option.isSome_iff_exists.mp (hc (.int i) (by simp [resolve]))
    have := coerce_valid np T hw _ ty c hcc
    simpa [isValid, isValidP] using this
  | .float i, ty, _, _, _, _, hc => by
    obtain ⟨c, hcc⟩ := Option.isSome_iff_exists.mp (hc (.float i) (by simp [resolve]))
    have := coerce_valid np T hw _ ty c hcc
    simpa [isValid, isValidP] using this
  | .str i, ty, _, _, _, _, hc => by
    obtain ⟨c, hcc⟩ := Option.isSome_iff_exists.mp (hc (.str i) (by simp [resolve]))
    have := coerce_valid np T hw _ ty c hcc
    simpa [isValid, isValidP] using this
  | .bool i, ty, _, _, _, _, hc => by
    obtain ⟨c, hcc⟩ := Option.isSome_iff_exists.mp (hc (.bool i) (by simp [resolve]))
    have := coerce_valid np T hw _ ty c hcc
    simpa [isValid, isValidP] using this
  | .enum i, ty, _, _, _, _, hc => by
    obtain ⟨c, hcc⟩ := Option.isSome_iff_exists.mp (hc (.enum i) (by simp [resolve]))
    have := coerce_valid np T hw _ ty c hcc
    simpa [isValid, isValidP] using this
  | .list xs, ty, ty', _, h, hty, hc => by
    simp only [litOk, hty] at h
    have hc := hc (.list (resolveList defs raw xs)) (by simp [resolve])
    simp only [coerce] at hc
    simp only [isValidP]
    split at h
    · rename_i t ht
      simp only [ht] at hc ⊢
      simp only [Option.isSome_map] at hc
      exact validPList_of np T hw defs raw xs t h hc
    · cases h
  | .obj fs, ty, ty', _, h, hty, hc => by
    have hb : ty'.base = ty.base := by rw [← nullable_base ty', ← nullable_base ty, hty]
    simp only [litOk, hb] at h
    have hc := hc (.obj (resolveFields defs raw fs)) (by simp [resolve])
    simp only [coerce] at hc
    simp only [isValidP]
    cases hfind : T.find? ty.base with
    | none => simp [hfind] at h
    | some d =>
      cases d with
      | scalar => simp [hfind] at h
      | enum vs => simp [hfind] at h
      | input o fields =>
        simp only [hfind, Bool.and_eq_true] at h hc ⊢
        obtain ⟨⟨_, hent⟩, hreq⟩ := h
        cases hce : coerceEntries T true fields (resolveFields defs raw fs) with
        | none => simp [hce] at hc
        | some es =>
          simp only [hce, Option.isSome_map] at hc
          refine ⟨⟨?_, validPEntries_of np T hw defs raw fs o fields hent (by simp [hce])⟩, ?_⟩
          · cases o with
            | false => rfl
            | true =>
              simp only [if_true, decide_eq_true_eq] at hreq hc
              cases fs with
              | nil => simp at hreq
              | cons e rest =>
                obtain ⟨k, v⟩ := e
                cases rest with
                | cons _ _ => simp at hreq
                | nil =>
                  simp only [Bool.not_true, Bool.false_or]
                  cases htc : toConst raw v with
                  | none => rfl
                  | some c0 =>
                    cases c0 with
                    | null =>
                      exfalso
                      simp only [litOkEntries, Bool.and_true] at hent
                      cases hf : fields.find? (·.name = k) with
                      | none => simp [hf] at hent
                      | some f =>
                        simp only [hf, if_true] at hent
                        have hr := toConst_resolve T defs raw v _ _ .null hent htc
                        simp only [resolveFields, hr, coerceEntries, hf] at hce
                        cases hcn : coerce T true f.ty.gql .null with
                        | none => simp [hcn] at hce
                        | some a =>
                          have := coerce_null_inv T true _ a hcn
                          subst this
                          simp [hcn] at hce
                          subst hce
                          simp [finishOneOf] at hc
                    | _ => rfl
          · cases o with
            | false => simpa using hreq
            | true =>
              have hnul := wfTable2_find hw hfind
              simp only [List.all_eq_true]
              intro f hf
              simp [hnul f hf]
theorem validPList_of (np : Bool) (T : Table) (hw : wfTable2 T = true) (defs : List VarDef) (raw : List (String × GValue)) :
    ∀ (xs : List DValue) (t : TypeRef), litOkList T defs t xs = true →
      (coerceList T true t (resolveList defs raw xs)).isSome = true →
      isValidPList np T raw t xs = true
  | [], _, _, _ => by simp [isValidPList]
  | x :: xs, t, h, hc => by
    simp only [litOkList, Bool.and_eq_true] at h
    simp only [resolveList, coerceList] at hc
    simp only [isValidPList, Bool.and_eq_true]
    cases h1 : coerce T true t ((resolve defs raw x).getD .null) with
    | none => simp [h1] at hc
    | some a =>
      cases h2 : coerceList T true t (resolveList defs raw xs) with
      | none => simp [h1, h2] at hc
      | some b =>
        refine ⟨validP_of np T hw defs raw x t t false h.1 rfl ?_, validPList_of np T hw defs raw xs t h.2 (by simp [h2])⟩
        intro x' hx'
        simp [hx'] at h1
        simp [h1]
theorem validPEntries_of (np : Bool) (T : Table) (hw : wfTable2 T = true) (defs : List VarDef) (raw : List (String × GValue)) :
    ∀ (fs : List (String × DValue)) (o : Bool) (fields : List InField),
      litOkEntries T defs o fields fs = true →
      (coerceEntries T true fields (resolveFields defs raw fs)).isSome = true →
      isValidPEntries np T raw fields fs = true
  | [], _, _, _, _ => by simp [isValidPEntries]
  | (k, v) :: rest, o, fields, h, hc => by
    simp only [litOkEntries, Bool.and_eq_true] at h
    simp only [isValidPEntries, Bool.and_eq_true]
    cases hf : fields.find? (·.name = k) with
    | none => simp [hf] at h
    | some f =>
      have hlit : ∃ ty' hd, litOk T defs ty' hd v = true ∧ ty'.nullable = f.ty.gql.nullable := by
        have h1 := h.1
        simp only [hf] at h1
        cases o with
        | false => exact ⟨_, _, by simpa using h1, rfl⟩
        | true => exact ⟨_, _, by simpa using h1, by simp [TypeRef.nullable]⟩
      obtain ⟨ty', hd, hlit, hty⟩ := hlit
      simp only []
      cases hr : resolve defs raw v with
      | none =>
        simp only [resolveFields, hr] at hc
        refine ⟨validP_of np T hw defs raw v f.ty.gql ty' hd hlit hty ?_,
          validPEntries_of np T hw defs raw rest o fields h.2 hc⟩
        intro x hx; rw [hr] at hx; cases hx
      | some a =>
        simp only [resolveFields, hr, coerceEntries, hf] at hc
        cases h1 : coerce T true f.ty.gql a with
        | none => simp [h1] at hc
        | some a' =>
          cases h2 : coerceEntries T true fields (resolveFields defs raw rest) with
          | none => simp [h1, h2] at hc
          | some b =>
            refine ⟨validP_of np T hw defs raw v f.ty.gql ty' hd hlit hty ?_,
              validPEntries_of np T hw defs raw rest o fields h.2 (by simp [h2])⟩
            intro x hx; rw [hr] at hx; cases hx
            simp [h1]
end

-- ------------------------------------------------------------------ one argument, variables anywhere

/-- a valid argument literal that is not a bare variable: the code parses the literal with the
    raw variable values in it, the specification coerces the literal with the coerced values in
    it; both fail or the parse is the view of the coerced value -/
theorem lit_parse (T : Table) (hw : wfTable2 T = true) (hdf : fieldDefaultsOk T) (hdc : defaultsCoerced T)
    (defs : List VarDef) (raw vars : List (String × GValue)) (C : VarCtx T defs raw vars)
    (dv : DValue) (rty : RTy) (hd : Bool) (hlit : litOk T defs rty.gql hd dv = true)
    (x : GValue) (hx : resolve defs raw dv = some x) :
    ∃ y, subst vars dv = some y ∧
      parseK Defects.none T rty x = (coerce T false rty.gql y).map (view T rty) ∧
      (coerce T true rty.gql x).isSome = (coerce T false rty.gql y).isSome := by
  obtain ⟨y, hy, hs, hsh⟩ := (lit_sim T hw hdc defs raw vars C dv rty hd hlit).2 x hx
  refine ⟨y, hy, ?_, ?_⟩
  · have := parse_value T (fieldDefault Defects.none T) (wfTable2_wf hw) hdf x rty hsh
    rw [parseK_of_shapeOk _ _ _ _ hsh]
    simp only [parseD, this]
    exact hs.1
  · have := congrArg Option.isSome hs.1
    simpa using this

theorem paramValue_eq_nested (T : Table) (hw : wfTable2 T = true) (hdf : fieldDefaultsOk T)
    (hdc : defaultsCoerced T)
    (defs : List VarDef) (raw vars : List (String × GValue)) (C : VarCtx T defs raw vars)
    (provided : List (String × DValue)) (a : InField)
    (hda : ∀ d, a.default = some d → parseD Defects.none T a.ty d = some (view T a.ty d))
    (hlit : ∀ dv, lookup provided a.name = some dv → litOk T defs a.ty.gql a.default.isSome dv = true) :
    paramValue Defects.none T defs raw provided a = (coerceArg T vars provided a).map (viewArg T a.ty) := by
  have flat : (∀ dv, lookup provided a.name = some dv → flatArg dv = true) →
      paramValue Defects.none T defs raw provided a = (coerceArg T vars provided a).map (viewArg T a.ty) :=
    fun hf => paramValue_eq T hw hdf defs raw vars C provided a hda (fun dv h => ⟨hlit dv h, hf dv h⟩)
  cases hl : lookup provided a.name with
  | none => exact flat (fun dv h => by rw [hl] at h; cases h)
  | some dv =>
    have hlk := hlit dv hl
    have nested : (∀ n, dv ≠ .var n) →
        paramValue Defects.none T defs raw provided a = (coerceArg T vars provided a).map (viewArg T a.ty) := by
      intro hne
      cases hr : resolve defs raw dv with
      | none => obtain ⟨n, rfl⟩ := resolve_var_none defs raw dv hr; exact absurd rfl (hne n)
      | some x =>
        obtain ⟨y, hy, hp, _⟩ := lit_parse T hw hdf hdc defs raw vars C dv a.ty _ hlk x hr
        cases dv with
        | var n => exact absurd rfl (hne n)
        | _ =>
          simp only [paramValue, coerceArg, hl, hr, hy, hp, Option.map_map]
          cases coerce T false a.ty.gql y <;> simp [viewArg]
    cases dv with
    | var n => exact flat (fun dv h => by rw [hl] at h; cases h; rfl)
    | null => exact nested (by simp)
    | int i => exact nested (by simp)
    | float i => exact nested (by simp)
    | str i => exact nested (by simp)
    | bool i => exact nested (by simp)
    | enum i => exact nested (by simp)
    | list xs => exact nested (by simp)
    | obj fs => exact nested (by simp)

/-- ArgumentsOfCorrectType / ProvidedNonNullArguments refuse a valid argument only when
    CoerceArgumentValues fails on it -/
theorem argInvalid_coerceArg_nested (T : Table) (hw : wfTable2 T = true) (hdf : fieldDefaultsOk T)
    (hdc : defaultsCoerced T)
    (defs : List VarDef) (raw vars : List (String × GValue)) (C : VarCtx T defs raw vars)
    (provided : List (String × DValue)) (a : InField)
    (hreq : lookup provided a.name = none → (!a.ty.gql.isNonNull || a.default.isSome) = true)
    (hlit : ∀ dv, lookup provided a.name = some dv → litOk T defs a.ty.gql a.default.isSome dv = true)
    (hinv : fieldValid Defects.none T raw ⟨"", [a]⟩ provided = false) :
    coerceArg T vars provided a = none := by
  have flat : (∀ dv, lookup provided a.name = some dv → flatArg dv = true) →
      coerceArg T vars provided a = none :=
    fun hf => argInvalid_coerceArg T hw defs raw vars C provided a hreq (fun dv h => ⟨hlit dv h, hf dv h⟩) hinv
  cases hl : lookup provided a.name with
  | none => exact flat (fun dv h => by rw [hl] at h; cases h)
  | some dv =>
    have hlk := hlit dv hl
    have nested : (∀ n, dv ≠ .var n) → coerceArg T vars provided a = none := by
      intro hne
      cases hr : resolve defs raw dv with
      | none => obtain ⟨n, rfl⟩ := resolve_var_none defs raw dv hr; exact absurd rfl (hne n)
      | some x =>
        obtain ⟨y, hy, _, hiso⟩ := lit_parse T hw hdf hdc defs raw vars C dv a.ty _ hlk x hr
        have hnone : coerce T false a.ty.gql y = none := by
          cases hcy : coerce T false a.ty.gql y with
          | none => rfl
          | some c =>
            exfalso
            rw [hcy] at hiso
            obtain ⟨cx, hcx⟩ := Option.isSome_iff_exists.mp hiso
            simp only [fieldValid, List.all_cons, List.all_nil, Bool.and_true, hl] at hinv
            have hnp : Defects.none.nonObjectPassesInputObject = false := rfl
            have hlu : Defects.none.literalUncheckedBesideVar = false := rfl
            cases htc : toConst raw dv with
            | some c0 =>
              have := toConst_resolve T defs raw dv _ _ c0 hlk htc
              rw [hr] at this; cases this
              simp [htc, coerce_valid _ T hw x _ cx hcx] at hinv
            | none =>
              have := validP_of false T hw defs raw dv a.ty.gql a.ty.gql _ hlk rfl
                (fun x' hx' => by rw [hr] at hx'; cases hx'; exact hiso)
              simp [htc, hnp, hlu, this] at hinv
        cases dv with
        | var n => exact absurd rfl (hne n)
        | _ => simp [coerceArg, hl, hy, hnone]
    cases dv with
    | var n => exact flat (fun dv h => by rw [hl] at h; cases h; rfl)
    | null => exact nested (by simp)
    | int i => exact nested (by simp)
    | float i => exact nested (by simp)
    | str i => exact nested (by simp)
    | bool i => exact nested (by simp)
    | enum i => exact nested (by simp)
    | list xs => exact nested (by simp)
    | obj fs => exact nested (by simp)

-- ------------------------------------------------------------------ the request, variables anywhere

theorem ReqBase.root_eq {T : Table} {op : OpDef} {raw : List (String × GValue)} (H : ReqBase T op raw)
    (hdc : defaultsCoerced T)
    (vars : List (String × GValue)) (hcv : coerceVars T op.vars raw = some vars) :
    ∀ r ∈ rootFields op, implOf T op.vars raw r = specOf T vars r := by
  intro r hr
  obtain ⟨sig, hsig, _⟩ := docOk_root T op H.hdoc r hr
  simp only [implOf, specOf, hsig, Option.bind_some, fieldArgs]
  apply paramValues_eq T op.vars raw vars r.2.2 sig.args (wfTable2_args H.hw hsig)
  intro a ha
  obtain ⟨h1, _, h3⟩ := H.arg r hr sig hsig a ha
  exact paramValue_eq_nested T H.hw H.hdf hdc op.vars raw vars (H.varCtx vars hcv) r.2.2 a h1
    (fun dv h => (h3 dv h).1)

theorem ReqBase.root_invalid {T : Table} {op : OpDef} {raw : List (String × GValue)} (H : ReqBase T op raw)
    (hdc : defaultsCoerced T)
    (vars : List (String × GValue)) (hcv : coerceVars T op.vars raw = some vars)
    (r : Root) (hr : r ∈ rootFields op) (sig : FieldSig) (hsig : T.field? r.2.1 = some sig)
    (hinv : fieldValid Defects.none T raw sig r.2.2 = false) : specOf T vars r = none := by
  simp only [fieldValid, List.all_eq_false] at hinv
  obtain ⟨a, ha, hbad⟩ := hinv
  obtain ⟨_, h2, h3⟩ := H.arg r hr sig hsig a ha
  have := argInvalid_coerceArg_nested T H.hw H.hdf hdc op.vars raw vars (H.varCtx vars hcv) r.2.2 a h2
    (fun dv h => (h3 dv h).1)
    (by simp only [fieldValid, List.all_cons, List.all_nil, Bool.and_true]; exact Bool.eq_false_iff.mpr hbad)
  simp [specOf, hsig, fieldArgs, coerceArgs_none T vars r.2.2 sig.args a ha this]

end AGV.Lemmas.Coerce
