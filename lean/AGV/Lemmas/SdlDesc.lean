/-
  C17 — a description written by the repaired `write_description` (quoted or block style, any
  indentation level) is one string token denoting the description.
-/
import AGV.Lemmas.SdlLex
import AGV.Lemmas.SdlBlock
namespace AGV.Lemmas.SdlLex
open AGV.Core AGV.Core.PAst AGV.Core.Sdl AGV.Model.Sdl AGV.Spec.Literal AGV.Spec.Lex AGV.Lemmas.SdlBlock

theorem quote_facts : isIgnoredChar '"' = false ∧ '"' ≠ '#' ∧ isPunct '"' = false ∧ nameStart '"' = false ∧ isDig '"' = false := by
  decide

theorem lexToken_quoted (body rest : Text) (v : Text) (hnb : ∀ y, body ≠ '"' :: '"' :: y)
    (hl : lexString body = some (v, rest)) : lexToken ('"' :: body) = some (.str v, rest) := by
  unfold lexToken
  obtain ⟨_, _, h1, h2, h3⟩ := quote_facts
  have h4 : '"' ≠ '.' := by decide
  have h5 : '"' ≠ '-' := by decide
  simp only [h1, h2, h3, h4, h5, Bool.false_eq_true, if_false, Bool.or_self, decide_false, if_true, hl]

theorem tabs_ignored (o : Opts) (level : Nat) : ∀ c ∈ tabs o level, isIgnoredChar c = true := by
  intro c hc
  simp only [tabs, List.mem_flatten, List.mem_replicate] at hc
  obtain ⟨l, ⟨_, rfl⟩, hc⟩ := hc
  unfold tab at hc
  split at hc
  · rw [List.mem_replicate] at hc; rw [hc.2]; decide
  · simp at hc; rw [hc]; decide

theorem tabs_blank (o : Opts) (level : Nat) : (tabs o level).all isBlank = true := by
  rw [List.all_eq_true]
  intro c hc
  simp only [tabs, List.mem_flatten, List.mem_replicate] at hc
  obtain ⟨l, ⟨_, rfl⟩, hc⟩ := hc
  unfold tab at hc
  split at hc
  · rw [List.mem_replicate] at hc; rw [hc.2]; decide
  · simp at hc; rw [hc]; decide

theorem Lx.ws {p r : Text} {ts} (hp : ∀ c ∈ p, isIgnoredChar c = true) (h : Lx r ts) : Lx (p ++ r) ts := by
  induction p with
  | nil => exact h
  | cons c p ih => exact Lx.ign (hp c List.mem_cons_self) (ih (fun c hc => hp c (List.mem_cons_of_mem _ hc)))

/-- a description written by the repaired `write_description` — in either style, at any
    indentation level — is one string token denoting the description -/
theorem Lx_description (o : Opts) (level : Nat) (d rest : Text) (ts : List Tok) (h : Lx rest ts) :
    Lx (writeDescription Defects.none o level d ++ rest) (.str d :: ts) := by
  have hnl : Lx ('\n' :: rest) ts := Lx.ign (by decide) h
  obtain ⟨q1, q2, _⟩ := quote_facts
  unfold writeDescription
  have hD1 : Defects.none.descBlockRaw = false := rfl
  have hD2 : Defects.none.descSingleLineRaw = false := rfl
  have hD3 : Defects.none.reasonQuoteRaw = false := rfl
  simp only [hD1, hD2, hD3, Bool.not_false, Bool.true_and, Bool.false_and, Bool.false_eq_true, if_false]
  split
  · -- quoted
    have ht : lexToken ('"' :: (escapeString false d ++ '"' :: '\n' :: rest)) = some (.str d, '\n' :: rest) :=
      lexToken_quoted _ _ _ (escapeString_not_block d _ (by simp)) (lexString_escapeString d _)
    have := Lx.tok q1 q2 ht (by simp; omega) hnl
    have := Lx.ws (tabs_ignored o level) this
    simpa [List.append_assoc] using this
  · -- block
    rename_i hs
    have hb : blockPrintable d = true := by
      simp only [Bool.or_eq_true, Bool.and_eq_true, Bool.not_eq_true', not_or] at hs
      simpa using hs.2
    have ht := AGV.Lemmas.SdlBlock.lexToken_block (tabs o level) d rest (tabs_blank o level) hb
    have e : quotes3 ++ '\n' :: tabs o level ++ indentLines (tabs o level) d ++ '\n' :: tabs o level ++ quotes3 ++ '\n' :: rest =
        '"' :: ('"' :: '"' :: ('\n' :: tabs o level ++ indentLines (tabs o level) d ++ '\n' :: tabs o level ++ quotes3 ++ '\n' :: rest)) := by
      simp [quotes3, List.append_assoc]
    rw [e] at ht
    have := Lx.tok q1 q2 ht (by simp; omega) hnl
    have := Lx.ws (tabs_ignored o level) this
    simpa [quotes3, List.append_assoc] using this

end AGV.Lemmas.SdlLex
