/-
  Lemmas about the request pipeline of the extension model under a stack of recording
  pass-through extensions.
-/
import AGV.Lemmas.Ext

namespace AGV.Lemmas.Ext
open AGV.Core AGV.Model.Ext

section
variable {Req Doc VR Op Resp E : Type}

/-- the executor does not care which pass-through stack runs its resolve hooks: the value is
    the same and the trace is the hook-free trace with the stack's events added at every site -/
def ExecNatural (B : Base Req Doc VR Op Resp E) (ls : List Nat) : Prop :=
  ∀ req doc op vr,
    B.exec (resolveAt (stack ls : List (Ext Req Doc VR Resp E))) (!(stack ls : List (Ext Req Doc VR Resp E)).isEmpty) req doc op vr =
      mapT (expand ls) (B.exec (resolveAt ([] : List (Ext Req Doc VR Resp E))) false req doc op vr)

theorem stack_map_request (ls : List Nat) :
    (stack ls : List (Ext Req Doc VR Resp E)).map (·.request) = ls.map (fun i => recWrap i { hook := .request }) := by
  simp [stack, recExt, List.map_map, Function.comp_def]

theorem stack_map_parse (ls : List Nat) :
    (stack ls : List (Ext Req Doc VR Resp E)).map (·.parse) = ls.map (fun i => recWrap i { hook := .parse }) := by
  simp [stack, recExt, List.map_map, Function.comp_def]

theorem stack_map_validation (ls : List Nat) :
    (stack ls : List (Ext Req Doc VR Resp E)).map (·.validation) = ls.map (fun i => recWrap i { hook := .validation }) := by
  simp [stack, recExt, List.map_map, Function.comp_def]

theorem stack_map_execute (ls : List Nat) :
    (stack ls : List (Ext Req Doc VR Resp E)).map (·.execute) = ls.map (fun i => recWrap i { hook := .execute }) := by
  simp [stack, recExt, List.map_map, Function.comp_def]

theorem stack_map_resolve (ls : List Nat) (s : Site) :
    (stack ls : List (Ext Req Doc VR Resp E)).map (fun e => e.resolve s) = ls.map (fun i => recWrap i s) := by
  simp [stack, recExt, List.map_map, Function.comp_def]

/-- the resolve-hook runner of a recording stack is related to the hook-free one -/
theorem resolveAt_rel (ls : List Nat) :
    HookRel (expand ls) (resolveAt (stack ls : List (Ext Req Doc VR Resp E)))
      (resolveAt ([] : List (Ext Req Doc VR Resp E))) := by
  intro s b1 b2 h
  simp only [resolveAt, stack_map_resolve, List.map_nil]
  exact atSite_rel ls s b1 b2 h

theorem runPrepare_stack (ls : List Nat) (req : Req) :
    runPrepare ((stack ls : List (Ext Req Doc VR Resp E)).map (·.prepare)) req =
      (.ok req, ls.map (fun i => Ev.hook true i { hook := .prepare }) ++
        ls.reverse.map (fun i => Ev.hook false i { hook := .prepare })) := by
  induction ls with
  | nil => simp [stack, runPrepare]
  | cons i ls ih =>
    simp only [stack, List.map_cons, runPrepare] at ih ⊢
    simp only [recExt, ih]
    simp [List.append_assoc]

theorem prepareAt_stack (ls : List Nat) (req : Req) :
    prepareAt (stack ls : List (Ext Req Doc VR Resp E)) req =
      mapT (expand ls) (prepareAt ([] : List (Ext Req Doc VR Resp E)) req) := by
  simp only [prepareAt, runPrepare_stack, List.map_nil, runPrepare, mapT]
  have h := expand_site ls { hook := .prepare } []
  simp only [expand_nil, List.append_nil] at h
  rw [h]

theorem pure_rel {α : Type} (ls : List Nat) (a : α) : ((a, []) : T α) = mapT (expand ls) (a, []) := rfl

theorem stages_stack (B : Base Req Doc VR Op Resp E) (ls : List Nat) (hB : ExecNatural B ls) (req : Req) :
    stages B (stack ls) req = mapT (expand ls) (stages B [] req) := by
  have hp := prepareAt_stack (Req := Req) (Doc := Doc) (VR := VR) (Resp := Resp) (E := E) ls req
  have hp1 : (prepareAt ([] : List (Ext Req Doc VR Resp E)) req).1 = .ok req := by simp [prepareAt, runPrepare]
  have hd := atSite_rel ls { hook := .parse } (fun _ => ((B.parse req, []) : T (Except E Doc)))
    (fun _ => (B.parse req, [])) (pure_rel ls _)
  simp only [stages, hp, mapT_fst, hp1, stack_map_parse, stack_map_validation, stack_map_execute, List.map_nil, hd, mapT_snd]
  have hd1 : (atSite { hook := .parse } [] (fun _ => ((B.parse req, []) : T (Except E Doc)))).1 = B.parse req := by
    simp [atSite, runChain]
  rw [hd1]
  cases hpr : B.parse req with
  | error e => simp [mapT, expand_append]
  | ok doc =>
    have hv := atSite_rel ls { hook := .validation } (fun _ => ((B.validate req doc, []) : T (Except E VR)))
      (fun _ => (B.validate req doc, [])) (pure_rel ls _)
    have hv1 : (atSite { hook := .validation } [] (fun _ => ((B.validate req doc, []) : T (Except E VR)))).1 =
        B.validate req doc := by simp [atSite, runChain]
    simp only [hv, mapT_fst, mapT_snd, hv1]
    cases hva : B.validate req doc with
    | error e => simp [mapT, expand_append]
    | ok vr =>
      cases hso : B.selectOp req doc with
      | error e => simp [mapT, expand_append]
      | ok op =>
        have hx := atSite_rel ls { hook := .execute }
          (fun _ => B.exec (resolveAt (stack ls : List (Ext Req Doc VR Resp E))) (!(stack ls : List (Ext Req Doc VR Resp E)).isEmpty) req doc op vr)
          (fun _ => B.exec (resolveAt ([] : List (Ext Req Doc VR Resp E))) false req doc op vr) (hB req doc op vr)
        simp only [List.isEmpty_nil, Bool.not_true] at hx ⊢
        simp only [hx]
        simp [mapT, expand_append]

/-- the whole request under a recording stack = the extension-free request, expanded -/
theorem execute_stack (B : Base Req Doc VR Op Resp E) (ls : List Nat) (hB : ExecNatural B ls) (req : Req) :
    execute B (stack ls) req = mapT (expand ls) (execute B [] req) := by
  simp only [execute, stack_map_request, List.map_nil]
  exact atSite_rel ls _ _ _ (stages_stack B ls hB req)

end

end AGV.Lemmas.Ext
