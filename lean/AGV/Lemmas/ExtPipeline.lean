/-
  Lemmas about the request pipeline of the extension model under a stack of recording
  pass-through extensions.
-/
import AGV.Lemmas.Ext

namespace AGV.Lemmas.Ext
open AGV.Core AGV.Model.Ext

section
variable {Req Doc VR Op Resp E : Type}

/-- the executor does not care which pass-through stack runs its resolve hooks: the value is
    the same and the trace is the hook-free trace with the stack's events added at every site -/
def ExecNatural (B : Base Req Doc VR Op Resp E) (ls : List Nat) : Prop :=
  ∀ req doc op vr,
    B.exec (resolveAt (stack ls : List (Ext Req Doc VR Resp E))) (!(stack ls : List (Ext Req Doc VR Resp E)).isEmpty) req doc op vr =
      mapT (expand ls) (B.exec (resolveAt ([] : List (Ext Req Doc VR Resp E))) false req doc op vr)

theorem stack_map_request (ls : List Nat) :
    (stack ls : List (Ext Req Doc VR Resp E)).map (·.request) = ls.map (fun i => recWrap i { hook := .request }) := by
  simp [stack, recExt, List.map_map, Function.comp_def]

theorem stack_map_parse (ls : List Nat) (q : String) :
    (stack ls : List (Ext Req Doc VR Resp E)).map (fun e => e.parse q) = ls.map (fun i => recWrap i { hook := .parse, parent := q }) := by
  simp [stack, recExt, List.map_map, Function.comp_def]

theorem stack_map_validation (ls : List Nat) :
    (stack ls : List (Ext Req Doc VR Resp E)).map (·.validation) = ls.map (fun i => recWrap i { hook := .validation }) := by
  simp [stack, recExt, List.map_map, Function.comp_def]

theorem stack_map_execute (ls : List Nat) :
    (stack ls : List (Ext Req Doc VR Resp E)).map (·.execute) = ls.map (fun i => recWrap i { hook := .execute }) := by
  simp [stack, recExt, List.map_map, Function.comp_def]

theorem stack_map_resolve (ls : List Nat) (s : Site) :
    (stack ls : List (Ext Req Doc VR Resp E)).map (fun e => e.resolve s) = ls.map (fun i => recWrap i s) := by
  simp [stack, recExt, List.map_map, Function.comp_def]

/-- the resolve-hook runner of a recording stack is related to the hook-free one -/
theorem resolveAt_rel (ls : List Nat) :
    HookRel (expand ls) (resolveAt (stack ls : List (Ext Req Doc VR Resp E)))
      (resolveAt ([] : List (Ext Req Doc VR Resp E))) := by
  intro s b1 b2 h
  simp only [resolveAt, stack_map_resolve, List.map_nil]
  exact atSite_rel ls s b1 b2 h

theorem runPrepare_stack (ls : List Nat) (req : Req) :
    runPrepare ((stack ls : List (Ext Req Doc VR Resp E)).map (·.prepare)) req =
      (.ok req, ls.map (fun i => Ev.hook true i { hook := .prepare }) ++
        ls.reverse.map (fun i => Ev.hook false i { hook := .prepare })) := by
  induction ls with
  | nil => simp [stack, runPrepare]
  | cons i ls ih =>
    simp only [stack, List.map_cons, runPrepare] at ih ⊢
    simp only [recExt, ih]
    simp [List.append_assoc]

theorem prepareAt_stack (ls : List Nat) (req : Req) :
    prepareAt (stack ls : List (Ext Req Doc VR Resp E)) req =
      mapT (expand ls) (prepareAt ([] : List (Ext Req Doc VR Resp E)) req) := by
  simp only [prepareAt, runPrepare_stack, List.map_nil, runPrepare, mapT]
  have h := expand_site ls { hook := .prepare } []
  simp only [expand_nil, List.append_nil] at h
  rw [h]

theorem pure_rel {α : Type} (ls : List Nat) (a : α) : ((a, []) : T α) = mapT (expand ls) (a, []) := rfl

theorem stack_map_subscribe (ls : List Nat) :
    (stack ls : List (Ext Req Doc VR Resp E)).map (·.subscribe) = ls.map (fun i => recWrap i { hook := .subscribe }) := by
  simp [stack, recExt, List.map_map, Function.comp_def]

/-- the parse stage under a recording stack, whatever the request form and the variant -/
theorem parseAt_stack (P : PDefects) (B : Base Req Doc VR Op Resp E) (ls : List Nat) (req : Req) :
    parseAt P B (stack ls) req = mapT (expand ls) (parseAt P B [] req) := by
  unfold parseAt
  split
  · rfl
  · rw [stack_map_parse, List.map_nil]
    exact atSite_rel ls _ (fun _ => ((parseFut B req, []) : T (Except E Doc))) (fun _ => (parseFut B req, [])) (pure_rel ls _)

theorem parseAt_nil_fst (P : PDefects) (B : Base Req Doc VR Op Resp E) (req : Req) :
    (parseAt P B ([] : List (Ext Req Doc VR Resp E)) req).1 = parseFut B req := by
  unfold parseAt
  split <;> simp [atSite, runChain]

theorem front_stack (P : PDefects) (B : Base Req Doc VR Op Resp E) (ls : List Nat) (req : Req) :
    front P B (stack ls) req = mapT (expand ls) (front P B [] req) := by
  have hp := prepareAt_stack (Req := Req) (Doc := Doc) (VR := VR) (Resp := Resp) (E := E) ls req
  have hp1 : (prepareAt ([] : List (Ext Req Doc VR Resp E)) req).1 = .ok req := by simp [prepareAt, runPrepare]
  simp only [front, hp, mapT_fst, hp1, parseAt_stack, stack_map_validation, List.map_nil, mapT_snd]
  cases hpr : (parseAt P B ([] : List (Ext Req Doc VR Resp E)) req).1 with
  | error e => simp [mapT, expand_append]
  | ok doc =>
    have hv := atSite_rel ls { hook := .validation } (fun _ => ((B.validate req doc, []) : T (Except E VR)))
      (fun _ => (B.validate req doc, [])) (pure_rel ls _)
    have hv1 : (atSite { hook := .validation } [] (fun _ => ((B.validate req doc, []) : T (Except E VR)))).1 =
        B.validate req doc := by simp [atSite, runChain]
    simp only [hv, mapT_fst, mapT_snd, hv1]
    cases hva : B.validate req doc with
    | error e => simp [mapT, expand_append]
    | ok vr =>
      cases hso : B.selectOp req doc with
      | error e => simp [mapT, expand_append]
      | ok op => simp [mapT, expand_append]

theorem stagesP_stack (P : PDefects) (B : Base Req Doc VR Op Resp E) (ls : List Nat) (hB : ExecNatural B ls) (req : Req) :
    stagesP P B (stack ls) req = mapT (expand ls) (stagesP P B [] req) := by
  simp only [stagesP, front_stack, mapT_fst, mapT_snd, stack_map_execute, List.map_nil]
  cases hf : (front P B ([] : List (Ext Req Doc VR Resp E)) req).1 with
  | error e => simp [mapT]
  | ok q =>
    obtain ⟨req', doc, vr, op⟩ := q
    have hx := atSite_rel ls { hook := .execute }
      (fun _ => B.exec (resolveAt (stack ls : List (Ext Req Doc VR Resp E))) (!(stack ls : List (Ext Req Doc VR Resp E)).isEmpty) req' doc op vr)
      (fun _ => B.exec (resolveAt ([] : List (Ext Req Doc VR Resp E))) false req' doc op vr) (hB req' doc op vr)
    simp only [List.isEmpty_nil, Bool.not_true] at hx ⊢
    simp only [hx]
    simp [mapT, expand_append]

theorem stages_stack (B : Base Req Doc VR Op Resp E) (ls : List Nat) (hB : ExecNatural B ls) (req : Req) :
    stages B (stack ls) req = mapT (expand ls) (stages B [] req) :=
  stagesP_stack {} B ls hB req

/-- the whole request under a recording stack = the extension-free request, expanded -/
theorem executeP_stack (P : PDefects) (B : Base Req Doc VR Op Resp E) (ls : List Nat) (hB : ExecNatural B ls) (req : Req) :
    executeP P B (stack ls) req = mapT (expand ls) (executeP P B [] req) := by
  simp only [executeP, stack_map_request, List.map_nil]
  exact atSite_rel ls _ _ _ (stagesP_stack P B ls hB req)

theorem execute_stack (B : Base Req Doc VR Op Resp E) (ls : List Nat) (hB : ExecNatural B ls) (req : Req) :
    execute B (stack ls) req = mapT (expand ls) (execute B [] req) :=
  executeP_stack {} B ls hB req

/-- a batch under a recording stack -/
theorem executeBatch_stack (P : PDefects) (B : Base Req Doc VR Op Resp E) (ls : List Nat) (hB : ExecNatural B ls)
    (reqs : List Req) :
    executeBatch P B (stack ls) reqs = mapT (expand ls) (executeBatch P B [] reqs) := by
  simp only [executeBatch, mapT, List.map_map]
  have h : (fun r => executeP P B (stack ls) r) = fun r => mapT (expand ls) (executeP P B [] r) := by
    funext r; exact executeP_stack P B ls hB r
  simp only [Function.comp_def, h, mapT_fst, mapT_snd]
  have hf := (expand_hom ls).flatten (reqs.map (executeP P B ([] : List (Ext Req Doc VR Resp E))))
  simp only [List.map_map, Function.comp_def] at hf
  rw [hf]

/-- the event futures of a subscription do not care which pass-through stack runs their resolve hooks -/
inductive EvsRel {α : Type} (ls : List Nat) : List (Unit → T α) → List (Unit → T α) → Prop where
  | nil : EvsRel ls [] []
  | cons {e1 e2 : Unit → T α} {r1 r2 : List (Unit → T α)} :
      e1 () = mapT (expand ls) (e2 ()) → EvsRel ls r1 r2 → EvsRel ls (e1 :: r1) (e2 :: r2)

def EventsNatural (B : SBase Req Doc VR Op Resp E) (ls : List Nat) : Prop :=
  ∀ req doc op vr,
    EvsRel ls
      (B.events (resolveAt (stack ls : List (Ext Req Doc VR Resp E))) (!(stack ls : List (Ext Req Doc VR Resp E)).isEmpty) req doc op vr)
      (B.events (resolveAt ([] : List (Ext Req Doc VR Resp E))) false req doc op vr)

theorem events_sites (ls : List Nat) (s : Site) (evs1 evs2 : List (Unit → T Resp))
    (h : EvsRel ls evs1 evs2) :
    evs1.map (fun ev => atSite s (ls.map (fun i => recWrap i s)) ev) =
      evs2.map (fun ev => mapT (expand ls) (atSite s [] ev)) := by
  induction h with
  | nil => rfl
  | cons hab _ ih =>
    simp only [List.map_cons, ih]
    congr 1
    exact atSite_rel ls s _ _ hab

/-- the stream API under a recording stack -/
theorem executeStream_stack (P : PDefects) (B : SBase Req Doc VR Op Resp E) (ls : List Nat)
    (hB : ExecNatural B.toBase ls) (hE : EventsNatural B ls) (req : Req) :
    executeStream P B (stack ls) req = mapT (expand ls) (executeStream P B [] req) := by
  have hs := atSite_rel ls { hook := .subscribe } (fun _ => (((), []) : T Unit)) (fun _ => ((), [])) (pure_rel ls _)
  simp only [executeStream, front_stack, mapT_fst, mapT_snd, stack_map_execute, stack_map_subscribe, List.map_nil, hs]
  cases hf : (front P B.toBase ([] : List (Ext Req Doc VR Resp E)) req).1 with
  | error e => simp [mapT, expand_append]
  | ok q =>
    obtain ⟨req', doc, vr, op⟩ := q
    simp only
    cases hsub : B.isSub op with
    | true =>
      have he := events_sites ls { hook := .execute } _ _ (hE req' doc op vr)
      simp only [List.isEmpty_nil, Bool.not_true] at he ⊢
      simp only [if_true, he, List.map_map, Function.comp_def, mapT_fst, mapT_snd]
      have hfl := (expand_hom ls).flatten ((B.events (resolveAt ([] : List (Ext Req Doc VR Resp E))) false req' doc op vr).map
        (fun ev => atSite { hook := .execute } [] ev))
      simp only [List.map_map, Function.comp_def] at hfl
      simp [mapT, expand_append, hfl]
    | false =>
      have hx := atSite_rel ls { hook := .execute }
        (fun _ => B.exec (resolveAt (stack ls : List (Ext Req Doc VR Resp E))) (!(stack ls : List (Ext Req Doc VR Resp E)).isEmpty) req' doc op vr)
        (fun _ => B.exec (resolveAt ([] : List (Ext Req Doc VR Resp E))) false req' doc op vr) (hB req' doc op vr)
      have hd := hB req' doc op vr
      simp only [List.isEmpty_nil, Bool.not_true] at hx hd ⊢
      cases hq : P.streamQuerySkipsExecuteHook with
      | true => simp [hd, mapT, expand_append]
      | false => simp [hx, mapT, expand_append]

-- ------------------------------------------------------------------ prepare hooks that rewrite the request

theorem stackRw_map_request (lfs : List (Nat × (Req → Req))) :
    (stackRw lfs : List (Ext Req Doc VR Resp E)).map (·.request) = (stack (lfs.map (·.1)) : List (Ext Req Doc VR Resp E)).map (·.request) := by
  simp [stackRw, stack, rwExt, recExt, List.map_map, Function.comp_def]

theorem stackRw_map_subscribe (lfs : List (Nat × (Req → Req))) :
    (stackRw lfs : List (Ext Req Doc VR Resp E)).map (·.subscribe) = (stack (lfs.map (·.1)) : List (Ext Req Doc VR Resp E)).map (·.subscribe) := by
  simp [stackRw, stack, rwExt, recExt, List.map_map, Function.comp_def]

theorem stackRw_map_parse (lfs : List (Nat × (Req → Req))) (q : String) :
    (stackRw lfs : List (Ext Req Doc VR Resp E)).map (fun e => e.parse q) = (stack (lfs.map (·.1)) : List (Ext Req Doc VR Resp E)).map (fun e => e.parse q) := by
  simp [stackRw, stack, rwExt, recExt, List.map_map, Function.comp_def]

theorem stackRw_map_validation (lfs : List (Nat × (Req → Req))) :
    (stackRw lfs : List (Ext Req Doc VR Resp E)).map (·.validation) = (stack (lfs.map (·.1)) : List (Ext Req Doc VR Resp E)).map (·.validation) := by
  simp [stackRw, stack, rwExt, recExt, List.map_map, Function.comp_def]

theorem stackRw_map_execute (lfs : List (Nat × (Req → Req))) :
    (stackRw lfs : List (Ext Req Doc VR Resp E)).map (·.execute) = (stack (lfs.map (·.1)) : List (Ext Req Doc VR Resp E)).map (·.execute) := by
  simp [stackRw, stack, rwExt, recExt, List.map_map, Function.comp_def]

theorem stackRw_resolveAt (lfs : List (Nat × (Req → Req))) :
    resolveAt (stackRw lfs : List (Ext Req Doc VR Resp E)) = resolveAt (stack (lfs.map (·.1)) : List (Ext Req Doc VR Resp E)) := by
  funext s
  simp [resolveAt, stackRw, stack, rwExt, recExt, List.map_map, Function.comp_def]

theorem stackRw_isEmpty (lfs : List (Nat × (Req → Req))) :
    (stackRw lfs : List (Ext Req Doc VR Resp E)).isEmpty = (stack (lfs.map (·.1)) : List (Ext Req Doc VR Resp E)).isEmpty := by
  cases lfs <;> rfl

/-- the prepare chain of rewriting recorders hands the stages the rewritten request and records
    what the plain recorders record -/
theorem runPrepare_stackRw (lfs : List (Nat × (Req → Req))) (req : Req) :
    runPrepare ((stackRw lfs : List (Ext Req Doc VR Resp E)).map (·.prepare)) req =
      (.ok (rewritten lfs req), (lfs.map (·.1)).map (fun i => Ev.hook true i { hook := .prepare }) ++
        (lfs.map (·.1)).reverse.map (fun i => Ev.hook false i { hook := .prepare })) := by
  induction lfs generalizing req with
  | nil => simp [stackRw, runPrepare, rewritten]
  | cons p lfs ih =>
    simp only [stackRw, List.map_cons, runPrepare, rewritten, List.foldl_cons] at ih ⊢
    have hp : (rwExt p.1 p.2 : Ext Req Doc VR Resp E).prepare = fun r next =>
        let x := next (p.2 r)
        (x.1, Ev.hook true p.1 { hook := .prepare } :: x.2 ++ [Ev.hook false p.1 { hook := .prepare }]) := rfl
    rw [hp]
    simp only [ih]
    simp [List.append_assoc]

theorem prepareAt_stackRw (lfs : List (Nat × (Req → Req))) (req : Req) :
    prepareAt (stackRw lfs : List (Ext Req Doc VR Resp E)) req =
      prepareAt (stack (lfs.map (·.1)) : List (Ext Req Doc VR Resp E)) (rewritten lfs req) := by
  simp only [prepareAt, runPrepare_stackRw, runPrepare_stack]

theorem front_stackRw (P : PDefects) (B : Base Req Doc VR Op Resp E) (lfs : List (Nat × (Req → Req))) (req : Req) :
    front P B (stackRw lfs) req = front P B (stack (lfs.map (·.1))) (rewritten lfs req) := by
  simp only [front, parseAt, prepareAt_stackRw, stackRw_map_parse, stackRw_map_validation]

/-- REWRITING: a stack of recording extensions whose prepare hooks rewrite the request behaves, in
    response and in trace, like the plain recording stack on the rewritten request -/
theorem executeP_stackRw (P : PDefects) (B : Base Req Doc VR Op Resp E) (lfs : List (Nat × (Req → Req))) (req : Req) :
    executeP P B (stackRw lfs) req = executeP P B (stack (lfs.map (·.1))) (rewritten lfs req) := by
  simp only [executeP, stagesP, front_stackRw, stackRw_map_request, stackRw_map_execute, stackRw_resolveAt, stackRw_isEmpty]

theorem executeStream_stackRw (P : PDefects) (B : SBase Req Doc VR Op Resp E) (lfs : List (Nat × (Req → Req))) (req : Req) :
    executeStream P B (stackRw lfs) req = executeStream P B (stack (lfs.map (·.1))) (rewritten lfs req) := by
  simp only [executeStream, front_stackRw, stackRw_map_subscribe, stackRw_map_execute, stackRw_resolveAt, stackRw_isEmpty]

-- ------------------------------------------------------------------ the extension-free front, explicitly

/-- what `prepare_request` yields (no hook changes it) -/
def frontVal (B : Base Req Doc VR Op Resp E) (req : Req) : Except E (Req × Doc × VR × Op) :=
  match parseFut B req with
  | .error e => .error e
  | .ok doc =>
    match B.validate req doc with
    | .error e => .error e
    | .ok vr =>
      match B.selectOp req doc with
      | .error e => .error e
      | .ok op => .ok (req, doc, vr, op)

/-- the markers of the parse stage -/
def parseMarks (P : PDefects) (B : Base Req Doc VR Op Resp E) (req : Req) : List Ev :=
  if P.preparsedSkipsParseHooks && (B.preparsed req).isSome then []
  else [Ev.mark true { hook := .parse, parent := B.queryText req }, Ev.mark false { hook := .parse, parent := B.queryText req }]

/-- the site markers of the extension-free front -/
def frontMarks (P : PDefects) (B : Base Req Doc VR Op Resp E) (req : Req) : List Ev :=
  [Ev.mark true { hook := .prepare }, Ev.mark false { hook := .prepare }] ++ parseMarks P B req ++
    (match parseFut B req with
     | .error _ => []
     | .ok _ => [Ev.mark true { hook := .validation }, Ev.mark false { hook := .validation }])

theorem front_nil (P : PDefects) (B : Base Req Doc VR Op Resp E) (req : Req) :
    front P B ([] : List (Ext Req Doc VR Resp E)) req = (frontVal B req, frontMarks P B req) := by
  simp only [front, prepareAt, parseAt, runPrepare, List.map_nil, frontVal, frontMarks, parseMarks]
  by_cases hsk : (P.preparsedSkipsParseHooks && (B.preparsed req).isSome) = true
  · simp only [hsk, if_true]
    cases hp : parseFut B req with
    | error e => simp
    | ok doc =>
      cases hv : B.validate req doc with
      | error e => simp [atSite, runChain, hv]
      | ok vr => cases hs : B.selectOp req doc <;> simp [atSite, runChain, hv, hs]
  · simp only [hsk, if_false, Bool.false_eq_true]
    cases hp : parseFut B req with
    | error e => simp [atSite, runChain, hp]
    | ok doc =>
      cases hv : B.validate req doc with
      | error e => simp [atSite, runChain, hp, hv]
      | ok vr => cases hs : B.selectOp req doc <;> simp [atSite, runChain, hp, hv, hs]

end

end AGV.Lemmas.Ext
