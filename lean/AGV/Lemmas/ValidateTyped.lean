/-
  C09 — the walker's type stack against the parent types of the reference validator (`TyRel`,
  preserved along the walk under `TypedSchema`), and the first type-dependent rule:
  ProvidedNonNullArguments = §5.4.2.1 Required Arguments.
-/
import AGV.Lemmas.ValidateRulesC
namespace AGV.Lemmas.ValidateRules
open AGV.Core AGV.Model.Validate AGV.Lemmas.ValidateWalk AGV.Lemmas.ValidateMachine AGV.Lemmas.ValidateSpecNodes
open AGV.Spec.Validate (tyDef fieldType)

-- ------------------------------------------------------------------ walker types vs reference types

mutual
/-- the walker's visit and the reference validator's visit of the same selections, side by side -/
def pairSel (S : VSchema) (st : Stack) (parent : Option String) : Sel → List (Stack × Option String × Sel)
  | .field al n args ds ss p => (st, parent, .field al n args ds ss p) :: pairSels S (fieldTy S st n :: st) (childTy S parent n) ss
  | .spread n ds p => [(st, parent, .spread n ds p)]
  | .inline c ds ss p => (st, parent, .inline c ds ss p) :: pairSels S (inlineSt S st c) (inlineTy S parent c) ss
def pairSels (S : VSchema) (st : Stack) (parent : Option String) : List Sel → List (Stack × Option String × Sel)
  | [] => []
  | s :: ss => pairSel S st parent s ++ pairSels S st parent ss
end

mutual
theorem pairSel_left (S : VSchema) (st parent) : (s : Sel) → (pairSel S st parent s).map (fun x => (x.1, x.2.2)) = visitsSel S st s
  | .field al n args ds ss p => by simp [pairSel, visitsSel, pairSels_left S _ _ ss]
  | .spread n ds p => by simp [pairSel, visitsSel]
  | .inline c ds ss p => by simp [pairSel, visitsSel, pairSels_left S _ _ ss]
theorem pairSels_left (S : VSchema) (st parent) : (ss : List Sel) → (pairSels S st parent ss).map (fun x => (x.1, x.2.2)) = visitsSels S st ss
  | [] => by simp [pairSels, visitsSels]
  | s :: ss => by simp [pairSels, visitsSels, pairSel_left S st parent s, pairSels_left S st parent ss]
end

mutual
theorem pairSel_right (S : VSchema) (st parent) : (s : Sel) → (pairSel S st parent s).map (fun x => x.2) = specVisitsSel S parent s
  | .field al n args ds ss p => by simp [pairSel, specVisitsSel, pairSels_right S _ _ ss]
  | .spread n ds p => by simp [pairSel, specVisitsSel]
  | .inline c ds ss p => by simp [pairSel, specVisitsSel, pairSels_right S _ _ ss]
theorem pairSels_right (S : VSchema) (st parent) : (ss : List Sel) → (pairSels S st parent ss).map (fun x => x.2) = specVisitsSels S parent ss
  | [] => by simp [pairSels, specVisitsSels]
  | s :: ss => by simp [pairSels, specVisitsSels, pairSel_right S st parent s, pairSels_right S st parent ss]
end

/-- the walker's current type agrees with the reference parent type, except below a `__typename`
    the reference validator gave no type to (the walker says `String`) -/
def TyRel (cur parent : Option String) : Prop := cur = parent ∨ (cur = some "String" ∧ parent = none)

/-- schema hypotheses for the typed correspondence -/
structure TypedSchema (S : VSchema) : Prop where
  /-- `String` has no fields (it is not an object or interface type) -/
  stringNoFields : ∀ n, S.field? "String" n = none
  /-- no type declares a field called `__typename` -/
  noTypenameField : ∀ t, S.field? t "__typename" = none

theorem field?_eq_fieldType (S : VSchema) (t n : String) (hn : n ≠ "__typename") :
    (S.field? t n).map (fun f => (f.ty, f.args)) = fieldType S t n := by
  unfold VSchema.field? fieldType VSchema.ty? Schema.find? tyDef
  simp only [hn, if_false]
  cases h : S.base.types.find? (·.name = t) with
  | none => simp
  | some td => simp only []; split <;> simp_all


theorem tyRel_field (S : VSchema) (hT : TypedSchema S) (st : Stack) (parent : Option String)
    (h : TyRel (Stack.cur st) parent) (n : String) : TyRel (fieldTy S st n) (childTy S parent n) := by
  by_cases hn : n = "__typename"
  · subst hn
    unfold fieldTy childTy
    simp only [if_true]
    cases he : S.exists? "String"
    · left
      have : (tyDef S "String").isSome = false := he
      cases parent with
      | none => simp
      | some p =>
        have hb : (TypeRef.named "String").nonNull.base = "String" := rfl
        simp only [Option.bind_some, fieldType, if_true]
        by_cases hc : Spec.Validate.composite S p = true
        · simp [hc, hb, this]
        · simp [hc]
    · have : (tyDef S "String").isSome = true := he
      cases parent with
      | none => right; simp
      | some p =>
        simp only [if_true, Option.bind_some, fieldType]
        by_cases hc : Spec.Validate.composite S p = true
        · left; simp [hc, TypeRef.base, this]
        · right; simp [hc]
  · unfold fieldTy childTy
    simp only [hn, if_false]
    rcases h with h | ⟨h1, h2⟩
    · left
      rw [h]
      cases parent with
      | none => simp
      | some p =>
        simp only [Option.bind_some, ← field?_eq_fieldType S p n hn]
        cases S.field? p n with
        | none => simp
        | some f =>
          simp only [Option.bind_some, Option.map_some, VSchema.concrete, exists_eq_tyDef]
          by_cases hx : (tyDef S f.ty.base).isSome = true <;> simp [hx]
    · left
      rw [h1, h2]
      simp [hT.stringNoFields n]

theorem tyRel_inline (S : VSchema) (st : Stack) (parent : Option String)
    (h : TyRel (Stack.cur st) parent) (c : Option String) : TyRel (Stack.cur (inlineSt S st c)) (inlineTy S parent c) := by
  cases c with
  | none => simpa [inlineSt, inlineTy] using h
  | some t =>
    left
    simp only [inlineSt, inlineTy, Stack.cur, exists_eq_tyDef]
    by_cases hx : (tyDef S t).isSome = true <;> simp [hx]

mutual
theorem tyRel_pairSel (S : VSchema) (hT : TypedSchema S) (st : Stack) (parent : Option String)
    (h : TyRel (Stack.cur st) parent) : (s : Sel) → ∀ x ∈ pairSel S st parent s, TyRel (Stack.cur x.1) x.2.1
  | .field al n args ds ss p => by
    intro x hx
    simp only [pairSel, List.mem_cons] at hx
    rcases hx with rfl | hx
    · exact h
    · exact tyRel_pairSels S hT _ _ (by simpa [Stack.cur] using tyRel_field S hT st parent h n) ss x hx
  | .spread n ds p => by
    intro x hx
    simp only [pairSel, List.mem_singleton] at hx
    subst hx; exact h
  | .inline c ds ss p => by
    intro x hx
    simp only [pairSel, List.mem_cons] at hx
    rcases hx with rfl | hx
    · exact h
    · exact tyRel_pairSels S hT _ _ (tyRel_inline S st parent h c) ss x hx
theorem tyRel_pairSels (S : VSchema) (hT : TypedSchema S) (st : Stack) (parent : Option String)
    (h : TyRel (Stack.cur st) parent) : (ss : List Sel) → ∀ x ∈ pairSels S st parent ss, TyRel (Stack.cur x.1) x.2.1
  | [] => by simp [pairSels]
  | s :: ss => by
    intro x hx
    simp only [pairSels, List.mem_append] at hx
    rcases hx with hx | hx
    · exact tyRel_pairSel S hT st parent h s x hx
    · exact tyRel_pairSels S hT st parent h ss x hx
end


/-- a per-selection condition that reads the walker's type on one side and the reference parent
    type on the other, and agrees whenever the two types are related, holds of some visited
    selection on one side iff on the other -/
theorem typed_exists_sels (S : VSchema) (hT : TypedSchema S) (P : Stack × Sel → Prop) (Q : Option String × Sel → Prop)
    (hPQ : ∀ st parent s, TyRel (Stack.cur st) parent → (P (st, s) ↔ Q (parent, s)))
    (st : Stack) (parent : Option String) (h : TyRel (Stack.cur st) parent) (ss : List Sel) :
    (∃ v ∈ visitsSels S st ss, P v) ↔ (∃ w ∈ specVisitsSels S parent ss, Q w) := by
  rw [← pairSels_left S st parent ss, ← pairSels_right S st parent ss]
  simp only [List.mem_map]
  constructor
  · rintro ⟨v, ⟨x, hx, rfl⟩, hp⟩
    exact ⟨x.2, ⟨x, hx, rfl⟩, (hPQ x.1 x.2.1 x.2.2 (tyRel_pairSels S hT st parent h ss x hx)).mp hp⟩
  · rintro ⟨w, ⟨x, hx, rfl⟩, hq⟩
    exact ⟨(x.1, x.2.2), ⟨x, hx, rfl⟩, (hPQ x.1 x.2.1 x.2.2 (tyRel_pairSels S hT st parent h ss x hx)).mpr hq⟩

/-- the root types of the operations exist in the schema -/
def RootsExist (S : VSchema) (d : Doc) : Prop := ∀ o ∈ d.ops, ∀ r, rootOf S o.ty = some r → S.exists? r = true

theorem typed_exists (S : VSchema) (d : Doc) (hT : TypedSchema S) (hs : Served S d) (hr : RootsExist S d)
    (P : Stack × Sel → Prop) (Q : Option String × Sel → Prop)
    (hPQ : ∀ st parent s, TyRel (Stack.cur st) parent → (P (st, s) ↔ Q (parent, s))) :
    (∃ v ∈ docVisits S d, P v) ↔ (∃ w ∈ specDocVisits S d, Q w) := by
  have hf : ∀ f : FragDef, (∃ v ∈ visitsSels S (fragSt S f) f.sels, P v) ↔
      (∃ w ∈ specVisitsSels S (if (tyDef S f.cond).isSome then some f.cond else none) f.sels, Q w) := by
    intro f
    apply typed_exists_sels S hT P Q hPQ
    left
    simp only [fragSt, Stack.cur, exists_eq_tyDef]
    by_cases hx : (tyDef S f.cond).isSome = true <;> simp [hx]
  have ho : ∀ o ∈ d.ops, ((∃ v ∈ opVisits S o, P v) ↔ (∃ w ∈ specVisitsSels S (Spec.Validate.rootType S o.ty) o.sels, Q w)) := by
    intro o ho
    have h1 := hs o ho
    unfold opVisits
    cases hroot : rootOf S o.ty with
    | none => simp [hroot] at h1
    | some r =>
      simp only []
      apply typed_exists_sels S hT P Q hPQ
      left
      rw [← rootOf_eq, hroot]
      simp [opSt, Stack.cur, hr o ho r hroot]
  simp only [docVisits, specDocVisits, List.mem_append, List.mem_flatMap]
  constructor
  · rintro ⟨v, (⟨f, hf', hv⟩ | ⟨o, ho', hv⟩), hp⟩
    · obtain ⟨w, hw, hq⟩ := (hf f).mp ⟨v, hv, hp⟩
      exact ⟨w, Or.inr ⟨f, hf', hw⟩, hq⟩
    · obtain ⟨w, hw, hq⟩ := (ho o ho').mp ⟨v, hv, hp⟩
      exact ⟨w, Or.inl ⟨o, ho', hw⟩, hq⟩
  · rintro ⟨w, (⟨o, ho', hw⟩ | ⟨f, hf', hw⟩), hq⟩
    · obtain ⟨v, hv, hp⟩ := (ho o ho').mpr ⟨w, hw, hq⟩
      exact ⟨v, Or.inr ⟨o, ho', hv⟩, hp⟩
    · obtain ⟨v, hv, hp⟩ := (hf f).mpr ⟨w, hw, hq⟩
      exact ⟨v, Or.inl ⟨f, hf', hv⟩, hp⟩


-- ------------------------------------------------------------------ ProvidedNonNullArguments

def siteMissing (s : Option (List ArgDef) × List (String × DValue)) : Bool :=
  match s.1 with
  | some defs => missingArgs defs s.2
  | none => false

theorem requiredArguments_eq (S : VSchema) (d : Doc) :
    Spec.Validate.violates_RequiredArguments S d = (Spec.Validate.argSites S d).any siteMissing := by
  unfold Spec.Validate.violates_RequiredArguments
  congr 1

def dirMissing (S : VSchema) (dr : Dir) : Bool :=
  match S.dir? dr.name with
  | some dd => missingArgs dd.args dr.args
  | none => false

theorem any_dirSites_missing (S : VSchema) (ds : List Dir) : (dirSites S ds).any siteMissing = ds.any (dirMissing S) := by
  simp only [dirSites, List.any_map]
  congr 1; funext dr
  simp only [Function.comp, siteMissing, dirMissing, VSchema.dir?]
  cases S.dirs.find? (·.name = dr.name) <;> rfl

theorem dirArgMissing_dirsOut (S : VSchema) (d : Doc) (st ds) :
    Kind.dirArgMissing ∈ dirsOut S d st ds ↔ ds.any (dirMissing S) = true := by
  simp only [dirsOut, List.mem_flatMap, mem_stateless_enterDir, true_and, List.any_eq_true, dirMissing]
  apply exists_congr; intro dr
  apply and_congr_right; intro _
  cases S.dir? dr.name <;> simp

theorem par_cons (a : Option String) (st : Stack) : Stack.par (a :: st) = Stack.cur st := by cases st <;> rfl

theorem fieldArgMissing_dirsOut (S : VSchema) (d : Doc) (st ds) : Kind.fieldArgMissing ∉ dirsOut S d st ds := by
  simp [dirsOut, mem_stateless_enterDir]

/-- what ProvidedNonNullArguments reports at a visited selection -/
def nodeMissing (S : VSchema) (v : Stack × Sel) : Prop :=
  (match v.2 with
   | .field _ n args _ _ _ => ∃ f, (Stack.cur v.1).bind (fun p => S.field? p n) = some f ∧ missingArgs f.args args = true
   | _ => False) ∨ (dirsOf v.2).any (dirMissing S) = true

theorem nodeOut_missing (S : VSchema) (d : Doc) (st : Stack) (s : Sel) :
    (Kind.fieldArgMissing ∈ nodeOut S d st s ∨ Kind.dirArgMissing ∈ nodeOut S d st s) ↔ nodeMissing S (st, s) := by
  cases s <;>
    simp [nodeOut, nodeMissing, dirsOf, dirArgMissing_dirsOut, fieldArgMissing_dirsOut, mem_stateless_enterField,
      mem_stateless_enterSpread, mem_stateless_enterInline, par_cons]


/-- what §5.4.2.1 finds at a selection with the reference parent type -/
def specNodeMissing (S : VSchema) (w : Option String × Sel) : Prop := (selSites S w).any siteMissing = true

theorem missing_agree (S : VSchema) (hT : TypedSchema S) (st : Stack) (parent : Option String) (s : Sel)
    (h : TyRel (Stack.cur st) parent) : nodeMissing S (st, s) ↔ specNodeMissing S (parent, s) := by
  cases s with
  | spread n ds p => simp [nodeMissing, specNodeMissing, selSites, dirsOf, any_dirSites_missing]
  | inline c ds ss p => simp [nodeMissing, specNodeMissing, selSites, dirsOf, any_dirSites_missing]
  | field al n args ds ss p =>
    simp only [nodeMissing, specNodeMissing, selSites, dirsOf, List.any_cons, any_dirSites_missing, Bool.or_eq_true]
    apply or_congr_left
    simp only [siteMissing]
    by_cases hn : n = "__typename"
    · subst hn
      have h1 : ∀ c : Option String, c.bind (fun p => S.field? p "__typename") = none := by
        intro c; cases c <;> simp [hT.noTypenameField]
      rw [h1]
      cases parent with
      | none => simp
      | some p =>
        simp only [Option.bind_some, fieldType, if_true]
        by_cases hc : Spec.Validate.composite S p = true <;> simp [hc, missingArgs]
    · rcases h with h | ⟨h1, h2⟩
      · rw [h]
        cases parent with
        | none => simp
        | some p =>
          simp only [Option.bind_some, ← field?_eq_fieldType S p n hn]
          cases S.field? p n <;> simp
      · rw [h1, h2]
        simp [hT.stringNoFields n]

/-- ProvidedNonNullArguments = §5.4.2.1 Required Arguments -/
theorem rule_provided_non_null_arguments (S : VSchema) (d : Doc) (hT : TypedSchema S) (hs : Served S d) (hr : RootsExist S d) :
    (Kind.fieldArgMissing ∈ (events S {} d).flatMap (stateless S {} d) ∨ Kind.dirArgMissing ∈ (events S {} d).flatMap (stateless S {} d))
      ↔ Spec.Validate.violates_RequiredArguments S d = true := by
  rw [mem_stateless_events, mem_stateless_events]
  have h1 : ∀ f, (Kind.fieldArgMissing ∈ fragOut S d f ∨ Kind.dirArgMissing ∈ fragOut S d f) ↔ f.dirs.any (dirMissing S) = true := by
    intro f; simp [fragOut, dirArgMissing_dirsOut, fieldArgMissing_dirsOut, mem_stateless_enterFrag]
  have h2 : ∀ o ∈ d.ops, ((Kind.fieldArgMissing ∈ opOut S d o ∨ Kind.dirArgMissing ∈ opOut S d o) ↔ o.dirs.any (dirMissing S) = true) := by
    intro o ho; unfold opOut
    have := hs o ho
    cases hroot : rootOf S o.ty <;> simp_all [dirArgMissing_dirsOut, fieldArgMissing_dirsOut, mem_stateless_enterOp, mem_stateless_enterVar]
  have hspec : Spec.Validate.violates_RequiredArguments S d = true ↔
      (∃ w ∈ specDocVisits S d, specNodeMissing S w) ∨ (∃ o ∈ d.ops, o.dirs.any (dirMissing S) = true)
        ∨ (∃ f ∈ d.frags, f.dirs.any (dirMissing S) = true) := by
    simp only [requiredArguments_eq, argSites_eq, List.any_append, List.any_flatMap, any_dirSites_missing, Bool.or_eq_true,
      List.any_eq_true, specNodeMissing, or_assoc]
  rw [hspec, ← typed_exists S d hT hs hr (nodeMissing S) (specNodeMissing S) (fun st parent s h => missing_agree S hT st parent s h)]
  simp only [← nodeOut_missing S d]
  constructor
  · rintro ((⟨f, hf, h⟩ | ⟨o, ho, h⟩ | ⟨v, hv, h⟩) | (⟨f, hf, h⟩ | ⟨o, ho, h⟩ | ⟨v, hv, h⟩))
    · exact Or.inr (Or.inr ⟨f, hf, (h1 f).mp (Or.inl h)⟩)
    · exact Or.inr (Or.inl ⟨o, ho, (h2 o ho).mp (Or.inl h)⟩)
    · exact Or.inl ⟨v, hv, Or.inl h⟩
    · exact Or.inr (Or.inr ⟨f, hf, (h1 f).mp (Or.inr h)⟩)
    · exact Or.inr (Or.inl ⟨o, ho, (h2 o ho).mp (Or.inr h)⟩)
    · exact Or.inl ⟨v, hv, Or.inr h⟩
  · rintro (⟨v, hv, h | h⟩ | ⟨o, ho, h⟩ | ⟨f, hf, h⟩)
    · exact Or.inl (Or.inr (Or.inr ⟨v, hv, h⟩))
    · exact Or.inr (Or.inr (Or.inr ⟨v, hv, h⟩))
    · rcases (h2 o ho).mpr h with h | h
      · exact Or.inl (Or.inr (Or.inl ⟨o, ho, h⟩))
      · exact Or.inr (Or.inr (Or.inl ⟨o, ho, h⟩))
    · rcases (h1 f).mpr h with h | h
      · exact Or.inl (Or.inl ⟨f, hf, h⟩)
      · exact Or.inr (Or.inl ⟨f, hf, h⟩)

end AGV.Lemmas.ValidateRules
