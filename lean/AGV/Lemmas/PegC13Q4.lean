/-
  Property C13, token level: variable definitions — the PEG reader `qVarDefs` is the specification's
  `pVarDefs` (the closing parenthesis resolves every swallowed failure).
-/
import AGV.Lemmas.PegC13Q3
namespace AGV.Lemmas.PegX
open AGV.Model.Peg AGV.Model.BuildAst AGV.Spec.Lex AGV.Spec.Parse AGV.Core.PAst AGV.Lemmas.PegC13 AGV.Lemmas.SpecVal

/-- equality after a continuation that fails on stuck rests, for the outcomes at hand -/
theorem Agree.bind_eq' {α β : Type} {S : List Tok → Prop} {x y : Outc α} {k1 k2 : α → List Tok → Outc β}
    (h : Agree S x y) (hk : ∀ a r, x = some (a, r) → y = some (a, r) → k1 a r = k2 a r)
    (h1 : ∀ a r, x = some (a, r) → S r → k1 a r = none) (h2 : ∀ a r, y = some (a, r) → S r → k2 a r = none) :
    obind x k1 = obind y k2 := by
  rcases h with rfl | ⟨hx, hy⟩
  · cases x with
    | none => rfl
    | some p => exact hk p.1 p.2 rfl rfl
  · have e1 : obind x k1 = none := by
      rcases hx with rfl | ⟨a, r, rfl, hs⟩
      · rfl
      · exact h1 a r rfl hs
    have e2 : obind y k2 = none := by
      rcases hy with rfl | ⟨a, r, rfl, hs⟩
      · rfl
      · exact h2 a r rfl hs
    rw [e1, e2]

def S3 : List Tok → Prop := HeadIn ['(', '@', '=']
def SEq : List Tok → Prop := HeadIn ['=']

theorem S2_S3 {r : List Tok} (h : S2 r) : S3 r := HeadIn.mono (by simp) h
theorem SEq_S3 {r : List Tok} (h : SEq r) : S3 r := HeadIn.mono (by simp) h

-- ------------------------------------------------------------------ the default value

/-- `= Value[Const]`, optional, in the specification -/
def pDefault (r1 : List Tok) : Outc (Option PValue) :=
  match r1 with
  | .punct '=' :: r2 => omap some (pV P' true r2)
  | _ => some (none, r1)

def qOptDefault : Sim (Option PValue) := tOpt qDefault

theorem qOptDefault_eq (r2 : List Tok) :
    qOptDefault (.punct '=' :: r2) = (match pV P' true r2 with
      | some (v, r3) => some (some v, r3)
      | none => some (none, .punct '=' :: r2)) := by
  unfold qOptDefault tOpt qDefault tMap tSeq
  simp only [tPunct_cons]
  cases pV P' true r2 <;> rfl

theorem qOptDefault_other (r1 : List Tok) (h : ∀ r2, r1 ≠ .punct '=' :: r2) : qOptDefault r1 = some (none, r1) := by
  unfold qOptDefault tOpt qDefault tMap tSeq
  rw [tPunct_eq, closeTok_none h]; rfl

theorem pDefault_other (r1 : List Tok) (h : ∀ r2, r1 ≠ .punct '=' :: r2) : pDefault r1 = some (none, r1) := by
  unfold pDefault
  split
  · rename_i r2; exact absurd rfl (h r2)
  · rfl

theorem default_agree (r1 : List Tok) : Agree SEq (qOptDefault r1) (pDefault r1) := by
  by_cases h : ∃ r2, r1 = .punct '=' :: r2
  · obtain ⟨r2, rfl⟩ := h
    rw [qOptDefault_eq]
    unfold pDefault
    simp only [omap]
    cases pV P' true r2 with
    | none => exact Or.inr ⟨BadO.stuck ⟨'=', r2, rfl, by simp⟩, BadO.none⟩
    | some x => exact Or.inl rfl
  · rw [qOptDefault_other r1 (fun r2 e => h ⟨r2, e⟩), pDefault_other r1 (fun r2 e => h ⟨r2, e⟩)]
    exact Or.inl rfl

theorem qOptDefault_len (r1 : List Tok) : ∀ a r, qOptDefault r1 = some (a, r) → r.length ≤ r1.length :=
  fun a r h => mono_opt strict_qDefault.mono _ _ _ h

-- ------------------------------------------------------------------ one variable definition

/-- `$name : Type DefaultValue? Directives[Const]?` in the specification, up to the definition's end -/
def pVD1 (ts : List Tok) : Outc PVarDef :=
  match ts with
  | .punct '$' :: .name v :: .punct ':' :: r =>
    obind (pType (r.length + 1) r) (fun t r1 =>
      obind (pDefault r1) (fun d r3 =>
        obind (pDirs P' true r3) (fun ds r4 => some (⟨v, t, ds, d⟩, r4))))
  | _ => none

theorem qVarDef_at (L : Nat) (v : List Char) (r : List Tok) :
    qVarDef L (.punct '$' :: .name v :: .punct ':' :: r) =
      obind (qType L r) (fun t r1 =>
        obind (qOptDefault r1) (fun d r3 =>
          obind (qOptDirs true r3) (fun ds r4 => some (⟨v, t, ds, d⟩, r4)))) := by
  unfold qVarDef qVarDefRaw tMap tSeq qVariable tMap tSeq
  simp only [tPunct_cons, pName, Option.map_some]
  cases qType L r with
  | none => rfl
  | some x =>
    obtain ⟨t, r1⟩ := x
    simp only [obind]
    unfold qOptDefault qOptDirs tMap
    cases tOpt qDefault r1 with
    | none => rfl
    | some y =>
      obtain ⟨d, r3⟩ := y
      simp only []
      cases tOpt (qDirectives true) r3 with
      | none => rfl
      | some z => rfl

theorem qVarDef_other (L : Nat) (ts : List Tok) (h : ∀ v r, ts ≠ .punct '$' :: .name v :: .punct ':' :: r) :
    qVarDef L ts = none := by
  unfold qVarDef qVarDefRaw tMap tSeq
  cases hv : qVariable ts with
  | none => rfl
  | some x =>
    obtain ⟨v, r1⟩ := x
    simp only []
    obtain ⟨y, hy, rfl⟩ := tMap_some hv
    obtain ⟨r0, g1, g2⟩ := tSeq_some hy
    rw [tPunct_eq] at g1
    cases hc : closeTok '$' ts with
    | none => simp [hc] at g1
    | some r0' =>
      simp [hc] at g1
      subst g1
      have e1 := closeTok_some hc
      unfold pName at g2
      split at g2
      · rename_i n r2
        cases g2
        cases hc2 : tPunct ':' r1 with
        | none => rfl
        | some z =>
          rw [tPunct_eq] at hc2
          cases hc3 : closeTok ':' r1 with
          | none => simp [hc3] at hc2
          | some r3 =>
            have e3 := closeTok_some hc3
            subst e3
            exact absurd e1 (h _ _)
      · cases g2

theorem pVD1_other (ts : List Tok) (h : ∀ v r, ts ≠ .punct '$' :: .name v :: .punct ':' :: r) : pVD1 ts = none := by
  unfold pVD1
  split
  · rename_i v r; exact absurd rfl (h v r)
  · rfl

theorem vardef_agree (L : Nat) (ts : List Tok) (hL : ts.length < L) : Agree S3 (qVarDef L ts) (pVD1 ts) := by
  by_cases h : ∃ v r, ts = .punct '$' :: .name v :: .punct ':' :: r
  · obtain ⟨v, r, rfl⟩ := h
    simp only [List.length_cons] at hL
    rw [qVarDef_at]
    unfold pVD1
    simp only []
    rw [type_agree r.length r (Nat.le_refl _) L (r.length + 1) (by omega) (Nat.lt_succ_self _)]
    cases hp : pType (r.length + 1) r with
    | none => exact Or.inl rfl
    | some x =>
      obtain ⟨t, r1⟩ := x
      simp only [obind]
      refine Agree.bind' (default_agree r1) ?_ ?_ ?_
      · intro d r3 _ _
        refine Agree.bind' (optDirs_agree true r3) ?_ ?_ ?_
        · intro ds r4 _ _; exact Or.inl rfl
        · intro ds r4 _ hs; exact BadO.stuck (S2_S3 hs)
        · intro ds r4 _ hs; exact BadO.stuck (S2_S3 hs)
      · intro d r3 _ hs
        obtain ⟨ch, r', rfl, hc⟩ := hs
        have hne : ∀ r, (Tok.punct ch :: r') ≠ .punct '@' :: r := by
          intro r e; cases e; simp at hc
        rw [qOptDirs_skip true _ hne]
        exact BadO.stuck (SEq_S3 ⟨ch, r', rfl, hc⟩)
      · intro d r3 _ hs
        obtain ⟨ch, r', rfl, hc⟩ := hs
        have hne : ∀ r, (Tok.punct ch :: r') ≠ .punct '@' :: r := by
          intro r e; cases e; simp at hc
        rw [pDirs_skip true _ hne]
        exact BadO.stuck (SEq_S3 ⟨ch, r', rfl, hc⟩)
  · rw [qVarDef_other L ts (fun v r e => h ⟨v, r, e⟩), pVD1_other ts (fun v r e => h ⟨v, r, e⟩)]
    exact Or.inl rfl

-- ------------------------------------------------------------------ the list

theorem pVarDefs_unfold (g : Nat) (ts : List Tok) :
    pVarDefs P' (g + 1) ts = obind (pVD1 ts) (fun vd r4 =>
      match closeTok ')' r4 with
      | some r5 => some ([vd], r5)
      | none => omap (fun xs => vd :: xs) (pVarDefs P' g r4)) := by
  by_cases h : ∃ v r, ts = .punct '$' :: .name v :: .punct ':' :: r
  · obtain ⟨v, r, rfl⟩ := h
    rw [pVarDefs]
    unfold pVD1
    simp only []
    cases pType (r.length + 1) r with
    | none => rfl
    | some x =>
      obtain ⟨t, r1⟩ := x
      simp only [obind]
      split
      · rename_i d r3 hdv
        have hd : pDefault r1 = some (d, r3) := by
          split at hdv
          · exact hdv
          · rename_i hneg
            rw [pDefault_other _ (fun r2 e => hneg r2 e)]; exact hdv
        rw [hd]
        simp only []
        cases pDirs P' true r3 with
        | none => rfl
        | some z =>
          obtain ⟨ds, r4⟩ := z
          simp only []
          cases hcl : closeTok ')' r4 with
          | some r5 =>
            have e := closeTok_some hcl
            subst e
            rfl
          | none =>
            simp only []
            split
            · simp [closeTok] at hcl
            · rfl
      · rename_i hdv
        have hd : pDefault r1 = none := by
          split at hdv
          · exact hdv
          · cases hdv
        rw [hd]
  · rw [pVD1_other ts (fun v r e => h ⟨v, r, e⟩), pVarDefs]
    · rfl
    · intro v r e; exact h ⟨v, r, e⟩

theorem pVarDefs_zero (ts : List Tok) : pVarDefs P' 0 ts = none := by rw [pVarDefs]

theorem vardefs_agree : ∀ (n : Nat) (ts : List Tok), ts.length ≤ n → ∀ L g, ts.length < L → ts.length < g →
    tRepClose (qVarDef L) ')' ts = pVarDefs P' g ts := by
  intro n
  induction n using Nat.strongRecOn with
  | _ n ih =>
    intro ts hn L g hL hg
    obtain ⟨g, rfl⟩ : ∃ k, g = k + 1 := ⟨g - 1, by omega⟩
    have hclose : ∀ r, qVarDef L (.punct ')' :: r) = none :=
      fun r => qVarDef_other L _ (fun v r' e => by cases e)
    rw [tRepClose_unfold (strict_qVarDef L) ')' hclose, pVarDefs_unfold]
    refine Agree.bind_eq' (vardef_agree L ts hL) ?_ ?_ ?_
    · intro vd r4 e1 _
      have hl := strict_qVarDef L _ _ _ e1
      rw [ih r4.length (by omega) r4 (Nat.le_refl _) L g (by omega) (by omega)]
      cases closeTok ')' r4 <;> rfl
    · intro vd r4 _ hs
      obtain ⟨ch, r', rfl, hc⟩ := hs
      have hcl : closeTok ')' (Tok.punct ch :: r') = none :=
        closeTok_none (fun r e => by cases e; simp at hc)
      rw [hcl]
      simp only []
      rw [tRepClose_unfold (strict_qVarDef L) ')' hclose,
        qVarDef_other L _ (fun v r e => by cases e; simp at hc)]
      rfl
    · intro vd r4 _ hs
      obtain ⟨ch, r', rfl, hc⟩ := hs
      have hcl : closeTok ')' (Tok.punct ch :: r') = none :=
        closeTok_none (fun r e => by cases e; simp at hc)
      rw [hcl]
      simp only []
      cases g with
      | zero => rw [pVarDefs_zero]; rfl
      | succ g =>
        rw [pVarDefs_unfold, pVD1_other _ (fun v r e => by cases e; simp at hc)]
        rfl

/-- `variable_definitions?` in the specification (inside an operation definition) -/
def pOptVars (r1 : List Tok) : Outc (List PVarDef) :=
  match r1 with
  | .punct '(' :: r2 => pVarDefs P' (r2.length + 1) r2
  | _ => some ([], r1)

def qOptVars (L : Nat) : Sim (List PVarDef) := tMap (fun o => o.getD []) (tOpt (qVarDefs L))

theorem qVarDefs_at (L : Nat) (r : List Tok) : qVarDefs L (.punct '(' :: r) = tRepClose (qVarDef L) ')' r := by
  unfold qVarDefs tRepClose tMap tSeq
  simp only [tPunct_cons]
  cases tRep1 (qVarDef L) r with
  | none => rfl
  | some x =>
    simp only []
    cases tPunct ')' x.2 <;> rfl

theorem optVars_agree (L : Nat) (r1 : List Tok) (hL : r1.length < L) : Agree S1 (qOptVars L r1) (pOptVars r1) := by
  by_cases h : ∃ r2, r1 = .punct '(' :: r2
  · obtain ⟨r2, rfl⟩ := h
    simp only [List.length_cons] at hL
    have e2 : pOptVars (.punct '(' :: r2) = pVarDefs P' (r2.length + 1) r2 := rfl
    rw [e2]
    unfold qOptVars tMap tOpt
    rw [qVarDefs_at, vardefs_agree r2.length r2 (Nat.le_refl _) L (r2.length + 1) (by omega) (Nat.lt_succ_self _)]
    cases pVarDefs P' (r2.length + 1) r2 with
    | none => exact Or.inr ⟨BadO.stuck ⟨'(', r2, rfl, by simp⟩, BadO.none⟩
    | some x => exact Or.inl rfl
  · have e1 : qVarDefs L r1 = none := by
      unfold qVarDefs tMap tSeq
      rw [tPunct_eq, closeTok_none (fun r2 e => h ⟨r2, e⟩)]; rfl
    have e2 : pOptVars r1 = some ([], r1) := by
      unfold pOptVars
      split
      · rename_i r2; exact absurd ⟨r2, rfl⟩ h
      · rfl
    unfold qOptVars tMap tOpt
    rw [e1, e2]
    exact Or.inl rfl
end AGV.Lemmas.PegX
