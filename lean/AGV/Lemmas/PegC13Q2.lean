/-
  Property C13, token level: optional arguments and optional directives — the PEG readers against
  the specification's `pOptArgs` and `pDirs`, modulo stuck rests (`(` after a name that opens no
  argument list; `@` that starts no directive).
-/
import AGV.Lemmas.PegC13Agree
import AGV.Lemmas.PegC13Q1
namespace AGV.Lemmas.PegX
open AGV.Model.Peg AGV.Model.BuildAst AGV.Spec.Lex AGV.Spec.Parse AGV.Core.PAst AGV.Lemmas.PegC13 AGV.Lemmas.SpecVal

/-- the continuation rule, for the outcomes at hand only -/
theorem Agree.bind' {α β : Type} {S S' : List Tok → Prop} {x y : Outc α} {k1 k2 : α → List Tok → Outc β}
    (h : Agree S x y) (hk : ∀ a r, x = some (a, r) → y = some (a, r) → Agree S' (k1 a r) (k2 a r))
    (h1 : ∀ a r, x = some (a, r) → S r → BadO S' (k1 a r)) (h2 : ∀ a r, y = some (a, r) → S r → BadO S' (k2 a r)) :
    Agree S' (obind x k1) (obind y k2) := by
  rcases h with rfl | ⟨hx, hy⟩
  · cases x with
    | none => exact Or.inl rfl
    | some p => exact hk p.1 p.2 rfl rfl
  · refine Or.inr ⟨?_, ?_⟩
    · rcases hx with rfl | ⟨a, r, rfl, hs⟩
      · exact Or.inl rfl
      · exact h1 a r rfl hs
    · rcases hy with rfl | ⟨a, r, rfl, hs⟩
      · exact Or.inl rfl
      · exact h2 a r rfl hs

def S1 : List Tok → Prop := HeadIn ['(']
def S2 : List Tok → Prop := HeadIn ['(', '@']

theorem S1_S2 {r : List Tok} (h : S1 r) : S2 r := HeadIn.mono (by simp) h

/-- `arguments?` as the PEG reads it, with the absent list as `[]` -/
def qOptArgs (c : Bool) : Sim (List (Name × PValue)) := tMap (fun o => o.getD []) (tOpt (pArgsV c))

theorem optArgs_agree (c : Bool) (ts : List Tok) : Agree S1 (qOptArgs c ts) (pOptArgs P' c ts) := by
  rw [pOptArgs_eq]
  unfold qOptArgs tMap tOpt
  cases hc : closeTok '(' ts with
  | none =>
    have : pArgsV c ts = none := by unfold pArgsV; rw [hc]
    simp only [this]
    exact Or.inl rfl
  | some r =>
    simp only []
    cases hp : pArgsV c ts with
    | some x => exact Or.inl rfl
    | none =>
      refine Or.inr ⟨BadO.stuck ⟨'(', r, closeTok_some hc, by simp⟩, BadO.none⟩

theorem qOptArgs_some (c : Bool) (ts : List Tok) : ∃ as r, qOptArgs c ts = some (as, r) ∧ r.length ≤ ts.length := by
  unfold qOptArgs tMap tOpt
  cases hp : pArgsV c ts with
  | none => exact ⟨_, _, rfl, Nat.le_refl _⟩
  | some x => exact ⟨_, _, rfl, Nat.le_of_lt (strict_pArgsV c _ _ _ hp)⟩

-- ------------------------------------------------------------------ one directive, unfolded

theorem qDirective_at (c : Bool) (nm : List Char) (r : List Tok) :
    qDirective c (.punct '@' :: .name nm :: r) = omap (fun as => (⟨nm, as⟩ : PDirective)) (qOptArgs c r) := by
  unfold qDirective qOptArgs tMap tSeq tOpt omap
  simp only [tPunct, closeTok, if_true, Option.map_some, pName]
  cases pArgsV c r <;> rfl

theorem qDirective_none (c : Bool) (ts : List Tok) (h : ∀ nm r, ts ≠ .punct '@' :: .name nm :: r) :
    qDirective c ts = none := by
  unfold qDirective tMap tSeq
  cases hc : tPunct '@' ts with
  | none => rfl
  | some x =>
    obtain ⟨u, r1⟩ := x
    simp only [tPunct] at hc
    cases hcl : closeTok '@' ts with
    | none => simp [hcl] at hc
    | some r' =>
      simp [hcl] at hc
      subst hc
      have e := closeTok_some hcl
      simp only []
      cases hn : pName r' with
      | none => rfl
      | some y =>
        obtain ⟨nm, r2⟩ := y
        unfold pName at hn
        split at hn
        · cases hn; exact absurd e (h _ _)
        · cases hn

theorem pDirectives_at (c : Bool) (g : Nat) (nm : List Char) (r : List Tok) :
    pDirectives P' c (g + 1) (.punct '@' :: .name nm :: r) =
      obind (pOptArgs P' c r) (fun as r1 => omap (fun ds => (⟨nm, as⟩ : PDirective) :: ds) (pDirectives P' c g r1)) := by
  rw [pDirectives]
  cases pOptArgs P' c r with
  | none => rfl
  | some x => rfl

theorem pDirectives_at_bad (c : Bool) (g : Nat) (r : List Tok) (h : ∀ nm r', r ≠ .name nm :: r') :
    pDirectives P' c g (.punct '@' :: r) = none := by
  cases g with
  | zero => rw [pDirectives]
  | succ g =>
    rw [pDirectives]
    · intro n r' e; cases e; exact h _ _ rfl

theorem pDirectives_other (c : Bool) (g : Nat) (ts : List Tok) (h : ∀ r, ts ≠ .punct '@' :: r) :
    pDirectives P' c (g + 1) ts = some ([], ts) := by
  rw [pDirectives]
  · intro n r e; exact h _ e
  · intro r e; exact h _ e

/-- zero or more directives, as the PEG reads them -/
def qDirsF (c : Bool) (m : Nat) (ts : List Tok) : List PDirective × List Tok := manyF (qDirective c) m ts

theorem dirs_agree (c : Bool) : ∀ (n : Nat) (ts : List Tok), ts.length ≤ n → ∀ g m, ts.length < g → ts.length ≤ m →
    Agree S2 (some (qDirsF c m ts)) (pDirectives P' c g ts) := by
  intro n
  induction n using Nat.strongRecOn with
  | _ n ih =>
    intro ts hn g m hg hm
    obtain ⟨g, rfl⟩ : ∃ k, g = k + 1 := ⟨g - 1, by omega⟩
    by_cases hat : ∃ r, ts = .punct '@' :: r
    · obtain ⟨r0, rfl⟩ := hat
      by_cases hnm : ∃ nm r, r0 = .name nm :: r
      · obtain ⟨nm, r, rfl⟩ := hnm
        simp only [List.length_cons] at hn hg hm
        obtain ⟨m, rfl⟩ : ∃ k, m = k + 1 := ⟨m - 1, by omega⟩
        rw [pDirectives_at]
        have hq : some (qDirsF c (m + 1) (.punct '@' :: .name nm :: r)) =
            obind (qOptArgs c r) (fun as r1 => omap (fun ds => (⟨nm, as⟩ : PDirective) :: ds) (some (qDirsF c m r1))) := by
          obtain ⟨as, r1, e, -⟩ := qOptArgs_some c r
          simp only [qDirsF, manyF, qDirective_at, e, omap, obind, Option.map_some]
        rw [hq]
        refine Agree.bind' (optArgs_agree c r) ?_ ?_ ?_
        · intro as r1 e1 _
          have hl : r1.length ≤ r.length := by
            obtain ⟨as', r1', e', hl⟩ := qOptArgs_some c r
            rw [e1] at e'; cases e'; exact hl
          exact (ih r1.length (by omega) r1 (Nat.le_refl _) g m (by omega) (by omega)).map
        · intro as r1 _ hs
          obtain ⟨ch, r', rfl, hc⟩ := hs
          have : qDirective c (.punct ch :: r') = none := by
            refine qDirective_none c _ (fun nm r e => ?_)
            cases e; simp at hc
          cases m with
          | zero => exact BadO.stuck (S1_S2 ⟨ch, r', rfl, hc⟩)
          | succ m =>
            simp only [qDirsF, manyF, this, omap, Option.map_some]
            exact BadO.stuck (S1_S2 ⟨ch, r', rfl, hc⟩)
        · intro as r1 _ hs
          obtain ⟨ch, r', rfl, hc⟩ := hs
          have hne : ∀ r, (Tok.punct ch :: r') ≠ .punct '@' :: r := by
            intro r e; cases e; simp at hc
          cases g with
          | zero => rw [pDirectives]; exact BadO.none
          | succ g =>
            rw [pDirectives_other c g _ hne]
            exact BadO.stuck (S1_S2 ⟨ch, r', rfl, hc⟩)
      · -- `@` not followed by a name
        have h1 : qDirective c (.punct '@' :: r0) = none :=
          qDirective_none c _ (fun nm r e => by cases e; exact hnm ⟨_, _, rfl⟩)
        have h2 : pDirectives P' c (g + 1) (.punct '@' :: r0) = none :=
          pDirectives_at_bad c _ r0 (fun nm r' e => hnm ⟨nm, r', e⟩)
        rw [h2]
        refine Or.inr ⟨?_, BadO.none⟩
        have : qDirsF c m (.punct '@' :: r0) = ([], .punct '@' :: r0) := by
          cases m with
          | zero => rfl
          | succ m => simp only [qDirsF, manyF, h1]
        rw [this]
        exact BadO.stuck ⟨'@', r0, rfl, by simp⟩
    · -- no `@`
      have h1 : qDirective c ts = none :=
        qDirective_none c _ (fun nm r e => hat ⟨_, e⟩)
      rw [pDirectives_other c g ts (fun r e => hat ⟨r, e⟩)]
      have : qDirsF c m ts = ([], ts) := by
        cases m with
        | zero => rfl
        | succ m => simp only [qDirsF, manyF, h1]
      rw [this]
      exact Or.inl rfl

/-- `directives?` as the PEG reads it, with the absent list as `[]` -/
def qOptDirs (c : Bool) : Sim (List PDirective) := tMap (fun o => o.getD []) (tOpt (qDirectives c))

theorem optRep1_eq {α : Type} {q : Sim α} (hS : Strict q) (ts : List Tok) :
    tMap (fun o => o.getD []) (tOpt (tRep1 q)) ts = some (manyF q ts.length ts) := by
  unfold tMap tOpt tRep1
  cases ts with
  | nil =>
    cases hq : q [] with
    | none => rfl
    | some x => have := hS _ _ _ hq; simp at this
  | cons t r =>
    simp only [List.length_cons, manyF]
    cases hq : q (t :: r) with
    | none => rfl
    | some x =>
      obtain ⟨a, r1⟩ := x
      have := hS _ _ _ hq
      simp only [List.length_cons] at this
      simp only [Option.map_some, Option.getD_some]
      rw [manyF_fuel hS r1.length r.length r1 (Nat.le_refl _) (by omega)]

theorem qOptDirs_eq (c : Bool) (ts : List Tok) : qOptDirs c ts = some (qDirsF c ts.length ts) :=
  optRep1_eq (strict_qDirective c) ts

theorem optDirs_agree (c : Bool) (ts : List Tok) : Agree S2 (qOptDirs c ts) (pDirs P' c ts) := by
  rw [qOptDirs_eq]
  exact dirs_agree c ts.length ts (Nat.le_refl _) _ _ (Nat.lt_succ_self _) (Nat.le_refl _)

theorem qOptDirs_some (c : Bool) (ts : List Tok) : ∃ ds r, qOptDirs c ts = some (ds, r) ∧ r.length ≤ ts.length := by
  rw [qOptDirs_eq]
  exact ⟨_, _, rfl, manyF_len (strict_qDirective c) _ _⟩

/-- on a text that starts no directive, `directives?` reads nothing -/
theorem qOptDirs_skip (c : Bool) (ts : List Tok) (h : ∀ r, ts ≠ .punct '@' :: r) : qOptDirs c ts = some ([], ts) := by
  rw [qOptDirs_eq]
  have h1 : qDirective c ts = none := qDirective_none c _ (fun nm r e => h _ e)
  cases ts with
  | nil => rfl
  | cons t r => simp only [qDirsF, List.length_cons, manyF, h1]

theorem pDirs_skip (c : Bool) (ts : List Tok) (h : ∀ r, ts ≠ .punct '@' :: r) : pDirs P' c ts = some ([], ts) :=
  pDirectives_other c _ ts h

theorem qOptArgs_skip (c : Bool) (ts : List Tok) (h : ∀ r, ts ≠ .punct '(' :: r) : qOptArgs c ts = some ([], ts) := by
  unfold qOptArgs tMap tOpt
  have : pArgsV c ts = none := by unfold pArgsV; rw [closeTok_none h]
  rw [this]; rfl

theorem pOptArgs_skip (c : Bool) (ts : List Tok) (h : ∀ r, ts ≠ .punct '(' :: r) : pOptArgs P' c ts = some ([], ts) := by
  rw [pOptArgs_eq, closeTok_none h]
end AGV.Lemmas.PegX
